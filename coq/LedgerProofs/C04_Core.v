(* C04 — frozen accounts and paused tokens cannot move funds: the two gate theorems.

   Everything is derived from the proved function specs (Spec_Supply, Spec_Transfers*, Spec_System):
   every spec gives (1) a FRAME (which cells may differ between pre- and post-state) and (2) the FLAGS
   that the call found clear in the state in which it passed the gate.  Two relations between states
   turn "frame + flags" into the property and compose along the steps of the multi transfer:

     FR a k s s'   if the entry of account a under key k is frozen in s, the cell (a, k) is the same in s'
     PR L s s'     for every account a <> SC and key P ++ x: if every token id of the list L that is a prefix
                   of x is paused in s, the cell (a, P ++ x) is the same in s'

   Both are reflexive and transitive (for PR this needs the prefix form: a step may rewrite the cell of the
   system account that holds the pause flag of another token of the list — only when the system account is
   itself a party of the transfer — and the token ids involved are then prefixes of one another).

   Main results (exec level, arbitrary E with codec_ok):
     frozen_entry_untouched      the frozen entry is byte-identical afterwards (all functions except the
                                 flag toggles ESDTFreeze / ESDTUnFreeze, which rewrite its Properties)
     frozen_no_balance_change    its balance is the same afterwards (all functions)
     paused_entry_untouched / paused_no_balance_change / paused_no_balance_change_ex / paused_call_changes_nothing
   with the exception list spelled out in the statements. *)
From EV Require Import Base.Bytes Base.Store Base.Monad gen.Consts Codec.Types Helpers.Helpers
  Ledger.Types Ledger.Env Ledger.Funcs Ledger.Transfers LedgerProofs.Defs LedgerProofs.EnvSpec
  LedgerProofs.Spec_Transfers_Base LedgerProofs.Spec_Transfers_Esdt LedgerProofs.Spec_Transfers_Nft
  LedgerProofs.Spec_Transfers_Multi LedgerProofs.Spec_Transfers LedgerProofs.Spec_Supply
  LedgerProofs.Spec_System.

(* ------------------------------------------------------------------------------------------ *)
(* What a call names                                                                            *)
(* ------------------------------------------------------------------------------------------ *)
(* the token identifiers a call names: the gate of every balance write consults the pause flag of the
   identifier the CALL gave for that write (argument 0; for the multi transfer the identifier of each triple) *)
Definition named_tokens (f : bytes) (i : input) : list bytes :=
  if beqb f C.BuiltInFunctionESDTTransfer then [argn i 0]
  else if beqb f C.BuiltInFunctionESDTBurn then [argn i 0]
  else if beqb f C.BuiltInFunctionESDTLocalBurn then [argn i 0]
  else if beqb f C.BuiltInFunctionESDTLocalMint then [argn i 0]
  else if beqb f C.BuiltInFunctionESDTNFTAddQuantity then [argn i 0]
  else if beqb f C.BuiltInFunctionESDTNFTBurn then [argn i 0]
  else if beqb f C.BuiltInFunctionESDTNFTCreate then [argn i 0]
  else if beqb f C.BuiltInFunctionESDTNFTTransfer then [argn i 0]
  else if beqb f C.BuiltInFunctionESDTNFTUpdateAttributes then [argn i 0]
  else if beqb f C.BuiltInFunctionESDTNFTAddURI then [argn i 0]
  else if beqb f C.BuiltInFunctionMultiESDTNFTTransfer then
    map rt_tok (if beqb (i_caller i) (i_rcpt i) then multi_snd_triples i else multi_dst_triples i)
  else [].

(* the (token id, nonce) pairs a call looks up in the CALLER's account and writes back (sender side of the
   NFT functions): F4b — the entry is written back under its metadata nonce, so the theorems about the
   frozen flag need the looked-up entries to be filed under their own nonce *)
Definition sender_lookups (f : bytes) (i : input) : list (bytes * N) :=
  if beqb f C.BuiltInFunctionESDTNFTAddQuantity then [(argn i 0, bigU64 (argn i 1))]
  else if beqb f C.BuiltInFunctionESDTNFTBurn then [(argn i 0, bigU64 (argn i 1))]
  else if beqb f C.BuiltInFunctionESDTNFTTransfer then
    if beqb (i_caller i) (i_rcpt i) then [(argn i 0, bigU64 (argn i 1))] else []
  else if beqb f C.BuiltInFunctionESDTNFTUpdateAttributes then [(argn i 0, bigU64 (argn i 1))]
  else if beqb f C.BuiltInFunctionESDTNFTAddURI then [(argn i 0, bigU64 (argn i 1))]
  else if beqb f C.BuiltInFunctionMultiESDTNFTTransfer then
    if beqb (i_caller i) (i_rcpt i) then map (fun x => (rt_tok x, rt_nonce x)) (multi_snd_triples i) else []
  else [].
Definition lookups_consistent (E : env) (f : bytes) (i : input) (s : mstate) : Prop :=
  Forall (fun p => lookup_consistent E s (i_caller i) (P ++ fst p) (snd p)) (sender_lookups f i).

Section Core.
  Variable E : env.
  Hypothesis Hc : codec_ok (cdc E).

  (* ---------------------------------------------------------------------------------------- *)
  (* observables are functions of the cell                                                      *)
  (* ---------------------------------------------------------------------------------------- *)
  Lemma cell_frozen_at s s' a k : cell s' a k = cell s a k -> frozen_at E s' a k = frozen_at E s a k.
  Proof. intros H. unfold frozen_at, tok_at. rewrite H. reflexivity. Qed.
  Lemma cell_balance s s' a k : cell s' a k = cell s a k -> balance E s' a k = balance E s a k.
  Proof. intros H. unfold balance. rewrite H. reflexivity. Qed.
  Lemma cell_tok_at s s' a k : cell s' a k = cell s a k -> tok_at E s' a k = tok_at E s a k.
  Proof. intros H. unfold tok_at. rewrite H. reflexivity. Qed.
  Lemma cell_paused_at s s' k : cell s' SYS k = cell s SYS k -> paused_at s' k = paused_at s k.
  Proof. intros H. unfold paused_at. rewrite H. reflexivity. Qed.
  Lemma accts_cell s s' a k : accts s' = accts s -> cell s' a k = cell s a k.
  Proof. intros H. apply cell_accts. exact H. Qed.

  (* ---------------------------------------------------------------------------------------- *)
  (* FR: a frozen entry is not rewritten                                                        *)
  (* ---------------------------------------------------------------------------------------- *)
  Definition FR (a k : bytes) (s s' : mstate) : Prop :=
    frozen_at E s a k = true -> cell s' a k = cell s a k.
  Lemma FR_refl a k s : FR a k s s.
  Proof. intros _. reflexivity. Qed.
  Lemma FR_trans a k s s1 s' : FR a k s s1 -> FR a k s1 s' -> FR a k s s'.
  Proof.
    intros H1 H2 Hf. specialize (H1 Hf). rewrite <- H1. apply H2. rewrite (cell_frozen_at _ _ _ _ H1). exact Hf.
  Qed.
  Lemma FR_accts a k s s' : accts s' = accts s -> FR a k s s'.
  Proof. intros H _. apply accts_cell. exact H. Qed.
  Lemma FR_silent a k s s' : silent E s s' -> FR a k s s'.
  Proof. intros [H _]. apply FR_accts. exact H. Qed.
  Lemma FR_rd a k s s' : rd E s s' -> FR a k s s'.
  Proof. intros H. apply FR_accts. eapply rd_accts; eauto. Qed.
  (* frame + "every cell of the frame that belongs to a was found not frozen" *)
  Lemma FR_frame (F : bytes -> bytes -> Prop) G a k s s' :
    unchanged_except F G s s' -> (F a k -> frozen_at E s a k = false) -> FR a k s s'.
  Proof.
    intros [Hu _] Hg Hf. apply Hu. intros HF. rewrite (Hg HF) in Hf. discriminate.
  Qed.

  (* ---------------------------------------------------------------------------------------- *)
  (* PR: cells of paused tokens are not rewritten                                               *)
  (* ---------------------------------------------------------------------------------------- *)
  (* every identifier of L that is a prefix of x is paused in s *)
  Definition all_paused (L : list bytes) (s : mstate) (x : bytes) : Prop :=
    forall tok r, In tok L -> x = tok ++ r -> paused_at s (P ++ tok) = true.
  Definition PR (L : list bytes) (s s' : mstate) : Prop :=
    forall a x, a <> SC -> all_paused L s x -> cell s' a (P ++ x) = cell s a (P ++ x).
  Lemma PR_refl L s : PR L s s.
  Proof. intros a x _ _. reflexivity. Qed.
  Lemma PR_accts L s s' : accts s' = accts s -> PR L s s'.
  Proof. intros H a x _ _. apply accts_cell. exact H. Qed.
  Lemma PR_silent L s s' : silent E s s' -> PR L s s'.
  Proof. intros [H _]. apply PR_accts. exact H. Qed.
  Lemma PR_rd L s s' : rd E s s' -> PR L s s'.
  Proof. intros H. apply PR_accts. eapply rd_accts; eauto. Qed.
  Lemma PR_mono L L' s s' : (forall t, In t L -> In t L') -> PR L s s' -> PR L' s s'.
  Proof. intros Hi H a x Ha Hp. apply H; [exact Ha|]. intros tok r Hin Hx. eapply Hp; eauto. Qed.
  (* the pause flags of the listed tokens that matter for x survive a PR step *)
  Lemma all_paused_step L s s1 x : PR L s s1 -> all_paused L s x -> all_paused L s1 x.
  Proof.
    intros H Hp tok r Hin Hx. rewrite <- (Hp tok r Hin Hx). apply cell_paused_at.
    apply H; [exact (fun e => SC_ne_SYS (eq_sym e))|].
    intros tok' r' Hin' Hx'. apply (Hp tok' (r' ++ r) Hin'). rewrite Hx, Hx', app_assoc. reflexivity.
  Qed.
  Lemma PR_trans L s s1 s' : PR L s s1 -> PR L s1 s' -> PR L s s'.
  Proof.
    intros H1 H2 a x Ha Hp. rewrite <- (H1 a x Ha Hp). apply H2; [exact Ha|]. eapply all_paused_step; eauto.
  Qed.
  (* frame + "every token cell of the frame was written through a gate that found a listed token unpaused" *)
  Lemma PR_frame L (F : bytes -> bytes -> Prop) G s s' :
    unchanged_except F G s s' ->
    (forall a x, F a (P ++ x) -> a <> SC -> exists tok r, In tok L /\ x = tok ++ r /\ paused_at s (P ++ tok) = false) ->
    PR L s s'.
  Proof.
    intros [Hu _] Hg a x Ha Hp. apply Hu. intros HF.
    destruct (Hg _ _ HF Ha) as (tok & r & Hin & Hk & Hpa).
    rewrite (Hp tok r Hin Hk) in Hpa. discriminate.
  Qed.
  Lemma nft_key_P tok n : nft_key (P ++ tok) n = P ++ tok ++ u64_bytes n.
  Proof. apply nft_key_app. Qed.

  (* all token cells equal: both relations hold trivially *)
  Lemma same_Pcells_FR s s' a x : (forall a x, cell s' a (P ++ x) = cell s a (P ++ x)) -> FR a (P ++ x) s s'.
  Proof. intros H _. apply H. Qed.
  Lemma same_Pcells_PR L s s' : (forall a x, cell s' a (P ++ x) = cell s a (P ++ x)) -> PR L s s'.
  Proof. intros H a x _ _. apply H. Qed.

  (* ---------------------------------------------------------------------------------------- *)
  (* the building blocks of the supply functions                                                *)
  (* ---------------------------------------------------------------------------------------- *)
  Lemma fe_FR a0 key d s s' a k : fungible_effect E a0 key d false s s' -> a <> SC -> FR a k s s'.
  Proof.
    intros [_ _ _ Hfp Hfr _ _] Ha. eapply FR_frame; [exact Hfr|].
    intros [-> ->]. apply (Hfp eq_refl Ha).
  Qed.
  Lemma fe_PR tok a0 d s s' : fungible_effect E a0 (P ++ tok) d false s s' -> PR [tok] s s'.
  Proof.
    intros [_ _ _ Hfp Hfr _ _]. eapply PR_frame; [exact Hfr|].
    intros a x [-> Hk] Ha. apply P_app_inj in Hk. subst x. exists tok, []. rewrite app_nil_r.
    split; [left; reflexivity|]. split; [reflexivity|]. apply (Hfp eq_refl Ha).
  Qed.
  Lemma nu_FR a0 key nonce t m t' s s' a k : nft_update E a0 key nonce t m t' false s s' ->
    lookup_consistent E s a0 key nonce -> a <> SC -> FR a k s s'.
  Proof.
    intros H Hl Ha. destruct H as [_ nu_found0 _ nu_meta0 _ _ nu_frozen_paused0 _ _ nu_frame0 _ _].
    specialize (Hl _ nu_found0). unfold tok_nonce in Hl. rewrite nu_meta0 in Hl.
    eapply FR_frame; [exact nu_frame0|]. intros [-> ->]. rewrite Hl. apply (nu_frozen_paused0 eq_refl Ha).
  Qed.
  Lemma nu_PR a0 tok nonce t m t' s s' : nft_update E a0 (P ++ tok) nonce t m t' false s s' -> PR [tok] s s'.
  Proof.
    intros H. destruct H as [_ nu_found0 _ nu_meta0 _ _ nu_frozen_paused0 _ _ nu_frame0 _ _].
    eapply PR_frame; [exact nu_frame0|].
    intros a x [-> Hk] Ha. rewrite nft_key_P in Hk. apply P_app_inj in Hk. subst x.
    exists tok, (u64_bytes (md_nonce m)). split; [left; reflexivity|]. split; [reflexivity|].
    apply (nu_frozen_paused0 eq_refl Ha).
  Qed.

  (* ---------------------------------------------------------------------------------------- *)
  (* the steps of the multi transfer                                                            *)
  (* ---------------------------------------------------------------------------------------- *)
  Lemma os_FR caller dst dl vf tok nonce q t s t2 s1 a k :
    one_snd_post E caller dst dl vf false tok nonce q t s t2 s1 ->
    lookup_consistent E s caller (P ++ tok) nonce -> a <> SC -> FR a k s s1.
  Proof.
    intros H Hl Ha. destruct H. destruct os_debit as (s0 & D & _). destruct D.
    specialize (Hl _ db_entry).
    eapply FR_frame; [exact os_frame|]. intros [-> [->|[Hd ->]]].
    - rewrite Hl. apply (db_flags eq_refl Ha).
    - apply (os_dst_flags Hd eq_refl Ha).
  Qed.
  Lemma os_PR caller dst dl vf tok nonce q t s t2 s1 :
    one_snd_post E caller dst dl vf false tok nonce q t s t2 s1 -> PR [tok] s s1.
  Proof.
    intros H. destruct H. destruct os_debit as (s0 & D & _). destruct D.
    eapply PR_frame; [exact os_frame|]. intros a x [Hk Hwho] Ha.
    rewrite nft_key_P in Hk. apply P_app_inj in Hk. subst x.
    exists tok, (u64_bytes (tok_nonce t)). split; [left; reflexivity|]. split; [reflexivity|].
    destruct Hwho as [->|[Hd ->]].
    - apply (db_flags eq_refl Ha).
    - apply (os_dst_flags Hd eq_refl Ha).
  Qed.
  Lemma snd_steps_FR caller dst dl vf trs s s' lst a k :
    dst <> caller -> snd_steps E caller dst dl vf false trs s s' lst ->
    triples_consistent E s caller trs -> a <> SC -> FR a k s s'.
  Proof.
    intros Hne Hs. induction Hs as [s|x rest s s1 s' t t2 l Hone Hrest IH]; intros Hcs Ha.
    - apply FR_refl.
    - unfold triples_consistent in Hcs. inversion Hcs as [|? ? Hx Hr]; subst.
      eapply FR_trans; [eapply os_FR; eauto|]. apply IH; [|exact Ha].
      assert (Hn : tok_nonce t = rt_nonce x).
      { destruct Hone. destruct os_debit as (s0 & D & _). destruct D. apply Hx. exact db_entry. }
      unfold triples_consistent. eapply Forall_impl; [|exact Hr]. intros y Hy. cbv beta in *.
      eapply one_snd_post_consistent; eauto.
  Qed.
  Lemma snd_steps_PR caller dst dl vf trs s s' lst :
    snd_steps E caller dst dl vf false trs s s' lst -> PR (map rt_tok trs) s s'.
  Proof.
    intros Hs. induction Hs as [s|x rest s s1 s' t t2 l Hone Hrest IH].
    - apply PR_refl.
    - eapply PR_trans.
      + eapply PR_mono; [|eapply os_PR; eauto]. intros y [<-|[]]. left. reflexivity.
      + eapply PR_mono; [|exact IH]. intros y Hy. right. exact Hy.
  Qed.

  Lemma od_FR rcpt vf x s s1 a k : one_dst_post E rcpt vf false x s s1 -> a <> SC -> FR a k s s1.
  Proof.
    intros H Ha. destruct H. destruct (N.eq_dec (rt_nonce x) 0) as [Hz|Hnz].
    - destruct (od_fungible Hz) as (_ & _ & Hfl & Hu).
      eapply FR_frame; [exact Hu|]. intros [-> ->]. apply (Hfl eq_refl Ha).
    - destruct (od_nft ltac:(lia)) as (t & _ & _ & _ & _ & _ & Hfl & _ & _ & Hu).
      eapply FR_frame; [exact Hu|]. intros [-> ->]. apply (Hfl eq_refl Ha).
  Qed.
  Lemma od_PR rcpt vf x s s1 : one_dst_post E rcpt vf false x s s1 -> PR [rt_tok x] s s1.
  Proof.
    intros H. destruct H. destruct (N.eq_dec (rt_nonce x) 0) as [Hz|Hnz].
    - destruct (od_fungible Hz) as (_ & _ & Hfl & Hu).
      eapply PR_frame; [exact Hu|]. intros a y [-> Hk] Ha. apply P_app_inj in Hk. subst y.
      exists (rt_tok x), []. rewrite app_nil_r. split; [left; reflexivity|]. split; [reflexivity|].
      apply (Hfl eq_refl Ha).
    - destruct (od_nft ltac:(lia)) as (t & _ & _ & _ & _ & _ & Hfl & _ & _ & Hu).
      eapply PR_frame; [exact Hu|]. intros a y [-> Hk] Ha. rewrite nft_key_P in Hk. apply P_app_inj in Hk. subst y.
      exists (rt_tok x), (u64_bytes (tok_nonce t)). split; [left; reflexivity|]. split; [reflexivity|].
      apply (Hfl eq_refl Ha).
  Qed.
  Lemma dst_steps_FR rcpt vf trs s s' a k : dst_steps E rcpt vf false trs s s' -> a <> SC -> FR a k s s'.
  Proof.
    intros Hs Ha. induction Hs as [s|x rest s s1 s' Hone Hrest IH].
    - apply FR_refl.
    - eapply FR_trans; [eapply od_FR; eauto|exact IH].
  Qed.
  Lemma dst_steps_PR rcpt vf trs s s' : dst_steps E rcpt vf false trs s s' -> PR (map rt_tok trs) s s'.
  Proof.
    intros Hs. induction Hs as [s|x rest s s1 s' Hone Hrest IH].
    - apply PR_refl.
    - eapply PR_trans.
      + eapply PR_mono; [|eapply od_PR; eauto]. intros y [<-|[]]. left. reflexivity.
      + eapply PR_mono; [|exact IH]. intros y Hy. right. exact Hy.
  Qed.

  (* ---------------------------------------------------------------------------------------- *)
  (* per function (f_xxx level): FR for every cell, PR for the tokens the call names            *)
  (* ---------------------------------------------------------------------------------------- *)
  Lemma local_mint_gates i s o s' : f_local_mint E i s = (Ok o, s') -> i_rae i = false ->
    (forall a k, a <> SC -> FR a k s s') /\ PR [argn i 0] s s'.
  Proof.
    intros H Hr. apply (f_local_mint_spec E Hc) in H. pose proof (lm_effect E i s o s' H) as He. rewrite Hr in He.
    split; [intros; eapply fe_FR; eauto|eapply fe_PR; eauto].
  Qed.
  Lemma local_burn_gates i s o s' : f_local_burn E i s = (Ok o, s') -> i_rae i = false ->
    (forall a k, a <> SC -> FR a k s s') /\ PR [argn i 0] s s'.
  Proof.
    intros H Hr. apply (f_local_burn_spec E Hc) in H. pose proof (lb_effect E i s o s' H) as He. rewrite Hr in He.
    split; [intros; eapply fe_FR; eauto|eapply fe_PR; eauto].
  Qed.
  Lemma esdt_burn_gates i s o s' : f_esdt_burn E i s = (Ok o, s') -> i_rae i = false ->
    (forall a k, a <> SC -> FR a k s s') /\ PR [argn i 0] s s'.
  Proof.
    intros H Hr. apply (f_esdt_burn_spec E Hc) in H. pose proof (eb_effect E i s o s' H) as He. rewrite Hr in He.
    split; [intros; eapply fe_FR; eauto|eapply fe_PR; eauto].
  Qed.
  (* create writes the cell under the next nonce whatever it holds: no gate on the frozen flag there *)
  Lemma nft_create_gates i s o s' : f_nft_create E i s = (Ok o, s') -> i_rae i = false ->
    (forall a x, ~ (a = i_caller i /\ x = argn i 0 ++ u64_bytes (create_nonce i s)) -> FR a (P ++ x) s s')
    /\ PR [argn i 0] s s'.
  Proof.
    intros H Hr. apply (f_nft_create_spec E Hc) in H.
    pose proof (nc_frame E i s o s' H) as Hu. pose proof (nc_paused E i s o s' H Hr) as Hp. split.
    - intros a x Hn _. destruct Hu as [Hu _]. apply Hu. intros [-> [Hk|Hk]].
      + rewrite nft_key_P in Hk. apply P_app_inj in Hk. apply Hn. auto.
      + revert Hk. apply P_NP_disjoint.
    - eapply PR_frame; [exact Hu|]. intros a x [-> [Hk|Hk]] Ha.
      + rewrite nft_key_P in Hk. apply P_app_inj in Hk. subst x.
        exists (argn i 0), (u64_bytes (create_nonce i s)). split; [left; reflexivity|]. split; [reflexivity|].
        apply (Hp Ha).
      + exfalso. revert Hk. apply P_NP_disjoint.
  Qed.
  Definition lc1 (i : input) (s : mstate) : Prop :=
    lookup_consistent E s (i_caller i) (P ++ argn i 0) (bigU64 (argn i 1)).
  Lemma nft_add_quantity_gates i s o s' : f_nft_add_quantity E i s = (Ok o, s') -> i_rae i = false ->
    (forall a k, lc1 i s -> a <> SC -> FR a k s s') /\ PR [argn i 0] s s'.
  Proof.
    intros H Hr. apply (f_nft_add_quantity_spec E Hc) in H as (t & m & v & H).
    pose proof (aq_update E i s o s' t m v H) as Hu. rewrite Hr in Hu.
    split; [intros; eapply nu_FR; eauto|eapply nu_PR; eauto].
  Qed.
  Lemma nft_burn_gates i s o s' : f_nft_burn E i s = (Ok o, s') -> i_rae i = false ->
    (forall a k, lc1 i s -> a <> SC -> FR a k s s') /\ PR [argn i 0] s s'.
  Proof.
    intros H Hr. apply (f_nft_burn_spec E Hc) in H as (t & m & v & H).
    pose proof (nb_update E i s o s' t m v H) as Hu. rewrite Hr in Hu.
    split; [intros; eapply nu_FR; eauto|eapply nu_PR; eauto].
  Qed.
  Lemma nft_add_uri_gates i s o s' : f_nft_add_uri E i s = (Ok o, s') -> i_rae i = false ->
    (forall a k, lc1 i s -> a <> SC -> FR a k s s') /\ PR [argn i 0] s s'.
  Proof.
    intros H Hr. apply (f_nft_add_uri_spec E Hc) in H as (t & m & v & H).
    pose proof (au_update E i s o s' t m v H) as Hu. rewrite Hr in Hu.
    split; [intros; eapply nu_FR; eauto|eapply nu_PR; eauto].
  Qed.
  Lemma nft_update_attributes_gates i s o s' : f_nft_update_attributes E i s = (Ok o, s') -> i_rae i = false ->
    (forall a k, lc1 i s -> a <> SC -> FR a k s s') /\ PR [argn i 0] s s'.
  Proof.
    intros H Hr. apply (f_nft_update_attributes_spec E Hc) in H as (t & m & v & H).
    pose proof (ua_update E i s o s' t m v H) as Hu. rewrite Hr in Hu.
    split; [intros; eapply nu_FR; eauto|eapply nu_PR; eauto].
  Qed.

  Lemma esdt_transfer_gates i s o s' : f_esdt_transfer E i s = (Ok o, s') -> i_rae i = false ->
    (forall a k, a <> SC -> FR a k s s') /\ PR [argn i 0] s s'.
  Proof.
    intros H Hr. apply (esdt_transfer_spec E Hc) in H.
    pose proof (ep_frame E i s o s' H) as Hu.
    pose proof (ep_snd_flags E i s o s' H) as Hs. pose proof (ep_dst_flags E i s o s' H) as Hd. split.
    - intros a k Ha. eapply FR_frame; [exact Hu|]. unfold esdt_cells.
      intros [-> [[Hx ->]|[Hx ->]]]; [apply (Hs Hx Hr Ha)|apply (Hd Hx Hr Ha)].
    - eapply PR_frame; [exact Hu|]. unfold esdt_cells, esdt_key in *. intros a x [Hk Hwho] Ha.
      apply P_app_inj in Hk. subst x. exists (argn i 0), []. rewrite app_nil_r.
      split; [left; reflexivity|]. split; [reflexivity|].
      destruct Hwho as [[Hx ->]|[Hx ->]]; [apply (Hs Hx Hr Ha)|apply (Hd Hx Hr Ha)].
  Qed.

  Lemma nft_transfer_gates i s o s' : f_nft_transfer E i s = (Ok o, s') -> i_rae i = false ->
    (forall a k, (i_caller i = i_rcpt i -> lc1 i s) -> a <> SC -> FR a k s s') /\ PR [argn i 0] s s'.
  Proof.
    intros H Hr. apply (nft_transfer_spec E Hc) in H as (_ & _ & H).
    destruct (beqb_spec (i_caller i) (i_rcpt i)) as [Heq|Hne].
    - destruct H as (t & H).
      pose proof (ns_frame E i t s o s' H) as Hu. pose proof (ns_dst_flags E i t s o s' H) as Hd.
      destruct (ns_debit E i t s o s' H) as (s1 & D & _). rewrite Hr in D.
      pose proof (db_entry E _ _ _ _ _ _ _ _ D) as He. pose proof (db_flags E _ _ _ _ _ _ _ _ D eq_refl) as Hs.
      unfold nft_full, nft_tkey, nft_nonce in *. split.
      + intros a k Hl Ha. specialize (Hl Heq _ He).
        eapply FR_frame; [exact Hu|]. intros [-> [->|[Hsame ->]]].
        * rewrite Hl. apply (Hs Ha).
        * apply (Hd Hsame Hr Ha).
      + eapply PR_frame; [exact Hu|]. intros a x [Hk Hwho] Ha.
        rewrite nft_key_P in Hk. apply P_app_inj in Hk. subst x.
        exists (argn i 0), (u64_bytes (tok_nonce t)). split; [left; reflexivity|]. split; [reflexivity|].
        destruct Hwho as [->|[Hsame ->]]; [apply (Hs Ha)|apply (Hd Hsame Hr Ha)].
    - destruct H as (t & H).
      pose proof (nd_frame E i t s o s' H) as Hu. pose proof (nd_flags E i t s o s' H Hr) as Hd.
      unfold nft_full, nft_tkey in *. split.
      + intros a k _ Ha. eapply FR_frame; [exact Hu|]. intros [-> ->]. apply (Hd Ha).
      + eapply PR_frame; [exact Hu|]. intros a x [-> Hk] Ha.
        rewrite nft_key_P in Hk. apply P_app_inj in Hk. subst x.
        exists (argn i 0), (u64_bytes (tok_nonce t)). split; [left; reflexivity|]. split; [reflexivity|].
        apply (Hd Ha).
  Qed.

  Lemma triples_consistent_accts s s0 caller trs : accts s0 = accts s ->
    triples_consistent E s caller trs -> triples_consistent E s0 caller trs.
  Proof.
    intros Ha. unfold triples_consistent. apply Forall_impl. intros x Hx t Ht. apply Hx.
    rewrite <- Ht. symmetry. apply tok_at_accts. exact Ha.
  Qed.
  Lemma multi_transfer_gates i s o s' : f_multi_transfer E i s = (Ok o, s') -> i_rae i = false ->
    (forall a k, (i_caller i = i_rcpt i -> triples_consistent E s (i_caller i) (multi_snd_triples i)) -> a <> SC ->
                 FR a k s s')
    /\ PR (map rt_tok (if beqb (i_caller i) (i_rcpt i) then multi_snd_triples i else multi_dst_triples i)) s s'.
  Proof.
    intros H Hr. apply (multi_transfer_spec E Hc) in H as (_ & _ & H).
    destruct (beqb_spec (i_caller i) (i_rcpt i)) as [Heq|Hne].
    - destruct H as (lst & H). pose proof (mp_dst_ne E i lst s o s' H) as Hdne.
      destruct (mp_steps E i lst s o s' H) as (s0 & s1 & S0 & St & S1). rewrite Hr in St. split.
      + intros a k Hl Ha. eapply FR_trans; [apply FR_silent; exact S0|].
        eapply FR_trans; [|apply FR_silent; exact S1].
        eapply (snd_steps_FR _ _ _ _ _ _ _ _ a k Hdne St); [|exact Ha].
        eapply triples_consistent_accts; [apply S0|]. auto.
      + eapply PR_trans; [apply PR_silent; exact S0|].
        eapply PR_trans; [|apply PR_silent; exact S1]. eapply snd_steps_PR; eauto.
    - destruct (mq_steps E i s o s' H) as (s0 & S0 & St). rewrite Hr in St. split.
      + intros a k _ Ha. eapply FR_trans; [apply FR_silent; exact S0|]. eapply dst_steps_FR; eauto.
      + eapply PR_trans; [apply PR_silent; exact S0|]. eapply dst_steps_PR; eauto.
  Qed.

  (* ---------------------------------------------------------------------------------------- *)
  (* through the dispatch: all functions except the flag toggles and wipe                       *)
  (* ---------------------------------------------------------------------------------------- *)
  Lemma cells_gates s s' : (forall a x, cell s' a (P ++ x) = cell s a (P ++ x)) ->
    forall L, (forall a x, FR a (P ++ x) s s') /\ PR L s s'.
  Proof. intros H L. split; [intros a x _; apply H|intros a x _ _; apply H]. Qed.

  Ltac closed_beqb :=
    repeat match goal with
    | |- context[beqb ?a ?b] =>
        let v := eval vm_compute in (beqb a b) in
        match v with
        | true => change (beqb a b) with true
        | false => change (beqb a b) with false
        end
    end; cbv iota.
  Ltac by_cells Hcell :=
    let G := fresh in
    match goal with |- _ /\ PR ?L _ _ => destruct (cells_gates _ _ Hcell L) as [G ?] end;
    split; [intros; apply G|assumption].
  Ltac one_lookup Hl := apply Forall_inv in Hl; exact Hl.

  Lemma exec_gates f i s o s' :
    exec E f i s = (Ok o, s') -> i_rae i = false ->
    f <> C.BuiltInFunctionESDTFreeze -> f <> C.BuiltInFunctionESDTUnFreeze -> f <> C.BuiltInFunctionESDTWipe ->
    f <> C.BuiltInFunctionESDTPause -> f <> C.BuiltInFunctionESDTUnPause ->
    (forall a x, a <> SC -> lookups_consistent E f i s ->
        ~ (f = C.BuiltInFunctionESDTNFTCreate /\ a = i_caller i /\ x = argn i 0 ++ u64_bytes (create_nonce i s)) ->
        FR a (P ++ x) s s')
    /\ PR (named_tokens f i) s s'.
  Proof.
    unfold exec, lookups_consistent, sender_lookups, named_tokens.
    destruct (beqb_spec f C.BuiltInFunctionClaimDeveloperRewards) as [->|N01]; [closed_beqb|].
    { intros H Hr _ _ _ _ _. apply claim_rewards_spec in H as (_ & _ & _ & Hcell & _).
      assert (Hc' : forall a x, cell s' a (P ++ x) = cell s a (P ++ x)) by (intros; apply Hcell). by_cells Hc'. }
    destruct (beqb_spec f C.BuiltInFunctionChangeOwnerAddress) as [->|N02]; [closed_beqb|].
    { intros H Hr _ _ _ _ _. apply change_owner_spec in H as (_ & a0 & rest & _ & _ & _ & _ & _ & _ & Hcell & _).
      assert (Hc' : forall a x, cell s' a (P ++ x) = cell s a (P ++ x)) by (intros; apply Hcell). by_cells Hc'. }
    destruct (beqb_spec f C.BuiltInFunctionSetUserName) as [->|N03]; [closed_beqb|].
    { intros H Hr _ _ _ _ _. apply set_user_name_spec in H as (_ & a0 & _ & _ & _ & Hcell & _).
      assert (Hc' : forall a x, cell s' a (P ++ x) = cell s a (P ++ x)) by (intros; apply Hcell). by_cells Hc'. }
    destruct (beqb_spec f C.BuiltInFunctionSaveKeyValue) as [->|N04]; [closed_beqb|].
    { intros H Hr _ _ _ _ _.
      assert (Hc' : forall a x, cell s' a (P ++ x) = cell s a (P ++ x)).
      { intros a x. eapply savekv_never_protected; [exact H|apply P_protected]. }
      by_cells Hc'. }
    destruct (beqb_spec f C.BuiltInFunctionESDTPause) as [->|N05]; [intros; congruence|].
    destruct (beqb_spec f C.BuiltInFunctionESDTUnPause) as [->|N06]; [intros; congruence|].
    destruct (beqb_spec f C.BuiltInFunctionESDTTransfer) as [->|N07]; [closed_beqb|].
    { intros H Hr _ _ _ _ _. destruct (esdt_transfer_gates _ _ _ _ H Hr) as [HF HP].
      split; [intros a x Ha _ _; apply HF; exact Ha|exact HP]. }
    destruct (beqb_spec f C.BuiltInFunctionESDTBurn) as [->|N08]; [closed_beqb|].
    { intros H Hr _ _ _ _ _. destruct (esdt_burn_gates _ _ _ _ H Hr) as [HF HP].
      split; [intros a x Ha _ _; apply HF; exact Ha|exact HP]. }
    destruct (beqb_spec f C.BuiltInFunctionESDTFreeze) as [->|N09]; [intros; congruence|].
    destruct (beqb_spec f C.BuiltInFunctionESDTUnFreeze) as [->|N10]; [intros; congruence|].
    destruct (beqb_spec f C.BuiltInFunctionESDTWipe) as [->|N11]; [intros; congruence|].
    destruct (beqb_spec f C.BuiltInFunctionUnSetESDTRole) as [->|N12]; [closed_beqb|].
    { intros H Hr _ _ _ _ _. apply (roles_spec E Hc) in H as (_ & tok & rs & _ & _ & _ & _ & [Hu _] & _).
      assert (Hc' : forall a x, cell s' a (P ++ x) = cell s a (P ++ x)).
      { intros a x. apply Hu. intros [_ Hk]. revert Hk. apply P_RP_disjoint. }
      by_cells Hc'. }
    destruct (beqb_spec f C.BuiltInFunctionSetESDTRole) as [->|N13]; [closed_beqb|].
    { intros H Hr _ _ _ _ _. apply (roles_spec E Hc) in H as (_ & tok & rs & _ & _ & _ & _ & [Hu _] & _).
      assert (Hc' : forall a x, cell s' a (P ++ x) = cell s a (P ++ x)).
      { intros a x. apply Hu. intros [_ Hk]. revert Hk. apply P_RP_disjoint. }
      by_cells Hc'. }
    destruct (beqb_spec f C.BuiltInFunctionESDTLocalBurn) as [->|N14]; [closed_beqb|].
    { intros H Hr _ _ _ _ _. destruct (local_burn_gates _ _ _ _ H Hr) as [HF HP].
      split; [intros a x Ha _ _; apply HF; exact Ha|exact HP]. }
    destruct (beqb_spec f C.BuiltInFunctionESDTLocalMint) as [->|N15]; [closed_beqb|].
    { intros H Hr _ _ _ _ _. destruct (local_mint_gates _ _ _ _ H Hr) as [HF HP].
      split; [intros a x Ha _ _; apply HF; exact Ha|exact HP]. }
    destruct (beqb_spec f C.BuiltInFunctionESDTNFTAddQuantity) as [->|N16]; [closed_beqb|].
    { intros H Hr _ _ _ _ _. destruct (nft_add_quantity_gates _ _ _ _ H Hr) as [HF HP].
      split; [intros a x Ha Hl _; apply HF; [one_lookup Hl|exact Ha]|exact HP]. }
    destruct (beqb_spec f C.BuiltInFunctionESDTNFTBurn) as [->|N17]; [closed_beqb|].
    { intros H Hr _ _ _ _ _. destruct (nft_burn_gates _ _ _ _ H Hr) as [HF HP].
      split; [intros a x Ha Hl _; apply HF; [one_lookup Hl|exact Ha]|exact HP]. }
    destruct (beqb_spec f C.BuiltInFunctionESDTNFTCreate) as [->|N18]; [closed_beqb|].
    { intros H Hr _ _ _ _ _. destruct (nft_create_gates _ _ _ _ H Hr) as [HF HP].
      split; [intros a x Ha _ Hn; apply HF; intros [X Y]; apply Hn; auto|exact HP]. }
    destruct (beqb_spec f C.BuiltInFunctionESDTNFTTransfer) as [->|N19]; [closed_beqb|].
    { intros H Hr _ _ _ _ _. destruct (nft_transfer_gates _ _ _ _ H Hr) as [HF HP].
      split; [|exact HP]. intros a x Ha Hl _. apply HF; [|exact Ha].
      intros Heq. apply beqb_true in Heq. rewrite Heq in Hl. one_lookup Hl. }
    destruct (beqb_spec f C.BuiltInFunctionESDTNFTCreateRoleTransfer) as [->|N20]; [closed_beqb|].
    { intros H Hr _ _ _ _ _. apply (role_transfer_frame E Hc) in H as (tok & a1 & _ & [Hu _] & _).
      assert (Hc' : forall a x, cell s' a (P ++ x) = cell s a (P ++ x)).
      { intros a x. apply Hu. intros [_ [Hk|Hk]]; revert Hk; [apply P_NP_disjoint|apply P_RP_disjoint]. }
      by_cells Hc'. }
    destruct (beqb_spec f C.BuiltInFunctionESDTNFTUpdateAttributes) as [->|N21]; [closed_beqb|].
    { intros H Hr _ _ _ _ _. destruct (nft_update_attributes_gates _ _ _ _ H Hr) as [HF HP].
      split; [intros a x Ha Hl _; apply HF; [one_lookup Hl|exact Ha]|exact HP]. }
    destruct (beqb_spec f C.BuiltInFunctionESDTNFTAddURI) as [->|N22]; [closed_beqb|].
    { intros H Hr _ _ _ _ _. destruct (nft_add_uri_gates _ _ _ _ H Hr) as [HF HP].
      split; [intros a x Ha Hl _; apply HF; [one_lookup Hl|exact Ha]|exact HP]. }
    destruct (beqb_spec f C.BuiltInFunctionMultiESDTNFTTransfer) as [->|N23]; [closed_beqb|].
    { intros H Hr _ _ _ _ _. destruct (multi_transfer_gates _ _ _ _ H Hr) as [HF HP].
      split; [|exact HP]. intros a x Ha Hl _. apply HF; [|exact Ha].
      intros Heq. apply beqb_true in Heq. rewrite Heq in Hl. rewrite Forall_map in Hl. exact Hl. }
    intros H. unfold fail in H. discriminate.
  Qed.

  (* ---------------------------------------------------------------------------------------- *)
  (* the functions outside the gate discipline: wipe and the pause toggles (one cell each)      *)
  (* ---------------------------------------------------------------------------------------- *)
  Lemma argn0_single i tok : i_args i = [tok] -> argn i 0 = tok.
  Proof. intros H. unfold argn. rewrite H. reflexivity. Qed.
  Lemma wipe_cells i s o s' : exec E C.BuiltInFunctionESDTWipe i s = (Ok o, s') ->
    forall a x, ~ (a = i_rcpt i /\ x = argn i 0) -> cell s' a (P ++ x) = cell s a (P ++ x).
  Proof.
    rewrite exec_wipe. intros H a x Hn.
    apply (wipe_spec E Hc) in H as (_ & tok & t & Ha & _ & _ & _ & _ & _ & _ & _ & _ & [Hu _] & _).
    apply Hu. intros [-> Hk]. apply P_app_inj in Hk. apply Hn. rewrite (argn0_single _ _ Ha). auto.
  Qed.
  Lemma pause_cells f i s o s' : exec E f i s = (Ok o, s') ->
    f = C.BuiltInFunctionESDTPause \/ f = C.BuiltInFunctionESDTUnPause ->
    forall a x, ~ (a = SYS /\ x = argn i 0) -> cell s' a (P ++ x) = cell s a (P ++ x).
  Proof.
    intros H Hf a x Hn.
    assert (Hp : exists p, f_pause E p i s = (Ok o, s')).
    { destruct Hf as [-> | ->]; [rewrite exec_pause in H|rewrite exec_unpause in H]; eauto. }
    destruct Hp as (p & Hp). apply pause_spec in Hp as (_ & tok & Ha & _ & _ & _ & _ & [Hu _] & _).
    apply Hu. intros [-> Hk]. apply P_app_inj in Hk. apply Hn. rewrite (argn0_single _ _ Ha). auto.
  Qed.
  Lemma freeze_balances f i s o s' : exec E f i s = (Ok o, s') ->
    f = C.BuiltInFunctionESDTFreeze \/ f = C.BuiltInFunctionESDTUnFreeze ->
    forall a k, balance E s' a k = balance E s a k.
  Proof.
    intros H [-> | ->]; [rewrite exec_freeze in H|rewrite exec_unfreeze in H];
      eapply system_balance_effect_freeze; eauto.
  Qed.

  (* ---------------------------------------------------------------------------------------- *)
  (* THEOREM 1: a frozen entry                                                                  *)
  (* ---------------------------------------------------------------------------------------- *)
  Theorem frozen_entry_untouched f i s o s' a x :
    exec E f i s = (Ok o, s') ->
    frozen_at E s a (P ++ x) = true ->
    i_rae i = false -> a <> SC ->
    lookups_consistent E f i s ->
    f <> C.BuiltInFunctionESDTFreeze -> f <> C.BuiltInFunctionESDTUnFreeze ->
    ~ (f = C.BuiltInFunctionESDTWipe /\ a = i_rcpt i /\ x = argn i 0) ->
    ~ ((f = C.BuiltInFunctionESDTPause \/ f = C.BuiltInFunctionESDTUnPause) /\ a = SYS /\ x = argn i 0) ->
    ~ (f = C.BuiltInFunctionESDTNFTCreate /\ a = i_caller i /\ x = argn i 0 ++ u64_bytes (create_nonce i s)) ->
    cell s' a (P ++ x) = cell s a (P ++ x).
  Proof.
    intros H Hfz Hr Ha Hl Nf Nu Nw Np Nc.
    destruct (beqb_spec f C.BuiltInFunctionESDTWipe) as [->|N1].
    { eapply wipe_cells; eauto. }
    destruct (beqb_spec f C.BuiltInFunctionESDTPause) as [->|N2].
    { eapply pause_cells; eauto. }
    destruct (beqb_spec f C.BuiltInFunctionESDTUnPause) as [->|N3].
    { eapply pause_cells; eauto. }
    destruct (exec_gates _ _ _ _ _ H Hr Nf Nu N1 N2 N3) as [HF _].
    apply (HF a x Ha Hl Nc Hfz).
  Qed.

  Theorem frozen_no_balance_change f i s o s' a x :
    exec E f i s = (Ok o, s') ->
    frozen_at E s a (P ++ x) = true ->
    i_rae i = false -> a <> SC ->
    lookups_consistent E f i s ->
    ~ (f = C.BuiltInFunctionESDTWipe /\ a = i_rcpt i /\ x = argn i 0) ->
    ~ ((f = C.BuiltInFunctionESDTPause \/ f = C.BuiltInFunctionESDTUnPause) /\ a = SYS /\ x = argn i 0) ->
    ~ (f = C.BuiltInFunctionESDTNFTCreate /\ a = i_caller i /\ x = argn i 0 ++ u64_bytes (create_nonce i s)) ->
    balance E s' a (P ++ x) = balance E s a (P ++ x).
  Proof.
    intros H Hfz Hr Ha Hl Nw Np Nc.
    destruct (beqb_spec f C.BuiltInFunctionESDTFreeze) as [->|N1].
    { eapply freeze_balances; eauto. }
    destruct (beqb_spec f C.BuiltInFunctionESDTUnFreeze) as [->|N2].
    { eapply freeze_balances; eauto. }
    apply cell_balance. eapply frozen_entry_untouched; eauto.
  Qed.

  (* ---------------------------------------------------------------------------------------- *)
  (* THEOREM 2: a paused token                                                                  *)
  (* ---------------------------------------------------------------------------------------- *)
  Theorem paused_entry_untouched f i s o s' a x :
    exec E f i s = (Ok o, s') ->
    i_rae i = false -> a <> SC ->
    f <> C.BuiltInFunctionESDTFreeze -> f <> C.BuiltInFunctionESDTUnFreeze ->
    ~ (f = C.BuiltInFunctionESDTWipe /\ a = i_rcpt i /\ x = argn i 0) ->
    ~ ((f = C.BuiltInFunctionESDTPause \/ f = C.BuiltInFunctionESDTUnPause) /\ a = SYS /\ x = argn i 0) ->
    all_paused (named_tokens f i) s x ->
    cell s' a (P ++ x) = cell s a (P ++ x).
  Proof.
    intros H Hr Ha Nf Nu Nw Np Hp.
    destruct (beqb_spec f C.BuiltInFunctionESDTWipe) as [->|N1].
    { eapply wipe_cells; eauto. }
    destruct (beqb_spec f C.BuiltInFunctionESDTPause) as [->|N2].
    { eapply pause_cells; eauto. }
    destruct (beqb_spec f C.BuiltInFunctionESDTUnPause) as [->|N3].
    { eapply pause_cells; eauto. }
    destruct (exec_gates _ _ _ _ _ H Hr Nf Nu N1 N2 N3) as [_ HP].
    apply (HP a x Ha Hp).
  Qed.

  Theorem paused_no_balance_change f i s o s' a x :
    exec E f i s = (Ok o, s') ->
    i_rae i = false -> a <> SC ->
    ~ (f = C.BuiltInFunctionESDTWipe /\ a = i_rcpt i /\ x = argn i 0) ->
    ~ ((f = C.BuiltInFunctionESDTPause \/ f = C.BuiltInFunctionESDTUnPause) /\ a = SYS /\ x = argn i 0) ->
    all_paused (named_tokens f i) s x ->
    balance E s' a (P ++ x) = balance E s a (P ++ x).
  Proof.
    intros H Hr Ha Nw Np Hp.
    destruct (beqb_spec f C.BuiltInFunctionESDTFreeze) as [->|N1].
    { eapply freeze_balances; eauto. }
    destruct (beqb_spec f C.BuiltInFunctionESDTUnFreeze) as [->|N2].
    { eapply freeze_balances; eauto. }
    apply cell_balance. eapply paused_entry_untouched; eauto.
  Qed.

  (* "every listed identifier that is a prefix of x is paused" is decidable *)
  Lemma all_paused_dec L s x :
    all_paused L s x \/ exists tok r, In tok L /\ x = tok ++ r /\ paused_at s (P ++ tok) = false.
  Proof.
    induction L as [|t L IH].
    - left. intros tok r [].
    - destruct IH as [IH|(tok & r & Hin & Hx & Hp)]; [|right; exists tok, r; split; [right; exact Hin|auto]].
      destruct (prefix_of t x) eqn:Ep.
      + apply prefix_of_true in Ep as [r Hx]. destruct (paused_at s (P ++ t)) eqn:Epa.
        * left. intros tok r' [<-|Hin] Hx'; [exact Epa|eapply IH; eauto].
        * right. exists t, r. split; [left; reflexivity|auto].
      + left. intros tok r' [<-|Hin] Hx'; [|eapply IH; eauto].
        subst x. rewrite prefix_of_app in Ep. discriminate.
  Qed.

  (* the same, read from the effect: a balance that moved names an unpaused token *)
  Theorem paused_no_balance_change_ex f i s o s' a x :
    exec E f i s = (Ok o, s') ->
    i_rae i = false -> a <> SC ->
    ~ (f = C.BuiltInFunctionESDTWipe /\ a = i_rcpt i /\ x = argn i 0) ->
    ~ ((f = C.BuiltInFunctionESDTPause \/ f = C.BuiltInFunctionESDTUnPause) /\ a = SYS /\ x = argn i 0) ->
    balance E s' a (P ++ x) <> balance E s a (P ++ x) ->
    exists tok r, In tok (named_tokens f i) /\ x = tok ++ r /\ paused_at s (P ++ tok) = false.
  Proof.
    intros H Hr Ha Nw Np Hne.
    destruct (all_paused_dec (named_tokens f i) s x) as [Hp|Hex]; [|exact Hex].
    exfalso. apply Hne. eapply paused_no_balance_change; eauto.
  Qed.

  (* a call all of whose named tokens are paused changes no token balance at all *)
  Corollary paused_call_changes_nothing f i s o s' :
    exec E f i s = (Ok o, s') -> i_rae i = false ->
    (forall tok, In tok (named_tokens f i) -> paused_at s (P ++ tok) = true) ->
    forall a x, a <> SC ->
    ~ (f = C.BuiltInFunctionESDTWipe /\ a = i_rcpt i /\ x = argn i 0) ->
    ~ ((f = C.BuiltInFunctionESDTPause \/ f = C.BuiltInFunctionESDTUnPause) /\ a = SYS /\ x = argn i 0) ->
    balance E s' a (P ++ x) = balance E s a (P ++ x).
  Proof.
    intros H Hr Hall a x Ha Nw Np. eapply paused_no_balance_change; eauto.
    intros tok r Hin _. apply Hall. exact Hin.
  Qed.

  (* the property's sentence: token tok is paused; every key of tok (fungible: n = 0, NFT: n > 0), any account;
     side condition: no OTHER identifier named by the call is a prefix of tok ++ nonce bytes (key aliasing) *)
  Corollary paused_token_no_balance_change f i s o s' tok n a :
    exec E f i s = (Ok o, s') -> i_rae i = false ->
    paused_at s (P ++ tok) = true ->
    (forall tok2 r, In tok2 (named_tokens f i) -> tok ++ u64_bytes n = tok2 ++ r -> tok2 = tok) ->
    a <> SC ->
    ~ (f = C.BuiltInFunctionESDTWipe /\ a = i_rcpt i /\ tok ++ u64_bytes n = argn i 0) ->
    ~ ((f = C.BuiltInFunctionESDTPause \/ f = C.BuiltInFunctionESDTUnPause) /\ a = SYS /\ tok ++ u64_bytes n = argn i 0) ->
    balance E s' a (nft_key (P ++ tok) n) = balance E s a (nft_key (P ++ tok) n).
  Proof.
    intros H Hr Hp Hal Ha Nw Np. rewrite nft_key_P. eapply paused_no_balance_change; eauto.
    intros tok2 r Hin Hx. rewrite (Hal tok2 r Hin Hx). exact Hp.
  Qed.
End Core.

Print Assumptions frozen_entry_untouched.
Print Assumptions frozen_no_balance_change.
Print Assumptions paused_entry_untouched.
Print Assumptions paused_no_balance_change.
Print Assumptions paused_no_balance_change_ex.
Print Assumptions paused_call_changes_nothing.
Print Assumptions paused_token_no_balance_change.
