(* C03 (authority), part 1: the dispatch of [exec] as a finite case analysis, the role table of the
   role-gated functions, the owner / DNS guards over ALL 23 functions, and the rollback of rejected
   calls at the world level.  Built on Spec_Supply / Spec_System / Spec_Transfers. *)
From Coq.Strings Require Import String.
From EV Require Import Base.Bytes Base.Store Base.Monad gen.Consts Codec.Types Helpers.Helpers
  Ledger.Types Ledger.Env Ledger.Funcs Ledger.Transfers Ledger.World
  LedgerProofs.Defs LedgerProofs.EnvSpec LedgerProofs.Spec_Transfers_Base LedgerProofs.Spec_Supply
  LedgerProofs.Spec_System LedgerProofs.Spec_Transfers_Esdt LedgerProofs.Spec_Transfers_Nft
  LedgerProofs.Spec_Transfers_Multi LedgerProofs.Spec_Transfers LedgerProofs.WorldDefs LedgerProofs.WorldSpec.

(* ================================================================== *)
(* 1. The 23 functions as a finite type                                *)
(* ================================================================== *)
Inductive c03_kind :=
| KClaim | KChangeOwner | KSetUserName | KSaveKeyValue | KPause | KUnPause | KEsdtTransfer
| KSupply (sf : supply_fn)
| KFreeze | KUnFreeze | KWipe | KUnSetRole | KSetRole | KNftTransfer | KRoleTransfer | KMultiTransfer.

Definition c03_name (k : c03_kind) : bytes :=
  match k with
  | KClaim => C.BuiltInFunctionClaimDeveloperRewards | KChangeOwner => C.BuiltInFunctionChangeOwnerAddress
  | KSetUserName => C.BuiltInFunctionSetUserName | KSaveKeyValue => C.BuiltInFunctionSaveKeyValue
  | KPause => C.BuiltInFunctionESDTPause | KUnPause => C.BuiltInFunctionESDTUnPause
  | KEsdtTransfer => C.BuiltInFunctionESDTTransfer | KSupply sf => supply_name sf
  | KFreeze => C.BuiltInFunctionESDTFreeze | KUnFreeze => C.BuiltInFunctionESDTUnFreeze
  | KWipe => C.BuiltInFunctionESDTWipe | KUnSetRole => C.BuiltInFunctionUnSetESDTRole
  | KSetRole => C.BuiltInFunctionSetESDTRole | KNftTransfer => C.BuiltInFunctionESDTNFTTransfer
  | KRoleTransfer => C.BuiltInFunctionESDTNFTCreateRoleTransfer
  | KMultiTransfer => C.BuiltInFunctionMultiESDTNFTTransfer
  end.
Definition c03_run (E : env) (k : c03_kind) : input -> MT output :=
  match k with
  | KClaim => f_claim_rewards E | KChangeOwner => f_change_owner E | KSetUserName => f_set_user_name E
  | KSaveKeyValue => f_save_key_value E | KPause => f_pause E true | KUnPause => f_pause E false
  | KEsdtTransfer => f_esdt_transfer E | KSupply sf => run_supply E sf
  | KFreeze => f_freeze_wipe E true false | KUnFreeze => f_freeze_wipe E false false
  | KWipe => f_freeze_wipe E false true | KUnSetRole => f_roles E false | KSetRole => f_roles E true
  | KNftTransfer => f_nft_transfer E | KRoleTransfer => f_create_role_transfer E
  | KMultiTransfer => f_multi_transfer E
  end.

(* a successful execution is the execution of one of the 23 functions under its own name *)
Lemma c03_exec_kind E f i s o s' :
  exec E f i s = (Ok o, s') -> exists k, f = c03_name k /\ c03_run E k i s = (Ok o, s').
Proof.
  unfold exec. intros H.
  repeat match type of H with
         | (if beqb f ?c then _ else _) _ = _ =>
           let Eq := fresh "Eq" in destruct (beqb f c) eqn:Eq; [apply beqb_true in Eq|]
         end.
  - exists KClaim. auto.
  - exists KChangeOwner. auto.
  - exists KSetUserName. auto.
  - exists KSaveKeyValue. auto.
  - exists KPause. auto.
  - exists KUnPause. auto.
  - exists KEsdtTransfer. auto.
  - exists (KSupply SEsdtBurn). auto.
  - exists KFreeze. auto.
  - exists KUnFreeze. auto.
  - exists KWipe. auto.
  - exists KUnSetRole. auto.
  - exists KSetRole. auto.
  - exists (KSupply SLocalBurn). auto.
  - exists (KSupply SLocalMint). auto.
  - exists (KSupply SNftAddQuantity). auto.
  - exists (KSupply SNftBurn). auto.
  - exists (KSupply SNftCreate). auto.
  - exists KNftTransfer. auto.
  - exists KRoleTransfer. auto.
  - exists (KSupply SNftUpdateAttributes). auto.
  - exists (KSupply SNftAddUri). auto.
  - exists KMultiTransfer. auto.
  - discriminate H.
Qed.
(* and conversely the name reaches the function *)
Lemma c03_exec_name E k i : exec E (c03_name k) i = c03_run E k i.
Proof. destruct k as [| | | | | | |sf| | | | | | | |]; try reflexivity. destruct sf; reflexivity. Qed.

(* the names are pairwise different: decided by computation *)
Definition c03_kind_eqb (k1 k2 : c03_kind) : bool := beqb (c03_name k1) (c03_name k2).
Ltac c03_name_ne :=
  let Hx := fresh "Hx" in intro Hx; vm_compute in Hx; discriminate Hx.

(* ================================================================== *)
(* 2. Role-gated functions                                             *)
(* ================================================================== *)
Definition role_table : list (bytes * bytes) :=
  [ (C.BuiltInFunctionESDTLocalMint, C.ESDTRoleLocalMint);
    (C.BuiltInFunctionESDTLocalBurn, C.ESDTRoleLocalBurn);
    (C.BuiltInFunctionESDTNFTCreate, C.ESDTRoleNFTCreate);
    (C.BuiltInFunctionESDTNFTAddQuantity, C.ESDTRoleNFTAddQuantity);
    (C.BuiltInFunctionESDTNFTBurn, C.ESDTRoleNFTBurn);
    (C.BuiltInFunctionESDTNFTAddURI, C.ESDTRoleNFTAddURI);
    (C.BuiltInFunctionESDTNFTUpdateAttributes, C.ESDTRoleNFTUpdateAttributes) ].
Fixpoint c03_assoc (f : bytes) (l : list (bytes * bytes)) : option bytes :=
  match l with [] => None | (n, r) :: rest => if beqb f n then Some r else c03_assoc f rest end.
(* the role a function name requires (None: the function is not role-gated) *)
Definition role_of (f : bytes) : option bytes := c03_assoc f role_table.
(* all roles the call needs: the function's role, and for ESDTNFTCreate with quantity > 1 (as an integer)
   additionally the add-quantity role *)
Definition required_roles (f : bytes) (i : input) : list bytes :=
  match role_of f with
  | Some r => r :: (if (beqb f C.BuiltInFunctionESDTNFTCreate && (1 <? bigZ (argn i 1))%Z)%bool
                    then [C.ESDTRoleNFTAddQuantity] else [])
  | None => []
  end.

Lemma role_of_supply sf : role_of (supply_name sf) = supply_role sf.
Proof. destruct sf; vm_compute; reflexivity. Qed.

Section Roles.
  Variable E : env.
  Hypothesis Hc : codec_ok (cdc E).

  Theorem role_gated_requires_role f i s o s' :
    exec E f i s = (Ok o, s') ->
    forall r, In r (required_roles f i) -> has_role E s (i_caller i) (argn i 0) r = true.
  Proof.
    intros H r Hin. apply c03_exec_kind in H as (k & -> & H). unfold required_roles in Hin.
    destruct k as [| | | | | | |sf| | | | | | | |];
      try (exfalso; revert Hin; vm_compute; tauto).
    cbn [c03_name c03_run] in *. rewrite role_of_supply in Hin.
    pose proof (supply_requires_role E Hc _ _ _ _ _ H) as Hrole.
    destruct (supply_role sf) as [r0|] eqn:Er; [|destruct Hin].
    destruct Hin as [<-|Hin]; [exact Hrole|].
    destruct (beqb (supply_name sf) C.BuiltInFunctionESDTNFTCreate) eqn:Ecr; [|destruct Hin].
    destruct (1 <? bigZ (argn i 1))%Z eqn:Eq; cbn [andb] in Hin; [|destruct Hin].
    destruct Hin as [<-|[]].
    destruct sf; try (vm_compute in Ecr; discriminate Ecr).
    cbn [run_supply] in H. apply (supply_requires_role_create_many E Hc _ _ _ _ H). lia.
  Qed.

  (* the table read row by row *)
  Corollary role_gated_row f r i s o s' :
    exec E f i s = (Ok o, s') -> role_of f = Some r -> has_role E s (i_caller i) (argn i 0) r = true.
  Proof.
    intros H Hr. apply (role_gated_requires_role _ _ _ _ _ H). unfold required_roles. rewrite Hr. left. reflexivity.
  Qed.
  Corollary create_many_requires_add_quantity i s o s' :
    exec E C.BuiltInFunctionESDTNFTCreate i s = (Ok o, s') -> (1 < bigZ (argn i 1))%Z ->
    has_role E s (i_caller i) (argn i 0) C.ESDTRoleNFTCreate = true
    /\ has_role E s (i_caller i) (argn i 0) C.ESDTRoleNFTAddQuantity = true.
  Proof.
    intros H Hq. split; apply (role_gated_requires_role _ _ _ _ _ H); unfold required_roles.
    - left. reflexivity.
    - replace (1 <? bigZ (argn i 1))%Z with true by lia. right. left. reflexivity.
  Qed.
  (* contrapositive: a caller whose own list for that token lacks a required role is refused *)
  Corollary role_missing_rejected f i s r :
    In r (required_roles f i) -> has_role E s (i_caller i) (argn i 0) r = false ->
    forall o s', exec E f i s <> (Ok o, s').
  Proof.
    intros Hin Hno o s' H. rewrite (role_gated_requires_role _ _ _ _ _ H r Hin) in Hno. discriminate.
  Qed.
End Roles.

(* ================================================================== *)
(* 3. Account fields: owner, developer reward, balance, user name      *)
(* ================================================================== *)
Section Fields.
  Variable E : env.
  Hypothesis Hc : codec_ok (cdc E).

  Lemma c03_fields_eq_of (x y : account) : acct_fields_eq x y ->
    a_owner x = a_owner y /\ a_devreward x = a_devreward y /\ a_balance x = a_balance y /\ a_username x = a_username y.
  Proof. intros (? & ? & ? & ?). auto. Qed.

  (* every function other than the three account-level ones leaves all account fields alone *)
  Lemma c03_fields_unchanged k i s o s' :
    c03_run E k i s = (Ok o, s') -> k <> KClaim -> k <> KChangeOwner -> k <> KSetUserName ->
    forall a, acct_fields_eq (acct s' a) (acct s a).
  Proof.
    intros H N1 N2 N3 a. rewrite <- c03_exec_name in H.
    destruct k as [| | | | | | |sf| | | | | | | |]; try congruence; cbn [c03_name] in H.
    - apply (savekv_footprint E) in H as (_ & Hf & _). apply Hf.
    - apply (system_footprint E Hc) in H as (_ & Hf & _); [apply Hf|]. cbn. tauto.
    - apply (system_footprint E Hc) in H as (_ & Hf & _); [apply Hf|]. cbn. tauto.
    - rewrite exec_esdt_transfer in H. apply (transfer_footprint_esdt E Hc) in H.
      apply (ue_fields _ _ _ _ H). tauto.
    - rewrite exec_supply in H. eapply (supply_fields_unchanged E Hc); eauto.
    - apply (system_footprint E Hc) in H as (_ & Hf & _); [apply Hf|]. cbn. tauto.
    - apply (system_footprint E Hc) in H as (_ & Hf & _); [apply Hf|]. cbn. tauto.
    - apply (system_footprint E Hc) in H as (_ & Hf & _); [apply Hf|]. cbn. tauto.
    - apply (system_footprint E Hc) in H as (_ & Hf & _); [apply Hf|]. cbn. tauto.
    - apply (system_footprint E Hc) in H as (_ & Hf & _); [apply Hf|]. cbn. tauto.
    - rewrite exec_nft_transfer in H. apply (transfer_footprint_nft E Hc) in H.
      apply (ue_fields _ _ _ _ H). tauto.
    - apply (system_footprint E Hc) in H as (_ & Hf & _); [apply Hf|]. cbn. tauto.
    - rewrite exec_multi_transfer in H. apply (transfer_footprint_multi E Hc) in H as (H & _).
      apply (ue_fields _ _ _ _ H). tauto.
  Qed.

  (* owner / developer reward / balance of ANY account move only in a ChangeOwnerAddress or
     ClaimDeveloperRewards execution on the recipient's shard whose caller is the recipient's current owner
     (owner as recorded in the pre-state); the account is the recipient (owner, reward) or the caller (balance) *)
  Theorem owner_only_all f i s o s' :
    exec E f i s = (Ok o, s') ->
    forall a,
      a_owner (acct s' a) <> a_owner (acct s a) \/ a_devreward (acct s' a) <> a_devreward (acct s a)
      \/ a_balance (acct s' a) <> a_balance (acct s a) ->
      (f = C.BuiltInFunctionChangeOwnerAddress \/ f = C.BuiltInFunctionClaimDeveloperRewards)
      /\ i_dst i = true /\ i_caller i = a_owner (acct s (i_rcpt i)) /\ (a = i_rcpt i \/ a = i_caller i).
  Proof.
    intros H a Hch. pose proof H as Hex. apply c03_exec_kind in H as (k & -> & H).
    assert (Hstable : (forall a, acct_fields_eq (acct s' a) (acct s a)) -> False).
    { intros Hf. destruct (c03_fields_eq_of _ _ (Hf a)) as (? & ? & ? & _). tauto. }
    destruct k as [| | | | | | |sf| | | | | | | |];
      try (exfalso; apply Hstable; eapply c03_fields_unchanged; eauto; discriminate).
    - (* claim *)
      cbn [c03_run c03_name] in *. apply (claim_rewards_spec E) in H as (_ & Hnd & Hd & _ & Hu & _).
      destruct (i_dst i) eqn:Ed.
      + destruct (Hd eq_refl) as (Hown & _). split; [right; reflexivity|]. split; [reflexivity|]. split; [exact Hown|].
        destruct (beqb_spec a (i_rcpt i)) as [?|N1]; [left; assumption|].
        destruct (beqb_spec a (i_caller i)) as [?|N2]; [right; assumption|].
        exfalso. assert (Hf : acct_fields_eq (acct s' a) (acct s a)) by (apply (ue_fields _ _ _ _ Hu); tauto).
        destruct (c03_fields_eq_of _ _ Hf) as (? & ? & ? & _). tauto.
      + destruct (Hnd eq_refl) as [-> _]. exfalso. tauto.
    - (* change owner *)
      cbn [c03_run c03_name] in *.
      apply (change_owner_spec E) in H as (_ & a0 & rest & _ & _ & _ & _ & Hnd & Hd & _ & Hu & _).
      destruct (i_dst i) eqn:Ed.
      + destruct (Hd eq_refl) as (Hown & _). split; [left; reflexivity|]. split; [reflexivity|]. split; [exact Hown|].
        destruct (beqb_spec a (i_rcpt i)) as [?|N1]; [left; assumption|].
        exfalso. assert (Hf : acct_fields_eq (acct s' a) (acct s a)) by (apply (ue_fields _ _ _ _ Hu); tauto).
        destruct (c03_fields_eq_of _ _ Hf) as (? & ? & ? & _). tauto.
      + rewrite (Hnd eq_refl) in Hch. exfalso. tauto.
    - (* set user name: only the user name moves *)
      cbn [c03_run c03_name] in *. exfalso.
      apply (set_user_name_spec E) in H as (_ & a0 & _ & Hnd & Hd & _ & _ & _).
      destruct (i_dst i) eqn:Ed.
      + destruct (Hd eq_refl) as (_ & _ & Hr & Hoth & _).
        destruct (beqb_spec a (i_rcpt i)) as [->|N1].
        * rewrite Hr in Hch. cbn [with_username a_owner a_devreward a_balance] in Hch. tauto.
        * rewrite (Hoth a N1) in Hch. tauto.
      + destruct (Hnd eq_refl) as [-> _]. tauto.
  Qed.

  (* the user name of ANY account moves only in a SetUserName execution on the recipient's shard whose caller is
     one of the configured DNS addresses; the account is the recipient *)
  Theorem dns_only_all f i s o s' :
    exec E f i s = (Ok o, s') ->
    forall a, a_username (acct s' a) <> a_username (acct s a) ->
      f = C.BuiltInFunctionSetUserName /\ In (i_caller i) (dns E) /\ i_dst i = true /\ a = i_rcpt i.
  Proof.
    intros H a Hch. apply c03_exec_kind in H as (k & -> & H).
    assert (Hstable : (forall a, acct_fields_eq (acct s' a) (acct s a)) -> False).
    { intros Hf. destruct (c03_fields_eq_of _ _ (Hf a)) as (_ & _ & _ & ?). tauto. }
    destruct k as [| | | | | | |sf| | | | | | | |];
      try (exfalso; apply Hstable; eapply c03_fields_unchanged; eauto; discriminate).
    - exfalso. rewrite <- c03_exec_name in H.
      destruct (owner_username_stable E Hc _ _ _ _ _ H (or_intror (or_introl eq_refl)) a) as [_ Hu]. tauto.
    - exfalso. cbn [c03_run] in H.
      apply (change_owner_spec E) in H as (_ & a0 & rest & _ & _ & _ & _ & Hnd & Hd & _ & Hu & _).
      destruct (i_dst i) eqn:Ed.
      + destruct (Hd eq_refl) as (_ & Hr & Hoth & _). destruct (beqb_spec a (i_rcpt i)) as [->|N1].
        * rewrite Hr in Hch. cbn [with_owner a_username] in Hch. tauto.
        * rewrite (Hoth a N1) in Hch. tauto.
      + rewrite (Hnd eq_refl) in Hch. tauto.
    - cbn [c03_run c03_name] in *.
      apply (set_user_name_spec E) in H as ((_ & _ & Hdns) & a0 & _ & Hnd & Hd & _ & _ & _).
      split; [reflexivity|]. split; [exact Hdns|].
      destruct (i_dst i) eqn:Ed.
      + split; [reflexivity|]. destruct (Hd eq_refl) as (_ & _ & _ & Hoth & _).
        destruct (beqb_spec a (i_rcpt i)) as [?|N1]; [assumption|]. rewrite (Hoth a N1) in Hch. tauto.
      + destruct (Hnd eq_refl) as [-> _]. tauto.
  Qed.

  (* ---- "an attempt by anyone else" is an error ---- *)
  Theorem not_owner_rejected f i s :
    f = C.BuiltInFunctionChangeOwnerAddress \/ f = C.BuiltInFunctionClaimDeveloperRewards ->
    i_dst i = true -> i_caller i <> a_owner (acct s (i_rcpt i)) ->
    forall o s', exec E f i s <> (Ok o, s').
  Proof. intros Hf Hd Hne o s' H. apply Hne. eapply owner_only; eauto. Qed.
  Theorem not_dns_rejected i s :
    ~ In (i_caller i) (dns E) -> forall o s', exec E C.BuiltInFunctionSetUserName i s <> (Ok o, s').
  Proof. intros Hn o s' H. apply Hn. apply (dns_only E _ _ _ _ H). Qed.
  (* an origin-side execution (recipient not on this shard) of the three account-level functions changes nothing *)
  Theorem account_origin_side_same_world f i s o s' :
    exec E f i s = (Ok o, s') ->
    In f [C.BuiltInFunctionChangeOwnerAddress; C.BuiltInFunctionClaimDeveloperRewards; C.BuiltInFunctionSetUserName] ->
    i_dst i = false -> same_world s s'.
  Proof. intros H Hin Hd. apply (account_footprint E _ _ _ _ _ H Hin). exact Hd. Qed.
End Fields.

(* ================================================================== *)
(* 4. Rejected executions leave the world unchanged (rollback)         *)
(* ================================================================== *)
Section Rollback.
  Variable c : wcfg.

  (* a transaction / system call whose execution does not return Ok changes nothing: no account on any
     shard, no in-flight message, no bookkeeping *)
  Theorem rejected_call_world_unchanged w sh fn i :
    (forall o s', exec (env_at c sh) fn i (mk_state (shard_accts w sh)) <> (Ok o, s')) ->
    wstep c w (OCall sh fn i) = w.
  Proof.
    intros Hn. cbn [wstep]. destruct (negb (sh <? wc_nshards c)%N); [reflexivity|].
    unfold run_on. fold (mk_state (shard_accts w sh)).
    destruct (exec (env_at c sh) fn i (mk_state (shard_accts w sh))) as [[o|e|] s'] eqn:Hx; try reflexivity.
    exfalso. eapply Hn. reflexivity.
  Qed.
  (* a rejected delivery / re-delivery / refund changes no account on any shard (the delivery is only
     recorded as failed) *)
  Theorem rejected_step_shards_unchanged w op :
    match op with
    | OCall sh fn i => forall o s', exec (env_at c sh) fn i (mk_state (shard_accts w sh)) <> (Ok o, s')
    | ODeliver id gas | ORedeliver id gas =>
        forall m, find_msg (inflight w) id = Some m ->
          forall o s', exec (env_at c (wc_shard_of c (m_dest m))) (m_fn m) (deliver_input c m (wc_shard_of c (m_dest m)) gas)
                         (mk_state (shard_accts w (wc_shard_of c (m_dest m)))) <> (Ok o, s')
    | ORefund id gas =>
        forall m, find_msg (inflight w) id = Some m ->
          forall o s', exec (env_at c (wc_shard_of c (m_sender m))) (m_fn m) (refund_input c m (wc_shard_of c (m_sender m)) gas)
                         (mk_state (shard_accts w (wc_shard_of c (m_sender m)))) <> (Ok o, s')
    end ->
    shards (wstep c w op) = shards w.
  Proof.
    intros Hn. destruct (wstep_cases c w op) as [->| id gas m _ _ -> | sh fn i o s' -> _ Hx _
                                                 | id gas m o s' consume Hop Hf sh _ Hx _ | id gas m o s' -> Hf _ sh _ Hx _].
    - reflexivity.
    - reflexivity.
    - exfalso. eapply Hn. exact Hx.
    - exfalso. destruct consume; subst op; eapply (Hn m Hf); exact Hx.
    - exfalso. eapply (Hn m Hf). exact Hx.
  Qed.

  (* instances: the not-owner / not-DNS attempts *)
  Theorem not_owner_world_unchanged w sh f i :
    codec_ok (wc_cdc c) ->
    f = C.BuiltInFunctionChangeOwnerAddress \/ f = C.BuiltInFunctionClaimDeveloperRewards ->
    i_dst i = true -> i_caller i <> a_owner (aget empty_account (shard_accts w sh) (i_rcpt i)) ->
    wstep c w (OCall sh f i) = w.
  Proof.
    intros Hc Hf Hd Hne. apply rejected_call_world_unchanged.
    apply (not_owner_rejected (env_at c sh)); assumption.
  Qed.
  Theorem not_dns_world_unchanged w sh i :
    ~ In (i_caller i) (wc_dns c) -> wstep c w (OCall sh C.BuiltInFunctionSetUserName i) = w.
  Proof.
    intros Hn. apply rejected_call_world_unchanged. apply (not_dns_rejected (env_at c sh)). exact Hn.
  Qed.
  Theorem role_missing_world_unchanged w sh f i r :
    codec_ok (wc_cdc c) -> In r (required_roles f i) ->
    has_role (env_at c sh) (mk_state (shard_accts w sh)) (i_caller i) (argn i 0) r = false ->
    wstep c w (OCall sh f i) = w.
  Proof.
    intros Hc Hin Hno. apply rejected_call_world_unchanged.
    apply (role_missing_rejected (env_at c sh) Hc f i _ r Hin Hno).
  Qed.
End Rollback.

Print Assumptions role_gated_requires_role.
Print Assumptions owner_only_all.
Print Assumptions dns_only_all.
Print Assumptions rejected_step_shards_unchanged.
