(* C03 (authority), part 2b: role lists, frozen flags of fungible entries, pause flags, wipes and the hand-over of
   the NFT-create role (role + counter) change only through executions whose caller is the ESDT system contract
   address, or through the destination-side execution of ESDTNFTCreateRoleTransfer (the hand-over message).
   All 23 functions. *)
From Coq.Strings Require Import String.
From EV Require Import Base.Bytes Base.Store Base.Monad gen.Consts Codec.Types Helpers.Helpers
  Ledger.Types Ledger.Env Ledger.Funcs Ledger.Transfers Ledger.World
  LedgerProofs.Defs LedgerProofs.EnvSpec LedgerProofs.Spec_Transfers_Base LedgerProofs.Spec_Supply
  LedgerProofs.Spec_System LedgerProofs.Spec_Transfers_Esdt LedgerProofs.Spec_Transfers_Nft
  LedgerProofs.Spec_Transfers_Multi LedgerProofs.Spec_Transfers
  LedgerProofs.C03_Authority LedgerProofs.C03_Frozen.

(* ================================================================== *)
(* classification of a function name (computable)                      *)
(* ================================================================== *)
Definition c03_kinds : list c03_kind :=
  [KClaim; KChangeOwner; KSetUserName; KSaveKeyValue; KPause; KUnPause; KEsdtTransfer;
   KSupply SLocalMint; KSupply SLocalBurn; KSupply SEsdtBurn; KSupply SNftCreate; KSupply SNftAddQuantity;
   KSupply SNftBurn; KSupply SNftAddUri; KSupply SNftUpdateAttributes;
   KFreeze; KUnFreeze; KWipe; KUnSetRole; KSetRole; KNftTransfer; KRoleTransfer; KMultiTransfer].
Definition c03_classify (f : bytes) : option c03_kind := find (fun k => beqb f (c03_name k)) c03_kinds.
Lemma c03_classify_name k : c03_classify (c03_name k) = Some k.
Proof. destruct k as [| | | | | | |sf| | | | | | | |]; try (vm_compute; reflexivity). destruct sf; vm_compute; reflexivity. Qed.
Lemma c03_name_inj k1 k2 : c03_name k1 = c03_name k2 -> k1 = k2.
Proof.
  intros H. pose proof (c03_classify_name k1) as H1. rewrite H in H1. rewrite c03_classify_name in H1. congruence.
Qed.

(* the accounts whose token cells a call may write: caller, recipient, and the destination argument of the two
   NFT transfers *)
Definition token_parties (f : bytes) (i : input) : list bytes :=
  [i_caller i; i_rcpt i] ++
  match c03_classify f with
  | Some KNftTransfer => [argn i 3]
  | Some KMultiTransfer => [argn i 0]
  | _ => []
  end.
(* the system account 0xff..ff (which stores the pause flags under the token keys) is not itself a holder in this
   call (the mirror image of F8); ESDTPause / ESDTUnPause themselves are addressed to it *)
Definition sys_not_party (f : bytes) (i : input) : Prop :=
  f = C.BuiltInFunctionESDTPause \/ f = C.BuiltInFunctionESDTUnPause \/ ~ In SYS (token_parties f i).

(* exclusion of token-id ‖ nonce key aliasing (F4 family), per function:
   - the four NFT entry-rewriting functions and the sender side of the two NFT transfers: every looked-up
     entry carries the requested nonce ([lookup_consistent], F4b);
   - ESDTNFTCreate: the cell under the nonce about to be given out does not hold a frozen fungible entry *)
Definition no_alias_k (E : env) (k : c03_kind) (i : input) (s : mstate) : Prop :=
  match k with
  | KSupply sf => supply_ff_pre E sf i s
  | KNftTransfer => i_caller i = i_rcpt i -> lookup_consistent E s (i_caller i) (P ++ argn i 0) (bigU64 (argn i 1))
  | KMultiTransfer => i_caller i = i_rcpt i -> triples_consistent E s (i_caller i) (multi_snd_triples i)
  | _ => True
  end.
Definition no_alias (E : env) (f : bytes) (i : input) (s : mstate) : Prop :=
  match c03_classify f with Some k => no_alias_k E k i s | None => True end.

(* ---- the five classes of privileged state, as changes of observables between s and s' ---- *)
Definition roles_changed (E : env) (s s' : mstate) : Prop :=
  exists a tok, roles_at E s' a tok <> roles_at E s a tok.
(* the create counter of (a, tok) moved, other than by a's own ESDTNFTCreate for tok *)
Definition counter_handed_over (f : bytes) (i : input) (s s' : mstate) : Prop :=
  exists a tok, counter_at s' a tok <> counter_at s a tok
    /\ ~ (f = C.BuiltInFunctionESDTNFTCreate /\ a = i_caller i /\ tok = argn i 0).
Definition pause_changed (f : bytes) (i : input) (s s' : mstate) : Prop :=
  exists x, paused_at s' (P ++ x) <> paused_at s (P ++ x) /\ sys_not_party f i.
(* frozen flag of a fungible entry (no metadata) of an account other than the system contract's own address,
   in an execution without ReturnCallAfterError and without key aliasing *)
Definition frozen_changed (E : env) (f : bytes) (i : input) (s s' : mstate) : Prop :=
  exists a x, fungible_frozen E s' a (P ++ x) <> fungible_frozen E s a (P ++ x)
    /\ a <> SC /\ i_rae i = false /\ no_alias E f i s.
Definition privileged_change (E : env) (f : bytes) (i : input) (s s' : mstate) : Prop :=
  roles_changed E s s' \/ counter_handed_over f i s s' \/ pause_changed f i s s' \/ frozen_changed E f i s s'
  \/ f = C.BuiltInFunctionESDTWipe.

Section SystemOnly.
  Variable E : env.
  Hypothesis Hc : codec_ok (cdc E).

  Definition c03_user_kind (k : c03_kind) : Prop :=
    match k with
    | KClaim | KChangeOwner | KSetUserName | KSaveKeyValue | KEsdtTransfer | KSupply _ | KNftTransfer | KMultiTransfer => True
    | _ => False
    end.
  Definition c03_party_k (k : c03_kind) (i : input) (a : bytes) : Prop :=
    a = i_caller i \/ a = i_rcpt i \/ (k = KNftTransfer /\ a = argn i 3) \/ (k = KMultiTransfer /\ a = argn i 0).
  (* cells a non-system function may write *)
  Definition c03_user_cells (k : c03_kind) (i : input) (a key : bytes) : Prop :=
    (c03_party_k k i a /\ exists x, key = P ++ x)
    \/ (k = KSupply SNftCreate /\ a = i_caller i /\ key = NP ++ argn i 0)
    \/ (k = KSaveKeyValue /\ a = i_caller i /\ prefix_of C.ElrondProtectedKeyPrefix key = false).

  Lemma c03_user_frame k i s o s' :
    c03_run E k i s = (Ok o, s') -> c03_user_kind k ->
    unchanged_except (c03_user_cells k i) (fun _ => True) s s'.
  Proof.
    intros H Hk. unfold c03_user_cells, c03_party_k.
    destruct k as [| | | | | | |sf| | | | | | | |]; try contradiction; cbn [c03_run] in H.
    - (* claim *)
      rewrite <- (exec_claim E) in H.
      apply (account_footprint E) in H as (Hcell & _); [|cbn; tauto].
      split; [intros; apply Hcell|tauto].
    - rewrite <- (exec_change_owner E) in H.
      apply (account_footprint E) in H as (Hcell & _); [|cbn; tauto].
      split; [intros; apply Hcell|tauto].
    - rewrite <- (exec_set_user_name E) in H.
      apply (account_footprint E) in H as (Hcell & _); [|cbn; tauto].
      split; [intros; apply Hcell|tauto].
    - rewrite <- (exec_save_key_value E) in H. apply (savekv_footprint E) in H as (Hcell & _).
      split; [|tauto]. intros a key Hn. apply Hcell.
      destruct (beqb_spec a (i_caller i)) as [->|Ha]; [|left; exact Ha].
      right. destruct (prefix_of C.ElrondProtectedKeyPrefix key) eqn:Ep; [reflexivity|].
      exfalso. apply Hn. right. right. auto.
    - apply (transfer_footprint_esdt E Hc) in H.
      eapply unchanged_except_weaken; [| |exact H]; [|tauto].
      intros a key [-> Ha]. left. split; [|exists (argn i 0); reflexivity]. destruct Ha as [[_ ->]|[_ ->]]; auto.
    - destruct (supply_footprint_general E Hc _ _ _ _ _ H) as (n & Hu).
      eapply unchanged_except_weaken; [| |exact Hu]; [|tauto].
      intros a key (-> & [->|[-> ->]]).
      + left. split; [auto|]. rewrite nft_key_app. eexists. reflexivity.
      + right. left. auto.
    - apply (transfer_footprint_nft E Hc) in H.
      eapply unchanged_except_weaken; [| |exact H]; [|tauto].
      intros a key (Ha & n & ->). left. split.
      + destruct Ha as [->|[->| ->]]; [auto|auto|right; right; left; split; reflexivity].
      + unfold nft_tkey. rewrite nft_key_app. eexists. reflexivity.
    - apply (transfer_footprint_multi E Hc) in H as (H & _).
      eapply unchanged_except_weaken; [| |exact H]; [|tauto].
      intros a key (Ha & x & n & _ & ->). left. split.
      + destruct Ha as [->|[->| ->]]; [auto|auto|right; right; right; split; reflexivity].
      + rewrite nft_key_app. eexists. reflexivity.
  Qed.

  (* roles never move in a non-system function *)
  Lemma c03_user_roles k i s o s' :
    c03_run E k i s = (Ok o, s') -> c03_user_kind k -> forall a tok, roles_at E s' a tok = roles_at E s a tok.
  Proof.
    intros H Hk a tok. apply (ue_roles_at E _ _ _ _ (c03_user_frame _ _ _ _ _ H Hk)).
    intros [(_ & x & Hx)|[(_ & _ & Hx)|(_ & _ & Hx)]].
    - symmetry in Hx. revert Hx. apply P_RP_disjoint.
    - revert Hx. apply RP_NP_disjoint.
    - rewrite RP_protected in Hx. discriminate.
  Qed.
  (* the counter moves only in the caller's own create *)
  Lemma c03_user_counter k i s o s' :
    c03_run E k i s = (Ok o, s') -> c03_user_kind k ->
    forall a tok, ~ (k = KSupply SNftCreate /\ a = i_caller i /\ tok = argn i 0) -> counter_at s' a tok = counter_at s a tok.
  Proof.
    intros H Hk a tok Hn. apply (ue_counter_at _ _ _ _ (c03_user_frame _ _ _ _ _ H Hk)).
    intros [(_ & x & Hx)|[(Hk' & Ha & Hx)|(_ & _ & Hx)]].
    - symmetry in Hx. revert Hx. apply P_NP_disjoint.
    - apply NP_app_inj in Hx. apply Hn. auto.
    - rewrite NP_protected in Hx. discriminate.
  Qed.
  (* pause flags move only if the system account itself is a party *)
  Lemma c03_user_paused k i s o s' :
    c03_run E k i s = (Ok o, s') -> c03_user_kind k -> ~ c03_party_k k i SYS ->
    forall x, paused_at s' (P ++ x) = paused_at s (P ++ x).
  Proof.
    intros H Hk Hn x. apply (ue_paused_at _ _ _ _ (c03_user_frame _ _ _ _ _ H Hk)).
    intros [(Hp & _)|[(_ & _ & Hx)|(_ & _ & Hx)]].
    - apply Hn. exact Hp.
    - revert Hx. apply P_NP_disjoint.
    - rewrite P_protected in Hx. discriminate.
  Qed.
  (* frozen flags of fungible entries *)
  Lemma c03_user_frozen k i s o s' :
    c03_run E k i s = (Ok o, s') -> c03_user_kind k -> i_rae i = false -> no_alias_k E k i s -> ff_kept E s s'.
  Proof.
    intros H Hk Hrae Hna.
    assert (Hacct : (forall a key, cell s' a key = cell s a key) -> ff_kept E s s').
    { intros Hcell. apply (ff_kept_frame E (fun _ _ => False) (fun _ => True)); [|intros a x []].
      split; [intros; apply Hcell|tauto]. }
    destruct k as [| | | | | | |sf| | | | | | | |]; try contradiction.
    - apply Hacct. cbn [c03_run] in H. rewrite <- (exec_claim E) in H.
      apply (account_footprint E) in H as (Hcell & _); [exact Hcell|cbn; tauto].
    - apply Hacct. cbn [c03_run] in H. rewrite <- (exec_change_owner E) in H.
      apply (account_footprint E) in H as (Hcell & _); [exact Hcell|cbn; tauto].
    - apply Hacct. cbn [c03_run] in H. rewrite <- (exec_set_user_name E) in H.
      apply (account_footprint E) in H as (Hcell & _); [exact Hcell|cbn; tauto].
    - cbn [c03_run] in H. rewrite <- (exec_save_key_value E) in H. apply (savekv_footprint E) in H as (Hcell & _).
      apply (ff_kept_frame E (fun _ key => prefix_of C.ElrondProtectedKeyPrefix key = false) (fun _ => True)).
      + split; [|tauto]. intros a key Hn. apply Hcell. right.
        destruct (prefix_of C.ElrondProtectedKeyPrefix key); [reflexivity|exfalso; apply Hn; reflexivity].
      + intros a x Hx. rewrite P_protected in Hx. discriminate Hx.
    - cbn [c03_run] in H. apply (ff_same_kept E). apply (esdt_transfer_ff_same E Hc _ _ _ _ H).
    - cbn [c03_run no_alias_k] in *. intros a x _. eapply (supply_ff_same E Hc); eauto.
    - cbn [c03_run no_alias_k] in *. eapply (nft_transfer_ff_kept E Hc); eauto.
    - cbn [c03_run no_alias_k] in *. eapply (multi_transfer_ff_kept E Hc); eauto.
  Qed.

  Lemma c03_party_parties k i a : c03_party_k k i a -> In a (token_parties (c03_name k) i).
  Proof.
    unfold token_parties. rewrite c03_classify_name. intros [->|[->|[[-> ->]|[-> ->]]]]; cbn [app In]; auto.
  Qed.

  (* ---- the theorem ---- *)
  (* NOTE on the second disjunct.  The destination-side branch of ESDTNFTCreateRoleTransfer (caller <> SC, sender
     account not local) has NO authorisation check of its own (Spec_System: role_transfer_delivered_spec): it gives
     the recipient the create role and sets its counter to the carried value for whoever calls it in that shape.
     Authority there rests on the environment delivering only protocol messages: the only emitter of such a
     message is the system-contract branch of the same function (C03_Handover.v: handover_messages_come_from_sc). *)
  Theorem system_only f i s o s' :
    exec E f i s = (Ok o, s') -> privileged_change E f i s s' ->
    i_caller i = SC
    \/ (f = C.BuiltInFunctionESDTNFTCreateRoleTransfer /\ i_snd i = false /\ i_caller i <> SC).
  Proof.
    intros Hex Hch. pose proof Hex as H. apply c03_exec_kind in H as (k & -> & H).
    assert (Hcases : c03_user_kind k \/ In (c03_name k) system_funs \/ k = KRoleTransfer).
    { destruct k; unfold system_funs; cbn [In c03_name c03_user_kind]; tauto. }
    destruct Hcases as [Hk|[Hsys| ->]].
    - exfalso. destruct Hch as [(a & tok & Hne)|[(a & tok & Hne & Hown)|[(x & Hne & Hsys)|[(a & x & Hne & Hsc & Hrae & Hna)|Hw]]]].
      + apply Hne. eapply c03_user_roles; eauto.
      + apply Hne. eapply c03_user_counter; eauto. intros (-> & Ha & Ht). apply Hown. auto.
      + apply Hne. eapply c03_user_paused; eauto. intros Hp. destruct Hsys as [Hs|[Hs|Hs]].
        * apply (c03_name_inj k KPause) in Hs. subst k. exact Hk.
        * apply (c03_name_inj k KUnPause) in Hs. subst k. exact Hk.
        * apply Hs. apply c03_party_parties. exact Hp.
      + apply Hne. unfold no_alias in Hna. rewrite c03_classify_name in Hna.
        eapply c03_user_frozen; eauto.
      + apply (c03_name_inj k KWipe) in Hw. subst k. exact Hk.
    - left. destruct (system_requires_sc E Hc _ _ _ _ _ Hex Hsys) as [Hsc _]. exact Hsc.
    - cbn [c03_name] in *. destruct (role_transfer_requires_exec E _ _ _ _ Hex) as (_ & Hsnd & _).
      destruct (beqb_spec (i_caller i) SC) as [Hsc|Hsc]; [left; exact Hsc|right; auto].
  Qed.

  (* the same, read per class *)
  Corollary roles_change_only_by_sc f i s o s' a tok :
    exec E f i s = (Ok o, s') -> roles_at E s' a tok <> roles_at E s a tok ->
    i_caller i = SC \/ (f = C.BuiltInFunctionESDTNFTCreateRoleTransfer /\ i_snd i = false /\ i_caller i <> SC).
  Proof. intros H Hne. apply (system_only _ _ _ _ _ H). left. exists a, tok. exact Hne. Qed.
  Corollary wipe_only_by_sc i s o s' : exec E C.BuiltInFunctionESDTWipe i s = (Ok o, s') -> i_caller i = SC.
  Proof.
    intros H. destruct (system_only _ _ _ _ _ H) as [Hs|(Hx & _)]; [repeat right; reflexivity|exact Hs|].
    vm_compute in Hx. discriminate Hx.
  Qed.
  (* freeze state and pause state move only through the system contract: the hand-over never touches them *)
  Corollary frozen_paused_change_only_by_sc f i s o s' :
    exec E f i s = (Ok o, s') -> pause_changed f i s s' \/ frozen_changed E f i s s' -> i_caller i = SC.
  Proof.
    intros H Hch.
    destruct (system_only _ _ _ _ _ H) as [Hs|(-> & Hsnd & Hsc)]; [unfold privileged_change; tauto|exact Hs|].
    exfalso. rewrite (exec_role_transfer E) in H.
    destruct (role_transfer_frame E Hc _ _ _ _ H) as (tok & a1 & _ & Hu & _).
    destruct Hch as [(x & Hne & _)|(a & x & Hne & _)]; apply Hne.
    - apply (ue_paused_at _ _ _ _ Hu). intros (_ & [Hx|Hx]); revert Hx; [apply P_NP_disjoint|apply P_RP_disjoint].
    - apply (ff_tok_at E). apply (ue_tok_at E _ _ _ _ Hu).
      intros (_ & [Hx|Hx]); revert Hx; [apply P_NP_disjoint|apply P_RP_disjoint].
  Qed.
End SystemOnly.

Print Assumptions system_only.
Print Assumptions frozen_paused_change_only_by_sc.

