(* C05, part 1: SaveKeyValue and the protected storage namespace, through the dispatch [exec].
     key_allowed_char               IsAllowedToSaveUnderKey k  =  not (k starts with "ELROND")
     savekv_never_protected_exec    on Ok no cell with a protected key differs, in ANY account
     savekv_never_protected_always  the same for EVERY outcome (Ok, error, panic: the state reached when the
                                    run stops, before the node rolls back)
     savekv_accepted_only_if_exec   the acceptance conditions
     savekv_writes_exactly_exec     the effect: fold of the listed pairs, nothing else
   Built on LedgerProofs/Spec_System.v (skv_loop_spec, save_key_value_spec, the savekv lemmas). *)
From Coq.Strings Require Import String.
From EV Require Import Base.Bytes Base.Store Base.Monad gen.Consts Codec.Types Helpers.Helpers
  Ledger.Types Ledger.Env Ledger.Funcs Ledger.Transfers LedgerProofs.Defs LedgerProofs.EnvSpec
  LedgerProofs.Spec_System.

(* ------------------------------------------------------------------ *)
(* the protected prefix and the key test                                *)
(* ------------------------------------------------------------------ *)
Lemma protected_prefix_val : C.ElrondProtectedKeyPrefix = str "ELROND"%string.
Proof. reflexivity. Qed.

(* IsAllowedToSaveUnderKey: a key is refused iff it starts with the protected prefix *)
Lemma key_allowed_char k : key_allowed k = negb (prefix_of C.ElrondProtectedKeyPrefix k).
Proof.
  destruct (prefix_of C.ElrondProtectedKeyPrefix k) eqn:Ep.
  - apply key_allowed_prefix. exact Ep.
  - cbn [negb]. unfold key_allowed, is_allowed_to_save_under_key, blen, slice_to. cbv zeta.
    destruct (N.of_nat (length k) <? N.of_nat (length C.ElrondProtectedKeyPrefix))%N eqn:E1; [reflexivity|].
    apply N.ltb_ge in E1.
    destruct (N.of_nat (length C.ElrondProtectedKeyPrefix) <=? N.of_nat (length k))%N eqn:E2; [|apply N.leb_gt in E2; lia].
    rewrite Nnat.Nat2N.id. unfold prefix_of in Ep. rewrite Ep. reflexivity.
Qed.
Lemma key_allowed_char_str k : key_allowed k = negb (prefix_of (str "ELROND"%string) k).
Proof. apply key_allowed_char. Qed.
Lemma key_allowed_true_iff k : key_allowed k = true <-> ~ exists r, k = C.ElrondProtectedKeyPrefix ++ r.
Proof.
  rewrite key_allowed_char, <- prefix_of_true. destruct (prefix_of C.ElrondProtectedKeyPrefix k); cbn [negb]; split; intros H; congruence.
Qed.

(* ------------------------------------------------------------------ *)
(* the fold of the listed pairs                                          *)
(* ------------------------------------------------------------------ *)
(* storage as a function key -> value; writing the pairs in order (a later pair overwrites an earlier
   one; the empty value is the absent cell) *)
Definition write_pair (g : bytes -> bytes) (kv : bytes * bytes) : bytes -> bytes :=
  fun k => if beqb k (fst kv) then snd kv else g k.
Definition apply_pairs (g : bytes -> bytes) (ps : list (bytes * bytes)) : bytes -> bytes :=
  fold_left write_pair ps g.

Lemma apply_pairs_last_val ps : forall g k,
  apply_pairs g ps k = match last_val ps k with Some v => v | None => g k end.
Proof.
  induction ps as [|[k' v'] r IH]; intros g k; [reflexivity|].
  unfold apply_pairs. cbn [fold_left last_val]. fold (apply_pairs (write_pair g (k', v')) r). rewrite IH.
  destruct (last_val r k); [reflexivity|]. unfold write_pair. cbn [fst snd]. destruct (beqb k k'); reflexivity.
Qed.

Section SaveKV.
  Variable E : env.

  (* ---- never a protected key: Ok ---- *)
  Theorem savekv_never_protected_exec i s o s' :
    exec E C.BuiltInFunctionSaveKeyValue i s = (Ok o, s') ->
    forall a k, prefix_of C.ElrondProtectedKeyPrefix k = true -> cell s' a k = cell s a k.
  Proof. rewrite exec_save_key_value. apply savekv_never_protected. Qed.

  (* ---- never a protected key: every outcome ---- *)
  (* one write of an allowed key leaves every protected cell alone *)
  Lemma save_kv_protected a k v s r s' :
    save_kv E a k v s = (r, s') -> key_allowed k = true ->
    forall a' k', prefix_of C.ElrondProtectedKeyPrefix k' = true -> cell s' a' k' = cell s a' k'.
  Proof.
    intros H Hk a' k' Hp. unfold save_kv, bind, dep in H.
    destruct (plan E (calls s)).
    - inversion H; subst. reflexivity.
    - unfold write_kv in H. inversion H; subst. unfold cell, acct. cbn [accts with_accts].
      destruct (beqb_spec a' a) as [->|Hne].
      + rewrite aget_aput_eq. cbn [a_store set_store].
        destruct (beqb_spec k' k) as [->|Hkk].
        * rewrite (key_allowed_prefix _ Hp) in Hk. discriminate.
        * apply sget_put_ne. exact Hkk.
      + rewrite aget_aput_ne by exact Hne. reflexivity.
  Qed.

  Lemma skv_loop_protected a g : forall pairs use s r s',
    skv_loop E a g pairs use s = (r, s') ->
    forall a' k', prefix_of C.ElrondProtectedKeyPrefix k' = true -> cell s' a' k' = cell s a' k'.
  Proof.
    intros pairs. induction pairs as [| x | k v rest IH] using pair_ind; intros use s r s' H a' k' Hp.
    - cbn [skv_loop] in H. inversion H; subst. reflexivity.
    - cbn [skv_loop] in H. inversion H; subst. reflexivity.
    - cbn [skv_loop] in H. cbv zeta in H. unfold bind at 1 in H. unfold guard in H.
      destruct (key_allowed k) eqn:Ek.
      2:{ unfold fail in H. inversion H; subst. reflexivity. }
      unfold ret at 1 in H. unfold bind at 1 in H. unfold retrieve at 1 in H.
      destruct (beqb (sget (a_store (acct s a)) k) v).
      + eapply IH; eauto.
      + unfold bind at 1 in H.
        match type of H with context [if ?c then ret tt else fail _] => destruct c end.
        2:{ unfold fail in H. inversion H; subst. reflexivity. }
        unfold ret at 1 in H. unfold bind at 1 in H.
        destruct (save_kv E a k v s) as [[u|e|] s1] eqn:Es.
        * rewrite (IH _ _ _ _ H a' k' Hp). eapply save_kv_protected; eauto.
        * inversion H; subst. eapply save_kv_protected; eauto.
        * inversion H; subst. eapply save_kv_protected; eauto.
  Qed.

  Theorem savekv_never_protected_always i s r s' :
    exec E C.BuiltInFunctionSaveKeyValue i s = (r, s') ->
    forall a k, prefix_of C.ElrondProtectedKeyPrefix k = true -> cell s' a k = cell s a k.
  Proof.
    rewrite exec_save_key_value. unfold f_save_key_value. cbv zeta. intros H a k Hp.
    repeat (unfold bind at 1 in H; unfold guard at 1 in H;
            match type of H with context [if ?c then ret tt else fail _] => destruct c end;
            [unfold ret at 1 in H|unfold fail in H; inversion H; subst; reflexivity]).
    unfold bind at 1 in H.
    destruct (skv_loop E (i_caller i) (i_gas i) (i_args i) (g_SaveKeyValue (gas E)) s) as [[u|e|] s1] eqn:El.
    - pose proof (skv_loop_protected _ _ _ _ _ _ _ El a k Hp) as Hl.
      unfold bind, guard in H.
      match type of H with context [if ?c then ret tt else fail _] => destruct c end;
        unfold ret, fail in H; inversion H; subst; exact Hl.
    - inversion H; subst. eapply skv_loop_protected; eauto.
    - inversion H; subst. eapply skv_loop_protected; eauto.
  Qed.

  (* ---- accepted only if ---- *)
  Theorem savekv_accepted_only_if_exec i s o s' :
    exec E C.BuiltInFunctionSaveKeyValue i s = (Ok o, s') ->
    i_caller i = i_rcpt i                                  (* an account writes to itself *)
    /\ i_snd i = true                                      (* whose account lives on the executing shard *)
    /\ is_sc (i_caller i) = false                          (* and is not a contract address *)
    /\ (2 <= alen (i_args i))%N /\ (alen (i_args i) mod 2 = 0)%N    (* a non-empty list of pairs *)
    /\ i_value i = 0%Z
    /\ (forall k v, In (k, v) (pairs_of (i_args i)) ->
          key_allowed k = true /\ prefix_of C.ElrondProtectedKeyPrefix k = false)   (* no protected key, in ANY pair *)
    /\ (skv_use E (a_store (acct s (i_caller i))) (i_args i) (g_SaveKeyValue (gas E)) <= i_gas i)%N.   (* gas >= charge *)
  Proof.
    rewrite exec_save_key_value. intros H.
    apply savekv_accepted_only_if in H as (H1 & H2 & H3 & H4 & H5 & H6 & H7 & H8). repeat (split; [assumption|]). assumption.
  Qed.
  (* contrapositive, the form a reader expects: a protected key anywhere in the pair list => not accepted *)
  Corollary savekv_protected_key_rejected i s :
    (exists k v, In (k, v) (pairs_of (i_args i)) /\ prefix_of C.ElrondProtectedKeyPrefix k = true) ->
    forall o s', exec E C.BuiltInFunctionSaveKeyValue i s <> (Ok o, s').
  Proof.
    intros (k & v & Hin & Hp) o s' H. apply savekv_accepted_only_if_exec in H as (_ & _ & _ & _ & _ & _ & Hk & _).
    destruct (Hk _ _ Hin) as [_ Hx]. congruence.
  Qed.

  (* ---- writes exactly ---- *)
  Theorem savekv_writes_exactly_exec i s o s' :
    exec E C.BuiltInFunctionSaveKeyValue i s = (Ok o, s') ->
    (* the caller's storage is the fold of the listed pairs over its previous storage *)
    (forall k, cell s' (i_caller i) k = apply_pairs (cell s (i_caller i)) (pairs_of (i_args i)) k)
    (* = the value of the LAST pair with that key; unlisted keys keep their value *)
    /\ (forall k, cell s' (i_caller i) k =
                  match last_val (pairs_of (i_args i)) k with Some v => v | None => cell s (i_caller i) k end)
    (* the argument list is exactly the flattened pair list (nothing is dropped by [pairs_of]) *)
    /\ i_args i = unpairs (pairs_of (i_args i))
    (* no other account's storage changes *)
    /\ (forall a k, a <> i_caller i -> cell s' a k = cell s a k)
    (* no account field (balance, owner, user name, developer reward) of any account changes *)
    /\ (forall a, acct_fields_eq (acct s' a) (acct s a)).
  Proof.
    rewrite exec_save_key_value. intros H.
    pose proof (savekv_writes_exactly _ _ _ _ _ H) as (Hc & Ho & Hf & _).
    apply save_key_value_spec in H as ((_ & _ & Hup & _) & _).
    split; [intros k; rewrite apply_pairs_last_val; apply Hc|]. repeat (split; [assumption|]). assumption.
  Qed.
  (* an empty value deletes: the cell reads as absent afterwards *)
  Corollary savekv_empty_value_deletes i s o s' k :
    exec E C.BuiltInFunctionSaveKeyValue i s = (Ok o, s') ->
    last_val (pairs_of (i_args i)) k = Some [] -> cell s' (i_caller i) k = [].
  Proof. intros H Hl. apply savekv_writes_exactly_exec in H as (_ & Hc & _). rewrite Hc, Hl. reflexivity. Qed.

  (* the frame of SaveKeyValue in [unchanged_except] form: only listed, unprotected keys of the caller *)
  Theorem savekv_frame_exec i s o s' :
    exec E C.BuiltInFunctionSaveKeyValue i s = (Ok o, s') ->
    unchanged_except (fun a k => a = i_caller i /\ key_allowed k = true /\ exists v, In (k, v) (pairs_of (i_args i)))
                     (fun _ => False) s s'.
  Proof.
    intros H. pose proof (savekv_accepted_only_if_exec _ _ _ _ H) as (_ & _ & _ & _ & _ & _ & Hk & _).
    rewrite exec_save_key_value in H. apply save_key_value_spec in H as (_ & _ & _ & Hu & _).
    eapply unchanged_except_weaken; [| |exact Hu]; [|auto].
    intros a k [-> [v Hin]]. split; [reflexivity|]. split; [apply (Hk _ _ Hin)|eauto].
  Qed.
End SaveKV.

Print Assumptions key_allowed_char.
Print Assumptions savekv_never_protected_exec.
Print Assumptions savekv_never_protected_always.
Print Assumptions savekv_accepted_only_if_exec.
Print Assumptions savekv_writes_exactly_exec.
Print Assumptions savekv_frame_exec.
