(* C10, part 1: every non-empty data string a built-in function emits is [msg_data fn args] for an explicit
   (fn, args), and the call-arguments parser reads exactly (fn, args) back whenever the name is non-empty
   and has no '@' ([valid_fname]).  For the built-in continuation messages fn is the executing function's own
   name (valid by computation); for attached calls fn is the caller-supplied argument at the documented
   index ([attached_index]); F10: [emitted_data_parses_back_refuted].
   The encoder of the ledger model ([Env.msg_data]) is the encoder of the parsers' model
   ([Builder.build_call] = [Builder.encode_message]). *)
From Coq.Strings Require Import String.
From Coq Require Import Lia.
From EV Require Import Base.Bytes Base.Store Base.Monad gen.Consts Codec.Types Helpers.Helpers
  Parsers.Tokenize Parsers.CallArgs Parsers.Builder Parsers.TokenizeProofs Parsers.ParsersProofs
  Ledger.Types Ledger.Env Ledger.Funcs Ledger.Transfers
  LedgerProofs.Defs LedgerProofs.EnvSpec SliceModel.OutputShape
  LedgerProofs.Spec_Transfers_Base LedgerProofs.Spec_Transfers_Esdt LedgerProofs.Spec_Transfers_Nft
  LedgerProofs.Spec_Transfers_Multi.

(* ---- the two encoders are one ---- *)
Lemma msg_data_build_call fn args : msg_data fn args = build_call fn args.
Proof. reflexivity. Qed.
Lemma msg_data_encode_message fn args : msg_data fn args = encode_message fn args.
Proof. rewrite encode_message_build_call. reflexivity. Qed.

(* a function name the wire form can carry: non-empty, no separator *)
Definition valid_fname (fn : bytes) : Prop := fn <> [] /\ ~ In x40 fn.
Definition valid_fnameb (fn : bytes) : bool :=
  match fn with [] => false | _ => negb (existsb (fun b => (b2n b =? 64)%N) fn) end.
Lemma valid_fnameb_ok fn : valid_fnameb fn = true -> valid_fname fn.
Proof.
  unfold valid_fnameb, valid_fname. destruct fn as [|b r]; [discriminate|]. intros H.
  split; [discriminate|]. intros Hin. apply Bool.negb_true_iff in H.
  assert (existsb (fun b0 => (b2n b0 =? 64)%N) (b :: r) = true); [|congruence].
  apply existsb_exists. exists x40. split; [exact Hin|reflexivity].
Qed.

Theorem msg_data_parses_back fn args : valid_fname fn -> parse_call_data (msg_data fn args) = Some (fn, args).
Proof. intros [H1 H2]. rewrite msg_data_build_call. apply callargs_roundtrip; assumption. Qed.

(* msg_data is non-empty as soon as the name or the argument list is *)
Lemma msg_data_nil fn args : msg_data fn args = [] -> fn = [] /\ args = [].
Proof.
  unfold msg_data. intros H. apply app_eq_nil in H as [H1 H2]. split; [exact H1|].
  destruct args as [|a r]; [reflexivity|]. cbn [map concat] in H2. discriminate.
Qed.

(* the names under which a built-in function continues ITSELF on another shard (or hands over) *)
Definition continuation_names : list bytes :=
  [C.BuiltInFunctionESDTTransfer; C.BuiltInFunctionESDTBurn; C.BuiltInFunctionESDTNFTTransfer;
   C.BuiltInFunctionMultiESDTNFTTransfer; C.BuiltInFunctionESDTNFTCreateRoleTransfer; C.BuiltInFunctionSetUserName].
Definition continuation_name (f : bytes) : bool := bytes_in f continuation_names.
Lemma continuation_names_valid : Forall valid_fname continuation_names.
Proof. repeat constructor; apply valid_fnameb_ok; vm_compute; reflexivity. Qed.
Lemma bytes_in_In f l : bytes_in f l = true -> In f l.
Proof.
  induction l as [|x r IH]; cbn [bytes_in]; [discriminate|].
  unfold bytes_in. cbn [existsb]. intros H. apply Bool.orb_true_iff in H as [H|H].
  - left. symmetry. apply beqb_true. exact H.
  - right. apply IH. exact H.
Qed.
Lemma continuation_name_valid f : continuation_name f = true -> valid_fname f.
Proof.
  intros H. apply bytes_in_In in H. pose proof continuation_names_valid as Hv.
  rewrite Forall_forall in Hv. apply Hv. exact H.
Qed.

(* the index of the attached function name in the argument list of the three transfer functions
   (ESDTTransfer: 2; ESDTNFTTransfer: 4 on both sides; MultiESDTNFTTransfer: 3n+2 on the sender side, 3n+1 on the
   destination side, n the transfer count as the ledger reads it, with Go's uint64 arithmetic) *)
Definition attached_index (f : bytes) (i : input) : option N :=
  if beqb f C.BuiltInFunctionESDTTransfer then Some 2%N
  else if beqb f C.BuiltInFunctionESDTNFTTransfer then Some 4%N
  else if beqb f C.BuiltInFunctionMultiESDTNFTTransfer then
    Some (if beqb (i_caller i) (i_rcpt i) then multi_min 2 (multi_n_snd i) else multi_min 1 (multi_n_dst i))
  else None.

(* (fn, args) is the call attached to input i at index k *)
Definition attached_at (i : input) (k : N) (fn : bytes) (args : list bytes) : Prop :=
  nth_error (i_args i) (N.to_nat k) = Some fn /\ args = skipn (N.to_nat (k + 1)) (i_args i).

(* what one data string may be *)
Definition data_ok (name : bytes) (ko : option N) (i : input) (d : bytes) : Prop :=
  d = [] \/ exists fn args, d = msg_data fn args
     /\ ((fn = name /\ continuation_name name = true)
         \/ (exists k, ko = Some k /\ attached_at i k fn args)).
Definition emit_ok (name : bytes) (ko : option N) (i : input) (o : output) : Prop :=
  forall oa t, In oa (o_accounts o) -> In t (oc_transfers oa) -> data_ok name ko i (tr_data t).

Section EmitOk.
  Variables (name : bytes) (ko : option N) (i : input).
  Notation ok := (emit_ok name ko i).
  Lemma ok_mk rc g : ok (mk_out rc g). Proof. intros oa t []. Qed.
  Lemma ok_set_gasrem o g : ok o -> ok (set_gasrem o g). Proof. exact (fun H => H). Qed.
  Lemma ok_set_logs o l : ok o -> ok (set_logs o l). Proof. exact (fun H => H). Qed.
  Lemma ok_set_returnData o l : ok o -> ok (set_returnData o l). Proof. exact (fun H => H). Qed.
  Lemma ok_add_log o l : ok o -> ok (add_log o l). Proof. exact (fun H => H). Qed.
  Lemma ok_set_accounts_nil o : ok (set_accounts o []). Proof. intros oa t []. Qed.
  Lemma ok_set_accounts_one o a d tr :
    data_ok name ko i (tr_data tr) -> ok (set_accounts o [{| oc_addr := a; oc_delta := d; oc_transfers := [tr] |}]).
  Proof.
    intros H oa t [<-|[]] Ht. cbn [oc_transfers] in Ht. destruct Ht as [<-|[]]. exact H.
  Qed.
  Lemma data_ok_cont args : continuation_name name = true -> data_ok name ko i (msg_data name args).
  Proof. intros H. right. exists name, args. split; [reflexivity|]. left. split; [reflexivity|exact H]. Qed.
  Lemma data_ok_attached k fn args : ko = Some k -> attached_at i k fn args -> data_ok name ko i (msg_data fn args).
  Proof. intros H1 H2. right. exists fn, args. split; [reflexivity|]. right. exists k. split; assumption. Qed.
  Lemma ok_add_output_transfer snd fn args rc gl ct o :
    data_ok name ko i (msg_data fn args) -> ok (add_output_transfer snd fn args rc gl ct o).
  Proof. intros H. unfold add_output_transfer. apply ok_set_gasrem. apply ok_set_accounts_one. exact H. Qed.
  Lemma ok_add_nft_transfer snd rc fn args gl g ct o :
    data_ok name ko i (msg_data fn args) -> ok (add_nft_transfer snd rc fn args gl g ct o).
  Proof. intros H. unfold add_nft_transfer. apply ok_set_accounts_one. exact H. Qed.
  Lemma ok_if (b : bool) o1 o2 : ok o1 -> ok o2 -> ok (if b then o1 else o2).
  Proof. destruct b; auto. Qed.
End EmitOk.

Global Hint Resolve ok_mk ok_set_gasrem ok_set_logs ok_set_returnData ok_add_log ok_set_accounts_nil ok_if : c10db.

Section Emit.
  Variable E : env.
  Hypothesis Hc : codec_ok (cdc E).

  (* ---- the 20 non-transfer functions: only the named continuations, or empty data ---- *)
  Ltac fin := subst; eauto 8 with c10db.
  Ltac shape f := let H := fresh "H" in intros *; intros H; unfold f in H; oinv; fin.

  Lemma f_local_mint_ok : forall n i s o s', f_local_mint E i s = (Ok o, s') -> emit_ok n None i o.
  Proof. shape f_local_mint. Qed.
  Lemma f_local_burn_ok : forall n i s o s', f_local_burn E i s = (Ok o, s') -> emit_ok n None i o.
  Proof. shape f_local_burn. Qed.
  Lemma f_esdt_burn_ok : forall i s o s', f_esdt_burn E i s = (Ok o, s') -> emit_ok C.BuiltInFunctionESDTBurn None i o.
  Proof.
    intros *; intros H; unfold f_esdt_burn in H; oinv; subst; apply ok_add_log, ok_if; auto with c10db.
    apply ok_add_output_transfer, data_ok_cont. reflexivity.
  Qed.
  Lemma f_nft_create_ok : forall n i s o s', f_nft_create E i s = (Ok o, s') -> emit_ok n None i o.
  Proof. shape f_nft_create. Qed.
  Lemma f_nft_add_quantity_ok : forall n i s o s', f_nft_add_quantity E i s = (Ok o, s') -> emit_ok n None i o.
  Proof. shape f_nft_add_quantity. Qed.
  Lemma f_nft_burn_ok : forall n i s o s', f_nft_burn E i s = (Ok o, s') -> emit_ok n None i o.
  Proof. shape f_nft_burn. Qed.
  Lemma f_nft_add_uri_ok : forall n i s o s', f_nft_add_uri E i s = (Ok o, s') -> emit_ok n None i o.
  Proof. shape f_nft_add_uri. Qed.
  Lemma f_nft_update_attributes_ok : forall n i s o s', f_nft_update_attributes E i s = (Ok o, s') -> emit_ok n None i o.
  Proof. shape f_nft_update_attributes. Qed.
  Lemma f_create_role_transfer_ok : forall i s o s',
    f_create_role_transfer E i s = (Ok o, s') -> emit_ok C.BuiltInFunctionESDTNFTCreateRoleTransfer None i o.
  Proof.
    intros *; intros H; unfold f_create_role_transfer in H; oinv; subst; auto with c10db;
      apply ok_set_accounts_one; cbn [tr_data]; apply data_ok_cont; reflexivity.
  Qed.
  Lemma f_change_owner_ok : forall n i s o s', f_change_owner E i s = (Ok o, s') -> emit_ok n None i o.
  Proof. shape f_change_owner. Qed.
  Lemma f_claim_rewards_ok : forall n i s o s', f_claim_rewards E i s = (Ok o, s') -> emit_ok n None i o.
  Proof.
    intros *; intros H; unfold f_claim_rewards in H; oinv; subst; auto with c10db;
      try apply ok_if; auto with c10db; apply ok_set_accounts_one; left; reflexivity.
  Qed.
  Lemma f_set_user_name_ok : forall i s o s',
    f_set_user_name E i s = (Ok o, s') -> emit_ok C.BuiltInFunctionSetUserName None i o.
  Proof.
    intros *; intros H; unfold f_set_user_name in H; oinv; subst; auto with c10db;
      apply ok_set_accounts_one; cbn [tr_data]; apply data_ok_cont; reflexivity.
  Qed.
  Lemma f_save_key_value_ok : forall n i s o s', f_save_key_value E i s = (Ok o, s') -> emit_ok n None i o.
  Proof. shape f_save_key_value. Qed.
  Lemma f_freeze_wipe_ok : forall n a b i s o s', f_freeze_wipe E a b i s = (Ok o, s') -> emit_ok n None i o.
  Proof. shape f_freeze_wipe. Qed.
  Lemma f_pause_ok : forall n a i s o s', f_pause E a i s = (Ok o, s') -> emit_ok n None i o.
  Proof. shape f_pause. Qed.
  Lemma f_roles_ok : forall n a i s o s', f_roles E a i s = (Ok o, s') -> emit_ok n None i o.
  Proof. shape f_roles. Qed.

  (* ---- the three transfer functions: from the complete outputs of Spec_Transfers ---- *)
  Lemma attached_argn i k : (k < alen (i_args i))%N ->
    attached_at i k (argn i (N.to_nat k)) (skipn (N.to_nat (k + 1)) (i_args i)).
  Proof. intros H. split; [apply argn_nth_error; lia|reflexivity]. Qed.

  Lemma f_esdt_transfer_ok i s o s' :
    f_esdt_transfer E i s = (Ok o, s') -> emit_ok C.BuiltInFunctionESDTTransfer (Some 2%N) i o.
  Proof.
    intros H. apply (esdt_transfer_spec E Hc) in H. destruct H. subst o. unfold esdt_transfer_out. cbv zeta.
    destruct (i_dst i).
    - destruct (esdt_call_after i) eqn:Ea; apply ok_add_log; [|auto with c10db].
      unfold esdt_call_after in Ea. apply Bool.andb_true_iff in Ea as [_ Ea].
      apply ok_add_output_transfer. eapply data_ok_attached; [reflexivity|].
      apply (attached_argn i 2). lia.
    - apply ok_add_log, ok_if; auto with c10db. apply ok_add_output_transfer, data_ok_cont. reflexivity.
  Qed.

  Lemma f_nft_transfer_ok i s o s' :
    f_nft_transfer E i s = (Ok o, s') -> emit_ok C.BuiltInFunctionESDTNFTTransfer (Some 4%N) i o.
  Proof.
    intros H. apply (nft_transfer_spec E Hc) in H as (_ & Hlen & H).
    assert (Hatt : forall dst, nft_call_after i dst = true ->
              data_ok C.BuiltInFunctionESDTNFTTransfer (Some 4%N) i (msg_data (argn i 4) (skipn 5 (i_args i)))).
    { intros dst Ha. unfold nft_call_after in Ha. apply Bool.andb_true_iff in Ha as [Ha _].
      eapply data_ok_attached; [reflexivity|]. apply (attached_argn i 4). lia. }
    destruct (beqb (i_caller i) (i_rcpt i)); destruct H as (t & H); destruct H.
    - subst o. unfold nft_sender_out. cbv zeta. apply ok_add_log.
      destruct (negb (nft_same E i)).
      + apply ok_add_nft_transfer, data_ok_cont. reflexivity.
      + destruct (nft_call_after i (nft_dst i)) eqn:Ea; [|auto with c10db].
        apply ok_add_output_transfer. eapply Hatt. exact Ea.
    - subst o. unfold nft_dest_out. cbv zeta. apply ok_add_log.
      destruct (nft_call_after i (i_rcpt i)) eqn:Ea; [|auto with c10db].
      apply ok_add_output_transfer. eapply Hatt. exact Ea.
  Qed.

  Lemma f_multi_transfer_ok i s o s' :
    f_multi_transfer E i s = (Ok o, s') ->
    emit_ok C.BuiltInFunctionMultiESDTNFTTransfer
      (Some (if beqb (i_caller i) (i_rcpt i) then multi_min 2 (multi_n_snd i) else multi_min 1 (multi_n_dst i))) i o.
  Proof.
    intros H. apply (multi_transfer_spec E Hc) in H as (_ & Hlen & H).
    destruct (beqb (i_caller i) (i_rcpt i)).
    - destruct H as (lst & H). destruct H. subst o. unfold multi_sender_out. cbv zeta.
      destruct (negb (multi_same E i)).
      + apply ok_add_nft_transfer, data_ok_cont. reflexivity.
      + destruct ((multi_min 2 (multi_n_snd i) <? alen (i_args i))%N && is_sc (multi_dst i))%bool eqn:Ea;
          [|auto with c10db].
        apply Bool.andb_true_iff in Ea as [Ea _].
        apply ok_add_output_transfer. eapply data_ok_attached; [reflexivity|]. apply attached_argn. lia.
    - destruct H. subst o. unfold multi_dest_out. cbv zeta.
      destruct ((multi_min 1 (multi_n_dst i) <? alen (i_args i))%N && is_sc (i_rcpt i))%bool eqn:Ea;
        [|auto with c10db].
      apply Bool.andb_true_iff in Ea as [Ea _].
      apply ok_add_output_transfer. eapply data_ok_attached; [reflexivity|]. apply attached_argn. lia.
  Qed.

  (* ---- all 23 functions ---- *)
  Lemma attached_index_none f i :
    beqb f C.BuiltInFunctionESDTTransfer = false -> beqb f C.BuiltInFunctionESDTNFTTransfer = false ->
    beqb f C.BuiltInFunctionMultiESDTNFTTransfer = false -> attached_index f i = None.
  Proof. intros H1 H2 H3. unfold attached_index. rewrite H1, H2, H3. reflexivity. Qed.

  Theorem exec_emit_ok f i s o s' : exec E f i s = (Ok o, s') -> emit_ok f (attached_index f i) i o.
  Proof.
    intros H. unfold exec in H.
    repeat match type of H with
           | (if beqb f ?c then _ else _) _ = _ =>
             let Eq := fresh "Eq" in destruct (beqb f c) eqn:Eq;
             [apply beqb_true in Eq; subst f;
              first [ rewrite attached_index_none by reflexivity | idtac ] | ]
           end;
      eauto using f_local_mint_ok, f_local_burn_ok, f_esdt_burn_ok, f_nft_create_ok, f_nft_add_quantity_ok,
        f_nft_burn_ok, f_nft_add_uri_ok, f_nft_update_attributes_ok, f_create_role_transfer_ok, f_change_owner_ok,
        f_claim_rewards_ok, f_set_user_name_ok, f_save_key_value_ok, f_freeze_wipe_ok, f_pause_ok, f_roles_ok.
    - apply f_esdt_transfer_ok in H. exact H.
    - apply f_nft_transfer_ok in H. exact H.
    - apply f_multi_transfer_ok in H. exact H.
    - discriminate H.
  Qed.

  (* THE uniform statement (C10, first sentence of the property text) *)
  Theorem emitted_data_parses_back f i s o s' :
    exec E f i s = (Ok o, s') ->
    forall oa t, In oa (o_accounts o) -> In t (oc_transfers oa) -> tr_data t <> [] ->
    exists fn args,
      tr_data t = msg_data fn args
      /\ (valid_fname fn -> parse_call_data (tr_data t) = Some (fn, args))
      /\ ((fn = f /\ continuation_name f = true /\ parse_call_data (tr_data t) = Some (fn, args))
          \/ (exists k, attached_index f i = Some k /\ attached_at i k fn args)).
  Proof.
    intros H oa t Hoa Ht Hne. apply exec_emit_ok in H. destruct (H oa t Hoa Ht) as [Hd|(fn & args & Hd & Hk)]; [contradiction|].
    exists fn, args. split; [exact Hd|]. split.
    - intros Hv. rewrite Hd. apply msg_data_parses_back. exact Hv.
    - destruct Hk as [[-> Hcn]|Hk]; [left|right; exact Hk].
      split; [reflexivity|]. split; [exact Hcn|]. rewrite Hd. apply msg_data_parses_back.
      apply continuation_name_valid. exact Hcn.
  Qed.
End Emit.

Print Assumptions emitted_data_parses_back.
