(* Function spec of ESDTTransfer (Ledger/Transfers.v: f_esdt_transfer), all four presence cases
   (i_snd, i_dst): (true,true) same shard; (true,false) origin side of a cross-shard transfer;
   (false,true) destination side / issue by the system contract / refund; (false,false) nothing to do.
   Main theorem: [esdt_transfer_spec] (record [esdt_post]); the remaining lemmas are projections and
   reformulations that the property proofs cite. *)
From EV Require Import Base.Bytes Base.Store Base.Monad gen.Consts Codec.Types Helpers.Helpers
  Ledger.Types Ledger.Env Ledger.Funcs Ledger.Transfers LedgerProofs.Defs LedgerProofs.EnvSpec
  LedgerProofs.Spec_Transfers_Base.

Section Esdt.
  Variable E : env.
  Hypothesis Hc : codec_ok (cdc E).

  (* ---- what the call is about ---- *)
  Definition esdt_tok (i : input) : bytes := argn i 0.
  Definition esdt_key (i : input) : bytes := P ++ argn i 0.
  Definition esdt_val (i : input) : Z := bigZ (argn i 1).
  Definition esdt_call_after (i : input) : bool := (is_sc (i_rcpt i) && (2 <? alen (i_args i))%N)%bool.

  (* the complete output *)
  Definition esdt_transfer_out (i : input) : output :=
    let cost := g_ESDTTransfer (gas E) in
    let o := mk_out rcOk (compute_gas_remaining (i_snd i) (i_gas i) cost) in
    let lg extra := log_esdt C.BuiltInFunctionESDTTransfer (esdt_tok i) (esdt_val i) (i_caller i) extra in
    if i_dst i then
      if esdt_call_after i then
        add_log (add_output_transfer (i_caller i) (argn i 2) (skipn 3 (i_args i)) (i_rcpt i) (i_gasLocked i) (i_callType i)
                   (set_gasrem o (match safe_sub_u64 (i_gas i) cost with Some r => r | None => 0%N end)))
                (lg [i_rcpt i])
      else
        add_log (if ((i_callType i =? C.AsynchronousCallBack)%N && negb (i_snd i))%bool then set_gasrem o (i_gas i) else o)
                (lg [i_rcpt i])
    else
      add_log (if is_sc (i_caller i)
               then add_output_transfer (i_caller i) C.BuiltInFunctionESDTTransfer (i_args i) (i_rcpt i) (i_gasLocked i) (i_callType i) o
               else o)
              (lg []).

  (* change of the balance of cell (a, k) *)
  Definition esdt_delta (i : input) (a k : bytes) : Z :=
    ((if (i_snd i && beqb a (i_caller i) && beqb k (esdt_key i))%bool then - esdt_val i else 0)
     + (if (i_dst i && beqb a (i_rcpt i) && beqb k (esdt_key i))%bool then esdt_val i else 0))%Z.
  (* the cells that may change *)
  Definition esdt_cells (i : input) (a k : bytes) : Prop :=
    k = esdt_key i /\ ((i_snd i = true /\ a = i_caller i) \/ (i_dst i = true /\ a = i_rcpt i)).

  Record esdt_post (i : input) (s : mstate) (o : output) (s' : mstate) : Prop := {
    (* guards *)
    ep_value : i_value i = 0%Z;
    ep_nargs : (2 <= alen (i_args i))%N;
    ep_not_meta : shard_of E (i_rcpt i) <> META;
    ep_pos : (0 < esdt_val i)%Z;
    ep_gas : i_snd i = true -> (g_ESDTTransfer (gas E) <= i_gas i)%N;
    ep_payable : i_dst i = true -> must_verify_payable i 2 = true -> payable E (i_rcpt i) = PayYes;
    (* the sender's entry *)
    ep_snd_funds : i_snd i = true -> (esdt_val i <= balance E s (i_caller i) (esdt_key i))%Z;
    ep_snd_entry : i_snd i = true ->
      exists t, tok_or_default E s (i_caller i) (esdt_key i) = Some t /\ wf_token t
                /\ t_type t = C.Fungible /\ t_value t <> None;
    ep_snd_flags : i_snd i = true -> i_rae i = false -> i_caller i <> SC ->
      frozen_at E s (i_caller i) (esdt_key i) = false /\ paused_at s (esdt_key i) = false;
    (* the destination's entry (all in terms of the PRE-state) *)
    ep_dst_entry : i_dst i = true ->
      exists t, tok_or_default E s (i_rcpt i) (esdt_key i) = Some t /\ wf_token t
                /\ t_type t = C.Fungible /\ t_value t <> None;
    ep_dst_flags : i_dst i = true -> i_rae i = false -> i_rcpt i <> SC ->
      frozen_at E s (i_rcpt i) (esdt_key i) = false /\ paused_at s (esdt_key i) = false;
    ep_dst_nonneg : i_dst i = true -> (0 <= balance E s' (i_rcpt i) (esdt_key i))%Z;
    (* effects *)
    ep_balance : forall a k, balance E s' a k = (balance E s a k + esdt_delta i a k)%Z;
    ep_frame : unchanged_except (esdt_cells i) (fun _ => False) s s';
    ep_touches : forall L, NoDup L -> (i_snd i = true -> In (i_caller i) L) -> (i_dst i = true -> In (i_rcpt i) L) ->
                 touches L s s';
    ep_nofault : nofault E s s';
    ep_allocs : allocs s' = allocs s;
    ep_noop : i_snd i = false -> i_dst i = false -> s' = s;
    (* output *)
    ep_out : o = esdt_transfer_out i }.

  (* ---- one balance update, as a function of (a', k') ---- *)
  Lemma atb_balance a key d rae s u s' : add_to_esdt_balance E a key d rae s = (Ok u, s') ->
    forall a' k', balance E s' a' k' = (balance E s a' k' + (if (beqb a' a && beqb k' key)%bool then d else 0))%Z.
  Proof.
    intros H a' k'. apply (add_to_esdt_balance_ok E Hc) in H as (_ & Hb & _ & _ & Hue & _).
    destruct (beqb_spec a' a) as [->|Ha]; cbn [andb].
    - destruct (beqb_spec k' key) as [->|Hk]; [exact Hb|].
      rewrite (ue_balance E _ _ _ _ Hue); [lia|]. intros [_ ?]. contradiction.
    - rewrite (ue_balance E _ _ _ _ Hue); [lia|]. intros [? _]. contradiction.
  Qed.
  Lemma atb_touches L a key d rae s u s' : NoDup L -> In a L ->
    add_to_esdt_balance E a key d rae s = (Ok u, s') -> touches L s s'.
  Proof.
    intros HL Hin H. apply (add_to_esdt_balance_inv E Hc) in H as (t & v & _ & _ & _ & _ & _ & _ & Hw).
    eapply touches_wr; eauto.
  Qed.
  Lemma atb_allocs a key d rae s u s' : add_to_esdt_balance E a key d rae s = (Ok u, s') -> allocs s' = allocs s.
  Proof.
    intros H. apply (add_to_esdt_balance_inv E Hc) in H as (t & v & _ & _ & _ & _ & _ & _ & Hw).
    eapply wr_allocs; eauto.
  Qed.

  (* ---- structural inversion: guards, the two optional balance updates, the output ---- *)
  Lemma esdt_transfer_inv i s o s' : f_esdt_transfer E i s = (Ok o, s') ->
    i_value i = 0%Z /\ (2 <= alen (i_args i))%N /\ shard_of E (i_rcpt i) <> META /\ (0 < esdt_val i)%Z
    /\ exists s1 s2,
         (if i_snd i then (g_ESDTTransfer (gas E) <= i_gas i)%N
                          /\ add_to_esdt_balance E (i_caller i) (esdt_key i) (- esdt_val i) (i_rae i) s = (Ok tt, s1)
          else s1 = s)
         /\ (if i_dst i then rd E s1 s2 /\ (must_verify_payable i 2 = true -> payable E (i_rcpt i) = PayYes)
                             /\ add_to_esdt_balance E (i_rcpt i) (esdt_key i) (esdt_val i) (i_rae i) s2 = (Ok tt, s')
             else s2 = s1 /\ s' = s1)
         /\ o = esdt_transfer_out i.
  Proof.
    unfold f_esdt_transfer. cbv zeta. intros H.
    apply bind_ok in H as (u0 & s0 & H0 & H). apply check_basic_ok in H0 as (Hv & Hn & ->).
    apply bind_ok in H as (u1 & s0 & H0 & H). apply guard_ok in H0 as [Hmeta ->].
    apply bind_ok in H as (tok & s0 & H0 & H). apply arg_ok in H0 as (Ht & _ & ->).
    apply bind_ok in H as (a1 & s0 & H0 & H). apply arg_ok in H0 as (Ha1 & _ & ->).
    change (N.to_nat 0) with 0%nat in Ht. change (N.to_nat 1) with 1%nat in Ha1.
    apply nth_error_argn in Ht. apply nth_error_argn in Ha1. subst tok a1.
    apply bind_ok in H as (u2 & s0 & H0 & H). apply guard_ok in H0 as [Hpos ->].
    apply bind_ok in H as (u3 & s1 & Hsnd & H).
    split; [exact Hv|]. split; [exact Hn|].
    split; [intros Heq; rewrite Heq, N.eqb_refl in Hmeta; discriminate|].
    split; [unfold esdt_val; lia|].
    exists s1.
    assert (Hs : if i_snd i then (g_ESDTTransfer (gas E) <= i_gas i)%N
                          /\ add_to_esdt_balance E (i_caller i) (esdt_key i) (- esdt_val i) (i_rae i) s = (Ok tt, s1)
                 else s1 = s).
    { destruct (i_snd i).
      - apply bind_ok in Hsnd as (u4 & s2 & H0 & H1). apply guard_ok in H0 as [Hg ->].
        destruct u3. split; [lia|exact H1].
      - apply ret_ok in Hsnd as [_ ->]. reflexivity. }
    clear Hsnd.
    unfold esdt_transfer_out. cbv zeta. fold (esdt_call_after i) in H.
    change C.MinLenArgumentsESDTTransfer with 2%N in *. fold (esdt_tok i) in H. fold (esdt_val i) in H.
    unfold esdt_call_after in *.
    destruct (i_dst i).
    - apply bind_ok in H as (u4 & s2 & H0 & H). apply check_payable_ok in H0 as [Hrd Hpay].
      apply bind_ok in H as (u5 & s3 & H0 & H). destruct u5.
      exists s2. split; [exact Hs|].
      destruct (is_sc (i_rcpt i) && (2 <? alen (i_args i))%N)%bool eqn:Eafter.
      + apply bind_ok in H as (fn & s4 & H1 & H). apply arg_ok in H1 as (Hfn & Hlt & ->).
        change (N.to_nat 2) with 2%nat in Hfn. apply nth_error_argn in Hfn. subst fn.
        apply bind_ok in H as (callArgs & s4 & H1 & H).
        assert (Hca : callArgs = skipn 3 (i_args i) /\ s4 = s3).
        { destruct (2 + 1 <? alen (i_args i))%N eqn:E3.
          - apply args_from_ok in H1 as (_ & -> & ->). split; reflexivity.
          - apply ret_ok in H1 as [-> ->]. split; [|reflexivity]. symmetry. apply skipn_all2. unfold alen in *. lia. }
        destruct Hca as [-> ->]. apply ret_ok in H as [-> ->].
        split; [split; [exact Hrd|split; [exact Hpay|exact H0]]|reflexivity].
      + apply ret_ok in H as [-> ->].
        split; [split; [exact Hrd|split; [exact Hpay|exact H0]]|reflexivity].
    - apply ret_ok in H as [-> ->]. exists s1. split; [exact Hs|]. split; [split; reflexivity|reflexivity].
  Qed.

  (* ---- the function spec ---- *)
  Theorem esdt_transfer_spec i s o s' : f_esdt_transfer E i s = (Ok o, s') -> esdt_post i s o s'.
  Proof.
    intros H. apply esdt_transfer_inv in H as (Hv & Hn & Hmeta & Hpos & s1 & s2 & Hsnd & Hdst & Ho).
    (* facts about the first (optional) update s -> s1 *)
    assert (S1 : (forall a k, balance E s1 a k =
                    (balance E s a k + (if (i_snd i && beqb a (i_caller i) && beqb k (esdt_key i))%bool then - esdt_val i else 0))%Z)
                 /\ unchanged_except (fun a k => k = esdt_key i /\ i_snd i = true /\ a = i_caller i) (fun _ => False) s s1
                 /\ (forall L, NoDup L -> (i_snd i = true -> In (i_caller i) L) -> touches L s s1)
                 /\ nofault E s s1 /\ allocs s1 = allocs s
                 /\ (i_snd i = true ->
                     (esdt_val i <= balance E s (i_caller i) (esdt_key i))%Z
                     /\ (exists t, tok_or_default E s (i_caller i) (esdt_key i) = Some t /\ wf_token t
                                   /\ t_type t = C.Fungible /\ t_value t <> None
                                   /\ tok_at E s1 (i_caller i) (esdt_key i) =
                                      (if ((balance E s (i_caller i) (esdt_key i) + - esdt_val i =? 0)%Z && all_zero (t_props t))%bool
                                       then None
                                       else Some (set_value t (Some (balance E s (i_caller i) (esdt_key i) + - esdt_val i)%Z))))
                     /\ (i_rae i = false -> i_caller i <> SC ->
                         frozen_at E s (i_caller i) (esdt_key i) = false /\ paused_at s (esdt_key i) = false))).
    { destruct (i_snd i).
      - destruct Hsnd as [Hg Hs]. pose proof (atb_balance _ _ _ _ _ _ _ Hs) as Hb.
        pose proof (fun L HL Hin => atb_touches L _ _ _ _ _ _ _ HL Hin Hs) as Ht.
        pose proof (atb_allocs _ _ _ _ _ _ _ Hs) as Hal.
        apply (add_to_esdt_balance_ok E Hc) in Hs as (Hge & _ & Hent & Hfl & Hue & Hnf).
        split; [intros a k; rewrite Hb; reflexivity|].
        split; [eapply unchanged_except_weaken; [| |exact Hue]; [intros a k [-> ->]; auto|auto]|].
        split; [intros L HL Hin; apply Ht; auto|].
        split; [exact Hnf|]. split; [exact Hal|]. intros _.
        split; [lia|]. split; [|exact Hfl].
        destruct Hent as (t & Ht1 & Ht2 & Ht3 & Ht4 & Ht5). exists t. auto.
      - subst s1. split; [intros; cbn [andb]; lia|]. split; [apply unchanged_except_refl|].
        split; [intros; apply touches_refl|]. split; [apply nofault_refl|]. split; [reflexivity|discriminate]. }
    destruct S1 as (B1 & U1 & T1 & N1 & A1 & F1).
    destruct (i_dst i) eqn:Hd.
    - destruct Hdst as (Hrd & Hpay & Hs).
      pose proof (atb_balance _ _ _ _ _ _ _ Hs) as B2.
      pose proof (fun L HL Hin => atb_touches L _ _ _ _ _ _ _ HL Hin Hs) as T2.
      pose proof (atb_allocs _ _ _ _ _ _ _ Hs) as A2.
      apply (add_to_esdt_balance_ok E Hc) in Hs as (Hge & Hb2 & Hent & Hfl & Hue & Hnf).
      (* the destination entry as seen from the pre-state *)
      assert (Dent : exists t, tok_or_default E s (i_rcpt i) (esdt_key i) = Some t /\ wf_token t
                               /\ t_type t = C.Fungible /\ t_value t <> None).
      { destruct (i_snd i) eqn:Hsn.
        - destruct (beqb_spec (i_rcpt i) (i_caller i)) as [Heq|Hne].
          + rewrite Heq. destruct (F1 eq_refl) as (_ & (t & Ht1 & Ht2 & Ht3 & Ht4 & _) & _). exists t. auto.
          + destruct Hent as (t & Ht1 & Ht2 & Ht3 & Ht4 & _). exists t.
            rewrite (rd_tod E _ _ _ _ Hrd) in Ht1. rewrite (ue_tod E _ _ _ _ U1) in Ht1; [auto|].
            intros (_ & _ & ?). contradiction.
        - destruct Hent as (t & Ht1 & Ht2 & Ht3 & Ht4 & _). exists t.
          rewrite (rd_tod E _ _ _ _ Hrd) in Ht1. rewrite (ue_tod E _ _ _ _ U1) in Ht1; [auto|].
          intros (_ & ? & _). discriminate. }
      assert (Dfl : i_rae i = false -> i_rcpt i <> SC ->
                    frozen_at E s (i_rcpt i) (esdt_key i) = false /\ paused_at s (esdt_key i) = false).
      { intros Hr Hsc. destruct (Hfl Hr Hsc) as [Hf Hp].
        rewrite (rd_frozen_at E _ _ _ _ Hrd) in Hf. rewrite (rd_paused_at E _ _ _ Hrd) in Hp.
        destruct (i_snd i) eqn:Hsn.
        - split.
          + destruct (beqb_spec (i_rcpt i) (i_caller i)) as [Heq|Hne].
            * rewrite Heq in *. destruct (F1 eq_refl) as (_ & _ & Hfs). apply Hfs; auto.
            * rewrite (ue_frozen_at E _ _ _ _ U1) in Hf; [exact Hf|]. intros (_ & _ & ?). contradiction.
          + destruct (beqb_spec (i_caller i) SYS) as [Heq|Hne].
            * destruct (F1 eq_refl) as (_ & _ & Hfs). apply Hfs; [exact Hr|]. rewrite Heq. intros Hx. apply SC_ne_SYS. auto.
            * rewrite (ue_paused_at _ _ _ _ U1) in Hp; [exact Hp|]. intros (_ & _ & ?). apply Hne. auto.
        - rewrite (ue_frozen_at E _ _ _ _ U1) in Hf by (intros (_ & ? & _); discriminate).
          rewrite (ue_paused_at _ _ _ _ U1) in Hp by (intros (_ & ? & _); discriminate). auto. }
      constructor; try assumption.
      + intros Hsn; rewrite Hsn in *; tauto.
      + intros _. exact Hpay.
      + intros Hsn. apply (F1 Hsn).
      + intros Hsn. destruct (F1 Hsn) as (_ & (t & Ht1 & Ht2 & Ht3 & Ht4 & _) & _). exists t. auto.
      + intros Hsn. apply (F1 Hsn).
      + intros _. exact Dent.
      + intros _. exact Dfl.
      + intros _. rewrite Hb2. exact Hge.
      + intros a k. rewrite B2. rewrite (rd_balance E _ _ _ _ Hrd). rewrite B1. unfold esdt_delta. rewrite Hd. cbn [andb]. lia.
      + eapply unchanged_except_trans.
        * eapply unchanged_except_weaken; [| |exact U1]; [|auto]. intros a k (-> & Hsn & ->). split; auto.
        * eapply unchanged_except_trans; [apply (rd_unchanged E _ _ _ _ Hrd)|].
          eapply unchanged_except_weaken; [| |exact Hue]; [|auto]. intros a k [-> ->]. split; auto.
      + intros L HL Hi1 Hi2. eapply touches_trans; [apply T1; auto|].
        eapply touches_trans; [eapply touches_rd; eauto|apply T2; auto].
      + eapply nofault_trans; [exact N1|]. eapply nofault_trans; [eapply rd_nofault; eauto|exact Hnf].
      + rewrite A2, (rd_allocs E _ _ Hrd). exact A1.
      + intros _ Hx. rewrite Hd in Hx. discriminate Hx.
    - destruct Hdst as [-> ->].
      constructor; try assumption; try (intros Hx; rewrite Hd in Hx; discriminate Hx).
      + intros Hsn; rewrite Hsn in *; tauto.
      + intros Hsn. apply (F1 Hsn).
      + intros Hsn. destruct (F1 Hsn) as (_ & (t & Ht1 & Ht2 & Ht3 & Ht4 & _) & _). exists t. auto.
      + intros Hsn. apply (F1 Hsn).
      + intros a k. rewrite B1. unfold esdt_delta. rewrite Hd. cbn [andb]. lia.
      + eapply unchanged_except_weaken; [| |exact U1]; [|auto]. intros a k (-> & Hsn & ->). split; auto.
      + intros L HL Hi1 _. apply T1; auto.
      + intros Hsn _. rewrite Hsn in Hsnd. exact Hsnd.
  Qed.
End Esdt.
