(* Honest identifiers, part 1: the shape of a token identifier and the injectivity of storage keys.

   [valid_id tok] (LedgerProofs/C01_Consistent.v):  tok = ticker ++ "-" ++ rnd  with no '-' in ticker and |rnd| = 6.
   It contains the identifiers the ESDT system contract issues ([protocol_id_b]: ticker of 3..10 characters
   [A-Z0-9], '-', 6 lowercase hex characters) and is prefix-free: the first '-' of  tok ++ anything  marks the
   end of the ticker and the identifier ends exactly 6 bytes later, so  tok ++ x = tok' ++ x'  forces tok = tok'
   whatever the tails are (the nonce bytes are arbitrary bytes and may contain '-').  Hence the storage key
   P ++ tok ++ nonce-bytes determines (tok, nonce) among valid identifiers: [valid_id_key_injective].
   [valid_id_b] decides [valid_id]. *)
From Coq.Strings Require Import String.
From Coq Require Import Lia.
From EV Require Import Base.Bytes Base.Store Base.Monad gen.Consts Codec.Types Helpers.Helpers
  Ledger.Types Ledger.Env LedgerProofs.Defs LedgerProofs.EnvSpec LedgerProofs.C01_Consistent.

(* ---------------- the decider ---------------- *)
Fixpoint valid_id_b (tok : bytes) : bool :=
  match tok with
  | [] => false
  | b :: r => if byte_eqb b x2d then Nat.eqb (length r) 6 else valid_id_b r
  end.

Lemma valid_id_b_sound tok : valid_id_b tok = true -> valid_id tok.
Proof.
  induction tok as [|b r IH]; cbn [valid_id_b]; [discriminate|].
  destruct (byte_eqb b x2d) eqn:Eb.
  - apply byte_eqb_true in Eb as ->. intros H. apply Nat.eqb_eq in H.
    exists [], r. split; [reflexivity|]. split; [intros []|exact H].
  - intros H. destruct (IH H) as (k & d & -> & Hk & Hd). exists (b :: k), d.
    split; [reflexivity|]. split; [|exact Hd]. intros [Hx|Hx]; [|exact (Hk Hx)].
    subst b. assert (byte_eqb x2d x2d = true) by (apply byte_eqb_true; reflexivity). congruence.
Qed.
Lemma valid_id_b_complete tok : valid_id tok -> valid_id_b tok = true.
Proof.
  intros (k & d & -> & Hk & Hd). induction k as [|b k IH]; cbn [app valid_id_b].
  - assert (Hb : byte_eqb x2d x2d = true) by (apply byte_eqb_true; reflexivity). rewrite Hb. apply Nat.eqb_eq. exact Hd.
  - destruct (byte_eqb b x2d) eqn:Eb.
    + apply byte_eqb_true in Eb. exfalso. apply Hk. left. exact Eb.
    + apply IH. intros Hx. apply Hk. right. exact Hx.
Qed.
Theorem valid_id_b_spec tok : valid_id_b tok = true <-> valid_id tok.
Proof. split; [apply valid_id_b_sound|apply valid_id_b_complete]. Qed.

(* ---------------- the identifiers the system contract issues ---------------- *)
Definition is_upper_alnum (b : byte) : bool :=
  let n := b2n b in (((65 <=? n) && (n <=? 90)) || ((48 <=? n) && (n <=? 57)))%N%bool.
Definition is_lower_hex (b : byte) : bool :=
  let n := b2n b in (((48 <=? n) && (n <=? 57)) || ((97 <=? n) && (n <=? 102)))%N%bool.
(* TICKER-rrrrrr: 3..10 characters [A-Z0-9], '-', 6 lowercase hex characters *)
Definition protocol_id_b (tok : bytes) : bool :=
  let n := length tok in
  let ticker := firstn (n - 7) tok in
  let tail := skipn (n - 7) tok in
  ((10 <=? n)%nat && (n <=? 17)%nat && forallb is_upper_alnum ticker
   && match tail with d :: rnd => byte_eqb d x2d && forallb is_lower_hex rnd && Nat.eqb (length rnd) 6 | [] => false end)%bool.

Lemma upper_alnum_not_dash l : forallb is_upper_alnum l = true -> ~ In x2d l.
Proof.
  intros H Hin. rewrite forallb_forall in H. specialize (H _ Hin). vm_compute in H. discriminate.
Qed.
Theorem protocol_id_valid tok : protocol_id_b tok = true -> valid_id tok.
Proof.
  unfold protocol_id_b. cbv zeta. intros H.
  apply andb_prop in H as [H H4]. apply andb_prop in H as [_ H3].
  destruct (skipn (length tok - 7) tok) as [|d rnd] eqn:Es; [discriminate|].
  apply andb_prop in H4 as [H4 H6]. apply andb_prop in H4 as [H4 _]. apply byte_eqb_true in H4. subst d.
  apply Nat.eqb_eq in H6.
  exists (firstn (length tok - 7) tok), rnd. split; [rewrite <- Es; symmetry; apply firstn_skipn|].
  split; [apply upper_alnum_not_dash; exact H3|exact H6].
Qed.

(* ---------------- injectivity of keys ---------------- *)
(* the crucial property, for ARBITRARY tails x, x' (not only minimal nonce encodings) *)
Theorem valid_id_prefix_free tok tok' x x' :
  valid_id tok -> valid_id tok' -> tok ++ x = tok' ++ x' -> tok = tok' /\ x = x'.
Proof. apply valid_id_unique. Qed.

Theorem valid_id_key_injective tok tok' n n' :
  valid_id tok -> valid_id tok' -> nft_key (P ++ tok) n = nft_key (P ++ tok') n' -> tok = tok' /\ n = n'.
Proof.
  intros Hv Hv' H. rewrite !nft_key_app in H. apply app_inv_head in H.
  destruct (valid_id_unique _ _ _ _ Hv Hv' H) as [-> Hn]. split; [reflexivity|apply u64_bytes_inj; exact Hn].
Qed.
(* a valid identifier is never a nonce-extension of another one *)
Corollary valid_id_no_extension tok tok' x : valid_id tok -> valid_id tok' -> tok' = tok ++ x -> x = [].
Proof.
  intros Hv Hv' H. destruct (valid_id_unique tok tok' x [] Hv Hv') as [_ Hx]; [rewrite app_nil_r; symmetry; exact H|exact Hx].
Qed.

(* ---------------- examples ---------------- *)
Example valid_TKA : valid_id (str "TKA-a1b2c3"%string). Proof. apply protocol_id_valid. vm_compute. reflexivity. Qed.
Example valid_NFA : valid_id (str "NFA-112233"%string). Proof. apply protocol_id_valid. vm_compute. reflexivity. Qed.
(* the identifiers of the F4b witness: "ABC-12345" has only 5 characters after the dash *)
Example f4b_ids_not_valid :
  ~ valid_id (str "ABC-12345"%string) /\ valid_id (str "ABC-123456"%string)
  /\ ~ (valid_id (str "ABC-12345"%string) /\ valid_id (str "ABC-123456"%string)).
Proof.
  assert (H : ~ valid_id (str "ABC-12345"%string)).
  { intros Hv. apply valid_id_b_complete in Hv. vm_compute in Hv. discriminate. }
  split; [exact H|]. split; [apply valid_id_b_sound; vm_compute; reflexivity|]. intros [Hv _]. exact (H Hv).
Qed.

Print Assumptions valid_id_key_injective.
Print Assumptions protocol_id_valid.
