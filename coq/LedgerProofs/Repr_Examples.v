(* C13 — representation independence: non-vacuity.  Two DIFFERENT representations of the same shard content
   (a log with a shadowed entry and a deleted cell, accounts in another order), the concrete protobuf codec,
   with and without an injected fault: the theorem applies, and vm_compute shows the same results. *)
From Coq Require Import Permutation.
From Coq.Strings Require Import String.
From EV Require Import Base.Bytes Base.Store Base.Monad gen.Consts Codec.Types Codec.Proto
  Helpers.Helpers Ledger.Types Ledger.Env Ledger.Funcs Ledger.Transfers Ledger.World Corr.Exec
  LedgerProofs.Defs LedgerProofs.WorldSpec
  LedgerProofs.Repr_Core LedgerProofs.Repr_Exec LedgerProofs.Repr_Canon LedgerProofs.Repr_World.

Definition r_alice : bytes := repeat x01 32.
Definition r_carol : bytes := repeat x03 32.
Definition r_tok : bytes := str "TOK-a1b2c3"%string.
Definition r_cfg : xcfg :=
  {| xc_shards := []; xc_shard_default := 0%N; xc_pay := []; xc_pay_default := 0%N;
     xc_dns := []; xc_enable := false; xc_gas := repeat 10%N 22 |}.
Definition r_E : env := env_of r_cfg 0%N None.              (* fault-free *)
Definition r_Ef : env := env_of r_cfg 0%N (Some 3%nat).     (* the 4th dependency call fails *)
Definition r_tk (v : Z) : token :=
  {| t_type := C.Fungible; t_value := Some v; t_props := []; t_meta := None; t_reserved := [] |}.
Definition r_acct (st : store) : account :=
  {| a_store := st; a_balance := 100; a_owner := r_carol; a_username := []; a_devreward := 7 |}.

(* alice holds 5 TOK.  In sA her log still carries the shadowed older value 99 and a deleted cell;
   in sB the log is compact and the two accounts are listed in the other order *)
Definition sA : mstate :=
  {| accts := [(r_alice, r_acct [(P ++ r_tok, enc_token (r_tk 5)); (P ++ r_tok, enc_token (r_tk 99)); ([x07], [])]);
               (r_carol, r_acct [])];
     calls := 0; allocs := 0 |}.
Definition sB : mstate :=
  {| accts := [(r_carol, r_acct []); (r_alice, r_acct [(P ++ r_tok, enc_token (r_tk 5))])];
     calls := 0; allocs := 0 |}.
Definition r_in : input :=
  {| i_caller := r_alice; i_rcpt := r_carol; i_args := [r_tok; [x03]]; i_value := 0; i_gas := 1000; i_gasLocked := 0;
     i_callType := C.DirectCall; i_rae := false; i_snd := true; i_dst := true |}.

Lemma sA_ne_sB : sA <> sB.
Proof.
  intros H. apply (f_equal (fun s => match accts s with (a, _) :: _ => beqb a r_alice | [] => false end)) in H.
  vm_compute in H. discriminate H.
Qed.
Lemma sA_equiv_sB : state_equiv sA sB.
Proof.
  eapply state_equiv_trans; [apply state_equiv_canon|].
  apply state_equiv_account_order; [apply canon_is_canonical|].
  assert (X : accts (canon sA) = [(r_alice, r_acct [(P ++ r_tok, enc_token (r_tk 5))]); (r_carol, r_acct [])])
    by (vm_compute; reflexivity).
  rewrite X. cbn [sB accts]. apply perm_swap.
Qed.

(* ESDTTransfer of 3 TOK from alice to carol: by the theorem the two runs agree ... *)
Example repr_example_by_theorem :
  sA <> sB /\ state_equiv sA sB
  /\ same_run r_E C.BuiltInFunctionESDTTransfer r_in sA sB
  /\ same_run r_Ef C.BuiltInFunctionESDTTransfer r_in sA sB.
Proof.
  split; [exact sA_ne_sB|]. split; [exact sA_equiv_sB|].
  split; apply same_run_of_equiv; first [exact sA_equiv_sB|reflexivity].
Qed.
(* ... and by evaluation: the call succeeds with the same output, alice keeps 2 and carol gets 3 in both runs,
   the post-states are different terms; with the injected fault both runs return the injected error *)
Definition r_bal (s : mstate) (a : bytes) : Z := balance r_E s a (P ++ r_tok).
Example repr_example_by_evaluation :
  (exists o s' u', exec r_E C.BuiltInFunctionESDTTransfer r_in sA = (Ok o, s')
                   /\ exec r_E C.BuiltInFunctionESDTTransfer r_in sB = (Ok o, u')
                   /\ r_bal s' r_alice = 2%Z /\ r_bal u' r_alice = 2%Z /\ r_bal s' r_carol = 3%Z /\ r_bal u' r_carol = 3%Z
                   /\ List.length (o_logs o) = 1%nat /\ calls s' = 6%nat /\ calls u' = 6%nat /\ s' <> u')
  /\ fst (exec r_Ef C.BuiltInFunctionESDTTransfer r_in sA) = Err EFault
  /\ fst (exec r_Ef C.BuiltInFunctionESDTTransfer r_in sB) = Err EFault.
Proof.
  split; [|split; vm_compute; reflexivity].
  eexists. eexists. eexists. split; [vm_compute; reflexivity|]. split; [vm_compute; reflexivity|].
  repeat (split; [vm_compute; reflexivity|]).
  intros H. apply (f_equal (fun s => match accts s with (a, _) :: _ => beqb a r_alice | [] => false end)) in H.
  vm_compute in H. discriminate H.
Qed.
(* the smallest instance of the text: logs [(k,v2);(k,v1)] and [(k,v2)] are different lists with the same observations *)
Example repr_two_logs :
  let k := [x6b] in let v1 := [x01] in let v2 := [x02] in
  [(k, v2); (k, v1)] <> [(k, v2)] /\ (forall k', sget [(k, v2); (k, v1)] k' = sget [(k, v2)] k')
  /\ canon_store [(k, v2); (k, v1)] = [(k, v2)].
Proof.
  cbv zeta. split; [discriminate|]. split; [|vm_compute; reflexivity].
  intros k'. rewrite <- (sget_canon_store [([x6b], [x02]); ([x6b], [x01])] k'). reflexivity.
Qed.

(* ---------------- world level ---------------- *)
Definition r_wcfg : wcfg :=
  {| wc_cdc := the_codec; wc_shard_of := fun _ => 0%N; wc_payable := fun _ => PayYes; wc_dns := []; wc_enable := false;
     wc_gas := gas_of (repeat 10%N 22); wc_nshards := 1 |}.
Definition wA : world := {| shards := [accts sA]; inflight := []; failed := []; next_id := 0 |}.
Definition wB : world := {| shards := [accts sB]; inflight := []; failed := []; next_id := 0 |}.
Lemma wA_equiv_wB : world_equiv wA wB.
Proof.
  split; [reflexivity|]. split; [|auto]. intros [|[|n]]; cbn [wA wB shards nth]; try apply amap_equiv_refl.
  intros a. apply sA_equiv_sB.
Qed.
Definition r_ops : list wop :=
  [OCall 0 C.BuiltInFunctionESDTTransfer r_in; OCall 0 C.BuiltInFunctionESDTTransfer r_in;
   OCall 0 C.BuiltInFunctionESDTTransfer r_in].        (* the third transfer fails: 5 - 3 - 3 < 0, rolled back *)
Example repr_world_example :
  wA <> wB /\ world_equiv wA wB /\ world_equiv (wrun r_wcfg wA r_ops) (wrun r_wcfg wB r_ops)
  /\ balance r_E (mk_state (shard_accts (wrun r_wcfg wA r_ops) 0)) r_carol (P ++ r_tok) = 3%Z
  /\ balance r_E (mk_state (shard_accts (wrun r_wcfg wB r_ops) 0)) r_carol (P ++ r_tok) = 3%Z
  /\ wrun r_wcfg wA r_ops <> wrun r_wcfg wB r_ops.
Proof.
  split.
  { intros H. apply (f_equal (fun w => match shards w with ((a, _) :: _) :: _ => beqb a r_alice | _ => false end)) in H.
    vm_compute in H. discriminate H. }
  split; [exact wA_equiv_wB|]. split; [apply wrun_respects_equiv; exact wA_equiv_wB|].
  split; [vm_compute; reflexivity|]. split; [vm_compute; reflexivity|].
  intros H. apply (f_equal (fun w => match shards w with ((a, _) :: _) :: _ => beqb a r_alice | _ => false end)) in H.
  vm_compute in H. discriminate H.
Qed.

Print Assumptions repr_example_by_theorem.
Print Assumptions repr_example_by_evaluation.
Print Assumptions repr_two_logs.
Print Assumptions repr_world_example.
