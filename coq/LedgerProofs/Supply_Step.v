(* Supply accounting over mixed histories, part 5: the global ledger theorem.
   Histories of the node model (Ledger/World.v) containing ALL 23 built-in functions, origin-side executions, the system
   contract's calls, deliveries, refunds (and re-deliveries of non-transfer messages):

     supply_step                 total (P ++ x) (wstep w op) = total (P ++ x) w + supply_delta w op (P ++ x)
     supply_accounting_histories total (P ++ x) (wrun w0 ops) = total (P ++ x) w0 + supply_sum w0 ops (P ++ x)
     no_supply_ops_conserve      no successful mint / create / add-quantity / burn / wipe / issue in the history:
                                 every total is conserved (C01's conservation theorem for MIXED histories)
     supply_nonneg               totals never go negative

   total = WorldDefs.total: all accounts of all shards + what undelivered messages will credit.
   supply_delta w op k = the stated amount of the call the step executes ([step_call]) when that call succeeds:
     + amount   ESDTLocalMint (key P ++ tok), ESDTNFTCreate (the created key), ESDTNFTAddQuantity,
                and the ISSUING transfer: ESDTTransfer executed as a call on the destination side only
                (i_snd = false, i_dst = true) -- how the system contract hands out issued / minted tokens;
     - amount   ESDTLocalBurn, ESDTBurn, ESDTNFTBurn;   - holding   ESDTWipe;
     0          every other function, every transfer, delivery, refund, every failed or skipped step.
   WInv' = C01's world invariant with (a) non-negativity on protocol keys only and (b) in-flight messages of ANY
   function name: transfer messages must be msg_ok as in C01, the others (ChangeOwnerAddress, ClaimDeveloperRewards,
   SetUserName, ESDTBurn, the role hand-over ...) carry no credits and their delivery is an ordinary call.
   ok_op = the honest hypotheses, see below. *)
From Coq.Strings Require Import String.
From Coq Require Import Lia List.
From EV Require Import Base.Bytes Base.Store Base.Monad gen.Consts Codec.Types Helpers.Helpers
  Ledger.Types Ledger.Env Ledger.Funcs Ledger.Transfers Ledger.World
  LedgerProofs.Defs LedgerProofs.EnvSpec LedgerProofs.WorldDefs LedgerProofs.WorldSpec
  LedgerProofs.Spec_Transfers_Base LedgerProofs.Spec_Transfers_Esdt LedgerProofs.Spec_Transfers_Nft
  LedgerProofs.Spec_Transfers_Multi LedgerProofs.Spec_Transfers LedgerProofs.Spec_Supply LedgerProofs.Spec_System
  LedgerProofs.C01_World LedgerProofs.C01_Step LedgerProofs.C02_Effects LedgerProofs.C02_NonNeg
  LedgerProofs.Supply_Base LedgerProofs.Supply_Multi LedgerProofs.Supply_Transfer LedgerProofs.Supply_Calls.
Import ListNotations.

Section Step.
  Variable c : wcfg.
  Notation shof := (wc_shard_of c).

  (* ================================================================ *)
  (* definitions                                                        *)
  (* ================================================================ *)
  (* an in-flight message: a transfer message as in C01, or a message of any other function (no credits) *)
  Definition msg_ok' (m : msg) : Prop := is_transfer_fn (m_fn m) = true -> msg_ok c m.

  Record WInv' (w : world) : Prop := {
    wi'_shards : (wc_nshards c <= N.of_nat (nshards w))%N;                    (* every shard id below wc_nshards exists *)
    wi'_nodup : forall sh, NoDup (map fst (shard_accts w sh));                 (* one account object per address *)
    wi'_nonneg : forall sh, st_nonneg_P (env_at c sh) (mk_state (shard_accts w sh));  (* no negative balance under P ++ x *)
    wi'_msgs : Forall msg_ok' (inflight w) }.

  (* the call (shard, function, input) a step executes; None when the model skips the operation *)
  Definition step_call (w : world) (op : wop) : option (N * bytes * input) :=
    match op with
    | OCall sh fn i => if (sh <? wc_nshards c)%N then Some (sh, fn, i) else None
    | ODeliver id gas | ORedeliver id gas =>
      match find_msg (inflight w) id with
      | None => None
      | Some m => let sh := shof (m_dest m) in
                  if (sh <? wc_nshards c)%N then Some (sh, m_fn m, deliver_input c m sh gas) else None
      end
    | ORefund id gas =>
      match find_msg (inflight w) id with
      | None => None
      | Some m => let sh := shof (m_sender m) in
                  if (nat_in id (failed w) && (sh <? wc_nshards c)%N)%bool
                  then Some (sh, m_fn m, refund_input c m sh gas) else None
      end
    end.

  (* the issuing transfer: ESDTTransfer run as a CALL with only the destination side present *)
  Definition issue_shape (fn : bytes) (i : input) : bool :=
    (beqb fn C.BuiltInFunctionESDTTransfer && negb (i_snd i) && i_dst i)%bool.
  Definition issue_delta (op : wop) (k : bytes) : Z :=
    match op with
    | OCall _ fn i => if issue_shape fn i then (if beqb k (P ++ argn i 0) then bigZ (argn i 1) else 0%Z) else 0%Z
    | _ => 0%Z
    end.

  (* the stated change of total k by one world operation executed at world w *)
  Definition supply_delta (w : world) (op : wop) (k : bytes) : Z :=
    match step_call w op with
    | None => 0%Z
    | Some (sh, fn, i) =>
      match exec (env_at c sh) fn i (mk_state (shard_accts w sh)) with
      | (Ok _, _) => (fn_delta c sh (shard_accts w sh) fn i k + issue_delta op k)%Z
      | _ => 0%Z
      end
    end.

  (* the system contract's issuing transfer, executed on the recipient's shard *)
  Definition issue_call (sh : N) (fn : bytes) (i : input) : Prop :=
    fn = C.BuiltInFunctionESDTTransfer /\ i_caller i = SC /\ i_snd i = false /\ i_dst i = true /\ shof (i_rcpt i) = sh.

  (* the honest hypotheses on one operation at world w:
     - the call executes a TRANSFER function:
         as a call: an origin-side execution by an account of the executing shard (C01: origin_call), with F4b
           consistency of its sender-side NFT lookups (C01: call_consistent_at) -- or the issuing transfer of the system
           contract; any other hand-made destination-side call would credit out of nothing and is excluded;
         as a delivery or refund: nothing (the message is msg_ok by the invariant); re-delivery of a transfer message
           is excluded (it credits twice: C07);
     - it executes one of the other 20 functions (as a call by anybody, the system contract included, or as the delivery,
       re-delivery or refund of a message): call_ok -- F4b for the four entry-rewriting NFT functions, freshness of the
       nonce for ESDTNFTCreate, the F8 exclusion for ESDTPause / ESDTUnPause. No presence-flag hypothesis is needed. *)
  Definition ok_op (w : world) (op : wop) : Prop :=
    match step_call w op with
    | None => True
    | Some (sh, fn, i) =>
      if is_transfer_fn fn then
        match op with
        | OCall _ _ _ => (origin_call c sh i /\ call_consistent_at c (shard_accts w sh) sh fn i) \/ issue_call sh fn i
        | ODeliver _ _ | ORefund _ _ => True
        | ORedeliver _ _ => False
        end
      else call_ok c sh (shard_accts w sh) fn i
    end.
  Fixpoint ok_ops (w : world) (ops : list wop) : Prop :=
    match ops with
    | [] => True
    | op :: r => ok_op w op /\ ok_ops (wstep c w op) r
    end.
  (* the sum of the stated changes along the run *)
  Fixpoint supply_sum (w : world) (ops : list wop) (k : bytes) : Z :=
    match ops with
    | [] => 0%Z
    | op :: r => (supply_delta w op k + supply_sum (wstep c w op) r k)%Z
    end.

  (* a successful supply operation: one of the seven supply functions, or an issuing transfer *)
  Definition supply_op (w : world) (op : wop) : Prop :=
    exists sh fn i o s', step_call w op = Some (sh, fn, i)
      /\ exec (env_at c sh) fn i (mk_state (shard_accts w sh)) = (Ok o, s')
      /\ (In fn supply_changing_funs \/ exists sh0 i0, op = OCall sh0 fn i0 /\ issue_shape fn i0 = true).
  Fixpoint no_supply_ops (w : world) (ops : list wop) : Prop :=
    match ops with
    | [] => True
    | op :: r => ~ supply_op w op /\ no_supply_ops (wstep c w op) r
    end.

  (* ================================================================ *)
  (* the shape of a step                                                *)
  (* ================================================================ *)
  Definition kept (w : world) (op : wop) : list msg :=
    match op with
    | ODeliver id _ | ORefund id _ => drop_msg (inflight w) id
    | _ => inflight w
    end.
  Definition emitted (op : wop) (sh : N) (fn : bytes) (i : input) (id : nat) (o : output) : list msg :=
    match op with ORefund _ _ => [] | _ => collect c sh fn i id o end.

  Lemma wstep_shape w op :
    match step_call w op with
    | None => shards (wstep c w op) = shards w /\ inflight (wstep c w op) = inflight w
    | Some (sh, fn, i) =>
      (sh <? wc_nshards c)%N = true /\
      match exec (env_at c sh) fn i (mk_state (shard_accts w sh)) with
      | (Ok o, s') => shards (wstep c w op) = set_nth (N.to_nat sh) (accts s') (shards w)
                      /\ inflight (wstep c w op) = kept w op ++ emitted op sh fn i (next_id w) o
      | _ => shards (wstep c w op) = shards w /\ inflight (wstep c w op) = inflight w
      end
    end.
  Proof.
    destruct op as [sh fn i|id gas|id gas|id gas]; cbn [wstep step_call kept emitted].
    - destruct (sh <? wc_nshards c)%N eqn:Hsh; cbn [negb]; [|auto]. split; [exact Hsh|].
      unfold run_on, mk_state. destruct (exec _ fn i _) as [[o|e|] s']; auto.
    - destruct (find_msg (inflight w) id) as [m|]; [|auto]. cbv zeta.
      destruct (shof (m_dest m) <? wc_nshards c)%N eqn:Hsh; cbn [negb]; [|auto]. split; [exact Hsh|].
      unfold run_on, mk_state. destruct (exec _ (m_fn m) _ _) as [[o|e|] s']; auto.
    - destruct (find_msg (inflight w) id) as [m|]; [|auto]. cbv zeta.
      destruct (shof (m_dest m) <? wc_nshards c)%N eqn:Hsh; cbn [negb]; [|auto]. split; [exact Hsh|].
      unfold run_on, mk_state. destruct (exec _ (m_fn m) _ _) as [[o|e|] s']; auto.
    - destruct (find_msg (inflight w) id) as [m|]; [|auto]. cbv zeta.
      destruct (nat_in id (failed w)); cbn [negb andb]; [|auto].
      destruct (shof (m_sender m) <? wc_nshards c)%N eqn:Hsh; cbn [negb]; [|auto]. split; [exact Hsh|].
      unfold run_on, mk_state. destruct (exec _ (m_fn m) _ _) as [[o|e|] s']; auto.
      split; [reflexivity|]. cbn. rewrite app_nil_r. reflexivity.
  Qed.

  (* the message a delivery / refund consumes *)
  Definition consumed (w : world) (op : wop) : option msg :=
    match op with
    | ODeliver id _ | ORefund id _ => find_msg (inflight w) id
    | _ => None
    end.
  Lemma kept_total w op k :
    inflight_total c k (kept w op) =
    (inflight_total c k (inflight w) - match consumed w op with Some m => qty c k m | None => 0 end)%Z.
  Proof.
    destruct op as [sh fn i|id gas|id gas|id gas]; cbn [kept consumed]; try lia.
    - destruct (find_msg (inflight w) id) as [m|] eqn:Hf; [apply (inflight_total_drop c k _ _ _ Hf)|].
      assert (Hd : drop_msg (inflight w) id = inflight w).
      { clear - Hf. induction (inflight w) as [|x r IH]; [reflexivity|]. cbn [find_msg drop_msg] in *.
        destruct (Nat.eqb (m_id x) id); [discriminate|]. rewrite IH by exact Hf. reflexivity. }
      rewrite Hd. lia.
    - destruct (find_msg (inflight w) id) as [m|] eqn:Hf; [apply (inflight_total_drop c k _ _ _ Hf)|].
      assert (Hd : drop_msg (inflight w) id = inflight w).
      { clear - Hf. induction (inflight w) as [|x r IH]; [reflexivity|]. cbn [find_msg drop_msg] in *.
        destruct (Nat.eqb (m_id x) id); [discriminate|]. rewrite IH by exact Hf. reflexivity. }
      rewrite Hd. lia.
  Qed.
  Lemma kept_forall (Q : msg -> Prop) w op : Forall Q (inflight w) -> Forall Q (kept w op).
  Proof. destruct op; cbn [kept]; intros H; try exact H; apply forall_drop_msg; exact H. Qed.

  (* the message of a delivery / re-delivery / refund, and the input it is executed with *)
  Lemma step_call_msg w op sh fn i : step_call w op = Some (sh, fn, i) ->
    match op with
    | OCall sh0 fn0 i0 => sh0 = sh /\ fn0 = fn /\ i0 = i
    | ODeliver id gas | ORedeliver id gas =>
      exists m, find_msg (inflight w) id = Some m /\ sh = shof (m_dest m) /\ fn = m_fn m /\ i = deliver_input c m sh gas
    | ORefund id gas =>
      exists m, find_msg (inflight w) id = Some m /\ sh = shof (m_sender m) /\ fn = m_fn m /\ i = refund_input c m sh gas
    end.
  Proof.
    destruct op as [sh0 fn0 i0|id gas|id gas|id gas]; cbn [step_call].
    - destruct (sh0 <? wc_nshards c)%N; [|discriminate]. intros [= -> -> ->]. auto.
    - destruct (find_msg (inflight w) id) as [m|]; [|discriminate]. cbv zeta.
      destruct (shof (m_dest m) <? wc_nshards c)%N; [|discriminate]. intros [= <- <- <-]. exists m. auto.
    - destruct (find_msg (inflight w) id) as [m|]; [|discriminate]. cbv zeta.
      destruct (shof (m_dest m) <? wc_nshards c)%N; [|discriminate]. intros [= <- <- <-]. exists m. auto.
    - destruct (find_msg (inflight w) id) as [m|]; [|discriminate]. cbv zeta.
      destruct (nat_in id (failed w) && (shof (m_sender m) <? wc_nshards c)%N)%bool; [|discriminate].
      intros [= <- <- <-]. exists m. auto.
  Qed.

  (* ================================================================ *)
  (* totals and the invariant after a step                              *)
  (* ================================================================ *)
  Lemma shard_accts_of w w' sh m sh' : (N.to_nat sh < nshards w)%nat ->
    shards w' = set_nth (N.to_nat sh) m (shards w) ->
    shard_accts w' sh' = if (sh' =? sh)%N then m else shard_accts w sh'.
  Proof.
    intros Hlt Hs. unfold shard_accts. rewrite Hs. destruct (N.eqb_spec sh' sh) as [->|Hne].
    - apply nth_set_nth_eq. exact Hlt.
    - apply nth_set_nth_ne. intros Heq. apply Hne. apply N2Nat.inj. symmetry. exact Heq.
  Qed.
  Lemma total_after w w' sh m k : (N.to_nat sh < nshards w)%nat ->
    shards w' = set_nth (N.to_nat sh) m (shards w) ->
    total c k w' = (shards_total c k (shards w) - shard_total c k (shard_accts w sh) + shard_total c k m
                    + inflight_total c k (inflight w'))%Z.
  Proof. intros Hlt Hs. unfold total. rewrite Hs, (shards_total_set_nth c k m _ _ Hlt). reflexivity. Qed.
  Lemma total_same w w' k : shards w' = shards w -> inflight w' = inflight w -> total c k w' = total c k w.
  Proof. intros H1 H2. unfold total. rewrite H1, H2. reflexivity. Qed.

  Lemma WInv'_same w w' : shards w' = shards w -> inflight w' = inflight w -> WInv' w -> WInv' w'.
  Proof.
    intros H1 H2 [A B C D]. constructor.
    - unfold nshards. rewrite H1. exact A.
    - intros sh. unfold shard_accts. rewrite H1. apply B.
    - intros sh. unfold shard_accts. rewrite H1. apply C.
    - rewrite H2. exact D.
  Qed.
  Lemma st_nonneg_P_sh sh sh' s : st_nonneg_P (env_at c sh) s -> st_nonneg_P (env_at c sh') s.
  Proof. intros H a x. exact (H a x). Qed.
  Lemma WInv'_commit w w' sh m : WInv' w -> (sh <? wc_nshards c)%N = true ->
    shards w' = set_nth (N.to_nat sh) m (shards w) ->
    NoDup (map fst m) -> st_nonneg_P (env_at c sh) (mk_state m) -> Forall msg_ok' (inflight w') -> WInv' w'.
  Proof.
    intros [A B C D] Hsh Hs Hnd Hnn Hms.
    assert (Hlt : (N.to_nat sh < nshards w)%nat) by (apply N.ltb_lt in Hsh; lia).
    constructor.
    - unfold nshards. rewrite Hs, set_nth_length. exact A.
    - intros sh'. rewrite (shard_accts_of w w' sh m sh' Hlt Hs). destruct (sh' =? sh)%N; [exact Hnd|apply B].
    - intros sh'. rewrite (shard_accts_of w w' sh m sh' Hlt Hs). destruct (sh' =? sh)%N; [|apply C].
      apply (st_nonneg_P_sh sh). exact Hnn.
    - exact Hms.
  Qed.
  Lemma in_range' w sh : WInv' w -> (sh <? wc_nshards c)%N = true -> (N.to_nat sh < nshards w)%nat.
  Proof. intros [H _ _ _] Hsh. apply N.ltb_lt in Hsh. lia. Qed.

  (* C01's invariant implies this one *)
  Lemma WInv_WInv' w : WInv c w -> WInv' w.
  Proof.
    intros [A B C D]. constructor; [exact A|exact B| |].
    - intros sh a x. rewrite balance_acct_bal, <- (acct_balance_acct_bal (env_at c sh) c eq_refl). apply C.
    - eapply Forall_impl; [|exact D]. intros m Hm _. exact Hm.
  Qed.

  Hypothesis Hc : codec_ok (wc_cdc c).
  Hypothesis Hflag : flag_neutral (wc_cdc c).

  (* no stored balance under a protocol key is negative after ANY successful call (C02_NonNeg) *)
  Lemma nonneg_after sh m0 fn i o s' : st_nonneg_P (env_at c sh) (mk_state m0) ->
    exec (env_at c sh) fn i (mk_state m0) = (Ok o, s') -> st_nonneg_P (env_at c sh) (mk_state (accts s')).
  Proof.
    intros Hnn H a x.
    assert (Hn : NonNeg (env_at c sh) (mk_state m0)) by (apply balance_NonNeg; exact Hnn).
    pose proof (NonNeg_exec (env_at c sh) fn i _ _ _ Hc (flag_neutral_nonneg _ Hflag) Hn H) as Hn'.
    rewrite (balance_accts (env_at c sh) s' (mk_state (accts s')) a (P ++ x) eq_refl). apply NonNeg_balance. exact Hn'.
  Qed.

  (* ================================================================ *)
  (* one step                                                           *)
  (* ================================================================ *)
  Lemma issue_shape_nontransfer fn i : is_transfer_fn fn = false -> issue_shape fn i = false.
  Proof.
    unfold is_transfer_fn, issue_shape. intros H. apply Bool.orb_false_iff in H as [H _].
    apply Bool.orb_false_iff in H as [H _]. rewrite H. reflexivity.
  Qed.
  Lemma issue_delta_nontransfer w op sh fn i k : step_call w op = Some (sh, fn, i) -> is_transfer_fn fn = false ->
    issue_delta op k = 0%Z.
  Proof.
    intros Hcall Hnt. destruct op as [sh0 fn0 i0|? ?|? ?|? ?]; cbn [issue_delta]; try reflexivity.
    destruct (step_call_msg _ _ _ _ _ Hcall) as (_ & -> & ->). rewrite (issue_shape_nontransfer fn i Hnt). reflexivity.
  Qed.

  Theorem supply_step w op : WInv' w -> ok_op w op ->
    WInv' (wstep c w op)
    /\ forall k, pkey k -> total c k (wstep c w op) = (total c k w + supply_delta w op k)%Z.
  Proof.
    intros Hinv Hok. pose proof (wstep_shape w op) as Hshape. unfold supply_delta, ok_op in *.
    destruct (step_call w op) as [[[sh fn] i]|] eqn:Hcall.
    2: { destruct Hshape as [H1 H2]. split; [apply (WInv'_same w _ H1 H2 Hinv)|].
         intros k _. rewrite (total_same w _ k H1 H2). lia. }
    destruct Hshape as [Hsh Hshape].
    destruct (exec (env_at c sh) fn i (mk_state (shard_accts w sh))) as [[o|e|] s'] eqn:Hex.
    2, 3: (destruct Hshape as [H1 H2]; split; [apply (WInv'_same w _ H1 H2 Hinv)|];
           intros k _; rewrite (total_same w _ k H1 H2); lia).
    destruct Hshape as [Hs Hi].
    pose proof (in_range' w sh Hinv Hsh) as Hlt.
    pose proof (wi'_nodup w Hinv sh) as Hnd. pose proof (wi'_nonneg w Hinv sh) as Hnn.
    pose proof (nonneg_after sh _ fn i o s' Hnn Hex) as Hnn'.
    destruct (is_transfer_fn fn) eqn:Htf.
    - (* a transfer function *)
      pose proof (fun k => fn_delta_transfer c sh (shard_accts w sh) fn i k Htf) as Hfd.
      destruct op as [sh0 fn0 i0|id gas|id gas|id gas]; try contradiction.
      + (* executed as a call *)
        destruct (step_call_msg _ _ _ _ _ Hcall) as (-> & -> & ->). cbn [kept emitted] in Hi. cbn [issue_delta].
        destruct Hok as [[Hor Hcons]|(-> & Hcal & Hsnd & Hdst & Hloc)].
        * (* origin side *)
          destruct (origin_side_P c Hc sh (shard_accts w sh) fn i (next_id w) o s' Hnd Hnn Htf Hor Hcons Hex)
            as (Hnd' & Hms & Hsum).
          assert (Hish : issue_shape fn i = false).
          { destruct Hor as (Hcal & Hsnd & _). rewrite Hcal, N.eqb_refl in Hsnd. unfold issue_shape. rewrite Hsnd.
            cbn [negb]. rewrite Bool.andb_false_r. reflexivity. }
          rewrite Hish. split.
          -- apply (WInv'_commit w _ sh (accts s') Hinv Hsh Hs Hnd' Hnn'). rewrite Hi. apply Forall_app. split.
             ++ apply (wi'_msgs w Hinv).
             ++ eapply Forall_impl; [|exact Hms]. intros m Hm _. exact Hm.
          -- intros k _. rewrite Hfd, (total_after w _ sh (accts s') k Hlt Hs), Hi, inflight_total_app.
             specialize (Hsum k). unfold total. lia.
        * (* the issuing transfer *)
          rewrite exec_esdt_transfer in Hex.
          destruct (issue_side_esdt c Hc sh (shard_accts w sh) i (next_id w) o s' Hnd Hsnd Hdst Hloc Hex)
            as (Hnd' & Hcol & _ & Hsum).
          assert (Hish : issue_shape C.BuiltInFunctionESDTTransfer i = true).
          { unfold issue_shape. rewrite beqb_refl, Hsnd, Hdst. reflexivity. }
          rewrite Hish, Hcol, app_nil_r in *. split.
          -- apply (WInv'_commit w _ sh (accts s') Hinv Hsh Hs Hnd' Hnn'). rewrite Hi. apply (wi'_msgs w Hinv).
          -- intros k _. rewrite Hfd, (total_after w _ sh (accts s') k Hlt Hs), Hi, (Hsum k). unfold total. lia.
      + (* delivery of a transfer message *)
        destruct (step_call_msg _ _ _ _ _ Hcall) as (m & Hfind & Esh & -> & ->). cbn [issue_delta].
        destruct (find_msg_In _ _ _ Hfind) as [Hin _].
        pose proof (wi'_msgs w Hinv) as Hall. rewrite Forall_forall in Hall. pose proof (Hall m Hin Htf) as Hm.
        assert (Hsnd : i_snd (deliver_input c m sh gas) = false).
        { cbn [deliver_input i_snd]. apply N.eqb_neq. rewrite Esh. exact (mo_caller c m Hm). }
        assert (Hne : i_caller (deliver_input c m sh gas) <> i_rcpt (deliver_input c m sh gas)).
        { cbn [deliver_input i_caller i_rcpt]. intros He. apply (mo_caller c m Hm). rewrite He. reflexivity. }
        destruct (dest_side_P c Hc sh (shard_accts w sh) m (deliver_input c m sh gas) o s' Hnd Hnn Hm
                    eq_refl Hsnd eq_refl Hne Hex) as (Hnd' & Hsum & Hout).
        assert (Hcol : collect c sh (m_fn m) (deliver_input c m sh gas) (next_id w) o = []).
        { apply collect_all_local; [|left; cbn [deliver_input i_rcpt]; symmetry; exact Esh].
          intros oa Hoa. rewrite (Hout oa Hoa). cbn [deliver_input i_rcpt]. symmetry. exact Esh. }
        cbn [kept emitted] in Hi. rewrite Hcol, app_nil_r in Hi. split.
        * apply (WInv'_commit w _ sh (accts s') Hinv Hsh Hs Hnd' Hnn'). rewrite Hi. apply forall_drop_msg. apply (wi'_msgs w Hinv).
        * intros k _. rewrite Hfd, (total_after w _ sh (accts s') k Hlt Hs), Hi.
          rewrite (inflight_total_drop c k _ _ _ Hfind), (Hsum k). unfold total. lia.
      + (* refund of a transfer message *)
        destruct (step_call_msg _ _ _ _ _ Hcall) as (m & Hfind & Esh & -> & ->). cbn [issue_delta].
        destruct (find_msg_In _ _ _ Hfind) as [Hin _].
        pose proof (wi'_msgs w Hinv) as Hall. rewrite Forall_forall in Hall. pose proof (Hall m Hin Htf) as Hm.
        assert (Hsnd : i_snd (refund_input c m sh gas) = false).
        { cbn [refund_input i_snd]. apply N.eqb_neq. rewrite Esh. intros He. apply (mo_sender c m Hm). symmetry. exact He. }
        assert (Hne : i_caller (refund_input c m sh gas) <> i_rcpt (refund_input c m sh gas)).
        { cbn [refund_input i_caller i_rcpt]. intros He. apply (mo_sender c m Hm). rewrite He. reflexivity. }
        destruct (dest_side_P c Hc sh (shard_accts w sh) m (refund_input c m sh gas) o s' Hnd Hnn Hm
                    eq_refl Hsnd eq_refl Hne Hex) as (Hnd' & Hsum & _).
        cbn [kept emitted] in Hi. rewrite app_nil_r in Hi. split.
        * apply (WInv'_commit w _ sh (accts s') Hinv Hsh Hs Hnd' Hnn'). rewrite Hi. apply forall_drop_msg. apply (wi'_msgs w Hinv).
        * intros k _. rewrite Hfd, (total_after w _ sh (accts s') k Hlt Hs), Hi.
          rewrite (inflight_total_drop c k _ _ _ Hfind), (Hsum k). unfold total. lia.
    - (* one of the other 20 functions: as a call, a delivery, a re-delivery or a refund *)
      destruct (nontransfer_call_total c Hc Hflag sh (shard_accts w sh) fn i o s' Htf Hnd Hnn Hex Hok) as [Hnd' Hsum].
      pose proof (nontransfer_call_emits c sh fn i (next_id w) _ o s' Htf Hex) as Hem.
      assert (Hem' : Forall (fun m => is_transfer_fn (m_fn m) = false) (emitted op sh fn i (next_id w) o)).
      { destruct op; cbn [emitted]; try exact Hem. constructor. }
      assert (Hcons : match consumed w op with Some m => is_transfer_fn (m_fn m) = false | None => True end).
      { destruct op as [sh0 fn0 i0|id gas|id gas|id gas]; cbn [consumed]; try exact I.
        - destruct (step_call_msg _ _ _ _ _ Hcall) as (m & Hfind & _ & -> & _). rewrite Hfind. exact Htf.
        - destruct (step_call_msg _ _ _ _ _ Hcall) as (m & Hfind & _ & -> & _). rewrite Hfind. exact Htf. }
      split.
      + apply (WInv'_commit w _ sh (accts s') Hinv Hsh Hs Hnd' Hnn'). rewrite Hi. apply Forall_app. split.
        * apply kept_forall. apply (wi'_msgs w Hinv).
        * eapply Forall_impl; [|exact Hem']. intros m Hm Hx. rewrite Hm in Hx. discriminate.
      + intros k [x ->]. rewrite (total_after w _ sh (accts s') (P ++ x) Hlt Hs), Hi, inflight_total_app.
        rewrite (inflight_total_nontransfer c (P ++ x) _ Hem'), kept_total, (Hsum x).
        rewrite (issue_delta_nontransfer w op sh fn i (P ++ x) Hcall Htf).
        assert (Hq : match consumed w op with Some m => qty c (P ++ x) m | None => 0%Z end = 0%Z).
        { destruct (consumed w op) as [m|]; [apply qty_nontransfer; exact Hcons|reflexivity]. }
        rewrite Hq. unfold total. lia.
  Qed.

  (* ================================================================ *)
  (* histories                                                          *)
  (* ================================================================ *)
  Theorem supply_accounting_histories_inv ops : forall w0, WInv' w0 -> ok_ops w0 ops ->
    WInv' (wrun c w0 ops)
    /\ forall k, pkey k -> total c k (wrun c w0 ops) = (total c k w0 + supply_sum w0 ops k)%Z.
  Proof.
    induction ops as [|op r IH]; intros w0 Hinv Hok.
    - split; [exact Hinv|]. intros k _. cbn [wrun fold_left supply_sum]. lia.
    - destruct Hok as [Ho Hr]. destruct (supply_step w0 op Hinv Ho) as [Hinv' Hk].
      rewrite wrun_cons. destruct (IH _ Hinv' Hr) as [Hinv'' Hk'].
      split; [exact Hinv''|]. intros k Hp. rewrite (Hk' k Hp), (Hk k Hp). cbn [supply_sum]. lia.
  Qed.

  (* a step that is no successful supply operation has delta 0 *)
  Lemma fn_delta_not_supply sh m0 fn i k : ~ In fn supply_changing_funs -> fn_delta c sh m0 fn i k = 0%Z.
  Proof.
    intros Hn. unfold fn_delta. cbv zeta.
    repeat match goal with
           | |- (if beqb fn ?x then _ else _) = _ =>
             destruct (beqb_spec fn x) as [->|?];
             [exfalso; apply Hn; unfold supply_changing_funs; cbn [In]; tauto|]
           end.
    reflexivity.
  Qed.
  Lemma supply_delta_no_supply_op w op k : ~ supply_op w op -> supply_delta w op k = 0%Z.
  Proof.
    intros Hn. unfold supply_delta. destruct (step_call w op) as [[[sh fn] i]|] eqn:Hcall; [|reflexivity].
    destruct (exec (env_at c sh) fn i (mk_state (shard_accts w sh))) as [[o|e|] s'] eqn:Hex; try reflexivity.
    rewrite fn_delta_not_supply.
    - destruct op as [sh0 fn0 i0|? ?|? ?|? ?]; cbn [issue_delta]; try reflexivity.
      destruct (issue_shape fn0 i0) eqn:Eis; [|reflexivity].
      exfalso. apply Hn. destruct (step_call_msg _ _ _ _ _ Hcall) as (-> & -> & ->).
      exists sh, fn, i, o, s'. split; [exact Hcall|]. split; [exact Hex|]. right. exists sh, i. auto.
    - intros Hin. apply Hn. exists sh, fn, i, o, s'. auto.
  Qed.
  Lemma supply_sum_no_supply_ops ops : forall w k, no_supply_ops w ops -> supply_sum w ops k = 0%Z.
  Proof.
    induction ops as [|op r IH]; intros w k H; [reflexivity|]. destruct H as [H1 H2].
    cbn [supply_sum]. rewrite (supply_delta_no_supply_op w op k H1), (IH _ k H2). reflexivity.
  Qed.

  (* ================================================================ *)
  (* totals are never negative                                          *)
  (* ================================================================ *)
  Lemma asum_nonneg (f : account -> Z) (m : amap account) : f empty_account = 0%Z ->
    NoDup (map fst m) -> (forall a, (0 <= f (aget empty_account m a))%Z) -> (0 <= asum f m)%Z.
  Proof.
    intros Hf. induction m as [|[a x] r IH]; intros Hnd H; [cbn; lia|].
    cbn [map fst] in Hnd. inversion Hnd as [|? ? Hnotin Hnd']; subst. cbn [asum].
    assert (Hx : (0 <= f x)%Z) by (specialize (H a); cbn [aget] in H; rewrite beqb_refl in H; exact H).
    assert (Hr : (0 <= asum f r)%Z).
    { apply IH; [exact Hnd'|]. intros b. destruct (beqb_spec b a) as [->|Hne].
      - rewrite (aget_notin account empty_account r a Hnotin), Hf. lia.
      - specialize (H b). cbn [aget] in H. rewrite (beqb_false b a Hne) in H. exact H. }
    lia.
  Qed.
  Lemma shards_total_nonneg k (l : list (amap account)) :
    (forall n, (0 <= shard_total c k (nth n l []))%Z) -> (0 <= shards_total c k l)%Z.
  Proof.
    induction l as [|m r IH]; intros H; [cbn; lia|]. cbn [shards_total fold_right]. fold (shards_total c k r).
    pose proof (H 0%nat) as H0. cbn [nth] in H0.
    assert (0 <= shards_total c k r)%Z by (apply IH; intros n; exact (H (S n))). lia.
  Qed.
  Lemma msg_qty_nonneg k m : msg_ok' m -> (0 <= qty c k m)%Z.
  Proof.
    intros Hm. destruct (is_transfer_fn (m_fn m)) eqn:Ht.
    - unfold qty. apply qty_list_nonneg. apply (mo_nonneg c m (Hm Ht)).
    - rewrite (qty_nontransfer c k m Ht). lia.
  Qed.
  Theorem total_nonneg w k : WInv' w -> pkey k -> (0 <= total c k w)%Z.
  Proof.
    intros [A B C D] [x ->]. unfold total.
    assert (H1 : (0 <= shards_total c (P ++ x) (shards w))%Z).
    { apply shards_total_nonneg. intros n.
      pose proof (B (N.of_nat n)) as Hnd. pose proof (C (N.of_nat n)) as Hnn.
      unfold shard_accts in Hnd, Hnn. rewrite Nat2N.id in Hnd, Hnn.
      apply asum_nonneg; [apply acct_balance_empty|exact Hnd|].
      intros a. rewrite (acct_balance_acct_bal (env_at c (N.of_nat n)) c eq_refl). exact (Hnn a x). }
    assert (H2 : (0 <= inflight_total c (P ++ x) (inflight w))%Z).
    { induction D as [|m r Hm Hr IH]; [cbn; lia|].
      change (inflight_total c (P ++ x) (m :: r)) with (qty c (P ++ x) m + inflight_total c (P ++ x) r)%Z.
      pose proof (msg_qty_nonneg (P ++ x) m Hm). lia. }
    lia.
  Qed.
End Step.

(* ================================================================ *)
(* the theorems, closed                                               *)
(* ================================================================ *)
(* the total supply of every storage-level token key changes only by the stated amounts of the supply operations *)
Theorem supply_accounting_histories : forall c, codec_ok (wc_cdc c) -> flag_neutral (wc_cdc c) ->
  forall w0 ops k, WInv' c w0 -> ok_ops c w0 ops -> pkey k ->
  total c k (wrun c w0 ops) = (total c k w0 + supply_sum c w0 ops k)%Z.
Proof. intros c Hc Hf w0 ops k Hinv Hok Hk. apply (proj2 (supply_accounting_histories_inv c Hc Hf ops w0 Hinv Hok) k Hk). Qed.
Theorem WInv'_histories : forall c, codec_ok (wc_cdc c) -> flag_neutral (wc_cdc c) ->
  forall w0 ops, WInv' c w0 -> ok_ops c w0 ops -> WInv' c (wrun c w0 ops).
Proof. intros c Hc Hf w0 ops Hinv Hok. apply (proj1 (supply_accounting_histories_inv c Hc Hf ops w0 Hinv Hok)). Qed.
(* a history without successful supply operations conserves every total *)
Theorem no_supply_ops_conserve : forall c, codec_ok (wc_cdc c) -> flag_neutral (wc_cdc c) ->
  forall w0 ops k, WInv' c w0 -> ok_ops c w0 ops -> no_supply_ops c w0 ops -> pkey k ->
  total c k (wrun c w0 ops) = total c k w0.
Proof.
  intros c Hc Hf w0 ops k Hinv Hok Hno Hk.
  rewrite (supply_accounting_histories c Hc Hf w0 ops k Hinv Hok Hk), (supply_sum_no_supply_ops c ops w0 k Hno). lia.
Qed.
(* totals never go negative *)
Theorem supply_nonneg : forall c, codec_ok (wc_cdc c) -> flag_neutral (wc_cdc c) ->
  forall w0 ops k, WInv' c w0 -> ok_ops c w0 ops -> pkey k -> (0 <= total c k (wrun c w0 ops))%Z.
Proof. intros c Hc Hf w0 ops k Hinv Hok Hk. apply total_nonneg; [|exact Hk]. apply WInv'_histories; assumption. Qed.

Print Assumptions supply_step.
Print Assumptions supply_accounting_histories.
Print Assumptions no_supply_ops_conserve.
Print Assumptions supply_nonneg.
