(* C01, part 4: boolean deciders of the hypotheses of conservation_histories (world invariant, class of
   operations, F4b consistency along the run) with their soundness lemmas, so that the theorem can be
   instantiated on concrete worlds by vm_compute (non-vacuity examples; also what a replay could check). *)
From Coq.Strings Require Import String.
From EV Require Import Base.Bytes Base.Store Base.Monad gen.Consts Codec.Types Helpers.Helpers
  Ledger.Types Ledger.Env Ledger.Funcs Ledger.Transfers Ledger.World
  LedgerProofs.Defs LedgerProofs.EnvSpec LedgerProofs.WorldDefs LedgerProofs.WorldSpec
  LedgerProofs.Spec_Transfers_Base LedgerProofs.Spec_Transfers_Esdt LedgerProofs.Spec_Transfers_Nft
  LedgerProofs.Spec_Transfers_Multi LedgerProofs.Spec_Transfers LedgerProofs.C01_World LedgerProofs.C01_Step.

Fixpoint nodupb (l : list bytes) : bool :=
  match l with [] => true | x :: r => negb (bytes_in x r) && nodupb r end.
Lemma nodupb_ok l : nodupb l = true -> NoDup l.
Proof.
  induction l as [|x r IH]; cbn [nodupb]; intros H; [constructor|]. apply andb_prop in H as [H1 H2].
  constructor; [|apply IH; exact H2]. intros Hin. apply bytes_in_true in Hin. rewrite Hin in H1. discriminate.
Qed.

Lemma sget_in (s : store) k : sget s k = [] \/ In (sget s k) (map snd s).
Proof.
  induction s as [|[k' v] r IH]; [left; apply sget_nil|].
  change ((k', v) :: r) with (sput r k' v). rewrite sget_put. destruct (beqb k k').
  - right. left. reflexivity.
  - destruct IH as [IH|IH]; [left; exact IH|right; right; exact IH].
Qed.
Lemma aget_in {A} (d : A) (m : amap A) a : aget d m a = d \/ In (aget d m a) (map snd m).
Proof.
  induction m as [|[a' x] r IH]; [left; reflexivity|]. cbn [aget map snd]. destruct (beqb a a').
  - right. left. reflexivity.
  - destruct IH as [IH|IH]; [left; exact IH|right; right; exact IH].
Qed.

Section Check.
  Variable c : wcfg.
  Notation shof := (wc_shard_of c).

  Definition bytes_bal (b : bytes) : Z :=
    match b with
    | [] => 0%Z
    | _ => match dec_tok (wc_cdc c) b with
           | Some t => match t_value t with Some v => v | None => 0%Z end
           | None => 0%Z
           end
    end.
  Definition store_nonneg_b (s : store) : bool := forallb (fun kv => (0 <=? bytes_bal (snd kv))%Z) s.
  Definition accts_nonneg_b (m : amap account) : bool := forallb (fun ax => store_nonneg_b (a_store (snd ax))) m.
  Lemma acct_balance_bytes_bal k x : acct_balance c k x = bytes_bal (sget (a_store x) k).
  Proof. unfold acct_balance, bytes_bal. destruct (sget (a_store x) k); reflexivity. Qed.
  Lemma accts_nonneg_b_ok m : accts_nonneg_b m = true -> accts_nonneg c m.
  Proof.
    intros H a k. rewrite acct_balance_bytes_bal.
    destruct (aget_in empty_account m a) as [He|Hin].
    - rewrite He. cbn [a_store empty_account]. rewrite sget_nil. cbn. lia.
    - apply in_map_iff in Hin as ([a' x] & Hx & Hin). cbn [snd] in Hx. rewrite <- Hx.
      unfold accts_nonneg_b in H. rewrite forallb_forall in H. specialize (H _ Hin). cbn [snd] in H.
      destruct (sget_in (a_store x) k) as [Hn|Hs]; [rewrite Hn; cbn; lia|].
      apply in_map_iff in Hs as ([k' v] & Hv & Hs). cbn [snd] in Hv. rewrite <- Hv.
      unfold store_nonneg_b in H. rewrite forallb_forall in H. specialize (H _ Hs). cbn [snd] in H. lia.
  Qed.

  Definition msg_ok_b (m : msg) : bool :=
    is_transfer_fn (m_fn m)
    && negb (shof (m_caller m) =? shof (m_dest m))%N
    && negb (shof (m_sender m) =? shof (m_dest m))%N
    && forallb (fun kv => (0 <=? snd kv)%Z) (credits c m)
    && (if beqb (m_fn m) C.BuiltInFunctionMultiESDTNFTTransfer then (be_to_N (nth 0 (m_args m) []) <? two64)%N else true).
  Lemma msg_ok_b_ok m : msg_ok_b m = true -> msg_ok c m.
  Proof.
    unfold msg_ok_b. intros H. apply andb_prop in H as [H H5]. apply andb_prop in H as [H H4].
    apply andb_prop in H as [H H3]. apply andb_prop in H as [H1 H2].
    constructor.
    - exact H1.
    - apply N.eqb_neq. destruct (shof (m_caller m) =? shof (m_dest m))%N; [discriminate|reflexivity].
    - apply N.eqb_neq. destruct (shof (m_sender m) =? shof (m_dest m))%N; [discriminate|reflexivity].
    - apply Forall_forall. intros kv Hin. rewrite forallb_forall in H4. specialize (H4 _ Hin). lia.
    - intros Hf. rewrite Hf, beqb_refl in H5. apply N.ltb_lt. exact H5.
  Qed.

  Definition winv_b (w : world) : bool :=
    (wc_nshards c <=? N.of_nat (nshards w))%N
    && forallb (fun m => nodupb (map fst m) && accts_nonneg_b m) (shards w)
    && forallb msg_ok_b (inflight w).
  Lemma winv_b_ok w : winv_b w = true -> WInv c w.
  Proof.
    unfold winv_b. intros H. apply andb_prop in H as [H H3]. apply andb_prop in H as [H1 H2].
    rewrite forallb_forall in H2.
    assert (Hsh : forall sh, NoDup (map fst (shard_accts w sh)) /\ accts_nonneg c (shard_accts w sh)).
    { intros sh. unfold shard_accts. destruct (Nat.lt_ge_cases (N.to_nat sh) (length (shards w))) as [Hlt|Hge].
      - specialize (H2 _ (nth_In _ [] Hlt)). apply andb_prop in H2 as [Ha Hb].
        split; [apply nodupb_ok; exact Ha|apply accts_nonneg_b_ok; exact Hb].
      - rewrite nth_overflow by exact Hge. split; [constructor|apply accts_nonneg_nil]. }
    constructor.
    - apply N.leb_le. exact H1.
    - intros sh. apply Hsh.
    - intros sh. apply Hsh.
    - apply Forall_forall. intros m Hin. rewrite forallb_forall in H3. apply msg_ok_b_ok. apply H3. exact Hin.
  Qed.

  (* the class of operations *)
  Definition transfer_op_b (op : wop) : bool :=
    match op with
    | OCall sh fn i => is_transfer_fn fn && (shof (i_caller i) =? sh)%N
                       && Bool.eqb (i_snd i) (shof (i_caller i) =? sh)%N && Bool.eqb (i_dst i) (shof (i_rcpt i) =? sh)%N
    | ODeliver _ _ | ORefund _ _ => true
    | ORedeliver _ _ => false
    end.
  Lemma transfer_op_b_ok op : transfer_op_b op = true -> transfer_op c op.
  Proof.
    destruct op as [sh fn i|id g|id g|id g]; cbn [transfer_op_b transfer_op]; intros H; try exact I; try discriminate.
    apply andb_prop in H as [H H4]. apply andb_prop in H as [H H3]. apply andb_prop in H as [H1 H2].
    split; [exact H1|]. split; [apply N.eqb_eq; exact H2|]. split; apply Bool.eqb_prop; assumption.
  Qed.

  (* F4b consistency of the sender-side lookups *)
  Definition lookup_consistent_b (E : env) (s : mstate) (a key : bytes) (nonce : N) : bool :=
    match tok_at E s a (nft_key key nonce) with Some t => (tok_nonce t =? nonce)%N | None => true end.
  Lemma lookup_consistent_b_ok E s a key nonce : lookup_consistent_b E s a key nonce = true -> lookup_consistent E s a key nonce.
  Proof. unfold lookup_consistent_b. intros H t Ht. rewrite Ht in H. apply N.eqb_eq. exact H. Qed.
  Definition call_consistent_b (m0 : amap account) (sh : N) (fn : bytes) (i : input) : bool :=
    let E := env_at c sh in
    let s := mk_state m0 in
    (if beqb fn C.BuiltInFunctionESDTNFTTransfer then lookup_consistent_b E s (i_caller i) (nft_tkey i) (nft_nonce i) else true)
    && (if beqb fn C.BuiltInFunctionMultiESDTNFTTransfer
        then forallb (fun x => lookup_consistent_b E s (i_caller i) (P ++ rt_tok x) (rt_nonce x)) (multi_snd_triples i) else true).
  Lemma call_consistent_b_ok m0 sh fn i : call_consistent_b m0 sh fn i = true -> call_consistent_at c m0 sh fn i.
  Proof.
    unfold call_consistent_b, call_consistent_at. cbv zeta. intros H. apply andb_prop in H as [H1 H2]. split.
    - intros ->. rewrite beqb_refl in H1. apply lookup_consistent_b_ok. exact H1.
    - intros ->. rewrite beqb_refl in H2. unfold triples_consistent. apply Forall_forall. intros x Hx.
      rewrite forallb_forall in H2. apply lookup_consistent_b_ok. apply H2. exact Hx.
  Qed.
  Fixpoint consistent_along_b (w : world) (ops : list wop) : bool :=
    match ops with
    | [] => true
    | op :: r =>
      (match op with OCall sh fn i => call_consistent_b (shard_accts w sh) sh fn i | _ => true end)
      && consistent_along_b (wstep c w op) r
    end.
  Lemma consistent_along_b_ok ops : forall w, consistent_along_b w ops = true -> consistent_along c w ops.
  Proof.
    induction ops as [|op r IH]; intros w H; [exact I|]. cbn [consistent_along_b] in H. apply andb_prop in H as [H1 H2].
    cbn [consistent_along]. split; [|apply IH; exact H2].
    destruct op; cbn [op_consistent]; try exact I. apply call_consistent_b_ok. exact H1.
  Qed.

  (* conservation for a history whose hypotheses are decided by computation *)
  Theorem conservation_checked (Hc : codec_ok (wc_cdc c)) w ops k :
    winv_b w = true -> forallb transfer_op_b ops = true -> consistent_along_b w ops = true ->
    total c k (wrun c w ops) = total c k w.
  Proof.
    intros H1 H2 H3. apply (conservation_histories c Hc).
    - apply winv_b_ok. exact H1.
    - apply Forall_forall. intros op Hin. rewrite forallb_forall in H2. apply transfer_op_b_ok. apply H2. exact Hin.
    - apply consistent_along_b_ok. exact H3.
  Qed.
End Check.
Print Assumptions conservation_checked.
