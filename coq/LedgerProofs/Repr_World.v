(* C13 — representation independence, part 4: the world level (Ledger/World.v).

   [world_equiv w w']    the same number of shards, shard-wise equivalent account maps (extensionally equal
                         storage, equal fields), the same in-flight messages, failed ids and next id.
   wstep_respects_equiv  one world operation (call / delivery / re-delivery / refund, with rollback) maps
                         equivalent worlds to equivalent worlds, and emits the same messages;
   wrun_respects_equiv   hence every history does: two histories that reach extensionally equal worlds behave
                         identically afterwards - the precise sense of "independent of earlier unrelated calls
                         except through the state they left". *)
From EV Require Import Base.Bytes Base.Store Base.Monad gen.Consts Codec.Types Helpers.Helpers
  Ledger.Types Ledger.Env Ledger.Funcs Ledger.Transfers Ledger.World LedgerProofs.Defs LedgerProofs.WorldSpec
  LedgerProofs.Repr_Core LedgerProofs.Repr_Exec.

Definition amap_equiv (m m' : amap account) : Prop :=
  forall a, acct_eq (aget empty_account m a) (aget empty_account m' a).
Definition world_equiv (w w' : world) : Prop :=
  length (shards w) = length (shards w')
  /\ (forall n, amap_equiv (nth n (shards w) []) (nth n (shards w') []))
  /\ inflight w = inflight w' /\ failed w = failed w' /\ next_id w = next_id w'.

Lemma world_equiv_unfold w w' :
  world_equiv w w' <->
  length (shards w) = length (shards w')
  /\ (forall n a, acct_eq (aget empty_account (nth n (shards w) []) a) (aget empty_account (nth n (shards w') []) a))
  /\ inflight w = inflight w' /\ failed w = failed w' /\ next_id w = next_id w'.
Proof. reflexivity. Qed.
Lemma amap_equiv_refl m : amap_equiv m m.
Proof. intros a. apply acct_eq_refl. Qed.
Lemma world_equiv_refl w : world_equiv w w.
Proof. split; [reflexivity|]. split; [intros; apply amap_equiv_refl|]. auto. Qed.
Lemma world_equiv_sym w w' : world_equiv w w' -> world_equiv w' w.
Proof.
  intros (L & S & I & F & N). split; [auto|]. split; [intros n a; apply acct_eq_sym, S|]. auto.
Qed.
Lemma world_equiv_trans w1 w2 w3 : world_equiv w1 w2 -> world_equiv w2 w3 -> world_equiv w1 w3.
Proof.
  intros (L & S & I & F & N) (L' & S' & I' & F' & N'). split; [congruence|].
  split; [intros n a; eapply acct_eq_trans; [apply S|apply S']|]. repeat split; congruence.
Qed.
Lemma world_equiv_shard w w' sh : world_equiv w w' ->
  state_equiv (mk_state (shard_accts w sh)) (mk_state (shard_accts w' sh)).
Proof. intros (_ & S & _) a. apply S. Qed.
(* equivalent worlds agree on every observable of every shard *)
Lemma world_equiv_cell w w' sh a k : world_equiv w w' ->
  cell (mk_state (shard_accts w sh)) a k = cell (mk_state (shard_accts w' sh)) a k.
Proof. intros H. apply state_equiv_cell. apply world_equiv_shard. exact H. Qed.

Lemma world_equiv_set_shard w w' sh m m' :
  world_equiv w w' -> amap_equiv m m' -> world_equiv (set_shard w sh m) (set_shard w' sh m').
Proof.
  intros (L & S & I & F & N) Hm. split; [rewrite !shards_set_shard, !set_nth_length; exact L|].
  split; [|auto]. intros n. rewrite !shards_set_shard.
  destruct (Nat.eq_dec (N.to_nat sh) n) as [<-|Hne].
  - destruct (Nat.lt_ge_cases (N.to_nat sh) (length (shards w))) as [Hlt|Hge].
    + rewrite !nth_set_nth_eq by lia. exact Hm.
    + rewrite !set_nth_out by lia. apply S.
  - rewrite !nth_set_nth_ne by exact Hne. apply S.
Qed.
Lemma world_equiv_with_msgs w w' ms fl nid :
  world_equiv w w' -> world_equiv (with_msgs w ms fl nid) (with_msgs w' ms fl nid).
Proof. intros (L & S & _). split; [exact L|]. split; [exact S|]. auto. Qed.

Section Step.
  Variable c : wcfg.

  (* one execution with rollback *)
  Lemma run_on_respects_equiv w w' sh fn i : world_equiv w w' ->
    fst (run_on c w sh fn i) = fst (run_on c w' sh fn i)
    /\ amap_equiv (snd (run_on c w sh fn i)) (snd (run_on c w' sh fn i)).
  Proof.
    intros Hw. pose proof (world_equiv_shard w w' sh Hw) as Hs. unfold run_on.
    pose proof (exec_respects_equiv (env_at c sh) fn i _ _ Hs eq_refl) as H. unfold mk_state in H.
    destruct (exec (env_at c sh) fn i {| accts := shard_accts w sh; calls := 0; allocs := 0 |}) as [r1 s1].
    destruct (exec (env_at c sh) fn i {| accts := shard_accts w' sh; calls := 0; allocs := 0 |}) as [r2 s2].
    destruct H as (<- & H2 & _). destruct r1; cbn [fst snd]; (split; [reflexivity|]).
    - intros x. apply H2.
    - intros x. apply Hs.
    - intros x. apply Hs.
  Qed.
  Lemma run_on_cases w w' sh fn i : world_equiv w w' ->
    match run_on c w sh fn i, run_on c w' sh fn i with
    | (Ok o, m), (Ok o', m') => o = o' /\ amap_equiv m m'
    | (Err e, _), (Err e', _) => e = e'
    | (Panic, _), (Panic, _) => True
    | _, _ => False
    end.
  Proof.
    intros Hw. destruct (run_on_respects_equiv w w' sh fn i Hw) as [H1 H2].
    destruct (run_on c w sh fn i) as [r m]. destruct (run_on c w' sh fn i) as [r' m']. cbn [fst snd] in *. subst r'.
    destruct r; auto.
  Qed.

  Theorem wstep_respects_equiv w w' op : world_equiv w w' -> world_equiv (wstep c w op) (wstep c w' op).
  Proof.
    intros Hw. pose proof Hw as (L & S & I & F & N). destruct op as [sh fn i|id g|id g|id g]; cbn [wstep].
    - destruct (negb (sh <? wc_nshards c)%N); [exact Hw|].
      pose proof (run_on_cases w w' sh fn i Hw) as H.
      destruct (run_on c w sh fn i) as [[o|e|] m]; destruct (run_on c w' sh fn i) as [[o'|e'|] m']; try contradiction; try exact Hw.
      destruct H as [<- Hm]. cbv zeta. rewrite <- I, <- F, <- N.
      apply world_equiv_with_msgs, world_equiv_set_shard; assumption.
    - rewrite <- I. destruct (find_msg (inflight w) id) as [m|]; [|exact Hw]. cbv zeta.
      destruct (negb (wc_shard_of c (m_dest m) <? wc_nshards c)%N); [exact Hw|].
      pose proof (run_on_cases w w' (wc_shard_of c (m_dest m)) (m_fn m) (deliver_input c m (wc_shard_of c (m_dest m)) g) Hw) as H.
      destruct (run_on c w _ (m_fn m) _) as [[o|e|] am]; destruct (run_on c w' _ (m_fn m) _) as [[o'|e'|] am']; try contradiction;
        rewrite <- ?F, <- ?N; try (apply world_equiv_with_msgs; exact Hw).
      destruct H as [<- Hm]. apply world_equiv_with_msgs, world_equiv_set_shard; assumption.
    - rewrite <- I. destruct (find_msg (inflight w) id) as [m|]; [|exact Hw]. cbv zeta.
      destruct (negb (wc_shard_of c (m_dest m) <? wc_nshards c)%N); [exact Hw|].
      pose proof (run_on_cases w w' (wc_shard_of c (m_dest m)) (m_fn m) (deliver_input c m (wc_shard_of c (m_dest m)) g) Hw) as H.
      destruct (run_on c w _ (m_fn m) _) as [[o|e|] am]; destruct (run_on c w' _ (m_fn m) _) as [[o'|e'|] am']; try contradiction;
        rewrite <- ?F, <- ?N; try (apply world_equiv_with_msgs; exact Hw).
      destruct H as [<- Hm]. apply world_equiv_with_msgs, world_equiv_set_shard; assumption.
    - rewrite <- I. destruct (find_msg (inflight w) id) as [m|]; [|exact Hw]. cbv zeta. rewrite <- F.
      destruct (negb (nat_in id (failed w))); [exact Hw|].
      destruct (negb (wc_shard_of c (m_sender m) <? wc_nshards c)%N); [exact Hw|].
      pose proof (run_on_cases w w' (wc_shard_of c (m_sender m)) (m_fn m) (refund_input c m (wc_shard_of c (m_sender m)) g) Hw) as H.
      destruct (run_on c w _ (m_fn m) _) as [[o|e|] am]; destruct (run_on c w' _ (m_fn m) _) as [[o'|e'|] am']; try contradiction;
        try exact Hw.
      destruct H as [<- Hm]. rewrite <- N. apply world_equiv_with_msgs, world_equiv_set_shard; assumption.
  Qed.

  Theorem wrun_respects_equiv ops : forall w w', world_equiv w w' -> world_equiv (wrun c w ops) (wrun c w' ops).
  Proof.
    induction ops as [|op r IH]; intros w w' Hw; [exact Hw|]. cbn [wrun fold_left]. apply IH.
    apply wstep_respects_equiv. exact Hw.
  Qed.

  (* two histories that reach extensionally equal worlds are indistinguishable afterwards *)
  Corollary histories_equiv_then_same_future ops1 ops2 w1 w2 ops :
    world_equiv (wrun c w1 ops1) (wrun c w2 ops2) ->
    world_equiv (wrun c w1 (ops1 ++ ops)) (wrun c w2 (ops2 ++ ops)).
  Proof. intros H. unfold wrun in *. rewrite !fold_left_app. apply wrun_respects_equiv. exact H. Qed.
  (* and the messages a later history emits, the failed ids and the id counter are literally the same *)
  Corollary histories_equiv_same_messages ops1 ops2 w1 w2 ops :
    world_equiv (wrun c w1 ops1) (wrun c w2 ops2) ->
    inflight (wrun c w1 (ops1 ++ ops)) = inflight (wrun c w2 (ops2 ++ ops))
    /\ failed (wrun c w1 (ops1 ++ ops)) = failed (wrun c w2 (ops2 ++ ops))
    /\ next_id (wrun c w1 (ops1 ++ ops)) = next_id (wrun c w2 (ops2 ++ ops)).
  Proof. intros H. destruct (histories_equiv_then_same_future ops1 ops2 w1 w2 ops H) as (_ & _ & X). exact X. Qed.
End Step.

Print Assumptions wstep_respects_equiv.
Print Assumptions wrun_respects_equiv.
Print Assumptions histories_equiv_then_same_future.
Print Assumptions histories_equiv_same_messages.
