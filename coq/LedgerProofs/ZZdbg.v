(* C06 / C16 — gas accounting of the 23 built-in functions (model: Ledger/Funcs.v, Ledger/Transfers.v).

   For an ARBITRARY environment E (any codec, any fault plan, any schedule) every successful
   execution satisfies  [gas_spec i o (charge E f i s)]:
       either  charge <= GasProvided  and  GasRemaining + sum GasLimit = GasProvided - charge   ("priced")
       or      GasRemaining = 0 and sum GasLimit = 0                                            ("all consumed")
   where [charge E f i s] is a function of the environment, the input WITHOUT its gas field, and
   the pre-state, written in Go's uint64 arithmetic (u64/mul64).  [exact_charge] is the same formula
   in exact arithmetic; [charge_exact] shows they coincide whenever the exact value is < 2^64
   (no wrap-around), in particular for 32-bit costs and < 2^31 argument/payload bytes.

   Self-contained: local helper lemmas carry the prefix c06_ (LedgerProofs/EnvSpec.v is not imported). *)
From EV Require Import Base.Bytes Base.Store Base.Monad gen.Consts Codec.Types Helpers.Helpers
  Ledger.Types Ledger.Env Ledger.Funcs Ledger.Transfers.

Arguments sub64 : simpl never.
Arguments add64 : simpl never.
Arguments mul64 : simpl never.
Arguments u64 : simpl never.

Local Open Scope N_scope.

(* ------------------------------------------------------------------ *)
(* machine arithmetic                                                  *)
(* ------------------------------------------------------------------ *)
Lemma c06_two64 : two64 = 18446744073709551616. Proof. reflexivity. Qed.
Lemma c06_u64_small n : n < two64 -> u64 n = n.
Proof. unfold u64. rewrite c06_two64. intros H. apply N.mod_small. exact H. Qed.
Lemma c06_u64_lt n : u64 n < two64.
Proof. unfold u64. rewrite c06_two64. apply N.mod_lt. discriminate. Qed.
Lemma c06_u64_le n : u64 n <= n.
Proof. unfold u64. apply N.mod_le. discriminate. Qed.
Lemma c06_sub64_exact a b : b <= a -> a < two64 -> sub64 a b = a - b.
Proof.
  unfold sub64. rewrite c06_two64. intros H1 H2.
  replace (a + 18446744073709551616 - b) with ((a - b) + 1 * 18446744073709551616) by lia.
  rewrite N.mod_add by discriminate. apply N.mod_small. lia.
Qed.
Lemma c06_mul64_small a b : a * b < two64 -> mul64 a b = a * b.
Proof. unfold mul64. apply c06_u64_small. Qed.
Lemma c06_mul64_lt a b : mul64 a b < two64.
Proof. unfold mul64. apply c06_u64_lt. Qed.

(* ------------------------------------------------------------------ *)
(* the two outcomes                                                    *)
(* ------------------------------------------------------------------ *)
Definition priced (i : input) (o : output) (c : N) : Prop :=
  c <= i_gas i /\ o_gasRemaining o + sum_gasLimit o = i_gas i - c.
Definition all_consumed (o : output) : Prop := o_gasRemaining o = 0 /\ sum_gasLimit o = 0.
Definition gas_spec (i : input) (o : output) (c : N) : Prop := priced i o c \/ all_consumed o.

Lemma priced_not_created i o c : priced i o c -> o_gasRemaining o + sum_gasLimit o <= i_gas i.
Proof. unfold priced. lia. Qed.
Lemma gas_spec_not_created i o c : gas_spec i o c -> o_gasRemaining o + sum_gasLimit o <= i_gas i.
Proof. unfold gas_spec, priced, all_consumed. lia. Qed.
Lemma gas_spec_underfunded i o c : gas_spec i o c -> i_gas i < c -> all_consumed o.
Proof. unfold gas_spec, priced. intros [[H _]|H] Hlt; [lia|exact H]. Qed.

(* gas projections of the output constructors *)
Ltac gsimpl :=
  unfold priced, all_consumed, gas_spec, sum_gasLimit, add_output_transfer, add_nft_transfer, add_log, set_logs,
    set_returnData, set_accounts, set_gasrem, mk_out in *;
  cbn [o_gasRemaining o_accounts oc_transfers tr_gasLimit fold_right o_rc o_logs o_returnData] in *.

(* inversion of a successful run: monad steps, conditionals, pattern-matching binds *)
Ltac ginv_step :=
  first
  [ minv_step
  | match goal with
    | H : (match ?x with _ => _ end) _ = (Ok _, _) |- _ => destruct x eqn:?
    end ].
Ltac ginv := repeat ginv_step.

Ltac gas_arith :=
  repeat match goal with
         | H : negb _ = true |- _ => apply Bool.negb_true_iff in H
         | H : negb _ = false |- _ => apply Bool.negb_false_iff in H
         | H : (_ <? _) = false |- _ => apply N.ltb_ge in H
         | H : (_ <? _) = true |- _ => apply N.ltb_lt in H
         end.

(* inversion of the argument accessors *)
Lemma c06_arg_ok args k s x s' : arg args k s = (Ok x, s') -> nth (N.to_nat k) args [] = x /\ s' = s.
Proof.
  unfold arg. destruct (k <? alen args); [|intros H; minv].
  intros H. minv. split; [|reflexivity]. apply nth_error_nth. assumption.
Qed.
Lemma c06_args_from_ok args k s l s' : args_from args k s = (Ok l, s') -> l = skipn (N.to_nat k) args /\ s' = s.
Proof. unfold args_from. destruct (k <=? alen args); intros H; minv. split; reflexivity. Qed.

Ltac ainv :=
  repeat match goal with
         | H : arg _ _ _ = (Ok _, _) |- _ => apply c06_arg_ok in H; destruct H as [? ?]; subst
         | H : args_from _ _ _ = (Ok _, _) |- _ => apply c06_args_from_ok in H; destruct H as [? ?]; subst
         end.

Lemma c06_sub64_twice g c st : c <= g -> g < two64 -> st < two64 -> u64 (c + st) <= g ->
  sub64 (sub64 g c) st = g - u64 (c + st).
Proof.
  intros H1 H2 H3 H4. rewrite (c06_sub64_exact g c) by assumption.
  unfold sub64, u64 in *. rewrite c06_two64 in *. lia.
Qed.

Section GasSpec.
  Variable E : env.
  Notation G := (gas E).

  Lemma c06_cgr_snd p c : c <= p -> p < two64 -> compute_gas_remaining true p c = p - c.
  Proof.
    unfold compute_gas_remaining. intros H1 H2. destruct (p <? c) eqn:Hc; [apply N.ltb_lt in Hc; lia|].
    apply c06_sub64_exact; assumption.
  Qed.
  Lemma c06_cgr_nosnd p c : compute_gas_remaining false p c = 0.
  Proof. unfold compute_gas_remaining. destruct (p <? c); reflexivity. Qed.
  Lemma c06_cgr_under snd p c : p < c -> compute_gas_remaining snd p c = 0.
  Proof. unfold compute_gas_remaining. intros H. apply N.ltb_lt in H. rewrite H. reflexivity. Qed.

  (* ================================================================ *)
  (* supply functions with a flat charge                               *)
  (* ================================================================ *)
  Lemma gas_local_mint i s o s' : f_local_mint E i s = (Ok o, s') -> i_gas i < two64 ->
    priced i o (g_ESDTLocalMint G) /\ sum_gasLimit o = 0.
  Proof.
    unfold f_local_mint, check_local_action. cbv zeta. intros H Hg. ginv. gas_arith. gsimpl.
    rewrite c06_sub64_exact by assumption. lia.
  Qed.

  Lemma gas_local_burn i s o s' : f_local_burn E i s = (Ok o, s') -> i_gas i < two64 ->
    priced i o (g_ESDTLocalBurn G) /\ sum_gasLimit o = 0.
  Proof.
    unfold f_local_burn, check_local_action. cbv zeta. intros H Hg. ginv. gas_arith. gsimpl.
    rewrite c06_sub64_exact by assumption. lia.
  Qed.
  Lemma gas_nft_add_quantity i s o s' : f_nft_add_quantity E i s = (Ok o, s') -> i_gas i < two64 ->
    priced i o (g_ESDTNFTAddQuantity G) /\ sum_gasLimit o = 0.
  Proof.
    unfold f_nft_add_quantity, check_create_burn_add. cbv zeta. intros H Hg. ginv. gas_arith. gsimpl.
    rewrite c06_sub64_exact by assumption. lia.
  Qed.
  Lemma gas_nft_burn i s o s' : f_nft_burn E i s = (Ok o, s') -> i_gas i < two64 ->
    priced i o (g_ESDTNFTBurn G) /\ sum_gasLimit o = 0.
  Proof.
    unfold f_nft_burn, check_create_burn_add. cbv zeta. intros H Hg. ginv. gas_arith. gsimpl.
    rewrite c06_sub64_exact by assumption. lia.
  Qed.
  Lemma gas_esdt_burn i s o s' : f_esdt_burn E i s = (Ok o, s') -> i_gas i < two64 ->
    priced i o (g_ESDTBurn G).
  Proof.
    unfold f_esdt_burn. cbv zeta. intros H Hg. ginv. gas_arith.
    match goal with H : i_snd i = true |- _ => rewrite H in * end.
    rewrite c06_cgr_snd by assumption.
    destruct (is_sc (i_caller i)); gsimpl; lia.
  Qed.

  (* ================================================================ *)
  (* supply functions with a per-byte component (StorePerByte)          *)
  (* ================================================================ *)
  Definition charge_nft_create (A : list bytes) : N :=
    u64 (u64 (total_len A * g_StorePerByte G) + g_ESDTNFTCreate G).
  Definition charge_add_uri (A : list bytes) : N :=
    u64 (g_ESDTNFTAddURI G + u64 (total_len (skipn 2 A) * g_StorePerByte G)).
  Definition charge_update_attributes (A : list bytes) : N :=
    u64 (g_ESDTNFTUpdateAttributes G + u64 (zlen (nth 2 A []) * g_StorePerByte G)).

  Lemma gas_nft_create i s o s' : f_nft_create E i s = (Ok o, s') -> i_gas i < two64 ->
    priced i o (charge_nft_create (i_args i)) /\ sum_gasLimit o = 0.
  Proof.
    unfold f_nft_create, check_create_burn_add, charge_nft_create. cbv zeta. intros H Hg. ginv; gas_arith; gsimpl;
      (rewrite c06_sub64_exact by assumption; lia).
  Qed.
  Lemma gas_nft_add_uri i s o s' : f_nft_add_uri E i s = (Ok o, s') -> i_gas i < two64 ->
    priced i o (charge_add_uri (i_args i)) /\ sum_gasLimit o = 0.
  Proof.
    unfold f_nft_add_uri, check_create_burn_add, charge_add_uri. cbv zeta. intros H Hg. ginv. ainv. gas_arith. gsimpl.
rewrite c06_sub64_twice; try assumption. Show.
