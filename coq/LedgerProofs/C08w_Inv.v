(* C08, world-level formulation, part 1: PROVENANCE of metadata as a state invariant.

   [V tok n m] is an arbitrary predicate "m is a metadata value of record for (token identifier tok, nonce n)";
   at the world level it is instantiated with membership in the history variable [Vals] (C08w_World.v).

   [PInv V E s]: every non-empty cell under a key  P ++ x  that decodes as a token entry t satisfies
        x = tok ++ u64_bytes (tok_nonce t)   for some  tok  with  valid_id tok          (= ids_valid, ValidIds_Inv.v)
        and, if t carries metadata m,   V tok (md_nonce m) m                                  (= provenance, [mv])
   ([PInv_iff]: PInv V E s <-> ids_valid E s /\ prov V E s, with [prov] stated through [tok_at]).
   The invariant is a predicate on every cell separately, so it is preserved by a write as soon as the written
   value is good ([pgoodw]); the Hoare-style judgement [kp V E m Q] ("from a PInv state, a successful run of m
   re-establishes PInv and its result satisfies Q") and its tactic are the ones of ValidIds_Inv.v ([kv]) with the
   additional obligation [mv tok t] at every write of an entry and the additional fact [mv tok t] after every read.

   [outp V E i o]: NFT payloads of the output transfers that the world model turns into cross-shard messages
   satisfy V ([args_prov]), and a MultiESDTNFTTransfer message is emitted by its debited sender towards another
   address (so that its delivery and its refund execute the destination side). *)
From Coq Require Import Lia.
From EV Require Import Base.Bytes Base.Store Base.Monad gen.Consts Codec.Types Helpers.Helpers
  Ledger.Types Ledger.Env Ledger.Funcs Ledger.Transfers LedgerProofs.Defs LedgerProofs.EnvSpec
  LedgerProofs.Spec_Transfers_Base LedgerProofs.Spec_Transfers_Multi
  LedgerProofs.C01_Consistent LedgerProofs.C05_Footprint LedgerProofs.C15_Inv LedgerProofs.ValidIds_Id
  LedgerProofs.ValidIds_Inv.

Notation W_NFTT := C.BuiltInFunctionESDTNFTTransfer.
Notation W_MULTIT := C.BuiltInFunctionMultiESDTNFTTransfer.

Section Prov.
  Variable V : bytes -> N -> metadata -> Prop.

  (* ---------------- the invariant ---------------- *)
  (* the metadata of entry t (if any) is of record for token identifier tok *)
  Definition mv (tok : bytes) (t : token) : Prop := forall m, t_meta t = Some m -> V tok (md_nonce m) m.
  Definition pk (x : bytes) (t : token) : Prop :=
    exists tok, valid_id tok /\ x = tok ++ u64_bytes (tok_nonce t) /\ mv tok t.
  Definition pcell (E : env) (k v : bytes) : Prop :=
    forall x t, k = P ++ x -> dec_tok (cdc E) v = Some t -> pk x t.
  Definition PInv (E : env) (s : mstate) : Prop :=
    forall a k, cell s a k <> [] -> pcell E k (cell s a k).

  (* provenance through the observable [tok_at] *)
  Definition prov (E : env) (s : mstate) : Prop :=
    forall a tok n t m, valid_id tok -> tok_at E s a (nft_key (P ++ tok) n) = Some t -> t_meta t = Some m -> V tok n m.

  Lemma pk_idk x t : pk x t -> idk x t.
  Proof. intros (tok & Hv & Hx & _). exists tok. auto. Qed.
  Lemma PInv_ids E s : PInv E s -> ids_valid E s.
  Proof. intros H a k Hne x t Hk Hd. apply pk_idk. exact (H a k Hne x t Hk Hd). Qed.
  Lemma PInv_prov E s : PInv E s -> prov E s.
  Proof.
    intros H a tok n t m Hv Ht Hm. rewrite nft_key_app in Ht.
    apply (tok_at_cell E) in Ht as [Hne Hd].
    destruct (H a _ Hne _ t eq_refl Hd) as (tok' & Hv' & Heq & Hmv).
    destruct (valid_id_unique _ _ _ _ Hv Hv' Heq) as [<- Hn]. apply u64_bytes_inj in Hn.
    unfold tok_nonce in Hn. rewrite Hm in Hn. subst n. apply Hmv. exact Hm.
  Qed.
  Theorem PInv_iff E s : PInv E s <-> ids_valid E s /\ prov E s.
  Proof.
    split; [intros H; split; [apply PInv_ids|apply PInv_prov]; exact H|].
    intros [Hi Hp] a k Hne x t Hk Hd. destruct (Hi a k Hne x t Hk Hd) as (tok & Hv & Hx).
    exists tok. split; [exact Hv|]. split; [exact Hx|]. intros m Hm.
    apply (Hp a tok (md_nonce m) t m Hv); [|exact Hm].
    rewrite nft_key_app. unfold tok_at. subst k x. unfold tok_nonce in *. rewrite Hm in *.
    destruct (cell s a (P ++ tok ++ u64_bytes (md_nonce m))); [congruence|exact Hd].
  Qed.

  (* ---------------- payloads of messages ---------------- *)
  (* ESDTNFTTransfer: argument 0 = token identifier, argument 3 = payload *)
  Definition nft_args_prov (cd : codec) (A : list bytes) : Prop :=
    forall tok b t, nth_error A 0 = Some tok -> nth_error A 3 = Some b -> dec_tok cd b = Some t -> mv tok t.
  (* MultiESDTNFTTransfer, destination side: n triples (token identifier, nonce, payload) *)
  Fixpoint triples_prov (cd : codec) (n : nat) (l : list bytes) : Prop :=
    match n with
    | O => True
    | S n' => match l with
              | tok :: nb :: b :: r =>
                ((0 < bigU64 nb)%N -> forall t, dec_tok cd b = Some t -> mv tok t) /\ triples_prov cd n' r
              | _ => True
              end
    end.
  Definition multi_args_prov (cd : codec) (A : list bytes) : Prop :=
    forall a0, nth_error A 0 = Some a0 -> triples_prov cd (N.to_nat (bigU64 a0)) (skipn 1 A).
  Definition args_prov (cd : codec) (F : bytes) (A : list bytes) : Prop :=
    (F = W_NFTT -> nft_args_prov cd A) /\ (F = W_MULTIT -> multi_args_prov cd A).
  (* the discipline of one call: a destination-side NFT payload is of record *)
  Definition payload_prov (E : env) (f : bytes) (i : input) : Prop := dest_side i -> args_prov (cdc E) f (i_args i).

  Lemma args_prov_plain cd F A : F <> W_NFTT -> F <> W_MULTIT -> args_prov cd F A.
  Proof. intros H1 H2. split; intros; contradiction. Qed.
  Lemma args_prov_nft cd A : nft_args_prov cd A -> args_prov cd W_NFTT A.
  Proof. intros H. split; [intros _; exact H|]. intros H'. vm_compute in H'. discriminate. Qed.
  Lemma args_prov_multi cd A : multi_args_prov cd A -> args_prov cd W_MULTIT A.
  Proof. intros H. split; [|intros _; exact H]. intros H'. vm_compute in H'. discriminate. Qed.
  Lemma origin_payload_prov E f i : i_snd i = true -> payload_prov E f i.
  Proof. intros H [H' _]. congruence. Qed.

  (* ---------------- outputs ---------------- *)
  Definition trp (E : env) (i : input) (dest : bytes) (t : transfer) : Prop :=
    tr_data t = []
    \/ (i_dst i = true /\ dest = i_rcpt i)
    \/ shard_of E dest = self_shard E
    \/ (exists F A, tr_data t = msg_data F A /\ In F emit_names /\ args_prov (cdc E) F A
                    /\ (F = W_MULTIT -> tr_sender t = i_caller i /\ i_rcpt i = i_caller i /\ dest <> i_caller i)).
  Definition outp (E : env) (i : input) (o : output) : Prop :=
    forall oa t, In oa (o_accounts o) -> In t (oc_transfers oa) -> trp E i (oc_addr oa) t.

  (* the judgement *)
  Definition kp (E : env) {A} (m : @M err mstate A) (Q : A -> Prop) : Prop :=
    forall s, PInv E s ->
      match m s with
      | (Ok a, s') => PInv E s' /\ Q a
      | _ => True
      end.

  (* ---------------- pure facts ---------------- *)
  Lemma mv_nometa tok t : t_meta t = None -> mv tok t.
  Proof. intros H m Hm. congruence. Qed.
  Lemma mv_default tok : mv tok default_tok.
  Proof. apply mv_nometa. reflexivity. Qed.
  Lemma mv_set_value tok t v : mv tok t -> mv tok (set_value t v). Proof. exact (fun H => H). Qed.
  Lemma mv_set_props tok t p : mv tok t -> mv tok (set_props t p). Proof. exact (fun H => H). Qed.
  Lemma pk_zero x t : valid_id x -> tok_nonce t = 0%N -> mv x t -> pk x t.
  Proof. intros Hv Hn Hm. exists x. split; [exact Hv|]. rewrite Hn, u64_bytes_0, app_nil_r. auto. Qed.
  Lemma pk_mv tok n t : valid_id tok -> pk (tok ++ u64_bytes n) t -> mv tok t /\ tok_nonce t = n.
  Proof.
    intros Hv (tok' & Hv' & Heq & Hm). destruct (valid_id_unique _ _ _ _ Hv Hv' Heq) as [<- Hn].
    apply u64_bytes_inj in Hn. auto.
  Qed.
  Lemma pk_mv0 tok t : valid_id tok -> pk tok t -> mv tok t /\ tok_nonce t = 0%N.
  Proof. intros Hv H. apply (pk_mv tok 0 t Hv). rewrite u64_bytes_0, app_nil_r. exact H. Qed.

  (* ---------------- outputs ---------------- *)
  Section Out.
    Variable E : env.
    Variable i : input.
    Notation outp := (outp E i).
    Lemma outp_nil o : o_accounts o = [] -> outp o.
    Proof. intros H oa t Hoa. rewrite H in Hoa. destruct Hoa. Qed.
    Lemma outp_mk rc g : outp (mk_out rc g). Proof. apply outp_nil. reflexivity. Qed.
    Lemma outp_set_gasrem o g : outp o -> outp (set_gasrem o g). Proof. exact (fun H => H). Qed.
    Lemma outp_set_logs o l : outp o -> outp (set_logs o l). Proof. exact (fun H => H). Qed.
    Lemma outp_set_returnData o l : outp o -> outp (set_returnData o l). Proof. exact (fun H => H). Qed.
    Lemma outp_add_log o l : outp o -> outp (add_log o l). Proof. exact (fun H => H). Qed.
    Lemma outp_set_accounts_nil o : outp (set_accounts o []). Proof. apply outp_nil. reflexivity. Qed.
    Lemma outp_if (b : bool) o1 o2 : outp o1 -> outp o2 -> outp (if b then o1 else o2).
    Proof. destruct b; auto. Qed.
    Lemma outp_one o dest d t : trp E i dest t ->
      outp (set_accounts o [{| oc_addr := dest; oc_delta := d; oc_transfers := [t] |}]).
    Proof.
      intros H oa t' [<-|[]] Ht. cbn [oc_transfers oc_addr] in *. destruct Ht as [<-|[]]. exact H.
    Qed.
    Lemma outp_aot_local sender fn args gl ct o :
      i_dst i = true -> outp (add_output_transfer sender fn args (i_rcpt i) gl ct o).
    Proof. intros H. unfold add_output_transfer. apply outp_set_gasrem, outp_one. right. left. auto. Qed.
    Lemma outp_aot_same sender fn args dst gl ct o :
      shard_of E dst = self_shard E -> outp (add_output_transfer sender fn args dst gl ct o).
    Proof. intros H. unfold add_output_transfer. apply outp_set_gasrem, outp_one. right. right. left. exact H. Qed.
    (* a protocol message of a function other than the two NFT transfers: no payload *)
    Lemma outp_aot_plain sender F A dst gl ct o :
      In F emit_names -> F <> W_NFTT -> F <> W_MULTIT -> outp (add_output_transfer sender F A dst gl ct o).
    Proof.
      intros H1 H2 H3. unfold add_output_transfer. apply outp_set_gasrem, outp_one. right. right. right.
      exists F, A. cbn [tr_data]. split; [reflexivity|]. split; [exact H1|]. split; [apply args_prov_plain; assumption|].
      intros; contradiction.
    Qed.
    Lemma trp_plain dest t F A : tr_data t = msg_data F A -> In F emit_names -> F <> W_NFTT -> F <> W_MULTIT ->
      trp E i dest t.
    Proof.
      intros H0 H1 H2 H3. right. right. right. exists F, A. split; [exact H0|]. split; [exact H1|].
      split; [apply args_prov_plain; assumption|]. intros; contradiction.
    Qed.
    Lemma outp_ant_nft sender dst A gl g ct o :
      nft_args_prov (cdc E) A -> outp (add_nft_transfer sender dst W_NFTT A gl g ct o).
    Proof.
      intros H. unfold add_nft_transfer. apply outp_one. right. right. right.
      exists W_NFTT, A. cbn [tr_data]. split; [reflexivity|]. split; [cbn; auto 10|]. split; [apply args_prov_nft; exact H|].
      intros H'. vm_compute in H'. discriminate.
    Qed.
    Lemma outp_ant_multi dst A gl g ct o :
      multi_args_prov (cdc E) A -> i_rcpt i = i_caller i -> dst <> i_caller i ->
      outp (add_nft_transfer (i_caller i) dst W_MULTIT A gl g ct o).
    Proof.
      intros H H1 H2. unfold add_nft_transfer. apply outp_one. right. right. right.
      exists W_MULTIT, A. cbn [tr_data tr_sender]. split; [reflexivity|]. split; [cbn; auto 10|].
      split; [apply args_prov_multi; exact H|]. intros _. auto.
    Qed.
  End Out.

  Section KP.
    Variable E : env.
    Hypothesis Hc : codec_ok (cdc E).
    Hypothesis Hflag : flag_undec (cdc E).
    Notation MT := (@M err mstate).
    Notation IV := (PInv E).
    Notation kp := (@kp E _).

    (* ---------------- PInv under reads and writes ---------------- *)
    Definition pgoodw (k v : bytes) : Prop := v <> [] -> pcell E k v.

    Lemma PI_accts s s' : accts s' = accts s -> IV s -> IV s'.
    Proof. intros H Hs a k. rewrite (cell_accts _ _ _ _ H). apply Hs. Qed.
    Lemma PI_rd s s' : rd E s s' -> IV s -> IV s'.
    Proof. intros H. apply PI_accts. apply (rd_accts E _ _ H). Qed.
    Lemma PI_wr a k v s s' : wr E a k v s s' -> pgoodw k v -> IV s -> IV s'.
    Proof.
      intros Hw Hg Hs a' k' Hne.
      destruct (beqb_spec a' a) as [->|Hna].
      - destruct (beqb_spec k' k) as [->|Hnk].
        + rewrite (wr_cell_eq E _ _ _ _ _ Hw) in *. apply Hg. exact Hne.
        + rewrite (wr_cell_other E _ _ _ _ _ _ _ Hw) in * by (right; exact Hnk). apply Hs. exact Hne.
      - rewrite (wr_cell_other E _ _ _ _ _ _ _ Hw) in * by (left; exact Hna). apply Hs. exact Hne.
    Qed.

    Lemma PI_tok_at s a x t : IV s -> tok_at E s a (P ++ x) = Some t -> pk x t.
    Proof. intros Hs Ht. apply (tok_at_cell E) in Ht as [Hne Hd]. exact (Hs a _ Hne x t eq_refl Hd). Qed.
    (* the entry (or the default) under the bare key of a valid identifier has nonce 0 and recorded metadata *)
    Lemma PI_tod s a x t : IV s -> valid_id x -> tok_or_default E s a (P ++ x) = Some t -> tok_nonce t = 0%N /\ mv x t.
    Proof.
      intros Hs Hv Ht. apply (tod_cases E) in Ht as [(_ & -> & _)|(_ & Ht)]; [split; [reflexivity|apply mv_default]|].
      destruct (pk_mv0 x t Hv (PI_tok_at _ _ _ _ Hs Ht)). auto.
    Qed.
    Lemma PI_nft s a x n t : IV s -> valid_id x -> tok_at E s a (nft_key (P ++ x) n) = Some t -> mv x t /\ tok_nonce t = n.
    Proof. intros Hs Hv Ht. rewrite nft_key_app in Ht. apply (pk_mv x n t Hv). eapply PI_tok_at; eauto. Qed.

    (* ---------------- good writes ---------------- *)
    Lemma pgoodw_nil k : pgoodw k [].
    Proof. intros H. congruence. Qed.
    Lemma pgoodw_entry x t : wf_token t -> pk x t -> pgoodw (P ++ x) (enc_tok (cdc E) t).
    Proof.
      intros Hw Hk _ x' t' Hx Hd. apply app_inv_head in Hx. subst x'.
      rewrite (dec_enc_tok _ Hc t Hw) in Hd. injection Hd as <-. exact Hk.
    Qed.
    Lemma pgoodw_flag x f : pgoodw (P ++ x) (flag_bytes f).
    Proof. intros _ x' t' _ Hd. rewrite Hflag in Hd. discriminate. Qed.
    Lemma pgoodw_notP k v : (forall x, k <> P ++ x) -> pgoodw k v.
    Proof. intros H _ x t Hx. exfalso. exact (H x Hx). Qed.
    Lemma pgoodw_roles x v : pgoodw (RP ++ x) v.
    Proof. apply pgoodw_notP. intros y H. symmetry in H. exact (P_RP_disjoint _ _ H). Qed.
    Lemma pgoodw_counter x v : pgoodw (NP ++ x) v.
    Proof. apply pgoodw_notP. intros y H. symmetry in H. exact (P_NP_disjoint _ _ H). Qed.
    Lemma pgoodw_allowed k v : key_allowed k = true -> pgoodw k v.
    Proof. intros H. apply pgoodw_notP. intros x ->. rewrite key_allowed_P in H. discriminate. Qed.
    Lemma pgoodw_nft x t (v : Z) : wf_token t -> valid_id x -> mv x t ->
      pgoodw (nft_key (P ++ x) (tok_nonce t)) (if (v <=? 0)%Z then [] else enc_tok (cdc E) t).
    Proof.
      intros Hw Hv Hm. destruct (v <=? 0)%Z; [apply pgoodw_nil|]. rewrite nft_key_app.
      apply pgoodw_entry; [exact Hw|]. exists x. auto.
    Qed.
    Lemma pgoodw_esdt x t (b : bool) : wf_token t -> valid_id x -> tok_nonce t = 0%N -> mv x t ->
      pgoodw (P ++ x) (if b then [] else enc_tok (cdc E) t).
    Proof.
      intros Hw Hv Hn Hm. destruct b; [apply pgoodw_nil|]. apply pgoodw_entry; [exact Hw|apply pk_zero; assumption].
    Qed.

    (* ---------------- rules for the combinators ---------------- *)
    Lemma kp_of {A} (m : MT A) (Q : A -> Prop) :
      (forall s a s', IV s -> m s = (Ok a, s') -> IV s' /\ Q a) -> kp m Q.
    Proof. intros Hp s Hs. destruct (m s) as [[a|e|] s'] eqn:Em; auto. eapply Hp; eauto. Qed.
    Lemma kp_panic {A} (Q : A -> Prop) : kp panic Q.
    Proof. intros s Hs. exact I. Qed.
    Lemma kp_ret {A} (a : A) (Q : A -> Prop) : Q a -> kp (ret a) Q.
    Proof. intros H s Hs. simpl. auto. Qed.
    Lemma kp_ret_eq {A} (a : A) : kp (ret a) (fun x => x = a).
    Proof. apply kp_ret. reflexivity. Qed.
    Lemma kp_fail {A} e (Q : A -> Prop) : kp (fail e) Q.
    Proof. intros s Hs. exact I. Qed.
    Lemma kp_bind {A B} (m : MT A) (f : A -> MT B) (Q : A -> Prop) (R : B -> Prop) :
      kp m Q -> (forall a, Q a -> kp (f a) R) -> kp (bind m f) R.
    Proof.
      intros Hm Hf s Hs. specialize (Hm s Hs). unfold bind.
      destruct (m s) as [[a|e|] s1]; auto. destruct Hm as [Hs1 Hq]. apply (Hf a Hq s1 Hs1).
    Qed.
    Lemma kp_weaken {A} (m : MT A) (Q Q' : A -> Prop) : kp m Q -> (forall a, Q a -> Q' a) -> kp m Q'.
    Proof.
      intros Hm Hq s Hs. specialize (Hm s Hs). destruct (m s) as [[a|e|] s1]; auto. destruct Hm; auto.
    Qed.
    Lemma kp_true {A} (m : MT A) (Q : A -> Prop) : kp m Q -> kp m (fun _ => True).
    Proof. intros H. eapply kp_weaken; [exact H|auto]. Qed.
    Lemma kp_ok {A} (m : MT A) Q s a s' : kp m Q -> IV s -> m s = (Ok a, s') -> IV s' /\ Q a.
    Proof. intros H Hs Hm. specialize (H s Hs). rewrite Hm in H. exact H. Qed.
    Lemma kp_rdonly {A} (m : MT A) (Q : A -> Prop) :
      (forall s a s', m s = (Ok a, s') -> accts s' = accts s /\ Q a) -> kp m Q.
    Proof.
      intros Hr. apply kp_of. intros s a s' Hs Hm. destruct (Hr _ _ _ Hm) as [Ha Hq].
      split; [eapply PI_accts; eauto|exact Hq].
    Qed.

    (* ---------------- primitives ---------------- *)
    Lemma kp_guard b e : kp (guard b e) (fun _ => b = true).
    Proof. destruct b; [apply kp_ret; reflexivity|apply kp_fail]. Qed.
    Lemma kp_lift_opt {A} (o : option A) e : kp (lift_opt o e) (fun a => o = Some a).
    Proof. destruct o; [apply kp_ret; reflexivity|apply kp_fail]. Qed.
    Lemma kp_check_basic i : kp (check_basic i) (fun _ => (2 <= alen (i_args i))%N).
    Proof.
      apply kp_rdonly. intros s a s' H. apply check_basic_ok in H as (_ & H & ->). split; [reflexivity|exact H].
    Qed.
    Lemma kp_arg A k : kp (arg A k) (fun x => nth_error A (N.to_nat k) = Some x).
    Proof. apply kp_rdonly. intros s a s' H. apply arg_ok in H as (H & _ & ->). auto. Qed.
    Lemma kp_args_from A k : kp (args_from A k) (fun l => l = skipn (N.to_nat k) A).
    Proof. apply kp_rdonly. intros s a s' H. apply args_from_ok in H as (_ & -> & ->). auto. Qed.
    Lemma kp_val_of t : kp (val_of t) (fun v => t_value t = Some v).
    Proof. apply kp_rdonly. intros s a s' H. apply val_of_ok in H as (H & ->). auto. Qed.
    Lemma kp_meta_of t : kp (meta_of t) (fun m => t_meta t = Some m).
    Proof. apply kp_rdonly. intros s a s' H. apply meta_of_ok in H as (H & ->). auto. Qed.
    Lemma kp_alloc n : kp (alloc n) (fun _ => True).
    Proof. apply kp_rdonly. intros s a s' H. apply alloc_ok in H as (_ & H & _). auto. Qed.
    Lemma kp_dep : kp (dep E) (fun _ => True).
    Proof. apply kp_rdonly. intros s a s' H. apply dep_rd in H. split; [apply (rd_accts E _ _ H)|exact I]. Qed.
    Lemma kp_load_account a : kp (load_account E a) (fun _ => True). Proof. apply kp_dep. Qed.
    Lemma kp_save_account a : kp (save_account E a) (fun _ => True). Proof. apply kp_dep. Qed.
    Lemma kp_marshal_tok t : kp (marshal_tok E t) (fun b => b = enc_tok (cdc E) t).
    Proof.
      apply kp_rdonly. intros s a s' H. apply marshal_tok_ok in H as (-> & H).
      split; [apply (rd_accts E _ _ H)|reflexivity].
    Qed.
    Lemma kp_unmarshal_tok b : kp (unmarshal_tok E b) (fun t => dec_tok (cdc E) b = Some t /\ wf_token t).
    Proof.
      apply kp_rdonly. intros s a s' H. apply unmarshal_tok_ok in H as (Hd & H).
      split; [apply (rd_accts E _ _ H)|]. split; [exact Hd|]. eapply dec_tok_wf; eauto.
    Qed.
    Lemma kp_get_acct a : kp (get_acct a) (fun _ => True).
    Proof. apply kp_rdonly. intros s x s' H. apply get_acct_ok in H as (_ & ->). auto. Qed.
    Lemma kp_retrieve a k : kp (retrieve a k) (fun _ => True).
    Proof. apply kp_rdonly. intros s x s' H. apply retrieve_ok in H as (_ & ->). auto. Qed.
    Lemma kp_upd_acct a f : (forall x, a_store (f x) = a_store x) -> kp (upd_acct a f) (fun _ => True).
    Proof.
      intros Hf. apply kp_of. intros s u s' Hs H. split; [|exact I]. intros a' k.
      assert (Hcell : cell s' a' k = cell s a' k).
      { unfold cell. rewrite (upd_acct_acct _ _ _ _ _ a' H). destruct (beqb_spec a' a) as [->|Hne]; [rewrite Hf|]; reflexivity. }
      rewrite Hcell. apply Hs.
    Qed.
    Lemma kp_save_kv a k v : pgoodw k v -> kp (save_kv E a k v) (fun _ => True).
    Proof. intros Hg. apply kp_of. intros s u s' Hs H. apply save_kv_ok in H. split; [eapply PI_wr; eauto|exact I]. Qed.

    (* ---------------- helpers: read-only ---------------- *)
    Lemma kp_check_allowed snd a tok role : kp (check_allowed E snd a tok role) (fun _ => snd = true).
    Proof.
      apply kp_rdonly. intros s u s' H. apply check_allowed_ok in H as (Hs & _ & H).
      split; [apply (rd_accts E _ _ H)|exact Hs].
    Qed.
    Lemma kp_check_payable v a : kp (check_payable E v a) (fun _ => True).
    Proof. apply kp_rdonly. intros s u s' H. apply check_payable_ok in H as (H & _). split; [apply (rd_accts E _ _ H)|exact I]. Qed.
    Lemma kp_get_latest_nonce a tok : kp (get_latest_nonce a tok) (fun n => (n < two64)%N).
    Proof.
      apply kp_rdonly. intros s u s' H. apply get_latest_nonce_ok in H as (-> & ->).
      split; [reflexivity|apply counter_at_lt].
    Qed.
    Lemma kp_get_roles a k : kp (get_roles E a k) (fun _ => True).
    Proof.
      apply kp_rdonly. intros s [r b] s' H. apply get_roles_ok in H as (H & _).
      split; [apply (rd_accts E _ _ H)|exact I].
    Qed.
    Lemma kp_get_esdt_data a x : valid_id x ->
      kp (get_esdt_data E a (P ++ x)) (fun t => wf_token t /\ tok_nonce t = 0%N /\ mv x t).
    Proof.
      intros Hv. apply kp_of. intros s t s' Hs H. apply (get_esdt_data_ok E Hc) in H as (Hr & Ht & Hw).
      split; [eapply PI_rd; eauto|]. split; [exact Hw|]. eapply PI_tod; eauto.
    Qed.
    Lemma kp_get_nft_on_sender a x n : valid_id x ->
      kp (get_nft_on_sender E a (P ++ x) n) (fun t => wf_token t /\ mv x t).
    Proof.
      intros Hv. apply kp_of. intros s t s' Hs H. apply (get_nft_on_sender_ok E Hc) in H as (Hr & Hw & Ht & _).
      split; [eapply PI_rd; eauto|]. split; [exact Hw|]. apply (PI_nft s a x n t Hs Hv Ht).
    Qed.

    (* ---------------- helpers: writers ---------------- *)
    Lemma kp_save_roles a x r : kp (save_roles E a (RP ++ x) r) (fun _ => True).
    Proof.
      apply kp_of. intros s u s' Hs H. apply save_roles_ok in H.
      split; [eapply PI_wr; eauto; apply pgoodw_roles|exact I].
    Qed.
    Lemma kp_save_latest_nonce a tok n : kp (save_latest_nonce E a tok n) (fun _ => True).
    Proof.
      apply kp_of. intros s u s' Hs H. apply save_latest_nonce_ok in H as (H & _).
      split; [eapply PI_wr; eauto; apply pgoodw_counter|exact I].
    Qed.
    Lemma kp_save_esdt_data a t x :
      wf_token t -> valid_id x -> tok_nonce t = 0%N -> mv x t -> kp (save_esdt_data E a t (P ++ x)) (fun _ => True).
    Proof.
      intros Hw Hv Hn Hm. apply kp_of. intros s u s' Hi H. apply save_esdt_data_ok in H as (v & _ & H).
      split; [|exact I]. eapply PI_wr; eauto. apply pgoodw_esdt; assumption.
    Qed.
    Lemma kp_add_to_esdt_balance a x d rae : valid_id x -> kp (add_to_esdt_balance E a (P ++ x) d rae) (fun _ => True).
    Proof.
      intros Hv. apply kp_of. intros s u s' Hs H.
      apply (add_to_esdt_balance_inv E Hc) in H as (t & v & Ht & Hw & _ & _ & _ & _ & H).
      split; [|exact I]. eapply PI_wr; eauto.
      destruct (PI_tod _ _ _ _ Hs Hv Ht) as [Hn Hm].
      apply (pgoodw_esdt x (set_value t (Some (v + d)%Z))); [apply wf_set_value; exact Hw|exact Hv| |].
      - rewrite tok_nonce_set_value. exact Hn.
      - apply mv_set_value. exact Hm.
    Qed.
    Lemma kp_save_nft a x t rae : wf_token t -> valid_id x -> mv x t -> kp (save_nft E a (P ++ x) t rae) (fun _ => True).
    Proof.
      intros Hw Hv Hm. apply kp_of. intros s u s' Hs H. apply save_nft_ok in H as (v & _ & -> & H & _).
      split; [|exact I]. eapply PI_wr; eauto. apply pgoodw_nft; assumption.
    Qed.
    Lemma kp_add_nft_to_destination dst x t verify rae : wf_token t -> valid_id x -> mv x t ->
      kp (add_nft_to_destination E dst (P ++ x) t verify rae) (fun t' => exists v, t' = set_value t (Some v)).
    Proof.
      intros Hw Hv Hm. apply kp_of. intros s t' s' Hs H.
      apply (add_nft_to_destination_ok E Hc) in H as (cur & v & cv & _ & _ & _ & _ & -> & _ & _ & _ & H).
      split; [|eauto]. eapply PI_wr; eauto.
      apply (pgoodw_nft x (set_value t (Some (v + cv)%Z)) (v + cv)%Z); [apply wf_set_value; exact Hw|exact Hv|].
      apply mv_set_value. exact Hm.
    Qed.
  End KP.
End Prov.

Arguments kp V E {A} m Q.

(* monotonicity in V *)
Lemma mv_mono (V V' : bytes -> N -> metadata -> Prop) : (forall tok n m, V tok n m -> V' tok n m) ->
  forall tok t, mv V tok t -> mv V' tok t.
Proof. intros H tok t Hm m Ht. apply H. apply Hm. exact Ht. Qed.
Lemma PInv_mono (V V' : bytes -> N -> metadata -> Prop) E s : (forall tok n m, V tok n m -> V' tok n m) ->
  PInv V E s -> PInv V' E s.
Proof.
  intros H Hs a k Hne x t Hk Hd. destruct (Hs a k Hne x t Hk Hd) as (tok & Hv & Hx & Hm).
  exists tok. split; [exact Hv|]. split; [exact Hx|]. eapply mv_mono; eauto.
Qed.
Lemma triples_prov_mono (V V' : bytes -> N -> metadata -> Prop) cd : (forall tok n m, V tok n m -> V' tok n m) ->
  forall n l, triples_prov V cd n l -> triples_prov V' cd n l.
Proof.
  intros H. induction n as [|n IH]; intros l Hl; [exact I|]. cbn [triples_prov] in *.
  destruct l as [|tok [|nb [|b r]]]; auto. destruct Hl as [H1 H2]. split; [|apply IH; exact H2].
  intros Hp t Hd. eapply mv_mono; [exact H|]. apply H1; assumption.
Qed.
Lemma args_prov_mono (V V' : bytes -> N -> metadata -> Prop) cd F A : (forall tok n m, V tok n m -> V' tok n m) ->
  args_prov V cd F A -> args_prov V' cd F A.
Proof.
  intros H [H1 H2]. split.
  - intros HF tok b t Ht Hb Hd. eapply mv_mono; [exact H|]. eapply (H1 HF); eauto.
  - intros HF a0 Ha. eapply triples_prov_mono; [exact H|]. apply (H2 HF). exact Ha.
Qed.

(* ---------------- the tactic ---------------- *)
Ltac mv_solve :=
  first
    [ assumption
    | apply mv_set_value; mv_solve
    | apply mv_set_props; mv_solve
    | apply mv_default ].

Create HintDb kpdb discriminated.

Ltac papp3 L V E Hc Hf := first [apply (L V E Hc Hf) | apply (L V E Hc) | apply (L V E Hf) | apply (L V E)].
Ltac kp_leaf V E Hc Hf :=
  first
    [ apply (kp_guard V E)
    | apply (kp_ret_eq V E)
    | apply (kp_fail V E)
    | apply (kp_panic V E)
    | apply (kp_lift_opt V E)
    | apply (kp_check_basic V E)
    | apply (kp_arg V E)
    | apply (kp_args_from V E)
    | apply (kp_dep V E)
    | apply (kp_load_account V E)
    | apply (kp_save_account V E)
    | apply (kp_marshal_tok V E)
    | papp3 kp_unmarshal_tok V E Hc Hf
    | apply (kp_get_acct V E)
    | apply (kp_retrieve V E)
    | apply (kp_alloc V E)
    | apply (kp_check_allowed V E)
    | apply (kp_check_payable V E)
    | apply (kp_get_latest_nonce V E)
    | apply (kp_get_roles V E)
    | papp3 kp_get_esdt_data V E Hc Hf; vid
    | papp3 kp_get_nft_on_sender V E Hc Hf; vid
    | apply (kp_save_latest_nonce V E)
    | apply (kp_save_roles V E)
    | papp3 kp_add_to_esdt_balance V E Hc Hf; vid
    | apply (kp_val_of V E)
    | apply (kp_meta_of V E)
    | papp3 kp_save_nft V E Hc Hf; [wf_solve|vid|mv_solve]
    | papp3 kp_save_esdt_data V E Hc Hf; [wf_solve|vid|nonce_solve|mv_solve]
    | papp3 kp_add_nft_to_destination V E Hc Hf; [wf_solve|vid|mv_solve]
    | apply (kp_save_kv V E); first [apply pgoodw_nil | assumption]
    | apply (kp_upd_acct V E); reflexivity
    | solve [eauto with kpdb] ].

Ltac kp_intro :=
  let a := fresh "a" in let H := fresh "Hq" in
  intros a H; cbv beta in H;
  repeat match goal with H : _ /\ _ |- _ => destruct H end.

Ltac kp_step0 V E Hc Hf :=
  cbv beta iota zeta;
  lazymatch goal with
  | |- kp _ _ (bind (if _ then _ else _) _) _ => fail
  | |- kp _ _ (bind _ _) _ =>
      eapply (kp_bind V E); [kp_leaf V E Hc Hf|kp_intro]
  | |- kp _ _ (ret _) _ => apply (kp_ret V E); cbv beta; try exact I
  | |- kp _ _ (fail _) _ => apply (kp_fail V E)
  | |- kp _ _ panic _ => apply (kp_panic V E)
  | |- kp _ _ (if ?b then _ else _) _ => destruct b eqn:?
  | |- kp _ _ (match ?x with _ => _ end) _ => destruct x
  | |- kp _ _ _ (fun _ => True) => eapply (kp_true V E); kp_leaf V E Hc Hf
  | |- kp _ _ _ _ => eapply (kp_weaken V E); [kp_leaf V E Hc Hf|intros ? ?; cbv beta in *]
  end.
Ltac kp_ifT V E :=
  cbv beta iota zeta;
  lazymatch goal with
  | |- kp _ _ (bind (if ?b then _ else _) _) _ =>
      eapply (kp_bind V E) with (Q := fun _ => True); [destruct b eqn:?|intros ? _]
  end.
Ltac kp_step V E Hc Hf := first [kp_step0 V E Hc Hf | kp_ifT V E].
Ltac kp_tac0 V E Hc Hf := repeat (kp_step0 V E Hc Hf).
Ltac kp_tac V E Hc Hf := repeat (kp_step V E Hc Hf).

Create HintDb outpdb discriminated.
Global Hint Resolve outp_mk outp_set_gasrem outp_set_logs outp_set_returnData outp_add_log
  outp_set_accounts_nil outp_if outp_aot_local : outpdb.
Ltac outp_tac := cbv zeta; eauto 10 with outpdb.

Print Assumptions PInv_iff.
