(* C11 (totality), part 2: the 20 non-transfer built-in functions are [safe] (for both values of the
   strictness flag) from every StoreOK state for EVERY input (no hypothesis on presence flags or
   arguments), with return code Ok. *)
From Coq Require Import Lia.
From EV Require Import Base.Bytes Base.Store Base.Monad gen.Consts Codec.Types Helpers.Helpers
  Ledger.Types Ledger.Env Ledger.Funcs Ledger.Transfers LedgerProofs.Defs LedgerProofs.EnvSpec
  LedgerProofs.NoPanic.

Section Funcs.
  Variable E : env.
  Hypothesis Hc : codec_ok (cdc E).
  Hypothesis Hflag : flag_ok (cdc E).
  Variable st : bool.
  Notation rcok := (fun o : output => o_rc o = C.Ok).

  Lemma safe_check_local_action i cost :
    safe E st (check_local_action i cost) (fun _ => (2 <= alen (i_args i))%N).
  Proof. unfold check_local_action. safe_tac E Hc. assumption. Qed.
  Lemma safe_check_create_burn_add i cost :
    safe E st (check_create_burn_add i cost) (fun _ => (2 <= alen (i_args i))%N).
  Proof. unfold check_create_burn_add. safe_tac E Hc. assumption. Qed.
  Lemma safe_check_system_one_arg i :
    safe E st (check_system_one_arg i) (fun _ => alen (i_args i) = 1%N).
  Proof. unfold check_system_one_arg. safe_tac E Hc. lia. Qed.
  Hint Resolve safe_check_local_action safe_check_create_burn_add safe_check_system_one_arg : safe.

  Lemma safe_f_local_mint i : safe E st (f_local_mint E i) rcok.
  Proof. unfold f_local_mint. safe_tac E Hc. rc_ok. Qed.
  Lemma safe_f_local_burn i : safe E st (f_local_burn E i) rcok.
  Proof. unfold f_local_burn. safe_tac E Hc. rc_ok. Qed.
  Lemma safe_f_esdt_burn i : safe E st (f_esdt_burn E i) rcok.
  Proof. unfold f_esdt_burn. safe_tac E Hc. rc_ok. Qed.

  Lemma safe_f_nft_add_quantity i : safe E st (f_nft_add_quantity E i) rcok.
  Proof. unfold f_nft_add_quantity. safe_tac E Hc. rc_ok. Qed.
  Lemma safe_f_nft_burn i : safe E st (f_nft_burn E i) rcok.
  Proof. unfold f_nft_burn. safe_tac E Hc. rc_ok. Qed.
  Lemma safe_f_nft_add_uri i : safe E st (f_nft_add_uri E i) rcok.
  Proof. unfold f_nft_add_uri. safe_tac E Hc. rc_ok. Qed.
  Lemma safe_f_nft_update_attributes i : safe E st (f_nft_update_attributes E i) rcok.
  Proof. unfold f_nft_update_attributes. safe_tac E Hc. rc_ok. Qed.

  Lemma wf_created q next a2 caller roy a4 uris a5 :
    wf_token {| t_type := C.NonFungible; t_value := Some q; t_props := [];
                t_meta := Some {| md_nonce := u64 next; md_name := a2; md_creator := caller; md_royalties := u32 roy;
                                  md_hash := a4; md_uris := uris; md_attributes := a5 |};
                t_reserved := [] |}.
  Proof.
    unfold wf_token, wf_metadata. cbn. split; [reflexivity|]. split; [apply u64_lt|].
    unfold u32, two32. apply N.mod_lt. discriminate.
  Qed.

  Lemma safe_f_nft_create i : safe E st (f_nft_create E i) rcok.
  Proof.
    unfold f_nft_create. safe_tac E Hc.
    all: try (eapply (safe_bind E); [apply (safe_save_nft E Hc); [apply wf_created|discriminate]|safe_intro]; safe_tac E Hc).
    all: rc_ok.
  Qed.

  Lemma safe_f_freeze_wipe fr wp i : safe E st (f_freeze_wipe E fr wp i) rcok.
  Proof. unfold f_freeze_wipe. safe_tac E Hc. all: rc_ok. Qed.

  Lemma safe_f_pause p i : safe E st (f_pause E p i) rcok.
  Proof.
    unfold f_pause. safe_tac E Hc.
    eapply (safe_bind E); [apply (safe_save_kv E); apply goodw_flag; exact Hflag|safe_intro].
    safe_tac E Hc. rc_ok.
  Qed.

  Lemma safe_f_roles set i : safe E st (f_roles E set i) rcok.
  Proof. unfold f_roles. safe_tac E Hc. all: rc_ok. Qed.

  Lemma safe_delete_create_role a tok : safe E st (delete_create_role E a (RP ++ tok)) (fun _ => True).
  Proof. unfold delete_create_role. safe_tac E Hc. Qed.
  Lemma safe_add_create_role a tok : safe E st (add_create_role E a (RP ++ tok)) (fun _ => True).
  Proof. unfold add_create_role. safe_tac E Hc. all: exact I. Qed.
  Hint Resolve safe_delete_create_role safe_add_create_role : safe.

  Lemma safe_f_create_role_transfer i : safe E st (f_create_role_transfer E i) rcok.
  Proof. unfold f_create_role_transfer. safe_tac E Hc. all: rc_ok. Qed.

  Lemma safe_f_change_owner i : safe E st (f_change_owner E i) rcok.
  Proof. unfold f_change_owner. safe_tac E Hc. all: rc_ok. Qed.
  Lemma safe_f_claim_rewards i : safe E st (f_claim_rewards E i) rcok.
  Proof. unfold f_claim_rewards. safe_tac E Hc. all: rc_ok. Qed.
  Lemma safe_f_set_user_name i : safe E st (f_set_user_name E i) rcok.
  Proof. unfold f_set_user_name. safe_tac E Hc. all: rc_ok. Qed.

  Lemma safe_skv_loop a gp n : forall pairs use, length pairs = (2 * n)%nat ->
    safe E st (skv_loop E a gp pairs use) (fun _ => True).
  Proof.
    induction n as [|n IH]; intros pairs use Hl.
    - destruct pairs; [|discriminate]. cbn [skv_loop]. apply (safe_ret E). exact I.
    - destruct pairs as [|k [|v rest]]; [discriminate|simpl in Hl; lia|].
      assert (Hr : length rest = (2 * n)%nat) by (simpl in Hl; lia).
      cbn [skv_loop]. safe_tac E Hc.
      eapply (safe_bind E); [apply (safe_save_kv E); apply goodw_allowed; assumption|safe_intro].
      apply IH. exact Hr.
  Qed.

  Lemma safe_f_save_key_value i : safe E st (f_save_key_value E i) rcok.
  Proof.
    unfold f_save_key_value. safe_tac E Hc.
    eapply (safe_bind E); [apply (safe_skv_loop _ _ (length (i_args i) / 2)%nat); unfold alen in *; lia|safe_intro].
    safe_tac E Hc. rc_ok.
  Qed.
End Funcs.
