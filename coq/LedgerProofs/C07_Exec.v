(* C07, part 1 (one call): what ESDTNFTCreate and ESDTNFTCreateRoleTransfer do to the create counter
   ([counter_at], the cell NP ++ tok) and to the create role ([roles_at], the cell RP ++ tok), and the
   frame: which of the 23 built-in functions can change these two cells at all.
   Corollaries of Spec_Supply (f_nft_create_spec), Spec_System (roles_spec, role_transfer_*_spec) and of the
   footprints of the three spec families. *)
From Coq Require Import Lia List.
From EV Require Import Base.Bytes Base.Store Base.Monad gen.Consts Codec.Types Helpers.Helpers
  Ledger.Types Ledger.Env Ledger.Funcs Ledger.Transfers Ledger.World
  LedgerProofs.Defs LedgerProofs.EnvSpec LedgerProofs.WorldDefs
  LedgerProofs.Spec_Transfers_Base LedgerProofs.Spec_Transfers_Esdt LedgerProofs.Spec_Transfers_Nft
  LedgerProofs.Spec_Transfers_Multi LedgerProofs.Spec_Transfers LedgerProofs.Spec_Supply LedgerProofs.Spec_System.
Import ListNotations.

Notation CR := C.ESDTRoleNFTCreate.
Notation CRT := C.BuiltInFunctionESDTNFTCreateRoleTransfer.
Notation FCreate := C.BuiltInFunctionESDTNFTCreate.
Notation FSetRole := C.BuiltInFunctionSetESDTRole.
Notation FUnSetRole := C.BuiltInFunctionUnSetESDTRole.

(* ------------------------------------------------------------------ *)
(* role lists: number of occurrences of a role (SetESDTRole appends without deduplicating, and the
   hand-over removes ONE occurrence, so "has the role exactly once" is the notion that matters)        *)
(* ------------------------------------------------------------------ *)
Definition cnt (x : bytes) (l : roles) : nat := length (filter (beqb x) l).

Lemma cnt_nil x : cnt x [] = 0%nat. Proof. reflexivity. Qed.
Lemma cnt_cons x y l : cnt x (y :: l) = ((if beqb x y then 1 else 0) + cnt x l)%nat.
Proof. unfold cnt. cbn [filter]. destruct (beqb x y); reflexivity. Qed.
Lemma cnt_app x l l' : cnt x (l ++ l') = (cnt x l + cnt x l')%nat.
Proof. unfold cnt. rewrite filter_app, app_length. reflexivity. Qed.
Lemma cnt_pos_in x l : bytes_in x l = true <-> (0 < cnt x l)%nat.
Proof.
  induction l as [|y r IH]; [cbn; split; [discriminate|lia]|].
  rewrite cnt_cons. unfold bytes_in in *. cbn [existsb]. destruct (beqb x y); cbn [orb]; [split; [lia|reflexivity]|].
  rewrite IH. lia.
Qed.
Lemma cnt_zero_notin x l : bytes_in x l = false <-> cnt x l = 0%nat.
Proof.
  destruct (bytes_in x l) eqn:Eb.
  - apply cnt_pos_in in Eb. split; [discriminate|lia].
  - split; [intros _|reflexivity]. destruct (cnt x l) eqn:Ec; [reflexivity|].
    assert (H : bytes_in x l = true) by (apply cnt_pos_in; lia). congruence.
Qed.
Lemma cnt_remove_first_same x l : cnt x (remove_first x l) = pred (cnt x l).
Proof.
  induction l as [|y r IH]; [reflexivity|]. cbn [remove_first]. rewrite cnt_cons.
  rewrite (beqb_sym x y). destruct (beqb y x) eqn:Eb; [reflexivity|].
  rewrite cnt_cons, (beqb_sym x y), Eb, IH. reflexivity.
Qed.
Lemma cnt_remove_first_other x y l : y <> x -> cnt x (remove_first y l) = cnt x l.
Proof.
  intros Hne. induction l as [|z r IH]; [reflexivity|]. cbn [remove_first]. rewrite cnt_cons.
  destruct (beqb_spec z y) as [->|Hzy].
  - destruct (beqb_spec x y) as [->|_]; [congruence|reflexivity].
  - rewrite cnt_cons, IH. reflexivity.
Qed.
Lemma cnt_delete_roles_other x rs : ~ In x rs -> forall l, cnt x (delete_roles l rs) = cnt x l.
Proof.
  unfold delete_roles. induction rs as [|r rs IH]; intros Hn l; [reflexivity|]. cbn [fold_left].
  rewrite IH by (intros H; apply Hn; right; exact H).
  apply cnt_remove_first_other. intros ->. apply Hn. left. reflexivity.
Qed.
Lemma cnt_del_create l : cnt CR (del_create l) = pred (cnt CR l).
Proof. unfold del_create, delete_roles. cbn [fold_left]. apply cnt_remove_first_same. Qed.
Lemma cnt_del_create_other x l : x <> CR -> cnt x (del_create l) = cnt x l.
Proof. intros H. unfold del_create. apply cnt_delete_roles_other. intros [E|[]]. congruence. Qed.
Lemma cnt_add_create l : cnt CR (add_create l) = (if bytes_in CR l then cnt CR l else 1%nat).
Proof.
  unfold add_create. destruct (bytes_in CR l) eqn:Eb; [reflexivity|].
  rewrite cnt_app. apply cnt_zero_notin in Eb. rewrite Eb. reflexivity.
Qed.
Lemma cnt_add_create_le1 l : (cnt CR l <= 1)%nat -> cnt CR (add_create l) = 1%nat.
Proof.
  intros H. rewrite cnt_add_create. destruct (bytes_in CR l) eqn:Eb; [|reflexivity].
  apply cnt_pos_in in Eb. lia.
Qed.

(* length of the minimal big-endian encoding *)
Lemma le_digits_len : forall k fuel n, (n < 256 ^ N.of_nat k)%N -> (length (le_digits fuel n) <= k)%nat.
Proof.
  induction k as [|k IH]; intros fuel n Hn.
  - assert (n = 0%N) by (cbn in Hn; lia). subst. destruct fuel; cbn; lia.
  - destruct fuel as [|f]; [cbn; lia|]. cbn [le_digits]. destruct (n =? 0)%N; [cbn; lia|].
    cbn [length]. apply le_n_S. apply IH.
    rewrite Nnat.Nat2N.inj_succ, N.pow_succ_r' in Hn. apply N.div_lt_upper_bound; lia.
Qed.
Lemma u64_bytes_len n : (n < two64)%N -> (zlen (u64_bytes n) <= 8)%N.
Proof.
  intros H. unfold zlen, u64_bytes, N_to_be. rewrite rev_length.
  pose proof (le_digits_len 8 (N.size_nat n) n) as L.
  assert (Hp : (256 ^ N.of_nat 8 = two64)%N) by reflexivity. rewrite Hp in L. specialize (L H). lia.
Qed.
Lemma zlen_SC : zlen SC = 32%N. Proof. reflexivity. Qed.

Section Exec.
  Variable E : env.
  Hypothesis Hc : codec_ok (cdc E).

  (* ================================================================ *)
  (* 1. ESDTNFTCreate                                                   *)
  (* ================================================================ *)
  (* A successful create needs the create role, returns [u64_bytes n] for n = u64 (counter + 1), stores the
     new entry (metadata nonce n, creator = caller) under that nonce and sets the caller's counter to n.
     Go's uint64 wrap is modelled: n = counter + 1 exactly when counter + 1 < 2^64. *)
  Theorem create_returns_counter_succ i s o s' :
    exec E FCreate i s = (Ok o, s') ->
    let tok := argn i 0 in
    let n := u64 (counter_at s (i_caller i) tok + 1) in
    has_role E s (i_caller i) tok CR = true
    /\ o_returnData o = [u64_bytes n]
    /\ bigU64 (hd [] (o_returnData o)) = n
    /\ (exists t md, tok_at E s' (i_caller i) (nft_key (P ++ tok) n) = Some t
                     /\ t_meta t = Some md /\ md_nonce md = n /\ md_creator md = i_caller i)
    /\ counter_at s' (i_caller i) tok = n
    /\ ((counter_at s (i_caller i) tok + 1 < two64)%N -> n = (counter_at s (i_caller i) tok + 1)%N).
  Proof.
    intros H tok n. change (exec E FCreate i) with (f_nft_create E i) in H.
    pose proof (create_records_metadata E Hc _ _ _ _ H) as (Hent & _ & _ & Hcnt & Hret & _).
    apply (f_nft_create_spec E Hc) in H. pose proof (nc_role E _ _ _ _ H) as Hrole.
    split; [exact Hrole|]. split; [exact Hret|]. split.
    { rewrite Hret. cbn [hd]. rewrite bigU64_u64_bytes. unfold n. apply u64_small. apply u64_lt. }
    split; [eexists; eexists; split; [exact Hent|]; cbn; auto|].
    split; [exact Hcnt|]. intros Hlt. apply u64_small. exact Hlt.
  Qed.

  (* ================================================================ *)
  (* 2. ESDTNFTCreateRoleTransfer                                       *)
  (* ================================================================ *)
  (* at the current owner, new owner on the same shard *)
  Theorem handover_moves_counter_same_shard i s o s' :
    exec E CRT i s = (Ok o, s') -> i_caller i = SC ->
    (shard_of E (argn i 1) =? self_shard E)%N = true ->
    let tok := argn i 0 in let old := i_rcpt i in let new := argn i 1 in
    i_args i = [tok; new]
    /\ counter_at s' new tok = counter_at s old tok
    /\ has_role E s' new tok CR = true
    /\ (new <> old -> counter_at s' old tok = 0%N
                      /\ roles_at E s' old tok = del_create (roles_at E s old tok)
                      /\ ((cnt CR (roles_at E s old tok) <= 1)%nat -> has_role E s' old tok CR = false))
    /\ roles_at E s' new tok = add_create (if beqb new old then del_create (roles_at E s old tok) else roles_at E s new tok)
    /\ unchanged_except (fun a k => (a = old \/ a = new) /\ (k = NP ++ tok \/ k = RP ++ tok)) (fun _ => False) s s'.
  Proof.
    intros H Hsc Hsh. cbv zeta. change (exec E CRT i) with (f_create_role_transfer E i) in H.
    apply (role_transfer_owner_spec E Hc) in H as (_ & tk & nw & Ha & _ & _ & _ & Hb & _); [|exact Hsc].
    assert (Et : argn i 0 = tk) by (unfold argn; rewrite Ha; reflexivity).
    assert (En : argn i 1 = nw) by (unfold argn; rewrite Ha; reflexivity).
    rewrite En in Hsh. rewrite Hsh in Hb.
    destruct Hb as (Hcn & Hrn & Hold & Hue). rewrite Et, En.
    split; [exact Ha|]. split; [exact Hcn|]. split.
    { unfold has_role. rewrite Hrn. apply bytes_in_true. apply In_add_create. }
    split; [|split; [exact Hrn|exact Hue]].
    intros Hne. destruct (Hold Hne) as (H0 & Hr). split; [exact H0|]. split; [exact Hr|].
    intros Hle. unfold has_role. rewrite Hr. apply cnt_zero_notin. rewrite cnt_del_create. lia.
  Qed.

  (* at the current owner, new owner on another shard: the counter leaves in the message *)
  Theorem handover_moves_counter_cross_shard i s o s' :
    exec E CRT i s = (Ok o, s') -> i_caller i = SC ->
    (shard_of E (argn i 1) =? self_shard E)%N = false ->
    let tok := argn i 0 in let old := i_rcpt i in let new := argn i 1 in
    i_args i = [tok; new]
    /\ o_accounts o = [{| oc_addr := new; oc_delta := 0;
                          oc_transfers := [handover_msg SC tok (counter_at s old tok)] |}]
    /\ counter_at s' old tok = 0%N
    /\ roles_at E s' old tok = del_create (roles_at E s old tok)
    /\ ((cnt CR (roles_at E s old tok) <= 1)%nat -> has_role E s' old tok CR = false)
    /\ unchanged_except (fun a k => a = old /\ (k = NP ++ tok \/ k = RP ++ tok)) (fun _ => False) s s'.
  Proof.
    intros H Hsc Hsh. cbv zeta. change (exec E CRT i) with (f_create_role_transfer E i) in H.
    apply (role_transfer_owner_spec E Hc) in H as (_ & tk & nw & Ha & _ & Ho & _ & Hb & _); [|exact Hsc].
    assert (Et : argn i 0 = tk) by (unfold argn; rewrite Ha; reflexivity).
    assert (En : argn i 1 = nw) by (unfold argn; rewrite Ha; reflexivity).
    rewrite En in Hsh. rewrite Hsh in Hb.
    destruct Hb as (H0 & Hr & Hue). rewrite Et, En.
    split; [exact Ha|]. split; [subst o; rewrite Hsc; reflexivity|].
    split; [exact H0|]. split; [exact Hr|]. split; [|exact Hue].
    intros Hle. unfold has_role. rewrite Hr. apply cnt_zero_notin. rewrite cnt_del_create. lia.
  Qed.

  (* at the next owner (any caller other than the system contract: this branch has no authorisation of its own) *)
  Theorem handover_delivered i s o s' :
    exec E CRT i s = (Ok o, s') -> i_caller i <> SC ->
    let tok := argn i 0 in let new := i_rcpt i in
    i_args i = [tok; argn i 1]
    /\ o = mk_out rcOk 0
    /\ counter_at s' new tok = bigU64 (argn i 1)
    /\ roles_at E s' new tok = add_create (roles_at E s new tok)
    /\ has_role E s' new tok CR = true
    /\ unchanged_except (fun a k => a = new /\ (k = NP ++ tok \/ k = RP ++ tok)) (fun _ => False) s s'.
  Proof.
    intros H Hsc. cbv zeta. change (exec E CRT i) with (f_create_role_transfer E i) in H.
    apply (role_transfer_delivered_spec E Hc) in H as (_ & tk & a1 & Ha & Ho & _ & Hcn & Hr & Hue & _); [|exact Hsc].
    assert (Et : argn i 0 = tk) by (unfold argn; rewrite Ha; reflexivity).
    assert (En : argn i 1 = a1) by (unfold argn; rewrite Ha; reflexivity).
    rewrite Et, En.
    split; [exact Ha|]. split; [exact Ho|]. split; [exact Hcn|]. split; [exact Hr|]. split; [|exact Hue].
    unfold has_role. rewrite Hr. apply bytes_in_true. apply In_add_create.
  Qed.
  (* a hand-over message re-delivered with the counter it carried still in place changes neither cell's meaning *)
  Theorem handover_delivered_idempotent i s o s' :
    exec E CRT i s = (Ok o, s') -> i_caller i <> SC ->
    counter_at s (i_rcpt i) (argn i 0) = bigU64 (argn i 1) ->
    has_role E s (i_rcpt i) (argn i 0) CR = true ->
    (forall a tok, counter_at s' a tok = counter_at s a tok)
    /\ (forall a tok, roles_at E s' a tok = roles_at E s a tok).
  Proof.
    intros H Hsc Hcn Hr. apply handover_delivered in H as (_ & _ & Hcn' & Hr' & _ & Hue); [|exact Hsc].
    assert (Hr2 : roles_at E s' (i_rcpt i) (argn i 0) = roles_at E s (i_rcpt i) (argn i 0)).
    { rewrite Hr'. unfold add_create. unfold has_role in Hr. rewrite Hr. reflexivity. }
    split; intros a tok.
    - destruct (beqb_spec a (i_rcpt i)) as [->|Ha]; [destruct (beqb_spec tok (argn i 0)) as [->|Ht]|].
      + congruence.
      + apply (ue_counter_at _ _ _ _ Hue). intros (_ & [Hk|Hk]); [apply NP_app_inj in Hk; congruence|].
        symmetry in Hk. revert Hk. apply RP_NP_disjoint.
      + apply (ue_counter_at _ _ _ _ Hue). intros (Hx & _). congruence.
    - destruct (beqb_spec a (i_rcpt i)) as [->|Ha]; [destruct (beqb_spec tok (argn i 0)) as [->|Ht]|].
      + exact Hr2.
      + apply (ue_roles_at E _ _ _ _ Hue). intros (_ & [Hk|Hk]); [revert Hk; apply RP_NP_disjoint|].
        apply RP_app_inj in Hk. congruence.
      + apply (ue_roles_at E _ _ _ _ Hue). intros (Hx & _). congruence.
  Qed.

  (* ================================================================ *)
  (* 3. Frame: who can change a counter cell or a role cell             *)
  (* ================================================================ *)
  (* the cells (account, key) a call may write among the role cells RP ++ tok and counter cells NP ++ tok *)
  Definition role_writer (f : bytes) (i : input) (a tok : bytes) : Prop :=
    tok = argn i 0
    /\ (((f = FSetRole \/ f = FUnSetRole) /\ a = i_rcpt i)
        \/ (f = CRT /\ (a = i_rcpt i \/ (a = argn i 1 /\ i_caller i = SC /\ shard_of E (argn i 1) = self_shard E)))).
  Definition counter_writer (f : bytes) (i : input) (a tok : bytes) : Prop :=
    tok = argn i 0
    /\ ((f = FCreate /\ a = i_caller i)
        \/ (f = CRT /\ (a = i_rcpt i \/ (a = argn i 1 /\ i_caller i = SC /\ shard_of E (argn i 1) = self_shard E)))).

  Lemma frame_of_ue (F : bytes -> bytes -> Prop) s s' :
    unchanged_except F (fun _ => False) s s' ->
    (forall a x, ~ F a (RP ++ x)) -> (forall a x, ~ F a (NP ++ x)) ->
    forall a x, cell s' a (RP ++ x) = cell s a (RP ++ x) /\ cell s' a (NP ++ x) = cell s a (NP ++ x).
  Proof. intros Hu H1 H2 a x. split; apply (ue_cell _ _ _ _ Hu); auto. Qed.

  Lemma supply_rn_frame f i s o s' : run_supply E f i s = (Ok o, s') ->
    forall a x, cell s' a (RP ++ x) = cell s a (RP ++ x)
                /\ (~ (f = SNftCreate /\ a = i_caller i /\ x = argn i 0) -> cell s' a (NP ++ x) = cell s a (NP ++ x)).
  Proof.
    intros H a x. destruct (supply_footprint_general E Hc _ _ _ _ _ H) as (n & Hf). split.
    - apply (ue_cell _ _ _ _ Hf). intros (_ & [Hk|[_ Hk]]).
      + symmetry in Hk. revert Hk. apply nft_key_RP_disjoint.
      + revert Hk. apply RP_NP_disjoint.
    - intros Hn. apply (ue_cell _ _ _ _ Hf). intros (Ha & [Hk|[Hf' Hk]]).
      + symmetry in Hk. revert Hk. apply nft_key_NP_disjoint.
      + apply NP_app_inj in Hk. apply Hn. auto.
  Qed.

  (* THE frame statement: outside [role_writer] / [counter_writer] no built-in function changes a role cell /
     a counter cell.  In particular: only SetESDTRole, UnSetESDTRole and the hand-over write role cells, only
     ESDTNFTCreate and the hand-over write counter cells, each only for its own token argument. *)
  Theorem exec_rn_frame f i s o s' : exec E f i s = (Ok o, s') ->
    forall a tok,
      (~ role_writer f i a tok -> cell s' a (RP ++ tok) = cell s a (RP ++ tok))
      /\ (~ counter_writer f i a tok -> cell s' a (NP ++ tok) = cell s a (NP ++ tok)).
  Proof.
    intros H a tok.
    assert (Hacc : In f [C.BuiltInFunctionChangeOwnerAddress; C.BuiltInFunctionClaimDeveloperRewards; C.BuiltInFunctionSetUserName] ->
                   cell s' a (RP ++ tok) = cell s a (RP ++ tok) /\ cell s' a (NP ++ tok) = cell s a (NP ++ tok)).
    { intros Hin. destruct (account_footprint E _ _ _ _ _ H Hin) as (Hcell & _). split; apply Hcell. }
    assert (Hsup : forall sf, f = supply_name sf -> sf <> SNftCreate ->
                   cell s' a (RP ++ tok) = cell s a (RP ++ tok) /\ cell s' a (NP ++ tok) = cell s a (NP ++ tok)).
    { intros sf -> Hne. rewrite exec_supply in H. destruct (supply_rn_frame _ _ _ _ _ H a tok) as (H1 & H2).
      split; [exact H1|]. apply H2. intros (Hx & _). contradiction. }
    unfold exec in H.
    repeat match type of H with
           | (if beqb f ?c then _ else _) _ = _ => destruct (beqb_spec f c) as [Heq|?]
           end.
    - (* claim *) subst f. split; intros _; apply Hacc; cbn; auto.
    - (* change owner *) subst f. split; intros _; apply Hacc; cbn; auto.
    - (* set user name *) subst f. split; intros _; apply Hacc; cbn; auto.
    - (* SaveKeyValue *)
      subst f. change (f_save_key_value E i s = (Ok o, s')) with (exec E C.BuiltInFunctionSaveKeyValue i s = (Ok o, s')) in H.
      apply savekv_footprint in H as (Hp & _).
      split; intros _; apply Hp; right; [apply RP_protected|apply NP_protected].
    - (* pause *)
      apply pause_spec in H as (_ & tk & _ & _ & _ & _ & _ & Hu & _).
      split; intros _; apply (ue_cell _ _ _ _ Hu); intros (_ & Hk).
      + symmetry in Hk. revert Hk. apply P_RP_disjoint.
      + symmetry in Hk. revert Hk. apply P_NP_disjoint.
    - (* unpause *)
      apply pause_spec in H as (_ & tk & _ & _ & _ & _ & _ & Hu & _).
      split; intros _; apply (ue_cell _ _ _ _ Hu); intros (_ & Hk).
      + symmetry in Hk. revert Hk. apply P_RP_disjoint.
      + symmetry in Hk. revert Hk. apply P_NP_disjoint.
    - (* ESDTTransfer *)
      apply (transfer_footprint_esdt E Hc) in H.
      split; intros _; apply (ue_cell _ _ _ _ H); intros (Hk & _); unfold esdt_key in Hk.
      + symmetry in Hk. revert Hk. apply P_RP_disjoint.
      + symmetry in Hk. revert Hk. apply P_NP_disjoint.
    - (* ESDTBurn *) split; intros _; apply (Hsup SEsdtBurn); auto; discriminate.
    - (* freeze *)
      apply (freeze_spec E Hc) in H as (_ & tk & t & _ & _ & _ & _ & _ & _ & _ & _ & Hu & _).
      split; intros _; apply (ue_cell _ _ _ _ Hu); intros (_ & Hk).
      + symmetry in Hk. revert Hk. apply P_RP_disjoint.
      + symmetry in Hk. revert Hk. apply P_NP_disjoint.
    - (* unfreeze *)
      apply (freeze_spec E Hc) in H as (_ & tk & t & _ & _ & _ & _ & _ & _ & _ & _ & Hu & _).
      split; intros _; apply (ue_cell _ _ _ _ Hu); intros (_ & Hk).
      + symmetry in Hk. revert Hk. apply P_RP_disjoint.
      + symmetry in Hk. revert Hk. apply P_NP_disjoint.
    - (* wipe *)
      apply (wipe_spec E Hc) in H as (_ & tk & t & _ & _ & _ & _ & _ & _ & _ & _ & _ & Hu & _).
      split; intros _; apply (ue_cell _ _ _ _ Hu); intros (_ & Hk).
      + symmetry in Hk. revert Hk. apply P_RP_disjoint.
      + symmetry in Hk. revert Hk. apply P_NP_disjoint.
    - (* unset role *)
      apply (roles_spec E Hc) in H as (_ & tk & rs & Ha & _ & _ & _ & Hu & _).
      split; intros Hn; apply (ue_cell _ _ _ _ Hu); intros (Hx & Hk).
      + apply RP_app_inj in Hk. apply Hn. split; [unfold argn; rewrite Ha; exact Hk|]. left. auto.
      + symmetry in Hk. revert Hk. apply RP_NP_disjoint.
    - (* set role *)
      apply (roles_spec E Hc) in H as (_ & tk & rs & Ha & _ & _ & _ & Hu & _).
      split; intros Hn; apply (ue_cell _ _ _ _ Hu); intros (Hx & Hk).
      + apply RP_app_inj in Hk. apply Hn. split; [unfold argn; rewrite Ha; exact Hk|]. left. auto.
      + symmetry in Hk. revert Hk. apply RP_NP_disjoint.
    - (* local burn *) split; intros _; apply (Hsup SLocalBurn); auto; discriminate.
    - (* local mint *) split; intros _; apply (Hsup SLocalMint); auto; discriminate.
    - (* add quantity *) split; intros _; apply (Hsup SNftAddQuantity); auto; discriminate.
    - (* NFT burn *) split; intros _; apply (Hsup SNftBurn); auto; discriminate.
    - (* create *)
      subst f. destruct (supply_rn_frame SNftCreate _ _ _ _ H a tok) as (H1 & H2).
      split; [intros _; exact H1|]. intros Hn. apply H2. intros (_ & Ha & Hx). apply Hn. split; [exact Hx|]. left. auto.
    - (* NFT transfer *)
      apply (transfer_footprint_nft E Hc) in H.
      split; intros _; apply (ue_cell _ _ _ _ H); intros (_ & nn & Hk); unfold nft_tkey in Hk.
      + symmetry in Hk. revert Hk. apply nft_key_RP_disjoint.
      + symmetry in Hk. revert Hk. apply nft_key_NP_disjoint.
    - (* hand-over *)
      subst f. apply (role_transfer_frame E Hc) in H as (tk & a1 & Ha & Hu & _).
      assert (E0 : argn i 0 = tk) by (unfold argn; rewrite Ha; reflexivity).
      assert (E1 : argn i 1 = a1) by (unfold argn; rewrite Ha; reflexivity).
      split; intros Hn; apply (ue_cell _ _ _ _ Hu); intros (Hx & [Hk|Hk]).
      + revert Hk. apply RP_NP_disjoint.
      + apply RP_app_inj in Hk. apply Hn. split; [congruence|]. right. split; [reflexivity|]. rewrite E1. exact Hx.
      + apply NP_app_inj in Hk. apply Hn. split; [congruence|]. right. split; [reflexivity|]. rewrite E1. exact Hx.
      + symmetry in Hk. revert Hk. apply RP_NP_disjoint.
    - (* update attributes *) split; intros _; apply (Hsup SNftUpdateAttributes); auto; discriminate.
    - (* add URI *) split; intros _; apply (Hsup SNftAddUri); auto; discriminate.
    - (* multi transfer *)
      apply (transfer_footprint_multi E Hc) in H as (Hu & _).
      split; intros _; apply (ue_cell _ _ _ _ Hu); intros (_ & xx & nn & _ & Hk).
      + symmetry in Hk. revert Hk. apply nft_key_RP_disjoint.
      + symmetry in Hk. revert Hk. apply nft_key_NP_disjoint.
    - discriminate H.
  Qed.

  (* observables form *)
  Corollary exec_roles_frame f i s o s' : exec E f i s = (Ok o, s') ->
    forall a tok, ~ role_writer f i a tok -> roles_at E s' a tok = roles_at E s a tok.
  Proof. intros H a tok Hn. unfold roles_at. destruct (exec_rn_frame _ _ _ _ _ H a tok) as (H1 & _). rewrite H1; auto. Qed.
  Corollary exec_counter_frame f i s o s' : exec E f i s = (Ok o, s') ->
    forall a tok, ~ counter_writer f i a tok -> counter_at s' a tok = counter_at s a tok.
  Proof. intros H a tok Hn. unfold counter_at. destruct (exec_rn_frame _ _ _ _ _ H a tok) as (_ & H1). rewrite H1; auto. Qed.

  (* SetESDTRole / UnSetESDTRole through [exec] *)
  Theorem set_role_effect (set : bool) i s o s' :
    exec E (if set then FSetRole else FUnSetRole) i s = (Ok o, s') ->
    i_caller i = SC /\ i_args i = argn i 0 :: tl (i_args i) /\ o = mk_out rcOk 0
    /\ roles_at E s' (i_rcpt i) (argn i 0) =
       (if set then roles_at E s (i_rcpt i) (argn i 0) ++ tl (i_args i)
        else delete_roles (roles_at E s (i_rcpt i) (argn i 0)) (tl (i_args i))).
  Proof.
    intros H. assert (H' : f_roles E set i s = (Ok o, s')) by (destruct set; exact H).
    apply (roles_spec E Hc) in H' as ((_ & _ & Hsc & _) & tk & rs & Ha & Ho & _ & Hr & _).
    unfold argn. rewrite Ha. cbn [nth tl]. auto.
  Qed.
End Exec.

Print Assumptions create_returns_counter_succ.
Print Assumptions handover_moves_counter_same_shard.
Print Assumptions handover_moves_counter_cross_shard.
Print Assumptions handover_delivered.
Print Assumptions handover_delivered_idempotent.
Print Assumptions exec_rn_frame.
