(* Property C08 -- NFT metadata travels intact with the tokens.  Part 1: creation, the two metadata-changing
   functions, and ONE HOP of the single transfer ESDTNFTTransfer (same shard; cross shard = sender side + message +
   destination side), all through the dispatch [exec], for an arbitrary environment with a [codec_ok] codec.
   Built on Spec_Supply.v (create_records_metadata, add_uri_effect, update_attributes_effect) and
   Spec_Transfers*.v (nft_snd_post / nft_dst_post).  The multi transfer is in C08_Multi.v, the statement over all 23
   functions in C08_Only.v, routes and the world model in C08_Route.v. *)
From EV Require Import Base.Bytes Base.Store Base.Monad gen.Consts Codec.Types Helpers.Helpers
  Parsers.Tokenize Parsers.CallArgs Parsers.Builder Parsers.ParsersProofs
  Ledger.Types Ledger.Env Ledger.Funcs Ledger.Transfers
  LedgerProofs.Defs LedgerProofs.EnvSpec
  LedgerProofs.Spec_Transfers_Base LedgerProofs.Spec_Transfers_Esdt LedgerProofs.Spec_Transfers_Nft
  LedgerProofs.Spec_Transfers_Multi LedgerProofs.Spec_Transfers LedgerProofs.Spec_Supply.

Notation F_CREATE := C.BuiltInFunctionESDTNFTCreate.
Notation F_ADDURI := C.BuiltInFunctionESDTNFTAddURI.
Notation F_UPDATTR := C.BuiltInFunctionESDTNFTUpdateAttributes.
Notation F_NFTT := C.BuiltInFunctionESDTNFTTransfer.
Notation F_MULTIT := C.BuiltInFunctionMultiESDTNFTTransfer.

(* ---- the message encoder of the ledger model is the encoder of the parsers' model, and the call-data parser
   inverts it on the names of the two NFT transfer functions ---- *)
Lemma c08_msg_data_encode_message fn args : msg_data fn args = encode_message fn args.
Proof. rewrite encode_message_build_call. reflexivity. Qed.
Lemma c08_parse_msg_data fn args : fn <> [] -> ~ In x40 fn -> parse_call_data (msg_data fn args) = Some (fn, args).
Proof. intros H1 H2. change (msg_data fn args) with (build_call fn args). apply callargs_roundtrip; assumption. Qed.
Ltac c08_notin40 := let H := fresh in intros H; vm_compute in H; repeat (destruct H as [H|H]; [discriminate H|]); exact H.
Lemma c08_parse_nft args : parse_call_data (msg_data F_NFTT args) = Some (F_NFTT, args).
Proof. apply c08_parse_msg_data; [discriminate|c08_notin40]. Qed.
Lemma c08_parse_multi args : parse_call_data (msg_data F_MULTIT args) = Some (F_MULTIT, args).
Proof. apply c08_parse_msg_data; [discriminate|c08_notin40]. Qed.

Section C08Base.
  Variable E : env.
  Hypothesis Hc : codec_ok (cdc E).

  Lemma meta_at_some s a k t : tok_at E s a k = Some t -> meta_at E s a k = t_meta t.
  Proof. unfold meta_at. intros ->. reflexivity. Qed.

  (* ================================================================ *)
  (* 1. creation                                                        *)
  (* ================================================================ *)
  Theorem create_records_metadata_exec i s o s' : exec E F_CREATE i s = (Ok o, s') ->
    let n := create_nonce i s in
    let t := created_token i s in
    tok_at E s' (i_caller i) (nft_key (P ++ argn i 0) n) = Some t
    /\ wf_token t
    /\ (u32 (bigU64 (argn i 3)) <= C.MaxRoyalty)%N
    /\ (0 < bigZ (argn i 1))%Z
    /\ has_role E s (i_caller i) (argn i 0) C.ESDTRoleNFTCreate = true
    /\ i_caller i = i_rcpt i
    /\ counter_at s' (i_caller i) (argn i 0) = n
    /\ o_returnData o = [u64_bytes n]
    /\ o_logs o = [{| lg_id := F_CREATE; lg_addr := i_caller i;
                      lg_topics := [argn i 0; u64_bytes n; enc_tok (cdc E) t] |}]
    /\ dec_tok (cdc E) (enc_tok (cdc E) t) = Some t.
  Proof.
    intros H n t. change (exec E F_CREATE i) with (f_nft_create E i) in H.
    apply (f_nft_create_spec E Hc) in H. destruct H. subst n t.
    split; [assumption|]. split; [assumption|]. split; [assumption|]. split; [assumption|]. split; [assumption|].
    split; [assumption|]. split; [assumption|]. split; [assumption|].
    split; [rewrite nc_out; reflexivity|]. apply (dec_enc_tok _ Hc). assumption.
  Qed.

  (* ================================================================ *)
  (* 2. the two functions that change metadata                          *)
  (* ================================================================ *)
  (* ESDTNFTAddURI: the caller holds the role ESDTRoleNFTAddURI for the token, the call is addressed to the caller itself,
     the caller's OWN entry under (token, nonce) gets the given URIs appended; nothing else of the entry, no other
     cell of any account and no account field changes *)
  Theorem add_uri_effect_exec i s o s' : exec E F_ADDURI i s = (Ok o, s') ->
    lookup_consistent E s (i_caller i) (P ++ argn i 0) (bigU64 (argn i 1)) ->
    let key := nft_key (P ++ argn i 0) (bigU64 (argn i 1)) in
    has_role E s (i_caller i) (argn i 0) C.ESDTRoleNFTAddURI = true
    /\ i_caller i = i_rcpt i /\ i_snd i = true /\ bigU64 (argn i 1) <> 0%N
    /\ exists t m v,
         tok_at E s (i_caller i) key = Some t /\ t_meta t = Some m /\ t_value t = Some v
         /\ tok_at E s' (i_caller i) key =
            (if (v <=? 0)%Z then None else Some (set_meta t (Some (set_uris m (md_uris m ++ skipn 2 (i_args i))))))
         /\ (forall a k, ~ (a = i_caller i /\ k = key) -> cell s' a k = cell s a k)
         /\ (forall a, acct_fields_eq (acct s' a) (acct s a)).
  Proof.
    intros H Hlc key. change (exec E F_ADDURI i) with (f_nft_add_uri E i) in H.
    pose proof (supply_fields_unchanged E Hc SNftAddUri i s o s' H) as Hfld.
    destruct (add_uri_effect E Hc _ _ _ _ H Hlc) as (t & m & v & H1 & H2 & H3 & H4 & _).
    apply (f_nft_add_uri_spec E Hc) in H as (t0 & m0 & v0 & H). destruct H.
    pose proof (nft_update_consistent E _ _ _ _ _ _ _ _ _ au_update Hlc) as Hn. destruct au_update. rewrite Hn in *.
    split; [assumption|]. split; [assumption|]. split; [assumption|]. split; [assumption|].
    exists t, m, v. split; [exact H1|]. split; [exact H2|]. split; [exact H3|]. split; [exact H4|].
    split; [|exact Hfld]. intros a k Hk. apply (ue_cell _ _ _ _ nu_frame _ _ Hk).
  Qed.
  (* ESDTNFTUpdateAttributes: same with the role ESDTRoleNFTUpdateAttributes and the attributes replaced by argument 2 *)
  Theorem update_attributes_effect_exec i s o s' : exec E F_UPDATTR i s = (Ok o, s') ->
    lookup_consistent E s (i_caller i) (P ++ argn i 0) (bigU64 (argn i 1)) ->
    let key := nft_key (P ++ argn i 0) (bigU64 (argn i 1)) in
    has_role E s (i_caller i) (argn i 0) C.ESDTRoleNFTUpdateAttributes = true
    /\ i_caller i = i_rcpt i /\ i_snd i = true /\ bigU64 (argn i 1) <> 0%N
    /\ exists t m v,
         tok_at E s (i_caller i) key = Some t /\ t_meta t = Some m /\ t_value t = Some v
         /\ tok_at E s' (i_caller i) key =
            (if (v <=? 0)%Z then None else Some (set_meta t (Some (set_attributes m (argn i 2)))))
         /\ (forall a k, ~ (a = i_caller i /\ k = key) -> cell s' a k = cell s a k)
         /\ (forall a, acct_fields_eq (acct s' a) (acct s a)).
  Proof.
    intros H Hlc key. change (exec E F_UPDATTR i) with (f_nft_update_attributes E i) in H.
    pose proof (supply_fields_unchanged E Hc SNftUpdateAttributes i s o s' H) as Hfld.
    destruct (update_attributes_effect E Hc _ _ _ _ H Hlc) as (t & m & v & H1 & H2 & H3 & H4 & _).
    apply (f_nft_update_attributes_spec E Hc) in H as (t0 & m0 & v0 & H). destruct H.
    pose proof (nft_update_consistent E _ _ _ _ _ _ _ _ _ ua_update Hlc) as Hn. destruct ua_update. rewrite Hn in *.
    split; [assumption|]. split; [assumption|]. split; [assumption|]. split; [assumption|].
    exists t, m, v. split; [exact H1|]. split; [exact H2|]. split; [exact H3|]. split; [exact H4|].
    split; [|exact Hfld]. intros a k Hk. apply (ue_cell _ _ _ _ nu_frame _ _ Hk).
  Qed.

  (* ================================================================ *)
  (* 3. ESDTNFTTransfer: one hop                                        *)
  (* ================================================================ *)
  (* sender side, common part: the sender holds an entry WITH metadata under the requested (token, nonce); what is
     left of it keeps type, properties, metadata, reserved *)
  Lemma nft_sender_entry i s o s' : exec E F_NFTT i s = (Ok o, s') -> i_caller i = i_rcpt i ->
    lookup_consistent E s (i_caller i) (nft_tkey i) (nft_nonce i) ->
    exists t m, nft_snd_post E i t s o s'
      /\ tok_at E s (i_caller i) (nft_cell i) = Some t /\ t_meta t = Some m /\ wf_token t
      /\ nft_full i t = nft_cell i /\ tok_nonce t = nft_nonce i
      /\ t_value t = Some (val_or_0 t) /\ (nft_qty i <= val_or_0 t)%Z
      /\ tok_at E s' (i_caller i) (nft_cell i) =
         (if (val_or_0 t - nft_qty i <=? 0)%Z then None else Some (set_value t (Some (val_or_0 t - nft_qty i)%Z))).
  Proof.
    intros H Heq Hlc. change (exec E F_NFTT i) with (f_nft_transfer E i) in H.
    destruct (nft_sender_post E Hc _ _ _ _ H Heq) as (t & Hp). pose proof Hp as Hp'. destruct Hp'.
    destruct ns_debit as (s1 & D & _). destruct D. destruct ns_meta as (m & Hm).
    assert (Htn : tok_nonce t = nft_nonce i) by (apply Hlc; exact db_entry).
    assert (Hfull : nft_full i t = nft_cell i) by (unfold nft_full, nft_cell; rewrite Htn; reflexivity).
    exists t, m. split; [exact Hp|]. split; [exact db_entry|]. split; [exact Hm|]. split; [exact db_wf|].
    split; [exact Hfull|]. split; [exact Htn|]. split; [exact db_value|]. split; [exact db_funds|].
    rewrite <- Hfull. exact ns_snd_tok_at.
  Qed.

  (* same shard: the entry stored at the destination is the sender's entry with only Value rewritten
     (quantity + the destination's previous holding); in particular its metadata is the sender's *)
  Theorem hop_same_single i s o s' : exec E F_NFTT i s = (Ok o, s') -> i_caller i = i_rcpt i ->
    nft_same E i = true -> lookup_consistent E s (i_caller i) (nft_tkey i) (nft_nonce i) ->
    exists t m,
      tok_at E s (i_caller i) (nft_cell i) = Some t /\ t_meta t = Some m
      /\ tok_at E s' (nft_dst i) (nft_cell i) =
         (if (nft_qty i + balance E s (nft_dst i) (nft_cell i) <=? 0)%Z then None
          else Some (set_value t (Some (nft_qty i + balance E s (nft_dst i) (nft_cell i))%Z)))
      /\ (forall t', tok_at E s' (nft_dst i) (nft_cell i) = Some t' -> t_meta t' = Some m)
      /\ (forall t', tok_at E s' (i_caller i) (nft_cell i) = Some t' -> t_meta t' = Some m).
  Proof.
    intros H Heq Hs Hlc. destruct (nft_sender_entry _ _ _ _ H Heq Hlc) as (t & m & Hp & Ht & Hm & _ & Hfull & _ & _ & _ & Hsnd).
    destruct Hp. exists t, m. split; [exact Ht|]. split; [exact Hm|].
    assert (Hd : tok_at E s' (nft_dst i) (nft_cell i) =
         (if (nft_qty i + balance E s (nft_dst i) (nft_cell i) <=? 0)%Z then None
          else Some (set_value t (Some (nft_qty i + balance E s (nft_dst i) (nft_cell i))%Z)))).
    { rewrite <- Hfull. rewrite (ns_dst_tok_at Hs). unfold nft_travel. rewrite Hs. reflexivity. }
    split; [exact Hd|]. split.
    - intros t' Ht'. rewrite Hd in Ht'. destruct (nft_qty i + balance E s (nft_dst i) (nft_cell i) <=? 0)%Z; [discriminate|].
      inversion Ht'; subst t'. exact Hm.
    - intros t' Ht'. rewrite Hsnd in Ht'. destruct (val_or_0 t - nft_qty i <=? 0)%Z; [discriminate|].
      inversion Ht'; subst t'. exact Hm.
  Qed.

  (* cross shard, sender side: exactly one output transfer, whose data is the encoder's output for the function name
     and the argument list [token; nonce; quantity; payload; attached call...]; the call-data parser reads the
     function name and exactly this argument list back; the payload decodes to the sender's entry with Value = quantity *)
  Definition nft_out_args (i : input) (t : token) : list bytes :=
    [argn i 0; argn i 1; argn i 2] ++ [enc_tok (cdc E) (set_value t (Some (nft_qty i)))] ++ skipn 4 (i_args i).
  Theorem hop_cross_single_sender i s o s' : exec E F_NFTT i s = (Ok o, s') -> i_caller i = i_rcpt i ->
    nft_same E i = false -> lookup_consistent E s (i_caller i) (nft_tkey i) (nft_nonce i) ->
    exists t m tr,
      tok_at E s (i_caller i) (nft_cell i) = Some t /\ t_meta t = Some m /\ wf_token t /\ tok_nonce t = nft_nonce i
      /\ o_accounts o = [{| oc_addr := nft_dst i; oc_delta := 0; oc_transfers := [tr] |}]
      /\ tr_data tr = msg_data F_NFTT (nft_out_args i t)
      /\ tr_data tr = encode_message F_NFTT (nft_out_args i t)
      /\ parse_call_data (tr_data tr) = Some (F_NFTT, nft_out_args i t)
      /\ tr_sender tr = i_caller i /\ tr_callType tr = i_callType i
      /\ dec_tok (cdc E) (enc_tok (cdc E) (set_value t (Some (nft_qty i)))) = Some (set_value t (Some (nft_qty i)))
      /\ (forall t', tok_at E s' (i_caller i) (nft_cell i) = Some t' -> t_meta t' = Some m).
  Proof.
    intros H Heq Hs Hlc. destruct (nft_sender_entry _ _ _ _ H Heq Hlc) as (t & m & _ & Ht & Hm & Hwf & _ & Htn & _ & _ & Hsnd).
    change (exec E F_NFTT i) with (f_nft_transfer E i) in H.
    destruct (nft_out_accounts_cross E Hc _ _ _ _ H Heq Hs) as (t1 & Ht1 & _ & _ & Ho). cbv zeta in Ho.
    assert (t1 = t) by congruence. subst t1.
    eexists t, m, _. split; [exact Ht|]. split; [exact Hm|]. split; [exact Hwf|]. split; [exact Htn|].
    split; [exact Ho|]. cbn [tr_data tr_sender tr_callType].
    split; [reflexivity|]. split; [apply c08_msg_data_encode_message|]. split; [apply c08_parse_nft|].
    split; [reflexivity|]. split; [reflexivity|].
    split; [apply (dec_enc_tok _ Hc), wf_set_value, Hwf|].
    intros t' Ht'. rewrite Hsnd in Ht'. destruct (val_or_0 t - nft_qty i <=? 0)%Z; [discriminate|].
    inversion Ht'; subst t'. exact Hm.
  Qed.

  (* destination side: the entry stored is the decoded payload with only Value rewritten *)
  Theorem hop_single_dest i s o s' : exec E F_NFTT i s = (Ok o, s') -> i_caller i <> i_rcpt i ->
    exists tp mp,
      dec_tok (cdc E) (argn i 3) = Some tp /\ t_meta tp = Some mp
      /\ tok_at E s' (i_rcpt i) (nft_full i tp) =
         (if (val_or_0 tp + balance E s (i_rcpt i) (nft_full i tp) <=? 0)%Z then None
          else Some (set_value tp (Some (val_or_0 tp + balance E s (i_rcpt i) (nft_full i tp))%Z)))
      /\ (forall t', tok_at E s' (i_rcpt i) (nft_full i tp) = Some t' -> t_meta t' = Some mp).
  Proof.
    intros H Hne. change (exec E F_NFTT i) with (f_nft_transfer E i) in H.
    destruct (nft_dest_post E Hc _ _ _ _ H Hne) as (tp & Hp). destruct Hp. destruct nd_meta as (mp & Hmp).
    exists tp, mp. split; [exact nd_dec|]. split; [exact Hmp|]. split; [exact nd_tok_at|].
    intros t' Ht'. rewrite nd_tok_at in Ht'.
    destruct (val_or_0 tp + balance E s (i_rcpt i) (nft_full i tp) <=? 0)%Z; [discriminate|].
    inversion Ht'; subst t'. exact Hmp.
  Qed.

  (* ================================================================ *)
  (* 4. hash mismatch                                                   *)
  (* ================================================================ *)
  (* same shard: the destination holds an entry with metadata under the cell the transfer writes, and its hash
     differs from the hash of the sender's entry: not Ok *)
  Theorem hash_mismatch_rejected_same i s o s' cur cm t m : i_caller i = i_rcpt i -> nft_same E i = true ->
    lookup_consistent E s (i_caller i) (nft_tkey i) (nft_nonce i) ->
    tok_at E s (i_caller i) (nft_cell i) = Some t -> t_meta t = Some m ->
    tok_at E s (nft_dst i) (nft_cell i) = Some cur -> t_meta cur = Some cm -> md_hash cm <> md_hash m ->
    exec E F_NFTT i s <> (Ok o, s').
  Proof.
    intros Heq Hs Hlc Ht Hm Hcur Hcm Hne H.
    destruct (nft_sender_entry _ _ _ _ H Heq Hlc) as (t1 & m1 & Hp & Ht1 & Hm1 & _ & Hfull & _).
    assert (t1 = t) by congruence. subst t1. assert (m1 = m) by congruence. subst m1.
    destruct Hp. rewrite <- Hfull in Hcur. destruct (ns_dst_hash Hs cur cm Hcur Hcm) as (m' & Hm' & Hh).
    assert (m' = m) by congruence. subst m'. contradiction.
  Qed.
  (* destination side: the recipient holds an entry with metadata under the cell the payload addresses, with a hash
     other than the payload's: not Ok *)
  Theorem hash_mismatch_rejected_dest i s o s' cur cm tp mp : i_caller i <> i_rcpt i ->
    dec_tok (cdc E) (argn i 3) = Some tp -> t_meta tp = Some mp ->
    tok_at E s (i_rcpt i) (nft_full i tp) = Some cur -> t_meta cur = Some cm -> md_hash cm <> md_hash mp ->
    exec E F_NFTT i s <> (Ok o, s').
  Proof.
    intros Hne Hdec Hmp Hcur Hcm Hh H. change (exec E F_NFTT i) with (f_nft_transfer E i) in H.
    destruct (nft_dest_post E Hc _ _ _ _ H Hne) as (tp' & Hp). destruct Hp.
    assert (tp' = tp) by congruence. subst tp'.
    destruct (nd_hash cur cm Hcur Hcm) as (m' & Hm' & Hh'). assert (m' = mp) by congruence. subst m'. contradiction.
  Qed.
  (* the stored entry has metadata and the incoming payload has none: rejected as well (the repair of F11) *)
  Theorem no_metadata_payload_rejected_dest i s o s' tp : i_caller i <> i_rcpt i ->
    dec_tok (cdc E) (argn i 3) = Some tp -> t_meta tp = None -> exec E F_NFTT i s <> (Ok o, s').
  Proof.
    intros Hne Hdec Hmp H. change (exec E F_NFTT i) with (f_nft_transfer E i) in H.
    destruct (nft_dest_post E Hc _ _ _ _ H Hne) as (tp' & Hp). destruct Hp.
    assert (tp' = tp) by congruence. subst tp'. destruct nd_meta as (m & Hm). congruence.
  Qed.
End C08Base.

(* ================================================================ *)
(* 5. cross-shard hop of the single transfer: sender side in EA, destination side in EB *)
(* ================================================================ *)
(* The destination side runs on another shard (another [env]: own coordinator view, same codec) with the argument
   list the parser reads from the emitted data, addressed to the destination.  Then the entry stored at the
   destination is the SENDER's entry with only Value rewritten. *)
Theorem hop_cross_single EA EB (HcA : codec_ok (cdc EA)) (Hcd : cdc EB = cdc EA) iA sA oA sA' iB sB oB sB' tr fn :
  exec EA F_NFTT iA sA = (Ok oA, sA') -> i_caller iA = i_rcpt iA -> nft_same EA iA = false ->
  lookup_consistent EA sA (i_caller iA) (nft_tkey iA) (nft_nonce iA) ->
  o_accounts oA = [{| oc_addr := i_rcpt iB; oc_delta := 0; oc_transfers := [tr] |}] ->
  parse_call_data (tr_data tr) = Some (fn, i_args iB) ->
  exec EB fn iB sB = (Ok oB, sB') -> i_caller iB <> i_rcpt iB ->
  exists t m,
    tok_at EA sA (i_caller iA) (nft_cell iA) = Some t /\ t_meta t = Some m
    /\ fn = F_NFTT /\ i_rcpt iB = nft_dst iA
    /\ tok_at EB sB' (i_rcpt iB) (nft_cell iA) =
       (if (nft_qty iA + balance EB sB (i_rcpt iB) (nft_cell iA) <=? 0)%Z then None
        else Some (set_value t (Some (nft_qty iA + balance EB sB (i_rcpt iB) (nft_cell iA))%Z)))
    /\ (forall t', tok_at EB sB' (i_rcpt iB) (nft_cell iA) = Some t' -> t_meta t' = Some m).
Proof.
  intros HA Heq Hs Hlc Hacc Hparse HB Hne.
  assert (HcB : codec_ok (cdc EB)) by (rewrite Hcd; exact HcA).
  destruct (hop_cross_single_sender EA HcA _ _ _ _ HA Heq Hs Hlc)
    as (t & m & tr0 & Ht & Hm & Hwf & Htn & Hacc0 & _ & _ & Hp0 & _ & _ & Hdec & _).
  rewrite Hacc0 in Hacc. inversion Hacc; subst tr0. rewrite Hp0 in Hparse. inversion Hparse; subst fn.
  match goal with H : nft_dst iA = i_rcpt iB |- _ => rename H into Hdst end.
  match goal with H : nft_out_args EA iA t = i_args iB |- _ => rename H into Hargs end.
  destruct (hop_single_dest EB HcB _ _ _ _ HB Hne) as (tp & mp & Hdp & Hmp & Htok & _).
  assert (Ha3 : argn iB 3 = enc_tok (cdc EA) (set_value t (Some (nft_qty iA)))).
  { unfold argn. rewrite <- Hargs. reflexivity. }
  assert (Ha0 : argn iB 0 = argn iA 0) by (unfold argn at 1; rewrite <- Hargs; reflexivity).
  rewrite Ha3, Hcd, Hdec in Hdp. inversion Hdp; subst tp.
  assert (Hfull : nft_full iB (set_value t (Some (nft_qty iA))) = nft_cell iA).
  { unfold nft_full, nft_cell, nft_tkey. rewrite Ha0, tok_nonce_set_value, Htn. reflexivity. }
  rewrite Hfull in Htok. rewrite val_or_0_set_value in Htok. rewrite <- ?Hdst in Htok.
  change (set_value (set_value t (Some (nft_qty iA))) ?v) with (set_value t v) in Htok.
  exists t, m. split; [exact Ht|]. split; [exact Hm|]. split; [reflexivity|]. split; [congruence|].
  split; [exact Htok|].
  intros t' Ht'. rewrite Htok in Ht'. match type of Ht' with (if ?c then _ else _) = _ => destruct c end; [discriminate|].
  inversion Ht'; subst t'. exact Hm.
Qed.

Print Assumptions create_records_metadata_exec.
Print Assumptions add_uri_effect_exec.
Print Assumptions update_attributes_effect_exec.
Print Assumptions hop_same_single.
Print Assumptions hop_cross_single.
Print Assumptions hash_mismatch_rejected_same.
Print Assumptions hash_mismatch_rejected_dest.
