(* C01, part 5: non-vacuity.  A concrete two-shard world (ideal_codec, which is codec_ok) whose destination
   already holds the tokens, a history of eleven operations covering the three transfer functions (same shard
   and cross shard, delivery, a rejected delivery followed by its refund), the hypotheses of
   conservation_histories decided by computation, totals before/after by vm_compute; and the F4b witness that
   shows the consistency hypothesis cannot be dropped. *)
From Coq.Strings Require Import String.
From EV Require Import Base.Bytes Base.Store Base.Monad gen.Consts Codec.Types Codec.Proto Codec.Ideal Codec.CodecOk
  Helpers.Helpers Ledger.Types Ledger.Env Ledger.Funcs Ledger.Transfers Ledger.World Corr.Exec
  LedgerProofs.Defs LedgerProofs.EnvSpec LedgerProofs.WorldDefs LedgerProofs.WorldSpec
  LedgerProofs.Spec_Transfers_Base LedgerProofs.Spec_Transfers_Esdt LedgerProofs.Spec_Transfers_Nft
  LedgerProofs.Spec_Transfers_Multi LedgerProofs.Spec_Transfers
  LedgerProofs.C01_World LedgerProofs.C01_Step LedgerProofs.C01_Exact LedgerProofs.C01_Check.

Definition alice : bytes := repeat x01 32.     (* shard 0 *)
Definition bob : bytes := repeat x02 32.       (* shard 1 *)
Definition carol : bytes := repeat x03 32.     (* shard 0 *)
Definition dave : bytes := repeat x04 32.      (* shard 1, not payable *)
Definition tokA : bytes := str "TOK-a1b2c3"%string.
Definition nftA : bytes := str "NFT-d4e5f6"%string.

Definition c0 : wcfg :=
  {| wc_cdc := ideal_codec;
     wc_shard_of := fun a => if (beqb a bob || beqb a dave)%bool then 1%N else 0%N;
     wc_payable := fun a => if beqb a dave then PayNo else PayYes;
     wc_dns := []; wc_enable := false; wc_gas := gas_of (repeat 10%N 22); wc_nshards := 2 |}.
Lemma c0_ok : codec_ok (wc_cdc c0). Proof. exact ideal_codec_ok. Qed.

Definition tk (v : Z) : token :=
  {| t_type := C.Fungible; t_value := Some v; t_props := []; t_meta := None; t_reserved := [] |}.
Definition md (n : N) : metadata :=
  {| md_nonce := n; md_name := str "n"%string; md_creator := alice; md_royalties := 5; md_hash := str "h"%string;
     md_uris := [str "u"%string]; md_attributes := [] |}.
Definition nf (n : N) (v : Z) : token :=
  {| t_type := C.NonFungible; t_value := Some v; t_props := []; t_meta := Some (md n); t_reserved := [] |}.
Definition mka (st : list (bytes * bytes)) : account :=
  {| a_store := st; a_balance := 100; a_owner := []; a_username := []; a_devreward := 0 |}.
Definition mkin (caller rcpt : bytes) (args : list bytes) (snd dst : bool) : input :=
  {| i_caller := caller; i_rcpt := rcpt; i_args := args; i_value := 0; i_gas := 100000; i_gasLocked := 0;
     i_callType := C.DirectCall; i_rae := false; i_snd := snd; i_dst := dst |}.

Definition kTok : bytes := P ++ tokA.
Definition kNft : bytes := nft_key (P ++ nftA) 1.

(* shard 0: alice 5 TOK + 3 of NFT#1, carol 2 TOK; shard 1: bob ALREADY holds 7 TOK + 1 of NFT#1, dave nothing *)
Definition w0 : world :=
  {| shards := [ [(alice, mka [(kTok, enc_token (tk 5)); (kNft, enc_token (nf 1 3))]); (carol, mka [(kTok, enc_token (tk 2))])];
                 [(bob, mka [(kTok, enc_token (tk 7)); (kNft, enc_token (nf 1 1))]); (dave, mka [])] ];
     inflight := []; failed := []; next_id := 0 |}.

Definition history : list wop :=
  [ OCall 0 C.BuiltInFunctionESDTTransfer (mkin alice bob [tokA; u64_bytes 2] true false);                 (* message 0 *)
    ODeliver 0 100000;
    OCall 0 C.BuiltInFunctionESDTNFTTransfer (mkin alice alice [nftA; u64_bytes 1; u64_bytes 2; bob] true true);   (* message 1 *)
    ODeliver 1 100000;
    OCall 0 C.BuiltInFunctionMultiESDTNFTTransfer
      (mkin alice alice [bob; u64_bytes 2; nftA; u64_bytes 1; u64_bytes 1; tokA; []; u64_bytes 3] true true);     (* message 2 *)
    ODeliver 2 100000;
    OCall 0 C.BuiltInFunctionESDTTransfer (mkin carol alice [tokA; u64_bytes 1] true true);                (* same shard *)
    OCall 0 C.BuiltInFunctionESDTTransfer (mkin alice dave [tokA; u64_bytes 1] true false);                (* message 3 *)
    ODeliver 3 100000;                                                                                      (* rejected: dave is not payable *)
    ORefund 3 100000;                                                                                       (* alice gets it back *)
    ODeliver 7 100000 ].                                                                                    (* unknown id: skipped *)

Definition bal0 (w : world) (sh : N) (a k : bytes) : Z := acct_balance c0 k (aget empty_account (shard_accts w sh) a).

(* the hypotheses of the theorem hold of this world and history *)
Example ex_hypotheses :
  winv_b c0 w0 = true /\ forallb (transfer_op_b c0) history = true /\ consistent_along_b c0 w0 history = true.
Proof. vm_compute. repeat split. Qed.
Example ex_WInv : WInv c0 w0.
Proof. apply winv_b_ok. apply ex_hypotheses. Qed.

(* totals before *)
Example ex_total_before : total c0 kTok w0 = 14%Z /\ total c0 kNft w0 = 4%Z.
Proof. vm_compute. split; reflexivity. Qed.
(* after the first operation 2 TOK are in flight: 12 in accounts + 2 undelivered *)
Example ex_in_flight :
  let w1 := wrun c0 w0 (firstn 1 history) in
  shards_total c0 kTok (shards w1) = 12%Z /\ inflight_total c0 kTok (inflight w1) = 2%Z /\ length (inflight w1) = 1%nat
  /\ bal0 w1 0 alice kTok = 3%Z /\ bal0 w1 1 bob kTok = 7%Z.
Proof. vm_compute. repeat split; reflexivity. Qed.
(* after the rejected delivery of message 3 it is still in flight and marked failed *)
Example ex_rejected :
  let w9 := wrun c0 w0 (firstn 9 history) in
  failed w9 = [3%nat] /\ inflight_total c0 kTok (inflight w9) = 1%Z /\ bal0 w9 1 dave kTok = 0%Z /\ bal0 w9 0 alice kTok = 0%Z.
Proof. vm_compute. repeat split; reflexivity. Qed.
(* the end: nothing in flight; the destination's previous holdings were added to, the refund restored alice *)
Example ex_final :
  let w' := wrun c0 w0 history in
  inflight w' = [] /\ failed w' = []
  /\ bal0 w' 0 alice kTok = 1%Z /\ bal0 w' 0 carol kTok = 1%Z /\ bal0 w' 1 bob kTok = 12%Z /\ bal0 w' 1 dave kTok = 0%Z
  /\ bal0 w' 0 alice kNft = 0%Z /\ bal0 w' 1 bob kNft = 4%Z
  /\ total c0 kTok w' = 14%Z /\ total c0 kNft w' = 4%Z.
Proof. vm_compute. repeat split; reflexivity. Qed.
(* the theorem applies *)
Example ex_conserved : forall k, total c0 k (wrun c0 w0 history) = total c0 k w0.
Proof. intros k. apply (conservation_checked c0 c0_ok); apply ex_hypotheses. Qed.
Lemma in_firstn {A} (x : A) : forall n l, In x (firstn n l) -> In x l.
Proof. induction n as [|n IH]; destruct l as [|y r]; cbn [firstn]; intros H; try contradiction. destruct H; [left|right]; auto. Qed.
Example ex_conserved_prefixes : forall n k, total c0 k (wrun c0 w0 (firstn n history)) = total c0 k w0.
Proof.
  intros n k. apply (conservation_histories c0 c0_ok); [exact ex_WInv| |].
  - apply Forall_forall. intros op Hin. apply transfer_op_b_ok.
    destruct ex_hypotheses as (_ & H & _). rewrite forallb_forall in H. apply H. eapply in_firstn; eauto.
  - destruct ex_hypotheses as (_ & _ & H). apply consistent_along_b_ok in H. revert H. generalize w0. generalize history.
    induction n as [|n IH]; intros l w H; [exact I|]. destruct l as [|op r]; [exact I|]. cbn [firstn consistent_along] in *.
    destruct H as [H1 H2]. split; [exact H1|apply IH; exact H2].
Qed.

(* ================================================================ *)
(* F4b: the consistency hypothesis cannot be dropped                   *)
(* ================================================================ *)
(* erin holds 5 of NFT "ABC-123456" nonce 0x44; she asks to transfer 3 of "ABC-12345" nonce 0x3644 to carol (same shard)
   or to bob (other shard).  The two storage keys coincide ('6' = 0x36), the entry found carries metadata nonce 0x44,
   and save_nft writes under P ++ "ABC-12345" ++ 0x44: tokens of a key that held none appear from nothing. *)
Definition erin : bytes := repeat x05 32.
Definition idLong : bytes := str "ABC-123456"%string.
Definition idShort : bytes := str "ABC-12345"%string.
Definition wF : world :=
  {| shards := [ [(erin, mka [(nft_key (P ++ idLong) 68, enc_token (nf 68 5))]); (carol, mka [])]; [(bob, mka [])] ];
     inflight := []; failed := []; next_id := 0 |}.
Definition opF_same : wop :=
  OCall 0 C.BuiltInFunctionESDTNFTTransfer (mkin erin erin [idShort; [x36; x44]; u64_bytes 3; carol] true true).
Definition opF_cross : wop :=
  OCall 0 C.BuiltInFunctionESDTNFTTransfer (mkin erin erin [idShort; [x36; x44]; u64_bytes 3; bob] true true).
Definition kF : bytes := nft_key (P ++ idShort) 68.

Example ex_F4b_keys_coincide : nft_key (P ++ idShort) (bigU64 [x36; x44]) = nft_key (P ++ idLong) 68.
Proof. vm_compute. reflexivity. Qed.
Example ex_F4b_totals :
  total c0 kF wF = 0%Z
  /\ total c0 kF (wstep c0 wF opF_same) = 5%Z            (* junk entry of 2 at erin + 3 credited to carol *)
  /\ total c0 kF (wstep c0 wF opF_cross) = 5%Z           (* junk entry of 2 at erin + 3 in flight to bob *)
  /\ total c0 (nft_key (P ++ idLong) 68) (wstep c0 wF opF_cross) = 5%Z.   (* the real entry is untouched *)
Proof. vm_compute. repeat split; reflexivity. Qed.

Theorem conservation_refuted_without_consistency :
  exists c w op k, codec_ok (wc_cdc c) /\ WInv c w /\ transfer_op c op /\ ~ op_consistent c w op
                   /\ total c k (wstep c w op) <> total c k w.
Proof.
  exists c0, wF, opF_cross, kF.
  assert (HW : WInv c0 wF) by (apply winv_b_ok; vm_compute; reflexivity).
  assert (Hop : transfer_op c0 opF_cross) by (apply transfer_op_b_ok; vm_compute; reflexivity).
  assert (Hne : total c0 kF (wstep c0 wF opF_cross) <> total c0 kF wF).
  { destruct ex_F4b_totals as (H0 & _ & H1 & _). rewrite H0, H1. discriminate. }
  split; [exact c0_ok|]. split; [exact HW|]. split; [exact Hop|]. split; [|exact Hne].
  intros Hcons. apply Hne. apply (conservation_step c0 c0_ok wF opF_cross HW Hop Hcons).
Qed.
Theorem conservation_refuted_without_consistency_same_shard :
  exists c w op k, codec_ok (wc_cdc c) /\ WInv c w /\ transfer_op c op /\ inflight (wstep c w op) = []
                   /\ total c k (wstep c w op) <> total c k w.
Proof.
  exists c0, wF, opF_same, kF.
  split; [exact c0_ok|]. split; [apply winv_b_ok; vm_compute; reflexivity|].
  split; [apply transfer_op_b_ok; vm_compute; reflexivity|]. split; [vm_compute; reflexivity|].
  destruct ex_F4b_totals as (H0 & H1 & _). rewrite H0, H1. discriminate.
Qed.

Print Assumptions ex_conserved.
Print Assumptions conservation_refuted_without_consistency.
Print Assumptions conservation_refuted_without_consistency_same_shard.
