(* Honest identifiers, part 7: the F4b hypothesis discharged in the statements of C05 (the sharp, exact-nonce
   footprint), C02 (account-level effect of ESDTNFTAddQuantity / ESDTNFTBurn, AddURI / UpdateAttributes) and C01
   (the emitted message carries the debit), from [ids_valid E s] and the shape of the identifiers the call names. *)
From Coq Require Import Lia.
From EV Require Import Base.Bytes Base.Store Base.Monad gen.Consts Codec.Types Helpers.Helpers
  Ledger.Types Ledger.Env Ledger.Funcs Ledger.Transfers Ledger.World
  LedgerProofs.Defs LedgerProofs.EnvSpec LedgerProofs.WorldDefs LedgerProofs.WorldSpec
  LedgerProofs.Spec_Transfers_Base LedgerProofs.Spec_Transfers_Multi LedgerProofs.Spec_Supply
  LedgerProofs.C01_Consistent LedgerProofs.C01_World LedgerProofs.C01_Exact
  LedgerProofs.C02_Effects LedgerProofs.C05_Footprint LedgerProofs.C15_Inv
  LedgerProofs.ValidIds_Id LedgerProofs.ValidIds_Inv LedgerProofs.ValidIds_World.

(* ---------------- C05 ---------------- *)
Theorem ids_valid_fp_consistent E f i s : ids_valid E s -> call_ids f i -> fp_consistent E f i s.
Proof.
  unfold call_ids, named_tokens, fp_consistent. intros Hs Hv. destruct (classify f) as [b|]; [|exact I].
  assert (H0 : named_tokens_b b i = [argn i 0] -> valid_id (argn i 0)).
  { intros Hn. rewrite Hn in Hv. inversion Hv; assumption. }
  destruct b; cbn [fp_consistent_b]; try exact I.
  - apply ids_valid_lookup_consistent; [exact Hs|apply H0; reflexivity].
  - apply ids_valid_lookup_consistent; [exact Hs|apply H0; reflexivity].
  - intros _. apply ids_valid_lookup_consistent; [exact Hs|apply H0; reflexivity].
  - apply ids_valid_lookup_consistent; [exact Hs|apply H0; reflexivity].
  - apply ids_valid_lookup_consistent; [exact Hs|apply H0; reflexivity].
  - intros Heq. apply ids_valid_triples_consistent; [exact Hs|].
    cbn [named_tokens_b] in Hv. unfold multi_named in Hv. rewrite Heq, beqb_refl in Hv.
    rewrite Forall_map in Hv. exact Hv.
Qed.

(* the sharp (exact-nonce) footprint of every function, without [fp_consistent] *)
Theorem exec_frame_exact_valid_ids E (Hc : codec_ok (cdc E)) f i s o s' :
  exec E f i s = (Ok o, s') -> ids_valid E s -> call_ids f i ->
  unchanged_except (fun a k => In (a, k) (fp_exact E f i s)) (fp_accts (footprint E f i s)) s s'.
Proof. intros Hx Hs Hv. apply (exec_frame_exact E Hc f i s o s' Hx). apply ids_valid_fp_consistent; assumption. Qed.

(* ---------------- C02 ---------------- *)
Lemma call_ids_arg0 b i : named_tokens_b b i = [argn i 0] -> call_ids (bfn_name b) i -> valid_id (argn i 0).
Proof. unfold call_ids, named_tokens. rewrite classify_name. intros -> H. inversion H; assumption. Qed.

Theorem supply_balance_effect_valid_ids_nft_add_quantity E (Hc : codec_ok (cdc E)) i s o s' :
  exec E C.BuiltInFunctionESDTNFTAddQuantity i s = (Ok o, s') ->
  ids_valid E s -> valid_id (argn i 0) ->
  (0 <= balance E s (i_caller i) (nft_key (P ++ argn i 0) (bigU64 (argn i 1))))%Z ->
  forall a k, balance E s' a k =
    (balance E s a k + (if at_cell a k (i_caller i) (nft_key (P ++ argn i 0) (bigU64 (argn i 1)))
                        then bigZ (argn i 2) else 0))%Z.
Proof.
  intros Hx Hs Hv Hnn. apply (supply_balance_effect_exec_nft_add_quantity E Hc i s o s' Hx); [|exact Hnn].
  apply ids_valid_lookup_consistent; assumption.
Qed.
Theorem supply_balance_effect_valid_ids_nft_burn E (Hc : codec_ok (cdc E)) i s o s' :
  exec E C.BuiltInFunctionESDTNFTBurn i s = (Ok o, s') ->
  ids_valid E s -> valid_id (argn i 0) ->
  forall a k, balance E s' a k =
    (balance E s a k + (if at_cell a k (i_caller i) (nft_key (P ++ argn i 0) (bigU64 (argn i 1)))
                        then - bigZ (argn i 2) else 0))%Z.
Proof.
  intros Hx Hs Hv. apply (supply_balance_effect_exec_nft_burn E Hc i s o s' Hx).
  apply ids_valid_lookup_consistent; assumption.
Qed.
(* the 13 "other" functions: no balance changes (F8 exclusion stays), F4b hypothesis discharged *)
Theorem other_functions_preserve_balances_valid_ids E (Hc : codec_ok (cdc E)) f i s o s' :
  exec E f i s = (Ok o, s') -> In f other_funs ->
  ids_valid E s ->
  (f = C.BuiltInFunctionESDTNFTAddURI \/ f = C.BuiltInFunctionESDTNFTUpdateAttributes ->
     valid_id (argn i 0)
     /\ (0 <= balance E s (i_caller i) (nft_key (P ++ argn i 0) (bigU64 (argn i 1))))%Z) ->
  forall a x,
    (f = C.BuiltInFunctionESDTPause \/ f = C.BuiltInFunctionESDTUnPause -> ~ (a = SYS /\ x = argn i 0)) ->
    balance E s' a (P ++ x) = balance E s a (P ++ x).
Proof.
  intros Hx Hin Hs Hr. apply (other_functions_preserve_balances E Hc f i s o s' Hx Hin).
  intros Hf. destruct (Hr Hf) as [Hv Hnn]. split; [apply ids_valid_lookup_consistent; assumption|exact Hnn].
Qed.

(* ---------------- C01: one origin-side execution ---------------- *)
Theorem emitted_message_carries_debit_valid_ids c (Hc : codec_ok (wc_cdc c)) sh m0 fn i id o s' :
  is_transfer_fn fn = true -> origin_call c sh i ->
  ids_valid (env_at c sh) (mk_state m0) -> origin_ids fn i ->
  exec (env_at c sh) fn i (mk_state m0) = (Ok o, s') ->
  if (wc_shard_of c (transfer_dest fn i) =? sh)%N then collect c sh fn i id o = []
  else exists m, collect c sh fn i id o = [m] /\ credits c m = transfer_debits fn i
         /\ m_id m = id /\ m_fn m = fn /\ m_dest m = transfer_dest fn i
         /\ m_caller m = i_caller i /\ m_sender m = i_caller i /\ m_origin m = sh.
Proof.
  intros Hfn Hor Hs Hv Hx. apply (emitted_message_carries_debit c Hc sh m0 fn i id o s' Hfn Hor); [|exact Hx].
  apply origin_ids_consistent; assumption.
Qed.

Print Assumptions exec_frame_exact_valid_ids.
Print Assumptions supply_balance_effect_valid_ids_nft_add_quantity.
Print Assumptions other_functions_preserve_balances_valid_ids.
Print Assumptions emitted_message_carries_debit_valid_ids.
