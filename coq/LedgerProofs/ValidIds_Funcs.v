(* Honest identifiers, part 3: each of the 23 built-in functions, called with valid identifiers, keeps
   [ids_valid] ([kv]) for EVERY input otherwise (any presence pattern, any other argument), and the messages it
   emits name valid identifiers only ([outv]).  The hypothesis on the call is [call_ids f i]
   (= Forall valid_id (named_tokens f i): the token identifier argument, resp. the token of every triple of a
   MultiESDTNFTTransfer); per function it is stated on the argument positions the function reads.
   [ids_valid_exec] is the theorem about the dispatch. *)
From Coq Require Import Lia.
From EV Require Import Base.Bytes Base.Store Base.Monad gen.Consts Codec.Types Helpers.Helpers
  Ledger.Types Ledger.Env Ledger.Funcs Ledger.Transfers LedgerProofs.Defs LedgerProofs.EnvSpec
  LedgerProofs.Spec_Transfers_Base LedgerProofs.Spec_Transfers_Multi
  LedgerProofs.C01_Consistent LedgerProofs.C05_Footprint LedgerProofs.C15_Inv LedgerProofs.C15_Funcs
  LedgerProofs.C15_Transfers LedgerProofs.ValidIds_Id LedgerProofs.ValidIds_Inv.

(* the token identifier argument (argument 0), as the functions read it *)
Notation tok0v i := (forall tok, nth_error (i_args i) 0 = Some tok -> valid_id tok).

Section Funcs.
  Variable E : env.
  Hypothesis Hc : codec_ok (cdc E).
  Hypothesis Hf : flag_undec (cdc E).
  Notation okout i := (outv E i).

  Lemma kv_check_local_action i cost : kv E (check_local_action i cost) (fun _ => True).
  Proof. unfold check_local_action. kv_tac E Hc Hf. Qed.
  Lemma kv_check_create_burn_add i cost : kv E (check_create_burn_add i cost) (fun _ => True).
  Proof. unfold check_create_burn_add. kv_tac E Hc Hf. Qed.
  Lemma kv_check_system_one_arg i : kv E (check_system_one_arg i) (fun _ => True).
  Proof. unfold check_system_one_arg. kv_tac E Hc Hf. Qed.
  Hint Resolve kv_check_local_action kv_check_create_burn_add kv_check_system_one_arg : kvdb.

  Lemma kv_f_local_mint i : tok0v i -> kv E (f_local_mint E i) (okout i).
  Proof. intros Hv. unfold f_local_mint. kv_tac E Hc Hf. outv_tac. Qed.
  Lemma kv_f_local_burn i : tok0v i -> kv E (f_local_burn E i) (okout i).
  Proof. intros Hv. unfold f_local_burn. kv_tac E Hc Hf. outv_tac. Qed.
  Lemma kv_f_esdt_burn i : tok0v i -> kv E (f_esdt_burn E i) (okout i).
  Proof.
    intros Hv. unfold f_esdt_burn. kv_tac E Hc Hf. cbv zeta. apply outv_add_log.
    destruct (is_sc (i_caller i)); [|apply outv_mk].
    apply outv_aot_msg; [cbn; auto|]. eapply args_ids_burn; [eassumption|vid].
  Qed.

  Lemma kv_f_nft_add_quantity i : tok0v i -> kv E (f_nft_add_quantity E i) (okout i).
  Proof. intros Hv. unfold f_nft_add_quantity. kv_tac E Hc Hf. outv_tac. Qed.
  Lemma kv_f_nft_burn i : tok0v i -> kv E (f_nft_burn E i) (okout i).
  Proof. intros Hv. unfold f_nft_burn. kv_tac E Hc Hf. outv_tac. Qed.
  Lemma kv_f_nft_add_uri i : tok0v i -> kv E (f_nft_add_uri E i) (okout i).
  Proof. intros Hv. unfold f_nft_add_uri. kv_tac E Hc Hf. outv_tac. Qed.
  Lemma kv_f_nft_update_attributes i : tok0v i -> kv E (f_nft_update_attributes E i) (okout i).
  Proof. intros Hv. unfold f_nft_update_attributes. kv_tac E Hc Hf. outv_tac. Qed.

  Lemma kv_f_nft_create i : tok0v i -> kv E (f_nft_create E i) (okout i).
  Proof.
    intros Hv. unfold f_nft_create. kv_tac E Hc Hf.
    all: try (eapply (kv_bind E);
              [apply (kv_save_nft E Hc); [apply C15_wf_created|vid]|kv_intro];
              kv_tac E Hc Hf).
    all: outv_tac.
  Qed.

  Lemma kv_f_freeze_wipe fr wp i : tok0v i -> kv E (f_freeze_wipe E fr wp i) (okout i).
  Proof. intros Hv. unfold f_freeze_wipe. kv_tac E Hc Hf. all: outv_tac. Qed.

  Lemma kv_f_pause p i : kv E (f_pause E p i) (okout i).
  Proof.
    unfold f_pause. kv_tac E Hc Hf.
    eapply (kv_bind E); [apply (kv_save_kv E); apply (vgoodw_flag E Hf)|kv_intro].
    kv_tac E Hc Hf. outv_tac.
  Qed.

  Lemma kv_f_roles b i : kv E (f_roles E b i) (okout i).
  Proof. unfold f_roles. kv_tac E Hc Hf. outv_tac. Qed.

  Lemma kv_delete_create_role a tok : kv E (delete_create_role E a (RP ++ tok)) (fun _ => True).
  Proof. unfold delete_create_role. kv_tac E Hc Hf. Qed.
  Lemma kv_add_create_role a tok : kv E (add_create_role E a (RP ++ tok)) (fun _ => True).
  Proof. unfold add_create_role. kv_tac E Hc Hf. all: try exact I. Qed.
  Hint Resolve kv_delete_create_role kv_add_create_role : kvdb.

  Lemma kv_f_create_role_transfer i : tok0v i -> kv E (f_create_role_transfer E i) (okout i).
  Proof.
    intros Hv. unfold f_create_role_transfer. kv_tac E Hc Hf. all: try outv_tac.
    all: apply outv_one; right; right; right; eexists _, _; cbn [tr_data];
      (split; [reflexivity|split; [cbn; auto|eapply args_ids_role_transfer; [reflexivity|vid]]]).
  Qed.

  Lemma kv_f_change_owner i : kv E (f_change_owner E i) (okout i).
  Proof. unfold f_change_owner. kv_tac E Hc Hf. all: outv_tac. Qed.
  Lemma kv_f_claim_rewards i : kv E (f_claim_rewards E i) (okout i).
  Proof.
    unfold f_claim_rewards. kv_tac E Hc Hf. all: try outv_tac.
    all: try (destruct (is_sc (i_caller i)); [apply outv_set_accounts_nil|]).
    all: apply outv_one; left; reflexivity.
  Qed.
  Lemma kv_f_set_user_name i : kv E (f_set_user_name E i) (okout i).
  Proof.
    unfold f_set_user_name. kv_tac E Hc Hf. all: try outv_tac.
    apply outv_one; right; right; right; eexists _, _; cbn [tr_data].
    split; [reflexivity|split; [cbn; auto|apply args_ids_user_name]].
  Qed.

  Lemma kv_skv_loop a gp n : forall pairs use, length pairs = (2 * n)%nat ->
    kv E (skv_loop E a gp pairs use) (fun _ => True).
  Proof.
    induction n as [|n IH]; intros pairs use Hl.
    - destruct pairs; [|discriminate]. cbn [skv_loop]. apply (kv_ret E). exact I.
    - destruct pairs as [|k [|v rest]]; [discriminate|simpl in Hl; lia|].
      assert (Hr : length rest = (2 * n)%nat) by (simpl in Hl; lia).
      cbn [skv_loop]. kv_tac E Hc Hf.
      eapply (kv_bind E); [apply (kv_save_kv E); apply vgoodw_allowed; assumption|kv_intro].
      apply IH. exact Hr.
  Qed.

  Lemma kv_f_save_key_value i : kv E (f_save_key_value E i) (okout i).
  Proof.
    unfold f_save_key_value. kv_tac E Hc Hf.
    eapply (kv_bind E); [apply (kv_skv_loop _ _ (length (i_args i) / 2)%nat); unfold alen in *; lia|kv_intro].
    kv_tac E Hc Hf. outv_tac.
  Qed.
End Funcs.
