(* C02: non-vacuity of every theorem of C02_Effects.v / C02_NonNeg.v / C02_World.v, the F8 witness
   (other_functions_preserve_balances_refuted), the witness that the freshness hypothesis of ESDTNFTCreate is needed
   (create_not_fresh_overwrites), and the codec facts flag_nonneg / flag_positive.
   Everything is evaluated by vm_compute in a concrete environment [cE] whose codec is [ideal_codec]
   (codec_ok: ideal_codec_ok), on a concrete shard state [cS] that satisfies NonNeg and StoredPositive. *)
From Coq.Strings Require Import String.
From Coq Require Import Lia.
From EV Require Import Base.Bytes Base.Store Base.Monad gen.Consts Codec.Types Codec.Proto Codec.Ideal Codec.CodecOk
  Helpers.Helpers Ledger.Types Ledger.Env Ledger.Funcs Ledger.Transfers Ledger.World Corr.Exec
  LedgerProofs.Defs LedgerProofs.EnvSpec LedgerProofs.WorldDefs LedgerProofs.WorldSpec
  LedgerProofs.Spec_Transfers_Base LedgerProofs.Spec_Transfers_Esdt LedgerProofs.Spec_Transfers_Nft
  LedgerProofs.Spec_Transfers_Multi LedgerProofs.Spec_Transfers LedgerProofs.Spec_Supply LedgerProofs.Spec_System
  LedgerProofs.C02_Effects LedgerProofs.C02_NonNeg LedgerProofs.C02_World.

(* ---------------- the codec facts ---------------- *)
(* the 2-byte pause flag is not a protobuf ESDigitalToken: it does not decode at all *)
Lemma flag_nonneg_ideal : flag_nonneg ideal_codec.
Proof. intros f t H. destruct f; vm_compute in H; discriminate. Qed.
Lemma flag_positive_ideal : flag_positive ideal_codec.
Proof. intros f t H. destruct f; vm_compute in H; discriminate. Qed.
Lemma flag_nonneg_proto : flag_nonneg the_codec.
Proof. intros f t H. destruct f; vm_compute in H; discriminate. Qed.
Lemma flag_positive_proto : flag_positive the_codec.
Proof. intros f t H. destruct f; vm_compute in H; discriminate. Qed.

(* ---------------- a decision procedure for TokInv on concrete states ---------------- *)
Definition tokinv_b (c : codec) (goodb : token -> bool) (m : amap account) : bool :=
  forallb (fun ax => forallb (fun kv => match snd kv with
                                        | [] => true
                                        | b => match dec_tok c b with Some t => goodb t | None => true end
                                        end) (a_store (snd ax))) m.
Section Checker.
  Local Transparent sget.
  Lemma sget_in (st : store) k : sget st k <> [] -> In (k, sget st k) st.
  Proof.
    induction st as [|[k' v] r IH]; simpl; intros H; [congruence|].
    destruct (beqb_spec k k') as [->|Hne]; [left; reflexivity|right; apply IH; exact H].
  Qed.
End Checker.
Lemma aget_in {A} (d : A) (l : amap A) a : aget d l a = d \/ exists a', In (a', aget d l a) l.
Proof.
  induction l as [|[a' x] r IH]; simpl; [left; reflexivity|].
  destruct (beqb a a'); [right; exists a'; left; reflexivity|].
  destruct IH as [H|[a'' H]]; [left; exact H|right; exists a''; right; exact H].
Qed.
Lemma tokinv_b_sound E (good : token -> Prop) goodb s :
  (forall t, goodb t = true -> good t) -> tokinv_b (cdc E) goodb (accts s) = true -> TokInv E good s.
Proof.
  intros Hgb Hb a x t Ht. unfold tok_at, cell, acct in Ht.
  destruct (sget (a_store (aget empty_account (accts s) a)) (P ++ x)) as [|b0 r0] eqn:Ec; [discriminate|].
  destruct (aget_in empty_account (accts s) a) as [Hd|[a' Hin]].
  - rewrite Hd in Ec. cbn [a_store empty_account] in Ec. rewrite sget_nil in Ec. discriminate.
  - unfold tokinv_b in Hb. rewrite forallb_forall in Hb. specialize (Hb _ Hin). cbn [snd] in Hb.
    rewrite forallb_forall in Hb.
    assert (Hne : sget (a_store (aget empty_account (accts s) a)) (P ++ x) <> []) by (rewrite Ec; discriminate).
    specialize (Hb _ (sget_in _ _ Hne)). cbn [snd] in Hb. rewrite Ec in Hb. rewrite Ht in Hb. apply Hgb. exact Hb.
Qed.
Definition nonneg_b (t : token) : bool := (0 <=? val_or_0 t)%Z.
Definition positive_b (t : token) : bool :=
  ((0 <? val_or_0 t)%Z
   || (match t_value t with Some 0%Z => true | _ => false end && (t_type t =? C.Fungible)%N && negb (all_zero (t_props t))))%bool.
Lemma nonneg_b_ok t : nonneg_b t = true -> nonneg_tok t.
Proof. unfold nonneg_b, nonneg_tok. lia. Qed.
Lemma positive_b_ok t : positive_b t = true -> positive_tok t.
Proof.
  unfold positive_b, positive_tok. intros H. apply orb_prop in H as [H|H]; [left; lia|right].
  apply andb_prop in H as [H H3]. apply andb_prop in H as [H1 H2].
  split; [destruct (t_value t) as [[| |]|]; try discriminate; reflexivity|].
  split; [apply N.eqb_eq; exact H2|]. destruct (all_zero (t_props t)); [discriminate|reflexivity].
Qed.

(* ---------------- the concrete environment and state ---------------- *)
Definition alice : bytes := repeat x01 32.
Definition bob : bytes := repeat x02 32.       (* lives on shard 1 *)
Definition carol : bytes := repeat x03 32.
Definition tokA : bytes := str "TOK-a1b2c3"%string.    (* fungible *)
Definition tokN : bytes := str "NFT-d4e5f6"%string.    (* semi-fungible *)

Definition cCfg : xcfg :=
  {| xc_shards := [(bob, 1%N)]; xc_shard_default := 0%N; xc_pay := []; xc_pay_default := 0%N;
     xc_dns := []; xc_enable := false; xc_gas := repeat 10%N 22 |}.
Definition cE : env :=
  {| plan := fun _ => false; cdc := ideal_codec; shard_of := shard_of (env_of cCfg 0%N None); self_shard := 0%N;
     payable := payable (env_of cCfg 0%N None); dns := []; enable_change := false; gas := gas (env_of cCfg 0%N None) |}.
Lemma cE_ok : codec_ok (cdc cE). Proof. exact ideal_codec_ok. Qed.
Lemma cE_flag_nonneg : flag_nonneg (cdc cE). Proof. exact flag_nonneg_ideal. Qed.
Lemma cE_flag_positive : flag_positive (cdc cE). Proof. exact flag_positive_ideal. Qed.

Definition ftok (v : Z) (props : bytes) : token :=
  {| t_type := C.Fungible; t_value := Some v; t_props := props; t_meta := None; t_reserved := [] |}.
Definition ntok (v : Z) (nonce : N) : token :=
  {| t_type := C.NonFungible; t_value := Some v; t_props := [];
     t_meta := Some {| md_nonce := nonce; md_name := str "n"%string; md_creator := alice; md_royalties := 0;
                       md_hash := str "h"%string; md_uris := []; md_attributes := [] |};
     t_reserved := [] |}.
Definition mkacct (st : list (bytes * bytes)) : acctl :=
  {| al_store := st; al_balance := 100; al_owner := carol; al_username := []; al_reward := 0 |}.
Definition mkin (caller rcpt : bytes) (args : list bytes) (snd dst : bool) : input :=
  {| i_caller := caller; i_rcpt := rcpt; i_args := args; i_value := 0; i_gas := 100000; i_gasLocked := 0;
     i_callType := C.DirectCall; i_rae := false; i_snd := snd; i_dst := dst |}.
Definition all_roles : roles :=
  [C.ESDTRoleLocalMint; C.ESDTRoleLocalBurn; C.ESDTRoleNFTCreate; C.ESDTRoleNFTAddQuantity; C.ESDTRoleNFTBurn;
   C.ESDTRoleNFTAddURI; C.ESDTRoleNFTUpdateAttributes].
Definition num (n : N) : bytes := u64_bytes n.

(* alice: 5 TOK, 3 of NFT#7, all roles for both tokens, create counter 9;
   carol: 4 TOK, frozen;  the SYSTEM ACCOUNT itself holds 6 TOK (the F8 situation) *)
Definition cS_with (counter : N) : mstate :=
  state_of [(alice, mkacct [(P ++ tokA, enc_token (ftok 5 []));
                            (nft_key (P ++ tokN) 7, enc_token (ntok 3 7));
                            (RP ++ tokA, enc_roles all_roles); (RP ++ tokN, enc_roles all_roles);
                            (NP ++ tokN, u64_bytes counter)]);
            (carol, mkacct [(P ++ tokA, enc_token (ftok 4 (flag_bytes true)))]);
            (SYS, mkacct [(P ++ tokA, enc_token (ftok 6 []))])].
Definition cS : mstate := cS_with 9.

Lemma cS_nonneg : NonNeg cE cS.
Proof. apply NonNeg_TokInv. apply (tokinv_b_sound cE _ nonneg_b); [exact nonneg_b_ok|]. vm_compute. reflexivity. Qed.
Lemma cS_positive : StoredPositive cE cS.
Proof. apply (tokinv_b_sound cE _ positive_b); [exact positive_b_ok|]. vm_compute. reflexivity. Qed.

(* run, demand Ok, test the post-state *)
Definition okI {A} (m : @M err mstate A) (s : mstate) (chk : A -> mstate -> bool) : bool :=
  match m s with (Ok a, s') => chk a s' | _ => false end.
Lemma okI_I {A} (m : @M err mstate A) s chk : okI m s chk = true -> exists o s', m s = (Ok o, s') /\ chk o s' = true.
Proof. unfold okI. destruct (m s) as [[a|e|] s1]; try discriminate. eauto. Qed.
Definition is_err {A} (r : res err A * mstate) : bool := match fst r with Err _ => true | _ => false end.
Definition bal (s : mstate) (a k : bytes) : Z := balance cE s a k.

(* ================================================================ *)
(* 1. the seven supply functions                                      *)
(* ================================================================ *)
Definition in_mint := mkin alice alice [tokA; num 7] true true.
Example ex_mint : okI (exec cE C.BuiltInFunctionESDTLocalMint in_mint) cS
  (fun _ s' => (bal s' alice (P ++ tokA) =? 12)%Z && (bal s' carol (P ++ tokA) =? 4)%Z) = true.
Proof. vm_compute. reflexivity. Qed.
Example inst_mint : exists o s', exec cE C.BuiltInFunctionESDTLocalMint in_mint cS = (Ok o, s')
  /\ balance cE s' alice (P ++ tokA) = (balance cE cS alice (P ++ tokA) + 7)%Z /\ NonNeg cE s'.
Proof.
  destruct (okI_I _ _ _ ex_mint) as (o & s' & H & _). exists o, s'. split; [exact H|]. split.
  - rewrite (supply_balance_effect_exec_local_mint cE cE_ok _ _ _ _ H). reflexivity.
  - exact (NonNeg_exec cE _ _ _ _ _ cE_ok cE_flag_nonneg cS_nonneg H).
Qed.

Definition in_lburn (n : N) := mkin alice alice [tokA; num n] true true.
(* boundary: burning exactly the holding succeeds and deletes the entry; one more is an overdraft *)
Example ex_local_burn_exact : okI (exec cE C.BuiltInFunctionESDTLocalBurn (in_lburn 5)) cS
  (fun _ s' => (bal s' alice (P ++ tokA) =? 0)%Z && beqb (cell s' alice (P ++ tokA)) []) = true.
Proof. vm_compute. reflexivity. Qed.
Example ex_local_burn_overdraft : fst (exec cE C.BuiltInFunctionESDTLocalBurn (in_lburn 6) cS) = Err EInsufficientFunds.
Proof. vm_compute. reflexivity. Qed.
Example inst_local_burn : exists o s', exec cE C.BuiltInFunctionESDTLocalBurn (in_lburn 5) cS = (Ok o, s')
  /\ balance cE s' alice (P ++ tokA) = (balance cE cS alice (P ++ tokA) - 5)%Z.
Proof.
  destruct (okI_I _ _ _ ex_local_burn_exact) as (o & s' & H & _). exists o, s'. split; [exact H|].
  rewrite (supply_balance_effect_exec_local_burn cE cE_ok _ _ _ _ H). reflexivity.
Qed.
Example inst_overdraft_local_burn : overdrawn cE C.BuiltInFunctionESDTLocalBurn (in_lburn 6) cS.
Proof. left. split; [reflexivity|]. vm_compute. reflexivity. Qed.

Definition in_eburn (n : N) := mkin alice SC [tokA; num n] true false.
Example ex_esdt_burn : okI (exec cE C.BuiltInFunctionESDTBurn (in_eburn 2)) cS
  (fun _ s' => (bal s' alice (P ++ tokA) =? 3)%Z) = true.
Proof. vm_compute. reflexivity. Qed.
Example ex_esdt_burn_overdraft : is_err (exec cE C.BuiltInFunctionESDTBurn (in_eburn 6) cS) = true.
Proof. vm_compute. reflexivity. Qed.

(* create: quantity 2 under the next nonce 10 = counter 9 + 1; nothing is stored there before *)
Definition in_create := mkin alice alice [tokN; num 2; str "name"%string; num 100; str "hash"%string; str "attr"%string; str "uri"%string] true true.
Example ex_create : okI (exec cE C.BuiltInFunctionESDTNFTCreate in_create) cS
  (fun o s' => (bal s' alice (nft_key (P ++ tokN) 10) =? 2)%Z && (counter_at s' alice tokN =? 10)%N
               && (bal s' alice (nft_key (P ++ tokN) 7) =? 3)%Z && (bal s' alice (P ++ tokA) =? 5)%Z) = true.
Proof. vm_compute. reflexivity. Qed.
Example inst_create : exists o s', exec cE C.BuiltInFunctionESDTNFTCreate in_create cS = (Ok o, s')
  /\ create_nonce in_create cS = 10%N
  /\ cell cS alice (nft_key (P ++ tokN) (create_nonce in_create cS)) = []
  /\ balance cE s' alice (nft_key (P ++ tokN) 10) = (balance cE cS alice (nft_key (P ++ tokN) 10) + 2)%Z.
Proof.
  destruct (okI_I _ _ _ ex_create) as (o & s' & H & _). exists o, s'. split; [exact H|].
  assert (Hn : create_nonce in_create cS = 10%N) by (vm_compute; reflexivity).
  assert (Hf : cell cS alice (nft_key (P ++ tokN) (create_nonce in_create cS)) = []) by (vm_compute; reflexivity).
  split; [exact Hn|]. split; [exact Hf|].
  rewrite (supply_balance_effect_exec_nft_create cE cE_ok _ _ _ _ H Hf alice (nft_key (P ++ tokN) 10)).
  - vm_compute. reflexivity.
  - vm_compute. discriminate.
Qed.
(* the freshness hypothesis is needed: with the counter regressed to 6, the next nonce 7 is already occupied by 3
   units; create(quantity 2) OVERWRITES them: the cell goes 3 -> 2 (change -1, not +2) *)
Example create_not_fresh_overwrites :
  okI (exec cE C.BuiltInFunctionESDTNFTCreate in_create) (cS_with 6)
    (fun _ s' => (bal (cS_with 6) alice (nft_key (P ++ tokN) 7) =? 3)%Z && (bal s' alice (nft_key (P ++ tokN) 7) =? 2)%Z
                 && (counter_at s' alice tokN =? 7)%N) = true.
Proof. vm_compute. reflexivity. Qed.

Definition in_addq := mkin alice alice [tokN; num 7; num 4] true true.
Example ex_add_quantity : okI (exec cE C.BuiltInFunctionESDTNFTAddQuantity in_addq) cS
  (fun _ s' => (bal s' alice (nft_key (P ++ tokN) 7) =? 7)%Z) = true.
Proof. vm_compute. reflexivity. Qed.
Lemma cS_consistent_7 : lookup_consistent cE cS alice (P ++ tokN) 7.
Proof. intros t Ht. vm_compute in Ht. inversion Ht. reflexivity. Qed.
Example inst_add_quantity : exists o s', exec cE C.BuiltInFunctionESDTNFTAddQuantity in_addq cS = (Ok o, s')
  /\ balance cE s' alice (nft_key (P ++ tokN) 7) = (balance cE cS alice (nft_key (P ++ tokN) 7) + 4)%Z.
Proof.
  destruct (okI_I _ _ _ ex_add_quantity) as (o & s' & H & _). exists o, s'. split; [exact H|].
  rewrite (supply_balance_effect_exec_nft_add_quantity cE cE_ok _ _ _ _ H).
  - reflexivity.
  - exact cS_consistent_7.
  - apply (NonNeg_balance_nft cE cS alice tokN). exact cS_nonneg.
Qed.

Definition in_nburn (q : N) := mkin alice alice [tokN; num 7; num q] true true.
Example ex_nft_burn_exact : okI (exec cE C.BuiltInFunctionESDTNFTBurn (in_nburn 3)) cS
  (fun _ s' => (bal s' alice (nft_key (P ++ tokN) 7) =? 0)%Z && beqb (cell s' alice (nft_key (P ++ tokN) 7)) []) = true.
Proof. vm_compute. reflexivity. Qed.
Example ex_nft_burn_overdraft : fst (exec cE C.BuiltInFunctionESDTNFTBurn (in_nburn 4) cS) = Err EInvalidNFTQuantity.
Proof. vm_compute. reflexivity. Qed.

(* wipe: carol's frozen 4 TOK disappear, nothing else moves; a non-frozen holding cannot be wiped *)
Definition in_wipe (a : bytes) := mkin SC a [tokA] false true.
Example ex_wipe : okI (exec cE C.BuiltInFunctionESDTWipe (in_wipe carol)) cS
  (fun _ s' => (bal s' carol (P ++ tokA) =? 0)%Z && (bal s' alice (P ++ tokA) =? 5)%Z) = true.
Proof. vm_compute. reflexivity. Qed.
Example ex_wipe_not_frozen : fst (exec cE C.BuiltInFunctionESDTWipe (in_wipe alice) cS) = Err ECannotWipeAccountNotFrozen.
Proof. vm_compute. reflexivity. Qed.
Example inst_wipe : exists o s', exec cE C.BuiltInFunctionESDTWipe (in_wipe carol) cS = (Ok o, s')
  /\ balance cE cS carol (P ++ tokA) = 4%Z /\ balance cE s' carol (P ++ tokA) = 0%Z
  /\ balance cE s' alice (P ++ tokA) = balance cE cS alice (P ++ tokA).
Proof.
  destruct (okI_I _ _ _ ex_wipe) as (o & s' & H & _). exists o, s'. split; [exact H|].
  destruct (supply_balance_effect_exec_wipe cE cE_ok _ _ _ _ H) as (_ & _ & Hb & Hall).
  split; [vm_compute; reflexivity|]. split; [exact Hb|]. rewrite (Hall alice (P ++ tokA)). vm_compute. reflexivity.
Qed.

(* ================================================================ *)
(* 2. the other functions; F8                                         *)
(* ================================================================ *)
Definition in_pause := mkin SC SYS [tokA] false false.
(* FINDING F8 (known): the system account holds 6 TOK; ESDTPause(TOK) succeeds and the holding is gone.  Every
   hypothesis of other_functions_preserve_balances holds except the exclusion of the cell (SYS, P ++ tok). *)
Theorem other_functions_preserve_balances_refuted :
  exists E f i s o s' a x,
    codec_ok (cdc E) /\ exec E f i s = (Ok o, s') /\ In f other_funs
    /\ (rewrites_entry_fn f -> lookup_consistent E s (i_caller i) (P ++ argn i 0) (bigU64 (argn i 1))
                               /\ (0 <= balance E s (i_caller i) (nft_key (P ++ argn i 0) (bigU64 (argn i 1))))%Z)
    /\ NonNeg E s
    /\ is_pause_fn f /\ a = SYS /\ x = argn i 0
    /\ balance E s a (P ++ x) = 6%Z /\ balance E s' a (P ++ x) = 0%Z.
Proof.
  assert (Hrun : okI (exec cE C.BuiltInFunctionESDTPause in_pause) cS
                   (fun _ s' => (bal s' SYS (P ++ tokA) =? 0)%Z) = true) by (vm_compute; reflexivity).
  destruct (okI_I _ _ _ Hrun) as (o & s' & H & Hb).
  exists cE, C.BuiltInFunctionESDTPause, in_pause, cS, o, s', SYS, tokA.
  split; [exact cE_ok|]. split; [exact H|]. split; [unfold other_funs; cbn [In]; tauto|].
  split; [intros [Hx|Hx]; vm_compute in Hx; discriminate|]. split; [exact cS_nonneg|].
  split; [left; reflexivity|]. split; [reflexivity|]. split; [reflexivity|].
  split; [vm_compute; reflexivity|]. apply Z.eqb_eq. exact Hb.
Qed.
(* the theorem itself is not vacuous: the same call leaves every other cell alone, e.g. alice's and carol's *)
Example inst_other_pause : exists o s', exec cE C.BuiltInFunctionESDTPause in_pause cS = (Ok o, s')
  /\ balance cE s' alice (P ++ tokA) = balance cE cS alice (P ++ tokA)
  /\ balance cE s' carol (P ++ tokA) = balance cE cS carol (P ++ tokA).
Proof.
  assert (Hrun : okI (exec cE C.BuiltInFunctionESDTPause in_pause) cS (fun _ _ => true) = true) by (vm_compute; reflexivity).
  destruct (okI_I _ _ _ Hrun) as (o & s' & H & _). exists o, s'. split; [exact H|].
  assert (Hin : In C.BuiltInFunctionESDTPause other_funs) by (unfold other_funs; cbn [In]; tauto).
  split; (apply (other_functions_preserve_balances cE cE_ok _ _ _ _ _ H Hin);
    [intros [Hx|Hx]; vm_compute in Hx; discriminate|intros _ [Hx _]; vm_compute in Hx; discriminate]).
Qed.
(* freeze and update-attributes (an entry-rewriting function) as further instances *)
Definition in_freeze := mkin SC alice [tokA] false true.
Definition in_upd := mkin alice alice [tokN; num 7; str "new"%string] true true.
Example inst_other_freeze_update :
  (exists o s', exec cE C.BuiltInFunctionESDTFreeze in_freeze cS = (Ok o, s')
     /\ frozen_at cE s' alice (P ++ tokA) = true
     /\ forall a x, balance cE s' a (P ++ x) = balance cE cS a (P ++ x))
  /\ (exists o s', exec cE C.BuiltInFunctionESDTNFTUpdateAttributes in_upd cS = (Ok o, s')
     /\ forall a x, balance cE s' a (P ++ x) = balance cE cS a (P ++ x)).
Proof.
  split.
  - assert (Hrun : okI (exec cE C.BuiltInFunctionESDTFreeze in_freeze) cS
                     (fun _ s' => frozen_at cE s' alice (P ++ tokA)) = true) by (vm_compute; reflexivity).
    destruct (okI_I _ _ _ Hrun) as (o & s' & H & Hf). exists o, s'. split; [exact H|]. split; [exact Hf|].
    intros a x. apply (other_functions_preserve_balances cE cE_ok _ _ _ _ _ H).
    + unfold other_funs; cbn [In]; tauto.
    + intros [Hx|Hx]; vm_compute in Hx; discriminate.
    + intros [Hx|Hx]; vm_compute in Hx; discriminate.
  - assert (Hrun : okI (exec cE C.BuiltInFunctionESDTNFTUpdateAttributes in_upd) cS (fun _ _ => true) = true)
      by (vm_compute; reflexivity).
    destruct (okI_I _ _ _ Hrun) as (o & s' & H & _). exists o, s'. split; [exact H|].
    intros a x. apply (other_functions_preserve_balances cE cE_ok _ _ _ _ _ H).
    + unfold other_funs; cbn [In]; tauto.
    + intros _. split; [exact cS_consistent_7|]. apply (NonNeg_balance_nft cE cS alice tokN). exact cS_nonneg.
    + intros [Hx|Hx]; vm_compute in Hx; discriminate.
Qed.

(* ================================================================ *)
(* 3. overdraft on the transfers (boundary: holding and holding + 1)  *)
(* ================================================================ *)
Definition in_xfer_out (n : N) := mkin alice bob [tokA; num n] true false.
Example ex_transfer_out_exact : okI (exec cE C.BuiltInFunctionESDTTransfer (in_xfer_out 5)) cS
  (fun _ s' => (bal s' alice (P ++ tokA) =? 0)%Z) = true.
Proof. vm_compute. reflexivity. Qed.
Example ex_transfer_overdraft : fst (exec cE C.BuiltInFunctionESDTTransfer (in_xfer_out 6) cS) = Err EInsufficientFunds.
Proof. vm_compute. reflexivity. Qed.
Example inst_overdraft_transfer : overdrawn cE C.BuiltInFunctionESDTTransfer (in_xfer_out 6) cS.
Proof. right. right. right. left. split; [reflexivity|]. split; [reflexivity|]. vm_compute. reflexivity. Qed.
Definition in_nxfer (q : N) := mkin alice alice [tokN; num 7; num q; bob] true true.
Example ex_nft_transfer_exact : okI (exec cE C.BuiltInFunctionESDTNFTTransfer (in_nxfer 3)) cS
  (fun _ s' => (bal s' alice (nft_key (P ++ tokN) 7) =? 0)%Z) = true.
Proof. vm_compute. reflexivity. Qed.
Example ex_nft_transfer_overdraft : fst (exec cE C.BuiltInFunctionESDTNFTTransfer (in_nxfer 4) cS) = Err EInvalidNFTQuantity.
Proof. vm_compute. reflexivity. Qed.
(* multi-transfer: the same cell listed twice, 2 + 2 > 3 *)
Definition in_mxfer (q1 q2 : N) := mkin alice alice [bob; num 2; tokN; num 7; num q1; tokN; num 7; num q2] true true.
Example ex_multi_transfer_exact : okI (exec cE C.BuiltInFunctionMultiESDTNFTTransfer (in_mxfer 2 1)) cS
  (fun _ s' => (bal s' alice (nft_key (P ++ tokN) 7) =? 0)%Z) = true.
Proof. vm_compute. reflexivity. Qed.
Example ex_multi_transfer_overdraft : fst (exec cE C.BuiltInFunctionMultiESDTNFTTransfer (in_mxfer 2 2) cS) = Err EInvalidNFTQuantity.
Proof. vm_compute. reflexivity. Qed.
Example inst_overdraft_multi : overdrawn cE C.BuiltInFunctionMultiESDTNFTTransfer (in_mxfer 2 2) cS.
Proof.
  right. right. right. right. right. split; [reflexivity|]. split; [reflexivity|].
  split.
  { unfold triples_consistent. change (multi_snd_triples (in_mxfer 2 2)) with [(tokN, num 7, num 2); (tokN, num 7, num 2)].
    repeat constructor; exact cS_consistent_7. }
  split; [intros Hs; vm_compute in Hs; discriminate|].
  exists (tokN, num 7, num 2). split; [left; reflexivity|]. vm_compute. reflexivity.
Qed.

(* ================================================================ *)
(* 4. the invariants: per call and over a history                     *)
(* ================================================================ *)
Example inst_nonneg_exec : exists o s', exec cE C.BuiltInFunctionESDTLocalBurn (in_lburn 5) cS = (Ok o, s')
  /\ NonNeg cE s' /\ StoredPositive cE s'.
Proof.
  destruct (okI_I _ _ _ ex_local_burn_exact) as (o & s' & H & _). exists o, s'. split; [exact H|]. split.
  - exact (NonNeg_exec cE _ _ _ _ _ cE_ok cE_flag_nonneg cS_nonneg H).
  - exact (StoredPositive_exec cE _ _ _ _ _ cE_ok cE_flag_positive cS_positive H).
Qed.

(* adversarial input: a delivered ESDTNFTTransfer whose payload carries the value -5 (the sender side never emits
   that: it sends the positive quantity).  The call succeeds; alice's 3 units plus -5 is <= 0, so the entry is
   DELETED -- nothing negative is stored (the invariant is proved for every input, this one included) *)
Definition in_forged := mkin bob alice [tokN; num 7; num 1; enc_token (ntok (-5) 7)] false true.
Example ex_forged_negative_payload : okI (exec cE C.BuiltInFunctionESDTNFTTransfer in_forged) cS
  (fun _ s' => beqb (cell s' alice (nft_key (P ++ tokN) 7)) [] && (bal s' alice (nft_key (P ++ tokN) 7) =? 0)%Z) = true.
Proof. vm_compute. reflexivity. Qed.
Example inst_forged_negative_payload : exists o s', exec cE C.BuiltInFunctionESDTNFTTransfer in_forged cS = (Ok o, s')
  /\ NonNeg cE s' /\ balance cE s' alice (nft_key (P ++ tokN) 7) = 0%Z.
Proof.
  destruct (okI_I _ _ _ ex_forged_negative_payload) as (o & s' & H & Hb). exists o, s'. split; [exact H|]. split.
  - exact (NonNeg_exec cE _ _ _ _ _ cE_ok cE_flag_nonneg cS_nonneg H).
  - apply andb_prop in Hb as [_ Hb]. apply Z.eqb_eq. exact Hb.
Qed.

(* a two-shard world with the ideal codec; history from the empty world: the system contract grants alice the mint
   role, alice mints 10, sends 4 to bob on shard 1 (message 0), tries to send 7 more (overdraft: rolled back), the
   message is delivered, then delivered AGAIN (re-delivery, F9-style) *)
Definition cW : wcfg :=
  {| wc_cdc := ideal_codec; wc_shard_of := shard_of cE; wc_payable := payable cE; wc_dns := []; wc_enable := false;
     wc_gas := gas cE; wc_nshards := 2 |}.
Definition cOps : list wop :=
  [OCall 0 C.BuiltInFunctionSetESDTRole (mkin SC alice [tokA; C.ESDTRoleLocalMint] false true);
   OCall 0 C.BuiltInFunctionESDTLocalMint (mkin alice alice [tokA; num 10] true true);
   OCall 0 C.BuiltInFunctionESDTTransfer (mkin alice bob [tokA; num 4] true false);
   OCall 0 C.BuiltInFunctionESDTTransfer (mkin alice bob [tokA; num 7] true false);
   ORedeliver 0 1000;
   ODeliver 0 1000].
Definition wbal (w : world) (sh : N) (a k : bytes) : Z := balance (env_at cW sh) (mk_state (shard_accts w sh)) a k.
Example ex_history :
  let w := wrun cW (empty_world 2) cOps in
  (wbal w 0 alice (P ++ tokA) =? 6)%Z && (wbal w 1 bob (P ++ tokA) =? 8)%Z && Nat.eqb (length (inflight w)) 0 = true.
Proof. vm_compute. reflexivity. Qed.
Example inst_history : WNonNeg cW (wrun cW (empty_world 2) cOps) /\ WStoredPositive cW (wrun cW (empty_world 2) cOps).
Proof.
  split.
  - apply balances_nonneg_histories; [exact ideal_codec_ok|exact flag_nonneg_ideal|]. apply (WTokInv_empty_world cW nonneg_tok).
  - apply stored_positive_histories; [exact ideal_codec_ok|exact flag_positive_ideal|]. apply (WTokInv_empty_world cW positive_tok).
Qed.

Print Assumptions other_functions_preserve_balances_refuted.
Print Assumptions inst_history.
