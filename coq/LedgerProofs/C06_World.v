(* C06 at world level: no gas is created by a step of the node model (Ledger/World.v), nor along histories.

   In the world model an in-flight message CARRIES a gas limit ([m_gasLimit]): [msg_of_transfer] copies the output
   transfer's [tr_gasLimit]; the one message that is not made from an output transfer - a user transaction addressed
   to another shard that TRAVELS there itself ([collect], second branch: ESDTTransfer, ChangeOwnerAddress,
   ClaimDeveloperRewards by a user) - carries the transaction's own gas limit [i_gas].  [ODeliver id gas] /
   [ORefund id gas] execute with the gas the OPERATION gives, so "delivered with the message's limit" is a hypothesis
   on histories ([honest_gas_op]: gas <= m_gasLimit).

     msgs_gas l                        sum of the gas limits of a list of messages
     collect_accounts_gas              messages made from output transfers carry at most sum_gasLimit o
     collect_gas_le_provided           whatever a successful call emits carries at most the gas it was given
     collect_gas_with_remaining        ... and, unless the transaction travels, GasRemaining + that <= gas given
     wstep_no_gas_created              the step form, for all four kinds of operation (deliveries / refunds never travel)
     wstep_no_gas_created_naive_refuted   for a travelling transaction "GasRemaining + limits <= gas" is FALSE in the
                                       model: the origin shard reports gas - cost as remaining AND the whole limit travels
     wstep_gas_ledger / wrun_gas_ledger   limits in flight + gas returned <= limits in flight before + gas injected
                                       by the successful origin calls (returned: GasRemaining of every successful
                                       execution, not counted for a travelling origin call)
     chain_no_gas_created              one origin call from a world with nothing in flight, then only deliveries and
                                       refunds with at most the messages' limits: all remainders returned along the
                                       chain + all still-undelivered limits <= the gas of the origin call *)
From Coq.Strings Require Import String.
From Coq Require Import Lia List.
From EV Require Import Base.Bytes Base.Store Base.Monad gen.Consts Codec.Types Codec.Ideal Codec.CodecOk Helpers.Helpers
  Ledger.Types Ledger.Env Ledger.Funcs Ledger.Transfers Ledger.World
  LedgerProofs.Defs LedgerProofs.EnvSpec LedgerProofs.WorldDefs LedgerProofs.WorldSpec LedgerProofs.GasSpec
  LedgerProofs.C07_World LedgerProofs.C01_Examples.
Import ListNotations.

Local Open Scope N_scope.

Definition msgs_gas (l : list msg) : N := fold_right (fun m acc => m_gasLimit m + acc) 0 l.
Definition transfers_gas (ts : list transfer) : N := fold_right (fun t a => tr_gasLimit t + a) 0 ts.
Definition accounts_gas (oas : list outacct) : N := fold_right (fun oa acc => transfers_gas (oc_transfers oa) + acc) 0 oas.

Lemma msgs_gas_app l l' : msgs_gas (l ++ l') = msgs_gas l + msgs_gas l'.
Proof. induction l as [|m r IH]; cbn [app msgs_gas fold_right]; [reflexivity|]. fold (msgs_gas (r ++ l')). fold (msgs_gas r). lia. Qed.
Lemma transfers_gas_acc ts acc : fold_right (fun t a => tr_gasLimit t + a) acc ts = transfers_gas ts + acc.
Proof. induction ts as [|t r IH]; cbn [fold_right transfers_gas]; [reflexivity|]. fold (transfers_gas r). rewrite IH. lia. Qed.
Lemma sum_gasLimit_accounts o : sum_gasLimit o = accounts_gas (o_accounts o).
Proof.
  unfold sum_gasLimit, accounts_gas. induction (o_accounts o) as [|oa r IH]; cbn [fold_right]; [reflexivity|].
  rewrite transfers_gas_acc, IH. reflexivity.
Qed.
Lemma msgs_gas_drop l id m : find_msg l id = Some m -> msgs_gas (drop_msg l id) + m_gasLimit m = msgs_gas l.
Proof.
  induction l as [|x r IH]; cbn [find_msg drop_msg]; [discriminate|]. destruct (Nat.eqb (m_id x) id).
  - intros [= ->]. cbn [msgs_gas fold_right]. fold (msgs_gas r). lia.
  - intros H. specialize (IH H). cbn [msgs_gas fold_right]. fold (msgs_gas r). fold (msgs_gas (drop_msg r id)). lia.
Qed.

Section World.
  Variable c : wcfg.
  Notation shof := (wc_shard_of c).

  (* ---- emission copies the gas limit ---- *)
  Lemma msg_of_transfer_gas sh i id dest t m : msg_of_transfer c sh i id dest t = Some m -> m_gasLimit m = tr_gasLimit t.
  Proof.
    unfold msg_of_transfer. destruct (tr_data t) as [|b d]; [discriminate|].
    destruct (Parsers.CallArgs.parse_call_data (b :: d)) as [[fn args]|]; [|discriminate].
    destruct (negb (is_builtin fn)); [discriminate|].
    destruct ((shof dest =? sh) && negb (beqb fn C.BuiltInFunctionESDTNFTCreateRoleTransfer))%bool; [discriminate|].
    destruct (beqb fn C.BuiltInFunctionESDTNFTCreateRoleTransfer && (shof dest =? sh))%bool; [discriminate|].
    intros [= <-]. reflexivity.
  Qed.
  Lemma collect_transfers_gas sh i dest ts : forall id, msgs_gas (collect_transfers c sh i id dest ts) <= transfers_gas ts.
  Proof.
    induction ts as [|t r IH]; intros id; cbn [collect_transfers transfers_gas fold_right]; [cbn; lia|].
    fold (transfers_gas r). destruct (msg_of_transfer c sh i id dest t) as [m|] eqn:Em.
    - cbn [msgs_gas fold_right]. fold (msgs_gas (collect_transfers c sh i (S id) dest r)).
      rewrite (msg_of_transfer_gas _ _ _ _ _ _ Em). specialize (IH (S id)). lia.
    - specialize (IH id). lia.
  Qed.
  Lemma collect_accounts_gas sh i oas : forall id, msgs_gas (collect_accounts c sh i id oas) <= accounts_gas oas.
  Proof.
    induction oas as [|oa r IH]; intros id; cbn [collect_accounts accounts_gas fold_right]; [cbn; lia|].
    fold (accounts_gas r). rewrite msgs_gas_app.
    pose proof (collect_transfers_gas sh i (oc_addr oa) (oc_transfers oa) id) as H1.
    specialize (IH (id + length (collect_transfers c sh i id (oc_addr oa) (oc_transfers oa)))%nat). lia.
  Qed.

  (* the user transaction travels to the shard of its recipient: nothing was made from output transfers, the recipient
     lives on another shard (not the metachain), the caller on this one, and the function is one of the three *)
  Definition travels_tx (sh : N) (fn : bytes) (i : input) (id : nat) (o : output) : bool :=
    match collect_accounts c sh i id (o_accounts o) with
    | [] => (negb (shof (i_rcpt i) =? sh) && negb (shof (i_rcpt i) =? META) && (shof (i_caller i) =? sh))%N%bool && travels fn
    | _ => false
    end.
  Definition travelling_msg (sh : N) (fn : bytes) (i : input) (id : nat) : msg :=
    {| m_id := id; m_fn := fn; m_caller := i_caller i; m_dest := i_rcpt i; m_args := i_args i;
       m_callType := i_callType i; m_gasLimit := i_gas i; m_locked := i_gasLocked i; m_origin := sh; m_sender := i_caller i |}.
  Lemma collect_cases sh fn i id o :
    collect c sh fn i id o =
    if travels_tx sh fn i id o then [travelling_msg sh fn i id] else collect_accounts c sh i id (o_accounts o).
  Proof.
    unfold collect, travels_tx. destruct (collect_accounts c sh i id (o_accounts o)) as [|m r]; [|reflexivity].
    destruct ((negb (shof (i_rcpt i) =? sh) && negb (shof (i_rcpt i) =? META) && (shof (i_caller i) =? sh))%N%bool && travels fn);
      reflexivity.
  Qed.
  (* an input whose recipient lives on the executing shard never travels: deliveries and refunds *)
  Lemma local_rcpt_not_travelling sh fn i id o : shof (i_rcpt i) = sh -> travels_tx sh fn i id o = false.
  Proof.
    intros H. unfold travels_tx. destruct (collect_accounts c sh i id (o_accounts o)); [|reflexivity].
    rewrite H, N.eqb_refl. reflexivity.
  Qed.

  (* ---- one successful call and what the node makes of its output ---- *)
  Theorem collect_gas_le_provided sh fn i id s o s' :
    exec (env_at c sh) fn i s = (Ok o, s') -> i_gas i < two64 ->
    msgs_gas (collect c sh fn i id o) <= i_gas i.
  Proof.
    intros Ex Hg. rewrite collect_cases. destruct (travels_tx sh fn i id o).
    - cbn. lia.
    - pose proof (gas_not_created (env_at c sh) fn i s o s' Ex Hg) as H. rewrite sum_gasLimit_accounts in H.
      pose proof (collect_accounts_gas sh i (o_accounts o) id). lia.
  Qed.
  Theorem collect_gas_with_remaining sh fn i id s o s' :
    exec (env_at c sh) fn i s = (Ok o, s') -> i_gas i < two64 -> travels_tx sh fn i id o = false ->
    o_gasRemaining o + msgs_gas (collect c sh fn i id o) <= i_gas i.
  Proof.
    intros Ex Hg Ht. rewrite collect_cases, Ht.
    pose proof (gas_not_created (env_at c sh) fn i s o s' Ex Hg) as H. rewrite sum_gasLimit_accounts in H.
    pose proof (collect_accounts_gas sh i (o_accounts o) id). lia.
  Qed.

  (* is the step the origin-side execution of a travelling transaction? *)
  Definition op_travels (w : world) (op : wop) (o : output) : bool :=
    match op with
    | OCall sh fn i => travels_tx sh fn i (next_id w) o
    | _ => false
    end.
  Lemma op_exec_not_call_local w op sh fn i : op_exec c w op = Some (sh, fn, i) ->
    (forall sh0 fn0 i0, op <> OCall sh0 fn0 i0) -> shof (i_rcpt i) = sh.
  Proof.
    destruct op as [sh0 fn0 i0|id gas|id gas|id gas]; cbn [op_exec]; intros H Hn.
    - exfalso. eapply Hn. reflexivity.
    - destruct (find_msg (inflight w) id) as [m|]; [|discriminate]. cbv zeta in H.
      destruct (shof (m_dest m) <? wc_nshards c); [|discriminate]. inversion H; subst. reflexivity.
    - destruct (find_msg (inflight w) id) as [m|]; [|discriminate]. cbv zeta in H.
      destruct (shof (m_dest m) <? wc_nshards c); [|discriminate]. inversion H; subst. reflexivity.
    - destruct (find_msg (inflight w) id) as [m|]; [|discriminate]. cbv zeta in H.
      destruct (nat_in id (failed w) && (shof (m_sender m) <? wc_nshards c))%bool; [|discriminate]. inversion H; subst. reflexivity.
  Qed.
  Lemma emitted_cases w op sh fn i o : op_exec c w op = Some (sh, fn, i) ->
    emitted c op sh fn i (next_id w) o =
    match op with
    | ORefund _ _ => []
    | _ => if op_travels w op o then [travelling_msg sh fn i (next_id w)] else collect_accounts c sh i (next_id w) (o_accounts o)
    end.
  Proof.
    intros Hop. destruct op as [sh0 fn0 i0|id gas|id gas|id gas]; cbn [emitted op_travels]; try reflexivity.
    - cbn [op_exec] in Hop. destruct (sh0 <? wc_nshards c); [|discriminate]. inversion Hop; subst. apply collect_cases.
    - rewrite collect_cases, local_rcpt_not_travelling; [reflexivity|].
      eapply op_exec_not_call_local; [exact Hop|discriminate].
    - rewrite collect_cases, local_rcpt_not_travelling; [reflexivity|].
      eapply op_exec_not_call_local; [exact Hop|discriminate].
  Qed.

  (* ---- B1: one step ---- *)
  (* the call (sh, fn, i) the step executes succeeds with output o and was given i_gas i < 2^64 (for OCall: the gas of the
     input; for ODeliver / ORedeliver / ORefund: the gas given to the operation): the messages the step appends to
     [inflight] carry at most that gas; and, unless the step is the origin side of a travelling transaction,
     GasRemaining + those limits <= that gas *)
  Theorem wstep_no_gas_created w op sh fn i o s' :
    op_exec c w op = Some (sh, fn, i) -> exec (env_at c sh) fn i (wst w sh) = (Ok o, s') -> i_gas i < two64 ->
    let ms := emitted c op sh fn i (next_id w) o in
    inflight (wstep c w op) = kept w op ++ ms
    /\ msgs_gas ms <= i_gas i
    /\ (op_travels w op o = false -> o_gasRemaining o + msgs_gas ms <= i_gas i)
    /\ (op_travels w op o = true ->
          ms = [travelling_msg sh fn i (next_id w)] /\ exists sh0 fn0 i0, op = OCall sh0 fn0 i0).
  Proof.
    intros Hop Ex Hg ms.
    pose proof (wstep_shape c w op) as Hs. rewrite Hop in Hs. destruct Hs as [_ Hs]. rewrite Ex in Hs. destruct Hs as [_ Hi].
    split; [exact Hi|].
    pose proof (gas_not_created (env_at c sh) fn i _ o s' Ex Hg) as Hgas. rewrite sum_gasLimit_accounts in Hgas.
    pose proof (collect_accounts_gas sh i (o_accounts o) (next_id w)) as Hca.
    unfold ms. rewrite (emitted_cases w op sh fn i o Hop).
    destruct op as [sh0 fn0 i0|id gas|id gas|id gas]; cbn [op_travels].
    - destruct (travels_tx sh0 fn0 i0 (next_id w) o) eqn:Et.
      + split; [cbn; lia|]. split; [discriminate|]. intros _. split; [reflexivity|eauto].
      + split; [lia|]. split; [intros _; lia|discriminate].
    - split; [lia|]. split; [intros _; lia|discriminate].
    - split; [lia|]. split; [intros _; lia|discriminate].
    - split; [cbn; lia|]. split; [intros _; cbn; lia|discriminate].
  Qed.
  (* deliveries, re-deliveries and refunds: the unconditional form *)
  Corollary wstep_no_gas_created_delivery w op sh fn i o s' :
    (forall sh0 fn0 i0, op <> OCall sh0 fn0 i0) ->
    op_exec c w op = Some (sh, fn, i) -> exec (env_at c sh) fn i (wst w sh) = (Ok o, s') -> i_gas i < two64 ->
    inflight (wstep c w op) = kept w op ++ emitted c op sh fn i (next_id w) o
    /\ o_gasRemaining o + msgs_gas (emitted c op sh fn i (next_id w) o) <= i_gas i.
  Proof.
    intros Hn Hop Ex Hg. destruct (wstep_no_gas_created w op sh fn i o s' Hop Ex Hg) as (H1 & _ & H3 & _).
    split; [exact H1|]. apply H3. destruct op as [sh0 fn0 i0|? ?|? ?|? ?]; try reflexivity. exfalso. eapply Hn. reflexivity.
  Qed.

  (* ---- B2: histories ---- *)
  (* the output of the step's call, if it executed successfully *)
  Definition step_out (w : world) (op : wop) : option (input * output) :=
    match step_log c w op with Some x => Some (x_in x, x_out x) | None => None end.
  (* gas injected: the gas of a successful origin call *)
  Definition gas_in (w : world) (op : wop) : N :=
    match op, step_out w op with
    | OCall _ _ _, Some (i, _) => i_gas i
    | _, _ => 0
    end.
  (* gas returned: GasRemaining of a successful execution (a travelling origin call returns nothing: its whole limit travels) *)
  Definition gas_out (w : world) (op : wop) : N :=
    match step_out w op with
    | Some (_, o) => if op_travels w op o then 0 else o_gasRemaining o
    | None => 0
    end.
  Fixpoint gas_in_sum (w : world) (ops : list wop) : N :=
    match ops with [] => 0 | op :: r => gas_in w op + gas_in_sum (wstep c w op) r end.
  Fixpoint gas_out_sum (w : world) (ops : list wop) : N :=
    match ops with [] => 0 | op :: r => gas_out w op + gas_out_sum (wstep c w op) r end.
  (* the hypothesis on histories: 64-bit gas; a delivery or refund is given at most its message's limit; no message is
     executed twice (re-delivery: F9 / C07) *)
  Definition honest_gas_op (w : world) (op : wop) : Prop :=
    match op with
    | OCall _ _ i => i_gas i < two64
    | ODeliver id gas | ORefund id gas =>
      gas < two64 /\ forall m, find_msg (inflight w) id = Some m -> gas <= m_gasLimit m
    | ORedeliver _ _ => False
    end.
  Fixpoint honest_gas (w : world) (ops : list wop) : Prop :=
    match ops with [] => True | op :: r => honest_gas_op w op /\ honest_gas (wstep c w op) r end.
  Definition honest_gas_op_b (w : world) (op : wop) : bool :=
    match op with
    | OCall _ _ i => i_gas i <? two64
    | ODeliver id gas | ORefund id gas =>
      (gas <? two64) && match find_msg (inflight w) id with Some m => gas <=? m_gasLimit m | None => true end
    | ORedeliver _ _ => false
    end.
  Fixpoint honest_gas_b (w : world) (ops : list wop) : bool :=
    match ops with [] => true | op :: r => honest_gas_op_b w op && honest_gas_b (wstep c w op) r end.
  Lemma honest_gas_op_b_ok w op : honest_gas_op_b w op = true -> honest_gas_op w op.
  Proof.
    destruct op as [sh fn i|id gas|id gas|id gas]; cbn [honest_gas_op_b honest_gas_op]; intros H.
    - apply N.ltb_lt. exact H.
    - apply andb_prop in H as [H1 H2]. split; [apply N.ltb_lt; exact H1|]. intros m Hm. rewrite Hm in H2. apply N.leb_le. exact H2.
    - discriminate.
    - apply andb_prop in H as [H1 H2]. split; [apply N.ltb_lt; exact H1|]. intros m Hm. rewrite Hm in H2. apply N.leb_le. exact H2.
  Qed.
  Lemma honest_gas_b_ok ops : forall w, honest_gas_b w ops = true -> honest_gas w ops.
  Proof.
    induction ops as [|op r IH]; intros w H; [exact I|]. cbn [honest_gas_b] in H. apply andb_prop in H as [H1 H2].
    split; [apply honest_gas_op_b_ok; exact H1|apply IH; exact H2].
  Qed.

  Lemma step_out_some w op i o : step_out w op = Some (i, o) ->
    exists sh fn s', op_exec c w op = Some (sh, fn, i) /\ exec (env_at c sh) fn i (wst w sh) = (Ok o, s').
  Proof.
    unfold step_out, step_log. destruct (op_exec c w op) as [[[sh fn] i0]|]; [|discriminate].
    destruct (exec (env_at c sh) fn i0 (wst w sh)) as [[o0|e|] s'] eqn:Ex; try discriminate.
    cbn [x_in x_out]. intros [= <- <-]. eauto.
  Qed.
  Lemma step_out_none w op : step_out w op = None -> inflight (wstep c w op) = inflight w.
  Proof.
    unfold step_out, step_log. pose proof (wstep_shape c w op) as Hs.
    destruct (op_exec c w op) as [[[sh fn] i0]|]; [|intros _; apply Hs].
    destruct Hs as [_ Hs]. destruct (exec (env_at c sh) fn i0 (wst w sh)) as [[o0|e|] s']; [discriminate| |]; intros _; apply Hs.
  Qed.

  (* one step: limits in flight after + gas returned <= limits in flight before + gas injected *)
  Theorem wstep_gas_ledger w op : honest_gas_op w op ->
    msgs_gas (inflight (wstep c w op)) + gas_out w op <= msgs_gas (inflight w) + gas_in w op.
  Proof.
    intros Hh. unfold gas_out, gas_in. destruct (step_out w op) as [[i o]|] eqn:Eso.
    - destruct (step_out_some _ _ _ _ Eso) as (sh & fn & s' & Hop & Ex).
      destruct op as [sh0 fn0 i0|id gas|id gas|id gas]; cbn [honest_gas_op] in Hh.
      + assert (i = i0) by (cbn [op_exec] in Hop; destruct (sh0 <? wc_nshards c); [inversion Hop; reflexivity|discriminate]).
        subst i0. destruct (wstep_no_gas_created _ _ _ _ _ _ _ Hop Ex Hh) as (Hi & H2 & H3 & _).
        rewrite Hi, msgs_gas_app. cbn [kept].
        rewrite Eso. destruct (op_travels w (OCall sh0 fn0 i) o); [lia|]. specialize (H3 eq_refl). lia.
      + cbn [op_exec] in Hop. destruct (find_msg (inflight w) id) as [m|] eqn:Ef; [|discriminate]. cbv zeta in Hop.
        destruct (shof (m_dest m) <? wc_nshards c) eqn:Esh; [|discriminate]. inversion Hop; subst sh fn i. clear Hop.
        destruct Hh as [Hg Hle]. specialize (Hle m eq_refl).
        assert (Hop : op_exec c w (ODeliver id gas) = Some (shof (m_dest m), m_fn m, deliver_input c m (shof (m_dest m)) gas))
          by (cbn [op_exec]; rewrite Ef; cbv zeta; rewrite Esh; reflexivity).
        destruct (wstep_no_gas_created_delivery w (ODeliver id gas) _ _ _ _ _ ltac:(intros; discriminate) Hop Ex Hg) as (Hi & H3).
        rewrite Hi, msgs_gas_app. cbn [kept op_travels]. pose proof (msgs_gas_drop _ _ _ Ef).
        cbn [deliver_input i_gas] in H3. lia.
      + destruct Hh.
      + cbn [op_exec] in Hop. destruct (find_msg (inflight w) id) as [m|] eqn:Ef; [|discriminate]. cbv zeta in Hop.
        destruct (nat_in id (failed w) && (shof (m_sender m) <? wc_nshards c))%bool eqn:Esh; [|discriminate].
        inversion Hop; subst sh fn i. clear Hop.
        destruct Hh as [Hg Hle]. specialize (Hle m eq_refl).
        assert (Hop : op_exec c w (ORefund id gas) = Some (shof (m_sender m), m_fn m, refund_input c m (shof (m_sender m)) gas))
          by (cbn [op_exec]; rewrite Ef; cbv zeta; rewrite Esh; reflexivity).
        destruct (wstep_no_gas_created_delivery w (ORefund id gas) _ _ _ _ _ ltac:(intros; discriminate) Hop Ex Hg) as (Hi & H3).
        rewrite Hi, msgs_gas_app. cbn [kept op_travels]. pose proof (msgs_gas_drop _ _ _ Ef).
        cbn [refund_input i_gas] in H3. lia.
    - rewrite (step_out_none _ _ Eso). destruct op; lia.
  Qed.
  Theorem wrun_gas_ledger ops : forall w, honest_gas w ops ->
    msgs_gas (inflight (wrun c w ops)) + gas_out_sum w ops <= msgs_gas (inflight w) + gas_in_sum w ops.
  Proof.
    induction ops as [|op r IH]; intros w H; [cbn; lia|]. destruct H as [H1 H2].
    rewrite wrun_cons. cbn [gas_out_sum gas_in_sum]. specialize (IH _ H2). pose proof (wstep_gas_ledger w op H1). lia.
  Qed.

  (* a chain: one origin call, then only deliveries and refunds *)
  Definition not_call (op : wop) : Prop := match op with OCall _ _ _ => False | _ => True end.
  Lemma gas_in_sum_no_calls ops : forall w, Forall not_call ops -> gas_in_sum w ops = 0.
  Proof.
    induction ops as [|op r IH]; intros w H; [reflexivity|]. inversion H; subst. cbn [gas_in_sum]. rewrite IH by assumption.
    destruct op; [contradiction| | |]; reflexivity.
  Qed.
  Theorem chain_no_gas_created w sh fn i rest :
    inflight w = [] -> honest_gas w (OCall sh fn i :: rest) -> Forall not_call rest ->
    msgs_gas (inflight (wrun c w (OCall sh fn i :: rest))) + gas_out_sum w (OCall sh fn i :: rest) <= i_gas i.
  Proof.
    intros He Hh Hn. pose proof (wrun_gas_ledger _ w Hh) as H. rewrite He in H. cbn [msgs_gas fold_right gas_in_sum] in H.
    rewrite (gas_in_sum_no_calls rest _ Hn) in H.
    assert (gas_in w (OCall sh fn i) <= i_gas i).
    { unfold gas_in. destruct (step_out w (OCall sh fn i)) as [[i0 o]|] eqn:Eso; [|lia].
      destruct (step_out_some _ _ _ _ Eso) as (sh1 & fn1 & s' & Hop & _). cbn [op_exec] in Hop.
      destruct (sh <? wc_nshards c); [inversion Hop; subst; lia|discriminate]. }
    lia.
  Qed.
End World.

Print Assumptions collect_gas_le_provided.
Print Assumptions collect_gas_with_remaining.
Print Assumptions wstep_no_gas_created.
Print Assumptions wstep_no_gas_created_delivery.
Print Assumptions wstep_gas_ledger.
Print Assumptions wrun_gas_ledger.
Print Assumptions chain_no_gas_created.

(* ================================================================================================ *)
(* non-vacuity: the two-shard world w0 of C01_Examples.v (alice on shard 0 holds 3 of NFT#1 and 5 TOK) with a         *)
(* configuration in which kate is a smart-contract address on shard 1                                                *)
(* ================================================================================================ *)
Definition kate6 : bytes := repeat x00 8 ++ repeat x07 24.
Definition c6 : wcfg :=
  {| wc_cdc := ideal_codec;
     wc_shard_of := fun a => if (beqb a bob || beqb a dave || beqb a kate6)%bool then 1 else 0;
     wc_payable := fun _ => PayYes;
     wc_dns := []; wc_enable := false; wc_gas := wc_gas c0; wc_nshards := 2 |}.
Definition in6 (caller rcpt : bytes) (args : list bytes) (snd dst : bool) (g : N) : input :=
  {| i_caller := caller; i_rcpt := rcpt; i_args := args; i_value := 0; i_gas := g; i_gasLocked := 0;
     i_callType := C.DirectCall; i_rae := false; i_snd := snd; i_dst := dst |}.
(* alice sends 2 of NFT#1 to the contract kate on the other shard, with an attached call doIt(arg), gas 50000 *)
Definition op6_nft : wop := OCall 0 C.BuiltInFunctionESDTNFTTransfer
  (in6 alice alice [nftA; u64_bytes 1; u64_bytes 2; kate6; str "doIt"%string; str "arg"%string] true true 50000).
Definition h6_nft : list wop := [op6_nft; ODeliver 0 49440].
(* (GasRemaining, sum of the gas limits of the output transfers) of the call a step executes *)
Definition out6 (w : world) (op : wop) : option (N * N) :=
  match step_out c6 w op with Some (_, o) => Some (o_gasRemaining o, sum_gasLimit o) | None => None end.

Example ex6_chain :
  is_sc kate6 = true /\ wc_shard_of c6 kate6 = 1 /\ wc_shard_of c6 alice = 0
  /\ out6 w0 op6_nft = Some (0, 49440)                                     (* cost 10 + 55 payload bytes * 10 *)
  /\ map (fun m => (m_id m, m_fn m, m_dest m, m_gasLimit m)) (inflight (wstep c6 w0 op6_nft))
     = [(0%nat, C.BuiltInFunctionESDTNFTTransfer, kate6, 49440)]
  /\ out6 (wstep c6 w0 op6_nft) (ODeliver 0 49440) = Some (0, 49440)       (* all of it handed to the attached call *)
  /\ inflight (wrun c6 w0 h6_nft) = []
  /\ honest_gas_b c6 w0 h6_nft = true
  /\ gas_in_sum c6 w0 h6_nft = 50000 /\ gas_out_sum c6 w0 h6_nft = 0.
Proof. vm_compute. repeat split; reflexivity. Qed.
Example ex6_chain_theorem :
  msgs_gas (inflight (wrun c6 w0 h6_nft)) + gas_out_sum c6 w0 h6_nft <= 50000.
Proof.
  assert (H1 : honest_gas c6 w0 h6_nft) by (apply honest_gas_b_ok; vm_compute; reflexivity).
  assert (H2 : Forall not_call [ODeliver 0 49440]) by (repeat constructor).
  exact (chain_no_gas_created c6 w0 0 C.BuiltInFunctionESDTNFTTransfer
           (in6 alice alice [nftA; u64_bytes 1; u64_bytes 2; kate6; str "doIt"%string; str "arg"%string] true true 50000)
           [ODeliver 0 49440] eq_refl H1 H2).
Qed.
(* without an attached call the remainder stays at the origin and the message carries no gas *)
Definition op6_plain : wop := OCall 0 C.BuiltInFunctionESDTNFTTransfer
  (in6 alice alice [nftA; u64_bytes 1; u64_bytes 1; bob] true true 50000).
Example ex6_plain :
  out6 w0 op6_plain = Some (49440, 0)
  /\ map m_gasLimit (inflight (wstep c6 w0 op6_plain)) = [0]
  /\ honest_gas_b c6 w0 [op6_plain; ODeliver 0 0] = true
  /\ gas_in_sum c6 w0 [op6_plain; ODeliver 0 0] = 50000 /\ gas_out_sum c6 w0 [op6_plain; ODeliver 0 0] = 49440
  /\ inflight (wrun c6 w0 [op6_plain; ODeliver 0 0]) = []
  /\ honest_gas_b c6 w0 [op6_plain; ODeliver 0 1] = false.          (* more gas than the message carries: not honest *)
Proof. vm_compute. repeat split; reflexivity. Qed.

(* a travelling transaction: alice's ESDTTransfer to bob on the other shard.  The origin shard reports
   GasRemaining = 50000 - 10 AND the transaction travels with its whole limit 50000: the naive per-step inequality
   "GasRemaining + limits of the appended messages <= gas given" is false in the world model *)
Definition op6_travel : wop := OCall 0 C.BuiltInFunctionESDTTransfer (in6 alice bob [tokA; u64_bytes 2] true false 50000).
Theorem wstep_no_gas_created_naive_refuted :
  exists c w op sh fn i o s',
    op_exec c w op = Some (sh, fn, i) /\ exec (env_at c sh) fn i (wst w sh) = (Ok o, s') /\ i_gas i < two64
    /\ inflight (wstep c w op) = kept w op ++ emitted c op sh fn i (next_id w) o
    /\ op_travels c w op o = true
    /\ i_gas i < o_gasRemaining o + msgs_gas (emitted c op sh fn i (next_id w) o).
Proof.
  exists c6, w0, op6_travel, 0, C.BuiltInFunctionESDTTransfer, (in6 alice bob [tokA; u64_bytes 2] true false 50000).
  eexists. eexists. split; [reflexivity|]. split; [vm_compute; reflexivity|].
  split; [vm_compute; reflexivity|]. split; [vm_compute; reflexivity|]. split; vm_compute; reflexivity.
Qed.
Example ex6_travel :
  out6 w0 op6_travel = Some (49990, 0)
  /\ map m_gasLimit (inflight (wstep c6 w0 op6_travel)) = [50000]
  /\ honest_gas_b c6 w0 [op6_travel; ODeliver 0 50000] = true
  /\ gas_in_sum c6 w0 [op6_travel; ODeliver 0 50000] = 50000 /\ gas_out_sum c6 w0 [op6_travel; ODeliver 0 50000] = 0
  /\ inflight (wrun c6 w0 [op6_travel; ODeliver 0 50000]) = [].
Proof. vm_compute. repeat split; reflexivity. Qed.

Print Assumptions wstep_no_gas_created_naive_refuted.
Print Assumptions ex6_chain_theorem.
