(* C11 (totality), part 3: the three transfer functions, input classes, and the theorems about [exec]. *)
From Coq Require Import Lia.
From EV Require Import Base.Bytes Base.Store Base.Monad gen.Consts Codec.Types Helpers.Helpers
  Ledger.Types Ledger.Env Ledger.Funcs Ledger.Transfers LedgerProofs.Defs LedgerProofs.EnvSpec
  LedgerProofs.NoPanic LedgerProofs.NoPanicFuncs.

(* ---------------- input classes ---------------- *)
(* origin side: the caller's account lives on the executing shard *)
Definition origin_input (i : input) : Prop := i_snd i = true.

(* an NFT payload as the sender side emits it: if it decodes, the token has a value and metadata.  The
   destination side of ESDTNFTTransfer dereferences both (Value in addNFTToDestination, TokenMetaData.Nonce for
   the log entry); the destination side of MultiESDTNFTTransfer only the value ([payload_valued]). *)
Definition payload_good (E : env) (b : bytes) : Prop :=
  forall t, dec_tok (cdc E) b = Some t -> t_value t <> None /\ t_meta t <> None.
Definition payload_valued (E : env) (b : bytes) : Prop :=
  forall t, dec_tok (cdc E) b = Some t -> t_value t <> None.
Lemma payload_good_valued E b : payload_good E b -> payload_valued E b.
Proof. intros H t Ht. apply (H t Ht). Qed.
Definition nft_payload_ok (E : env) (A : list bytes) : Prop :=
  forall b, nth_error A (N.to_nat 3) = Some b -> payload_good E b.
Definition multi_payload_ok (E : env) (A : list bytes) : Prop :=
  forall a0 idx nb b, nth_error A 0 = Some a0 -> (idx < bigU64 a0)%N ->
    nth_error A (N.to_nat (1 + idx * 3 + 1)) = Some nb -> (0 < bigU64 nb)%N ->
    nth_error A (N.to_nat (1 + idx * 3 + 2)) = Some b -> payload_valued E b.
Definition args_payload_ok (E : env) (f : bytes) (A : list bytes) : Prop :=
  (f = C.BuiltInFunctionESDTNFTTransfer -> nft_payload_ok E A)
  /\ (f = C.BuiltInFunctionMultiESDTNFTTransfer -> multi_payload_ok E A).
Definition payload_ok (E : env) (f : bytes) (i : input) : Prop := args_payload_ok E f (i_args i).
(* destination side: a protocol-generated message (cross-shard hand-over, refund, system-contract call) *)
Definition delivered_input (E : env) (f : bytes) (i : input) : Prop :=
  i_snd i = false /\ i_dst i = true /\ i_caller i <> i_rcpt i /\ payload_ok E f i.

Section Transfers.
  Variable E : env.
  Hypothesis Hc : codec_ok (cdc E).
  Hypothesis Hflag : flag_ok (cdc E).
  Variable st : bool.
  Notation rcok := (fun o : output => o_rc o = C.Ok).
  Notation strict := (st = true).

  (* ---------------- ESDTTransfer: every input ---------------- *)
  Lemma safe_f_esdt_transfer i : safe E st (f_esdt_transfer E i) rcok.
  Proof. unfold f_esdt_transfer. safe_tac E Hc. all: rc_ok. Qed.

  (* ---------------- ESDTNFTTransfer ---------------- *)
  Lemma safe_f_nft_transfer_sender i : (strict -> i_snd i = true) -> (4 <= alen (i_args i))%N ->
    safe E st (f_nft_transfer_sender E i) rcok.
  Proof.
    intros Hsnd Hlen. unfold f_nft_transfer_sender. safe_tac0 E Hc.
    safe_ifT E; [safe_tac0 E Hc..|]. safe_tac0 E Hc.
    match goal with H : (0 < ?n)%N -> t_meta ?t <> None |- _ => assert (Hm : t_meta t <> None) by (apply H; lia) end.
    eapply (safe_bind E) with (Q := fun t2 : token => t_meta t2 <> None).
    { safe_tac0 E Hc; cbn [t_meta set_value]; try assumption.
      match goal with H : exists v, _ = set_value _ (Some v) |- _ => destruct H as (v & ->) end. exact Hm. }
    intros t2 Ht2. safe_tac0 E Hc.
    safe_ifT E; [safe_tac0 E Hc..|]. safe_ifT E; [safe_tac0 E Hc..|].
    eapply (safe_bind E) with (Q := rcok).
    { safe_tac E Hc. all: rc_ok. }
    intros o Ho. safe_tac0 E Hc. exact Ho.
  Qed.

  Lemma safe_f_nft_transfer i :
    (strict -> i_snd i = true \/ (i_caller i <> i_rcpt i /\ nft_payload_ok E (i_args i))) ->
    safe E st (f_nft_transfer E i) rcok.
  Proof.
    intros Hin. unfold f_nft_transfer. do 2 (safe_step0 E Hc).
    destruct (beqb (i_caller i) (i_rcpt i)) eqn:Ecr.
    - apply safe_f_nft_transfer_sender; [|lia]. intros Hst.
      destruct (Hin Hst) as [Ho|[Hne _]]; [exact Ho|]. apply beqb_true in Ecr. contradiction.
    - safe_tac0 E Hc.
      match goal with Hd : dec_tok (cdc E) _ = Some ?t |- _ =>
        assert (Hp : strict -> t_value t <> None /\ t_meta t <> None);
        [intros Hst; destruct (Hin Hst) as [Ho|[_ Hp]]; [rewrite Ho in *; discriminate|]; eapply Hp; eauto|] end.
      safe_tac0 E Hc.
      eapply (safe_bind E) with (Q := rcok).
      { safe_tac E Hc. all: rc_ok. }
      intros o Ho. safe_tac0 E Hc. exact Ho.
  Qed.

  (* ---------------- MultiESDTNFTTransfer ---------------- *)
  Definition tokgood (p : bytes * token) : Prop := wf_token (snd p) /\ t_value (snd p) <> None.

  Lemma safe_transfer_one_sender snd caller dstLocal dst tok nonce q verify rae :
    (strict -> snd = true) ->
    safe E st (transfer_one_sender E snd caller dstLocal dst tok nonce q verify rae)
         (fun t => wf_token t /\ t_value t <> None).
  Proof.
    intros Hsnd. unfold transfer_one_sender. safe_tac0 E Hc.
    safe_ifT E; [safe_tac0 E Hc..|]. safe_tac0 E Hc.
    - match goal with H : exists v, _ = set_value _ (Some v) |- _ => destruct H as (v & ->) end.
      split; [wf_solve|discriminate].
    - split; [wf_solve|discriminate].
  Qed.

  Lemma safe_multi_sender_loop i dstLocal dst verify :
    (strict -> i_snd i = true) ->
    forall fuel idx acc logs,
      (strict -> (2 + (idx + N.of_nat fuel) * 3 <= alen (i_args i))%N) ->
      Forall tokgood acc ->
      safe E st (multi_sender_loop E fuel i dstLocal dst verify idx acc logs) (fun r => Forall tokgood (fst r)).
  Proof.
    intros Hsnd. induction fuel as [|f IH]; intros idx acc logs Hb Hacc.
    - cbn [multi_sender_loop]. apply (safe_ret E). cbn [fst]. apply Forall_rev. exact Hacc.
    - cbn [multi_sender_loop]. safe_tac0 E Hc.
      eapply (safe_bind E); [apply safe_transfer_one_sender; exact Hsnd|].
      safe_intro. cbv zeta. apply IH; [intros Hst; specialize (Hb Hst); lia|].
      constructor; [split; assumption|exact Hacc].
  Qed.

  Lemma safe_multi_out_args : forall l o acc, Forall tokgood l ->
    safe E st (multi_out_args E l o acc) (fun r => o_rc (snd r) = o_rc o).
  Proof.
    induction l as [|[tok t] r IH]; intros o acc Hl.
    - cbn [multi_out_args]. apply (safe_ret E). reflexivity.
    - inversion Hl as [|? ? [Hw Hv] Hr]; subst. cbn [snd] in *. cbn [multi_out_args].
      destruct (t_meta t) as [m|].
      + safe_tac0 E Hc. match goal with H : o_rc _ = _ |- _ => rewrite H; reflexivity end.
      + safe_tac0 E Hc. all: try (apply IH; exact Hr). all: try assumption.
  Qed.

  Lemma count_exact n L c : (n <= L / 3)%N -> (L < 1099511627776)%N -> (c <= 2)%N ->
    u64 (u64 (n * 3) + c) = (n * 3 + c)%N.
  Proof.
    intros. assert (two64 = 18446744073709551616)%N by reflexivity.
    rewrite (u64_small (n * 3)) by lia. apply u64_small. lia.
  Qed.

  Lemma safe_f_multi_transfer_sender i :
    (strict -> i_snd i = true) -> (4 <= alen (i_args i))%N -> (strict -> (alen (i_args i) < 1099511627776)%N) ->
    safe E st (f_multi_transfer_sender E i) rcok.
  Proof.
    intros Hsnd Hlen4 Hlen. unfold f_multi_transfer_sender. safe_tac0 E Hc.
    safe_ifT E; [safe_tac0 E Hc..|].
    unfold apt, C.bif_argumentsPerTransfer in *.
    match goal with H : negb (alen _ / 3 <? bigU64 ?a1)%N = true |- _ =>
      assert (Hn : (bigU64 a1 <= alen (i_args i) / 3)%N) by lia;
      assert (Hmin : strict -> u64 (u64 (bigU64 a1 * 3) + 2) = (bigU64 a1 * 3 + 2)%N)
        by (intros Hst; apply (count_exact _ _ 2%N Hn (Hlen Hst)); lia);
      set (n := bigU64 a1) in *
    end.
    do 3 (eapply (safe_bind E); [apply (safe_alloc E); safe_side|intros _ _]).
    eapply (safe_bind E) with (Q := fun r => Forall tokgood (fst r)).
    { apply safe_multi_sender_loop; [exact Hsnd|intros Hst; specialize (Hmin Hst); lia|constructor]. }
    intros [lst logs] Hl. cbn [fst] in Hl.
    safe_ifT E; [safe_tac0 E Hc..|].
    eapply (safe_bind E); [apply (safe_alloc E); intros Hst; specialize (Hlen Hst); pose proof (u64_le (3 * n + 1)); lia|intros _ _].
    eapply (safe_bind E); [apply safe_multi_out_args; exact Hl|]. intros [args' o] Ho. cbn [snd] in Ho.
    safe_tac E Hc.
    all: repeat match goal with |- context [if ?b then _ else _] => destruct b end; cbn; assumption.
  Qed.

  Lemma safe_multi_dest_loop i minArgs nmax :
    (strict -> forall idx nb b, (idx < nmax)%N ->
       nth_error (i_args i) (N.to_nat (1 + idx * 3 + 1)) = Some nb -> (0 < bigU64 nb)%N ->
       nth_error (i_args i) (N.to_nat (1 + idx * 3 + 2)) = Some b -> payload_valued E b) ->
    forall fuel idx logs,
      (strict -> (idx + N.of_nat fuel <= nmax)%N /\ (1 + (idx + N.of_nat fuel) * 3 <= alen (i_args i))%N) ->
      safe E st (multi_dest_loop E fuel i minArgs idx logs) (fun _ => True).
  Proof.
    intros Hpay. induction fuel as [|f IH]; intros idx logs Hb.
    - cbn [multi_dest_loop]. apply (safe_ret E). exact I.
    - cbn [multi_dest_loop]. safe_tac0 E Hc.
      safe_ifT E.
      + safe_tac0 E Hc.
        match goal with Hd : dec_tok (cdc E) _ = Some ?t |- _ =>
          assert (Hp : strict -> t_value t <> None);
          [intros Hst; destruct (Hb Hst); eapply (Hpay Hst idx); eauto; lia|] end.
        safe_tac0 E Hc.
      + safe_tac0 E Hc.
      + apply IH. intros Hst; destruct (Hb Hst); lia.
  Qed.

  Lemma safe_f_multi_transfer i :
    (strict -> (alen (i_args i) < 1099511627776)%N) ->
    (strict -> i_snd i = true \/ (i_caller i <> i_rcpt i /\ multi_payload_ok E (i_args i))) ->
    safe E st (f_multi_transfer E i) rcok.
  Proof.
    intros Hlen Hin. unfold f_multi_transfer. do 2 (safe_step0 E Hc).
    destruct (beqb (i_caller i) (i_rcpt i)) eqn:Ecr.
    - apply beqb_true in Ecr. apply safe_f_multi_transfer_sender; [|lia|exact Hlen].
      intros Hst. destruct (Hin Hst) as [Ho|[Hne _]]; [exact Ho|contradiction].
    - safe_tac0 E Hc.
      unfold apt, C.bif_argumentsPerTransfer in *.
      match goal with H : negb (alen _ / 3 <? bigU64 ?a1)%N = true |- _ =>
        assert (Hn : (bigU64 a1 <= alen (i_args i) / 3)%N) by lia;
        assert (Hmin : strict -> u64 (u64 (bigU64 a1 * 3) + 1) = (bigU64 a1 * 3 + 1)%N)
          by (intros Hst; apply (count_exact _ _ 1%N Hn (Hlen Hst)); lia);
        set (n := bigU64 a1) in *
      end.
      eapply (safe_bind E); [apply (safe_alloc E); safe_side|intros _ _].
      eapply (safe_bind E).
      { apply safe_multi_dest_loop with (nmax := n); [|intros Hst; specialize (Hmin Hst); lia].
        intros Hst idx nb b Hidx Hnb Hpos Hb.
        destruct (Hin Hst) as [Ho|[_ Hp]]; [rewrite Ho in *; discriminate|].
        eapply (Hp _ idx); eauto. }
      intros logs _. safe_tac E Hc. all: rc_ok.
  Qed.

  (* ---------------- exec ---------------- *)
  Theorem safe_exec f i :
    (strict -> (alen (i_args i) < 1099511627776)%N) ->
    (strict -> origin_input i \/ delivered_input E f i) ->
    safe E st (exec E f i) rcok.
  Proof.
    intros Hlen Hin. unfold exec.
    repeat match goal with |- safe _ _ (if beqb f ?c then _ else _) _ => destruct (beqb_spec f c) as [Heq|?] end.
    all: try solve [ first
      [ apply safe_f_claim_rewards | apply safe_f_change_owner | apply safe_f_set_user_name
      | apply safe_f_save_key_value | apply safe_f_pause | apply safe_f_esdt_transfer
      | apply safe_f_esdt_burn | apply safe_f_freeze_wipe | apply safe_f_roles
      | apply safe_f_local_burn | apply safe_f_local_mint | apply safe_f_nft_add_quantity
      | apply safe_f_nft_burn | apply safe_f_nft_create | apply safe_f_create_role_transfer
      | apply safe_f_nft_update_attributes | apply safe_f_nft_add_uri | apply (safe_fail E) ]; assumption ].
    - (* ESDTNFTTransfer *)
      apply safe_f_nft_transfer. intros Hst.
      destruct (Hin Hst) as [Ho|(_ & _ & Hne & Hp & _)]; [left; exact Ho|right].
      split; [exact Hne|apply Hp; exact Heq].
    - (* MultiESDTNFTTransfer *)
      apply safe_f_multi_transfer; [exact Hlen|]. intros Hst.
      destruct (Hin Hst) as [Ho|(_ & _ & Hne & _ & Hp)]; [left; exact Ho|right].
      split; [exact Hne|apply Hp; exact Heq].
  Qed.
End Transfers.

(* ---------------- the theorems about [exec] ---------------- *)
(* no built-in function panics on a transaction-reachable input from a StoreOK state *)
Theorem exec_no_panic E f i s :
  codec_ok (cdc E) -> flag_ok (cdc E) -> StoreOK E s ->
  origin_input i \/ delivered_input E f i ->
  (alen (i_args i) < 2 ^ 40)%N ->
  fst (exec E f i s) <> Panic.
Proof.
  intros Hc Hf Hs Hin Hlen. change (2 ^ 40)%N with 1099511627776%N in Hlen.
  apply (safe_nopanic E true _ (fun o => o_rc o = C.Ok)); [reflexivity| |exact Hs].
  apply safe_exec; auto.
Qed.

(* StoreOK is preserved by EVERY successful call (no hypothesis on the input) *)
Theorem StoreOK_exec E f i s o s' :
  codec_ok (cdc E) -> flag_ok (cdc E) -> StoreOK E s -> exec E f i s = (Ok o, s') -> StoreOK E s'.
Proof.
  intros Hc Hf Hs Hx.
  assert (H : safe E false (exec E f i) (fun o => o_rc o = C.Ok)) by (apply safe_exec; auto; discriminate).
  apply (safe_ok E false _ _ _ _ _ H Hs Hx).
Qed.

(* the property in one statement: Ok with return code Ok (and StoreOK again), or an error; never a panic *)
Theorem exec_total E f i s :
  codec_ok (cdc E) -> flag_ok (cdc E) -> StoreOK E s ->
  origin_input i \/ delivered_input E f i ->
  (alen (i_args i) < 2 ^ 40)%N ->
  (exists o s', exec E f i s = (Ok o, s') /\ o_rc o = C.Ok /\ StoreOK E s')
  \/ (exists e s', exec E f i s = (Err e, s')).
Proof.
  intros Hc Hf Hs Hin Hlen. change (2 ^ 40)%N with 1099511627776%N in Hlen.
  assert (H : safe E true (exec E f i) (fun o => o_rc o = C.Ok)) by (apply safe_exec; auto).
  specialize (H s Hs). destruct (exec E f i s) as [[o|e|] s'].
  - left. exists o, s'. destruct H. auto.
  - right. eauto.
  - discriminate.
Qed.

Print Assumptions exec_no_panic.
Print Assumptions StoreOK_exec.
Print Assumptions exec_total.
