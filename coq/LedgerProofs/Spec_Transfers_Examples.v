(* Non-vacuity of the transfer specs (Spec_Transfers*.v): concrete environments, inputs and states on which
   each transfer function succeeds on each side, evaluated by vm_compute, and instantiations of the spec
   theorems on them.
     E0 : the concrete protobuf codec of Corr/Exec.v ([the_codec])
     EI : [ideal_codec] (same encoder; same decoder on every byte string of Go length), which satisfies
          [codec_ok] ([ideal_codec_ok]) -- so the section hypothesis of the specs is satisfiable. *)
From Coq.Strings Require Import String.
From EV Require Import Base.Bytes Base.Store Base.Monad gen.Consts Codec.Types Codec.Proto Codec.Ideal Codec.CodecOk
  Helpers.Helpers Ledger.Types Ledger.Env Ledger.Funcs Ledger.Transfers Ledger.World Corr.Exec
  LedgerProofs.Defs LedgerProofs.EnvSpec LedgerProofs.WorldDefs
  LedgerProofs.Spec_Transfers_Base LedgerProofs.Spec_Transfers_Esdt LedgerProofs.Spec_Transfers_Nft
  LedgerProofs.Spec_Transfers_Multi LedgerProofs.Spec_Transfers.

Definition alice : bytes := repeat x01 32.
Definition bob : bytes := repeat x02 32.     (* lives on shard 1 *)
Definition carol : bytes := repeat x03 32.
Definition tokA : bytes := str "TOK-a1b2c3"%string.
Definition nftA : bytes := str "NFT-d4e5f6"%string.

Definition cfg0 : xcfg :=
  {| xc_shards := [(bob, 1%N)]; xc_shard_default := 0%N; xc_pay := []; xc_pay_default := 0%N;
     xc_dns := []; xc_enable := false; xc_gas := repeat 10%N 22 |}.
Definition E0 : env := env_of cfg0 0%N None.
Definition EI : env :=
  {| plan := plan E0; cdc := ideal_codec; shard_of := shard_of E0; self_shard := self_shard E0;
     payable := payable E0; dns := dns E0; enable_change := enable_change E0; gas := gas E0 |}.
Lemma EI_ok : codec_ok (cdc EI). Proof. exact ideal_codec_ok. Qed.
Lemma EI_nf : no_faults EI. Proof. intros n. reflexivity. Qed.

Definition tk (v : Z) : token :=
  {| t_type := C.Fungible; t_value := Some v; t_props := []; t_meta := None; t_reserved := [] |}.
Definition md1 : metadata :=
  {| md_nonce := 1; md_name := str "n"%string; md_creator := alice; md_royalties := 5; md_hash := str "h"%string;
     md_uris := [str "u"%string]; md_attributes := [] |}.
Definition nf (v : Z) : token :=
  {| t_type := C.NonFungible; t_value := Some v; t_props := []; t_meta := Some md1; t_reserved := [] |}.
Definition mkacct (st : list (bytes * bytes)) : acctl :=
  {| al_store := st; al_balance := 100; al_owner := []; al_username := []; al_reward := 0 |}.
Definition mkin (caller rcpt : bytes) (args : list bytes) (snd dst : bool) : input :=
  {| i_caller := caller; i_rcpt := rcpt; i_args := args; i_value := 0; i_gas := 100000; i_gasLocked := 0;
     i_callType := C.DirectCall; i_rae := false; i_snd := snd; i_dst := dst |}.

(* alice holds 5 TOK and 3 of NFT nonce 1; carol holds 2 TOK *)
Definition s0 : mstate :=
  state_of [(alice, mkacct [(P ++ tokA, enc_token (tk 5)); (nft_key (P ++ nftA) 1, enc_token (nf 3))]);
            (carol, mkacct [(P ++ tokA, enc_token (tk 2))])].

Definition ok_both {A} (m0 mI : MT A) (s : mstate) (chk : A -> mstate -> bool) : bool :=
  match m0 s, mI s with
  | (Ok a, s1), (Ok b, s2) => chk a s1 && chk b s2
  | _, _ => false
  end.
Lemma ok_both_I {A} (m0 mI : MT A) s chk : ok_both m0 mI s chk = true -> exists o s', mI s = (Ok o, s') /\ chk o s' = true.
Proof.
  unfold ok_both. destruct (m0 s) as [[a|e|] s1]; try discriminate. destruct (mI s) as [[b|e|] s2]; try discriminate.
  intros H. apply andb_prop in H as [_ H]. eauto.
Qed.
Definition balI := balance EI.

(* ---------------- ESDTTransfer ---------------- *)
Definition in_same := mkin alice carol [tokA; u64_bytes 2] true true.
Example ex_esdt_same :
  ok_both (f_esdt_transfer E0 in_same) (f_esdt_transfer EI in_same) s0
    (fun o s' => (balI s' alice (P ++ tokA) =? 3)%Z && (balI s' carol (P ++ tokA) =? 4)%Z
                 && match o_accounts o with [] => true | _ => false end) = true.
Proof. vm_compute. reflexivity. Qed.
Example inst_esdt_same : exists o s', f_esdt_transfer EI in_same s0 = (Ok o, s') /\ esdt_post EI in_same s0 o s'.
Proof.
  destruct (ok_both_I _ _ _ _ ex_esdt_same) as (o & s' & H & _). exists o, s'. split; [exact H|].
  apply (esdt_transfer_spec EI EI_ok). exact H.
Qed.
(* origin side of a cross-shard transfer: debit only *)
Definition in_cross := mkin alice bob [tokA; u64_bytes 2] true false.
Example ex_esdt_cross :
  ok_both (f_esdt_transfer E0 in_cross) (f_esdt_transfer EI in_cross) s0
    (fun o s' => (balI s' alice (P ++ tokA) =? 3)%Z && (balI s' bob (P ++ tokA) =? 0)%Z) = true.
Proof. vm_compute. reflexivity. Qed.
(* destination side *)
Definition in_dest := mkin bob carol [tokA; u64_bytes 2] false true.
Example ex_esdt_dest :
  ok_both (f_esdt_transfer E0 in_dest) (f_esdt_transfer EI in_dest) s0
    (fun o s' => (balI s' carol (P ++ tokA) =? 4)%Z && (balI s' alice (P ++ tokA) =? 5)%Z) = true.
Proof. vm_compute. reflexivity. Qed.
(* caller = recipient with both accounts present: debited then credited, net 0 *)
Definition in_self := mkin alice alice [tokA; u64_bytes 2] true true.
Example ex_esdt_self :
  ok_both (f_esdt_transfer E0 in_self) (f_esdt_transfer EI in_self) s0
    (fun o s' => (balI s' alice (P ++ tokA) =? 5)%Z) = true.
Proof. vm_compute. reflexivity. Qed.
Example ex_esdt_self_delta : esdt_delta in_self alice (P ++ tokA) = 0%Z.
Proof. vm_compute. reflexivity. Qed.
(* guards are real *)
Example ex_esdt_overdraft : fst (f_esdt_transfer E0 (mkin alice carol [tokA; u64_bytes 6] true true) s0) = Err EInsufficientFunds.
Proof. vm_compute. reflexivity. Qed.
Example ex_esdt_zero : fst (f_esdt_transfer E0 (mkin alice carol [tokA; []] true true) s0) = Err ENegativeValue.
Proof. vm_compute. reflexivity. Qed.

(* ---------------- ESDTNFTTransfer ---------------- *)
Definition in_nft_same := mkin alice alice [nftA; u64_bytes 1; u64_bytes 2; carol] true true.
Example ex_nft_same :
  ok_both (f_nft_transfer E0 in_nft_same) (f_nft_transfer EI in_nft_same) s0
    (fun o s' => (balI s' alice (nft_key (P ++ nftA) 1) =? 1)%Z && (balI s' carol (nft_key (P ++ nftA) 1) =? 2)%Z) = true.
Proof. vm_compute. reflexivity. Qed.
Example inst_nft_same : exists o s' t, f_nft_transfer EI in_nft_same s0 = (Ok o, s') /\ nft_snd_post EI in_nft_same t s0 o s'.
Proof.
  destruct (ok_both_I _ _ _ _ ex_nft_same) as (o & s' & H & _).
  destruct (nft_sender_post EI EI_ok _ _ _ _ H eq_refl) as (t & Hp). exists o, s', t. split; assumption.
Qed.
Definition in_nft_cross := mkin alice alice [nftA; u64_bytes 1; u64_bytes 2; bob] true true.
Example ex_nft_cross :
  ok_both (f_nft_transfer E0 in_nft_cross) (f_nft_transfer EI in_nft_cross) s0
    (fun o s' => (balI s' alice (nft_key (P ++ nftA) 1) =? 1)%Z
                 && match o_accounts o with [oa] => beqb (oc_addr oa) bob | _ => false end) = true.
Proof. vm_compute. reflexivity. Qed.
(* the lookup is consistent here *)
Example ex_nft_consistent : lookup_consistent EI s0 alice (nft_tkey in_nft_cross) (nft_nonce in_nft_cross).
Proof. intros t Ht. vm_compute in Ht. inversion Ht; subst. reflexivity. Qed.
(* destination side: the payload is the sender's entry with Value = 2 *)
Definition in_nft_dest := mkin bob carol [nftA; u64_bytes 1; u64_bytes 2; enc_token (nf 2)] false true.
Example ex_nft_dest :
  ok_both (f_nft_transfer E0 in_nft_dest) (f_nft_transfer EI in_nft_dest) s0
    (fun o s' => (balI s' carol (nft_key (P ++ nftA) 1) =? 2)%Z) = true.
Proof. vm_compute. reflexivity. Qed.
Example ex_nft_overdraft :
  fst (f_nft_transfer E0 (mkin alice alice [nftA; u64_bytes 1; u64_bytes 4; carol] true true) s0) = Err EInvalidNFTQuantity.
Proof. vm_compute. reflexivity. Qed.
Example ex_nft_self :
  fst (f_nft_transfer E0 (mkin alice alice [nftA; u64_bytes 1; u64_bytes 1; alice] true true) s0) = Err EInvalidArguments.
Proof. vm_compute. reflexivity. Qed.

(* observation: the single NFT transfer has no "quantity > 0" guard (esdtNFTTransfer.go:189-193; the multi
   transfer has one, multiESDTNFTTransfer.go:316): a zero-quantity transfer succeeds and changes no balance *)
Example ex_nft_zero_quantity_accepted :
  ok_both (f_nft_transfer E0 (mkin alice alice [nftA; u64_bytes 1; []; bob] true true))
          (f_nft_transfer EI (mkin alice alice [nftA; u64_bytes 1; []; bob] true true)) s0
    (fun o s' => (balI s' alice (nft_key (P ++ nftA) 1) =? 3)%Z
                 && match o_accounts o with [oa] => beqb (oc_addr oa) bob | _ => false end) = true.
Proof. vm_compute. reflexivity. Qed.
Example ex_multi_zero_quantity_rejected :
  fst (f_multi_transfer E0 (mkin alice alice [bob; u64_bytes 1; nftA; u64_bytes 1; []] true true) s0) = Err EInvalidNFTQuantity.
Proof. vm_compute. reflexivity. Qed.

(* ---------------- MultiESDTNFTTransfer ---------------- *)
(* two triples: 2 of the NFT, then 3 TOK (fungible: nonce 0) *)
Definition multi_args (dst : bytes) : list bytes := [dst; u64_bytes 2; nftA; u64_bytes 1; u64_bytes 2; tokA; []; u64_bytes 3].
Definition in_multi_same := mkin alice alice (multi_args carol) true true.
Example ex_multi_same :
  ok_both (f_multi_transfer E0 in_multi_same) (f_multi_transfer EI in_multi_same) s0
    (fun o s' => (balI s' alice (nft_key (P ++ nftA) 1) =? 1)%Z && (balI s' carol (nft_key (P ++ nftA) 1) =? 2)%Z
                 && (balI s' alice (P ++ tokA) =? 2)%Z && (balI s' carol (P ++ tokA) =? 5)%Z) = true.
Proof. vm_compute. reflexivity. Qed.
Definition in_multi_cross := mkin alice alice (multi_args bob) true true.
Example ex_multi_cross :
  ok_both (f_multi_transfer E0 in_multi_cross) (f_multi_transfer EI in_multi_cross) s0
    (fun o s' => (balI s' alice (nft_key (P ++ nftA) 1) =? 1)%Z && (balI s' alice (P ++ tokA) =? 2)%Z
                 && match o_accounts o with [oa] => beqb (oc_addr oa) bob | _ => false end) = true.
Proof. vm_compute. reflexivity. Qed.
Example ex_multi_triples : multi_snd_triples in_multi_cross = [(nftA, u64_bytes 1, u64_bytes 2); (tokA, [], u64_bytes 3)].
Proof. vm_compute. reflexivity. Qed.
Example ex_multi_consistent : triples_consistent EI s0 alice (multi_snd_triples in_multi_cross).
Proof.
  rewrite ex_multi_triples. repeat constructor; intros t Ht; vm_compute in Ht; inversion Ht; subst; reflexivity.
Qed.
Example inst_multi_cross : exists o s' lst, f_multi_transfer EI in_multi_cross s0 = (Ok o, s')
    /\ multi_snd_post EI in_multi_cross lst s0 o s'
    /\ forall a k, balance EI s' a k =
         (balance EI s0 a k + snd_delta alice bob false (multi_snd_triples in_multi_cross) a k)%Z.
Proof.
  destruct (ok_both_I _ _ _ _ ex_multi_cross) as (o & s' & H & _).
  destruct (multi_sender_effects EI EI_ok _ _ _ _ H eq_refl ex_multi_consistent) as (lst & Hp & Hb & _).
  { intros Hx. vm_compute in Hx. discriminate. }
  exists o, s', lst. split; [exact H|]. split; [exact Hp|]. exact Hb.
Qed.
(* repeated tokens accumulate *)
Definition in_multi_rep :=
  mkin alice alice [bob; u64_bytes 2; tokA; []; u64_bytes 1; tokA; []; u64_bytes 3] true true.
Example ex_multi_rep :
  ok_both (f_multi_transfer E0 in_multi_rep) (f_multi_transfer EI in_multi_rep) s0
    (fun o s' => (balI s' alice (P ++ tokA) =? 1)%Z) = true.
Proof. vm_compute. reflexivity. Qed.
Example ex_multi_rep_delta : snd_delta alice bob false (multi_snd_triples in_multi_rep) alice (P ++ tokA) = (-4)%Z.
Proof. vm_compute. reflexivity. Qed.
Example ex_multi_overdraft :
  fst (f_multi_transfer E0 (mkin alice alice [bob; u64_bytes 2; tokA; []; u64_bytes 3; tokA; []; u64_bytes 3] true true) s0)
  = Err EInvalidNFTQuantity.
Proof. vm_compute. reflexivity. Qed.
(* destination side: the message emitted by ex_multi_cross, delivered to carol *)
Definition in_multi_dest :=
  mkin bob carol [u64_bytes 2; nftA; u64_bytes 1; enc_token (nf 2); tokA; [x00]; u64_bytes 3] false true.
Example ex_multi_dest :
  ok_both (f_multi_transfer E0 in_multi_dest) (f_multi_transfer EI in_multi_dest) s0
    (fun o s' => (balI s' carol (nft_key (P ++ nftA) 1) =? 2)%Z && (balI s' carol (P ++ tokA) =? 5)%Z) = true.
Proof. vm_compute. reflexivity. Qed.
Example ex_multi_dest_credits :
  dst_credits E0 (multi_dst_triples in_multi_dest) = [(nft_key (P ++ nftA) 1, 2%Z); (P ++ tokA, 3%Z)].
Proof. vm_compute. reflexivity. Qed.

Print Assumptions inst_esdt_same.
Print Assumptions inst_nft_same.
Print Assumptions inst_multi_cross.
