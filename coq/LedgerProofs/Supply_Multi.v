(* Supply accounting over mixed histories, part 2: MultiESDTNFTTransfer with non-negativity on PROTOCOL keys only.
   Spec_Transfers_Multi.v / Spec_Transfers.v state the sums of the multi transfer under [nonneg_balances] (no negative
   balance of the credited account under ANY storage key).  That is not an invariant once the other 20 functions are
   in the history (a cell under a user key / role key / counter key may decode to anything), so the two sum lemmas
   (snd_steps_spec, dst_steps_spec) and their corollaries are re-proved here from [nonneg_P] (keys P ++ x only): the
   cells a transfer touches are all protocol token keys.  Same proofs, hypothesis weakened. *)
From Coq Require Import Lia List.
From EV Require Import Base.Bytes Base.Store Base.Monad gen.Consts Codec.Types Helpers.Helpers
  Ledger.Types Ledger.Env Ledger.Funcs Ledger.Transfers Ledger.World
  LedgerProofs.Defs LedgerProofs.EnvSpec LedgerProofs.WorldDefs LedgerProofs.WorldSpec
  LedgerProofs.Spec_Transfers_Base LedgerProofs.Spec_Transfers_Esdt LedgerProofs.Spec_Transfers_Nft
  LedgerProofs.Spec_Transfers_Multi LedgerProofs.Spec_Transfers LedgerProofs.Supply_Base.
Import ListNotations.

Section MultiP.
  Variable E : env.
  Hypothesis Hc : codec_ok (cdc E).

  Lemma rt_cell_pkey x : pkey (rt_cell x).
  Proof. unfold rt_cell. apply pkey_nft. Qed.

  Lemma silent_nonneg_P s s0 a : silent E s s0 -> nonneg_P E s a -> nonneg_P E s0 a.
  Proof. intros Hq H k. rewrite (silent_balance E _ _ _ _ Hq). apply H. Qed.

  (* ---- sender side ---- *)
  Lemma snd_steps_spec_P caller dst dstLocal verify rae trs s s' lst :
    dst <> caller ->
    snd_steps E caller dst dstLocal verify rae trs s s' lst ->
    triples_consistent E s caller trs ->
    (dstLocal = true -> nonneg_P E s dst) ->
    (forall a k, balance E s' a k = (balance E s a k + snd_delta caller dst dstLocal trs a k)%Z)
    /\ Forall2 (travel_ok dstLocal) trs lst
    /\ (dstLocal = true -> nonneg_P E s' dst)
    /\ (forall x, In x trs -> (0 <= balance E s' caller (rt_cell x))%Z).
  Proof.
    intros Hne Hs. induction Hs as [s|x rest s s1 s' t t2 l Hp Hs IH]; intros Hcons Hnn.
    - split; [intros; cbn [snd_delta]; lia|]. split; [constructor|]. split; [assumption|]. intros x [].
    - inversion Hcons as [|x0 r0 Hx Hrest]; subst.
      assert (Hpp := Hp). destruct Hpp. destruct os_debit as (s0 & D & Hs0). destruct D.
      assert (Htn : tok_nonce t = rt_nonce x) by (apply Hx; exact db_entry).
      assert (Hfull : nft_key (P ++ rt_tok x) (tok_nonce t) = rt_cell x) by (unfold rt_cell; rewrite Htn; reflexivity).
      rewrite Hfull in *.
      assert (Hcons1 : triples_consistent E s1 caller rest).
      { unfold triples_consistent in *. rewrite Forall_forall in *. intros y Hy.
        eapply one_snd_post_consistent; eauto. }
      assert (Hcell0 : dstLocal = true -> (0 <= balance E s dst (rt_cell x))%Z).
      { intros Hd. apply nonneg_P_pkey; [apply Hnn; exact Hd|apply rt_cell_pkey]. }
      assert (Hnn1 : dstLocal = true -> nonneg_P E s1 dst).
      { intros Hd y. destruct (beqb_spec (P ++ y) (rt_cell x)) as [Hk|Hk].
        - rewrite Hk, (os_dst_balance Hd). lia.
        - rewrite (ue_balance E _ _ _ _ os_frame); [apply Hnn; exact Hd|]. intros [? _]. contradiction. }
      assert (Hstep : forall a k, balance E s1 a k =
                (balance E s a k + ((if (beqb a caller && beqb k (rt_cell x))%bool then - rt_qty x else 0)
                                    + (if (dstLocal && beqb a dst && beqb k (rt_cell x))%bool then rt_qty x else 0)))%Z).
      { intros a k. destruct (beqb_spec k (rt_cell x)) as [->|Hk].
        - rewrite !Bool.andb_true_r. destruct (beqb_spec a caller) as [->|Ha].
          + rewrite (beqb_false caller dst) by congruence. rewrite Bool.andb_false_r.
            rewrite os_snd_balance. unfold rt_cell. rewrite (balance_tok_at E _ _ _ _ db_entry). lia.
          + destruct dstLocal eqn:Ed; cbn [andb].
            * destruct (beqb_spec a dst) as [->|Hd].
              { rewrite (os_dst_balance eq_refl). pose proof (Hcell0 eq_refl). lia. }
              { rewrite (ue_balance E _ _ _ _ os_frame); [lia|]. intros [_ [?|[_ ?]]]; contradiction. }
            * rewrite (ue_balance E _ _ _ _ os_frame); [lia|]. intros [_ [?|[? _]]]; [contradiction|discriminate].
        - rewrite !Bool.andb_false_r. rewrite (ue_balance E _ _ _ _ os_frame); [lia|]. intros [? _]. contradiction. }
      destruct (IH Hcons1 Hnn1) as (Hb & Hf2 & Hnn' & Hpos').
      split; [intros a k; rewrite Hb, Hstep; cbn [snd_delta]; lia|].
      split.
      { constructor; [|exact Hf2]. unfold travel_ok. cbn [fst snd]. split; [reflexivity|].
        rewrite os_travel, tok_nonce_set_value, t_meta_set_value.
        split; [exact Htn|]. split; [apply wf_set_value; exact db_wf|]. split; [reflexivity|].
        split; [intros Hn; destruct (db_meta_pos Hn) as (m & ->); discriminate|].
        split; [exact db_meta_0|]. split; [exact os_pos|]. intros ->. apply val_or_0_set_value. }
      split; [exact Hnn'|].
      intros y [<-|Hy]; [|apply Hpos'; exact Hy].
      destruct (existsb (fun y => beqb (rt_cell y) (rt_cell x)) rest) eqn:Eex.
      + apply existsb_exists in Eex as (y & Hy & Hyk). apply beqb_true in Hyk. rewrite <- Hyk. apply Hpos'. exact Hy.
      + rewrite Hb. rewrite snd_delta_notin.
        * rewrite os_snd_balance. lia.
        * intros y Hy Heq. assert (existsb (fun y => beqb (rt_cell y) (rt_cell x)) rest = true); [|congruence].
          apply existsb_exists. exists y. split; [exact Hy|]. apply beqb_true. exact Heq.
  Qed.

  Theorem multi_sender_effects_P i s o s' :
    f_multi_transfer E i s = (Ok o, s') -> i_caller i = i_rcpt i ->
    triples_consistent E s (i_caller i) (multi_snd_triples i) ->
    (multi_same E i = true -> nonneg_P E s (multi_dst i)) ->
    exists lst, multi_snd_post E i lst s o s'
      /\ (forall a k, balance E s' a k =
            (balance E s a k + snd_delta (i_caller i) (multi_dst i) (multi_same E i) (multi_snd_triples i) a k)%Z)
      /\ Forall2 (travel_ok (multi_same E i)) (multi_snd_triples i) lst
      /\ (multi_same E i = true -> nonneg_P E s' (multi_dst i))
      /\ (forall x, In x (multi_snd_triples i) -> (0 <= balance E s' (i_caller i) (rt_cell x))%Z).
  Proof.
    intros H Heq Hcons Hnn. destruct (multi_sender_post E Hc _ _ _ _ H Heq) as (lst & Hp). exists lst. split; [exact Hp|].
    destruct Hp. destruct mp_steps as (s0 & s1 & Q0 & Hs & Q1).
    destruct (snd_steps_spec_P _ _ _ _ _ _ _ _ _ mp_dst_ne Hs (silent_consistent E _ _ _ _ Q0 Hcons)
                (fun h => silent_nonneg_P _ _ _ Q0 (Hnn h))) as (Hb & Hf & Hn' & Hpos).
    split; [intros a k; rewrite (silent_balance E _ _ _ _ Q1), Hb, (silent_balance E _ _ _ _ Q0); reflexivity|].
    split; [exact Hf|]. split; [intros h; apply (silent_nonneg_P _ _ _ Q1), Hn', h|].
    intros x Hx. rewrite (silent_balance E _ _ _ _ Q1). apply Hpos. exact Hx.
  Qed.

  Theorem transfer_shard_total_multi_sender_P i s o s' k :
    f_multi_transfer E i s = (Ok o, s') -> i_caller i = i_rcpt i ->
    triples_consistent E s (i_caller i) (multi_snd_triples i) ->
    (multi_same E i = true -> nonneg_P E s (multi_dst i)) ->
    NoDup (map fst (accts s)) ->
    NoDup (map fst (accts s'))
    /\ asum (acct_bal E k) (accts s') =
       (asum (acct_bal E k) (accts s)
        + (if multi_same E i then 0 else - qty_list k (debit_list (multi_snd_triples i))))%Z.
  Proof.
    intros H Heq Hcons Hnn Hnd.
    destruct (multi_sender_effects_P _ _ _ _ H Heq Hcons Hnn) as (lst & Hp & Hb & _).
    pose proof (mp_dst_ne E _ _ _ _ _ Hp) as Hne.
    destruct (transfer_footprint_multi E Hc _ _ _ _ H) as (_ & Ht & _).
    specialize (Ht [i_caller i; multi_dst i] (nodup_two (i_caller i) (multi_dst i) (fun e => Hne (eq_sym e))) (or_introl eq_refl)
                  (or_introl Heq) (or_intror (or_introl eq_refl))).
    destruct (shard_total_two E (i_caller i) (multi_dst i) s s' k
                (fun a => snd_delta (i_caller i) (multi_dst i) (multi_same E i) (multi_snd_triples i) a k)
                (fun e => Hne (eq_sym e)) Ht Hnd) as [Hn' Hsum]; [intros x; apply Hb|].
    split; [exact Hn'|]. rewrite Hsum. rewrite snd_delta_caller by exact Hne.
    destruct (multi_same E i).
    - rewrite snd_delta_dst by exact Hne. lia.
    - rewrite snd_delta_other; [lia|congruence|discriminate].
  Qed.

  (* ---- destination side ---- *)
  Lemma dst_steps_spec_P rcpt verify rae trs s s' :
    dst_steps E rcpt verify rae trs s s' ->
    nonneg_P E s rcpt -> credits_nonneg E trs ->
    (forall a k, balance E s' a k = (balance E s a k + (if beqb a rcpt then kv_sum k (dst_credits E trs) else 0))%Z)
    /\ nonneg_P E s' rcpt.
  Proof.
    intros Hs. induction Hs as [s|x rest s s1 s' Hp Hs IH]; intros Hnn Hcn.
    - split; [intros a k; unfold dst_credits; cbn [map concat kv_sum fold_right]; destruct (beqb a rcpt); lia|exact Hnn].
    - unfold credits_nonneg, dst_credits in Hcn. cbn [map concat] in Hcn. apply Forall_app in Hcn as [Hcx Hcr].
      assert (Hstep : (forall a k, balance E s1 a k = (balance E s a k + (if beqb a rcpt then kv_sum k (rt_credit E x) else 0))%Z)
                      /\ nonneg_P E s1 rcpt).
      { destruct Hp. unfold rt_credit in *. destruct (0 <? rt_nonce x)%N eqn:En.
        - destruct od_nft as (t & Hdec & Hwf & Hv & _ & _ & _ & _ & Hb & Hue); [lia|].
          rewrite Hdec, Hv in *. inversion Hcx as [|kv l Hkv _]; subst. cbn [snd] in Hkv.
          pose proof (nonneg_P_pkey E s rcpt _ Hnn (pkey_nft (rt_tok x) (tok_nonce t))) as Hn0.
          split.
          + intros a k. cbn [kv_sum fold_right fst snd]. destruct (beqb_spec a rcpt) as [->|Ha].
            * destruct (beqb_spec (nft_key (P ++ rt_tok x) (tok_nonce t)) k) as [<-|Hk]; [rewrite Hb; lia|].
              rewrite (ue_balance E _ _ _ _ Hue); [lia|]. intros [_ ?]. congruence.
            * rewrite (ue_balance E _ _ _ _ Hue); [lia|]. intros [? _]. contradiction.
          + intros y. destruct (beqb_spec (nft_key (P ++ rt_tok x) (tok_nonce t)) (P ++ y)) as [Hk|Hk]; [rewrite <- Hk, Hb; lia|].
            rewrite (ue_balance E _ _ _ _ Hue); [apply Hnn|]. intros [_ ?]. congruence.
        - destruct od_fungible as (Hb & _ & _ & Hue); [apply N.ltb_ge in En; lia|].
          split.
          + intros a k. cbn [kv_sum fold_right fst snd]. destruct (beqb_spec a rcpt) as [->|Ha].
            * destruct (beqb_spec (P ++ rt_tok x) k) as [<-|Hk]; [rewrite Hb; lia|].
              rewrite (ue_balance E _ _ _ _ Hue); [lia|]. intros [_ ?]. congruence.
            * rewrite (ue_balance E _ _ _ _ Hue); [lia|]. intros [? _]. contradiction.
          + intros y. destruct (beqb_spec (P ++ rt_tok x) (P ++ y)) as [Hk|Hk].
            * rewrite <- Hk, Hb. pose proof (Hnn (rt_tok x)). pose proof (bigZ_nonneg (rt_third x)). lia.
            * rewrite (ue_balance E _ _ _ _ Hue); [apply Hnn|]. intros [_ ?]. congruence. }
      destruct Hstep as [Hb1 Hnn1]. destruct (IH Hnn1 Hcr) as [Hb Hnn'].
      split; [|exact Hnn'].
      intros a k. rewrite Hb, Hb1. unfold dst_credits. cbn [map concat]. rewrite kv_sum_app.
      destruct (beqb a rcpt); lia.
  Qed.

  Theorem transfer_balance_effect_multi_dest_P i s o s' :
    f_multi_transfer E i s = (Ok o, s') -> i_caller i <> i_rcpt i ->
    nonneg_P E s (i_rcpt i) -> credits_nonneg E (multi_dst_triples i) ->
    (forall a k, balance E s' a k =
       (balance E s a k + (if beqb a (i_rcpt i) then kv_sum k (dst_credits E (multi_dst_triples i)) else 0))%Z)
    /\ nonneg_P E s' (i_rcpt i).
  Proof.
    intros H Hne Hnn Hcn. destruct (multi_dest_post E Hc _ _ _ _ H Hne). destruct mq_steps as (s0 & Q0 & Hs).
    destruct (dst_steps_spec_P _ _ _ _ _ _ Hs (silent_nonneg_P _ _ _ Q0 Hnn) Hcn) as [Hb Hn'].
    split; [|exact Hn']. intros a k. rewrite Hb, (silent_balance E _ _ _ _ Q0). reflexivity.
  Qed.

  Theorem transfer_shard_total_multi_dest_P i s o s' k :
    f_multi_transfer E i s = (Ok o, s') -> i_caller i <> i_rcpt i ->
    nonneg_P E s (i_rcpt i) -> credits_nonneg E (multi_dst_triples i) ->
    NoDup (map fst (accts s)) ->
    NoDup (map fst (accts s'))
    /\ asum (acct_bal E k) (accts s') =
       (asum (acct_bal E k) (accts s) + qty_list k (dst_credits E (multi_dst_triples i)))%Z.
  Proof.
    intros H Hne Hnn Hcn Hnd.
    destruct (transfer_balance_effect_multi_dest_P _ _ _ _ H Hne Hnn Hcn) as [Hb _].
    pose proof (multi_dest_post E Hc _ _ _ _ H Hne) as Hp. destruct Hp. destruct mq_steps as (s0 & Q0 & Hs).
    destruct (dst_steps_frame E _ _ _ _ _ _ Hs) as (_ & Ht' & _).
    assert (Ht1 : touches [i_rcpt i] s s').
    { eapply touches_trans; [apply (silent_touches E _ _ _ Q0)|apply Ht'; [apply nodup_one|left; reflexivity]]. }
    destruct (shard_total_one E (i_rcpt i) s s' k
               (fun a => if beqb a (i_rcpt i) then kv_sum k (dst_credits E (multi_dst_triples i)) else 0%Z) Ht1 Hnd)
      as [Hn' Hsum]; [intros x; apply Hb|].
    split; [exact Hn'|]. rewrite Hsum, beqb_refl. reflexivity.
  Qed.
End MultiP.

Print Assumptions transfer_shard_total_multi_sender_P.
Print Assumptions transfer_shard_total_multi_dest_P.
