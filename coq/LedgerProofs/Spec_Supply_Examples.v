(* Non-vacuity of the function specs of LedgerProofs/Spec_Supply.v: each of the eight supply / NFT-maintenance
   built-ins evaluated (vm_compute) on a concrete state with the concrete protobuf codec of Corr/Exec.v returns Ok,
   with the effect its spec describes.  Kept apart so that Spec_Supply.v does not depend on Corr/. *)
From Coq.Strings Require Import String.
From EV Require Import Base.Bytes Base.Store Base.Monad gen.Consts Codec.Types Codec.Proto Helpers.Helpers
  Ledger.Types Ledger.Env Ledger.Funcs Ledger.Transfers LedgerProofs.Defs Corr.Exec.

Definition cfg0 : xcfg :=
  {| xc_shards := []; xc_shard_default := 0; xc_pay := []; xc_pay_default := 0; xc_dns := []; xc_enable := false;
     xc_gas := [10; 10; 10; 10; 10; 10; 10; 10; 10; 10; 10; 10; 10; 10; 10; 10; 2; 2; 2; 2; 2; 2]%N |}.
Definition E0 : env := env_of cfg0 0 None.

Definition alice : bytes := str "alice"%string.
Definition tokF : bytes := str "TOK-123456"%string.
Definition tokN : bytes := str "NFT-abcdef"%string.
Definition fung100 : token :=
  {| t_type := C.Fungible; t_value := Some 100%Z; t_props := []; t_meta := None; t_reserved := [] |}.
Definition nft1 : token :=
  {| t_type := C.NonFungible; t_value := Some 5%Z; t_props := [];
     t_meta := Some {| md_nonce := 1; md_name := str "name"%string; md_creator := alice; md_royalties := 100;
                       md_hash := str "hash"%string; md_uris := [str "uri1"%string];
                       md_attributes := str "attr"%string |};
     t_reserved := [] |}.
Definition s0 : mstate :=
  state_of [(alice,
     {| al_store :=
          [(RP ++ tokF, enc_roles [C.ESDTRoleLocalMint; C.ESDTRoleLocalBurn]);
           (P ++ tokF, enc_token fung100);
           (RP ++ tokN, enc_roles [C.ESDTRoleNFTCreate; C.ESDTRoleNFTAddQuantity; C.ESDTRoleNFTBurn;
                                   C.ESDTRoleNFTAddURI; C.ESDTRoleNFTUpdateAttributes]);
           (NP ++ tokN, u64_bytes 1);
           (nft_key (P ++ tokN) 1, enc_token nft1)];
        al_balance := 0; al_owner := []; al_username := []; al_reward := 0 |})].

Definition call (rcpt : bytes) (args : list bytes) : input :=
  {| i_caller := alice; i_rcpt := rcpt; i_args := args; i_value := 0; i_gas := 1000; i_gasLocked := 0;
     i_callType := C.DirectCall; i_rae := false; i_snd := true; i_dst := true |}.

(* observations on a result *)
Definition ok_bal (r : res err output * mstate) (k : bytes) : option Z :=
  match r with (Ok _, s') => Some (balance E0 s' alice k) | _ => None end.
Definition ok_meta (r : res err output * mstate) (k : bytes) : option (option metadata) :=
  match r with
  | (Ok _, s') => Some (match tok_at E0 s' alice k with Some t => t_meta t | None => None end)
  | _ => None
  end.
Definition ok_ret (r : res err output * mstate) : option (list bytes * N) :=
  match r with (Ok o, s') => Some (o_returnData o, counter_at s' alice tokN) | _ => None end.

(* the pre-state holds what it should *)
Example ex_pre : balance E0 s0 alice (P ++ tokF) = 100%Z /\ balance E0 s0 alice (nft_key (P ++ tokN) 1) = 5%Z
                 /\ counter_at s0 alice tokN = 1%N
                 /\ has_role E0 s0 alice tokF C.ESDTRoleLocalMint = true.
Proof. vm_compute. repeat split. Qed.

Example ex_local_mint :
  ok_bal (f_local_mint E0 (call alice [tokF; u64_bytes 50]) s0) (P ++ tokF) = Some 150%Z.
Proof. vm_compute. reflexivity. Qed.
Example ex_local_burn :
  ok_bal (f_local_burn E0 (call alice [tokF; u64_bytes 30]) s0) (P ++ tokF) = Some 70%Z.
Proof. vm_compute. reflexivity. Qed.
(* burning everything deletes the entry *)
Example ex_local_burn_all :
  match f_local_burn E0 (call alice [tokF; u64_bytes 100]) s0 with
  | (Ok _, s') => cell s' alice (P ++ tokF) = []
  | _ => False
  end.
Proof. vm_compute. reflexivity. Qed.
Example ex_local_burn_overdraft :
  fst (f_local_burn E0 (call alice [tokF; u64_bytes 101]) s0) = Err EInsufficientFunds.
Proof. vm_compute. reflexivity. Qed.
Example ex_esdt_burn :
  ok_bal (f_esdt_burn E0 (call SC [tokF; u64_bytes 30]) s0) (P ++ tokF) = Some 70%Z.
Proof. vm_compute. reflexivity. Qed.
(* create: 3 pieces under nonce 2 (needs the add-quantity role as well), counter 1 -> 2, nonce returned *)
Definition create_args : list bytes :=
  [tokN; u64_bytes 3; str "name2"%string; u64_bytes 500; str "hash2"%string; str "attr2"%string;
   str "uriA"%string; str "uriB"%string].
Example ex_nft_create :
  ok_bal (f_nft_create E0 (call alice create_args) s0) (nft_key (P ++ tokN) 2) = Some 3%Z
  /\ ok_ret (f_nft_create E0 (call alice create_args) s0) = Some ([u64_bytes 2], 2%N)
  /\ ok_meta (f_nft_create E0 (call alice create_args) s0) (nft_key (P ++ tokN) 2) =
     Some (Some {| md_nonce := 2; md_name := str "name2"%string; md_creator := alice; md_royalties := 500;
                   md_hash := str "hash2"%string; md_uris := [str "uriA"%string; str "uriB"%string];
                   md_attributes := str "attr2"%string |}).
Proof. vm_compute. repeat split. Qed.
Example ex_nft_add_quantity :
  ok_bal (f_nft_add_quantity E0 (call alice [tokN; u64_bytes 1; u64_bytes 4]) s0) (nft_key (P ++ tokN) 1) = Some 9%Z.
Proof. vm_compute. reflexivity. Qed.
Example ex_nft_burn :
  ok_bal (f_nft_burn E0 (call alice [tokN; u64_bytes 1; u64_bytes 2]) s0) (nft_key (P ++ tokN) 1) = Some 3%Z.
Proof. vm_compute. reflexivity. Qed.
Example ex_nft_burn_overdraft :
  fst (f_nft_burn E0 (call alice [tokN; u64_bytes 1; u64_bytes 6]) s0) = Err EInvalidNFTQuantity.
Proof. vm_compute. reflexivity. Qed.
Example ex_nft_add_uri :
  ok_meta (f_nft_add_uri E0 (call alice [tokN; u64_bytes 1; str "uri2"%string; str "uri3"%string]) s0)
          (nft_key (P ++ tokN) 1) =
  Some (Some {| md_nonce := 1; md_name := str "name"%string; md_creator := alice; md_royalties := 100;
                md_hash := str "hash"%string;
                md_uris := [str "uri1"%string; str "uri2"%string; str "uri3"%string];
                md_attributes := str "attr"%string |})
  /\ ok_bal (f_nft_add_uri E0 (call alice [tokN; u64_bytes 1; str "uri2"%string; str "uri3"%string]) s0)
            (nft_key (P ++ tokN) 1) = Some 5%Z.
Proof. vm_compute. repeat split. Qed.
Example ex_nft_update_attributes :
  ok_meta (f_nft_update_attributes E0 (call alice [tokN; u64_bytes 1; str "new"%string]) s0)
          (nft_key (P ++ tokN) 1) =
  Some (Some {| md_nonce := 1; md_name := str "name"%string; md_creator := alice; md_royalties := 100;
                md_hash := str "hash"%string; md_uris := [str "uri1"%string];
                md_attributes := str "new"%string |})
  /\ ok_bal (f_nft_update_attributes E0 (call alice [tokN; u64_bytes 1; str "new"%string]) s0)
            (nft_key (P ++ tokN) 1) = Some 5%Z.
Proof. vm_compute. repeat split. Qed.
(* a caller without the role is refused *)
Example ex_no_role :
  fst (f_local_mint E0 (call alice [tokN; u64_bytes 50]) s0) = Err EActionNotAllowed.
Proof. vm_compute. reflexivity. Qed.
