(* Property C08, part 4: routes.  A PLACE is an account in a shard state under an environment; a HOP moves the
   holding of one NFT cell k (= P ++ token id ++ nonce) from one place to another by one of the four transfer routes
   (same shard / cross shard  x  single / multi), the cross-shard ones being a sender-side execution, the emitted
   data string READ BACK BY THE CALL-DATA PARSER (what Ledger/World.v [msg_of_transfer] does), and a destination-side
   execution with exactly the parsed function name and arguments under an environment with the same codec; an IDLE
   step is anything that leaves the metadata of the holder's entry alone (C08_Only.v says which calls do).
   [route_preserves_metadata]: along any list of hops the metadata of the holder's entry stays what it was;
   [created_metadata_arrives]: so what ESDTNFTCreate recorded is what the last holder holds. *)
From EV Require Import Base.Bytes Base.Store Base.Monad gen.Consts Codec.Types Helpers.Helpers
  Parsers.Tokenize Parsers.CallArgs
  Ledger.Types Ledger.Env Ledger.Funcs Ledger.Transfers
  LedgerProofs.Defs LedgerProofs.EnvSpec
  LedgerProofs.Spec_Transfers_Base LedgerProofs.Spec_Transfers_Esdt LedgerProofs.Spec_Transfers_Nft
  LedgerProofs.Spec_Transfers_Multi LedgerProofs.Spec_Transfers LedgerProofs.Spec_Supply
  LedgerProofs.C08_Base LedgerProofs.C08_Multi.

Record place := { pl_env : env; pl_state : mstate; pl_acct : bytes }.
Definition pl (E : env) (s : mstate) (a : bytes) : place := {| pl_env := E; pl_state := s; pl_acct := a |}.
(* metadata of the entry the place's account holds under the full key k (None: no entry / no metadata) *)
Definition pl_meta (k : bytes) (p : place) : option metadata := meta_at (pl_env p) (pl_state p) (pl_acct p) k.

Section Route.
  Variable cd : codec.
  Variable k : bytes.

  Inductive hop : place -> place -> Prop :=
  (* nothing happens to the holder's metadata (time passes, other calls execute) *)
  | hop_idle E s s' a : meta_at E s' a k = meta_at E s a k -> hop (pl E s a) (pl E s' a)
  (* ESDTNFTTransfer inside one shard *)
  | hop_nft_same E i s o s' : cdc E = cd ->
      exec E F_NFTT i s = (Ok o, s') -> i_caller i = i_rcpt i -> nft_same E i = true ->
      lookup_consistent E s (i_caller i) (nft_tkey i) (nft_nonce i) ->
      k = nft_cell i -> tok_at E s' (nft_dst i) k <> None ->
      hop (pl E s (i_caller i)) (pl E s' (nft_dst i))
  (* ESDTNFTTransfer across shards: sender side, message, destination side *)
  | hop_nft_cross EA EB iA sA oA sA' iB sB oB sB' tr fn : cdc EA = cd -> cdc EB = cd ->
      exec EA F_NFTT iA sA = (Ok oA, sA') -> i_caller iA = i_rcpt iA -> nft_same EA iA = false ->
      lookup_consistent EA sA (i_caller iA) (nft_tkey iA) (nft_nonce iA) ->
      o_accounts oA = [{| oc_addr := i_rcpt iB; oc_delta := 0; oc_transfers := [tr] |}] ->
      parse_call_data (tr_data tr) = Some (fn, i_args iB) ->
      exec EB fn iB sB = (Ok oB, sB') -> i_caller iB <> i_rcpt iB ->
      k = nft_cell iA -> tok_at EB sB' (i_rcpt iB) k <> None ->
      hop (pl EA sA (i_caller iA)) (pl EB sB' (i_rcpt iB))
  (* MultiESDTNFTTransfer inside one shard: any of its NFT triples *)
  | hop_multi_same E i s o s' x : cdc E = cd ->
      exec E F_MULTIT i s = (Ok o, s') -> i_caller i = i_rcpt i -> multi_same E i = true ->
      triples_consistent E s (i_caller i) (multi_snd_triples i) ->
      In x (multi_snd_triples i) -> (0 < rt_nonce x)%N ->
      k = rt_cell x -> tok_at E s' (multi_dst i) k <> None ->
      hop (pl E s (i_caller i)) (pl E s' (multi_dst i))
  (* MultiESDTNFTTransfer across shards *)
  | hop_multi_cross EA EB iA sA oA sA' iB sB oB sB' tr fn x : cdc EA = cd -> cdc EB = cd ->
      exec EA F_MULTIT iA sA = (Ok oA, sA') -> i_caller iA = i_rcpt iA -> multi_same EA iA = false ->
      triples_consistent EA sA (i_caller iA) (multi_snd_triples iA) ->
      o_accounts oA = [{| oc_addr := i_rcpt iB; oc_delta := 0; oc_transfers := [tr] |}] ->
      parse_call_data (tr_data tr) = Some (fn, i_args iB) ->
      exec EB fn iB sB = (Ok oB, sB') -> i_caller iB <> i_rcpt iB ->
      In x (multi_snd_triples iA) -> (0 < rt_nonce x)%N ->
      k = rt_cell x -> tok_at EB sB' (i_rcpt iB) k <> None ->
      hop (pl EA sA (i_caller iA)) (pl EB sB' (i_rcpt iB)).

  Inductive route : place -> place -> Prop :=
  | route_nil p : route p p
  | route_cons p q r : hop p q -> route q r -> route p r.

  Hypothesis Hcd : codec_ok cd.

  Lemma pl_meta_of E s a t m : tok_at E s a k = Some t -> t_meta t = Some m -> pl_meta k (pl E s a) = Some m.
  Proof. intros Ht Hm. unfold pl_meta, pl, meta_at. cbn. rewrite Ht. exact Hm. Qed.
  Lemma pl_meta_arrived E s a m : tok_at E s a k <> None -> (forall t', tok_at E s a k = Some t' -> t_meta t' = Some m) ->
    pl_meta k (pl E s a) = Some m.
  Proof.
    intros Hn Hall. destruct (tok_at E s a k) as [t'|] eqn:Et; [|contradiction]. eapply pl_meta_of; eauto.
  Qed.

  (* one hop: the new holder's entry carries the metadata the old holder's entry carried *)
  Theorem hop_preserves_metadata p q : hop p q -> pl_meta k q = pl_meta k p.
  Proof.
    intros H. destruct H as [E s s' a Hm
                            |E i s o s' Hce H Heq Hs Hlc Hk Hex
                            |EA EB iA sA oA sA' iB sB oB sB' tr fn HcA HcB HA Heq Hs Hlc Hacc Hparse HB Hne Hk Hex
                            |E i s o s' x Hce H Heq Hs Hcons Hx Hn Hk Hex
                            |EA EB iA sA oA sA' iB sB oB sB' tr fn x HcA HcB HA Heq Hs Hcons Hacc Hparse HB Hne Hx Hn Hk Hex].
    - exact Hm.
    - assert (Hc : codec_ok (cdc E)) by (rewrite Hce; exact Hcd).
      destruct (hop_same_single E Hc _ _ _ _ H Heq Hs Hlc) as (t & m & Ht & Hm & _ & Hd & _). rewrite <- Hk in Ht, Hd.
      rewrite (pl_meta_of _ _ _ _ _ Ht Hm). apply pl_meta_arrived; assumption.
    - assert (Hc : codec_ok (cdc EA)) by (rewrite HcA; exact Hcd).
      destruct (hop_cross_single EA EB Hc (eq_trans HcB (eq_sym HcA)) _ _ _ _ _ _ _ _ _ _ HA Heq Hs Hlc Hacc Hparse HB Hne)
        as (t & m & Ht & Hm & _ & _ & _ & Hd). rewrite <- Hk in Ht, Hd.
      rewrite (pl_meta_of _ _ _ _ _ Ht Hm). apply pl_meta_arrived; assumption.
    - assert (Hc : codec_ok (cdc E)) by (rewrite Hce; exact Hcd).
      destruct (hop_same_multi E Hc _ _ _ _ H Heq Hs Hcons x Hx) as (t0 & Ht0 & Hpos & Hd & _). rewrite <- Hk in Ht0, Hd.
      destruct (Hpos Hn) as (m & Hm). rewrite (pl_meta_of _ _ _ _ _ Ht0 Hm). apply pl_meta_arrived; [assumption|].
      intros t' Ht'. rewrite (Hd _ Ht'). exact Hm.
    - assert (Hc : codec_ok (cdc EA)) by (rewrite HcA; exact Hcd).
      destruct (hop_cross_multi EA EB Hc (eq_trans HcB (eq_sym HcA)) _ _ _ _ _ _ _ _ _ _ HA Heq Hs Hcons Hacc Hparse HB Hne)
        as (_ & _ & Hall).
      destruct (Hall x Hx Hn) as (t0 & m & Ht0 & Hm & Hd). rewrite <- Hk in Ht0, Hd.
      rewrite (pl_meta_of _ _ _ _ _ Ht0 Hm). apply pl_meta_arrived; assumption.
  Qed.

  (* any list of hops *)
  Theorem route_preserves_metadata p q : route p q -> pl_meta k q = pl_meta k p.
  Proof.
    induction 1 as [p|p q r Hh Hr IH]; [reflexivity|]. rewrite IH. apply hop_preserves_metadata. exact Hh.
  Qed.
End Route.

(* creation followed by any route: the last holder holds exactly the metadata ESDTNFTCreate recorded *)
Theorem created_metadata_arrives E (Hc : codec_ok (cdc E)) i s o s' q :
  exec E F_CREATE i s = (Ok o, s') ->
  route (cdc E) (nft_key (P ++ argn i 0) (create_nonce i s)) (pl E s' (i_caller i)) q ->
  pl_meta (nft_key (P ++ argn i 0) (create_nonce i s)) q = t_meta (created_token i s).
Proof.
  intros H Hr. rewrite (route_preserves_metadata (cdc E) _ Hc _ _ Hr).
  destruct (create_records_metadata_exec E Hc _ _ _ _ H) as (Ht & _). cbv zeta in Ht.
  unfold pl_meta, pl, meta_at. cbn [pl_env pl_state pl_acct]. rewrite Ht. reflexivity.
Qed.

Print Assumptions hop_preserves_metadata.
Print Assumptions route_preserves_metadata.
Print Assumptions created_metadata_arrives.
