(* Characterising lemmas of the dependency primitives and shared helpers of Ledger/Env.v
   (and add_nft_to_destination / check_payable of Ledger/Transfers.v).  Foundation of the ledger proofs.

   Vocabulary (relations between a pre-state s and a post-state s'):
     nofault E s s'     calls s <= calls s', and none of the dependency calls made between s and s'
                        (indices calls s .. calls s' - 1) is planned to fail
     rd E s s'          "read only": accts s' = accts s, allocs s' = allocs s, nofault E s s'
     wr E a k v s s'    exactly one storage cell was written:
                        accts s' = aput (accts s) a (acct s a with store cell k := v), allocs equal, nofault
     tok_or_default E s a k   the entry as the Go code reads it (absent = default_tok, else dec_tok of the cell)
     val_or_0 t               value of a token, 0 if nil
   Naming: [foo_ok] inverts [foo ... s = (Ok x, s')]; [foo_succeeds] is the converse (liveness) direction
   (under [no_faults E] or [plan E (calls s) = false] where a dependency is called); [foo_eq] computes a
   helper that cannot fail.  Lemmas take [codec_ok (cdc E)] only when their proof needs it.
   Sections: 1 pure facts (u64 arithmetic, keys, gas helpers, role lists)   2 nofault/rd/wr + primitives (+ Ltac pinv)
             3 helpers   4 Ltac einv   5 frames (unchanged_except -> observables), sums over accounts
             6 mono (call counter monotone for every result; Ltac mono_tac, hint db mono)
             7 panic freedom (panicfree / nopanic; Ltac panicfree_tac, hint db panicfree). *)
From EV Require Import Base.Bytes Base.Store Base.Monad gen.Consts Codec.Types Helpers.Helpers
  Ledger.Types Ledger.Env Ledger.Funcs Ledger.Transfers LedgerProofs.Defs.

Arguments dep : simpl never.
Arguments retrieve : simpl never.
Arguments write_kv : simpl never.
Arguments save_kv : simpl never.
Arguments load_account : simpl never.
Arguments save_account : simpl never.
Arguments marshal_tok : simpl never.
Arguments unmarshal_tok : simpl never.
Arguments marshal_rol : simpl never.
Arguments unmarshal_rol : simpl never.
Arguments is_payable : simpl never.
Arguments upd_acct : simpl never.
Arguments get_acct : simpl never.
Arguments alloc : simpl never.
Arguments arg : simpl never.
Arguments args_from : simpl never.
Arguments val_of : simpl never.
Arguments meta_of : simpl never.
Arguments get_esdt_data : simpl never.
Arguments is_paused : simpl never.
Arguments check_froze_and_pause : simpl never.
Arguments save_esdt_data : simpl never.
Arguments add_to_esdt_balance : simpl never.
Arguments get_nft_on_destination : simpl never.
Arguments get_nft_on_sender : simpl never.
Arguments save_nft : simpl never.
Arguments get_latest_nonce : simpl never.
Arguments save_latest_nonce : simpl never.
Arguments get_roles : simpl never.
Arguments check_allowed : simpl never.
Arguments save_roles : simpl never.
Arguments check_payable : simpl never.
Arguments add_nft_to_destination : simpl never.
Arguments sub64 : simpl never.
Arguments add64 : simpl never.
Arguments mul64 : simpl never.
Arguments u64 : simpl never.
Arguments nft_key : simpl never.

(* ================================================================== *)
(* 1. Pure facts: machine arithmetic, byte encodings of numbers, flags *)
(* ================================================================== *)

Lemma two64_val : two64 = 18446744073709551616%N. Proof. reflexivity. Qed.
Lemma u64_lt n : (u64 n < two64)%N.
Proof. unfold u64, two64. lia. Qed.
Lemma u64_small n : (n < two64)%N -> u64 n = n.
Proof. unfold u64, two64. intros H. apply N.mod_small. exact H. Qed.
Lemma u64_le n : (u64 n <= n)%N.
Proof. unfold u64. lia. Qed.
Lemma sub64_exact a b : (b <= a)%N -> (a < two64)%N -> sub64 a b = (a - b)%N.
Proof. unfold sub64, two64. intros H1 H2. lia. Qed.
Lemma sub64_le a b : (b <= a)%N -> (sub64 a b <= a - b)%N.
Proof. unfold sub64, two64. intros H1. lia. Qed.
Lemma sub64_lt a b : (sub64 a b < two64)%N.
Proof. unfold sub64, two64. lia. Qed.
Lemma add64_exact a b : (a + b < two64)%N -> add64 a b = (a + b)%N.
Proof. unfold add64. apply u64_small. Qed.
Lemma add64_lt a b : (add64 a b < two64)%N.
Proof. apply u64_lt. Qed.
Lemma mul64_exact a b : (a * b < two64)%N -> mul64 a b = (a * b)%N.
Proof. unfold mul64. apply u64_small. Qed.
Lemma mul64_lt a b : (mul64 a b < two64)%N.
Proof. apply u64_lt. Qed.

Lemma u64_bytes_0 : u64_bytes 0 = [].
Proof. reflexivity. Qed.
Lemma u64_bytes_nil n : u64_bytes n = [] -> n = 0%N.
Proof. unfold u64_bytes. intros H. rewrite <- (be_to_N_to_be n), H. reflexivity. Qed.
Lemma u64_bytes_inj n m : u64_bytes n = u64_bytes m -> n = m.
Proof. unfold u64_bytes. intros H. rewrite <- (be_to_N_to_be n), <- (be_to_N_to_be m), H. reflexivity. Qed.
Lemma bigU64_u64_bytes n : bigU64 (u64_bytes n) = u64 n.
Proof. unfold bigU64, u64_bytes. rewrite be_to_N_to_be. reflexivity. Qed.
Lemma bigU64_lt b : (bigU64 b < two64)%N.
Proof. apply u64_lt. Qed.
Lemma bigU64_nil : bigU64 [] = 0%N.
Proof. reflexivity. Qed.
Lemma bigZ_nonneg b : (0 <= bigZ b)%Z.
Proof. unfold bigZ. lia. Qed.
Lemma bigZ_nil : bigZ [] = 0%Z.
Proof. reflexivity. Qed.

Lemma frozen_props_nil : frozen_props [] = false. Proof. reflexivity. Qed.
Lemma paused_val_nil : paused_val [] = false. Proof. reflexivity. Qed.
Lemma all_zero_nil : all_zero [] = true. Proof. reflexivity. Qed.
Lemma frozen_props_flag_bytes f : frozen_props (flag_bytes f) = f.
Proof. destruct f; vm_compute; reflexivity. Qed.
Lemma all_zero_flag_bytes f : all_zero (flag_bytes f) = negb f.
Proof. destruct f; vm_compute; reflexivity. Qed.
Lemma flag_bytes_nonempty f : flag_bytes f <> [].
Proof. destruct f; vm_compute; discriminate. Qed.

(* ---- keys ---- *)
Lemma nft_key_0 key : nft_key key 0 = key.
Proof. unfold nft_key. rewrite u64_bytes_0. apply app_nil_r. Qed.
Lemma nft_key_inj key n m : nft_key key n = nft_key key m -> n = m.
Proof. unfold nft_key. intros H. apply app_inv_head in H. apply u64_bytes_inj. exact H. Qed.
Lemma nft_key_eq_key key n : nft_key key n = key -> n = 0%N.
Proof. intros H. rewrite <- (nft_key_0 key) in H at 2. eapply nft_key_inj; eauto. Qed.
Lemma nft_key_app p tok n : nft_key (p ++ tok) n = p ++ (tok ++ u64_bytes n).
Proof. unfold nft_key. rewrite app_assoc. reflexivity. Qed.

Lemma P_protected x : prefix_of C.ElrondProtectedKeyPrefix (P ++ x) = true.
Proof. unfold P. rewrite <- app_assoc. apply prefix_of_app. Qed.
Lemma RP_protected x : prefix_of C.ElrondProtectedKeyPrefix (RP ++ x) = true.
Proof. unfold RP. rewrite <- app_assoc. apply prefix_of_app. Qed.
Lemma NP_protected x : prefix_of C.ElrondProtectedKeyPrefix (NP ++ x) = true.
Proof. unfold NP. rewrite <- app_assoc. apply prefix_of_app. Qed.
Lemma nft_key_protected tok n : prefix_of C.ElrondProtectedKeyPrefix (nft_key (P ++ tok) n) = true.
Proof. rewrite nft_key_app. apply P_protected. Qed.

Lemma key_allowed_protected r : key_allowed (C.ElrondProtectedKeyPrefix ++ r) = false.
Proof.
  unfold key_allowed, is_allowed_to_save_under_key, blen, slice_to.
  rewrite app_length.
  destruct (N.of_nat (length C.ElrondProtectedKeyPrefix + length r) <? N.of_nat (length C.ElrondProtectedKeyPrefix))%N eqn:E1; [lia|].
  destruct (N.of_nat (length C.ElrondProtectedKeyPrefix) <=? N.of_nat (length C.ElrondProtectedKeyPrefix + length r))%N eqn:E2; [|lia].
  rewrite Nnat.Nat2N.id, firstn_app, Nat.sub_diag, firstn_all. simpl firstn. rewrite app_nil_r, beqb_refl. reflexivity.
Qed.
Lemma key_allowed_prefix k : prefix_of C.ElrondProtectedKeyPrefix k = true -> key_allowed k = false.
Proof. intros H. apply prefix_of_true in H as [r ->]. apply key_allowed_protected. Qed.
Lemma key_allowed_P x : key_allowed (P ++ x) = false.
Proof. apply key_allowed_prefix, P_protected. Qed.
Lemma key_allowed_RP x : key_allowed (RP ++ x) = false.
Proof. apply key_allowed_prefix, RP_protected. Qed.
Lemma key_allowed_NP x : key_allowed (NP ++ x) = false.
Proof. apply key_allowed_prefix, NP_protected. Qed.

(* the three key classes are pairwise disjoint *)
Lemma P_RP_disjoint x y : P ++ x <> RP ++ y.
Proof. intros H. vm_compute in H. discriminate H. Qed.
Lemma P_NP_disjoint x y : P ++ x <> NP ++ y.
Proof. intros H. vm_compute in H. discriminate H. Qed.
Lemma RP_NP_disjoint x y : RP ++ x <> NP ++ y.
Proof. intros H. vm_compute in H. discriminate H. Qed.
Lemma nft_key_RP_disjoint tok n y : nft_key (P ++ tok) n <> RP ++ y.
Proof. rewrite nft_key_app. apply P_RP_disjoint. Qed.
Lemma nft_key_NP_disjoint tok n y : nft_key (P ++ tok) n <> NP ++ y.
Proof. rewrite nft_key_app. apply P_NP_disjoint. Qed.
Lemma P_app_inj x y : P ++ x = P ++ y -> x = y.
Proof. apply app_inv_head. Qed.
Lemma RP_app_inj x y : RP ++ x = RP ++ y -> x = y.
Proof. apply app_inv_head. Qed.
Lemma NP_app_inj x y : NP ++ x = NP ++ y -> x = y.
Proof. apply app_inv_head. Qed.
Lemma SC_ne_SYS : SC <> SYS.
Proof. intros H. vm_compute in H. discriminate H. Qed.

(* ---- gas helpers ---- *)
Lemma compute_gas_remaining_le snd p c : (compute_gas_remaining snd p c <= p)%N.
Proof.
  unfold compute_gas_remaining. destruct (p <? c)%N eqn:E1; [lia|]. destruct snd; [|lia].
  pose proof (sub64_le p c). lia.
Qed.
Lemma compute_gas_remaining_exact snd p c : (p < two64)%N ->
  compute_gas_remaining snd p c = if (snd && (c <=? p)%N)%bool then (p - c)%N else 0%N.
Proof.
  intros Hp. unfold compute_gas_remaining. destruct (p <? c)%N eqn:E1.
  - destruct (c <=? p)%N eqn:E2; [lia|]. rewrite andb_false_r. reflexivity.
  - destruct (c <=? p)%N eqn:E2; [|lia]. rewrite andb_true_r. destruct snd; [|reflexivity].
    apply sub64_exact; lia.
Qed.
Lemma compute_gas_remaining_nosnd p c : compute_gas_remaining false p c = 0%N.
Proof. unfold compute_gas_remaining. destruct (p <? c)%N; reflexivity. Qed.

Lemma must_verify_payable_true i minLen :
  must_verify_payable i minLen = true <->
  i_callType i <> C.AsynchronousCallBack /\ i_callType i <> C.ESDTTransferAndExecute
  /\ i_caller i <> SC /\ (alen (i_args i) <= minLen)%N.
Proof.
  unfold must_verify_payable.
  destruct (i_callType i =? C.AsynchronousCallBack)%N eqn:E1; simpl.
  { split; [discriminate|]. intros (H & _). apply N.eqb_eq in E1. contradiction. }
  destruct (i_callType i =? C.ESDTTransferAndExecute)%N eqn:E2; simpl.
  { split; [discriminate|]. intros (_ & H & _). apply N.eqb_eq in E2. contradiction. }
  destruct (beqb_spec (i_caller i) SC) as [Heq|Hne].
  { split; [discriminate|]. intros (_ & _ & H & _). contradiction. }
  apply N.eqb_neq in E1. apply N.eqb_neq in E2.
  destruct (minLen <? alen (i_args i))%N eqn:E3.
  - split; [discriminate|]. intros (_ & _ & _ & H). lia.
  - split; [|reflexivity]. intros _. repeat split; auto. lia.
Qed.
Lemma must_verify_payable_false_sc i minLen : i_caller i = SC -> must_verify_payable i minLen = false.
Proof.
  intros H. destruct (must_verify_payable i minLen) eqn:E0; [|reflexivity].
  apply must_verify_payable_true in E0 as (_ & _ & Hn & _). contradiction.
Qed.

(* ---- role lists ---- *)
Lemma remove_first_In x y l : In x (remove_first y l) -> In x l.
Proof.
  induction l as [|z r IH]; simpl; [auto|].
  destruct (beqb z y); simpl; [auto|]. intros [H|H]; auto.
Qed.
Lemma remove_first_keep x y l : x <> y -> In x l -> In x (remove_first y l).
Proof.
  intros Hne. induction l as [|z r IH]; simpl; [auto|].
  destruct (beqb_spec z y) as [->|Hzy]; simpl.
  - intros [H|H]; [congruence|exact H].
  - intros [H|H]; auto.
Qed.
Lemma remove_first_NoDup y l : NoDup l -> NoDup (remove_first y l).
Proof.
  induction l as [|z r IH]; simpl; intros Hnd; [constructor|].
  inversion Hnd; subst. destruct (beqb z y); [assumption|].
  constructor; [|auto]. intros Hin. apply remove_first_In in Hin. contradiction.
Qed.
Lemma remove_first_removed y l : NoDup l -> ~ In y (remove_first y l).
Proof.
  induction l as [|z r IH]; simpl; intros Hnd; [auto|].
  inversion Hnd; subst. destruct (beqb_spec z y) as [->|Hzy]; [assumption|].
  simpl. intros [H|H]; [contradiction|]. apply IH; assumption.
Qed.
Lemma remove_first_notin y l : ~ In y l -> remove_first y l = l.
Proof.
  induction l as [|z r IH]; simpl; intros Hn; [reflexivity|].
  destruct (beqb_spec z y) as [->|Hzy]; [exfalso; apply Hn; left; reflexivity|].
  f_equal. apply IH. intros H. apply Hn. right. exact H.
Qed.
Lemma delete_roles_nil l : delete_roles l [] = l.
Proof. reflexivity. Qed.
Lemma delete_roles_cons l r rs : delete_roles l (r :: rs) = delete_roles (remove_first r l) rs.
Proof. reflexivity. Qed.
Lemma delete_roles_In x l rs : In x (delete_roles l rs) -> In x l.
Proof.
  revert l. induction rs as [|r rs IH]; intros l; [auto|].
  rewrite delete_roles_cons. intros H. apply IH in H. eapply remove_first_In; eauto.
Qed.
Lemma delete_roles_keep x l rs : ~ In x rs -> In x l -> In x (delete_roles l rs).
Proof.
  revert l. induction rs as [|r rs IH]; intros l Hn Hin; [exact Hin|].
  rewrite delete_roles_cons. apply IH; [intros H; apply Hn; right; exact H|].
  apply remove_first_keep; [intros ->; apply Hn; left; reflexivity|exact Hin].
Qed.
Lemma delete_roles_NoDup l rs : NoDup l -> NoDup (delete_roles l rs).
Proof.
  revert l. induction rs as [|r rs IH]; intros l H; [exact H|].
  rewrite delete_roles_cons. apply IH, remove_first_NoDup, H.
Qed.
Lemma delete_roles_removed x l rs : NoDup l -> In x rs -> ~ In x (delete_roles l rs).
Proof.
  revert l. induction rs as [|r rs IH]; intros l Hnd Hin; [destruct Hin|].
  rewrite delete_roles_cons. destruct (beqb_spec r x) as [->|Hne].
  - intros H. apply delete_roles_In in H. eapply remove_first_removed; eauto.
  - destruct Hin as [H|H]; [contradiction|]. apply IH; [apply remove_first_NoDup; exact Hnd|exact H].
Qed.

(* ---- state projections ---- *)
Lemma acct_with_accts s m a : acct (with_accts s m) a = aget empty_account m a.
Proof. reflexivity. Qed.
Lemma accts_with_accts s m : accts (with_accts s m) = m. Proof. reflexivity. Qed.
Lemma calls_with_accts s m : calls (with_accts s m) = calls s. Proof. reflexivity. Qed.
Lemma allocs_with_accts s m : allocs (with_accts s m) = allocs s. Proof. reflexivity. Qed.
Lemma a_store_set_store x st : a_store (set_store x st) = st. Proof. reflexivity. Qed.
Lemma set_store_fields x st : acct_fields_eq (set_store x st) x.
Proof. repeat split. Qed.
Lemma acct_fields_eq_sym x y : acct_fields_eq x y -> acct_fields_eq y x.
Proof. unfold acct_fields_eq. intros (?&?&?&?). repeat split; congruence. Qed.

Lemma wf_default_tok : wf_token default_tok.
Proof. split; [vm_compute; reflexivity|exact I]. Qed.
Lemma wf_set_value t v : wf_token t -> wf_token (set_value t v).
Proof. exact (fun H => H). Qed.
Lemma wf_set_props t p : wf_token t -> wf_token (set_props t p).
Proof. exact (fun H => H). Qed.
Lemma tok_nonce_set_value t v : tok_nonce (set_value t v) = tok_nonce t. Proof. reflexivity. Qed.
Lemma tok_nonce_set_props t p : tok_nonce (set_props t p) = tok_nonce t. Proof. reflexivity. Qed.
Lemma tok_nonce_lt t : wf_token t -> (tok_nonce t < two64)%N.
Proof.
  unfold wf_token, tok_nonce, wf_metadata. intros [_ H]. destruct (t_meta t); [tauto|]. reflexivity.
Qed.

(* ================================================================== *)
(* 2. nofault / rd / wr and the primitives                               *)
(* ================================================================== *)
Section Prim.
  Variable E : env.

  Definition nofault (s s' : mstate) : Prop :=
    calls s <= calls s' /\ forall n, calls s <= n < calls s' -> plan E n = false.
  Lemma nofault_refl s : nofault s s.
  Proof. split; [lia|intros; lia]. Qed.
  Lemma nofault_trans a b c : nofault a b -> nofault b c -> nofault a c.
  Proof.
    intros [H1 H2] [H3 H4]. split; [lia|]. intros n Hn.
    destruct (Nat.lt_ge_cases n (calls b)); [apply H2|apply H4]; lia.
  Qed.
  Lemma nofault_dep s s' : plan E (calls s) = false -> calls s' = S (calls s) -> nofault s s'.
  Proof. intros Hp Hc. split; [lia|]. intros n Hn. assert (n = calls s) by lia. subst. exact Hp. Qed.
  Lemma nofault_eqcalls s s' : calls s' = calls s -> nofault s s'.
  Proof. intros H. split; [lia|intros; lia]. Qed.
  Lemma nofault_le s s' : nofault s s' -> calls s <= calls s'.
  Proof. intros [H _]. exact H. Qed.
  Lemma nofault_no_fault s s' n : nofault s s' -> calls s <= n < calls s' -> plan E n = false.
  Proof. intros [_ H]. apply H. Qed.

  (* observables only depend on [accts] *)
  Lemma acct_accts s s' a : accts s' = accts s -> acct s' a = acct s a.
  Proof. unfold acct. intros ->. reflexivity. Qed.
  Lemma cell_accts s s' a k : accts s' = accts s -> cell s' a k = cell s a k.
  Proof. unfold cell. intros H. rewrite (acct_accts _ _ _ H). reflexivity. Qed.
  Lemma tok_at_accts s s' a k : accts s' = accts s -> tok_at E s' a k = tok_at E s a k.
  Proof. unfold tok_at. intros H. rewrite (cell_accts _ _ _ _ H). reflexivity. Qed.
  Lemma balance_accts s s' a k : accts s' = accts s -> balance E s' a k = balance E s a k.
  Proof. unfold balance. intros H. rewrite (cell_accts _ _ _ _ H). reflexivity. Qed.
  Lemma frozen_at_accts s s' a k : accts s' = accts s -> frozen_at E s' a k = frozen_at E s a k.
  Proof. unfold frozen_at. intros H. rewrite (tok_at_accts _ _ _ _ H). reflexivity. Qed.
  Lemma paused_at_accts s s' k : accts s' = accts s -> paused_at s' k = paused_at s k.
  Proof. unfold paused_at. intros H. rewrite (cell_accts _ _ _ _ H). reflexivity. Qed.
  Lemma roles_at_accts s s' a tok : accts s' = accts s -> roles_at E s' a tok = roles_at E s a tok.
  Proof. unfold roles_at. intros H. rewrite (cell_accts _ _ _ _ H). reflexivity. Qed.
  Lemma has_role_accts s s' a tok r : accts s' = accts s -> has_role E s' a tok r = has_role E s a tok r.
  Proof. unfold has_role. intros H. rewrite (roles_at_accts _ _ _ _ H). reflexivity. Qed.
  Lemma counter_at_accts s s' a tok : accts s' = accts s -> counter_at s' a tok = counter_at s a tok.
  Proof. unfold counter_at. intros H. rewrite (cell_accts _ _ _ _ H). reflexivity. Qed.
  Lemma same_world_accts s s' : accts s' = accts s -> same_world s s'.
  Proof. intros H a. rewrite (acct_accts _ _ a H). split; [reflexivity|apply acct_fields_eq_refl]. Qed.
  Lemma unchanged_except_accts F G s s' : accts s' = accts s -> unchanged_except F G s s'.
  Proof.
    intros H. split; intros.
    - apply cell_accts; exact H.
    - rewrite (acct_accts _ _ _ H). apply acct_fields_eq_refl.
  Qed.

  (* ---- rd ---- *)
  Definition rd (s s' : mstate) : Prop := accts s' = accts s /\ allocs s' = allocs s /\ nofault s s'.
  Lemma rd_refl s : rd s s.
  Proof. split; [reflexivity|split; [reflexivity|apply nofault_refl]]. Qed.
  Lemma rd_trans a b c : rd a b -> rd b c -> rd a c.
  Proof. intros (H1&H2&H3) (H4&H5&H6). split; [congruence|split; [congruence|eapply nofault_trans; eauto]]. Qed.
  Lemma rd_accts s s' : rd s s' -> accts s' = accts s. Proof. intros (H&_). exact H. Qed.
  Lemma rd_allocs s s' : rd s s' -> allocs s' = allocs s. Proof. intros (_&H&_). exact H. Qed.
  Lemma rd_nofault s s' : rd s s' -> nofault s s'. Proof. intros (_&_&H). exact H. Qed.
  Lemma rd_calls s s' : rd s s' -> calls s <= calls s'. Proof. intros H. apply nofault_le, rd_nofault, H. Qed.
  Lemma rd_acct s s' a : rd s s' -> acct s' a = acct s a. Proof. intros H. apply acct_accts, rd_accts, H. Qed.
  Lemma rd_cell s s' a k : rd s s' -> cell s' a k = cell s a k. Proof. intros H. apply cell_accts, rd_accts, H. Qed.
  Lemma rd_tok_at s s' a k : rd s s' -> tok_at E s' a k = tok_at E s a k. Proof. intros H. apply tok_at_accts, rd_accts, H. Qed.
  Lemma rd_balance s s' a k : rd s s' -> balance E s' a k = balance E s a k. Proof. intros H. apply balance_accts, rd_accts, H. Qed.
  Lemma rd_frozen_at s s' a k : rd s s' -> frozen_at E s' a k = frozen_at E s a k. Proof. intros H. apply frozen_at_accts, rd_accts, H. Qed.
  Lemma rd_paused_at s s' k : rd s s' -> paused_at s' k = paused_at s k. Proof. intros H. apply paused_at_accts, rd_accts, H. Qed.
  Lemma rd_roles_at s s' a tok : rd s s' -> roles_at E s' a tok = roles_at E s a tok. Proof. intros H. apply roles_at_accts, rd_accts, H. Qed.
  Lemma rd_has_role s s' a tok r : rd s s' -> has_role E s' a tok r = has_role E s a tok r. Proof. intros H. apply has_role_accts, rd_accts, H. Qed.
  Lemma rd_counter_at s s' a tok : rd s s' -> counter_at s' a tok = counter_at s a tok. Proof. intros H. apply counter_at_accts, rd_accts, H. Qed.
  Lemma rd_same_world s s' : rd s s' -> same_world s s'. Proof. intros H. apply same_world_accts, rd_accts, H. Qed.
  Lemma rd_unchanged F G s s' : rd s s' -> unchanged_except F G s s'. Proof. intros H. apply unchanged_except_accts, rd_accts, H. Qed.

  (* ---- wr ---- *)
  Definition wr (a k v : bytes) (s s' : mstate) : Prop :=
    accts s' = aput (accts s) a (set_store (acct s a) (sput (a_store (acct s a)) k v))
    /\ allocs s' = allocs s /\ nofault s s'.
  Lemma wr_accts a k v s s' : wr a k v s s' ->
    accts s' = aput (accts s) a (set_store (acct s a) (sput (a_store (acct s a)) k v)).
  Proof. intros (H&_). exact H. Qed.
  Lemma wr_allocs a k v s s' : wr a k v s s' -> allocs s' = allocs s. Proof. intros (_&H&_). exact H. Qed.
  Lemma wr_nofault a k v s s' : wr a k v s s' -> nofault s s'. Proof. intros (_&_&H). exact H. Qed.
  Lemma wr_calls a k v s s' : wr a k v s s' -> calls s <= calls s'. Proof. intros H. eapply nofault_le, wr_nofault, H. Qed.
  Lemma rd_wr a k v s s1 s' : rd s s1 -> wr a k v s1 s' -> wr a k v s s'.
  Proof.
    intros (H1&H2&H3) (H4&H5&H6). unfold wr. rewrite H4. unfold acct. rewrite H1.
    split; [reflexivity|split; [congruence|eapply nofault_trans; eauto]].
  Qed.
  Lemma wr_rd a k v s s1 s' : wr a k v s s1 -> rd s1 s' -> wr a k v s s'.
  Proof.
    intros (H1&H2&H3) (H4&H5&H6). unfold wr. rewrite H4, H1.
    split; [reflexivity|split; [congruence|eapply nofault_trans; eauto]].
  Qed.
  Lemma wr_acct_eq a k v s s' : wr a k v s s' ->
    acct s' a = set_store (acct s a) (sput (a_store (acct s a)) k v).
  Proof. intros (H&_). unfold acct at 1. rewrite H. apply aget_aput_eq. Qed.
  Lemma wr_acct_ne a k v s s' a' : wr a k v s s' -> a' <> a -> acct s' a' = acct s a'.
  Proof. intros (H&_) Hne. unfold acct at 1. rewrite H. apply aget_aput_ne. exact Hne. Qed.
  Lemma wr_cell_eq a k v s s' : wr a k v s s' -> cell s' a k = v.
  Proof. intros H. unfold cell. rewrite (wr_acct_eq _ _ _ _ _ H). simpl. apply sget_put_eq. Qed.
  Lemma wr_cell_other a k v s s' a' k' : wr a k v s s' -> a' <> a \/ k' <> k -> cell s' a' k' = cell s a' k'.
  Proof.
    intros H Hne. unfold cell. destruct (beqb_spec a' a) as [->|Ha].
    - destruct Hne as [Hne|Hne]; [congruence|].
      rewrite (wr_acct_eq _ _ _ _ _ H). simpl. apply sget_put_ne. exact Hne.
    - rewrite (wr_acct_ne _ _ _ _ _ _ H Ha). reflexivity.
  Qed.
  Lemma wr_cell a k v s s' a' k' : wr a k v s s' ->
    cell s' a' k' = if (beqb a' a && beqb k' k)%bool then v else cell s a' k'.
  Proof.
    intros H. destruct (beqb_spec a' a) as [->|Ha]; simpl.
    - destruct (beqb_spec k' k) as [->|Hk]; [apply (wr_cell_eq _ _ _ _ _ H)|].
      apply (wr_cell_other _ _ _ _ _ _ _ H). right. exact Hk.
    - apply (wr_cell_other _ _ _ _ _ _ _ H). left. exact Ha.
  Qed.
  Lemma wr_fields a k v s s' a' : wr a k v s s' -> acct_fields_eq (acct s' a') (acct s a').
  Proof.
    intros H. destruct (beqb_spec a' a) as [->|Ha].
    - rewrite (wr_acct_eq _ _ _ _ _ H). apply set_store_fields.
    - rewrite (wr_acct_ne _ _ _ _ _ _ H Ha). apply acct_fields_eq_refl.
  Qed.
  Lemma wr_unchanged a k v s s' : wr a k v s s' ->
    unchanged_except (fun a' k' => a' = a /\ k' = k) (fun _ => False) s s'.
  Proof.
    intros H. split.
    - intros a' k' Hn. apply (wr_cell_other _ _ _ _ _ _ _ H).
      destruct (beqb_spec a' a) as [->|Ha]; [|left; exact Ha].
      right. intros ->. apply Hn. split; reflexivity.
    - intros a' _. apply (wr_fields _ _ _ _ _ _ H).
  Qed.
  Lemma wr_nodup a k v s s' : wr a k v s s' -> NoDup (map fst (accts s)) -> NoDup (map fst (accts s')).
  Proof. intros (H&_) Hnd. rewrite H. apply keys_aput. exact Hnd. Qed.
  Lemma wr_in_keys a k v s s' b : wr a k v s s' -> In b (map fst (accts s')) -> In b (map fst (accts s)) \/ b = a.
  Proof. intros (H&_). rewrite H. apply in_keys_aput. Qed.
  (* effect on the derived observables *)
  Lemma wr_tok_at_eq a k v s s' : wr a k v s s' ->
    tok_at E s' a k = match v with [] => None | _ => dec_tok (cdc E) v end.
  Proof. intros H. unfold tok_at. rewrite (wr_cell_eq _ _ _ _ _ H). destruct v; reflexivity. Qed.
  Lemma wr_balance_eq a k v s s' : wr a k v s s' -> balance E s' a k = bal_of_bytes E v.
  Proof. intros H. unfold balance. rewrite (wr_cell_eq _ _ _ _ _ H). reflexivity. Qed.
  Lemma wr_balance_nil a k s s' : wr a k [] s s' -> balance E s' a k = 0%Z.
  Proof. intros H. rewrite (wr_balance_eq _ _ _ _ _ H). reflexivity. Qed.
  Lemma wr_tok_at_other a k v s s' a' k' : wr a k v s s' -> a' <> a \/ k' <> k -> tok_at E s' a' k' = tok_at E s a' k'.
  Proof. intros H Hn. unfold tok_at. rewrite (wr_cell_other _ _ _ _ _ _ _ H Hn). reflexivity. Qed.
  Lemma wr_balance_other a k v s s' a' k' : wr a k v s s' -> a' <> a \/ k' <> k -> balance E s' a' k' = balance E s a' k'.
  Proof. intros H Hn. unfold balance. rewrite (wr_cell_other _ _ _ _ _ _ _ H Hn). reflexivity. Qed.
  Lemma wr_frozen_at_other a k v s s' a' k' : wr a k v s s' -> a' <> a \/ k' <> k -> frozen_at E s' a' k' = frozen_at E s a' k'.
  Proof. intros H Hn. unfold frozen_at. rewrite (wr_tok_at_other _ _ _ _ _ _ _ H Hn). reflexivity. Qed.
  Lemma wr_paused_at_other a k v s s' k' : wr a k v s s' -> a <> SYS \/ k' <> k -> paused_at s' k' = paused_at s k'.
  Proof.
    intros H Hn. unfold paused_at. rewrite (wr_cell_other _ _ _ _ _ _ _ H); [reflexivity|].
    destruct Hn as [Hn|Hn]; [left; congruence|right; exact Hn].
  Qed.
  Lemma wr_paused_at_eq k v s s' : wr SYS k v s s' -> paused_at s' k = paused_val v.
  Proof. intros H. unfold paused_at. rewrite (wr_cell_eq _ _ _ _ _ H). reflexivity. Qed.
  Lemma wr_roles_at_other a k v s s' a' tok : wr a k v s s' -> a' <> a \/ RP ++ tok <> k -> roles_at E s' a' tok = roles_at E s a' tok.
  Proof. intros H Hn. unfold roles_at. rewrite (wr_cell_other _ _ _ _ _ _ _ H Hn). reflexivity. Qed.
  Lemma wr_has_role_other a k v s s' a' tok r : wr a k v s s' -> a' <> a \/ RP ++ tok <> k -> has_role E s' a' tok r = has_role E s a' tok r.
  Proof. intros H Hn. unfold has_role. rewrite (wr_roles_at_other _ _ _ _ _ _ _ H Hn). reflexivity. Qed.
  Lemma wr_counter_at_other a k v s s' a' tok : wr a k v s s' -> a' <> a \/ NP ++ tok <> k -> counter_at s' a' tok = counter_at s a' tok.
  Proof. intros H Hn. unfold counter_at. rewrite (wr_cell_other _ _ _ _ _ _ _ H Hn). reflexivity. Qed.
  Lemma wr_counter_at_eq a tok n s s' : wr a (NP ++ tok) (u64_bytes n) s s' -> counter_at s' a tok = u64 n.
  Proof.
    intros H. unfold counter_at. rewrite (wr_cell_eq _ _ _ _ _ H).
    destruct (u64_bytes n) as [|b0 br] eqn:Eb.
    - apply u64_bytes_nil in Eb. subst. reflexivity.
    - rewrite <- Eb. apply bigU64_u64_bytes.
  Qed.

  (* ---- the primitives ---- *)
  Lemma dep_ok s u s' : dep E s = (Ok u, s') ->
    plan E (calls s) = false /\ accts s' = accts s /\ calls s' = S (calls s) /\ allocs s' = allocs s.
  Proof. unfold dep. destruct (plan E (calls s)); intros H; inversion H; auto. Qed.
  Lemma dep_rd s u s' : dep E s = (Ok u, s') -> rd s s'.
  Proof. intros H. apply dep_ok in H as (Hp&Ha&Hc&Hl). split; [exact Ha|split; [exact Hl|apply nofault_dep; auto]]. Qed.
  Lemma dep_succeeds s : plan E (calls s) = false ->
    dep E s = (Ok tt, {| accts := accts s; calls := S (calls s); allocs := allocs s |}).
  Proof. unfold dep. intros ->. reflexivity. Qed.
  Lemma dep_result s : exists s', (dep E s = (Ok tt, s') \/ dep E s = (Err EFault, s')) /\ accts s' = accts s /\ calls s' = S (calls s) /\ allocs s' = allocs s.
  Proof. unfold dep. destruct (plan E (calls s)); eexists; split; eauto. Qed.
  Lemma dep_faulty s : plan E (calls s) = true -> fst (dep E s) = Err EFault.
  Proof. unfold dep. intros ->. reflexivity. Qed.

  Lemma retrieve_ok a k s b s' : retrieve a k s = (Ok b, s') -> b = cell s a k /\ s' = s.
  Proof. unfold retrieve, cell. intros H; inversion H; auto. Qed.
  Lemma retrieve_eq a k s : retrieve a k s = (Ok (cell s a k), s).
  Proof. reflexivity. Qed.
  Lemma write_kv_ok a k v s u s' : write_kv a k v s = (Ok u, s') ->
    accts s' = aput (accts s) a (set_store (acct s a) (sput (a_store (acct s a)) k v))
    /\ calls s' = calls s /\ allocs s' = allocs s.
  Proof. unfold write_kv. intros H; inversion H; auto. Qed.
  Lemma write_kv_wr a k v s u s' : write_kv a k v s = (Ok u, s') -> wr a k v s s'.
  Proof. intros H. apply write_kv_ok in H as (H1&H2&H3). split; [exact H1|split; [exact H3|apply nofault_eqcalls; exact H2]]. Qed.
  Lemma write_kv_eq a k v s : exists s', write_kv a k v s = (Ok tt, s').
  Proof. eexists. reflexivity. Qed.
  Lemma save_kv_ok a k v s u s' : save_kv E a k v s = (Ok u, s') -> wr a k v s s'.
  Proof.
    unfold save_kv. intros H. apply bind_ok in H as (u1 & s1 & H1 & H2).
    apply dep_rd in H1. apply write_kv_wr in H2. eapply rd_wr; eauto.
  Qed.
  Lemma save_kv_calls a k v s u s' : save_kv E a k v s = (Ok u, s') -> plan E (calls s) = false /\ calls s' = S (calls s).
  Proof.
    unfold save_kv. intros H. apply bind_ok in H as (u1 & s1 & H1 & H2).
    apply dep_ok in H1 as (Hp&_&Hc&_). apply write_kv_ok in H2 as (_&Hc2&_). split; [exact Hp|congruence].
  Qed.
  Lemma save_kv_succeeds a k v s : plan E (calls s) = false -> exists s', save_kv E a k v s = (Ok tt, s').
  Proof. intros Hp. unfold save_kv, bind. rewrite (dep_succeeds _ Hp). eexists. reflexivity. Qed.
  Lemma load_account_ok a s u s' : load_account E a s = (Ok u, s') -> rd s s'.
  Proof. apply dep_rd. Qed.
  Lemma save_account_ok a s u s' : save_account E a s = (Ok u, s') -> rd s s'.
  Proof. apply dep_rd. Qed.
  Lemma load_account_succeeds a s : plan E (calls s) = false -> exists s', load_account E a s = (Ok tt, s').
  Proof. intros Hp. unfold load_account. rewrite (dep_succeeds _ Hp). eexists. reflexivity. Qed.
  Lemma save_account_succeeds a s : plan E (calls s) = false -> exists s', save_account E a s = (Ok tt, s').
  Proof. intros Hp. unfold save_account. rewrite (dep_succeeds _ Hp). eexists. reflexivity. Qed.

  Lemma marshal_tok_ok t s b s' : marshal_tok E t s = (Ok b, s') -> b = enc_tok (cdc E) t /\ rd s s'.
  Proof.
    unfold marshal_tok. intros H. apply bind_ok in H as (u1 & s1 & H1 & H2).
    apply dep_rd in H1. apply ret_ok in H2 as [-> ->]. auto.
  Qed.
  Lemma unmarshal_tok_ok b s t s' : unmarshal_tok E b s = (Ok t, s') -> dec_tok (cdc E) b = Some t /\ rd s s'.
  Proof.
    unfold unmarshal_tok. intros H. apply bind_ok in H as (u1 & s1 & H1 & H2).
    apply dep_rd in H1. apply lift_opt_ok in H2 as [-> ->]. auto.
  Qed.
  Lemma marshal_rol_ok r s b s' : marshal_rol E r s = (Ok b, s') -> b = enc_rol (cdc E) r /\ rd s s'.
  Proof.
    unfold marshal_rol. intros H. apply bind_ok in H as (u1 & s1 & H1 & H2).
    apply dep_rd in H1. apply ret_ok in H2 as [-> ->]. auto.
  Qed.
  Lemma unmarshal_rol_ok b s r s' : unmarshal_rol E b s = (Ok r, s') -> dec_rol (cdc E) b = Some r /\ rd s s'.
  Proof.
    unfold unmarshal_rol. intros H. apply bind_ok in H as (u1 & s1 & H1 & H2).
    apply dep_rd in H1. apply lift_opt_ok in H2 as [-> ->]. auto.
  Qed.
  Lemma is_payable_ok a s p s' : is_payable E a s = (Ok p, s') ->
    payable E a = (if p then PayYes else PayNo) /\ rd s s'.
  Proof.
    unfold is_payable. intros H. apply bind_ok in H as (u1 & s1 & H1 & H2).
    apply dep_rd in H1. destruct (payable E a).
    - apply ret_ok in H2 as [-> ->]. auto.
    - apply ret_ok in H2 as [-> ->]. auto.
    - apply fail_ok in H2. contradiction.
  Qed.
  Lemma marshal_tok_succeeds t s : plan E (calls s) = false -> exists s', marshal_tok E t s = (Ok (enc_tok (cdc E) t), s').
  Proof. intros Hp. unfold marshal_tok, bind. rewrite (dep_succeeds _ Hp). eexists. reflexivity. Qed.
  Lemma unmarshal_tok_succeeds b t s : plan E (calls s) = false -> dec_tok (cdc E) b = Some t ->
    exists s', unmarshal_tok E b s = (Ok t, s').
  Proof. intros Hp Hd. unfold unmarshal_tok, bind. rewrite (dep_succeeds _ Hp), Hd. eexists. reflexivity. Qed.
  Lemma marshal_rol_succeeds r s : plan E (calls s) = false -> exists s', marshal_rol E r s = (Ok (enc_rol (cdc E) r), s').
  Proof. intros Hp. unfold marshal_rol, bind. rewrite (dep_succeeds _ Hp). eexists. reflexivity. Qed.
  Lemma unmarshal_rol_succeeds b r s : plan E (calls s) = false -> dec_rol (cdc E) b = Some r ->
    exists s', unmarshal_rol E b s = (Ok r, s').
  Proof. intros Hp Hd. unfold unmarshal_rol, bind. rewrite (dep_succeeds _ Hp), Hd. eexists. reflexivity. Qed.
  Lemma is_payable_succeeds a s : plan E (calls s) = false -> payable E a <> PayErr ->
    exists s', is_payable E a s = (Ok (match payable E a with PayYes => true | _ => false end), s').
  Proof.
    intros Hp Hd. unfold is_payable, bind. rewrite (dep_succeeds _ Hp).
    destruct (payable E a); try (eexists; reflexivity). congruence.
  Qed.

  Lemma upd_acct_ok a f s u s' : upd_acct a f s = (Ok u, s') ->
    accts s' = aput (accts s) a (f (acct s a)) /\ calls s' = calls s /\ allocs s' = allocs s.
  Proof. unfold upd_acct. intros H; inversion H; auto. Qed.
  Lemma upd_acct_acct a f s u s' a' : upd_acct a f s = (Ok u, s') ->
    acct s' a' = if beqb a' a then f (acct s a) else acct s a'.
  Proof. intros H. apply upd_acct_ok in H as (H&_). unfold acct at 1. rewrite H. apply aget_aput. Qed.
  Lemma upd_acct_nofault a f s u s' : upd_acct a f s = (Ok u, s') -> nofault s s'.
  Proof. intros H. apply upd_acct_ok in H as (_&H&_). apply nofault_eqcalls. exact H. Qed.
  Lemma upd_acct_nodup a f s u s' : upd_acct a f s = (Ok u, s') -> NoDup (map fst (accts s)) -> NoDup (map fst (accts s')).
  Proof. intros H Hnd. apply upd_acct_ok in H as (H&_). rewrite H. apply keys_aput. exact Hnd. Qed.
  (* if f keeps the store, only account fields of [a] change *)
  Lemma upd_acct_unchanged a f s u s' : upd_acct a f s = (Ok u, s') ->
    (forall x, a_store (f x) = a_store x) ->
    unchanged_except (fun _ _ => False) (fun a' => a' = a) s s'.
  Proof.
    intros H Hf. split.
    - intros a' k _. unfold cell. rewrite (upd_acct_acct _ _ _ _ _ a' H).
      destruct (beqb_spec a' a) as [->|Hne]; [rewrite Hf|]; reflexivity.
    - intros a' Hne. rewrite (upd_acct_acct _ _ _ _ _ a' H).
      destruct (beqb_spec a' a) as [->|_]; [contradiction|]. apply acct_fields_eq_refl.
  Qed.
  Lemma upd_acct_eq a f s : exists s', upd_acct a f s = (Ok tt, s').
  Proof. eexists. reflexivity. Qed.
  Lemma get_acct_ok a s x s' : get_acct a s = (Ok x, s') -> x = acct s a /\ s' = s.
  Proof. unfold get_acct. intros H; inversion H; auto. Qed.
  Lemma get_acct_eq a s : get_acct a s = (Ok (acct s a), s).
  Proof. reflexivity. Qed.
  Lemma alloc_ok n s u s' : alloc n s = (Ok u, s') ->
    (n <= 1099511627776)%N /\ accts s' = accts s /\ calls s' = calls s /\ allocs s' = (allocs s + n)%N.
  Proof. unfold alloc. destruct (1099511627776 <? n)%N eqn:E0; intros H; inversion H. repeat split; auto. lia. Qed.
  Lemma alloc_succeeds n s : (n <= 1099511627776)%N -> exists s', alloc n s = (Ok tt, s').
  Proof. intros H. unfold alloc. destruct (1099511627776 <? n)%N eqn:E0; [lia|]. eexists. reflexivity. Qed.
  Lemma alloc_nofault n s u s' : alloc n s = (Ok u, s') -> nofault s s'.
  Proof. intros H. apply alloc_ok in H as (_&_&H&_). apply nofault_eqcalls. exact H. Qed.

  Lemma arg_ok args i s x s' : arg args i s = (Ok x, s') ->
    nth_error args (N.to_nat i) = Some x /\ (i < alen args)%N /\ s' = s.
  Proof.
    unfold arg. destruct (i <? alen args)%N eqn:E0; intros H.
    - apply opt_or_panic_ok in H as [H ->]. repeat split; auto. lia.
    - apply panic_ok in H. contradiction.
  Qed.
  Lemma arg_succeeds args i s : (i < alen args)%N -> exists x, nth_error args (N.to_nat i) = Some x /\ arg args i s = (Ok x, s).
  Proof.
    intros H. unfold arg. destruct (i <? alen args)%N eqn:E0; [|lia].
    destruct (nth_error args (N.to_nat i)) as [x|] eqn:En.
    - exists x. split; reflexivity.
    - apply nth_error_None in En. unfold alen in H. lia.
  Qed.
  Lemma args_from_ok args i s l s' : args_from args i s = (Ok l, s') ->
    (i <= alen args)%N /\ l = skipn (N.to_nat i) args /\ s' = s.
  Proof.
    unfold args_from. destruct (i <=? alen args)%N eqn:E0; intros H.
    - apply ret_ok in H as [-> ->]. repeat split; auto. lia.
    - apply panic_ok in H. contradiction.
  Qed.
  Lemma args_from_succeeds args i s : (i <= alen args)%N -> args_from args i s = (Ok (skipn (N.to_nat i) args), s).
  Proof. intros H. unfold args_from. destruct (i <=? alen args)%N eqn:E0; [reflexivity|lia]. Qed.
  Lemma val_of_ok t s v s' : val_of t s = (Ok v, s') -> t_value t = Some v /\ s' = s.
  Proof. unfold val_of. apply opt_or_panic_ok. Qed.
  Lemma val_of_succeeds t v s : t_value t = Some v -> val_of t s = (Ok v, s).
  Proof. unfold val_of. intros ->. reflexivity. Qed.
  Lemma meta_of_ok t s m s' : meta_of t s = (Ok m, s') -> t_meta t = Some m /\ s' = s.
  Proof. unfold meta_of. apply opt_or_panic_ok. Qed.
  Lemma meta_of_succeeds t m s : t_meta t = Some m -> meta_of t s = (Ok m, s).
  Proof. unfold meta_of. intros ->. reflexivity. Qed.
  Lemma check_basic_ok i s u s' : check_basic i s = (Ok u, s') ->
    i_value i = 0%Z /\ (C.MinLenArgumentsESDTTransfer <= alen (i_args i))%N /\ s' = s.
  Proof.
    unfold check_basic. intros H. apply bind_ok in H as (u1 & s1 & H1 & H2).
    apply guard_ok in H1 as [H1 ->]. apply guard_ok in H2 as [H2 ->]. repeat split; auto; lia.
  Qed.
End Prim.

(* primitive inversion: one step on any hypothesis [prim ... s = (Ok x, s')] *)
Ltac pinv_step :=
  match goal with
  | H : dep _ _ = (Ok _, _) |- _ => apply dep_rd in H
  | H : load_account _ _ _ = (Ok _, _) |- _ => apply load_account_ok in H
  | H : save_account _ _ _ = (Ok _, _) |- _ => apply save_account_ok in H
  | H : retrieve _ _ _ = (Ok _, _) |- _ => apply retrieve_ok in H; destruct H as [? ?]; subst
  | H : write_kv _ _ _ _ = (Ok _, _) |- _ => apply write_kv_wr in H
  | H : save_kv _ _ _ _ _ = (Ok _, _) |- _ => apply save_kv_ok in H
  | H : marshal_tok _ _ _ = (Ok _, _) |- _ => apply marshal_tok_ok in H; destruct H as [? ?]; subst
  | H : unmarshal_tok _ _ _ = (Ok _, _) |- _ => apply unmarshal_tok_ok in H; destruct H as [? ?]
  | H : marshal_rol _ _ _ = (Ok _, _) |- _ => apply marshal_rol_ok in H; destruct H as [? ?]; subst
  | H : unmarshal_rol _ _ _ = (Ok _, _) |- _ => apply unmarshal_rol_ok in H; destruct H as [? ?]
  | H : is_payable _ _ _ = (Ok _, _) |- _ => apply is_payable_ok in H; destruct H as [? ?]
  | H : get_acct _ _ = (Ok _, _) |- _ => apply get_acct_ok in H; destruct H as [? ?]; subst
  | H : arg _ _ _ = (Ok _, _) |- _ => apply arg_ok in H; destruct H as (? & ? & ?); subst
  | H : args_from _ _ _ = (Ok _, _) |- _ => apply args_from_ok in H; destruct H as (? & ? & ?); subst
  | H : val_of _ _ = (Ok _, _) |- _ => apply val_of_ok in H; destruct H as [? ?]; subst
  | H : meta_of _ _ = (Ok _, _) |- _ => apply meta_of_ok in H; destruct H as [? ?]; subst
  | H : check_basic _ _ = (Ok _, _) |- _ => apply check_basic_ok in H; destruct H as (? & ? & ?); subst
  | _ => minv_step
  end.
Ltac pinv := repeat pinv_step.

(* computing forward through a bind / guard (for the liveness direction) *)
Lemma bind_eq {Er S A B} (m : @M Er S A) (f : A -> @M Er S B) s a s1 : m s = (Ok a, s1) -> bind m f s = f a s1.
Proof. unfold bind. intros ->. reflexivity. Qed.
Lemma guard_true {Er S} (b : bool) (e : Er) (s : S) : b = true -> guard b e s = (Ok tt, s).
Proof. intros ->. reflexivity. Qed.

(* ================================================================== *)
(* 3. The shared helpers                                               *)
(* ================================================================== *)
Section Helpers.
  Variable E : env.
  Hypothesis Hc : codec_ok (cdc E).

  (* the entry as the Go code sees it: an absent entry reads as the default token *)
  Definition tok_or_default (s : mstate) (a k : bytes) : option token :=
    match cell s a k with [] => Some default_tok | b => dec_tok (cdc E) b end.
  Definition val_or_0 (t : token) : Z := match t_value t with Some v => v | None => 0%Z end.

  Lemma tod_nil s a k : cell s a k = [] -> tok_or_default s a k = Some default_tok.
  Proof. unfold tok_or_default. intros ->. reflexivity. Qed.
  Lemma tod_tok_at s a k : cell s a k <> [] -> tok_or_default s a k = tok_at E s a k.
  Proof. unfold tok_or_default, tok_at. destruct (cell s a k); [congruence|reflexivity]. Qed.
  Lemma tok_at_cell s a k t : tok_at E s a k = Some t -> cell s a k <> [] /\ dec_tok (cdc E) (cell s a k) = Some t.
  Proof. unfold tok_at. destruct (cell s a k); [discriminate|]. intros H. split; [discriminate|exact H]. Qed.
  Lemma tok_at_none_nil s a k : cell s a k = [] -> tok_at E s a k = None.
  Proof. unfold tok_at. intros ->. reflexivity. Qed.
  Lemma tok_at_tod s a k t : tok_at E s a k = Some t -> tok_or_default s a k = Some t.
  Proof. intros H. destruct (tok_at_cell _ _ _ _ H) as [Hn _]. rewrite tod_tok_at; auto. Qed.
  Lemma tod_cases s a k t : tok_or_default s a k = Some t ->
    (cell s a k = [] /\ t = default_tok /\ tok_at E s a k = None) \/ (cell s a k <> [] /\ tok_at E s a k = Some t).
  Proof.
    unfold tok_or_default, tok_at. destruct (cell s a k) as [|b0 br].
    - intros [= <-]. left. auto.
    - intros H. right. split; [discriminate|exact H].
  Qed.
  Lemma tod_wf s a k t : tok_or_default s a k = Some t -> wf_token t.
  Proof.
    unfold tok_or_default. destruct (cell s a k) as [|b0 br].
    - intros [= <-]. apply wf_default_tok.
    - apply (dec_tok_wf _ Hc).
  Qed.
  Lemma tok_at_wf s a k t : tok_at E s a k = Some t -> wf_token t.
  Proof. intros H. eapply tod_wf, tok_at_tod, H. Qed.
  Lemma balance_tod s a k t : tok_or_default s a k = Some t -> balance E s a k = val_or_0 t.
  Proof.
    unfold tok_or_default, balance, bal_of_bytes, val_or_0. destruct (cell s a k) as [|b0 br].
    - intros [= <-]. reflexivity.
    - intros ->. reflexivity.
  Qed.
  Lemma balance_tok_at s a k t : tok_at E s a k = Some t -> balance E s a k = val_or_0 t.
  Proof. intros H. apply balance_tod, tok_at_tod, H. Qed.
  Lemma balance_tok_at_none s a k : tok_at E s a k = None -> balance E s a k = 0%Z.
  Proof.
    unfold tok_at, balance, bal_of_bytes. destruct (cell s a k) as [|b0 br]; [reflexivity|]. intros ->. reflexivity.
  Qed.
  Lemma frozen_at_tod s a k t : tok_or_default s a k = Some t -> frozen_at E s a k = frozen_props (t_props t).
  Proof.
    intros H. unfold frozen_at. destruct (tod_cases _ _ _ _ H) as [(_ & -> & ->)|(_ & ->)]; reflexivity.
  Qed.
  Lemma tod_accts s s' a k : accts s' = accts s -> tok_or_default s' a k = tok_or_default s a k.
  Proof. unfold tok_or_default. intros H. rewrite (cell_accts _ _ _ _ H). reflexivity. Qed.
  Lemma rd_tod s s' a k : rd E s s' -> tok_or_default s' a k = tok_or_default s a k.
  Proof. intros H. apply tod_accts, (rd_accts _ _ _ H). Qed.
  Lemma wr_tod_other a k v s s' a' k' : wr E a k v s s' -> a' <> a \/ k' <> k -> tok_or_default s' a' k' = tok_or_default s a' k'.
  Proof. intros H Hn. unfold tok_or_default. rewrite (wr_cell_other _ _ _ _ _ _ _ _ H Hn). reflexivity. Qed.

  (* what a freshly written encoded token reads back as *)
  Lemma wr_tok_at_enc a k t s s' : wf_token t -> wr E a k (enc_tok (cdc E) t) s s' -> tok_at E s' a k = Some t.
  Proof.
    intros Hwf H. rewrite (wr_tok_at_eq _ _ _ _ _ _ H).
    destruct (enc_tok (cdc E) t) as [|b0 br] eqn:Ee; [exfalso; eapply (enc_tok_nonempty _ Hc); eauto|].
    rewrite <- Ee. apply (dec_enc_tok _ Hc). exact Hwf.
  Qed.
  Lemma wr_balance_enc a k t s s' : wf_token t -> wr E a k (enc_tok (cdc E) t) s s' -> balance E s' a k = val_or_0 t.
  Proof. intros Hwf H. apply balance_tok_at. eapply wr_tok_at_enc; eauto. Qed.
  Lemma wr_tok_at_nil a k s s' : wr E a k [] s s' -> tok_at E s' a k = None.
  Proof. intros H. rewrite (wr_tok_at_eq _ _ _ _ _ _ H). reflexivity. Qed.
  Lemma wr_roles_at_eq a tok r s s' : wr E a (RP ++ tok) (enc_rol (cdc E) r) s s' -> roles_at E s' a tok = r.
  Proof.
    intros H. unfold roles_at. rewrite (wr_cell_eq _ _ _ _ _ _ H).
    destruct (enc_rol (cdc E) r) as [|b0 br] eqn:Ee.
    - destruct r as [|r0 rr]; [reflexivity|]. exfalso. eapply (enc_rol_nonempty _ Hc); [|exact Ee]. discriminate.
    - rewrite <- Ee, (dec_enc_rol _ Hc). reflexivity.
  Qed.

  (* ---------------- get_esdt_data ---------------- *)
  Lemma get_esdt_data_ok a key s t s' : get_esdt_data E a key s = (Ok t, s') ->
    rd E s s' /\ tok_or_default s a key = Some t /\ wf_token t.
  Proof.
    unfold get_esdt_data. intros H. apply bind_ok in H as (b & s1 & H1 & H2).
    apply retrieve_ok in H1 as [-> ->].
    assert (Hrd : rd E s s' /\ tok_or_default s a key = Some t).
    { unfold tok_or_default. destruct (cell s a key) as [|b0 br].
      - apply ret_ok in H2 as [-> ->]. split; [apply rd_refl|reflexivity].
      - apply unmarshal_tok_ok in H2 as [Hd Hr]. auto. }
    destruct Hrd as [Hr Ht]. split; [exact Hr|]. split; [exact Ht|]. eapply tod_wf; eauto.
  Qed.
  Lemma get_esdt_data_succeeds a key s t : plan E (calls s) = false -> tok_or_default s a key = Some t ->
    exists s', get_esdt_data E a key s = (Ok t, s').
  Proof.
    intros Hp Ht. unfold get_esdt_data. rewrite (bind_eq _ _ _ _ _ (retrieve_eq a key s)).
    unfold tok_or_default in Ht. destruct (cell s a key) as [|b0 br].
    - inversion Ht; subst. eexists. reflexivity.
    - apply unmarshal_tok_succeeds; auto.
  Qed.

  (* ---------------- check_froze_and_pause ---------------- *)
  Lemma is_paused_eq key s : is_paused key s = (Ok (paused_at s key), s).
  Proof. reflexivity. Qed.
  Lemma is_paused_ok key s p s' : is_paused key s = (Ok p, s') -> p = paused_at s key /\ s' = s.
  Proof. rewrite is_paused_eq. intros H; inversion H; auto. Qed.
  Lemma check_froze_and_pause_ok addr key t rae s u s' :
    check_froze_and_pause addr key t rae s = (Ok u, s') ->
    s' = s /\ (rae = false -> addr <> SC -> frozen_props (t_props t) = false /\ paused_at s key = false).
  Proof.
    unfold check_froze_and_pause. destruct rae.
    - intros H. apply ret_ok in H as [_ ->]. split; [reflexivity|discriminate].
    - destruct (beqb_spec addr SC) as [Heq|Hne].
      + intros H. apply ret_ok in H as [_ ->]. split; [reflexivity|]. intros _ Hx. contradiction.
      + intros H. apply bind_ok in H as (u1 & s1 & H1 & H2). apply guard_ok in H1 as [Hf ->].
        apply bind_ok in H2 as (p & s2 & H2 & H3). apply is_paused_ok in H2 as [-> ->].
        apply guard_ok in H3 as [Hp ->]. split; [reflexivity|]. intros _ _. split.
        * destruct (frozen_props (t_props t)); [discriminate|reflexivity].
        * destruct (paused_at s key); [discriminate|reflexivity].
  Qed.
  Lemma check_froze_and_pause_succeeds addr key t rae s :
    (rae = false -> addr <> SC -> frozen_props (t_props t) = false /\ paused_at s key = false) ->
    check_froze_and_pause addr key t rae s = (Ok tt, s).
  Proof.
    unfold check_froze_and_pause. destruct rae; [reflexivity|].
    destruct (beqb_spec addr SC) as [Heq|Hne]; [reflexivity|]. intros H.
    destruct (H eq_refl Hne) as [Hf Hp].
    rewrite (bind_eq _ _ _ _ _ (guard_true _ _ _ (f_equal negb Hf))).
    rewrite (bind_eq _ _ _ _ _ (is_paused_eq key s)). apply guard_true. rewrite Hp. reflexivity.
  Qed.
  (* the only way it fails *)
  Lemma check_froze_and_pause_result addr key t rae s :
    check_froze_and_pause addr key t rae s = (Ok tt, s)
    \/ (rae = false /\ addr <> SC /\ frozen_props (t_props t) = true /\ check_froze_and_pause addr key t rae s = (Err EFrozenForAccount, s))
    \/ (rae = false /\ addr <> SC /\ frozen_props (t_props t) = false /\ paused_at s key = true /\ check_froze_and_pause addr key t rae s = (Err ETokenIsPaused, s)).
  Proof.
    destruct (frozen_props (t_props t)) eqn:Hf; [|destruct (paused_at s key) eqn:Hp].
    3: { left. apply check_froze_and_pause_succeeds. auto. }
    all: unfold check_froze_and_pause; destruct rae; [left; reflexivity|];
      destruct (beqb_spec addr SC) as [Heq|Hne]; [left; reflexivity|]; right.
    - left. repeat split; auto. unfold bind, guard. rewrite Hf. reflexivity.
    - right. repeat split; auto.
      rewrite (bind_eq _ _ _ _ _ (guard_true _ _ _ (f_equal negb Hf))).
      rewrite (bind_eq _ _ _ _ _ (is_paused_eq key s)). rewrite Hp. reflexivity.
  Qed.

  (* ---------------- save_esdt_data ---------------- *)
  Lemma save_esdt_data_ok a t key s u s' : save_esdt_data E a t key s = (Ok u, s') ->
    exists v, t_value t = Some v
      /\ wr E a key (if ((v =? 0)%Z && all_zero (t_props t))%bool then [] else enc_tok (cdc E) t) s s'.
  Proof.
    unfold save_esdt_data. intros H. apply bind_ok in H as (v & s1 & H1 & H2).
    apply val_of_ok in H1 as [Hv ->]. exists v. split; [exact Hv|].
    destruct ((v =? 0)%Z && all_zero (t_props t))%bool.
    - apply save_kv_ok in H2. exact H2.
    - apply bind_ok in H2 as (b & s2 & H2 & H3). apply marshal_tok_ok in H2 as [-> Hr].
      apply save_kv_ok in H3. eapply rd_wr; eauto.
  Qed.
  Lemma save_esdt_data_succeeds a t key s v : no_faults E -> t_value t = Some v ->
    exists s', save_esdt_data E a t key s = (Ok tt, s').
  Proof.
    intros Hnf Hv. unfold save_esdt_data. rewrite (bind_eq _ _ _ _ _ (val_of_succeeds _ _ s Hv)).
    destruct ((v =? 0)%Z && all_zero (t_props t))%bool.
    - apply save_kv_succeeds, Hnf.
    - destruct (marshal_tok_succeeds E t s (Hnf _)) as (s1 & H1). rewrite (bind_eq _ _ _ _ _ H1).
      apply save_kv_succeeds, Hnf.
  Qed.
  (* observable effect *)
  Lemma save_esdt_data_tok_at a t key s u s' : wf_token t -> save_esdt_data E a t key s = (Ok u, s') ->
    tok_at E s' a key = (if ((val_or_0 t =? 0)%Z && all_zero (t_props t))%bool then None else Some t).
  Proof.
    intros Hwf H. apply save_esdt_data_ok in H as (v & Hv & Hw). unfold val_or_0. rewrite Hv.
    destruct ((v =? 0)%Z && all_zero (t_props t))%bool.
    - eapply wr_tok_at_nil; eauto.
    - eapply wr_tok_at_enc; eauto.
  Qed.

  (* ---------------- add_to_esdt_balance ---------------- *)
  (* raw form: the entry read, and the single cell written *)
  Lemma add_to_esdt_balance_inv a key delta rae s u s' :
    add_to_esdt_balance E a key delta rae s = (Ok u, s') ->
    exists t v, tok_or_default s a key = Some t /\ wf_token t /\ t_type t = C.Fungible /\ t_value t = Some v
      /\ (0 <= v + delta)%Z
      /\ (rae = false -> a <> SC -> frozen_props (t_props t) = false /\ paused_at s key = false)
      /\ wr E a key (if ((v + delta =? 0)%Z && all_zero (t_props t))%bool then []
                     else enc_tok (cdc E) (set_value t (Some (v + delta)%Z))) s s'.
  Proof.
    unfold add_to_esdt_balance. intros H. apply bind_ok in H as (t & s1 & H1 & H2).
    apply get_esdt_data_ok in H1 as (Hr & Ht & Hwf).
    apply bind_ok in H2 as (u1 & s2 & H2 & H3). apply guard_ok in H2 as [Hty ->].
    apply bind_ok in H3 as (u2 & s2 & H3 & H4). apply check_froze_and_pause_ok in H3 as [-> Hfp].
    apply bind_ok in H4 as (v & s2 & H4 & H5). apply val_of_ok in H4 as [Hv ->].
    cbv zeta in H5. apply bind_ok in H5 as (u3 & s2 & H5 & H6). apply guard_ok in H5 as [Hge ->].
    apply save_esdt_data_ok in H6 as (v' & Hv' & Hw). simpl in Hv'. inversion Hv'; subst v'. clear Hv'.
    exists t, v. split; [exact Ht|]. split; [exact Hwf|]. split; [apply N.eqb_eq; exact Hty|].
    split; [exact Hv|]. split; [lia|]. split.
    - intros H1 H2. rewrite <- (rd_paused_at _ _ _ key Hr). auto.
    - eapply rd_wr; eauto.
  Qed.
  (* observable form *)
  Lemma add_to_esdt_balance_ok a key delta rae s u s' :
    add_to_esdt_balance E a key delta rae s = (Ok u, s') ->
    (0 <= balance E s a key + delta)%Z
    /\ balance E s' a key = (balance E s a key + delta)%Z
    /\ (exists t, tok_or_default s a key = Some t /\ wf_token t /\ t_type t = C.Fungible /\ t_value t <> None
          /\ tok_at E s' a key =
             (if ((balance E s a key + delta =? 0)%Z && all_zero (t_props t))%bool then None
              else Some (set_value t (Some (balance E s a key + delta)%Z))))
    /\ (rae = false -> a <> SC -> frozen_at E s a key = false /\ paused_at s key = false)
    /\ unchanged_except (fun a' k' => a' = a /\ k' = key) (fun _ => False) s s'
    /\ nofault E s s'.
  Proof.
    intros H. apply add_to_esdt_balance_inv in H as (t & v & Ht & Hwf & Hty & Hv & Hge & Hfp & Hw).
    assert (Hb : balance E s a key = v).
    { rewrite (balance_tod _ _ _ _ Ht). unfold val_or_0. rewrite Hv. reflexivity. }
    rewrite Hb. split; [exact Hge|].
    assert (Hta : tok_at E s' a key =
             (if ((v + delta =? 0)%Z && all_zero (t_props t))%bool then None
              else Some (set_value t (Some (v + delta)%Z)))).
    { destruct ((v + delta =? 0)%Z && all_zero (t_props t))%bool.
      - eapply wr_tok_at_nil; eauto.
      - eapply wr_tok_at_enc; eauto. }
    split.
    { destruct ((v + delta =? 0)%Z && all_zero (t_props t))%bool eqn:Ez.
      - rewrite (balance_tok_at_none _ _ _ Hta). apply andb_prop in Ez. lia.
      - rewrite (balance_tok_at _ _ _ _ Hta). reflexivity. }
    split.
    { exists t. split; [exact Ht|]. split; [exact Hwf|]. split; [exact Hty|]. split; [congruence|exact Hta]. }
    split.
    { rewrite (frozen_at_tod _ _ _ _ Ht). exact Hfp. }
    split; [eapply wr_unchanged; eauto|eapply wr_nofault; eauto].
  Qed.
  Lemma add_to_esdt_balance_succeeds a key delta rae s t v :
    no_faults E ->
    tok_or_default s a key = Some t -> t_type t = C.Fungible -> t_value t = Some v ->
    (rae = false -> a <> SC -> frozen_props (t_props t) = false /\ paused_at s key = false) ->
    (0 <= v + delta)%Z ->
    exists s', add_to_esdt_balance E a key delta rae s = (Ok tt, s').
  Proof.
    intros Hnf Ht Hty Hv Hfp Hge. unfold add_to_esdt_balance.
    destruct (get_esdt_data_succeeds a key s t (Hnf _) Ht) as (s1 & H1).
    rewrite (bind_eq _ _ _ _ _ H1). apply get_esdt_data_ok in H1 as (Hr & _ & _).
    rewrite (bind_eq _ _ _ _ _ (guard_true _ _ _ (proj2 (N.eqb_eq _ _) Hty))).
    rewrite (bind_eq _ _ _ _ _ (check_froze_and_pause_succeeds a key t rae s1
       (fun h1 h2 => eq_ind_r (fun p => _ /\ p = false) (Hfp h1 h2) (rd_paused_at _ _ _ key Hr)))).
    rewrite (bind_eq _ _ _ _ _ (val_of_succeeds _ _ s1 Hv)). cbv zeta.
    rewrite (bind_eq _ _ _ _ _ (guard_true _ _ _ (proj2 (Z.leb_le _ _) Hge))).
    eapply save_esdt_data_succeeds; [exact Hnf|reflexivity].
  Qed.
  (* in terms of observables: frozen_at / balance of the pre-state *)
  Lemma add_to_esdt_balance_succeeds' a key delta rae s :
    no_faults E ->
    (cell s a key = [] \/ exists t, tok_at E s a key = Some t /\ t_type t = C.Fungible /\ t_value t <> None) ->
    (rae = false -> a <> SC -> frozen_at E s a key = false /\ paused_at s key = false) ->
    (0 <= balance E s a key + delta)%Z ->
    exists s', add_to_esdt_balance E a key delta rae s = (Ok tt, s').
  Proof.
    intros Hnf Hent Hfp Hge.
    assert (exists t v, tok_or_default s a key = Some t /\ t_type t = C.Fungible /\ t_value t = Some v) as (t & v & Ht & Hty & Hv).
    { destruct Hent as [Hn|(t & Ht & Hty & Hv)].
      - exists default_tok, 0%Z. split; [apply tod_nil; exact Hn|split; reflexivity].
      - destruct (t_value t) as [v|] eqn:Ev; [|congruence]. exists t, v. split; [apply tok_at_tod; exact Ht|auto]. }
    eapply add_to_esdt_balance_succeeds; eauto.
    - rewrite <- (frozen_at_tod _ _ _ _ Ht). exact Hfp.
    - rewrite (balance_tod _ _ _ _ Ht) in Hge. unfold val_or_0 in Hge. rewrite Hv in Hge. exact Hge.
  Qed.
  (* ---------------- NFT entries ---------------- *)
  Lemma get_nft_on_destination_ok a key nonce s t isNew s' :
    get_nft_on_destination E a key nonce s = (Ok (t, isNew), s') ->
    rd E s s' /\ wf_token t /\ tok_or_default s a (nft_key key nonce) = Some t
    /\ (if isNew then cell s a (nft_key key nonce) = [] /\ t = default_tok
        else tok_at E s a (nft_key key nonce) = Some t).
  Proof.
    unfold get_nft_on_destination. intros H. apply bind_ok in H as (b & s1 & H1 & H2).
    apply retrieve_ok in H1 as [-> ->].
    destruct (cell s a (nft_key key nonce)) as [|b0 br] eqn:Ec.
    - apply ret_ok in H2 as [H2 ->]. inversion H2; subst.
      split; [apply rd_refl|]. split; [apply wf_default_tok|]. split; [apply tod_nil; exact Ec|auto].
    - apply bind_ok in H2 as (t1 & s2 & H2 & H3). apply unmarshal_tok_ok in H2 as [Hd Hr].
      apply ret_ok in H3 as [H3 ->]. inversion H3; subst t1 isNew.
      assert (Ht : tok_at E s a (nft_key key nonce) = Some t) by (unfold tok_at; rewrite Ec; exact Hd).
      split; [exact Hr|]. split; [eapply tok_at_wf; eauto|]. split; [apply tok_at_tod; exact Ht|exact Ht].
  Qed.
  Lemma get_nft_on_destination_succeeds a key nonce s t : plan E (calls s) = false ->
    tok_or_default s a (nft_key key nonce) = Some t ->
    exists s', get_nft_on_destination E a key nonce s =
               (Ok (t, match cell s a (nft_key key nonce) with [] => true | _ => false end), s').
  Proof.
    intros Hp Ht. unfold get_nft_on_destination. rewrite (bind_eq _ _ _ _ _ (retrieve_eq a _ s)).
    unfold tok_or_default in Ht. destruct (cell s a (nft_key key nonce)) as [|b0 br].
    - inversion Ht; subst. eexists. reflexivity.
    - destruct (unmarshal_tok_succeeds E _ _ s Hp Ht) as (s1 & H1). rewrite (bind_eq _ _ _ _ _ H1).
      eexists. reflexivity.
  Qed.

  Lemma get_nft_on_sender_ok a key nonce s t s' :
    get_nft_on_sender E a key nonce s = (Ok t, s') ->
    rd E s s' /\ wf_token t /\ tok_at E s a (nft_key key nonce) = Some t
    /\ ((0 < nonce)%N -> exists m, t_meta t = Some m) /\ (nonce = 0%N -> t_meta t = None).
  Proof.
    unfold get_nft_on_sender. intros H. apply bind_ok in H as ([t0 isNew] & s1 & H1 & H2).
    apply get_nft_on_destination_ok in H1 as (Hr & Hwf & _ & Hcase).
    apply bind_ok in H2 as (u1 & s2 & H2 & H3). apply guard_ok in H2 as [Hn ->].
    apply bind_ok in H3 as (u2 & s2 & H3 & H4). apply guard_ok in H3 as [Hm1 ->].
    apply bind_ok in H4 as (u3 & s2 & H4 & H5). apply guard_ok in H4 as [Hm2 ->].
    apply ret_ok in H5 as [-> ->].
    destruct isNew; [discriminate|].
    split; [exact Hr|]. split; [exact Hwf|]. split; [exact Hcase|].
    destruct (t_meta t0) as [m|]; split.
    - intros _. eauto.
    - intros ->. discriminate.
    - intros Hpos. destruct (0 <? nonce)%N eqn:E0; [discriminate|lia].
    - reflexivity.
  Qed.
  Lemma get_nft_on_sender_succeeds a key nonce s t : plan E (calls s) = false ->
    tok_at E s a (nft_key key nonce) = Some t ->
    ((0 < nonce)%N -> t_meta t <> None) -> (nonce = 0%N -> t_meta t = None) ->
    exists s', get_nft_on_sender E a key nonce s = (Ok t, s').
  Proof.
    intros Hp Ht Hm1 Hm2. unfold get_nft_on_sender.
    destruct (get_nft_on_destination_succeeds a key nonce s t Hp (tok_at_tod _ _ _ _ Ht)) as (s1 & H1).
    destruct (tok_at_cell _ _ _ _ Ht) as [Hne _].
    destruct (cell s a (nft_key key nonce)) as [|b0 br]; [congruence|].
    rewrite (bind_eq _ _ _ _ _ H1). rewrite (bind_eq _ _ _ _ _ (guard_true _ _ _ eq_refl)).
    assert (G1 : negb ((0 <? nonce)%N && match t_meta t with None => true | Some _ => false end) = true).
    { destruct (t_meta t); [rewrite andb_false_r; reflexivity|].
      destruct (0 <? nonce)%N eqn:E0; [|reflexivity]. exfalso. apply Hm1; [lia|reflexivity]. }
    assert (G2 : negb ((nonce =? 0)%N && match t_meta t with None => false | Some _ => true end) = true).
    { destruct (nonce =? 0)%N eqn:E0; [|reflexivity]. rewrite Hm2 by lia. reflexivity. }
    rewrite (bind_eq _ _ _ _ _ (guard_true _ _ _ G1)). rewrite (bind_eq _ _ _ _ _ (guard_true _ _ _ G2)).
    eexists. reflexivity.
  Qed.

  Lemma save_nft_ok a key t rae s b s' :
    save_nft E a key t rae s = (Ok b, s') ->
    exists v, t_value t = Some v
      /\ b = (if (v <=? 0)%Z then [] else enc_tok (cdc E) t)
      /\ wr E a (nft_key key (tok_nonce t)) b s s'
      /\ (rae = false -> a <> SC ->
          frozen_props (t_props t) = false /\ paused_at s key = false /\ paused_at s (nft_key key (tok_nonce t)) = false).
  Proof.
    unfold save_nft. intros H. apply bind_ok in H as (u1 & s1 & H1 & H2).
    apply check_froze_and_pause_ok in H1 as [-> Hfp1]. cbv zeta in H2.
    apply bind_ok in H2 as (u2 & s1 & H2 & H3). apply check_froze_and_pause_ok in H2 as [-> Hfp2].
    apply bind_ok in H3 as (v & s1 & H3 & H4). apply val_of_ok in H3 as [Hv ->].
    exists v. split; [exact Hv|].
    assert (Hfp : rae = false -> a <> SC ->
          frozen_props (t_props t) = false /\ paused_at s key = false /\ paused_at s (nft_key key (tok_nonce t)) = false).
    { intros h1 h2. destruct (Hfp1 h1 h2) as [? ?]. destruct (Hfp2 h1 h2) as [? ?]. auto. }
    destruct (v <=? 0)%Z.
    - apply bind_ok in H4 as (u3 & s1 & H4 & H5). apply save_kv_ok in H4. apply ret_ok in H5 as [-> ->]. auto.
    - apply bind_ok in H4 as (b1 & s1 & H4 & H5). apply marshal_tok_ok in H4 as [-> Hr].
      apply bind_ok in H5 as (u3 & s2 & H5 & H6). apply save_kv_ok in H5. apply ret_ok in H6 as [-> ->].
      split; [reflexivity|]. split; [eapply rd_wr; eauto|exact Hfp].
  Qed.
  (* observables after save_nft *)
  Lemma save_nft_tok_at a key t rae s b s' : wf_token t -> save_nft E a key t rae s = (Ok b, s') ->
    tok_at E s' a (nft_key key (tok_nonce t)) = (if (val_or_0 t <=? 0)%Z then None else Some t).
  Proof.
    intros Hwf H. apply save_nft_ok in H as (v & Hv & -> & Hw & _). unfold val_or_0. rewrite Hv.
    destruct (v <=? 0)%Z; [eapply wr_tok_at_nil|eapply wr_tok_at_enc]; eauto.
  Qed.
  Lemma save_nft_balance a key t rae s b s' : wf_token t -> save_nft E a key t rae s = (Ok b, s') ->
    balance E s' a (nft_key key (tok_nonce t)) = Z.max 0 (val_or_0 t).
  Proof.
    intros Hwf H. pose proof (save_nft_tok_at _ _ _ _ _ _ _ Hwf H) as Ht.
    destruct (val_or_0 t <=? 0)%Z eqn:Ev.
    - rewrite (balance_tok_at_none _ _ _ Ht). lia.
    - rewrite (balance_tok_at _ _ _ _ Ht). lia.
  Qed.
  Lemma save_nft_succeeds a key t rae s v : no_faults E -> t_value t = Some v ->
    (rae = false -> a <> SC ->
       frozen_props (t_props t) = false /\ paused_at s key = false /\ paused_at s (nft_key key (tok_nonce t)) = false) ->
    exists b s', save_nft E a key t rae s = (Ok b, s').
  Proof.
    intros Hnf Hv Hfp. unfold save_nft.
    rewrite (bind_eq _ _ _ _ _ (check_froze_and_pause_succeeds a key t rae s
      (fun h1 h2 => conj (proj1 (Hfp h1 h2)) (proj1 (proj2 (Hfp h1 h2)))))). cbv zeta.
    rewrite (bind_eq _ _ _ _ _ (check_froze_and_pause_succeeds a _ t rae s
      (fun h1 h2 => conj (proj1 (Hfp h1 h2)) (proj2 (proj2 (Hfp h1 h2)))))).
    rewrite (bind_eq _ _ _ _ _ (val_of_succeeds _ _ s Hv)).
    destruct (v <=? 0)%Z.
    - destruct (save_kv_succeeds E a (nft_key key (tok_nonce t)) [] s (Hnf _)) as (s1 & H1).
      rewrite (bind_eq _ _ _ _ _ H1). eexists. eexists. reflexivity.
    - destruct (marshal_tok_succeeds E t s (Hnf _)) as (s1 & H1). rewrite (bind_eq _ _ _ _ _ H1).
      destruct (save_kv_succeeds E a (nft_key key (tok_nonce t)) (enc_tok (cdc E) t) s1 (Hnf _)) as (s2 & H2).
      rewrite (bind_eq _ _ _ _ _ H2). eexists. eexists. reflexivity.
  Qed.

  (* ---------------- NFT-create counter ---------------- *)
  Lemma get_latest_nonce_eq a tok s : get_latest_nonce a tok s = (Ok (counter_at s a tok), s).
  Proof.
    unfold get_latest_nonce. rewrite (bind_eq _ _ _ _ _ (retrieve_eq a _ s)). unfold counter_at.
    destruct (cell s a (NP ++ tok)); reflexivity.
  Qed.
  Lemma get_latest_nonce_ok a tok s n s' : get_latest_nonce a tok s = (Ok n, s') -> n = counter_at s a tok /\ s' = s.
  Proof. rewrite get_latest_nonce_eq. intros H; inversion H; auto. Qed.
  Lemma counter_at_lt s a tok : (counter_at s a tok < two64)%N.
  Proof. unfold counter_at. destruct (cell s a (NP ++ tok)); [reflexivity|apply bigU64_lt]. Qed.
  Lemma save_latest_nonce_ok a tok n s u s' : save_latest_nonce E a tok n s = (Ok u, s') ->
    wr E a (NP ++ tok) (u64_bytes n) s s' /\ counter_at s' a tok = u64 n.
  Proof.
    unfold save_latest_nonce. intros H. apply save_kv_ok in H. split; [exact H|]. eapply wr_counter_at_eq; eauto.
  Qed.
  Lemma save_latest_nonce_succeeds a tok n s : plan E (calls s) = false -> exists s', save_latest_nonce E a tok n s = (Ok tt, s').
  Proof. apply save_kv_succeeds. Qed.

  (* ---------------- roles ---------------- *)
  Lemma get_roles_ok a key s r isNew s' : get_roles E a key s = (Ok (r, isNew), s') ->
    rd E s s' /\ (if isNew then cell s a key = [] /\ r = []
                  else cell s a key <> [] /\ dec_rol (cdc E) (cell s a key) = Some r).
  Proof.
    unfold get_roles. intros H. apply bind_ok in H as (b & s1 & H1 & H2).
    apply retrieve_ok in H1 as [-> ->]. destruct (cell s a key) as [|b0 br] eqn:Ec.
    - apply ret_ok in H2 as [H2 ->]. inversion H2; subst. split; [apply rd_refl|auto].
    - apply bind_ok in H2 as (r1 & s2 & H2 & H3). apply unmarshal_rol_ok in H2 as [Hd Hr].
      apply ret_ok in H3 as [H3 ->]. inversion H3; subst r1 isNew. split; [exact Hr|]. split; [discriminate|exact Hd].
  Qed.
  Lemma get_roles_roles_at a tok s r isNew s' : get_roles E a (RP ++ tok) s = (Ok (r, isNew), s') ->
    r = roles_at E s a tok /\ rd E s s'.
  Proof.
    intros H. apply get_roles_ok in H as [Hr Hcase]. split; [|exact Hr]. unfold roles_at.
    destruct isNew.
    - destruct Hcase as [-> ->]. reflexivity.
    - destruct Hcase as [Hne Hd]. destruct (cell s a (RP ++ tok)); [congruence|]. rewrite Hd. reflexivity.
  Qed.
  Lemma get_roles_succeeds a key s : plan E (calls s) = false ->
    (cell s a key = [] \/ dec_rol (cdc E) (cell s a key) <> None) ->
    exists r isNew s', get_roles E a key s = (Ok (r, isNew), s').
  Proof.
    intros Hp Hd. unfold get_roles. rewrite (bind_eq _ _ _ _ _ (retrieve_eq a key s)).
    destruct (cell s a key) as [|b0 br].
    - do 3 eexists. reflexivity.
    - destruct Hd as [Hd|Hd]; [discriminate|]. destruct (dec_rol (cdc E) (b0 :: br)) as [r|] eqn:Er; [|congruence].
      destruct (unmarshal_rol_succeeds E _ _ s Hp Er) as (s1 & H1). rewrite (bind_eq _ _ _ _ _ H1).
      do 3 eexists. reflexivity.
  Qed.
  Lemma check_allowed_ok snd a tok role s u s' : check_allowed E snd a tok role s = (Ok u, s') ->
    snd = true /\ has_role E s a tok role = true /\ rd E s s'.
  Proof.
    unfold check_allowed. intros H. apply bind_ok in H as (u1 & s1 & H1 & H2). apply guard_ok in H1 as [Hs ->].
    apply bind_ok in H2 as ([r isNew] & s1 & H2 & H3). apply get_roles_roles_at in H2 as [-> Hr].
    apply bind_ok in H3 as (u2 & s2 & H3 & H4). apply guard_ok in H3 as [_ ->]. apply guard_ok in H4 as [Hin ->].
    auto.
  Qed.
  Lemma check_allowed_succeeds snd a tok role s : no_faults E -> snd = true -> has_role E s a tok role = true ->
    exists s', check_allowed E snd a tok role s = (Ok tt, s').
  Proof.
    intros Hnf -> Hh. unfold check_allowed. rewrite (bind_eq _ _ _ _ _ (guard_true _ _ _ eq_refl)).
    assert (Hd : cell s a (RP ++ tok) <> [] /\ dec_rol (cdc E) (cell s a (RP ++ tok)) <> None).
    { unfold has_role, roles_at in Hh. destruct (cell s a (RP ++ tok)) as [|b0 br]; [discriminate|].
      split; [discriminate|]. destruct (dec_rol (cdc E) (b0 :: br)); [discriminate|simpl in Hh; discriminate]. }
    destruct Hd as [Hne Hd].
    destruct (get_roles_succeeds a (RP ++ tok) s (Hnf _) (or_intror Hd)) as (r & isNew & s1 & H1).
    rewrite (bind_eq _ _ _ _ _ H1). cbv beta iota.
    pose proof (get_roles_roles_at _ _ _ _ _ _ H1) as [-> _]. apply get_roles_ok in H1 as [_ Hcase].
    destruct isNew; [destruct Hcase; contradiction|].
    rewrite (bind_eq _ _ _ _ _ (guard_true _ _ _ eq_refl)). exists s1. apply guard_true. exact Hh.
  Qed.
  Lemma has_role_In s a tok role : has_role E s a tok role = true <-> In role (roles_at E s a tok).
  Proof. apply bytes_in_true. Qed.
  Lemma save_roles_ok a key r s u s' : save_roles E a key r s = (Ok u, s') -> wr E a key (enc_rol (cdc E) r) s s'.
  Proof.
    unfold save_roles. intros H. apply bind_ok in H as (b & s1 & H1 & H2).
    apply marshal_rol_ok in H1 as [-> Hr]. apply save_kv_ok in H2. eapply rd_wr; eauto.
  Qed.
  Lemma save_roles_roles_at a tok r s u s' : save_roles E a (RP ++ tok) r s = (Ok u, s') -> roles_at E s' a tok = r.
  Proof. intros H. apply save_roles_ok in H. eapply wr_roles_at_eq; eauto. Qed.
  Lemma save_roles_succeeds a key r s : no_faults E -> exists s', save_roles E a key r s = (Ok tt, s').
  Proof.
    intros Hnf. unfold save_roles. destruct (marshal_rol_succeeds E r s (Hnf _)) as (s1 & H1).
    rewrite (bind_eq _ _ _ _ _ H1). apply save_kv_succeeds, Hnf.
  Qed.

  (* ---------------- check_payable / add_nft_to_destination (Ledger/Transfers.v) ---------------- *)
  Lemma check_payable_ok verify a s u s' : check_payable E verify a s = (Ok u, s') ->
    rd E s s' /\ (verify = true -> payable E a = PayYes).
  Proof.
    unfold check_payable. destruct verify.
    - intros H. apply bind_ok in H as (p & s1 & H1 & H2). apply is_payable_ok in H1 as [Hp Hr].
      apply guard_ok in H2 as [-> ->]. auto.
    - intros H. apply ret_ok in H as [_ ->]. split; [apply rd_refl|discriminate].
  Qed.
  Lemma check_payable_succeeds verify a s : plan E (calls s) = false -> (verify = true -> payable E a = PayYes) ->
    exists s', check_payable E verify a s = (Ok tt, s').
  Proof.
    intros Hp Hv. unfold check_payable. destruct verify; [|eexists; reflexivity].
    assert (Hne : payable E a <> PayErr) by (rewrite Hv by reflexivity; discriminate).
    destruct (is_payable_succeeds E a s Hp Hne) as (s1 & H1). rewrite (bind_eq _ _ _ _ _ H1).
    rewrite Hv by reflexivity. eexists. reflexivity.
  Qed.

  Lemma add_nft_to_destination_ok dst key t verify rae s t' s' :
    add_nft_to_destination E dst key t verify rae s = (Ok t', s') ->
    exists cur v cv,
      tok_or_default s dst (nft_key key (tok_nonce t)) = Some cur /\ wf_token cur
      /\ t_value t = Some v /\ t_value cur = Some cv
      /\ t' = set_value t (Some (v + cv)%Z)
      /\ (verify = true -> payable E dst = PayYes)
      /\ (forall cm, t_meta cur = Some cm -> exists m, t_meta t = Some m /\ md_hash cm = md_hash m)
      /\ (rae = false -> dst <> SC ->
          frozen_props (t_props cur) = false /\ frozen_props (t_props t) = false
          /\ paused_at s key = false /\ paused_at s (nft_key key (tok_nonce t)) = false)
      /\ wr E dst (nft_key key (tok_nonce t))
            (if (v + cv <=? 0)%Z then [] else enc_tok (cdc E) (set_value t (Some (v + cv)%Z))) s s'.
  Proof.
    unfold add_nft_to_destination. intros H. apply bind_ok in H as (u1 & s1 & H1 & H2).
    apply check_payable_ok in H1 as [Hr1 Hpay].
    apply bind_ok in H2 as ([cur isNew] & s2 & H2 & H3).
    apply get_nft_on_destination_ok in H2 as (Hr2 & Hwf & Htod & _).
    apply bind_ok in H3 as (u2 & s3 & H3 & H4). apply check_froze_and_pause_ok in H3 as [-> Hfp1].
    apply bind_ok in H4 as (u3 & s3 & H4 & H5).
    assert (Hs3 : s3 = s2 /\ forall cm, t_meta cur = Some cm -> exists m, t_meta t = Some m /\ md_hash cm = md_hash m).
    { destruct (t_meta cur) as [cm|].
      - apply bind_ok in H4 as (m & s4 & H4 & H6). apply lift_opt_ok in H4 as [Hm ->].
        apply guard_ok in H6 as [Hh ->]. split; [reflexivity|]. intros cm' [= <-]. exists m. split; [exact Hm|].
        apply beqb_true. exact Hh.
      - apply ret_ok in H4 as [_ ->]. split; [reflexivity|discriminate]. }
    destruct Hs3 as [-> Hhash]. clear H4.
    apply bind_ok in H5 as (v & s3 & H5 & H6). apply val_of_ok in H5 as [Hv ->].
    apply bind_ok in H6 as (cv & s3 & H6 & H7). apply val_of_ok in H6 as [Hcv ->].
    cbv zeta in H7. apply bind_ok in H7 as (b & s3 & H7 & H8). apply ret_ok in H8 as [-> ->].
    apply save_nft_ok in H7 as (v' & Hv' & -> & Hw & Hfp2). simpl in Hv'. inversion Hv'; subst v'. clear Hv'.
    rewrite tok_nonce_set_value in *.
    assert (Hr : rd E s s2) by (eapply rd_trans; eauto).
    exists cur, v, cv. rewrite <- (rd_tod _ _ _ _ Hr1). split; [exact Htod|]. split; [exact Hwf|].
    split; [exact Hv|]. split; [exact Hcv|]. split; [reflexivity|]. split; [exact Hpay|]. split; [exact Hhash|].
    split.
    - intros h1 h2. destruct (Hfp1 h1 h2) as [F1 P1]. destruct (Hfp2 h1 h2) as (F2 & P2 & P3).
      rewrite <- !(rd_paused_at _ _ _ _ Hr). auto.
    - eapply rd_wr; eauto.
  Qed.
  Lemma add_nft_to_destination_succeeds dst key t verify rae s cur v cv :
    no_faults E ->
    (verify = true -> payable E dst = PayYes) ->
    tok_or_default s dst (nft_key key (tok_nonce t)) = Some cur ->
    t_value t = Some v -> t_value cur = Some cv ->
    (forall cm, t_meta cur = Some cm -> exists m, t_meta t = Some m /\ md_hash cm = md_hash m) ->
    (rae = false -> dst <> SC ->
       frozen_props (t_props cur) = false /\ frozen_props (t_props t) = false
       /\ paused_at s key = false /\ paused_at s (nft_key key (tok_nonce t)) = false) ->
    exists s', add_nft_to_destination E dst key t verify rae s = (Ok (set_value t (Some (v + cv)%Z)), s').
  Proof.
    intros Hnf Hpay Htod Hv Hcv Hhash Hfp. unfold add_nft_to_destination.
    destruct (check_payable_succeeds verify dst s (Hnf _) Hpay) as (s1 & H1).
    rewrite (bind_eq _ _ _ _ _ H1). apply check_payable_ok in H1 as [Hr1 _].
    rewrite <- (rd_tod _ _ _ _ Hr1) in Htod.
    destruct (get_nft_on_destination_succeeds dst key (tok_nonce t) s1 cur (Hnf _) Htod) as (s2 & H2).
    rewrite (bind_eq _ _ _ _ _ H2). cbv beta iota.
    apply get_nft_on_destination_ok in H2 as (Hr2 & _).
    assert (Hr : rd E s s2) by (eapply rd_trans; eauto).
    assert (Hfp' : rae = false -> dst <> SC ->
       frozen_props (t_props cur) = false /\ frozen_props (t_props t) = false
       /\ paused_at s2 key = false /\ paused_at s2 (nft_key key (tok_nonce t)) = false).
    { intros h1 h2. rewrite !(rd_paused_at _ _ _ _ Hr). auto. }
    rewrite (bind_eq _ _ _ _ _ (check_froze_and_pause_succeeds dst key cur rae s2
      (fun h1 h2 => conj (proj1 (Hfp' h1 h2)) (proj1 (proj2 (proj2 (Hfp' h1 h2))))))).
    assert (Hm : (match t_meta cur with
                  | Some cm => m <- lift_opt (t_meta t) EWrongNFTOnDestination ;; guard (beqb (md_hash cm) (md_hash m)) EWrongNFTOnDestination
                  | None => ret tt
                  end) s2 = (Ok tt, s2)).
    { destruct (t_meta cur) as [cm|]; [|reflexivity].
      destruct (Hhash cm eq_refl) as (m & Hm & Hh).
      assert (Hl : lift_opt (t_meta t) EWrongNFTOnDestination s2 = (Ok m, s2)) by (rewrite Hm; reflexivity).
      rewrite (bind_eq _ _ _ _ _ Hl).
      apply guard_true. apply beqb_true. exact Hh. }
    rewrite (bind_eq _ _ _ _ _ Hm).
    rewrite (bind_eq _ _ _ _ _ (val_of_succeeds _ _ s2 Hv)). rewrite (bind_eq _ _ _ _ _ (val_of_succeeds _ _ s2 Hcv)).
    cbv zeta.
    destruct (save_nft_succeeds dst key (set_value t (Some (v + cv)%Z)) rae s2 (v + cv)%Z Hnf eq_refl) as (b & s3 & H3).
    { intros h1 h2. rewrite tok_nonce_set_value. destruct (Hfp' h1 h2) as (_ & ? & ? & ?). auto. }
    rewrite (bind_eq _ _ _ _ _ H3). eexists. reflexivity.
  Qed.
  Lemma add_nft_to_destination_balance dst key t verify rae s t' s' : wf_token t ->
    add_nft_to_destination E dst key t verify rae s = (Ok t', s') ->
    balance E s' dst (nft_key key (tok_nonce t)) = Z.max 0 (val_or_0 t + balance E s dst (nft_key key (tok_nonce t)))
    /\ val_or_0 t' = (val_or_0 t + balance E s dst (nft_key key (tok_nonce t)))%Z
    /\ unchanged_except (fun a' k' => a' = dst /\ k' = nft_key key (tok_nonce t)) (fun _ => False) s s'
    /\ nofault E s s'.
  Proof.
    intros Hwf H. apply add_nft_to_destination_ok in H as (cur & v & cv & Htod & _ & Hv & Hcv & -> & _ & _ & _ & Hw).
    assert (Hb : balance E s dst (nft_key key (tok_nonce t)) = cv)
      by (rewrite (balance_tod _ _ _ _ Htod); unfold val_or_0; rewrite Hcv; reflexivity).
    assert (Hvt : val_or_0 t = v) by (unfold val_or_0; rewrite Hv; reflexivity).
    rewrite Hb, Hvt.
    split; [|split; [reflexivity|split; [eapply wr_unchanged; eauto|eapply wr_nofault; eauto]]].
    destruct (v + cv <=? 0)%Z eqn:Ev.
    - rewrite (wr_balance_nil _ _ _ _ _ Hw). lia.
    - rewrite (wr_balance_enc _ _ _ _ _ (wf_set_value _ _ Hwf) Hw). unfold val_or_0. simpl. lia.
  Qed.
End Helpers.

(* ================================================================== *)
(* 4. Inversion tactic                                                 *)
(* ================================================================== *)
(* [einv_step] inverts ONE hypothesis of the form [helper ... s = (Ok x, s')] (helpers first, then
   primitives, then the monad combinators); [einv] repeats.  The helpers that decode need a hypothesis
   [codec_ok (cdc E)] in the context.  Facts are introduced with fresh names: select them by shape.
   [upd_acct] and [alloc] are left to the user (upd_acct_ok / upd_acct_acct / alloc_ok). *)
Ltac einv_step :=
  match goal with
  | H : get_esdt_data ?E _ _ _ = (Ok _, _), Hc : codec_ok (cdc ?E) |- _ =>
      apply (get_esdt_data_ok E Hc) in H; destruct H as (? & ? & ?)
  | H : check_froze_and_pause _ _ _ _ _ = (Ok _, _) |- _ =>
      apply check_froze_and_pause_ok in H; destruct H as [? ?]; subst
  | H : is_paused _ _ = (Ok _, _) |- _ => apply is_paused_ok in H; destruct H as [? ?]; subst
  | H : save_esdt_data _ _ _ _ _ = (Ok _, _) |- _ =>
      apply save_esdt_data_ok in H; destruct H as (? & ? & ?)
  | H : add_to_esdt_balance ?E _ _ _ _ _ = (Ok _, _), Hc : codec_ok (cdc ?E) |- _ =>
      apply (add_to_esdt_balance_inv E Hc) in H; destruct H as (? & ? & ? & ? & ? & ? & ? & ? & ?)
  | H : get_nft_on_destination _ _ _ _ _ = (Ok ?x, _) |- _ => is_var x; destruct x as [? ?]
  | H : get_nft_on_destination ?E _ _ _ _ = (Ok (_, _), _), Hc : codec_ok (cdc ?E) |- _ =>
      apply (get_nft_on_destination_ok E Hc) in H; destruct H as (? & ? & ? & ?)
  | H : get_nft_on_sender ?E _ _ _ _ = (Ok _, _), Hc : codec_ok (cdc ?E) |- _ =>
      apply (get_nft_on_sender_ok E Hc) in H; destruct H as (? & ? & ? & ? & ?)
  | H : save_nft _ _ _ _ _ _ = (Ok _, _) |- _ =>
      apply save_nft_ok in H; destruct H as (? & ? & ? & ? & ?)
  | H : get_latest_nonce _ _ _ = (Ok _, _) |- _ => apply get_latest_nonce_ok in H; destruct H as [? ?]; subst
  | H : save_latest_nonce _ _ _ _ _ = (Ok _, _) |- _ => apply save_latest_nonce_ok in H; destruct H as [? ?]
  | H : get_roles _ _ _ _ = (Ok ?x, _) |- _ => is_var x; destruct x as [? ?]
  | H : get_roles _ _ (RP ++ _) _ = (Ok (_, _), _) |- _ => apply get_roles_roles_at in H; destruct H as [? ?]
  | H : get_roles _ _ _ _ = (Ok (_, _), _) |- _ => apply get_roles_ok in H; destruct H as [? ?]
  | H : check_allowed _ _ _ _ _ _ = (Ok _, _) |- _ => apply check_allowed_ok in H; destruct H as (? & ? & ?)
  | H : save_roles _ _ _ _ _ = (Ok _, _) |- _ => apply save_roles_ok in H
  | H : check_payable _ _ _ _ = (Ok _, _) |- _ => apply check_payable_ok in H; destruct H as [? ?]
  | H : add_nft_to_destination ?E _ _ _ _ _ _ = (Ok _, _), Hc : codec_ok (cdc ?E) |- _ =>
      apply (add_nft_to_destination_ok E Hc) in H;
      destruct H as (? & ? & ? & ? & ? & ? & ? & ? & ? & ? & ? & ?)
  | _ => pinv_step
  end.
Ltac einv := repeat einv_step.

(* smoke tests of the tactic *)
Example einv_test1 E (Hc : codec_ok (cdc E)) a key tok s o s' :
  (check_allowed E true a tok C.ESDTRoleLocalMint ;;;
   add_to_esdt_balance E a key 5%Z false ;;;
   t <- get_esdt_data E a key ;; v <- val_of t ;; ret v) s = (Ok o, s') ->
  has_role E s a tok C.ESDTRoleLocalMint = true /\ nofault E s s'.
Proof.
  intros H. einv. split; [assumption|].
  repeat match goal with
         | H : rd _ _ _ |- _ => apply rd_nofault in H
         | H : wr _ _ _ _ _ _ |- _ => apply wr_nofault in H
         end.
  eauto using nofault_trans.
Qed.
Example einv_test2 E (Hc : codec_ok (cdc E)) a key nonce s o s' :
  (t <- get_nft_on_sender E a key nonce ;; '(c, isNew) <- get_nft_on_destination E a key nonce ;;
   b <- save_nft E a key t false ;; n <- get_latest_nonce a key ;; '(r, _) <- get_roles E a (RP ++ key) ;;
   t' <- add_nft_to_destination E a key t true false ;; ret n) s = (Ok o, s') ->
  payable E a = PayYes.
Proof. intros H. einv. auto. Qed.

(* ================================================================== *)
(* 5. Frames: what [unchanged_except] says about the observables; sums over accounts *)
(* ================================================================== *)
Section Frames.
  Variable E : env.
  Variables (F : bytes -> bytes -> Prop) (G : bytes -> Prop).
  Variables s s' : mstate.
  Hypothesis Hue : unchanged_except F G s s'.
  Lemma ue_cell a k : ~ F a k -> cell s' a k = cell s a k.
  Proof. destruct Hue as [H _]. apply H. Qed.
  Lemma ue_fields a : ~ G a -> acct_fields_eq (acct s' a) (acct s a).
  Proof. destruct Hue as [_ H]. apply H. Qed.
  Lemma ue_tok_at a k : ~ F a k -> tok_at E s' a k = tok_at E s a k.
  Proof. intros H. unfold tok_at. rewrite (ue_cell _ _ H). reflexivity. Qed.
  Lemma ue_tod a k : ~ F a k -> tok_or_default E s' a k = tok_or_default E s a k.
  Proof. intros H. unfold tok_or_default. rewrite (ue_cell _ _ H). reflexivity. Qed.
  Lemma ue_balance a k : ~ F a k -> balance E s' a k = balance E s a k.
  Proof. intros H. unfold balance. rewrite (ue_cell _ _ H). reflexivity. Qed.
  Lemma ue_frozen_at a k : ~ F a k -> frozen_at E s' a k = frozen_at E s a k.
  Proof. intros H. unfold frozen_at. rewrite (ue_tok_at _ _ H). reflexivity. Qed.
  Lemma ue_paused_at k : ~ F SYS k -> paused_at s' k = paused_at s k.
  Proof. intros H. unfold paused_at. rewrite (ue_cell _ _ H). reflexivity. Qed.
  Lemma ue_roles_at a tok : ~ F a (RP ++ tok) -> roles_at E s' a tok = roles_at E s a tok.
  Proof. intros H. unfold roles_at. rewrite (ue_cell _ _ H). reflexivity. Qed.
  Lemma ue_has_role a tok r : ~ F a (RP ++ tok) -> has_role E s' a tok r = has_role E s a tok r.
  Proof. intros H. unfold has_role. rewrite (ue_roles_at _ _ H). reflexivity. Qed.
  Lemma ue_counter_at a tok : ~ F a (NP ++ tok) -> counter_at s' a tok = counter_at s a tok.
  Proof. intros H. unfold counter_at. rewrite (ue_cell _ _ H). reflexivity. Qed.
End Frames.

Lemma same_world_unchanged F G s s' : same_world s s' -> unchanged_except F G s s'.
Proof.
  intros H. split.
  - intros a k _. unfold cell. destruct (H a) as [Hs _]. symmetry. apply Hs.
  - intros a _. destruct (H a) as [_ Hf]. apply acct_fields_eq_sym. exact Hf.
Qed.
Lemma unchanged_nothing_same_world s s' :
  unchanged_except (fun _ _ => False) (fun _ => False) s s' -> same_world s s'.
Proof.
  intros [H1 H2] a. split.
  - intros k. symmetry. apply (H1 a k). tauto.
  - apply acct_fields_eq_sym. apply H2. tauto.
Qed.

(* sums of a per-account quantity over the account list (conservation proofs) *)
Section Sums.
  Variable E : env.
  Variable f : account -> Z.
  Hypothesis f_empty : f empty_account = 0%Z.
  Lemma wr_asum a k v s s' : wr E a k v s s' -> NoDup (map fst (accts s)) ->
    asum f (accts s') = (asum f (accts s) - f (acct s a) + f (acct s' a))%Z.
  Proof.
    intros H Hnd. rewrite (wr_acct_eq _ _ _ _ _ _ H). rewrite (wr_accts _ _ _ _ _ _ H).
    rewrite (asum_aput account empty_account f f_empty _ _ _ Hnd). reflexivity.
  Qed.
  Lemma upd_acct_asum a g s u s' : upd_acct a g s = (Ok u, s') -> NoDup (map fst (accts s)) ->
    asum f (accts s') = (asum f (accts s) - f (acct s a) + f (g (acct s a)))%Z.
  Proof.
    intros H Hnd. apply upd_acct_ok in H as (H & _). rewrite H.
    rewrite (asum_aput account empty_account f f_empty _ _ _ Hnd). reflexivity.
  Qed.
  Lemma accts_eq_asum s s' : accts s' = accts s -> asum f (accts s') = asum f (accts s).
  Proof. intros ->. reflexivity. Qed.
End Sums.

(* ================================================================== *)
(* 6. Monotonicity of the dependency-call counter, for every result (Ok, Err or Panic) *)
(* ================================================================== *)
Definition mono {A} (m : MT A) : Prop := forall s, calls s <= calls (snd (m s)).
Lemma mono_ok {A} (m : MT A) s r s' : mono m -> m s = (r, s') -> calls s <= calls s'.
Proof. intros H Hm. specialize (H s). rewrite Hm in H. exact H. Qed.
Lemma mono_same {A} (m : MT A) : (forall s, calls (snd (m s)) = calls s) -> mono m.
Proof. intros H s. rewrite H. lia. Qed.
Lemma mono_ret {A} (a : A) : mono (ret a : MT A). Proof. intros s. simpl. lia. Qed.
Lemma mono_fail {A} e : mono (fail e : MT A). Proof. intros s. simpl. lia. Qed.
Lemma mono_panic {A} : mono (panic : MT A). Proof. intros s. simpl. lia. Qed.
Lemma mono_guard b e : mono (guard b e : MT unit). Proof. destruct b; [apply mono_ret|apply mono_fail]. Qed.
Lemma mono_lift_opt {A} (o : option A) e : mono (lift_opt o e : MT A).
Proof. destruct o; [apply mono_ret|apply mono_fail]. Qed.
Lemma mono_opt_or_panic {A} (o : option A) : mono (opt_or_panic o : MT A).
Proof. destruct o; [apply mono_ret|apply mono_panic]. Qed.
Lemma mono_bind {A B} (m : MT A) (f : A -> MT B) : mono m -> (forall a, mono (f a)) -> mono (bind m f).
Proof.
  intros Hm Hf s. unfold bind. specialize (Hm s). destruct (m s) as [[a|e|] s1]; simpl in *; [|lia|lia].
  specialize (Hf a s1). lia.
Qed.
Lemma mono_if {A} (b : bool) (m1 m2 : MT A) : mono m1 -> mono m2 -> mono (if b then m1 else m2).
Proof. destruct b; auto. Qed.
Lemma mono_dep E : mono (dep E).
Proof. intros s. unfold dep. destruct (plan E (calls s)); simpl; lia. Qed.
Lemma mono_retrieve a k : mono (retrieve a k). Proof. intros s. simpl. lia. Qed.
Lemma mono_write_kv a k v : mono (write_kv a k v). Proof. intros s. simpl. lia. Qed.
Lemma mono_upd_acct a f : mono (upd_acct a f). Proof. intros s. simpl. lia. Qed.
Lemma mono_get_acct a : mono (get_acct a). Proof. intros s. simpl. lia. Qed.
Lemma mono_alloc n : mono (alloc n).
Proof. intros s. unfold alloc. destruct (1099511627776 <? n)%N; simpl; lia. Qed.
Lemma mono_arg args i : mono (arg args i).
Proof. unfold arg. destruct (i <? alen args)%N; [apply mono_opt_or_panic|apply mono_panic]. Qed.
Lemma mono_args_from args i : mono (args_from args i).
Proof. unfold args_from. destruct (i <=? alen args)%N; [apply mono_ret|apply mono_panic]. Qed.
Lemma mono_val_of t : mono (val_of t). Proof. apply mono_opt_or_panic. Qed.
Lemma mono_meta_of t : mono (meta_of t). Proof. apply mono_opt_or_panic. Qed.

Create HintDb mono discriminated.
#[export] Hint Resolve mono_ret mono_fail mono_panic mono_guard mono_lift_opt mono_opt_or_panic
  mono_dep mono_retrieve mono_write_kv mono_upd_acct mono_get_acct mono_alloc mono_arg mono_args_from
  mono_val_of mono_meta_of : mono.
(* [mono_tac] proves [mono (m)] for a monadic term built from binds, guards, ifs, matches and
   helpers whose [mono_*] lemma is in the hint database [mono]; unfold your function first. *)
Ltac mono_step :=
  first
    [ solve [auto with mono]
    | apply mono_bind; [|intros]
    | match goal with
      | |- mono (if ?b then _ else _) => destruct b
      | |- mono (match ?x with _ => _ end) => destruct x
      | |- mono (let _ := _ in _) => cbv zeta
      end ].
Ltac mono_tac := repeat mono_step.

Lemma mono_save_kv E a k v : mono (save_kv E a k v). Proof. unfold save_kv. mono_tac. Qed.
Lemma mono_load_account E a : mono (load_account E a). Proof. apply mono_dep. Qed.
Lemma mono_save_account E a : mono (save_account E a). Proof. apply mono_dep. Qed.
Lemma mono_marshal_tok E t : mono (marshal_tok E t). Proof. unfold marshal_tok. mono_tac. Qed.
Lemma mono_unmarshal_tok E b : mono (unmarshal_tok E b). Proof. unfold unmarshal_tok. mono_tac. Qed.
Lemma mono_marshal_rol E r : mono (marshal_rol E r). Proof. unfold marshal_rol. mono_tac. Qed.
Lemma mono_unmarshal_rol E b : mono (unmarshal_rol E b). Proof. unfold unmarshal_rol. mono_tac. Qed.
Lemma mono_is_payable E a : mono (is_payable E a). Proof. unfold is_payable. mono_tac. Qed.
#[export] Hint Resolve mono_save_kv mono_load_account mono_save_account mono_marshal_tok mono_unmarshal_tok
  mono_marshal_rol mono_unmarshal_rol mono_is_payable : mono.
Lemma mono_check_basic i : mono (check_basic i). Proof. unfold check_basic. mono_tac. Qed.
Lemma mono_get_esdt_data E a k : mono (get_esdt_data E a k). Proof. unfold get_esdt_data. mono_tac. Qed.
Lemma mono_is_paused k : mono (is_paused k). Proof. unfold is_paused. mono_tac. Qed.
#[export] Hint Resolve mono_check_basic mono_get_esdt_data mono_is_paused : mono.
Lemma mono_check_froze_and_pause a k t rae : mono (check_froze_and_pause a k t rae).
Proof. unfold check_froze_and_pause. mono_tac. Qed.
Lemma mono_save_esdt_data E a t k : mono (save_esdt_data E a t k). Proof. unfold save_esdt_data. mono_tac. Qed.
#[export] Hint Resolve mono_check_froze_and_pause mono_save_esdt_data : mono.
Lemma mono_add_to_esdt_balance E a k d rae : mono (add_to_esdt_balance E a k d rae).
Proof. unfold add_to_esdt_balance. mono_tac. Qed.
Lemma mono_get_nft_on_destination E a k n : mono (get_nft_on_destination E a k n).
Proof. unfold get_nft_on_destination. mono_tac. Qed.
#[export] Hint Resolve mono_add_to_esdt_balance mono_get_nft_on_destination : mono.
Lemma mono_get_nft_on_sender E a k n : mono (get_nft_on_sender E a k n).
Proof. unfold get_nft_on_sender. mono_tac. Qed.
Lemma mono_save_nft E a k t rae : mono (save_nft E a k t rae). Proof. unfold save_nft. mono_tac. Qed.
Lemma mono_get_latest_nonce a tok : mono (get_latest_nonce a tok). Proof. unfold get_latest_nonce. mono_tac. Qed.
Lemma mono_save_latest_nonce E a tok n : mono (save_latest_nonce E a tok n). Proof. unfold save_latest_nonce. mono_tac. Qed.
Lemma mono_get_roles E a k : mono (get_roles E a k). Proof. unfold get_roles. mono_tac. Qed.
#[export] Hint Resolve mono_get_nft_on_sender mono_save_nft mono_get_latest_nonce mono_save_latest_nonce mono_get_roles : mono.
Lemma mono_check_allowed E snd a tok role : mono (check_allowed E snd a tok role).
Proof. unfold check_allowed. mono_tac. Qed.
Lemma mono_save_roles E a k r : mono (save_roles E a k r). Proof. unfold save_roles. mono_tac. Qed.
Lemma mono_check_payable E v a : mono (check_payable E v a). Proof. unfold check_payable. mono_tac. Qed.
#[export] Hint Resolve mono_check_allowed mono_save_roles mono_check_payable : mono.
Lemma mono_add_nft_to_destination E dst k t v rae : mono (add_nft_to_destination E dst k t v rae).
Proof. unfold add_nft_to_destination. mono_tac. Qed.
#[export] Hint Resolve mono_add_nft_to_destination : mono.

(* ================================================================== *)
(* 7. Panic freedom (C11): [panicfree m] = m never panics; [nopanic m s] = m does not panic from s *)
(* ================================================================== *)
Definition nopanic {A} (m : MT A) (s : mstate) : Prop := fst (m s) <> Panic.
Definition panicfree {A} (m : MT A) : Prop := forall s, nopanic m s.
Lemma nopanic_is_panic {A} (m : MT A) s : nopanic m s <-> ~ is_panic (m s).
Proof. reflexivity. Qed.
Lemma nopanic_bind {A B} (m : MT A) (f : A -> MT B) s :
  nopanic m s -> (forall a s1, m s = (Ok a, s1) -> nopanic (f a) s1) -> nopanic (bind m f) s.
Proof.
  unfold nopanic, bind. intros Hm Hf. destruct (m s) as [[a|e|] s1] eqn:Em; simpl in *.
  - apply Hf. reflexivity.
  - discriminate.
  - congruence.
Qed.
Lemma panicfree_nopanic {A} (m : MT A) s : panicfree m -> nopanic m s. Proof. intros H. apply H. Qed.
Lemma panicfree_ret {A} (a : A) : panicfree (ret a : MT A). Proof. intros s. unfold nopanic. simpl. discriminate. Qed.
Lemma panicfree_fail {A} e : panicfree (fail e : MT A). Proof. intros s. unfold nopanic. simpl. discriminate. Qed.
Lemma panicfree_guard b e : panicfree (guard b e : MT unit). Proof. destruct b; [apply panicfree_ret|apply panicfree_fail]. Qed.
Lemma panicfree_lift_opt {A} (o : option A) e : panicfree (lift_opt o e : MT A).
Proof. destruct o; [apply panicfree_ret|apply panicfree_fail]. Qed.
Lemma panicfree_bind {A B} (m : MT A) (f : A -> MT B) : panicfree m -> (forall a, panicfree (f a)) -> panicfree (bind m f).
Proof. intros Hm Hf s. apply nopanic_bind; [apply Hm|]. intros a s1 _. apply Hf. Qed.
Lemma panicfree_dep E : panicfree (dep E).
Proof. intros s. unfold nopanic, dep. destruct (plan E (calls s)); simpl; discriminate. Qed.
Lemma panicfree_retrieve a k : panicfree (retrieve a k). Proof. intros s. unfold nopanic. simpl. discriminate. Qed.
Lemma panicfree_write_kv a k v : panicfree (write_kv a k v). Proof. intros s. unfold nopanic. simpl. discriminate. Qed.
Lemma panicfree_upd_acct a f : panicfree (upd_acct a f). Proof. intros s. unfold nopanic. simpl. discriminate. Qed.
Lemma panicfree_get_acct a : panicfree (get_acct a). Proof. intros s. unfold nopanic. simpl. discriminate. Qed.
Lemma nopanic_alloc n s : (n <= 1099511627776)%N -> nopanic (alloc n) s.
Proof. intros H. unfold nopanic, alloc. destruct (1099511627776 <? n)%N eqn:E0; [lia|]. simpl. discriminate. Qed.
Lemma nopanic_arg args i s : (i < alen args)%N -> nopanic (arg args i) s.
Proof. intros H. unfold nopanic. destruct (arg_succeeds args i s H) as (x & _ & ->). simpl. discriminate. Qed.
Lemma nopanic_args_from args i s : (i <= alen args)%N -> nopanic (args_from args i) s.
Proof. intros H. unfold nopanic. rewrite (args_from_succeeds args i s H). simpl. discriminate. Qed.
Lemma nopanic_val_of t s : t_value t <> None -> nopanic (val_of t) s.
Proof. intros H. unfold nopanic, val_of. destruct (t_value t); [simpl; discriminate|congruence]. Qed.
Lemma nopanic_meta_of t s : t_meta t <> None -> nopanic (meta_of t) s.
Proof. intros H. unfold nopanic, meta_of. destruct (t_meta t); [simpl; discriminate|congruence]. Qed.

Create HintDb panicfree discriminated.
#[export] Hint Resolve panicfree_ret panicfree_fail panicfree_guard panicfree_lift_opt panicfree_dep panicfree_retrieve panicfree_write_kv
  panicfree_upd_acct panicfree_get_acct : panicfree.
Ltac panicfree_step :=
  first
    [ solve [auto with panicfree]
    | apply panicfree_bind; [|intros]
    | match goal with
      | |- panicfree (if ?b then _ else _) => destruct b
      | |- panicfree (match ?x with _ => _ end) => destruct x
      | |- panicfree (let _ := _ in _) => cbv zeta
      end ].
Ltac panicfree_tac := repeat panicfree_step.

Lemma panicfree_save_kv E a k v : panicfree (save_kv E a k v). Proof. unfold save_kv. panicfree_tac. Qed.
Lemma panicfree_load_account E a : panicfree (load_account E a). Proof. apply panicfree_dep. Qed.
Lemma panicfree_save_account E a : panicfree (save_account E a). Proof. apply panicfree_dep. Qed.
Lemma panicfree_marshal_tok E t : panicfree (marshal_tok E t). Proof. unfold marshal_tok. panicfree_tac. Qed.
Lemma panicfree_unmarshal_tok E b : panicfree (unmarshal_tok E b). Proof. unfold unmarshal_tok. panicfree_tac. Qed.
Lemma panicfree_marshal_rol E r : panicfree (marshal_rol E r). Proof. unfold marshal_rol. panicfree_tac. Qed.
Lemma panicfree_unmarshal_rol E b : panicfree (unmarshal_rol E b). Proof. unfold unmarshal_rol. panicfree_tac. Qed.
Lemma panicfree_is_payable E a : panicfree (is_payable E a). Proof. unfold is_payable. panicfree_tac. Qed.
#[export] Hint Resolve panicfree_save_kv panicfree_load_account panicfree_save_account panicfree_marshal_tok panicfree_unmarshal_tok
  panicfree_marshal_rol panicfree_unmarshal_rol panicfree_is_payable : panicfree.
Lemma panicfree_check_basic i : panicfree (check_basic i). Proof. unfold check_basic. panicfree_tac. Qed.
Lemma panicfree_get_esdt_data E a k : panicfree (get_esdt_data E a k). Proof. unfold get_esdt_data. panicfree_tac. Qed.
Lemma panicfree_is_paused k : panicfree (is_paused k). Proof. unfold is_paused. panicfree_tac. Qed.
#[export] Hint Resolve panicfree_check_basic panicfree_get_esdt_data panicfree_is_paused : panicfree.
Lemma panicfree_check_froze_and_pause a k t rae : panicfree (check_froze_and_pause a k t rae).
Proof. unfold check_froze_and_pause. panicfree_tac. Qed.
Lemma panicfree_get_nft_on_destination E a k n : panicfree (get_nft_on_destination E a k n).
Proof. unfold get_nft_on_destination. panicfree_tac. Qed.
#[export] Hint Resolve panicfree_check_froze_and_pause panicfree_get_nft_on_destination : panicfree.
Lemma panicfree_get_nft_on_sender E a k n : panicfree (get_nft_on_sender E a k n).
Proof. unfold get_nft_on_sender. panicfree_tac. Qed.
Lemma panicfree_get_latest_nonce a tok : panicfree (get_latest_nonce a tok). Proof. unfold get_latest_nonce. panicfree_tac. Qed.
Lemma panicfree_save_latest_nonce E a tok n : panicfree (save_latest_nonce E a tok n). Proof. unfold save_latest_nonce. panicfree_tac. Qed.
Lemma panicfree_get_roles E a k : panicfree (get_roles E a k). Proof. unfold get_roles. panicfree_tac. Qed.
#[export] Hint Resolve panicfree_get_nft_on_sender panicfree_get_latest_nonce panicfree_save_latest_nonce panicfree_get_roles : panicfree.
Lemma panicfree_check_allowed E snd a tok role : panicfree (check_allowed E snd a tok role).
Proof. unfold check_allowed. panicfree_tac. Qed.
Lemma panicfree_save_roles E a k r : panicfree (save_roles E a k r). Proof. unfold save_roles. panicfree_tac. Qed.
Lemma panicfree_check_payable E v a : panicfree (check_payable E v a). Proof. unfold check_payable. panicfree_tac. Qed.
#[export] Hint Resolve panicfree_check_allowed panicfree_save_roles panicfree_check_payable : panicfree.

Section NoPanic.
  Variable E : env.
  Hypothesis Hc : codec_ok (cdc E).
  (* the helpers that dereference Value / TokenMetaData *)
  Lemma nopanic_save_esdt_data a t k s : t_value t <> None -> nopanic (save_esdt_data E a t k) s.
  Proof.
    intros Hv. unfold save_esdt_data. apply nopanic_bind; [apply nopanic_val_of; exact Hv|].
    intros v s1 _. apply panicfree_nopanic. panicfree_tac.
  Qed.
  Lemma nopanic_save_nft a k t rae s : t_value t <> None -> nopanic (save_nft E a k t rae) s.
  Proof.
    intros Hv. unfold save_nft. apply nopanic_bind; [apply panicfree_check_froze_and_pause|]. intros u1 s1 _. cbv zeta.
    apply nopanic_bind; [apply panicfree_check_froze_and_pause|]. intros u2 s2 _.
    apply nopanic_bind; [apply nopanic_val_of; exact Hv|]. intros v s3 _. apply panicfree_nopanic. panicfree_tac.
  Qed.
  Lemma nopanic_add_to_esdt_balance a key delta rae s :
    (forall t, tok_at E s a key = Some t -> t_value t <> None) ->
    nopanic (add_to_esdt_balance E a key delta rae) s.
  Proof.
    intros Hv. unfold add_to_esdt_balance. apply nopanic_bind; [apply panicfree_get_esdt_data|].
    intros t s1 H1. apply (get_esdt_data_ok E Hc) in H1 as (_ & Ht & _).
    assert (Hvt : t_value t <> None).
    { destruct (tod_cases _ _ _ _ _ Ht) as [(_ & -> & _)|(_ & Hta)]; [discriminate|apply Hv; exact Hta]. }
    apply nopanic_bind; [apply panicfree_guard|]. intros u1 s2 _.
    apply nopanic_bind; [apply panicfree_check_froze_and_pause|]. intros u2 s3 _.
    apply nopanic_bind; [apply nopanic_val_of; exact Hvt|]. intros v s4 _. cbv zeta.
    apply nopanic_bind; [apply panicfree_guard|]. intros u3 s5 _.
    apply nopanic_save_esdt_data. discriminate.
  Qed.
  (* since the F11 repair the incoming entry's metadata is checked, not dereferenced: no premise on it *)
  Lemma nopanic_add_nft_to_destination' dst key t verify rae s :
    t_value t <> None ->
    (forall c, tok_at E s dst (nft_key key (tok_nonce t)) = Some c -> t_value c <> None) ->
    nopanic (add_nft_to_destination E dst key t verify rae) s.
  Proof.
    intros Hv Hcur. unfold add_nft_to_destination. apply nopanic_bind; [apply panicfree_check_payable|].
    intros u1 s1 H1. apply check_payable_ok in H1 as [Hr1 _].
    apply nopanic_bind; [apply panicfree_get_nft_on_destination|]. intros [cur isNew] s2 H2.
    apply (get_nft_on_destination_ok E Hc) in H2 as (_ & _ & Htod & _).
    rewrite (rd_tod _ _ _ _ _ Hr1) in Htod.
    assert (Hcv : t_value cur <> None).
    { destruct (tod_cases _ _ _ _ _ Htod) as [(_ & -> & _)|(_ & Hta)]; [discriminate|apply Hcur; exact Hta]. }
    apply nopanic_bind; [apply panicfree_check_froze_and_pause|]. intros u2 s3 _.
    apply nopanic_bind.
    { destruct (t_meta cur) as [cm|]; [|apply panicfree_ret].
      apply nopanic_bind; [apply panicfree_lift_opt|]. intros m s4 _. apply panicfree_guard. }
    intros u3 s4 _. apply nopanic_bind; [apply nopanic_val_of; exact Hv|]. intros v s5 _.
    apply nopanic_bind; [apply nopanic_val_of; exact Hcv|]. intros cv s6 _. cbv zeta.
    apply nopanic_bind; [apply nopanic_save_nft; discriminate|]. intros b s7 _. apply panicfree_ret.
  Qed.
  Lemma nopanic_add_nft_to_destination dst key t verify rae s :
    t_value t <> None ->
    (forall c, tok_at E s dst (nft_key key (tok_nonce t)) = Some c ->
               t_value c <> None /\ (t_meta c <> None -> t_meta t <> None)) ->
    nopanic (add_nft_to_destination E dst key t verify rae) s.
  Proof.
    intros Hv Hcur. apply nopanic_add_nft_to_destination'; [exact Hv|]. intros c Hc0. apply (Hcur c Hc0).
  Qed.
End NoPanic.

Print Assumptions add_to_esdt_balance_ok.
Print Assumptions add_to_esdt_balance_succeeds.
Print Assumptions save_nft_ok.
Print Assumptions add_nft_to_destination_ok.
Print Assumptions check_allowed_ok.
Print Assumptions save_roles_roles_at.
Print Assumptions key_allowed_protected.
Print Assumptions mono_add_nft_to_destination.
Print Assumptions nopanic_add_nft_to_destination.
