(* Vocabulary shared by the function specs of the three transfer built-ins
   (Spec_Transfers_Esdt.v, Spec_Transfers_Nft.v, Spec_Transfers_Multi.v, Spec_Transfers.v):
     argn i n            n-th call argument ([] when absent)
     acct_bal E k x      balance of one account VALUE under the full storage key k
                         (balance E s a k = acct_bal E k (acct s a), definitionally)
     touches L s s'      "only the accounts listed in L were written between s and s'", in the form the
                         conservation proofs need: key list stays NoDup and, for every per-account quantity f,
                         asum f (accts s') = asum f (accts s) + SUM_{a in L} (f (acct s' a) - f (acct s a))
     zsum                finite sums over lists
     lookup_consistent   F4b hypothesis: the entry found under nft_key key nonce carries md_nonce = nonce. *)
From EV Require Import Base.Bytes Base.Store Base.Monad gen.Consts Codec.Types Helpers.Helpers
  Ledger.Types Ledger.Env Ledger.Funcs Ledger.Transfers LedgerProofs.Defs LedgerProofs.EnvSpec.

Definition argn (i : input) (n : nat) : bytes := nth n (i_args i) [].
Lemma nth_error_argn i n x : nth_error (i_args i) n = Some x -> argn i n = x.
Proof. intros H. unfold argn. apply nth_error_nth. exact H. Qed.
Lemma argn_nth_error i n : (N.of_nat n < alen (i_args i))%N -> nth_error (i_args i) n = Some (argn i n).
Proof.
  unfold alen, argn. intros H. destruct (nth_error (i_args i) n) as [x|] eqn:En.
  - f_equal. symmetry. apply nth_error_nth. exact En.
  - apply nth_error_None in En. lia.
Qed.

(* ---------------- finite sums ---------------- *)
Fixpoint zsum {A} (g : A -> Z) (l : list A) : Z :=
  match l with [] => 0%Z | x :: r => (g x + zsum g r)%Z end.
Lemma zsum_app {A} (g : A -> Z) l1 l2 : zsum g (l1 ++ l2) = (zsum g l1 + zsum g l2)%Z.
Proof. induction l1 as [|x r IH]; simpl; [reflexivity|]. rewrite IH. lia. Qed.
Lemma zsum_ext {A} (g h : A -> Z) l : (forall x, In x l -> g x = h x) -> zsum g l = zsum h l.
Proof.
  induction l as [|x r IH]; simpl; intros H; [reflexivity|].
  rewrite H by (left; reflexivity). rewrite IH; [reflexivity|]. intros y Hy. apply H. right. exact Hy.
Qed.
Lemma zsum_zero {A} (g : A -> Z) l : (forall x, In x l -> g x = 0%Z) -> zsum g l = 0%Z.
Proof.
  induction l as [|x r IH]; simpl; intros H; [reflexivity|].
  rewrite H by (left; reflexivity). rewrite IH; [reflexivity|]. intros y Hy. apply H. right. exact Hy.
Qed.
Lemma zsum_plus {A} (g h : A -> Z) l : zsum (fun x => (g x + h x)%Z) l = (zsum g l + zsum h l)%Z.
Proof. induction l as [|x r IH]; simpl; [reflexivity|]. rewrite IH. lia. Qed.
(* a function supported on one element of a duplicate-free list *)
Lemma zsum_single (g : bytes -> Z) l a : NoDup l -> In a l -> (forall b, b <> a -> g b = 0%Z) -> zsum g l = g a.
Proof.
  induction l as [|x r IH]; simpl; intros Hnd Hin Hz; [destruct Hin|].
  inversion Hnd; subst. destruct (beqb_spec x a) as [->|Hne].
  - rewrite zsum_zero; [lia|]. intros y Hy. apply Hz. intros ->. contradiction.
  - destruct Hin as [Hin|Hin]; [contradiction|]. rewrite (Hz x Hne). rewrite IH by assumption. lia.
Qed.
Lemma zsum_notin (g : bytes -> Z) l : (forall b, In b l -> g b = 0%Z) -> zsum g l = 0%Z.
Proof. apply zsum_zero. Qed.

(* ---------------- balance of an account value ---------------- *)
Definition acct_bal (E : env) (k : bytes) (x : account) : Z := bal_of_bytes E (sget (a_store x) k).
Lemma balance_acct_bal E s a k : balance E s a k = acct_bal E k (acct s a).
Proof. reflexivity. Qed.
Lemma acct_bal_empty E k : acct_bal E k empty_account = 0%Z.
Proof. unfold acct_bal, empty_account. cbn [a_store]. rewrite sget_nil. reflexivity. Qed.

(* ---------------- which accounts were written ---------------- *)
Definition touches (L : list bytes) (s s' : mstate) : Prop :=
  NoDup (map fst (accts s)) ->
  NoDup (map fst (accts s'))
  /\ forall f : account -> Z, f empty_account = 0%Z ->
       asum f (accts s') = (asum f (accts s) + zsum (fun a => f (acct s' a) - f (acct s a)) L)%Z.

Lemma touches_accts L s s' : accts s' = accts s -> touches L s s'.
Proof.
  intros H Hnd. rewrite H. split; [exact Hnd|]. intros f _.
  rewrite zsum_zero; [lia|]. intros a _. unfold acct. rewrite H. lia.
Qed.
Lemma touches_refl L s : touches L s s.
Proof. apply touches_accts. reflexivity. Qed.
Lemma touches_rd E L s s' : rd E s s' -> touches L s s'.
Proof. intros H. apply touches_accts. eapply rd_accts; eauto. Qed.
Lemma touches_trans L s s1 s' : touches L s s1 -> touches L s1 s' -> touches L s s'.
Proof.
  intros H1 H2 Hnd. destruct (H1 Hnd) as [Hnd1 Hs1]. destruct (H2 Hnd1) as [Hnd2 Hs2].
  split; [exact Hnd2|]. intros f Hf. rewrite (Hs2 f Hf), (Hs1 f Hf).
  rewrite <- Z.add_assoc. f_equal. rewrite <- zsum_plus. apply zsum_ext. intros a _. lia.
Qed.
Lemma touches_wr E L a k v s s' : NoDup L -> In a L -> wr E a k v s s' -> touches L s s'.
Proof.
  intros HL Hin Hw Hnd. split; [eapply wr_nodup; eauto|]. intros f Hf.
  rewrite (wr_asum E f Hf _ _ _ _ _ Hw Hnd).
  rewrite (zsum_single (fun b => (f (acct s' b) - f (acct s b))%Z) L a HL Hin).
  - lia.
  - intros b Hne. rewrite (wr_acct_ne _ _ _ _ _ _ _ Hw Hne). lia.
Qed.
(* the sum of a quantity over a shard, when the per-address change is known *)
Lemma touches_sum L s s' (f : account -> Z) (d : bytes -> Z) :
  touches L s s' -> NoDup (map fst (accts s)) -> f empty_account = 0%Z ->
  (forall a, In a L -> f (acct s' a) = (f (acct s a) + d a)%Z) ->
  asum f (accts s') = (asum f (accts s) + zsum d L)%Z.
Proof.
  intros Ht Hnd Hf Hd. destruct (Ht Hnd) as [_ Hs]. rewrite (Hs f Hf). f_equal.
  apply zsum_ext. intros a Ha. rewrite (Hd a Ha). lia.
Qed.

(* ---------------- F4b: consistent lookups ---------------- *)
Definition lookup_consistent (E : env) (s : mstate) (a key : bytes) (nonce : N) : Prop :=
  forall t, tok_at E s a (nft_key key nonce) = Some t -> tok_nonce t = nonce.

(* ---------------- small facts used by all three specs ---------------- *)
Lemma bigZ_Z_bytes z : (0 <= z)%Z -> bigZ (Z_bytes z) = z.
Proof. intros H. unfold bigZ, Z_bytes. rewrite be_to_N_to_be. lia. Qed.
Lemma val_or_0_set_value t v : val_or_0 (set_value t (Some v)) = v.
Proof. reflexivity. Qed.
Lemma t_meta_set_value t v : t_meta (set_value t v) = t_meta t.
Proof. reflexivity. Qed.
Lemma firstn3 (A : list bytes) : (3 <= alen A)%N -> firstn 3 A = [nth 0 A []; nth 1 A []; nth 2 A []].
Proof.
  unfold alen. destruct A as [|a0 [|a1 [|a2 r]]]; simpl; intros H; try lia. reflexivity.
Qed.
Lemma skipn_all_ge (A : list bytes) n : (length A <= n)%nat -> skipn n A = [].
Proof. apply skipn_all2. Qed.
