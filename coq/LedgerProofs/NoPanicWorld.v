(* C11 (totality), world level, part 2: no execution performed by the node ever panics.
   Ledger/World.v [wstep] hides the result of the execution a step performs (an error and a panic are both rolled
   back).  This file instruments it:
     [wstep_target c w op]  the execution the step performs: (shard, function, input), or None when the step executes
                            nothing (shard out of range, unknown message id, refund of a message that was not rejected);
     [wstep_result c w op]  its result [exec (env_at c sh) fn i (shard state)], [wstep_status]: Ok / Err / Panic;
     [wstep_spec]           [wstep] IS: nothing / commit on Ok / reject otherwise, for exactly this execution.
   The world invariant [PInv c w]: every shard state is [StoreOK] and every in-flight message satisfies the payload
   hypothesis of the destination side ([msg_pok]: [args_payload_ok], and fewer than 2^40 arguments for a
   MultiESDTNFTTransfer message).  Nothing is assumed about message ids, callers, destinations: a delivery whose
   caller lives on the destination shard is an [origin_input], otherwise caller <> destination follows.
   [PInv_step]: preserved by every transaction-reachable operation ([tx_op]); [world_no_panic]: along every
   history of such operations no step has status Panic; [world_total]: every executed call returns Ok with return
   code Ok, or an error. *)
From Coq.Strings Require Import String.
From Coq Require Import Lia List.
From EV Require Import Base.Bytes Base.Store Base.Monad gen.Consts Codec.Types Helpers.Helpers
  Ledger.Types Ledger.Env Ledger.Funcs Ledger.Transfers Ledger.World
  LedgerProofs.Defs LedgerProofs.EnvSpec LedgerProofs.WorldDefs LedgerProofs.WorldSpec
  LedgerProofs.C07_Emit
  LedgerProofs.NoPanic LedgerProofs.NoPanicFuncs LedgerProofs.NoPanicTransfers LedgerProofs.NoPanicAlloc
  LedgerProofs.NoPanicEmit LedgerProofs.NoPanicWorldEmit.
Import ListNotations.

(* ---------------- exec: the length bound is needed by the multi-transfer only ---------------- *)
Theorem safe_exec_m E (Hc : codec_ok (cdc E)) (Hflag : flag_ok (cdc E)) st f i :
  (st = true -> f = FMulti -> (alen (i_args i) < 1099511627776)%N) ->
  (st = true -> origin_input i \/ delivered_input E f i) ->
  safe E st (exec E f i) (fun o => o_rc o = C.Ok).
Proof.
  intros Hlen Hin. unfold exec.
  repeat match goal with |- safe _ _ (if beqb f ?c then _ else _) _ => destruct (beqb_spec f c) as [Heq|?] end.
  all: try solve [ first
    [ apply safe_f_claim_rewards | apply safe_f_change_owner | apply safe_f_set_user_name
    | apply safe_f_save_key_value | apply safe_f_pause | apply safe_f_esdt_transfer
    | apply safe_f_esdt_burn | apply safe_f_freeze_wipe | apply safe_f_roles
    | apply safe_f_local_burn | apply safe_f_local_mint | apply safe_f_nft_add_quantity
    | apply safe_f_nft_burn | apply safe_f_nft_create | apply safe_f_create_role_transfer
    | apply safe_f_nft_update_attributes | apply safe_f_nft_add_uri | apply (safe_fail E) ]; assumption ].
  - apply safe_f_nft_transfer; [exact Hc|]. intros Hst.
    destruct (Hin Hst) as [Ho|(_ & _ & Hne & Hp & _)]; [left; exact Ho|right].
    split; [exact Hne|apply Hp; exact Heq].
  - apply safe_f_multi_transfer; [exact Hc|intros Hst; apply Hlen; assumption|]. intros Hst.
    destruct (Hin Hst) as [Ho|(_ & _ & Hne & _ & Hp)]; [left; exact Ho|right].
    split; [exact Hne|apply Hp; exact Heq].
Qed.

(* ---------------- the instrumented step ---------------- *)
Inductive status := SOk | SErr | SPanic.
Definition status_of {A B} (r : res A B) : status :=
  match r with Ok _ => SOk | Err _ => SErr | Panic => SPanic end.

Section World.
  Variable c : wcfg.
  Notation shof := (wc_shard_of c).

  (* the execution a step performs: mirrors the guards of [wstep] *)
  Definition wstep_target (w : world) (op : wop) : option (N * bytes * input) :=
    match op with
    | OCall sh fn i => if (sh <? wc_nshards c)%N then Some (sh, fn, i) else None
    | ODeliver id gas | ORedeliver id gas =>
      match find_msg (inflight w) id with
      | None => None
      | Some m =>
        let sh := shof (m_dest m) in
        if (sh <? wc_nshards c)%N then Some (sh, m_fn m, deliver_input c m sh gas) else None
      end
    | ORefund id gas =>
      match find_msg (inflight w) id with
      | None => None
      | Some m =>
        let sh := shof (m_sender m) in
        if nat_in id (failed w) then
          if (sh <? wc_nshards c)%N then Some (sh, m_fn m, refund_input c m sh gas) else None
        else None
      end
    end.
  Definition exec_on (w : world) (t : N * bytes * input) : res err output * mstate :=
    let '(sh, fn, i) := t in exec (env_at c sh) fn i (mk_state (shard_accts w sh)).
  Definition wstep_result (w : world) (op : wop) : option (res err output * mstate) :=
    option_map (exec_on w) (wstep_target w op).
  Definition wstep_status (w : world) (op : wop) : option status :=
    option_map (fun r => status_of (fst r)) (wstep_result w op).

  (* what the step does with a successful execution, and with a failed one *)
  Definition commit (w : world) (op : wop) (sh : N) (fn : bytes) (i : input) (o : output) (s' : mstate) : world :=
    let w1 := set_shard w sh (accts s') in
    let ms := collect c sh fn i (next_id w) o in
    match op with
    | OCall _ _ _ => with_msgs w1 (inflight w ++ ms) (failed w) (next_id w + length ms)
    | ODeliver id _ => with_msgs w1 (drop_msg (inflight w) id ++ ms) (failed w) (next_id w + length ms)
    | ORedeliver _ _ => with_msgs w1 (inflight w ++ ms) (failed w) (next_id w + length ms)
    | ORefund id _ => with_msgs w1 (drop_msg (inflight w) id) (nat_remove id (failed w)) (next_id w)
    end.
  Definition reject (w : world) (op : wop) : world :=
    match op with
    | ODeliver id _ | ORedeliver id _ =>
      with_msgs w (inflight w) (if nat_in id (failed w) then failed w else id :: failed w) (next_id w)
    | _ => w
    end.

  Lemma run_on_exec w sh fn i :
    run_on c w sh fn i =
    match exec (env_at c sh) fn i (mk_state (shard_accts w sh)) with
    | (Ok o, s') => (Ok o, accts s')
    | (Err e, _) => (Err e, shard_accts w sh)
    | (Panic, _) => (Panic, shard_accts w sh)
    end.
  Proof. reflexivity. Qed.

  (* [wstep] in terms of the instrumented execution *)
  Theorem wstep_spec w op :
    wstep c w op =
    match wstep_target w op with
    | None => w
    | Some (sh, fn, i) =>
      match exec (env_at c sh) fn i (mk_state (shard_accts w sh)) with
      | (Ok o, s') => commit w op sh fn i o s'
      | _ => reject w op
      end
    end.
  Proof.
    destruct op as [sh fn i|id gas|id gas|id gas]; cbn [wstep wstep_target].
    - destruct (sh <? wc_nshards c)%N; cbn [negb]; [|reflexivity].
      rewrite run_on_exec. destruct (exec _ fn i _) as [[o|e|] s']; reflexivity.
    - destruct (find_msg (inflight w) id) as [m|]; [|reflexivity]. cbv zeta.
      destruct (shof (m_dest m) <? wc_nshards c)%N; cbn [negb]; [|reflexivity].
      rewrite run_on_exec. destruct (exec _ (m_fn m) _ _) as [[o|e|] s']; reflexivity.
    - destruct (find_msg (inflight w) id) as [m|]; [|reflexivity]. cbv zeta.
      destruct (shof (m_dest m) <? wc_nshards c)%N; cbn [negb]; [|reflexivity].
      rewrite run_on_exec. destruct (exec _ (m_fn m) _ _) as [[o|e|] s']; reflexivity.
    - destruct (find_msg (inflight w) id) as [m|]; [|reflexivity]. cbv zeta.
      destruct (nat_in id (failed w)); cbn [negb]; [|reflexivity].
      destruct (shof (m_sender m) <? wc_nshards c)%N; cbn [negb]; [|reflexivity].
      rewrite run_on_exec. destruct (exec _ (m_fn m) _ _) as [[o|e|] s']; reflexivity.
  Qed.

  (* ... read off the status *)
  Lemma wstep_status_none w op : wstep_status w op = None <-> wstep_target w op = None.
  Proof. unfold wstep_status, wstep_result. destruct (wstep_target w op); cbn; split; congruence. Qed.
  Corollary wstep_none w op : wstep_status w op = None -> wstep c w op = w.
  Proof. intros H. apply wstep_status_none in H. rewrite wstep_spec, H. reflexivity. Qed.
  Corollary wstep_status_ok w op :
    wstep_status w op = Some SOk <->
    exists sh fn i o s', wstep_target w op = Some (sh, fn, i)
      /\ exec (env_at c sh) fn i (mk_state (shard_accts w sh)) = (Ok o, s')
      /\ wstep c w op = commit w op sh fn i o s'.
  Proof.
    rewrite wstep_spec. unfold wstep_status, wstep_result. destruct (wstep_target w op) as [[[sh fn] i]|]; cbn [option_map exec_on].
    - destruct (exec (env_at c sh) fn i _) as [[o|e|] s'] eqn:Ex; cbn [fst status_of]; split.
      + intros _. exists sh, fn, i, o, s'. rewrite Ex. auto.
      + reflexivity.
      + discriminate.
      + intros (? & ? & ? & ? & ? & [= <- <- <-] & H & _). rewrite Ex in H. discriminate.
      + discriminate.
      + intros (? & ? & ? & ? & ? & [= <- <- <-] & H & _). rewrite Ex in H. discriminate.
    - split; [discriminate|]. intros (? & ? & ? & ? & ? & H & _). discriminate.
  Qed.
  Corollary wstep_status_not_ok w op st :
    wstep_status w op = Some st -> st <> SOk -> wstep c w op = reject w op.
  Proof.
    rewrite wstep_spec. unfold wstep_status, wstep_result. destruct (wstep_target w op) as [[[sh fn] i]|]; cbn [option_map exec_on];
      [|discriminate].
    destruct (exec (env_at c sh) fn i _) as [[o|e|] s']; cbn [fst status_of]; intros [= <-] Hn; congruence.
  Qed.
  (* a rejected step leaves every shard and every in-flight message as it was *)
  Lemma reject_frame w op : shards (reject w op) = shards w /\ inflight (reject w op) = inflight w
                            /\ next_id (reject w op) = next_id w.
  Proof. destruct op; cbn; auto. Qed.

  (* ---------------- the invariant ---------------- *)
  Definition PInv (w : world) : Prop :=
    (forall sh, StoreOK (env_at c sh) (mk_state (shard_accts w sh)))
    /\ (forall m, In m (inflight w) -> msg_pok c m).

  (* ---------------- which executions are covered ---------------- *)
  (* the general side condition of an execution of fn on shard sh with input i *)
  Definition call_ok (sh : N) (fn : bytes) (i : input) : Prop :=
    (is_transfer_fn fn = true -> i_dst i = (shof (i_rcpt i) =? sh)%N)
    /\ (origin_input i \/ delivered_input (env_at c sh) fn i)
    /\ (fn = FMulti -> (alen (i_args i) < 2 ^ 40)%N).

  (* a system-contract call (freeze, wipe, pause, roles, role hand-over, issue): executed on the shard of the
     recipient with the recipient's account present and no caller account; the system contract does not issue the
     destination side of the two NFT transfers.  (ESDTPause to the system account runs on every shard: the shard
     condition is asked of the transfer function only, whose attached call it localises.) *)
  Definition sys_call (sh : N) (fn : bytes) (i : input) : Prop :=
    i_caller i = SC /\ i_snd i = false /\ i_dst i = true /\ i_rcpt i <> SC
    /\ fn <> FNft /\ fn <> FMulti /\ (is_transfer_fn fn = true -> shof (i_rcpt i) = sh).
  (* transaction-reachable operations: a user transaction executes on the shard of its caller with the presence
     pattern the shard table implies (WorldDefs.origin_call); system-contract calls; deliveries, re-deliveries and
     refunds of any id with any gas *)
  Definition tx_op (op : wop) : Prop :=
    match op with
    | OCall sh fn i => (origin_call c sh i \/ sys_call sh fn i) /\ (alen (i_args i) < 2 ^ 40)%N
    | _ => True
    end.

  Lemma origin_call_ok sh fn i : origin_call c sh i -> (alen (i_args i) < 2 ^ 40)%N -> call_ok sh fn i.
  Proof.
    intros [Hcl [Hs Hd]] Hl. split; [intros _; exact Hd|]. split; [|intros _; exact Hl].
    left. unfold origin_input. rewrite Hs, Hcl. apply N.eqb_refl.
  Qed.
  Lemma sys_call_ok sh fn i : sys_call sh fn i -> (alen (i_args i) < 2 ^ 40)%N -> call_ok sh fn i.
  Proof.
    intros (Hcl & Hs & Hd & Hne & H1 & H2 & Ht) Hl. split; [|split; [|intros _; exact Hl]].
    - intros Hf. rewrite Hd, (Ht Hf), N.eqb_refl. reflexivity.
    - right. split; [exact Hs|]. split; [exact Hd|]. split; [rewrite Hcl; congruence|].
      split; intros; contradiction.
  Qed.

  (* the input of a delivery / refund of a [msg_pok] message *)
  Lemma deliver_call_ok m gas : msg_pok c m ->
    call_ok (shof (m_dest m)) (m_fn m) (deliver_input c m (shof (m_dest m)) gas).
  Proof.
    intros Hm. set (sh := shof (m_dest m)). apply (msg_pok_at c sh) in Hm. destruct Hm as [Hp Hl].
    split; [|split; [|exact Hl]].
    - intros _. cbn [deliver_input i_dst i_rcpt]. unfold sh. rewrite N.eqb_refl. reflexivity.
    - destruct (shof (m_caller m) =? sh)%N eqn:Es; [left; exact Es|right].
      apply deliver_input_delivered; [exact Es| |exact Hp].
      intros Heq. rewrite Heq in Es. unfold sh in Es. rewrite N.eqb_refl in Es. discriminate.
  Qed.
  Lemma refund_call_ok m gas : msg_pok c m ->
    call_ok (shof (m_sender m)) (m_fn m) (refund_input c m (shof (m_sender m)) gas).
  Proof.
    intros Hm. set (sh := shof (m_sender m)). apply (msg_pok_at c sh) in Hm. destruct Hm as [Hp Hl].
    split; [|split; [|exact Hl]].
    - intros _. cbn [refund_input i_dst i_rcpt]. unfold sh. rewrite N.eqb_refl. reflexivity.
    - destruct (shof (m_dest m) =? sh)%N eqn:Es; [left; exact Es|right].
      apply refund_input_delivered; [exact Es| |exact Hp].
      intros Heq. rewrite Heq in Es. unfold sh in Es. rewrite N.eqb_refl in Es. discriminate.
  Qed.

  (* every execution a step of a PInv world performs is covered *)
  Lemma target_call_ok w op sh fn i :
    PInv w -> tx_op op -> wstep_target w op = Some (sh, fn, i) -> call_ok sh fn i.
  Proof.
    intros [_ Hms] Hop Ht. destruct op as [sh0 fn0 i0|id gas|id gas|id gas]; cbn [wstep_target] in Ht.
    - destruct (sh0 <? wc_nshards c)%N; [|discriminate]. injection Ht as <- <- <-.
      destruct Hop as [[Ho|Hs] Hl]; [apply origin_call_ok|apply sys_call_ok]; assumption.
    - destruct (find_msg (inflight w) id) as [m|] eqn:Hf; [|discriminate]. cbv zeta in Ht.
      destruct (shof (m_dest m) <? wc_nshards c)%N; [|discriminate]. injection Ht as <- <- <-.
      apply deliver_call_ok. apply Hms. eapply find_msg_In; exact Hf.
    - destruct (find_msg (inflight w) id) as [m|] eqn:Hf; [|discriminate]. cbv zeta in Ht.
      destruct (shof (m_dest m) <? wc_nshards c)%N; [|discriminate]. injection Ht as <- <- <-.
      apply deliver_call_ok. apply Hms. eapply find_msg_In; exact Hf.
    - destruct (find_msg (inflight w) id) as [m|] eqn:Hf; [|discriminate]. cbv zeta in Ht.
      destruct (nat_in id (failed w)); [|discriminate].
      destruct (shof (m_sender m) <? wc_nshards c)%N; [|discriminate]. injection Ht as <- <- <-.
      apply refund_call_ok. apply Hms. eapply find_msg_In; exact Hf.
  Qed.

  Section Proofs.
  Hypothesis Hc : codec_ok (wc_cdc c).
  Hypothesis Hf : flag_ok (wc_cdc c).

  (* ---------------- one covered execution from a StoreOK state ---------------- *)
  Definition total_result (r : res err output * mstate) : Prop :=
    match r with (Ok o, _) => o_rc o = C.Ok | (Err _, _) => True | (Panic, _) => False end.

  Lemma exec_covered sh fn i s :
    StoreOK (env_at c sh) s -> call_ok sh fn i ->
    total_result (exec (env_at c sh) fn i s)
    /\ forall o s', exec (env_at c sh) fn i s = (Ok o, s') ->
         StoreOK (env_at c sh) s' /\ forall id m, In m (collect c sh fn i id o) -> msg_pok c m.
  Proof.
    intros Hs (Hd & Hin & Hl).
    assert (Hsafe : safe (env_at c sh) true (exec (env_at c sh) fn i) (fun o => o_rc o = C.Ok)).
    { apply safe_exec_m; [exact Hc|exact Hf|intros _; exact Hl|intros _; exact Hin]. }
    split.
    - specialize (Hsafe s Hs). unfold total_result. destruct (exec (env_at c sh) fn i s) as [[o|e|] s']; [apply Hsafe|exact I|discriminate].
    - intros o s' Hx. split.
      + apply (safe_ok _ _ _ _ _ _ _ Hsafe Hs Hx).
      + intros id m Hm. eapply (exec_collect_pok c Hc sh fn i s o s' id Hd Hl Hx). exact Hm.
  Qed.

  (* ---------------- committing ---------------- *)
  Lemma StoreOK_mk_state E s : StoreOK E s -> StoreOK E (mk_state (accts s)).
  Proof. apply StoreOK_accts. reflexivity. Qed.
  Lemma shards_commit w sh s' :
    (forall sh', StoreOK (env_at c sh') (mk_state (shard_accts w sh'))) -> StoreOK (env_at c sh) s' ->
    forall sh', StoreOK (env_at c sh') (mk_state (shard_accts (set_shard w sh (accts s')) sh')).
  Proof.
    intros Hw Hs sh'. destruct (N.eq_dec sh' sh) as [->|Hne].
    - destruct (Nat.lt_ge_cases (N.to_nat sh) (nshards w)) as [Hlt|Hge].
      + rewrite shard_accts_set_shard_eq by exact Hlt. apply StoreOK_mk_state. exact Hs.
      + unfold shard_accts, set_shard. cbn [shards]. rewrite set_nth_out by exact Hge. apply Hw.
    - rewrite shard_accts_set_shard_ne by exact Hne. apply Hw.
  Qed.

  Theorem PInv_step w op : PInv w -> tx_op op -> PInv (wstep c w op).
  Proof.
    intros HW Hop. pose proof HW as [Hsh Hms]. rewrite wstep_spec.
    destruct (wstep_target w op) as [[[sh fn] i]|] eqn:Ht; [|exact HW].
    pose proof (target_call_ok w op sh fn i HW Hop Ht) as Hcall.
    destruct (exec_covered sh fn i _ (Hsh sh) Hcall) as [_ Hok].
    destruct (exec (env_at c sh) fn i (mk_state (shard_accts w sh))) as [[o|e|] s'] eqn:Hx.
    - destruct (Hok o s' eq_refl) as [Hs' Hcol]. split.
      + intros sh0; destruct op; cbn [commit]; rewrite shard_accts_with_msgs; apply shards_commit; assumption.
      + intros m Hm. destruct op as [?|id ?|id ?|id ?]; cbn [commit inflight with_msgs] in Hm.
        * apply in_app_or in Hm as [Hm|Hm]; [apply Hms; exact Hm|eapply Hcol; exact Hm].
        * apply in_app_or in Hm as [Hm|Hm]; [apply Hms; eapply in_drop_msg; exact Hm|eapply Hcol; exact Hm].
        * apply in_app_or in Hm as [Hm|Hm]; [apply Hms; exact Hm|eapply Hcol; exact Hm].
        * apply Hms. eapply in_drop_msg; exact Hm.
    - split; destruct op; cbn [reject]; assumption.
    - split; destruct op; cbn [reject]; assumption.
  Qed.

  Theorem PInv_histories : forall ops w0, PInv w0 -> Forall tx_op ops -> PInv (wrun c w0 ops).
  Proof. intros ops w0 H0 Hops. apply (wrun_invariant c PInv tx_op); [apply PInv_step|exact H0|exact Hops]. Qed.
  Lemma Forall_firstn {A} (Q : A -> Prop) n l : Forall Q l -> Forall Q (firstn n l).
  Proof. revert l. induction n as [|n IH]; intros [|x l] H; cbn; auto. inversion H; subst. constructor; auto. Qed.
  Corollary PInv_every_prefix ops w0 n : PInv w0 -> Forall tx_op ops -> PInv (wrun c w0 (firstn n ops)).
  Proof. intros H0 Hops. apply PInv_histories; [exact H0|apply Forall_firstn; exact Hops]. Qed.

  (* ---------------- no step panics ---------------- *)
  Definition step_total (r : option (res err output * mstate)) : Prop :=
    match r with None => True | Some x => total_result x end.
  Theorem wstep_total w op : PInv w -> tx_op op -> step_total (wstep_result w op).
  Proof.
    intros HW Hop. unfold wstep_result. destruct (wstep_target w op) as [[[sh fn] i]|] eqn:Ht; [|exact I].
    cbn [option_map step_total exec_on]. destruct HW as [Hsh Hms].
    apply exec_covered; [apply Hsh|]. eapply target_call_ok; [split; eassumption|exact Hop|exact Ht].
  Qed.
  Corollary wstep_no_panic w op : PInv w -> tx_op op -> wstep_status w op <> Some SPanic.
  Proof.
    intros HW Hop. pose proof (wstep_total w op HW Hop) as H. unfold wstep_status.
    destruct (wstep_result w op) as [[[o|e|] s']|]; cbn in *; try discriminate. contradiction.
  Qed.

  (* the executions performed along a history *)
  Fixpoint results (w : world) (ops : list wop) : list (option (res err output * mstate)) :=
    match ops with [] => [] | op :: r => wstep_result w op :: results (wstep c w op) r end.
  Fixpoint statuses (w : world) (ops : list wop) : list (option status) :=
    match ops with [] => [] | op :: r => wstep_status w op :: statuses (wstep c w op) r end.
  Lemma statuses_results w ops :
    statuses w ops = map (option_map (fun r => status_of (fst r))) (results w ops).
  Proof. revert w. induction ops as [|op r IH]; intros w; [reflexivity|]. cbn [statuses results map]. rewrite IH. reflexivity. Qed.

  Theorem world_total : forall ops w0, PInv w0 -> Forall tx_op ops -> Forall step_total (results w0 ops).
  Proof.
    induction ops as [|op r IH]; intros w0 H0 Hops; [constructor|]. inversion Hops; subst. cbn [results].
    constructor; [apply wstep_total; assumption|]. apply IH; [apply PInv_step; assumption|assumption].
  Qed.
  Theorem world_no_panic : forall ops w0, PInv w0 -> Forall tx_op ops ->
    Forall (fun st => st <> Some SPanic) (statuses w0 ops).
  Proof.
    induction ops as [|op r IH]; intros w0 H0 Hops; [constructor|]. inversion Hops; subst. cbn [statuses].
    constructor; [apply wstep_no_panic; assumption|]. apply IH; [apply PInv_step; assumption|assumption].
  Qed.
  (* the same, pointwise: the n-th operation executed in the world reached by the first n *)
  Corollary world_no_panic_at ops w0 n op : PInv w0 -> Forall tx_op ops -> nth_error ops n = Some op ->
    wstep_status (wrun c w0 (firstn n ops)) op <> Some SPanic
    /\ step_total (wstep_result (wrun c w0 (firstn n ops)) op).
  Proof.
    intros H0 Hops Hn. assert (Hop : tx_op op) by (eapply Forall_forall; [exact Hops|eapply nth_error_In; exact Hn]).
    pose proof (PInv_every_prefix ops w0 n H0 Hops) as Hp.
    split; [apply wstep_no_panic|apply wstep_total]; assumption.
  Qed.
  End Proofs.

  (* ---------------- the initial world ---------------- *)
  Definition empty_world (n : nat) : world := {| shards := repeat [] n; inflight := []; failed := []; next_id := 0 |}.
  Lemma shard_accts_empty_world n sh : shard_accts (empty_world n) sh = [].
  Proof.
    unfold shard_accts, empty_world. cbn [shards]. generalize (N.to_nat sh). clear sh.
    induction n as [|n IH]; intros [|k]; cbn; auto.
  Qed.
  Lemma StoreOK_nil E : StoreOK E (mk_state []).
  Proof.
    intros a x t Ht. unfold tok_at, cell, acct, mk_state in Ht. cbn [accts aget empty_account a_store] in Ht.
    rewrite sget_nil in Ht. discriminate.
  Qed.
  Theorem PInv_empty n : PInv (empty_world n).
  Proof. split; [intros sh; rewrite shard_accts_empty_world; apply StoreOK_nil|intros m []]. Qed.
End World.

Print Assumptions wstep_spec.
Print Assumptions PInv_step.
Print Assumptions world_no_panic.
Print Assumptions world_total.
