(* Honest identifiers, part 2: the state invariant [ids_valid E s] and the Hoare-style judgement [kv E m Q]
   ("from an ids_valid state, a successful run of m re-establishes ids_valid and its result satisfies Q"),
   built like [keeps] of LedgerProofs/C15_Inv.v (per-cell predicate, one [vgoodw] obligation per write).

   [ids_valid E s]: every non-empty cell under a key  P ++ x  that decodes as a token entry t satisfies
        x = tok ++ u64_bytes (tok_nonce t)    for some  tok  with  valid_id tok
   ([tok_nonce t] = metadata nonce, 0 for an entry without metadata: fungible entries sit under the bare key of a
   valid identifier).  It is the strengthening of clause (I4) of C15's [Inv] ("... for SOME tok") that F4b needs:
   together with [valid_id_prefix_free] it gives [lookup_consistent] for every valid identifier
   ([ids_valid_lookup_consistent]).  Entries WITHOUT metadata must be covered too: [lookup_consistent] speaks
   about every entry found under the looked-up key, and a fungible entry of a (non-valid) identifier tok ++ nonce
   bytes would be found there.

   [outv E i o]: the output transfers that the world model turns into cross-shard messages name valid
   identifiers only ([args_ids]). *)
From Coq Require Import Lia.
From EV Require Import Base.Bytes Base.Store Base.Monad gen.Consts Codec.Types Helpers.Helpers
  Ledger.Types Ledger.Env Ledger.Funcs Ledger.Transfers LedgerProofs.Defs LedgerProofs.EnvSpec
  LedgerProofs.Spec_Transfers_Base LedgerProofs.Spec_Transfers_Multi
  LedgerProofs.C01_Consistent LedgerProofs.C05_Footprint LedgerProofs.C15_Inv LedgerProofs.ValidIds_Id.

(* ---------------- the invariant ---------------- *)
Definition idk (x : bytes) (t : token) : Prop :=
  exists tok, valid_id tok /\ x = tok ++ u64_bytes (tok_nonce t).
Definition idcell (E : env) (k v : bytes) : Prop :=
  forall x t, k = P ++ x -> dec_tok (cdc E) v = Some t -> idk x t.
Definition ids_valid (E : env) (s : mstate) : Prop :=
  forall a k, cell s a k <> [] -> idcell E k (cell s a k).

(* the same, through the observable [tok_at] *)
Lemma ids_valid_tok_at E s :
  ids_valid E s <-> forall a x t, tok_at E s a (P ++ x) = Some t -> idk x t.
Proof.
  split.
  - intros H a x t Ht. apply (tok_at_cell E) in Ht as [Hne Hd]. exact (H a _ Hne x t eq_refl Hd).
  - intros H a k Hne x t -> Hd. apply (H a x t). unfold tok_at.
    destruct (cell s a (P ++ x)); [congruence|exact Hd].
Qed.

(* F4b discharged: every lookup under a valid identifier is consistent *)
Theorem ids_valid_lookup_consistent E s a tok n :
  ids_valid E s -> valid_id tok -> lookup_consistent E s a (P ++ tok) n.
Proof.
  intros Hs Hv t Ht. rewrite nft_key_app in Ht.
  destruct (proj1 (ids_valid_tok_at E s) Hs _ _ _ Ht) as (tok' & Hv' & Heq).
  destruct (valid_id_unique _ _ _ _ Hv Hv' Heq) as [_ Hn]. apply u64_bytes_inj in Hn. symmetry. exact Hn.
Qed.
Theorem ids_valid_triples_consistent E s a trs :
  ids_valid E s -> Forall (fun x => valid_id (rt_tok x)) trs -> triples_consistent E s a trs.
Proof.
  intros Hs H. unfold triples_consistent. eapply Forall_impl; [|exact H].
  intros x Hx. apply ids_valid_lookup_consistent; assumption.
Qed.

(* ---------------- the identifiers a call / a message names ---------------- *)
Definition call_ids (f : bytes) (i : input) : Prop := Forall valid_id (named_tokens f i).
(* a message (function name, arguments), executed on the destination side (caller <> recipient) *)
Definition args_ids (F : bytes) (A : list bytes) : Prop :=
  forall i, i_args i = A -> i_caller i <> i_rcpt i -> call_ids F i.

Definition trv (E : env) (i : input) (dest : bytes) (t : transfer) : Prop :=
  tr_data t = []
  \/ (i_dst i = true /\ dest = i_rcpt i)
  \/ shard_of E dest = self_shard E
  \/ (exists F A, tr_data t = msg_data F A /\ In F emit_names /\ args_ids F A).
Definition outv (E : env) (i : input) (o : output) : Prop :=
  forall oa t, In oa (o_accounts o) -> In t (oc_transfers oa) -> trv E i (oc_addr oa) t.

(* the judgement *)
Definition kv (E : env) {A} (m : @M err mstate A) (Q : A -> Prop) : Prop :=
  forall s, ids_valid E s ->
    match m s with
    | (Ok a, s') => ids_valid E s' /\ Q a
    | _ => True
    end.

(* ---------------- pure facts ---------------- *)
Lemma idk_zero x t : valid_id x -> tok_nonce t = 0%N -> idk x t.
Proof. intros Hv Hn. exists x. split; [exact Hv|]. rewrite Hn, u64_bytes_0, app_nil_r. reflexivity. Qed.
Lemma idk_nonce_zero x t : valid_id x -> idk x t -> tok_nonce t = 0%N.
Proof.
  intros Hv (tok & Hv' & Heq). destruct (valid_id_unique x tok [] (u64_bytes (tok_nonce t)) Hv Hv') as [_ Hn].
  - rewrite app_nil_r. exact Heq.
  - apply u64_bytes_nil. symmetry. exact Hn.
Qed.
Lemma tok_nonce_default : tok_nonce default_tok = 0%N. Proof. reflexivity. Qed.

(* ---------------- named tokens of the emitted messages ---------------- *)
Lemma argn_nth_error (i : input) n tok : nth_error (i_args i) n = Some tok -> argn i n = tok.
Proof. intros H. unfold argn. apply nth_error_nth. exact H. Qed.
Lemma call_ids_tok0 b i tok : named_tokens_b b i = [argn i 0] ->
  nth_error (i_args i) 0 = Some tok -> valid_id tok -> call_ids (bfn_name b) i.
Proof.
  intros Hn Ha Hv. unfold call_ids, named_tokens. rewrite classify_name, Hn, (argn_nth_error _ _ _ Ha).
  constructor; [exact Hv|constructor].
Qed.
Lemma args_ids_tok0 b A tok : (forall i, named_tokens_b b i = [argn i 0]) ->
  nth_error A 0 = Some tok -> valid_id tok -> args_ids (bfn_name b) A.
Proof. intros Hn Ha Hv i Hi _. apply (call_ids_tok0 b i tok (Hn i)); [rewrite Hi; exact Ha|exact Hv]. Qed.
Lemma args_ids_burn A tok : nth_error A 0 = Some tok -> valid_id tok -> args_ids C.BuiltInFunctionESDTBurn A.
Proof. apply (args_ids_tok0 BEsdtBurn). reflexivity. Qed.
Lemma args_ids_esdt_transfer A tok : nth_error A 0 = Some tok -> valid_id tok -> args_ids C.BuiltInFunctionESDTTransfer A.
Proof. apply (args_ids_tok0 BEsdtTransfer). reflexivity. Qed.
Lemma args_ids_nft_transfer A tok : nth_error A 0 = Some tok -> valid_id tok -> args_ids C.BuiltInFunctionESDTNFTTransfer A.
Proof. apply (args_ids_tok0 BNftTransfer). reflexivity. Qed.
Lemma args_ids_role_transfer A tok : nth_error A 0 = Some tok -> valid_id tok -> args_ids C.BuiltInFunctionESDTNFTCreateRoleTransfer A.
Proof. apply (args_ids_tok0 BRoleTransfer). reflexivity. Qed.
Lemma args_ids_none b A : (forall i, named_tokens_b b i = []) -> args_ids (bfn_name b) A.
Proof. intros Hn i _ _. unfold call_ids, named_tokens. rewrite classify_name, Hn. constructor. Qed.
Lemma args_ids_user_name A : args_ids C.BuiltInFunctionSetUserName A.
Proof. apply (args_ids_none BSetUserName). reflexivity. Qed.
Lemma args_ids_change_owner A : args_ids C.BuiltInFunctionChangeOwnerAddress A.
Proof. apply (args_ids_none BChangeOwner). reflexivity. Qed.
Lemma args_ids_claim A : args_ids C.BuiltInFunctionClaimDeveloperRewards A.
Proof. apply (args_ids_none BClaim). reflexivity. Qed.

(* ---------------- outputs ---------------- *)
Section Out.
  Variable E : env.
  Variable i : input.
  Notation outv := (outv E i).
  Lemma outv_nil o : o_accounts o = [] -> outv o.
  Proof. intros H oa t Hoa. rewrite H in Hoa. destruct Hoa. Qed.
  Lemma outv_mk rc g : outv (mk_out rc g). Proof. apply outv_nil. reflexivity. Qed.
  Lemma outv_set_gasrem o g : outv o -> outv (set_gasrem o g). Proof. exact (fun H => H). Qed.
  Lemma outv_set_logs o l : outv o -> outv (set_logs o l). Proof. exact (fun H => H). Qed.
  Lemma outv_set_returnData o l : outv o -> outv (set_returnData o l). Proof. exact (fun H => H). Qed.
  Lemma outv_add_log o l : outv o -> outv (add_log o l). Proof. exact (fun H => H). Qed.
  Lemma outv_set_accounts_nil o : outv (set_accounts o []). Proof. apply outv_nil. reflexivity. Qed.
  Lemma outv_if (b : bool) o1 o2 : outv o1 -> outv o2 -> outv (if b then o1 else o2).
  Proof. destruct b; auto. Qed.
  Lemma outv_one o dest d t : trv E i dest t ->
    outv (set_accounts o [{| oc_addr := dest; oc_delta := d; oc_transfers := [t] |}]).
  Proof.
    intros H oa t' [<-|[]] Ht. cbn [oc_transfers oc_addr] in *. destruct Ht as [<-|[]]. exact H.
  Qed.
  Lemma outv_aot_local sender fn args gl ct o :
    i_dst i = true -> outv (add_output_transfer sender fn args (i_rcpt i) gl ct o).
  Proof. intros H. unfold add_output_transfer. apply outv_set_gasrem, outv_one. right. left. auto. Qed.
  Lemma outv_aot_same sender fn args dst gl ct o :
    shard_of E dst = self_shard E -> outv (add_output_transfer sender fn args dst gl ct o).
  Proof. intros H. unfold add_output_transfer. apply outv_set_gasrem, outv_one. right. right. left. exact H. Qed.
  Lemma outv_aot_msg sender F A dst gl ct o :
    In F emit_names -> args_ids F A -> outv (add_output_transfer sender F A dst gl ct o).
  Proof.
    intros H1 H2. unfold add_output_transfer. apply outv_set_gasrem, outv_one. right. right. right.
    exists F, A. cbn [tr_data]. auto.
  Qed.
  Lemma outv_ant_msg sender dst F A gl g ct o :
    In F emit_names -> args_ids F A -> outv (add_nft_transfer sender dst F A gl g ct o).
  Proof.
    intros H1 H2. unfold add_nft_transfer. apply outv_one. right. right. right.
    exists F, A. cbn [tr_data]. auto.
  Qed.
End Out.

Section KV.
  Variable E : env.
  Hypothesis Hc : codec_ok (cdc E).
  Hypothesis Hflag : flag_undec (cdc E).
  Notation MT := (@M err mstate).
  Notation IV := (ids_valid E).
  Notation kv := (@kv E _).

  (* ---------------- ids_valid under reads and writes ---------------- *)
  Definition vgoodw (k v : bytes) : Prop := v <> [] -> idcell E k v.

  Lemma IV_accts s s' : accts s' = accts s -> IV s -> IV s'.
  Proof. intros H Hs a k. rewrite (cell_accts _ _ _ _ H). apply Hs. Qed.
  Lemma IV_rd s s' : rd E s s' -> IV s -> IV s'.
  Proof. intros H. apply IV_accts. apply (rd_accts E _ _ H). Qed.
  Lemma IV_wr a k v s s' : wr E a k v s s' -> vgoodw k v -> IV s -> IV s'.
  Proof.
    intros Hw Hg Hs a' k' Hne.
    destruct (beqb_spec a' a) as [->|Hna].
    - destruct (beqb_spec k' k) as [->|Hnk].
      + rewrite (wr_cell_eq E _ _ _ _ _ Hw) in *. apply Hg. exact Hne.
      + rewrite (wr_cell_other E _ _ _ _ _ _ _ Hw) in * by (right; exact Hnk). apply Hs. exact Hne.
    - rewrite (wr_cell_other E _ _ _ _ _ _ _ Hw) in * by (left; exact Hna). apply Hs. exact Hne.
  Qed.

  Lemma IV_tok_at s a x t : IV s -> tok_at E s a (P ++ x) = Some t -> idk x t.
  Proof. intros Hs. apply (proj1 (ids_valid_tok_at E s) Hs). Qed.
  (* the entry (or the default) under the bare key of a valid identifier has nonce 0 *)
  Lemma IV_tod s a x t : IV s -> valid_id x -> tok_or_default E s a (P ++ x) = Some t -> tok_nonce t = 0%N.
  Proof.
    intros Hs Hv Ht. apply (tod_cases E) in Ht as [(_ & -> & _)|(_ & Ht)]; [reflexivity|].
    eapply idk_nonce_zero; [exact Hv|eapply IV_tok_at; eauto].
  Qed.

  (* ---------------- good writes ---------------- *)
  Lemma vgoodw_nil k : vgoodw k [].
  Proof. intros H. congruence. Qed.
  Lemma vgoodw_entry x t : wf_token t -> idk x t -> vgoodw (P ++ x) (enc_tok (cdc E) t).
  Proof.
    intros Hw Hk _ x' t' Hx Hd. apply app_inv_head in Hx. subst x'.
    rewrite (dec_enc_tok _ Hc t Hw) in Hd. injection Hd as <-. exact Hk.
  Qed.
  Lemma vgoodw_flag x f : vgoodw (P ++ x) (flag_bytes f).
  Proof. intros _ x' t' _ Hd. rewrite Hflag in Hd. discriminate. Qed.
  Lemma vgoodw_notP k v : (forall x, k <> P ++ x) -> vgoodw k v.
  Proof. intros H _ x t Hx. exfalso. exact (H x Hx). Qed.
  Lemma vgoodw_roles x v : vgoodw (RP ++ x) v.
  Proof. apply vgoodw_notP. intros y H. symmetry in H. exact (P_RP_disjoint _ _ H). Qed.
  Lemma vgoodw_counter x v : vgoodw (NP ++ x) v.
  Proof. apply vgoodw_notP. intros y H. symmetry in H. exact (P_NP_disjoint _ _ H). Qed.
  Lemma vgoodw_allowed k v : key_allowed k = true -> vgoodw k v.
  Proof. intros H. apply vgoodw_notP. intros x ->. rewrite key_allowed_P in H. discriminate. Qed.
  Lemma vgoodw_nft x t (v : Z) : wf_token t -> valid_id x ->
    vgoodw (nft_key (P ++ x) (tok_nonce t)) (if (v <=? 0)%Z then [] else enc_tok (cdc E) t).
  Proof.
    intros Hw Hv. destruct (v <=? 0)%Z; [apply vgoodw_nil|]. rewrite nft_key_app.
    apply vgoodw_entry; [exact Hw|]. exists x. auto.
  Qed.
  Lemma vgoodw_esdt x t (b : bool) : wf_token t -> valid_id x -> tok_nonce t = 0%N ->
    vgoodw (P ++ x) (if b then [] else enc_tok (cdc E) t).
  Proof.
    intros Hw Hv Hn. destruct b; [apply vgoodw_nil|]. apply vgoodw_entry; [exact Hw|apply idk_zero; assumption].
  Qed.

  (* ---------------- rules for the combinators ---------------- *)
  Lemma kv_of {A} (m : MT A) (Q : A -> Prop) :
    (forall s a s', IV s -> m s = (Ok a, s') -> IV s' /\ Q a) -> kv m Q.
  Proof. intros Hp s Hs. destruct (m s) as [[a|e|] s'] eqn:Em; auto. eapply Hp; eauto. Qed.
  Lemma kv_panic {A} (Q : A -> Prop) : kv panic Q.
  Proof. intros s Hs. exact I. Qed.
  Lemma kv_ret {A} (a : A) (Q : A -> Prop) : Q a -> kv (ret a) Q.
  Proof. intros H s Hs. simpl. auto. Qed.
  Lemma kv_ret_eq {A} (a : A) : kv (ret a) (fun x => x = a).
  Proof. apply kv_ret. reflexivity. Qed.
  Lemma kv_fail {A} e (Q : A -> Prop) : kv (fail e) Q.
  Proof. intros s Hs. exact I. Qed.
  Lemma kv_bind {A B} (m : MT A) (f : A -> MT B) (Q : A -> Prop) (R : B -> Prop) :
    kv m Q -> (forall a, Q a -> kv (f a) R) -> kv (bind m f) R.
  Proof.
    intros Hm Hf s Hs. specialize (Hm s Hs). unfold bind.
    destruct (m s) as [[a|e|] s1]; auto. destruct Hm as [Hs1 Hq]. apply (Hf a Hq s1 Hs1).
  Qed.
  Lemma kv_weaken {A} (m : MT A) (Q Q' : A -> Prop) : kv m Q -> (forall a, Q a -> Q' a) -> kv m Q'.
  Proof.
    intros Hm Hq s Hs. specialize (Hm s Hs). destruct (m s) as [[a|e|] s1]; auto. destruct Hm; auto.
  Qed.
  Lemma kv_true {A} (m : MT A) (Q : A -> Prop) : kv m Q -> kv m (fun _ => True).
  Proof. intros H. eapply kv_weaken; [exact H|auto]. Qed.
  Lemma kv_ok {A} (m : MT A) Q s a s' : kv m Q -> IV s -> m s = (Ok a, s') -> IV s' /\ Q a.
  Proof. intros H Hs Hm. specialize (H s Hs). rewrite Hm in H. exact H. Qed.
  Lemma kv_rdonly {A} (m : MT A) (Q : A -> Prop) :
    (forall s a s', m s = (Ok a, s') -> accts s' = accts s /\ Q a) -> kv m Q.
  Proof.
    intros Hr. apply kv_of. intros s a s' Hs Hm. destruct (Hr _ _ _ Hm) as [Ha Hq].
    split; [eapply IV_accts; eauto|exact Hq].
  Qed.

  (* ---------------- primitives ---------------- *)
  Lemma kv_guard b e : kv (guard b e) (fun _ => b = true).
  Proof. destruct b; [apply kv_ret; reflexivity|apply kv_fail]. Qed.
  Lemma kv_lift_opt {A} (o : option A) e : kv (lift_opt o e) (fun a => o = Some a).
  Proof. destruct o; [apply kv_ret; reflexivity|apply kv_fail]. Qed.
  Lemma kv_check_basic i : kv (check_basic i) (fun _ => (2 <= alen (i_args i))%N).
  Proof.
    apply kv_rdonly. intros s a s' H. apply check_basic_ok in H as (_ & H & ->). split; [reflexivity|exact H].
  Qed.
  Lemma kv_arg A k : kv (arg A k) (fun x => nth_error A (N.to_nat k) = Some x).
  Proof. apply kv_rdonly. intros s a s' H. apply arg_ok in H as (H & _ & ->). auto. Qed.
  Lemma kv_args_from A k : kv (args_from A k) (fun l => l = skipn (N.to_nat k) A).
  Proof. apply kv_rdonly. intros s a s' H. apply args_from_ok in H as (_ & -> & ->). auto. Qed.
  Lemma kv_val_of t : kv (val_of t) (fun v => t_value t = Some v).
  Proof. apply kv_rdonly. intros s a s' H. apply val_of_ok in H as (H & ->). auto. Qed.
  Lemma kv_meta_of t : kv (meta_of t) (fun m => t_meta t = Some m).
  Proof. apply kv_rdonly. intros s a s' H. apply meta_of_ok in H as (H & ->). auto. Qed.
  Lemma kv_alloc n : kv (alloc n) (fun _ => True).
  Proof. apply kv_rdonly. intros s a s' H. apply alloc_ok in H as (_ & H & _). auto. Qed.
  Lemma kv_dep : kv (dep E) (fun _ => True).
  Proof. apply kv_rdonly. intros s a s' H. apply dep_rd in H. split; [apply (rd_accts E _ _ H)|exact I]. Qed.
  Lemma kv_load_account a : kv (load_account E a) (fun _ => True). Proof. apply kv_dep. Qed.
  Lemma kv_save_account a : kv (save_account E a) (fun _ => True). Proof. apply kv_dep. Qed.
  Lemma kv_marshal_tok t : kv (marshal_tok E t) (fun b => b = enc_tok (cdc E) t).
  Proof.
    apply kv_rdonly. intros s a s' H. apply marshal_tok_ok in H as (-> & H).
    split; [apply (rd_accts E _ _ H)|reflexivity].
  Qed.
  Lemma kv_unmarshal_tok b : kv (unmarshal_tok E b) (fun t => dec_tok (cdc E) b = Some t /\ wf_token t).
  Proof.
    apply kv_rdonly. intros s a s' H. apply unmarshal_tok_ok in H as (Hd & H).
    split; [apply (rd_accts E _ _ H)|]. split; [exact Hd|]. eapply dec_tok_wf; eauto.
  Qed.
  Lemma kv_get_acct a : kv (get_acct a) (fun _ => True).
  Proof. apply kv_rdonly. intros s x s' H. apply get_acct_ok in H as (_ & ->). auto. Qed.
  Lemma kv_retrieve a k : kv (retrieve a k) (fun _ => True).
  Proof. apply kv_rdonly. intros s x s' H. apply retrieve_ok in H as (_ & ->). auto. Qed.
  Lemma kv_upd_acct a f : (forall x, a_store (f x) = a_store x) -> kv (upd_acct a f) (fun _ => True).
  Proof.
    intros Hf. apply kv_of. intros s u s' Hs H. split; [|exact I]. intros a' k.
    assert (Hcell : cell s' a' k = cell s a' k).
    { unfold cell. rewrite (upd_acct_acct _ _ _ _ _ a' H). destruct (beqb_spec a' a) as [->|Hne]; [rewrite Hf|]; reflexivity. }
    rewrite Hcell. apply Hs.
  Qed.
  Lemma kv_save_kv a k v : vgoodw k v -> kv (save_kv E a k v) (fun _ => True).
  Proof. intros Hg. apply kv_of. intros s u s' Hs H. apply save_kv_ok in H. split; [eapply IV_wr; eauto|exact I]. Qed.

  (* ---------------- helpers: read-only ---------------- *)
  Lemma kv_check_allowed snd a tok role : kv (check_allowed E snd a tok role) (fun _ => snd = true).
  Proof.
    apply kv_rdonly. intros s u s' H. apply check_allowed_ok in H as (Hs & _ & H).
    split; [apply (rd_accts E _ _ H)|exact Hs].
  Qed.
  Lemma kv_check_payable v a : kv (check_payable E v a) (fun _ => True).
  Proof. apply kv_rdonly. intros s u s' H. apply check_payable_ok in H as (H & _). split; [apply (rd_accts E _ _ H)|exact I]. Qed.
  Lemma kv_get_latest_nonce a tok : kv (get_latest_nonce a tok) (fun n => (n < two64)%N).
  Proof.
    apply kv_rdonly. intros s u s' H. apply get_latest_nonce_ok in H as (-> & ->).
    split; [reflexivity|apply counter_at_lt].
  Qed.
  Lemma kv_get_roles a k : kv (get_roles E a k) (fun _ => True).
  Proof.
    apply kv_rdonly. intros s [r b] s' H. apply get_roles_ok in H as (H & _).
    split; [apply (rd_accts E _ _ H)|exact I].
  Qed.
  Lemma kv_get_esdt_data a x : valid_id x ->
    kv (get_esdt_data E a (P ++ x)) (fun t => wf_token t /\ tok_nonce t = 0%N).
  Proof.
    intros Hv. apply kv_of. intros s t s' Hs H. apply (get_esdt_data_ok E Hc) in H as (Hr & Ht & Hw).
    split; [eapply IV_rd; eauto|]. split; [exact Hw|]. eapply IV_tod; eauto.
  Qed.
  Lemma kv_get_nft_on_sender a k n : kv (get_nft_on_sender E a k n) (fun t => wf_token t).
  Proof.
    apply kv_rdonly. intros s t s' H. apply (get_nft_on_sender_ok E Hc) in H as (Hr & Hw & _).
    split; [apply (rd_accts E _ _ Hr)|exact Hw].
  Qed.

  (* ---------------- helpers: writers ---------------- *)
  Lemma kv_save_roles a x r : kv (save_roles E a (RP ++ x) r) (fun _ => True).
  Proof.
    apply kv_of. intros s u s' Hs H. apply save_roles_ok in H.
    split; [eapply IV_wr; eauto; apply vgoodw_roles|exact I].
  Qed.
  Lemma kv_save_latest_nonce a tok n : kv (save_latest_nonce E a tok n) (fun _ => True).
  Proof.
    apply kv_of. intros s u s' Hs H. apply save_latest_nonce_ok in H as (H & _).
    split; [eapply IV_wr; eauto; apply vgoodw_counter|exact I].
  Qed.
  Lemma kv_save_esdt_data a t x :
    wf_token t -> valid_id x -> tok_nonce t = 0%N -> kv (save_esdt_data E a t (P ++ x)) (fun _ => True).
  Proof.
    intros Hw Hv Hn. apply kv_of. intros s u s' Hi H. apply save_esdt_data_ok in H as (v & _ & H).
    split; [|exact I]. eapply IV_wr; eauto. apply vgoodw_esdt; assumption.
  Qed.
  Lemma kv_add_to_esdt_balance a x d rae : valid_id x -> kv (add_to_esdt_balance E a (P ++ x) d rae) (fun _ => True).
  Proof.
    intros Hv. apply kv_of. intros s u s' Hs H.
    apply (add_to_esdt_balance_inv E Hc) in H as (t & v & Ht & Hw & _ & _ & _ & _ & H).
    split; [|exact I]. eapply IV_wr; eauto.
    apply (vgoodw_esdt x (set_value t (Some (v + d)%Z))); [apply wf_set_value; exact Hw|exact Hv|].
    rewrite tok_nonce_set_value. eapply IV_tod; eauto.
  Qed.
  Lemma kv_save_nft a x t rae : wf_token t -> valid_id x -> kv (save_nft E a (P ++ x) t rae) (fun _ => True).
  Proof.
    intros Hw Hv. apply kv_of. intros s u s' Hs H. apply save_nft_ok in H as (v & _ & -> & H & _).
    split; [|exact I]. eapply IV_wr; eauto. apply vgoodw_nft; assumption.
  Qed.
  Lemma kv_add_nft_to_destination dst x t verify rae : wf_token t -> valid_id x ->
    kv (add_nft_to_destination E dst (P ++ x) t verify rae) (fun t' => exists v, t' = set_value t (Some v)).
  Proof.
    intros Hw Hv. apply kv_of. intros s t' s' Hs H.
    apply (add_nft_to_destination_ok E Hc) in H as (cur & v & cv & _ & _ & _ & _ & -> & _ & _ & _ & H).
    split; [|eauto]. eapply IV_wr; eauto.
    apply (vgoodw_nft x (set_value t (Some (v + cv)%Z)) (v + cv)%Z); [apply wf_set_value; exact Hw|exact Hv].
  Qed.
End KV.

(* ---------------- the tactic ---------------- *)
(* validity of the identifier at hand: a hypothesis, or the call hypothesis applied to the argument read *)
Ltac vid :=
  lazymatch goal with
  | |- valid_id ?x =>
      first [ assumption
            | match goal with
              | Hv : forall tok, nth_error _ _ = Some tok -> valid_id tok, H : nth_error _ _ = Some x |- _ => exact (Hv x H)
              end ]
  end.
Ltac wf_solve :=
  first
    [ assumption
    | apply wf_set_value; wf_solve
    | apply wf_set_props; wf_solve
    | match goal with
      | |- wf_token (set_meta _ (Some (set_uris _ _))) => eapply C15_wf_set_meta_uris; [wf_solve|eassumption]
      | |- wf_token (set_meta _ (Some (set_attributes _ _))) => eapply C15_wf_set_meta_attributes; [wf_solve|eassumption]
      end ].
Ltac nonce_solve :=
  match goal with H : tok_nonce ?t = 0%N |- tok_nonce _ = 0%N => exact H end.

Create HintDb kvdb discriminated.

Ltac kapp3 L E Hc Hf := first [apply (L E Hc Hf) | apply (L E Hc) | apply (L E Hf) | apply (L E)].
Ltac kv_leaf E Hc Hf :=
  first
    [ apply (kv_guard E)
    | apply (kv_ret_eq E)
    | apply (kv_fail E)
    | apply (kv_panic E)
    | apply (kv_lift_opt E)
    | apply (kv_check_basic E)
    | apply (kv_arg E)
    | apply (kv_args_from E)
    | apply (kv_dep E)
    | apply (kv_load_account E)
    | apply (kv_save_account E)
    | apply (kv_marshal_tok E)
    | kapp3 kv_unmarshal_tok E Hc Hf
    | apply (kv_get_acct E)
    | apply (kv_retrieve E)
    | apply (kv_alloc E)
    | apply (kv_check_allowed E)
    | apply (kv_check_payable E)
    | apply (kv_get_latest_nonce E)
    | apply (kv_get_roles E)
    | kapp3 kv_get_esdt_data E Hc Hf; vid
    | kapp3 kv_get_nft_on_sender E Hc Hf
    | apply (kv_save_latest_nonce E)
    | apply (kv_save_roles E)
    | kapp3 kv_add_to_esdt_balance E Hc Hf; vid
    | apply (kv_val_of E)
    | apply (kv_meta_of E)
    | kapp3 kv_save_nft E Hc Hf; [wf_solve|vid]
    | kapp3 kv_save_esdt_data E Hc Hf; [wf_solve|vid|nonce_solve]
    | kapp3 kv_add_nft_to_destination E Hc Hf; [wf_solve|vid]
    | apply (kv_save_kv E); first [apply vgoodw_nil | assumption]
    | apply (kv_upd_acct E); reflexivity
    | solve [eauto with kvdb] ].

Ltac kv_intro :=
  let a := fresh "a" in let H := fresh "Hq" in
  intros a H; cbv beta in H;
  repeat match goal with H : _ /\ _ |- _ => destruct H end.

Ltac kv_step0 E Hc Hf :=
  cbv beta iota zeta;
  lazymatch goal with
  | |- kv _ (bind (if _ then _ else _) _) _ => fail
  | |- kv _ (bind _ _) _ =>
      eapply (kv_bind E); [kv_leaf E Hc Hf|kv_intro]
  | |- kv _ (ret _) _ => apply (kv_ret E); cbv beta; try exact I
  | |- kv _ (fail _) _ => apply (kv_fail E)
  | |- kv _ panic _ => apply (kv_panic E)
  | |- kv _ (if ?b then _ else _) _ => destruct b eqn:?
  | |- kv _ (match ?x with _ => _ end) _ => destruct x
  | |- kv _ _ (fun _ => True) => eapply (kv_true E); kv_leaf E Hc Hf
  | |- kv _ _ _ => eapply (kv_weaken E); [kv_leaf E Hc Hf|intros ? ?; cbv beta in *]
  end.
Ltac kv_ifT E :=
  cbv beta iota zeta;
  lazymatch goal with
  | |- kv _ (bind (if ?b then _ else _) _) _ =>
      eapply (kv_bind E) with (Q := fun _ => True); [destruct b eqn:?|intros ? _]
  end.
Ltac kv_step E Hc Hf := first [kv_step0 E Hc Hf | kv_ifT E].
Ltac kv_tac0 E Hc Hf := repeat (kv_step0 E Hc Hf).
Ltac kv_tac E Hc Hf := repeat (kv_step E Hc Hf).

Create HintDb outvdb discriminated.
Global Hint Resolve outv_mk outv_set_gasrem outv_set_logs outv_set_returnData outv_add_log
  outv_set_accounts_nil outv_if outv_aot_local : outvdb.
Ltac outv_tac := cbv zeta; eauto 10 with outvdb.

Print Assumptions ids_valid_lookup_consistent.
