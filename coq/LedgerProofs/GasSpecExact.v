(* C06 (no wrap-around) / C16 (charge formulas): the charges of LedgerProofs/GasSpec.v in EXACT arithmetic.

   [exact_charge E f i s] is [charge E f i s] with every u64/mul64 removed.  [charge_exact]: whenever the
   exact value is below 2^64 the Go (wrapping) computation yields exactly that value, so on such inputs no
   uint64 operation of a successful execution wrapped: [no_wrap].  [exact_charge_32bit]: this is the case
   for every schedule with costs < 2^32 when the argument bytes, the argument count and the marshalled
   NFT payload bytes are < 2^31. *)
From EV Require Import Base.Bytes Base.Store Base.Monad gen.Consts Codec.Types Helpers.Helpers
  Ledger.Types Ledger.Env Ledger.Funcs Ledger.Transfers LedgerProofs.GasSpec.

Local Open Scope N_scope.

(* total_len as a structural sum *)
Fixpoint sum_len (l : list bytes) : N := match l with [] => 0 | a :: r => zlen a + sum_len r end.
Lemma c06_total_len_fold l : forall acc, fold_left (fun acc a => acc + zlen a) l acc = acc + sum_len l.
Proof. induction l as [|a r IH]; intros acc; cbn [fold_left sum_len]; [lia|]. rewrite IH. lia. Qed.
Lemma c06_total_len_sum l : total_len l = sum_len l.
Proof. unfold total_len. rewrite c06_total_len_fold. lia. Qed.
Lemma c06_sum_len_skipn n : forall l, sum_len (skipn n l) <= sum_len l.
Proof. induction n as [|n IH]; intros [|a r]; cbn [skipn sum_len]; try lia. specialize (IH r). lia. Qed.
Lemma c06_sum_len_nth n : forall l, zlen (@nth bytes n l []) <= sum_len l.
Proof.
  induction n as [|n IH]; intros [|a r]; cbn [nth sum_len]; change (zlen []) with 0; try lia.
  specialize (IH r). lia.
Qed.

Section Exact.
  Variable E : env.
  Notation G := (gas E).

  Definition exact_nft_create (A : list bytes) : N := total_len A * g_StorePerByte G + g_ESDTNFTCreate G.
  Definition exact_add_uri (A : list bytes) : N := g_ESDTNFTAddURI G + total_len (skipn 2 A) * g_StorePerByte G.
  Definition exact_update_attributes (A : list bytes) : N :=
    g_ESDTNFTUpdateAttributes G + zlen (nth 2 A []) * g_StorePerByte G.

  Fixpoint skv_exact (st : store) (pairs : list bytes) (use : N) : N :=
    match pairs with
    | k :: v :: rest =>
      let use1 := use + (zlen v + zlen k) * g_PersistPerByte G in
      let old := sget st k in
      if beqb old v then skv_exact st rest use1 else
      let change := if zlen old <? zlen v then zlen v - zlen old else 0 in
      skv_exact (sput st k v) rest (use1 + g_StorePerByte G * change)
    | _ => use
    end.
  Definition exact_save_key_value (i : input) (s : mstate) : N :=
    skv_exact (a_store (acct s (i_caller i))) (i_args i) (g_SaveKeyValue G).

  Definition payload_exact (t : token) : N := zlen (enc_tok (cdc E) t) * g_DataCopyPerByte G.
  Fixpoint payload_gas_exact (l : list (bytes * token)) : N :=
    match l with
    | [] => 0
    | (_, t) :: r => match t_meta t with Some _ => payload_exact t | None => 0 end + payload_gas_exact r
    end.
  Definition exact_nft_transfer (i : input) (s : mstate) : N :=
    if beqb (i_caller i) (i_rcpt i) then
      g_ESDTNFTTransfer G + match nft_sender_entry E i s with Some t2 => payload_exact t2 | None => 0 end
    else 0.
  Definition exact_multi_transfer (i : input) (s : mstate) : N :=
    if beqb (i_caller i) (i_rcpt i) then
      multi_count i * g_ESDTNFTMultiTransfer G
      + match multi_payloads E i s with Some lst => payload_gas_exact lst | None => 0 end
    else 0.

  Definition exact_charge (f : bytes) (i : input) (s : mstate) : N :=
    if beqb f C.BuiltInFunctionSaveKeyValue then exact_save_key_value i s
    else if beqb f C.BuiltInFunctionESDTNFTCreate then exact_nft_create (i_args i)
    else if beqb f C.BuiltInFunctionESDTNFTTransfer then exact_nft_transfer i s
    else if beqb f C.BuiltInFunctionESDTNFTUpdateAttributes then exact_update_attributes (i_args i)
    else if beqb f C.BuiltInFunctionESDTNFTAddURI then exact_add_uri (i_args i)
    else if beqb f C.BuiltInFunctionMultiESDTNFTTransfer then exact_multi_transfer i s
    else charge E f i s.      (* the other 17 functions charge a schedule field or nothing: no arithmetic *)

  (* ---- the wrapping computation equals the exact one when the exact value fits ---- *)
  Lemma c06_u64_mul_fits a b c : a * b + c < two64 -> u64 (u64 (a * b) + c) = a * b + c.
  Proof. intros H. rewrite (c06_u64_small (a * b)) by lia. apply c06_u64_small. exact H. Qed.
  Lemma c06_u64_add_mul_fits a b c : c + a * b < two64 -> u64 (c + u64 (a * b)) = c + a * b.
  Proof. intros H. rewrite (c06_u64_small (a * b)) by lia. apply c06_u64_small. exact H. Qed.

  Lemma nft_create_exact A : exact_nft_create A < two64 -> charge_nft_create E A = exact_nft_create A.
  Proof. unfold charge_nft_create, exact_nft_create. apply c06_u64_mul_fits. Qed.
  Lemma add_uri_exact A : exact_add_uri A < two64 -> charge_add_uri E A = exact_add_uri A.
  Proof. unfold charge_add_uri, exact_add_uri. apply c06_u64_add_mul_fits. Qed.
  Lemma update_attributes_exact A :
    exact_update_attributes A < two64 -> charge_update_attributes E A = exact_update_attributes A.
  Proof. unfold charge_update_attributes, exact_update_attributes. apply c06_u64_add_mul_fits. Qed.

  Lemma skv_exact_mono : forall n pairs st use, (length pairs <= n)%nat -> use <= skv_exact st pairs use.
  Proof.
    induction n as [|n IH]; intros pairs st use Hlen.
    - destruct pairs; [cbn; lia|simpl in Hlen; lia].
    - destruct pairs as [|k [|v rest]]; cbn [skv_exact]; try lia. cbv zeta.
      assert (Hl : (length rest <= n)%nat) by (simpl in Hlen; lia).
      destruct (beqb (sget st k) v).
      + specialize (IH rest st (use + (zlen v + zlen k) * g_PersistPerByte G) Hl). lia.
      + match goal with |- _ <= skv_exact ?st' _ ?u => specialize (IH rest st' u Hl) end. lia.
  Qed.

  Lemma c06_u64_len_mul l p : l * p < two64 -> u64 (u64 l * p) = l * p.
  Proof.
    intros H. destruct (N.eq_dec p 0) as [->|Hp].
    - rewrite !N.mul_0_r. reflexivity.
    - assert (l <= l * p) by nia. rewrite (c06_u64_small l) by lia. apply c06_u64_small. exact H.
  Qed.

  Lemma skv_charge_exact : forall n pairs st use, (length pairs <= n)%nat ->
    skv_exact st pairs use < two64 -> skv_charge E st pairs use = skv_exact st pairs use.
  Proof.
    induction n as [|n IH]; intros pairs st use Hlen Hfit.
    - destruct pairs; [reflexivity|simpl in Hlen; lia].
    - destruct pairs as [|k [|v rest]]; cbn [skv_exact skv_charge] in *; try reflexivity. cbv zeta in *.
      assert (Hl : (length rest <= n)%nat) by (simpl in Hlen; lia).
      set (u1 := use + (zlen v + zlen k) * g_PersistPerByte G) in *.
      destruct (beqb (sget st k) v).
      + pose proof (skv_exact_mono n rest st u1 Hl) as Hm.
        assert (E1 : u64 (use + u64 (u64 (zlen v + zlen k) * g_PersistPerByte G)) = u1).
        { assert (Hb : u1 < two64) by lia. unfold u1 in Hb |- *.
          rewrite c06_u64_len_mul by lia. apply c06_u64_small. lia. }
        rewrite E1. apply IH; assumption.
      + set (ch := if zlen (sget st k) <? zlen v then zlen v - zlen (sget st k) else 0) in *.
        pose proof (skv_exact_mono n rest (sput st k v) (u1 + g_StorePerByte G * ch) Hl) as Hm.
        assert (E1 : u64 (use + u64 (u64 (zlen v + zlen k) * g_PersistPerByte G)) = u1).
        { assert (Hb : u1 < two64) by lia. unfold u1 in Hb |- *.
          rewrite c06_u64_len_mul by lia. apply c06_u64_small. lia. }
        rewrite E1.
        assert (E2 : u64 (u1 + u64 (g_StorePerByte G * ch)) = u1 + g_StorePerByte G * ch).
        { assert (Hb : u1 + g_StorePerByte G * ch < two64) by lia.
          rewrite (c06_u64_small (g_StorePerByte G * ch)) by lia. apply c06_u64_small. lia. }
        rewrite E2. apply IH; assumption.
  Qed.
  Lemma save_key_value_exact i s :
    exact_save_key_value i s < two64 -> charge_save_key_value E i s = exact_save_key_value i s.
  Proof. unfold charge_save_key_value, exact_save_key_value. apply skv_charge_exact with (n := length (i_args i)). lia. Qed.

  Lemma payload_price_exact t : payload_exact t < two64 -> payload_price E t = payload_exact t.
  Proof. unfold payload_price, payload_exact. apply c06_mul64_small. Qed.
  Lemma payload_gas_exact_eq l : payload_gas_exact l < two64 -> payload_gas E l = payload_gas_exact l.
  Proof.
    induction l as [|[tok t] r IH]; cbn [payload_gas payload_gas_exact]; [reflexivity|]. intros H.
    rewrite IH by lia. destruct (t_meta t); [|reflexivity]. rewrite payload_price_exact by lia. reflexivity.
  Qed.
  Lemma nft_transfer_exact i s : exact_nft_transfer i s < two64 -> charge_nft_transfer E i s = exact_nft_transfer i s.
  Proof.
    unfold charge_nft_transfer, exact_nft_transfer. destruct (beqb (i_caller i) (i_rcpt i)); [|reflexivity].
    destruct (nft_sender_entry E i s); [|reflexivity]. intros H. rewrite payload_price_exact by lia. reflexivity.
  Qed.
  Lemma multi_transfer_exact i s :
    exact_multi_transfer i s < two64 -> charge_multi_transfer E i s = exact_multi_transfer i s.
  Proof.
    unfold charge_multi_transfer, exact_multi_transfer. destruct (beqb (i_caller i) (i_rcpt i)); [|reflexivity].
    intros H. rewrite c06_mul64_small by lia.
    destruct (multi_payloads E i s); [|reflexivity]. rewrite payload_gas_exact_eq by lia. reflexivity.
  Qed.

  Theorem charge_exact f i s : exact_charge f i s < two64 -> charge E f i s = exact_charge f i s.
  Proof.
    unfold exact_charge, charge.
    assert (D : forall a b : bytes, a <> b -> forall x, beqb x a = true -> beqb x b = false).
    { intros a b Hab x Hx. apply beqb_true in Hx. subst. apply beqb_false. exact Hab. }
    destruct (beqb f C.BuiltInFunctionSaveKeyValue) eqn:E1.
    { intros H. apply beqb_true in E1. subst f. cbn. apply save_key_value_exact. exact H. }
    destruct (beqb f C.BuiltInFunctionESDTNFTCreate) eqn:E2.
    { intros H. apply beqb_true in E2. subst f. cbn. apply nft_create_exact. exact H. }
    destruct (beqb f C.BuiltInFunctionESDTNFTTransfer) eqn:E3.
    { intros H. apply beqb_true in E3. subst f. cbn. apply nft_transfer_exact. exact H. }
    destruct (beqb f C.BuiltInFunctionESDTNFTUpdateAttributes) eqn:E4.
    { intros H. apply beqb_true in E4. subst f. cbn. apply update_attributes_exact. exact H. }
    destruct (beqb f C.BuiltInFunctionESDTNFTAddURI) eqn:E5.
    { intros H. apply beqb_true in E5. subst f. cbn. apply add_uri_exact. exact H. }
    destruct (beqb f C.BuiltInFunctionMultiESDTNFTTransfer) eqn:E6.
    { intros H. apply beqb_true in E6. subst f. cbn. apply multi_transfer_exact. exact H. }
    reflexivity.
  Qed.

  (* C06, third clause: when the exact charge fits in 64 bits, the result of a successful execution
     is the one of exact (non-wrapping) arithmetic: no uint64 operation wrapped *)
  Theorem no_wrap f i s o s' :
    exec E f i s = (Ok o, s') -> i_gas i < two64 -> exact_charge f i s < two64 ->
    gas_spec i o (exact_charge f i s).
  Proof. intros H Hg Hx. rewrite <- charge_exact by assumption. eapply gas_spec_exec; eassumption. Qed.

  (* ---------------------------------------------------------------- *)
  (* 32-bit schedules and Go-sized inputs never wrap                    *)
  (* ---------------------------------------------------------------- *)
  Definition gas_fields (g : gascfg) : list N :=
    [g_ChangeOwnerAddress g; g_ClaimDeveloperRewards g; g_SaveUserName g; g_SaveKeyValue g; g_ESDTTransfer g; g_ESDTBurn g;
     g_ESDTLocalMint g; g_ESDTLocalBurn g; g_ESDTNFTCreate g; g_ESDTNFTAddQuantity g; g_ESDTNFTBurn g; g_ESDTNFTTransfer g;
     g_ESDTNFTChangeCreateOwner g; g_ESDTNFTMultiTransfer g; g_ESDTNFTAddURI g; g_ESDTNFTUpdateAttributes g;
     g_StorePerByte g; g_ReleasePerByte g; g_DataCopyPerByte g; g_PersistPerByte g; g_CompilePerByte g; g_AoTPreparePerByte g].
  Definition sched32 (g : gascfg) : Prop := forall c, In c (gas_fields g) -> c < two32.
  Definition two31 : N := 2147483648.
  (* argument bytes and argument count as Go can hold them comfortably *)
  Definition small_input (i : input) : Prop := total_len (i_args i) < two31 /\ alen (i_args i) < two31.
  (* marshalled bytes of the NFT payloads the call copies (these come from storage, not from the arguments) *)
  Fixpoint payload_len (l : list (bytes * token)) : N :=
    match l with
    | [] => 0
    | (_, t) :: r => match t_meta t with Some _ => zlen (enc_tok (cdc E) t) | None => 0 end + payload_len r
    end.
  Definition payload_bytes (f : bytes) (i : input) (s : mstate) : N :=
    if beqb f C.BuiltInFunctionESDTNFTTransfer then
      match nft_sender_entry E i s with Some t2 => zlen (enc_tok (cdc E) t2) | None => 0 end
    else if beqb f C.BuiltInFunctionMultiESDTNFTTransfer then
      match multi_payloads E i s with Some lst => payload_len lst | None => 0 end
    else 0.

  Lemma skv_exact_bound : forall n pairs st use, (length pairs <= n)%nat ->
    skv_exact st pairs use <= use + sum_len pairs * g_PersistPerByte G + sum_len pairs * g_StorePerByte G.
  Proof.
    induction n as [|n IH]; intros pairs st use Hlen.
    - destruct pairs; [cbn; lia|simpl in Hlen; lia].
    - destruct pairs as [|k [|v rest]]; cbn [skv_exact]; [cbn; lia|cbn [sum_len]; lia|]. cbv zeta.
      assert (Hl : (length rest <= n)%nat) by (simpl in Hlen; lia).
      cbn [sum_len]. set (L := sum_len rest). set (P := g_PersistPerByte G). set (S := g_StorePerByte G).
      destruct (beqb (sget st k) v).
      + specialize (IH rest st (use + (zlen v + zlen k) * P) Hl). fold L P S in IH. nia.
      + set (ch := if zlen (sget st k) <? zlen v then zlen v - zlen (sget st k) else 0).
        assert (Hch : ch <= zlen v) by (unfold ch; destruct (zlen (sget st k) <? zlen v); lia).
        specialize (IH rest (sput st k v) (use + (zlen v + zlen k) * P + S * ch) Hl). fold L P S in IH. nia.
  Qed.

  Lemma payload_gas_exact_bound l : payload_gas_exact l = payload_len l * g_DataCopyPerByte G.
  Proof.
    induction l as [|[tok t] r IH]; cbn [payload_gas_exact payload_len]; [reflexivity|].
    rewrite IH. unfold payload_exact. destruct (t_meta t); lia.
  Qed.

  Lemma c06_two_consts : two64 = 18446744073709551616 /\ two32 = 4294967296 /\ two31 = 2147483648.
  Proof. repeat split. Qed.

  Lemma c06_mul_bound a b : a < 2147483648 -> b < 4294967296 -> a * b <= 9223372030412324865.
  Proof.
    intros Ha Hb. assert (a <= 2147483647) by lia. assert (b <= 4294967295) by lia.
    change 9223372030412324865 with (2147483647 * 4294967295). apply N.mul_le_mono; assumption.
  Qed.

  Theorem exact_charge_32bit f i s :
    sched32 G -> small_input i -> payload_bytes f i s < two31 ->
    (beqb f C.BuiltInFunctionMultiESDTNFTTransfer = true -> beqb (i_caller i) (i_rcpt i) = true ->
     multi_count i <= alen (i_args i)) ->           (* guaranteed by the count guard on every successful run *)
    exact_charge f i s < two64.
  Proof.
    intros HS [HL HA] HP HN. destruct c06_two_consts as (T64 & T32 & T31).
    assert (F : forall c, In c (gas_fields G) -> c < 4294967296) by (intros c Hc; rewrite <- T32; apply HS; exact Hc).
    unfold gas_fields in F.
    repeat match type of F with
           | forall c, In c (?x :: ?r) -> _ =>
             let Hx := fresh "Hf" in
             assert (Hx : x < 4294967296) by (apply F; left; reflexivity);
             assert (F' : forall c, In c r -> c < 4294967296) by (intros c Hc; apply F; right; exact Hc);
             clear F; rename F' into F
           end.
    clear F. rewrite T64. rewrite T31 in *.
    rewrite c06_total_len_sum in HL.
    unfold exact_charge, payload_bytes in *.
    destruct (beqb f C.BuiltInFunctionSaveKeyValue) eqn:E1.
    { unfold exact_save_key_value.
      pose proof (skv_exact_bound (length (i_args i)) (i_args i) (a_store (acct s (i_caller i))) (g_SaveKeyValue G) (Nat.le_refl _)).
      pose proof (c06_mul_bound (sum_len (i_args i)) (g_StorePerByte G)).
      pose proof (c06_mul_bound (sum_len (i_args i)) (g_PersistPerByte G)). lia. }
    destruct (beqb f C.BuiltInFunctionESDTNFTCreate) eqn:E2.
    { unfold exact_nft_create. rewrite c06_total_len_sum. pose proof (c06_mul_bound (sum_len (i_args i)) (g_StorePerByte G)). lia. }
    destruct (beqb f C.BuiltInFunctionESDTNFTTransfer) eqn:E3.
    { unfold exact_nft_transfer. destruct (beqb (i_caller i) (i_rcpt i)); [|lia].
      destruct (nft_sender_entry E i s) as [t2|]; [unfold payload_exact; pose proof (c06_mul_bound (zlen (enc_tok (cdc E) t2)) (g_DataCopyPerByte G)); lia|lia]. }
    destruct (beqb f C.BuiltInFunctionESDTNFTUpdateAttributes) eqn:E4.
    { unfold exact_update_attributes. pose proof (c06_sum_len_nth 2 (i_args i)).
      pose proof (c06_mul_bound (zlen (nth 2 (i_args i) [])) (g_StorePerByte G)). lia. }
    destruct (beqb f C.BuiltInFunctionESDTNFTAddURI) eqn:E5.
    { unfold exact_add_uri. rewrite c06_total_len_sum. pose proof (c06_sum_len_skipn 2 (i_args i)).
      pose proof (c06_mul_bound (sum_len (skipn 2 (i_args i))) (g_StorePerByte G)). lia. }
    destruct (beqb f C.BuiltInFunctionMultiESDTNFTTransfer) eqn:E6.
    { unfold exact_multi_transfer. destruct (beqb (i_caller i) (i_rcpt i)); [|lia].
      specialize (HN eq_refl eq_refl).
      pose proof (c06_mul_bound (multi_count i) (g_ESDTNFTMultiTransfer G)).
      destruct (multi_payloads E i s) as [lst|];
        [rewrite payload_gas_exact_bound; pose proof (c06_mul_bound (payload_len lst) (g_DataCopyPerByte G)); lia|lia]. }
    unfold charge. rewrite E1, E2, E3, E4, E5, E6. unfold charge_esdt_transfer.
    repeat match goal with |- context [if ?b then _ else _] => destruct b end; lia.
  Qed.

  (* C06, third clause for the schedules and inputs the property text names *)
  Theorem no_wrap_32bit f i s o s' :
    exec E f i s = (Ok o, s') -> i_gas i < two64 ->
    sched32 G -> small_input i -> payload_bytes f i s < two31 ->
    exact_charge f i s < two64 /\ charge E f i s = exact_charge f i s /\ gas_spec i o (exact_charge f i s).
  Proof.
    intros H Hg HS HI HP.
    assert (HN : beqb f C.BuiltInFunctionMultiESDTNFTTransfer = true -> beqb (i_caller i) (i_rcpt i) = true ->
                 multi_count i <= alen (i_args i)).
    { intros Hf Hc. apply beqb_true in Hf. subst f. unfold exec in H. cbn in H.
      apply gas_multi_transfer in H; [|assumption]. destruct H as (_ & H). specialize (H Hc). destruct H as (H & _).
      assert (alen (i_args i) / apt <= alen (i_args i)) by (apply N.div_le_upper_bound; [discriminate|]; unfold apt, C.bif_argumentsPerTransfer; lia).
      lia. }
    assert (Hx : exact_charge f i s < two64) by (apply exact_charge_32bit; assumption).
    split; [exact Hx|]. split; [apply charge_exact; exact Hx|]. eapply no_wrap; eassumption.
  Qed.

  (* ---------------------------------------------------------------- *)
  (* the charge does not depend on the gas provided                     *)
  (* ---------------------------------------------------------------- *)
  Definition with_gas (i : input) (g : N) : input :=
    {| i_caller := i_caller i; i_rcpt := i_rcpt i; i_args := i_args i; i_value := i_value i; i_gas := g;
       i_gasLocked := i_gasLocked i; i_callType := i_callType i; i_rae := i_rae i; i_snd := i_snd i; i_dst := i_dst i |}.

  Lemma c06_bind_ext {A B} (m : @M err mstate A) (k1 k2 : A -> @M err mstate B) s :
    (forall a s1, k1 a s1 = k2 a s1) -> bind m k1 s = bind m k2 s.
  Proof. intros H. unfold bind. destruct (m s) as [[a|e|] s1]; auto. Qed.

  Lemma multi_sender_loop_gas g : forall fuel i dl dst v idx acc logs s,
    multi_sender_loop E fuel (with_gas i g) dl dst v idx acc logs s = multi_sender_loop E fuel i dl dst v idx acc logs s.
  Proof.
    induction fuel as [|fuel IH]; intros i dl dst v idx acc logs s; [reflexivity|].
    cbn [multi_sender_loop]. cbv zeta. cbn [with_gas i_args i_snd i_caller i_rae].
    apply c06_bind_ext. intros tok s1. apply c06_bind_ext. intros a1 s2. apply c06_bind_ext. intros a2 s3.
    apply c06_bind_ext. intros t s4. apply IH.
  Qed.

  Theorem charge_gas_independent f i g s : charge E f (with_gas i g) s = charge E f i s.
  Proof.
    unfold charge, charge_save_key_value, charge_esdt_transfer, sc_call_after, charge_nft_transfer, nft_sender_entry,
      charge_multi_transfer, multi_payloads, multi_count, must_verify_payable.
    cbn [with_gas i_args i_snd i_dst i_caller i_rcpt i_callType i_rae]. cbv zeta.
    rewrite multi_sender_loop_gas. reflexivity.
  Qed.
End Exact.
