(* Supply accounting over mixed histories, part 1: generic tools.
     1. sums over account maps from pointwise knowledge ([asum_pointwise_one]): if every account's value of f moved
        by d at ONE address and by 0 elsewhere, the shard-wide sum moved by d (both maps duplicate-free);
     2. "one account object per address" (NoDup of the account keys) is preserved by EVERY successful run of the 20
        non-transfer built-in functions ([exec_nodup_nontransfer]): judgement [ndk] + rules + one tactic that walks a
        function body (every state change goes through [aput], which keeps the keys duplicate-free);
     3. protocol token keys P ++ x: [pkey], non-negativity on protocol keys only ([nonneg_P]) -- the all-keys form of
        C01 (accts_nonneg) is NOT an invariant of mixed histories: SaveKeyValue, role lists and create counters write
        cells under other keys, whose bytes may decode to anything. *)
From Coq Require Import Lia List.
From EV Require Import Base.Bytes Base.Store Base.Monad gen.Consts Codec.Types Helpers.Helpers
  Ledger.Types Ledger.Env Ledger.Funcs Ledger.Transfers Ledger.World
  LedgerProofs.Defs LedgerProofs.EnvSpec LedgerProofs.WorldDefs LedgerProofs.WorldSpec
  LedgerProofs.Spec_Transfers_Base.
Import ListNotations.

(* ================================================================ *)
(* 1. sums over account maps                                          *)
(* ================================================================ *)
Section ASum.
  Variable A : Type.
  Variable dflt : A.
  Variable f : A -> Z.
  Hypothesis f_dflt : f dflt = 0%Z.

  Lemma aget_notin (m : amap A) a : ~ In a (map fst m) -> aget dflt m a = dflt.
  Proof.
    induction m as [|[a' x] r IH]; cbn [aget map fst In]; intros H; [reflexivity|].
    destruct (beqb_spec a a') as [->|Hne]; [exfalso; apply H; left; reflexivity|].
    apply IH. intros Hin. apply H. right. exact Hin.
  Qed.

  (* the sum over the map = the sum of f (aget m a) over any duplicate-free list of addresses covering the keys *)
  Lemma asum_over (m : amap A) : forall K, NoDup (map fst m) -> NoDup K -> incl (map fst m) K ->
    asum f m = zsum (fun a => f (aget dflt m a)) K.
  Proof.
    induction m as [|[a' x] r IH]; intros K Hnd HK Hincl.
    - cbn [asum]. symmetry. apply zsum_zero. intros a _. cbn [aget]. exact f_dflt.
    - cbn [map fst] in Hnd, Hincl. inversion Hnd as [|? ? Hnotin Hnd']; subst.
      assert (Hin : In a' K) by (apply Hincl; left; reflexivity).
      destruct (in_split _ _ Hin) as (K1 & K2 & ->).
      pose proof (NoDup_remove_1 _ _ _ HK) as HK'. pose proof (NoDup_remove_2 _ _ _ HK) as Hn2.
      assert (Hext : forall L, (forall a, In a L -> a <> a') ->
                zsum (fun a => f (aget dflt ((a', x) :: r) a)) L = zsum (fun a => f (aget dflt r a)) L).
      { intros L HL. apply zsum_ext. intros a Ha. cbn [aget]. rewrite (beqb_false a a') by (apply HL; exact Ha). reflexivity. }
      rewrite zsum_app. cbn [zsum]. rewrite (Hext K1), (Hext K2).
      + cbn [asum aget]. rewrite beqb_refl.
        rewrite (IH (K1 ++ K2) Hnd' HK'); [rewrite zsum_app; lia|].
        intros a Ha. assert (Ha' : In a (K1 ++ a' :: K2)) by (apply Hincl; right; exact Ha).
        apply in_app_or in Ha' as [H1|[H1|H1]]; [apply in_or_app; left; exact H1| |apply in_or_app; right; exact H1].
        subst a. contradiction.
      + intros a Ha ->. apply Hn2. apply in_or_app. right. exact Ha.
      + intros a Ha ->. apply Hn2. apply in_or_app. left. exact Ha.
  Qed.

  Definition dedup (l : list bytes) : list bytes :=
    nodup (fun x y => match beqb_spec x y with ReflectT _ e => left e | ReflectF _ n => right n end) l.
  Lemma dedup_nodup l : NoDup (dedup l). Proof. apply NoDup_nodup. Qed.
  Lemma dedup_in l a : In a (dedup l) <-> In a l. Proof. apply nodup_In. Qed.

  (* the change is concentrated on one address *)
  Lemma asum_pointwise_one (m m' : amap A) (a0 : bytes) (d : Z) :
    NoDup (map fst m) -> NoDup (map fst m') ->
    (forall a, f (aget dflt m' a) = (f (aget dflt m a) + (if beqb a a0 then d else 0))%Z) ->
    asum f m' = (asum f m + d)%Z.
  Proof.
    intros Hnd Hnd' Hpt.
    set (K := dedup (a0 :: map fst m ++ map fst m')).
    assert (HK : NoDup K) by apply dedup_nodup.
    assert (H0 : In a0 K) by (apply dedup_in; left; reflexivity).
    rewrite (asum_over m' K Hnd' HK), (asum_over m K Hnd HK).
    - rewrite (zsum_ext _ (fun a => (f (aget dflt m a) + (if beqb a a0 then d else 0))%Z) K) by (intros a _; apply Hpt).
      rewrite zsum_plus. f_equal.
      rewrite (zsum_single (fun a => if beqb a a0 then d else 0%Z) K a0 HK H0).
      + rewrite beqb_refl. reflexivity.
      + intros b Hb. rewrite (beqb_false b a0 Hb). reflexivity.
    - intros a Ha. apply dedup_in. right. apply in_or_app. left. exact Ha.
    - intros a Ha. apply dedup_in. right. apply in_or_app. right. exact Ha.
  Qed.
End ASum.

(* at the level of states: balances under key k *)
Lemma shard_sum_pointwise E k s s' a0 d :
  NoDup (map fst (accts s)) -> NoDup (map fst (accts s')) ->
  (forall a, balance E s' a k = (balance E s a k + (if beqb a a0 then d else 0))%Z) ->
  asum (acct_bal E k) (accts s') = (asum (acct_bal E k) (accts s) + d)%Z.
Proof.
  intros Hnd Hnd' Hb. apply (asum_pointwise_one account empty_account (acct_bal E k) (acct_bal_empty E k) _ _ a0 d Hnd Hnd').
  intros a. exact (Hb a).
Qed.

(* ================================================================ *)
(* 2. one account object per address: preserved by the 20 functions   *)
(* ================================================================ *)
Definition keys_ok (s : mstate) : Prop := NoDup (map fst (accts s)).
Definition ndk {A} (m : @M err mstate A) : Prop :=
  forall s a s', m s = (Ok a, s') -> keys_ok s -> keys_ok s'.

Section NdkRules.
  Variable E : env.
  Notation MT := (@M err mstate).

  Lemma ndk_ret {A} (a : A) : ndk (ret a).
  Proof. intros s b s' H Hn. apply ret_ok in H as [_ ->]. exact Hn. Qed.
  Lemma ndk_fail {A} e : ndk (@fail err mstate A e).
  Proof. intros s b s' H. apply fail_ok in H. contradiction. Qed.
  Lemma ndk_panic {A} : ndk (@panic err mstate A).
  Proof. intros s b s' H. apply panic_ok in H. contradiction. Qed.
  Lemma ndk_bind {A B} (m : MT A) (f : A -> MT B) : ndk m -> (forall a, ndk (f a)) -> ndk (bind m f).
  Proof. intros Hm Hf s b s' H Hn. apply bind_ok in H as (a & s1 & H1 & H2). eapply Hf; eauto. Qed.
  Lemma ndk_same {A} (m : MT A) : (forall s a s', m s = (Ok a, s') -> accts s' = accts s) -> ndk m.
  Proof. intros Hr s a s' H Hn. unfold keys_ok. rewrite (Hr _ _ _ H). exact Hn. Qed.

  Lemma ndk_guard b e : ndk (guard b e).
  Proof. apply ndk_same. intros s a s' H. apply guard_ok in H as [_ ->]. reflexivity. Qed.
  Lemma ndk_lift_opt {A} (o : option A) e : ndk (lift_opt o e).
  Proof. apply ndk_same. intros s a s' H. apply lift_opt_ok in H as [_ ->]. reflexivity. Qed.
  Lemma ndk_opt_or_panic {A} (o : option A) : ndk (opt_or_panic o).
  Proof. apply ndk_same. intros s a s' H. apply opt_or_panic_ok in H as [_ ->]. reflexivity. Qed.
  Lemma ndk_dep : ndk (dep E).
  Proof. apply ndk_same. intros s a s' H. apply dep_rd in H. apply (rd_accts E _ _ H). Qed.
  Lemma ndk_load_account a : ndk (load_account E a). Proof. apply ndk_dep. Qed.
  Lemma ndk_save_account a : ndk (save_account E a). Proof. apply ndk_dep. Qed.
  Lemma ndk_retrieve a k : ndk (retrieve a k).
  Proof. apply ndk_same. intros s x s' H. apply retrieve_ok in H as [_ ->]. reflexivity. Qed.
  Lemma ndk_save_kv a k v : ndk (save_kv E a k v).
  Proof. intros s u s' H Hn. apply save_kv_ok in H. eapply wr_nodup; eauto. Qed.
  Lemma ndk_marshal_tok t : ndk (marshal_tok E t).
  Proof. apply ndk_same. intros s a s' H. apply marshal_tok_ok in H as [_ H]. apply (rd_accts E _ _ H). Qed.
  Lemma ndk_unmarshal_tok b : ndk (unmarshal_tok E b).
  Proof. apply ndk_same. intros s a s' H. apply unmarshal_tok_ok in H as [_ H]. apply (rd_accts E _ _ H). Qed.
  Lemma ndk_marshal_rol r : ndk (marshal_rol E r).
  Proof. apply ndk_same. intros s a s' H. apply marshal_rol_ok in H as [_ H]. apply (rd_accts E _ _ H). Qed.
  Lemma ndk_unmarshal_rol b : ndk (unmarshal_rol E b).
  Proof. apply ndk_same. intros s a s' H. apply unmarshal_rol_ok in H as [_ H]. apply (rd_accts E _ _ H). Qed.
  Lemma ndk_upd_acct a g : ndk (upd_acct a g).
  Proof. intros s u s' H Hn. eapply upd_acct_nodup; eauto. Qed.
  Lemma ndk_get_acct a : ndk (get_acct a).
  Proof. apply ndk_same. intros s x s' H. apply get_acct_ok in H as [_ ->]. reflexivity. Qed.
  Lemma ndk_arg A k : ndk (arg A k).
  Proof. apply ndk_same. intros s a s' H. apply arg_ok in H as (_ & _ & ->). reflexivity. Qed.
  Lemma ndk_args_from A k : ndk (args_from A k).
  Proof. apply ndk_same. intros s a s' H. apply args_from_ok in H as (_ & _ & ->). reflexivity. Qed.
  Lemma ndk_val_of t : ndk (val_of t).
  Proof. apply ndk_same. intros s a s' H. apply val_of_ok in H as [_ ->]. reflexivity. Qed.
  Lemma ndk_meta_of t : ndk (meta_of t).
  Proof. apply ndk_same. intros s a s' H. apply meta_of_ok in H as [_ ->]. reflexivity. Qed.
  Lemma ndk_check_basic i : ndk (check_basic i).
  Proof. apply ndk_same. intros s a s' H. apply check_basic_ok in H as (_ & _ & ->). reflexivity. Qed.
End NdkRules.

Ltac ndk_leaf E :=
  first
    [ apply ndk_ret | apply ndk_fail | apply ndk_panic | apply ndk_guard | apply ndk_lift_opt | apply ndk_opt_or_panic
    | apply (ndk_dep E) | apply (ndk_load_account E) | apply (ndk_save_account E) | apply ndk_retrieve
    | apply (ndk_save_kv E) | apply (ndk_marshal_tok E) | apply (ndk_unmarshal_tok E)
    | apply (ndk_marshal_rol E) | apply (ndk_unmarshal_rol E) | apply ndk_upd_acct | apply ndk_get_acct
    | apply ndk_arg | apply ndk_args_from | apply ndk_val_of | apply ndk_meta_of | apply ndk_check_basic
    | assumption ].
Ltac ndk_step E :=
  cbv beta iota zeta;
  lazymatch goal with
  | |- ndk (bind _ _) => apply ndk_bind; [|intros ?]
  | |- ndk (if ?b then _ else _) => destruct b
  | |- ndk (match ?x with _ => _ end) => destruct x
  | |- ndk _ => ndk_leaf E
  end.
Ltac ndk_tac E := repeat (ndk_step E).

Section NdkFuncs.
  Variable E : env.
  Ltac go := ndk_tac E.

  Lemma ndk_get_esdt_data a k : ndk (get_esdt_data E a k).
  Proof. unfold get_esdt_data. go. Qed.
  Lemma ndk_is_paused k : ndk (is_paused k).
  Proof. unfold is_paused. go. Qed.
  Lemma ndk_check_froze_and_pause a k t rae : ndk (check_froze_and_pause a k t rae).
  Proof. unfold check_froze_and_pause. go. apply ndk_is_paused. Qed.
  Lemma ndk_save_esdt_data a t k : ndk (save_esdt_data E a t k).
  Proof. unfold save_esdt_data. go. Qed.
  Lemma ndk_add_to_esdt_balance a k d rae : ndk (add_to_esdt_balance E a k d rae).
  Proof.
    unfold add_to_esdt_balance. go;
      first [apply ndk_get_esdt_data | apply ndk_check_froze_and_pause | apply ndk_save_esdt_data].
  Qed.
  Lemma ndk_get_nft_on_destination a k n : ndk (get_nft_on_destination E a k n).
  Proof. unfold get_nft_on_destination. go. Qed.
  Lemma ndk_get_nft_on_sender a k n : ndk (get_nft_on_sender E a k n).
  Proof. unfold get_nft_on_sender. go. apply ndk_get_nft_on_destination. Qed.
  Lemma ndk_save_nft a k t rae : ndk (save_nft E a k t rae).
  Proof. unfold save_nft. go; apply ndk_check_froze_and_pause. Qed.
  Lemma ndk_get_latest_nonce a tok : ndk (get_latest_nonce a tok).
  Proof. unfold get_latest_nonce. go. Qed.
  Lemma ndk_save_latest_nonce a tok n : ndk (save_latest_nonce E a tok n).
  Proof. unfold save_latest_nonce. go. Qed.
  Lemma ndk_get_roles a k : ndk (get_roles E a k).
  Proof. unfold get_roles. go. Qed.
  Lemma ndk_check_allowed snd a tok role : ndk (check_allowed E snd a tok role).
  Proof. unfold check_allowed. go. apply ndk_get_roles. Qed.
  Lemma ndk_save_roles a k r : ndk (save_roles E a k r).
  Proof. unfold save_roles. go. Qed.

  Ltac helper :=
    first [ apply ndk_get_esdt_data | apply ndk_check_froze_and_pause | apply ndk_save_esdt_data
          | apply ndk_add_to_esdt_balance | apply ndk_get_nft_on_sender | apply ndk_save_nft
          | apply ndk_get_latest_nonce | apply ndk_save_latest_nonce | apply ndk_get_roles
          | apply ndk_check_allowed | apply ndk_save_roles ].
  Ltac go2 := repeat first [ndk_step E | helper].

  Lemma ndk_check_local_action i cost : ndk (check_local_action i cost).
  Proof. unfold check_local_action. go2. Qed.
  Lemma ndk_check_create_burn_add i cost : ndk (check_create_burn_add i cost).
  Proof. unfold check_create_burn_add. go2. Qed.
  Lemma ndk_check_system_one_arg i : ndk (check_system_one_arg i).
  Proof. unfold check_system_one_arg. go2. Qed.
  Lemma ndk_delete_create_role a k : ndk (delete_create_role E a k).
  Proof. unfold delete_create_role. go2. Qed.
  Lemma ndk_add_create_role a k : ndk (add_create_role E a k).
  Proof. unfold add_create_role. go2. Qed.
  Ltac go3 :=
    repeat first [ ndk_step E | helper | apply ndk_check_local_action | apply ndk_check_create_burn_add
                 | apply ndk_check_system_one_arg | apply ndk_delete_create_role | apply ndk_add_create_role ].

  Lemma ndk_f_local_mint i : ndk (f_local_mint E i). Proof. unfold f_local_mint. go3. Qed.
  Lemma ndk_f_local_burn i : ndk (f_local_burn E i). Proof. unfold f_local_burn. go3. Qed.
  Lemma ndk_f_esdt_burn i : ndk (f_esdt_burn E i). Proof. unfold f_esdt_burn. go3. Qed.
  Lemma ndk_f_nft_create i : ndk (f_nft_create E i). Proof. unfold f_nft_create. go3. Qed.
  Lemma ndk_f_nft_add_quantity i : ndk (f_nft_add_quantity E i). Proof. unfold f_nft_add_quantity. go3. Qed.
  Lemma ndk_f_nft_burn i : ndk (f_nft_burn E i). Proof. unfold f_nft_burn. go3. Qed.
  Lemma ndk_f_nft_add_uri i : ndk (f_nft_add_uri E i). Proof. unfold f_nft_add_uri. go3. Qed.
  Lemma ndk_f_nft_update_attributes i : ndk (f_nft_update_attributes E i). Proof. unfold f_nft_update_attributes. go3. Qed.
  Lemma ndk_f_freeze_wipe fr wp i : ndk (f_freeze_wipe E fr wp i). Proof. unfold f_freeze_wipe. go3. Qed.
  Lemma ndk_f_pause p i : ndk (f_pause E p i). Proof. unfold f_pause. go3. Qed.
  Lemma ndk_f_roles set i : ndk (f_roles E set i). Proof. unfold f_roles. go3. Qed.
  Lemma ndk_f_create_role_transfer i : ndk (f_create_role_transfer E i). Proof. unfold f_create_role_transfer. go3. Qed.
  Lemma ndk_f_change_owner i : ndk (f_change_owner E i). Proof. unfold f_change_owner. go3. Qed.
  Lemma ndk_f_claim_rewards i : ndk (f_claim_rewards E i). Proof. unfold f_claim_rewards. go3. Qed.
  Lemma ndk_f_set_user_name i : ndk (f_set_user_name E i). Proof. unfold f_set_user_name. go3. Qed.
  Lemma ndk_skv_loop a gp : forall n pairs use, (length pairs <= n)%nat -> ndk (skv_loop E a gp pairs use).
  Proof.
    induction n as [|n IH]; intros pairs use Hl.
    - destruct pairs; [|cbn [length] in Hl; lia]. cbn [skv_loop]. apply ndk_ret.
    - destruct pairs as [|k [|v rest]]; cbn [skv_loop]; [apply ndk_ret|apply ndk_panic|].
      cbn [length] in Hl.
      assert (Hr : forall u, ndk (skv_loop E a gp rest u)) by (intros u; apply IH; lia).
      go3; apply Hr.
  Qed.
  Lemma ndk_f_save_key_value i : ndk (f_save_key_value E i).
  Proof. unfold f_save_key_value. go3. eapply ndk_skv_loop. apply le_n. Qed.

  (* through the dispatch: every name except the three transfer functions (these have their own shard-total lemmas
     in Spec_Transfers.v, which include the NoDup part) *)
  Theorem exec_nodup_nontransfer f i s o s' :
    is_transfer_fn f = false -> exec E f i s = (Ok o, s') ->
    NoDup (map fst (accts s)) -> NoDup (map fst (accts s')).
  Proof.
    intros Hnt H. unfold is_transfer_fn in Hnt.
    apply Bool.orb_false_iff in Hnt as [Hnt H3]. apply Bool.orb_false_iff in Hnt as [H1 H2].
    unfold exec in H.
    repeat match type of H with
           | (if beqb f ?c then _ else _) _ = _ => destruct (beqb_spec f c) as [->|?]
           end;
      try discriminate H1; try discriminate H2; try discriminate H3;
      try (revert H; first
        [ apply ndk_f_claim_rewards | apply ndk_f_change_owner | apply ndk_f_set_user_name | apply ndk_f_save_key_value
        | apply ndk_f_pause | apply ndk_f_esdt_burn | apply ndk_f_freeze_wipe | apply ndk_f_roles
        | apply ndk_f_local_burn | apply ndk_f_local_mint | apply ndk_f_nft_add_quantity | apply ndk_f_nft_burn
        | apply ndk_f_nft_create | apply ndk_f_create_role_transfer | apply ndk_f_nft_update_attributes
        | apply ndk_f_nft_add_uri ]).
    apply fail_ok in H. contradiction.
  Qed.
End NdkFuncs.

(* ================================================================ *)
(* 3. protocol token keys                                             *)
(* ================================================================ *)
(* the storage-level token keys: fungible cells P ++ tok and NFT cells P ++ tok ++ nonce bytes *)
Definition pkey (k : bytes) : Prop := exists x, k = P ++ x.
Lemma pkey_P x : pkey (P ++ x). Proof. exists x. reflexivity. Qed.
Lemma pkey_nft tok n : pkey (nft_key (P ++ tok) n).
Proof. exists (tok ++ u64_bytes n). apply nft_key_app. Qed.

(* no negative balance under any protocol token key, for one account / for all accounts of a state *)
Definition nonneg_P (E : env) (s : mstate) (a : bytes) : Prop := forall x, (0 <= balance E s a (P ++ x))%Z.
Definition st_nonneg_P (E : env) (s : mstate) : Prop := forall a, nonneg_P E s a.
Lemma nonneg_P_pkey E s a k : nonneg_P E s a -> pkey k -> (0 <= balance E s a k)%Z.
Proof. intros H [x ->]. apply H. Qed.

Print Assumptions asum_pointwise_one.
Print Assumptions exec_nodup_nontransfer.
