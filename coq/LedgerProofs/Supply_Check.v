(* Supply accounting over mixed histories, part 6: boolean deciders of the hypotheses of supply_accounting_histories
   (WInv', ok_ops) with soundness lemmas, so that the theorem can be instantiated on concrete worlds by vm_compute. *)
From Coq.Strings Require Import String.
From Coq Require Import Lia List.
From EV Require Import Base.Bytes Base.Store Base.Monad gen.Consts Codec.Types Helpers.Helpers
  Ledger.Types Ledger.Env Ledger.Funcs Ledger.Transfers Ledger.World
  LedgerProofs.Defs LedgerProofs.EnvSpec LedgerProofs.WorldDefs LedgerProofs.WorldSpec
  LedgerProofs.Spec_Transfers_Base LedgerProofs.Spec_Transfers_Esdt LedgerProofs.Spec_Transfers_Nft
  LedgerProofs.Spec_Transfers_Multi LedgerProofs.Spec_Transfers LedgerProofs.Spec_Supply LedgerProofs.Spec_System
  LedgerProofs.C01_World LedgerProofs.C01_Step LedgerProofs.C01_Check LedgerProofs.C02_Effects LedgerProofs.C02_NonNeg
  LedgerProofs.Supply_Base LedgerProofs.Supply_Calls LedgerProofs.Supply_Step.
Import ListNotations.

Section Check.
  Variable c : wcfg.
  Notation shof := (wc_shard_of c).

  Definition msg_ok'_b (m : msg) : bool := negb (is_transfer_fn (m_fn m)) || msg_ok_b c m.
  Definition winv'_b (w : world) : bool :=
    (wc_nshards c <=? N.of_nat (nshards w))%N
    && forallb (fun m => nodupb (map fst m) && accts_nonneg_b c m) (shards w)
    && forallb msg_ok'_b (inflight w).
  Lemma winv'_b_ok w : winv'_b w = true -> WInv' c w.
  Proof.
    unfold winv'_b. intros H. apply andb_prop in H as [H H3]. apply andb_prop in H as [H1 H2].
    rewrite forallb_forall in H2.
    assert (Hsh : forall sh, NoDup (map fst (shard_accts w sh)) /\ accts_nonneg c (shard_accts w sh)).
    { intros sh. unfold shard_accts. destruct (Nat.lt_ge_cases (N.to_nat sh) (length (shards w))) as [Hlt|Hge].
      - specialize (H2 _ (nth_In _ [] Hlt)). apply andb_prop in H2 as [Ha Hb].
        split; [apply nodupb_ok; exact Ha|apply accts_nonneg_b_ok; exact Hb].
      - rewrite nth_overflow by exact Hge. split; [constructor|apply accts_nonneg_nil]. }
    constructor.
    - apply N.leb_le. exact H1.
    - intros sh. apply Hsh.
    - intros sh a x. rewrite balance_acct_bal, <- (acct_balance_acct_bal (env_at c sh) c eq_refl). apply (proj2 (Hsh sh)).
    - apply Forall_forall. intros m Hin Ht. rewrite forallb_forall in H3. specialize (H3 _ Hin).
      unfold msg_ok'_b in H3. rewrite Ht in H3. cbn [negb orb] in H3. apply msg_ok_b_ok. exact H3.
  Qed.

  Definition lookup_fn_b (f : bytes) : bool :=
    beqb f C.BuiltInFunctionESDTNFTAddQuantity || beqb f C.BuiltInFunctionESDTNFTBurn
    || beqb f C.BuiltInFunctionESDTNFTAddURI || beqb f C.BuiltInFunctionESDTNFTUpdateAttributes.
  Definition pause_fn_b (f : bytes) : bool := beqb f C.BuiltInFunctionESDTPause || beqb f C.BuiltInFunctionESDTUnPause.
  Definition call_ok_b (sh : N) (m0 : amap account) (fn : bytes) (i : input) : bool :=
    let E := env_at c sh in
    let s := mk_state m0 in
    (if lookup_fn_b fn then lookup_consistent_b E s (i_caller i) (P ++ argn i 0) (bigU64 (argn i 1)) else true)
    && (if beqb fn C.BuiltInFunctionESDTNFTCreate
        then (balance E s (i_caller i) (nft_key (P ++ argn i 0) (create_nonce i s)) =? 0)%Z else true)
    && (if pause_fn_b fn then (balance E s SYS (P ++ argn i 0) =? 0)%Z else true).
  Lemma call_ok_b_ok sh m0 fn i : call_ok_b sh m0 fn i = true -> call_ok c sh m0 fn i.
  Proof.
    unfold call_ok_b, call_ok. cbv zeta. intros H. apply andb_prop in H as [H H3]. apply andb_prop in H as [H1 H2].
    split; [|split].
    - intros Hl. assert (Hb : lookup_fn_b fn = true).
      { unfold lookup_fn_b. destruct Hl as [Hl|[Hl|[Hl|Hl]]]; subst fn; rewrite beqb_refl; rewrite ?Bool.orb_true_r; reflexivity. }
      rewrite Hb in H1. apply lookup_consistent_b_ok. exact H1.
    - intros ->. rewrite beqb_refl in H2. apply Z.eqb_eq. exact H2.
    - intros Hp. assert (Hb : pause_fn_b fn = true).
      { unfold pause_fn_b. destruct Hp as [Hp|Hp]; subst fn; rewrite beqb_refl; rewrite ?Bool.orb_true_r; reflexivity. }
      rewrite Hb in H3. apply Z.eqb_eq. exact H3.
  Qed.

  Definition origin_b (sh : N) (i : input) : bool :=
    (shof (i_caller i) =? sh)%N && Bool.eqb (i_snd i) (shof (i_caller i) =? sh)%N
    && Bool.eqb (i_dst i) (shof (i_rcpt i) =? sh)%N.
  Lemma origin_b_ok sh i : origin_b sh i = true -> origin_call c sh i.
  Proof.
    unfold origin_b. intros H. apply andb_prop in H as [H H3]. apply andb_prop in H as [H1 H2].
    split; [apply N.eqb_eq; exact H1|]. split; apply Bool.eqb_prop; assumption.
  Qed.
  Definition issue_b (sh : N) (fn : bytes) (i : input) : bool :=
    beqb fn C.BuiltInFunctionESDTTransfer && beqb (i_caller i) SC && negb (i_snd i) && i_dst i && (shof (i_rcpt i) =? sh)%N.
  Lemma issue_b_ok sh fn i : issue_b sh fn i = true -> issue_call c sh fn i.
  Proof.
    unfold issue_b. intros H. apply andb_prop in H as [H H5]. apply andb_prop in H as [H H4].
    apply andb_prop in H as [H H3]. apply andb_prop in H as [H1 H2].
    split; [apply beqb_true; exact H1|]. split; [apply beqb_true; exact H2|].
    split; [destruct (i_snd i); [discriminate|reflexivity]|]. split; [exact H4|apply N.eqb_eq; exact H5].
  Qed.

  Definition ok_op_b (w : world) (op : wop) : bool :=
    match step_call c w op with
    | None => true
    | Some (sh, fn, i) =>
      if is_transfer_fn fn then
        match op with
        | OCall _ _ _ => (origin_b sh i && call_consistent_b c (shard_accts w sh) sh fn i) || issue_b sh fn i
        | ODeliver _ _ | ORefund _ _ => true
        | ORedeliver _ _ => false
        end
      else call_ok_b sh (shard_accts w sh) fn i
    end.
  Lemma ok_op_b_ok w op : ok_op_b w op = true -> ok_op c w op.
  Proof.
    unfold ok_op_b, ok_op. destruct (step_call c w op) as [[[sh fn] i]|]; [|intros; exact I].
    destruct (is_transfer_fn fn).
    - destruct op as [sh0 fn0 i0|? ?|? ?|? ?]; intros H; try exact I; try discriminate.
      apply Bool.orb_prop in H as [H|H]; [left|right; apply issue_b_ok; exact H].
      apply andb_prop in H as [H1 H2]. split; [apply origin_b_ok; exact H1|apply call_consistent_b_ok; exact H2].
    - apply call_ok_b_ok.
  Qed.
  Fixpoint ok_ops_b (w : world) (ops : list wop) : bool :=
    match ops with
    | [] => true
    | op :: r => ok_op_b w op && ok_ops_b (wstep c w op) r
    end.
  Lemma ok_ops_b_ok ops : forall w, ok_ops_b w ops = true -> ok_ops c w ops.
  Proof.
    induction ops as [|op r IH]; intros w H; [exact I|]. cbn [ok_ops_b] in H. apply andb_prop in H as [H1 H2].
    split; [apply ok_op_b_ok; exact H1|apply IH; exact H2].
  Qed.

  (* the theorem with every hypothesis decided by computation *)
  Theorem supply_accounting_checked (Hc : codec_ok (wc_cdc c)) (Hf : flag_neutral (wc_cdc c)) w ops x :
    winv'_b w = true -> ok_ops_b w ops = true ->
    total c (P ++ x) (wrun c w ops) = (total c (P ++ x) w + supply_sum c w ops (P ++ x))%Z.
  Proof.
    intros H1 H2. apply (supply_accounting_histories c Hc Hf); [apply winv'_b_ok; exact H1|apply ok_ops_b_ok; exact H2|apply pkey_P].
  Qed.
End Check.
Print Assumptions supply_accounting_checked.
