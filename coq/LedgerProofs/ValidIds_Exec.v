(* Honest identifiers, part 5: the theorem about the dispatch, [ids_valid_exec], for all 23 functions. *)
From Coq Require Import Lia.
From EV Require Import Base.Bytes Base.Store Base.Monad gen.Consts Codec.Types Helpers.Helpers
  Ledger.Types Ledger.Env Ledger.Funcs Ledger.Transfers LedgerProofs.Defs LedgerProofs.EnvSpec
  LedgerProofs.Spec_Transfers_Base LedgerProofs.Spec_Transfers_Multi
  LedgerProofs.C01_Consistent LedgerProofs.C05_Footprint LedgerProofs.C15_Inv
  LedgerProofs.ValidIds_Id LedgerProofs.ValidIds_Inv LedgerProofs.ValidIds_Funcs LedgerProofs.ValidIds_Transfers.

Section Exec.
  Variable E : env.
  Hypothesis Hc : codec_ok (cdc E).
  Hypothesis Hf : flag_undec (cdc E).
  Notation okout i := (outv E i).

  (* ---------------- the dispatch ---------------- *)
  Lemma call_ids_tok0v b i : named_tokens_b b i = [argn i 0] -> Forall valid_id (named_tokens_b b i) -> tok0v i.
  Proof.
    intros Hn H tok Ht. rewrite Hn in H. inversion H as [|x l Hx _]; subst.
    rewrite (argn_nth_error _ _ _ Ht) in Hx. exact Hx.
  Qed.

  Theorem kv_run_bfn b i : Forall valid_id (named_tokens_b b i) -> kv E (run_bfn E b i) (okout i).
  Proof.
    intros Hv.
    destruct b; cbn [run_bfn];
      try (match type of Hv with Forall _ (named_tokens_b ?b _) => pose proof (call_ids_tok0v b i eq_refl Hv) as Hv0 end).
    - apply kv_f_claim_rewards.
    - apply kv_f_change_owner; assumption.
    - apply kv_f_set_user_name.
    - apply kv_f_save_key_value; assumption.
    - apply kv_f_pause; assumption.
    - apply kv_f_pause; assumption.
    - apply kv_f_esdt_transfer; assumption.
    - apply kv_f_esdt_burn; assumption.
    - apply kv_f_freeze_wipe; assumption.
    - apply kv_f_freeze_wipe; assumption.
    - apply kv_f_freeze_wipe; assumption.
    - apply kv_f_roles; assumption.
    - apply kv_f_roles; assumption.
    - apply kv_f_local_burn; assumption.
    - apply kv_f_local_mint; assumption.
    - apply kv_f_nft_add_quantity; assumption.
    - apply kv_f_nft_burn; assumption.
    - apply kv_f_nft_create; assumption.
    - apply kv_f_nft_transfer; assumption.
    - apply kv_f_create_role_transfer; assumption.
    - apply kv_f_nft_update_attributes; assumption.
    - apply kv_f_nft_add_uri; assumption.
    - apply kv_f_multi_transfer; assumption.
  Qed.

  Theorem kv_exec f i : call_ids f i -> kv E (exec E f i) (okout i).
  Proof.
    unfold call_ids, named_tokens. rewrite exec_classify. destruct (classify f) as [b|].
    - apply kv_run_bfn.
    - intros _. apply (kv_fail E).
  Qed.
End Exec.

(* ---------------- the theorems about [exec] ---------------- *)
(* every successful call of any of the 23 functions that names valid identifiers only re-establishes
   [ids_valid], and the messages it emits name valid identifiers only *)
Theorem ids_valid_exec_out E f i s o s' :
  codec_ok (cdc E) -> flag_undec (cdc E) -> ids_valid E s -> call_ids f i ->
  exec E f i s = (Ok o, s') -> ids_valid E s' /\ outv E i o.
Proof. intros Hc Hf Hs Hv Hx. exact (kv_ok E _ _ _ _ _ (kv_exec E Hc Hf f i Hv) Hs Hx). Qed.

Theorem ids_valid_exec E f i s o s' :
  codec_ok (cdc E) -> flag_undec (cdc E) -> ids_valid E s -> call_ids f i ->
  exec E f i s = (Ok o, s') -> ids_valid E s'.
Proof. intros Hc Hf Hs Hv Hx. eapply ids_valid_exec_out; eauto. Qed.

Print Assumptions ids_valid_exec_out.
