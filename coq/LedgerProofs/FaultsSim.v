(* C17, second half — "the k-th dependency call is reached" made precise by a reference run.

   Two environments E0, E1 that differ only in their fault plans, the plans agree below index k
   and E1 makes call k fail.  [sim m0 m1]: whatever the run of m0 (in E0) does,
     - if it never gets to call k, the run of m1 (in E1) is literally the same (determinism up to the
       first differing plan index);
     - if its window of dependency calls contains k, the run in E1 ends with Err EFault right
       after call k.
   Compositional exactly like [clean]; one tactic proves it for the 23 functions. *)
From EV Require Import Base.Bytes Base.Store Base.Monad gen.Consts Codec.Types Helpers.Helpers
  Ledger.Types Ledger.Env Ledger.Funcs Ledger.Transfers LedgerProofs.Faults.

(* E with another fault plan *)
Definition with_plan (E : env) (p : nat -> bool) : env :=
  {| plan := p; cdc := cdc E; shard_of := shard_of E; self_shard := self_shard E; payable := payable E;
     dns := dns E; enable_change := enable_change E; gas := gas E |}.

(* everything but the plan coincides *)
Definition same_but_plan (E0 E1 : env) : Prop :=
  cdc E1 = cdc E0 /\ shard_of E1 = shard_of E0 /\ self_shard E1 = self_shard E0 /\ payable E1 = payable E0
  /\ dns E1 = dns E0 /\ enable_change E1 = enable_change E0 /\ gas E1 = gas E0.
Lemma same_but_plan_with_plan E p : same_but_plan E (with_plan E p).
Proof. repeat split. Qed.

Section Sim.
  Variables E0 E1 : env.
  Variable k : nat.
  Hypothesis Hcdc : cdc E1 = cdc E0.
  Hypothesis Hshard : shard_of E1 = shard_of E0.
  Hypothesis Hself : self_shard E1 = self_shard E0.
  Hypothesis Hpay : payable E1 = payable E0.
  Hypothesis Hdns : dns E1 = dns E0.
  Hypothesis Hen : enable_change E1 = enable_change E0.
  Hypothesis Hgas : gas E1 = gas E0.
  Hypothesis Hbelow : forall n, n < k -> plan E1 n = plan E0 n.
  Hypothesis Hk : plan E1 k = true.
  Notation MT := (@M err mstate).

  Definition sim {A} (m0 m1 : MT A) : Prop :=
    forall s r0 s0, m0 s = (r0, s0) ->
      calls s <= calls s0 /\
      (calls s0 <= k -> m1 s = (r0, s0)) /\
      (calls s <= k < calls s0 -> exists s1, m1 s = (Err EFault, s1) /\ calls s1 = S k).

  Lemma sim_quiet {A} (m : MT A) : quiet m -> sim m m.
  Proof.
    intros Q s r0 s0 H. specialize (Q s). rewrite H in Q. cbn [snd] in Q.
    split; [lia|]. split; [intros _; exact H|intros; lia].
  Qed.

  Lemma sim_bind {A B} (m0 m1 : MT A) (f0 f1 : A -> MT B) :
    sim m0 m1 -> (forall a, sim (f0 a) (f1 a)) -> sim (bind m0 f0) (bind m1 f1).
  Proof.
    intros Hm Hf s r0 s0 H. unfold bind in H. destruct (m0 s) as [[a|e|] sa] eqn:Em.
    - destruct (Hm _ _ _ Em) as (L1 & P1 & F1). destruct (Hf a _ _ _ H) as (L2 & P2 & F2).
      split; [lia|]. split.
      + intros Hle. unfold bind. rewrite P1 by lia. apply P2. exact Hle.
      + intros Hw. destruct (Nat.le_gt_cases (calls sa) k) as [Le|Gt].
        * unfold bind. rewrite (P1 Le). apply F2. lia.
        * destruct F1 as (s1 & X & Y); [lia|]. exists s1. unfold bind. rewrite X. split; [reflexivity|exact Y].
    - inversion H; subst. destruct (Hm _ _ _ Em) as (L1 & P1 & F1). split; [exact L1|]. split.
      + intros Hle. unfold bind. rewrite (P1 Hle). reflexivity.
      + intros Hw. destruct (F1 Hw) as (s1 & X & Y). exists s1. unfold bind. rewrite X. split; [reflexivity|exact Y].
    - inversion H; subst. destruct (Hm _ _ _ Em) as (L1 & P1 & F1). split; [exact L1|]. split.
      + intros Hle. unfold bind. rewrite (P1 Hle). reflexivity.
      + intros Hw. destruct (F1 Hw) as (s1 & X & Y). exists s1. unfold bind. rewrite X. split; [reflexivity|exact Y].
  Qed.

  Lemma sim_dep : sim (dep E0) (dep E1).
  Proof.
    intros s r0 s0 H. unfold dep in *. cbv zeta in *.
    assert (C : calls s0 = S (calls s)) by (destruct (plan E0 (calls s)); inversion H; reflexivity).
    split; [lia|]. split.
    - intros Hle. rewrite Hbelow by lia. exact H.
    - intros Hw. assert (X : calls s = k) by lia. rewrite X, Hk. eexists. split; [reflexivity|]. reflexivity.
  Qed.

  Hint Resolve quiet_ret quiet_fail quiet_panic quiet_guard quiet_get quiet_lift_opt quiet_opt_or_panic
       quiet_retrieve quiet_write_kv quiet_upd_acct quiet_get_acct quiet_alloc quiet_arg quiet_args_from
       quiet_val_of quiet_meta_of sim_dep : sim.
  Hint Extern 3 (sim _ _) => apply sim_quiet : sim.

  Ltac sim_norm := rewrite ?Hcdc, ?Hshard, ?Hself, ?Hpay, ?Hdns, ?Hen, ?Hgas.
  Ltac sim_step :=
    lazymatch goal with
    | |- sim (bind _ _) (bind _ _) => apply sim_bind; [|intros ?; cbv beta]
    | |- sim (if ?b then _ else _) (if ?b then _ else _) => destruct b
    | |- sim (match ?x with _ => _ end) (match ?x with _ => _ end) => destruct x
    | |- _ => solve [auto with sim]
    end.
  Ltac sim_tac := sim_norm; cbv beta zeta; repeat sim_step.

  (* ---- Env.v ---- *)
  Lemma sim_save_kv a k' v : sim (save_kv E0 a k' v) (save_kv E1 a k' v).
  Proof. unfold save_kv. sim_tac. Qed.
  Lemma sim_load_account a : sim (load_account E0 a) (load_account E1 a).
  Proof. exact sim_dep. Qed.
  Lemma sim_save_account a : sim (save_account E0 a) (save_account E1 a).
  Proof. exact sim_dep. Qed.
  Lemma sim_marshal_tok t : sim (marshal_tok E0 t) (marshal_tok E1 t).
  Proof. unfold marshal_tok. sim_tac. Qed.
  Lemma sim_unmarshal_tok b : sim (unmarshal_tok E0 b) (unmarshal_tok E1 b).
  Proof. unfold unmarshal_tok. sim_tac. Qed.
  Lemma sim_marshal_rol r : sim (marshal_rol E0 r) (marshal_rol E1 r).
  Proof. unfold marshal_rol. sim_tac. Qed.
  Lemma sim_unmarshal_rol b : sim (unmarshal_rol E0 b) (unmarshal_rol E1 b).
  Proof. unfold unmarshal_rol. sim_tac. Qed.
  Lemma sim_is_payable a : sim (is_payable E0 a) (is_payable E1 a).
  Proof. unfold is_payable. sim_tac. Qed.
  Hint Resolve sim_save_kv sim_load_account sim_save_account sim_marshal_tok sim_unmarshal_tok
       sim_marshal_rol sim_unmarshal_rol sim_is_payable : sim.

  Lemma sim_check_basic i : sim (check_basic i) (check_basic i).
  Proof. unfold check_basic. sim_tac. Qed.
  Lemma sim_get_esdt_data a key : sim (get_esdt_data E0 a key) (get_esdt_data E1 a key).
  Proof. unfold get_esdt_data. sim_tac. Qed.
  Lemma sim_is_paused key : sim (is_paused key) (is_paused key).
  Proof. unfold is_paused. sim_tac. Qed.
  Hint Resolve sim_check_basic sim_get_esdt_data sim_is_paused : sim.
  Lemma sim_check_froze_and_pause addr key t rae :
    sim (check_froze_and_pause addr key t rae) (check_froze_and_pause addr key t rae).
  Proof. unfold check_froze_and_pause. sim_tac. Qed.
  Lemma sim_save_esdt_data a t key : sim (save_esdt_data E0 a t key) (save_esdt_data E1 a t key).
  Proof. unfold save_esdt_data. sim_tac. Qed.
  Hint Resolve sim_check_froze_and_pause sim_save_esdt_data : sim.
  Lemma sim_add_to_esdt_balance a key delta rae :
    sim (add_to_esdt_balance E0 a key delta rae) (add_to_esdt_balance E1 a key delta rae).
  Proof. unfold add_to_esdt_balance. sim_tac. Qed.
  Lemma sim_get_nft_on_destination a key nonce :
    sim (get_nft_on_destination E0 a key nonce) (get_nft_on_destination E1 a key nonce).
  Proof. unfold get_nft_on_destination. sim_tac. Qed.
  Hint Resolve sim_add_to_esdt_balance sim_get_nft_on_destination : sim.
  Lemma sim_get_nft_on_sender a key nonce : sim (get_nft_on_sender E0 a key nonce) (get_nft_on_sender E1 a key nonce).
  Proof. unfold get_nft_on_sender. sim_tac. Qed.
  Lemma sim_save_nft a key t rae : sim (save_nft E0 a key t rae) (save_nft E1 a key t rae).
  Proof. unfold save_nft. sim_tac. Qed.
  Lemma sim_get_latest_nonce a tok : sim (get_latest_nonce a tok) (get_latest_nonce a tok).
  Proof. unfold get_latest_nonce. sim_tac. Qed.
  Lemma sim_save_latest_nonce a tok n : sim (save_latest_nonce E0 a tok n) (save_latest_nonce E1 a tok n).
  Proof. unfold save_latest_nonce. sim_tac. Qed.
  Lemma sim_get_roles a key : sim (get_roles E0 a key) (get_roles E1 a key).
  Proof. unfold get_roles. sim_tac. Qed.
  Hint Resolve sim_get_nft_on_sender sim_save_nft sim_get_latest_nonce sim_save_latest_nonce sim_get_roles : sim.
  Lemma sim_check_allowed snd a tok role : sim (check_allowed E0 snd a tok role) (check_allowed E1 snd a tok role).
  Proof. unfold check_allowed. sim_tac. Qed.
  Lemma sim_save_roles a key r : sim (save_roles E0 a key r) (save_roles E1 a key r).
  Proof. unfold save_roles. sim_tac. Qed.
  Hint Resolve sim_check_allowed sim_save_roles : sim.

  (* ---- Funcs.v ---- *)
  Lemma sim_check_local_action i cost : sim (check_local_action i cost) (check_local_action i cost).
  Proof. unfold check_local_action. sim_tac. Qed.
  Lemma sim_check_create_burn_add i cost : sim (check_create_burn_add i cost) (check_create_burn_add i cost).
  Proof. unfold check_create_burn_add. sim_tac. Qed.
  Lemma sim_check_system_one_arg i : sim (check_system_one_arg i) (check_system_one_arg i).
  Proof. unfold check_system_one_arg. sim_tac. Qed.
  Lemma sim_delete_create_role a key : sim (delete_create_role E0 a key) (delete_create_role E1 a key).
  Proof. unfold delete_create_role. sim_tac. Qed.
  Lemma sim_add_create_role a key : sim (add_create_role E0 a key) (add_create_role E1 a key).
  Proof. unfold add_create_role. sim_tac. Qed.
  Hint Resolve sim_check_local_action sim_check_create_burn_add sim_check_system_one_arg
       sim_delete_create_role sim_add_create_role : sim.

  Lemma sim_f_local_mint i : sim (f_local_mint E0 i) (f_local_mint E1 i).
  Proof. unfold f_local_mint. sim_tac. Qed.
  Lemma sim_f_local_burn i : sim (f_local_burn E0 i) (f_local_burn E1 i).
  Proof. unfold f_local_burn. sim_tac. Qed.
  Lemma sim_f_esdt_burn i : sim (f_esdt_burn E0 i) (f_esdt_burn E1 i).
  Proof. unfold f_esdt_burn. sim_tac. Qed.
  Lemma sim_f_nft_create i : sim (f_nft_create E0 i) (f_nft_create E1 i).
  Proof. unfold f_nft_create. sim_tac. Qed.
  Lemma sim_f_nft_add_quantity i : sim (f_nft_add_quantity E0 i) (f_nft_add_quantity E1 i).
  Proof. unfold f_nft_add_quantity. sim_tac. Qed.
  Lemma sim_f_nft_burn i : sim (f_nft_burn E0 i) (f_nft_burn E1 i).
  Proof. unfold f_nft_burn. sim_tac. Qed.
  Lemma sim_f_nft_add_uri i : sim (f_nft_add_uri E0 i) (f_nft_add_uri E1 i).
  Proof. unfold f_nft_add_uri. sim_tac. Qed.
  Lemma sim_f_nft_update_attributes i : sim (f_nft_update_attributes E0 i) (f_nft_update_attributes E1 i).
  Proof. unfold f_nft_update_attributes. sim_tac. Qed.
  Lemma sim_f_freeze_wipe fr wi i : sim (f_freeze_wipe E0 fr wi i) (f_freeze_wipe E1 fr wi i).
  Proof. unfold f_freeze_wipe. sim_tac. Qed.
  Lemma sim_f_pause p i : sim (f_pause E0 p i) (f_pause E1 p i).
  Proof. unfold f_pause. sim_tac. Qed.
  Lemma sim_f_roles set i : sim (f_roles E0 set i) (f_roles E1 set i).
  Proof. unfold f_roles. sim_tac. Qed.
  Lemma sim_f_create_role_transfer i : sim (f_create_role_transfer E0 i) (f_create_role_transfer E1 i).
  Proof. unfold f_create_role_transfer. sim_tac. Qed.
  Lemma sim_f_change_owner i : sim (f_change_owner E0 i) (f_change_owner E1 i).
  Proof. unfold f_change_owner. sim_tac. Qed.
  Lemma sim_f_claim_rewards i : sim (f_claim_rewards E0 i) (f_claim_rewards E1 i).
  Proof. unfold f_claim_rewards. sim_tac. Qed.
  Lemma sim_f_set_user_name i : sim (f_set_user_name E0 i) (f_set_user_name E1 i).
  Proof. unfold f_set_user_name. sim_tac. Qed.

  Lemma sim_skv_loop a g pairs :
    (forall use, sim (skv_loop E0 a g pairs use) (skv_loop E1 a g pairs use)) /\
    (forall x use, sim (skv_loop E0 a g (x :: pairs) use) (skv_loop E1 a g (x :: pairs) use)).
  Proof.
    induction pairs as [|y rest [IH1 IH2]].
    - split; intros; cbn [skv_loop]; sim_tac.
    - split; [intros use; apply IH2|].
      intros x use. cbn [skv_loop]. sim_tac; try apply IH1.
  Qed.
  Lemma sim_skv a g pairs use : sim (skv_loop E0 a g pairs use) (skv_loop E1 a g pairs use).
  Proof. apply sim_skv_loop. Qed.
  Hint Resolve sim_skv : sim.
  Lemma sim_f_save_key_value i : sim (f_save_key_value E0 i) (f_save_key_value E1 i).
  Proof. unfold f_save_key_value. sim_tac. Qed.

  (* ---- Transfers.v ---- *)
  Lemma sim_check_payable v a : sim (check_payable E0 v a) (check_payable E1 v a).
  Proof. unfold check_payable. sim_tac. Qed.
  Hint Resolve sim_check_payable : sim.
  Lemma sim_f_esdt_transfer i : sim (f_esdt_transfer E0 i) (f_esdt_transfer E1 i).
  Proof. unfold f_esdt_transfer. sim_tac. Qed.
  Lemma sim_add_nft_to_destination dst key t v rae :
    sim (add_nft_to_destination E0 dst key t v rae) (add_nft_to_destination E1 dst key t v rae).
  Proof. unfold add_nft_to_destination. sim_tac. Qed.
  Hint Resolve sim_add_nft_to_destination : sim.
  Lemma sim_f_nft_transfer_sender i : sim (f_nft_transfer_sender E0 i) (f_nft_transfer_sender E1 i).
  Proof. unfold f_nft_transfer_sender. sim_tac. Qed.
  Hint Resolve sim_f_nft_transfer_sender : sim.
  Lemma sim_f_nft_transfer i : sim (f_nft_transfer E0 i) (f_nft_transfer E1 i).
  Proof. unfold f_nft_transfer. sim_tac. Qed.
  Lemma sim_transfer_one_sender sp c dl dst tok nonce q v rae :
    sim (transfer_one_sender E0 sp c dl dst tok nonce q v rae) (transfer_one_sender E1 sp c dl dst tok nonce q v rae).
  Proof. unfold transfer_one_sender. sim_tac. Qed.
  Hint Resolve sim_transfer_one_sender : sim.
  Lemma sim_multi_sender_loop fuel i dl dst v : forall idx acc logs,
    sim (multi_sender_loop E0 fuel i dl dst v idx acc logs) (multi_sender_loop E1 fuel i dl dst v idx acc logs).
  Proof.
    induction fuel as [|f IH]; intros; cbn [multi_sender_loop]; sim_tac; try apply IH.
  Qed.
  Lemma sim_multi_out_args l : forall o acc, sim (multi_out_args E0 l o acc) (multi_out_args E1 l o acc).
  Proof.
    induction l as [|[tok t] r IH]; intros; cbn [multi_out_args]; sim_tac; try apply IH.
  Qed.
  Lemma sim_multi_dest_loop fuel i minArgs : forall idx logs,
    sim (multi_dest_loop E0 fuel i minArgs idx logs) (multi_dest_loop E1 fuel i minArgs idx logs).
  Proof.
    induction fuel as [|f IH]; intros; cbn [multi_dest_loop]; sim_tac; try apply IH.
  Qed.
  Hint Resolve sim_multi_sender_loop sim_multi_out_args sim_multi_dest_loop : sim.
  Lemma sim_f_multi_transfer_sender i : sim (f_multi_transfer_sender E0 i) (f_multi_transfer_sender E1 i).
  Proof. unfold f_multi_transfer_sender. sim_tac. Qed.
  Hint Resolve sim_f_multi_transfer_sender : sim.
  Lemma sim_f_multi_transfer i : sim (f_multi_transfer E0 i) (f_multi_transfer E1 i).
  Proof. unfold f_multi_transfer. sim_tac. Qed.

  Hint Resolve sim_f_local_mint sim_f_local_burn sim_f_esdt_burn sim_f_nft_create sim_f_nft_add_quantity
       sim_f_nft_burn sim_f_nft_add_uri sim_f_nft_update_attributes sim_f_freeze_wipe sim_f_pause
       sim_f_roles sim_f_create_role_transfer sim_f_change_owner sim_f_claim_rewards sim_f_set_user_name
       sim_f_save_key_value sim_f_esdt_transfer sim_f_nft_transfer sim_f_multi_transfer : sim.

  Theorem sim_exec f i : sim (exec E0 f i) (exec E1 f i).
  Proof. unfold exec. sim_tac. Qed.
End Sim.

(* ---- the statements, for environments that differ only in the plan ---- *)

(* determinism up to the first differing plan index: a run that made no dependency call with index
   >= k is unaffected by what the plan says from k on *)
Theorem prefix_deterministic : forall E0 E1 k f i s r s',
  same_but_plan E0 E1 -> (forall n, n < k -> plan E1 n = plan E0 n) -> plan E1 k = true ->
  exec E0 f i s = (r, s') -> calls s' <= k -> exec E1 f i s = (r, s').
Proof.
  intros E0 E1 k f i s r s' (H1 & H2 & H3 & H4 & H5 & H6 & H7) Hb Hk H Hle.
  exact (proj1 (proj2 (sim_exec E0 E1 k H1 H2 H3 H4 H5 H6 H7 Hb Hk f i s r s' H)) Hle).
Qed.

(* THE fault statement: if the reference run (plan of E0) makes the dependency call number k —
   whatever its outcome — then the run whose plan agrees below k and makes call k fail returns
   the injected error immediately after call k *)
Theorem fault_reached_err : forall E0 E1 k f i s r s',
  same_but_plan E0 E1 -> (forall n, n < k -> plan E1 n = plan E0 n) -> plan E1 k = true ->
  exec E0 f i s = (r, s') -> calls s <= k < calls s' ->
  exists s1, exec E1 f i s = (Err EFault, s1) /\ calls s1 = S k.
Proof.
  intros E0 E1 k f i s r s' (H1 & H2 & H3 & H4 & H5 & H6 & H7) Hb Hk H Hw.
  exact (proj2 (proj2 (sim_exec E0 E1 k H1 H2 H3 H4 H5 H6 H7 Hb Hk f i s r s' H)) Hw).
Qed.

(* the harness experiment as a theorem: a successful fault-free call that makes D = calls s' - calls s
   dependency calls; for EVERY k < D the same call with "fail the k-th call" is an error *)
Theorem single_fault_err : forall E0 k f i s o s',
  no_faults E0 -> exec E0 f i s = (Ok o, s') -> calls s <= k < calls s' ->
  exists s1, exec (with_plan E0 (fun n => Nat.eqb n k)) f i s = (Err EFault, s1) /\ calls s1 = S k.
Proof.
  intros E0 k f i s o s' NF H Hw.
  apply (fault_reached_err E0 (with_plan E0 (fun n => Nat.eqb n k)) k f i s (Ok o) s').
  - apply same_but_plan_with_plan.
  - intros n Hn. cbn [plan with_plan]. rewrite NF. apply Nat.eqb_neq. lia.
  - cbn [plan with_plan]. apply Nat.eqb_refl.
  - exact H.
  - exact Hw.
Qed.

Corollary single_fault_not_ok : forall E0 k f i s o s',
  no_faults E0 -> exec E0 f i s = (Ok o, s') -> calls s <= k < calls s' ->
  forall o1 s1, exec (with_plan E0 (fun n => Nat.eqb n k)) f i s <> (Ok o1, s1).
Proof.
  intros E0 k f i s o s' NF H Hw o1 s1 X.
  destruct (single_fault_err E0 k f i s o s' NF H Hw) as (s2 & Y & _). rewrite Y in X. discriminate.
Qed.

(* and faults planned at indices the call never reaches change nothing *)
Corollary unreached_fault_harmless : forall E0 k f i s r s',
  no_faults E0 -> exec E0 f i s = (r, s') -> calls s' <= k ->
  exec (with_plan E0 (fun n => Nat.eqb n k)) f i s = (r, s').
Proof.
  intros E0 k f i s r s' NF H Hle.
  apply (prefix_deterministic E0 (with_plan E0 (fun n => Nat.eqb n k)) k f i s r s').
  - apply same_but_plan_with_plan.
  - intros n Hn. cbn [plan with_plan]. rewrite NF. apply Nat.eqb_neq. lia.
  - cbn [plan with_plan]. apply Nat.eqb_refl.
  - exact H.
  - exact Hle.
Qed.
