(* C13 — representation independence, part 1: the relation and the rules.

   The model keeps an account's storage as a LOG ([sput] conses, [sget] finds the first match) and the
   accounts of a shard in an association list ([aput]: in place, or appended); the real code has maps.
   Every ledger theorem is stated through the observations [sget] / [acct].  This development proves that
   the execution itself depends on the state only through these observations.

   [state_equiv s u]   every address holds accounts with extensionally equal storage (through [sget]) and
                       equal balance / owner / user name / developer reward (= [same_world] of Defs.v).
   [SE s u]            [state_equiv] and the same dependency-call counter (the fault plan is indexed by it).
   [resp m]            the computation [m] respects [SE]: from SE-related states it returns THE SAME result
                       (Ok with the same value / the same error / panic), SE-related post-states, and it
                       requests the same number of elements from make().
   Rules: ret / fail / panic / guard / bind / if / match; leaves: the primitives of Env.v.  [get_acct] hands
   the account OBJECT (with its log) to the continuation: [resp_get_acct_bind] asks that the continuation
   reads only the four fields.  One tactic ([resp_tac], Repr_Exec.v) proves [resp] for all 23 functions. *)
From EV Require Import Base.Bytes Base.Store Base.Monad gen.Consts Codec.Types Helpers.Helpers
  Ledger.Types Ledger.Env LedgerProofs.Defs.

Definition state_equiv (s u : mstate) : Prop := forall a, acct_eq (acct s a) (acct u a).
Definition SE (s u : mstate) : Prop := state_equiv s u /\ calls s = calls u.

Lemma state_equiv_same_world s u : state_equiv s u <-> same_world s u.
Proof. split; intros H; exact H. Qed.

Lemma acct_eq_refl x : acct_eq x x.
Proof. split; [reflexivity|apply acct_fields_eq_refl]. Qed.
Lemma acct_eq_sym x y : acct_eq x y -> acct_eq y x.
Proof. intros [H (A & B & C & D)]. split; [intros k; symmetry; apply H|repeat split; symmetry; assumption]. Qed.
Lemma acct_eq_trans x y z : acct_eq x y -> acct_eq y z -> acct_eq x z.
Proof.
  intros [H1 F1] [H2 F2]. split; [intros k; rewrite H1; apply H2|eapply acct_fields_eq_trans; eauto].
Qed.
Lemma state_equiv_refl s : state_equiv s s.
Proof. intros a. apply acct_eq_refl. Qed.
Lemma state_equiv_sym s u : state_equiv s u -> state_equiv u s.
Proof. intros H a. apply acct_eq_sym, H. Qed.
Lemma state_equiv_trans s u w : state_equiv s u -> state_equiv u w -> state_equiv s w.
Proof. intros H1 H2 a. eapply acct_eq_trans; [apply H1|apply H2]. Qed.
Lemma SE_refl s : SE s s.
Proof. split; [apply state_equiv_refl|reflexivity]. Qed.
Lemma SE_sym s u : SE s u -> SE u s.
Proof. intros [H1 H2]. split; [apply state_equiv_sym; exact H1|symmetry; exact H2]. Qed.
Lemma SE_trans s u w : SE s u -> SE u w -> SE s w.
Proof. intros [H1 C1] [H2 C2]. split; [eapply state_equiv_trans; eauto|congruence]. Qed.

(* equivalent states agree on every observable of Defs.v *)
Lemma state_equiv_cell s u a k : state_equiv s u -> cell s a k = cell u a k.
Proof. intros H. unfold cell. apply (proj1 (H a)). Qed.
Lemma state_equiv_observables E s u : state_equiv s u ->
  (forall a k, cell s a k = cell u a k)
  /\ (forall a k, tok_at E s a k = tok_at E u a k)
  /\ (forall a k, balance E s a k = balance E u a k)
  /\ (forall a k, frozen_at E s a k = frozen_at E u a k)
  /\ (forall k, paused_at s k = paused_at u k)
  /\ (forall a tok, roles_at E s a tok = roles_at E u a tok)
  /\ (forall a tok role, has_role E s a tok role = has_role E u a tok role)
  /\ (forall a tok, counter_at s a tok = counter_at u a tok)
  /\ (forall a, acct_fields_eq (acct s a) (acct u a)).
Proof.
  intros H. assert (C : forall a k, cell s a k = cell u a k) by (intros; apply state_equiv_cell; exact H).
  split; [exact C|].
  split; [intros a k; unfold tok_at; rewrite C; reflexivity|].
  split; [intros a k; unfold balance; rewrite C; reflexivity|].
  split; [intros a k; unfold frozen_at, tok_at; rewrite C; reflexivity|].
  split; [intros k; unfold paused_at; rewrite C; reflexivity|].
  split; [intros a tok; unfold roles_at; rewrite C; reflexivity|].
  split; [intros a tok role; unfold has_role, roles_at; rewrite C; reflexivity|].
  split; [intros a tok; unfold counter_at; rewrite C; reflexivity|].
  intros a. apply (proj2 (H a)).
Qed.

(* ---------------- the judgement ---------------- *)
Definition rrel {A} (s u : mstate) (r r' : res err A * mstate) : Prop :=
  fst r = fst r' /\ SE (snd r) (snd r')
  /\ exists d : N, allocs (snd r) = (allocs s + d)%N /\ allocs (snd r') = (allocs u + d)%N.
Definition resp {A} (m : MT A) : Prop := forall s u, SE s u -> rrel s u (m s) (m u).

Section Rules.
  Notation MT := (@M err mstate).

  (* a computation that does not touch the state *)
  Lemma resp_const {A} (m : MT A) (r : res err A) : (forall s, m s = (r, s)) -> resp m.
  Proof.
    intros Hm s u Hs. rewrite !Hm. split; [reflexivity|]. split; [exact Hs|].
    exists 0%N. cbn [snd]. split; lia.
  Qed.
  Lemma resp_ret {A} (a : A) : resp (ret a : MT A).
  Proof. apply (resp_const _ (Ok a)). reflexivity. Qed.
  Lemma resp_fail {A} e : resp (fail e : MT A).
  Proof. apply (resp_const _ (Err e)). reflexivity. Qed.
  Lemma resp_panic {A} : resp (panic : MT A).
  Proof. apply (resp_const _ Panic). reflexivity. Qed.
  Lemma resp_guard b e : resp (guard b e : MT unit).
  Proof. destruct b; [apply resp_ret|apply resp_fail]. Qed.
  Lemma resp_lift_opt {A} (o : option A) e : resp (lift_opt o e : MT A).
  Proof. destruct o; [apply resp_ret|apply resp_fail]. Qed.
  Lemma resp_opt_or_panic {A} (o : option A) : resp (opt_or_panic o : MT A).
  Proof. destruct o; [apply resp_ret|apply resp_panic]. Qed.

  Lemma resp_bind {A B} (m : MT A) (f : A -> MT B) :
    resp m -> (forall x, resp (f x)) -> resp (bind m f).
  Proof.
    intros Hm Hf s u Hs. destruct (Hm s u Hs) as (Hr & Hs1 & d1 & D1 & D1'). unfold bind.
    destruct (m s) as [r s1]. destruct (m u) as [r' u1]. cbn [fst snd] in *. subst r'.
    destruct r as [x|e|].
    - destruct (Hf x s1 u1 Hs1) as (Hr2 & Hs2 & d2 & D2 & D2').
      split; [exact Hr2|]. split; [exact Hs2|]. exists (d1 + d2)%N. split; lia.
    - split; [reflexivity|]. split; [exact Hs1|]. exists d1. split; assumption.
    - split; [reflexivity|]. split; [exact Hs1|]. exists d1. split; assumption.
  Qed.

  (* ---------------- primitives ---------------- *)
  Variable E : env.

  Lemma resp_dep : resp (dep E).
  Proof.
    intros s u [Hs Hc]. unfold dep. cbv zeta. rewrite <- Hc.
    assert (X : SE {| accts := accts s; calls := S (calls s); allocs := allocs s |}
                   {| accts := accts u; calls := S (calls s); allocs := allocs u |})
      by (split; [exact Hs|reflexivity]).
    destruct (plan E (calls s)); (split; [reflexivity|]; split; [exact X|]; exists 0%N; cbn [snd allocs]; split; lia).
  Qed.
  Lemma resp_retrieve a k : resp (retrieve a k).
  Proof.
    intros s u Hs. unfold retrieve. split; [cbn [fst]; f_equal; apply (proj1 (proj1 Hs a))|].
    split; [exact Hs|]. exists 0%N. cbn [snd]. split; lia.
  Qed.
  Lemma acct_with_aput s a x b : acct (with_accts s (aput (accts s) a x)) b = if beqb b a then x else acct s b.
  Proof. unfold acct, with_accts. cbn [accts]. apply aget_aput. Qed.
  Lemma acct_eq_set_store x y k v : acct_eq x y ->
    acct_eq (set_store x (sput (a_store x) k v)) (set_store y (sput (a_store y) k v)).
  Proof.
    intros [H F]. split; [|exact F]. intros k'. cbn [set_store a_store]. rewrite !sget_put, H. reflexivity.
  Qed.
  (* one write: consing onto the log, and [aput] in place or appended, preserve the equivalence *)
  Lemma resp_write_kv a k v : resp (write_kv a k v).
  Proof.
    intros s u [Hs Hc]. unfold write_kv. split; [reflexivity|]. cbn [snd]. split.
    - split; [|exact Hc]. intros b. rewrite !acct_with_aput.
      destruct (beqb b a); [apply acct_eq_set_store|]; apply Hs.
    - exists 0%N. cbn [with_accts allocs]. split; lia.
  Qed.
  Lemma resp_upd_acct a (f : account -> account) :
    (forall x y, acct_eq x y -> acct_eq (f x) (f y)) -> resp (upd_acct a f).
  Proof.
    intros Hf s u [Hs Hc]. unfold upd_acct. split; [reflexivity|]. cbn [snd]. split.
    - split; [|exact Hc]. intros b. rewrite !acct_with_aput. destruct (beqb b a); [apply Hf|]; apply Hs.
    - exists 0%N. cbn [with_accts allocs]. split; lia.
  Qed.
  (* the account object reaches the continuation: it may read the fields only *)
  Lemma resp_get_acct_bind {B} a (f : account -> MT B) :
    (forall d d', acct_eq d d' -> forall s, f d s = f d' s) -> (forall d, resp (f d)) -> resp (bind (get_acct a) f).
  Proof.
    intros Hext Hf s u Hs. unfold bind, get_acct.
    rewrite <- (Hext (acct s a) (acct u a) (proj1 Hs a) u). apply Hf. exact Hs.
  Qed.
  Lemma resp_alloc n : resp (alloc n).
  Proof.
    intros s u [Hs Hc]. unfold alloc. destruct (1099511627776 <? n)%N.
    - split; [reflexivity|]. split; [split; assumption|]. exists 0%N. cbn [snd]. split; lia.
    - split; [reflexivity|]. split; [split; [exact Hs|exact Hc]|]. exists n. cbn [snd allocs]. split; reflexivity.
  Qed.
  Lemma resp_arg args n : resp (arg args n).
  Proof. unfold arg. destruct (n <? alen args)%N; [apply resp_opt_or_panic|apply resp_panic]. Qed.
  Lemma resp_args_from args n : resp (args_from args n).
  Proof. unfold args_from. destruct (n <=? alen args)%N; [apply resp_ret|apply resp_panic]. Qed.
  Lemma resp_val_of t : resp (val_of t). Proof. apply resp_opt_or_panic. Qed.
  Lemma resp_meta_of t : resp (meta_of t). Proof. apply resp_opt_or_panic. Qed.
End Rules.

(* what [resp] says about one run, in the shape of the property statement *)
Lemma resp_run {A} (m : MT A) s u : resp m -> state_equiv s u -> calls s = calls u ->
  fst (m s) = fst (m u) /\ state_equiv (snd (m s)) (snd (m u)) /\ calls (snd (m s)) = calls (snd (m u))
  /\ (allocs (snd (m s)) - allocs s = allocs (snd (m u)) - allocs u)%N
  /\ (allocs s <= allocs (snd (m s)))%N /\ (allocs u <= allocs (snd (m u)))%N.
Proof.
  intros Hm Hs Hc. destruct (Hm s u (conj Hs Hc)) as (Hr & [Hs' Hc'] & d & D & D').
  split; [exact Hr|]. split; [exact Hs'|]. split; [exact Hc'|]. rewrite D, D'. repeat split; lia.
Qed.
