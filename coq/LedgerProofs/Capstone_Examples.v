(* Capstone, part 5: non-vacuity.  A two-shard world under ideal_codec (codec_ok, flag_undec), starting from the EMPTY
   world, and a mixed honest history of 31 operations: the system contract issues 100 TOK to alice and sets roles, alice
   mints, creates NFT#1 (4 units), sends TOK and NFT#1 across shards (messages, deliveries), sends TOK to a non-payable
   contract (delivery REJECTED, refund), the system contract pauses TOK on BOTH shards (the broadcast: on shard 1 the
   system account does not "live" there), two transfers rejected because of the pause, unpause on both shards, local
   burn, NFT burn, a cross-shard multi-transfer, the hand-over of the create role to bob on the other shard (message,
   delivery), bob creates NFT#2, alice's create is refused, ESDTBurn, a delivery and a refund of unknown / consumed ids
   (skipped), a user's ESDTSetRole (refused), SaveKeyValue.  [honest_ops7] is decided ALONG the run by the boolean
   checker (vm_compute); all five capstone theorems are instantiated; both sides of the accounting equation, the
   statuses of all executions and the issued nonces are computed. *)
From Coq.Strings Require Import String.
From Coq Require Import Lia List Sorted.
From EV Require Import Base.Bytes Base.Store Base.Monad gen.Consts Codec.Types Codec.Proto Codec.Ideal Codec.CodecOk
  Helpers.Helpers Ledger.Types Ledger.Env Ledger.Funcs Ledger.Transfers Ledger.World Corr.Exec
  LedgerProofs.Defs LedgerProofs.EnvSpec LedgerProofs.WorldDefs LedgerProofs.WorldSpec
  LedgerProofs.Spec_Transfers_Base LedgerProofs.Spec_Supply
  LedgerProofs.C01_World LedgerProofs.C02_Effects LedgerProofs.C07_Exec LedgerProofs.C07_World LedgerProofs.C07_Histories
  LedgerProofs.C15_Inv LedgerProofs.C15_World LedgerProofs.C15_Examples
  LedgerProofs.NoPanicWorldEmit LedgerProofs.NoPanicWorld
  LedgerProofs.Supply_Base LedgerProofs.Supply_Calls LedgerProofs.Supply_Step
  LedgerProofs.Capstone_Defs LedgerProofs.Capstone_Step LedgerProofs.Capstone_Histories LedgerProofs.Capstone_Check.
Import ListNotations.

Definition k_alice : bytes := repeat x01 32.                      (* shard 0 *)
Definition k_bob : bytes := repeat x02 32.                        (* shard 1 *)
Definition k_carol : bytes := repeat x03 32.                      (* shard 0 *)
Definition k_dave : bytes := repeat x00 24 ++ repeat x04 8.       (* shard 1, a contract address, not payable *)
Definition k_tok : bytes := str "TOK-a1b2c3"%string.
Definition k_nft : bytes := str "NFT-d4e5f6"%string.
(* the system contract lives on the metachain; the system account's address maps to shard 0 *)
Definition kc : wcfg :=
  {| wc_cdc := ideal_codec;
     wc_shard_of := fun a => if (beqb a k_bob || beqb a k_dave)%bool then 1%N else if beqb a SC then META else 0%N;
     wc_payable := fun a => if beqb a k_dave then PayNo else PayYes;
     wc_dns := []; wc_enable := false; wc_gas := gas_of (repeat 10%N 22); wc_nshards := 2 |}.
Lemma kc_ok : codec_ok (wc_cdc kc). Proof. exact ideal_codec_ok. Qed.
Lemma kc_flag : flag_undec (wc_cdc kc). Proof. exact flag_undec_ideal. Qed.

Definition k_in (caller rcpt : bytes) (args : list bytes) (snd dst : bool) : input :=
  {| i_caller := caller; i_rcpt := rcpt; i_args := args; i_value := 0; i_gas := 100000000; i_gasLocked := 0;
     i_callType := C.DirectCall; i_rae := false; i_snd := snd; i_dst := dst |}.
Definition k_num (n : N) : bytes := u64_bytes n.
Definition k_gas : N := 100000000.
Definition kw0 : world := C15_World.empty_world 2.
Definition k_create (sh : N) (a : bytes) (q : N) : wop :=
  OCall sh FCreate
    (k_in a a [k_nft; k_num q; str "name"%string; k_num 5; str "hash"%string; str "attr"%string; str "uri"%string] true true).

Definition k_history : list wop :=
  [ (* 0 *) OCall 0 FEsdt (k_in SC k_alice [k_tok; k_num 100] false true);                       (* issue: +100 TOK *)
    (* 1 *) OCall 0 FSetRole (k_in SC k_alice [k_tok; C.ESDTRoleLocalMint; C.ESDTRoleLocalBurn] false true);
    (* 2 *) OCall 0 C.BuiltInFunctionESDTLocalMint (k_in k_alice k_alice [k_tok; k_num 10] true true);   (* +10 *)
    (* 3 *) OCall 0 FSetRole
              (k_in SC k_alice [k_nft; C.ESDTRoleNFTCreate; C.ESDTRoleNFTAddQuantity; C.ESDTRoleNFTBurn] false true);
    (* 4 *) k_create 0 k_alice 4;                                                                 (* NFT#1: +4 *)
    (* 5 *) OCall 0 FEsdt (k_in k_alice k_bob [k_tok; k_num 30] true false);                      (* message 0 *)
    (* 6 *) ODeliver 0 k_gas;
    (* 7 *) OCall 0 FNft (k_in k_alice k_alice [k_nft; k_num 1; k_num 2; k_bob] true true);       (* message 1 *)
    (* 8 *) ODeliver 1 k_gas;
    (* 9 *) OCall 0 FEsdt (k_in k_alice k_dave [k_tok; k_num 5] true false);                      (* message 2 *)
    (* 10 *) ODeliver 2 k_gas;                                                                    (* REJECTED: not payable *)
    (* 11 *) ORefund 2 k_gas;                                                                     (* alice has her 5 back *)
    (* 12 *) OCall 0 FPause (k_in SC SYS [k_tok] false true);
    (* 13 *) OCall 1 FPause (k_in SC SYS [k_tok] false true);                                     (* the broadcast *)
    (* 14 *) OCall 0 FEsdt (k_in k_alice k_carol [k_tok; k_num 1] true true);                     (* refused: paused *)
    (* 15 *) OCall 1 FEsdt (k_in k_bob k_alice [k_tok; k_num 1] true false);                      (* refused: paused *)
    (* 16 *) OCall 0 FUnPause (k_in SC SYS [k_tok] false true);
    (* 17 *) OCall 1 FUnPause (k_in SC SYS [k_tok] false true);
    (* 18 *) OCall 0 C.BuiltInFunctionESDTLocalBurn (k_in k_alice k_alice [k_tok; k_num 5] true true);   (* -5 *)
    (* 19 *) OCall 0 FNftBurn (k_in k_alice k_alice [k_nft; k_num 1; k_num 1] true true);         (* NFT#1: -1 *)
    (* 20 *) OCall 0 FMulti
               (k_in k_alice k_alice [k_bob; k_num 2; k_nft; k_num 1; k_num 1; k_tok; []; k_num 3] true true);  (* message 3 *)
    (* 21 *) ODeliver 3 k_gas;
    (* 22 *) OCall 0 CRT (k_in SC k_alice [k_nft; k_bob] false true);                             (* hand-over: message 4 *)
    (* 23 *) ODeliver 4 k_gas;
    (* 24 *) k_create 1 k_bob 1;                                                                  (* NFT#2: +1 *)
    (* 25 *) k_create 0 k_alice 1;                                                                (* refused: role gone *)
    (* 26 *) OCall 1 C.BuiltInFunctionESDTBurn (k_in k_bob SC [k_tok; k_num 2] true false);       (* -2 *)
    (* 27 *) ODeliver 77 k_gas;                                                                   (* unknown id: skipped *)
    (* 28 *) ORefund 0 k_gas;                                                                     (* consumed id: skipped *)
    (* 29 *) OCall 0 FSetRole (k_in k_alice k_alice [k_tok; C.ESDTRoleLocalMint] true true);      (* refused: not SC *)
    (* 30 *) OCall 0 C.BuiltInFunctionSaveKeyValue (k_in k_alice k_alice [str "key"%string; str "value"%string] true true) ].

Definition k_kTok : bytes := P ++ k_tok.
Definition k_kN1 : bytes := nft_key (P ++ k_nft) 1.
Definition k_kN2 : bytes := nft_key (P ++ k_nft) 2.
Fixpoint k_deltas (w : world) (ops : list wop) (k : bytes) : list Z :=
  match ops with [] => [] | op :: r => supply_delta kc w op k :: k_deltas (wstep kc w op) r k end.
Definition k_bal (w : world) (sh : N) (a k : bytes) : Z := acct_balance kc k (aget empty_account (shard_accts w sh) a).

(* ---------------- the hypotheses ---------------- *)
(* honesty (both levels) is decided along the run *)
Example capstone_example_checked : honest_ops_b kc kw0 k_history = true /\ honest_ops7_b kc [] kw0 k_history = true.
Proof. vm_compute. split; reflexivity. Qed.
Example capstone_example_honest : honest_ops kc kw0 k_history /\ honest_ops7 kc [] kw0 k_history.
Proof. split; [apply honest_ops_b_ok|apply honest_ops7_b_ok]; apply capstone_example_checked. Qed.
Example capstone_example_start : JInv kc kw0 /\ forall tok, init_ok kc tok kw0.
Proof. split; [apply JInv_empty; vm_compute; discriminate|]. intros tok. apply (init_ok_empty kc tok 2). reflexivity. Qed.

(* ---------------- the five theorems, instantiated ---------------- *)
Example capstone_example_invariant : forall n, JInv kc (wrun kc kw0 (firstn n k_history)).
Proof. intros n. apply (capstone_invariant kc kc_ok kc_flag); [apply capstone_example_start|apply capstone_example_honest]. Qed.
Example capstone_example_no_panic :
  Forall (fun st => st <> Some SPanic) (statuses kc kw0 k_history) /\ Forall step_total (results kc kw0 k_history).
Proof. apply (capstone_no_panic kc kc_ok kc_flag); [apply capstone_example_start|apply capstone_example_honest]. Qed.
Example capstone_example_supply : forall x,
  total kc (P ++ x) (wrun kc kw0 k_history) = (total kc (P ++ x) kw0 + supply_sum kc kw0 k_history (P ++ x))%Z.
Proof.
  intros x. apply (capstone_supply kc kc_ok kc_flag); [apply capstone_example_start|apply capstone_example_honest|apply pkey_P].
Qed.
Example capstone_example_wellformed : forall n sh,
  let s := sstate (wrun kc kw0 (firstn n k_history)) sh in
  Inv (env_at kc sh) s /\ forall a x, (0 <= balance (env_at kc sh) s a (P ++ x))%Z.
Proof.
  intros n sh. apply (capstone_wellformed kc kc_ok kc_flag); [apply capstone_example_start|apply capstone_example_honest].
Qed.
Example capstone_example_nonces_unique : forall tok,
  let L := issued tok (snd (wrun_log kc kw0 k_history)) in NoDup L /\ StronglySorted N.lt L.
Proof.
  intros tok. apply (capstone_nonces_unique kc kc_ok kc_flag);
    [apply capstone_example_start|apply capstone_example_start|apply capstone_example_honest].
Qed.

(* ---------------- what happened, computed ---------------- *)
(* the status of every execution: 10 = the rejected delivery, 11 = its refund, 14/15 = paused, 25 = role gone,
   27/28 = nothing executed, 29 = not the system contract *)
Example capstone_example_statuses :
  statuses kc kw0 k_history =
  [Some SOk; Some SOk; Some SOk; Some SOk; Some SOk; Some SOk; Some SOk; Some SOk; Some SOk; Some SOk;
   Some SErr; Some SOk; Some SOk; Some SOk; Some SErr; Some SErr; Some SOk; Some SOk; Some SOk; Some SOk;
   Some SOk; Some SOk; Some SOk; Some SOk; Some SOk; Some SErr; Some SOk; None; None; Some SErr; Some SOk].
Proof. vm_compute. reflexivity. Qed.
(* the stated supply change of every step, for TOK, NFT#1 and NFT#2 *)
Example capstone_example_deltas :
  k_deltas kw0 k_history k_kTok
    = [100; 0; 10; 0; 0; 0; 0; 0; 0; 0; 0; 0; 0; 0; 0; 0; 0; 0; -5; 0; 0; 0; 0; 0; 0; 0; -2; 0; 0; 0; 0]%Z
  /\ k_deltas kw0 k_history k_kN1
    = [0; 0; 0; 0; 4; 0; 0; 0; 0; 0; 0; 0; 0; 0; 0; 0; 0; 0; 0; -1; 0; 0; 0; 0; 0; 0; 0; 0; 0; 0; 0]%Z
  /\ k_deltas kw0 k_history k_kN2
    = [0; 0; 0; 0; 0; 0; 0; 0; 0; 0; 0; 0; 0; 0; 0; 0; 0; 0; 0; 0; 0; 0; 0; 0; 1; 0; 0; 0; 0; 0; 0]%Z.
Proof. vm_compute. repeat split; reflexivity. Qed.
(* both sides of the accounting equation *)
Example capstone_example_computed :
  total kc k_kTok kw0 = 0%Z
  /\ total kc k_kTok (wrun kc kw0 k_history) = 103%Z /\ supply_sum kc kw0 k_history k_kTok = 103%Z
  /\ total kc k_kN1 (wrun kc kw0 k_history) = 3%Z /\ supply_sum kc kw0 k_history k_kN1 = 3%Z
  /\ total kc k_kN2 (wrun kc kw0 k_history) = 1%Z /\ supply_sum kc kw0 k_history k_kN2 = 1%Z.
Proof. vm_compute. repeat split; reflexivity. Qed.
(* where the tokens are at the end; messages in flight along the way; the nonces issued *)
Example capstone_example_final :
  let w' := wrun kc kw0 k_history in
  inflight w' = [] /\ failed w' = []
  /\ k_bal w' 0 k_alice k_kTok = 72%Z /\ k_bal w' 1 k_bob k_kTok = 31%Z /\ k_bal w' 1 k_dave k_kTok = 0%Z
  /\ k_bal w' 0 k_alice k_kN1 = 0%Z /\ k_bal w' 1 k_bob k_kN1 = 3%Z /\ k_bal w' 1 k_bob k_kN2 = 1%Z
  /\ issued k_nft (snd (wrun_log kc kw0 k_history)) = [1; 2]%N
  /\ map (fun n => length (inflight (wrun kc kw0 (firstn n k_history)))) [6; 7; 10; 11; 12; 21; 23; 24]
     = [1; 0; 1; 1; 0; 1; 1; 0]%nat
  /\ failed (wrun kc kw0 (firstn 11 k_history)) = [2]%nat.
Proof. vm_compute. repeat split; reflexivity. Qed.

(* ---------------- the conflict the capstone resolves ---------------- *)
(* operation 13, the pause executed on shard 1: honest; but it is NOT a [reachable_op] of C15 (the recipient account is
   present although its address maps to shard 0), and with the presence flag cleared -- which C15 and ValidIds accept --
   it is not a [tx_op] of NoPanicWorld.  It is the same step ([wstep_pause_dst]). *)
Example capstone_example_pause_conflict :
  let w := wrun kc kw0 (firstn 13 k_history) in
  let i := k_in SC SYS [k_tok] false true in
  honest_op kc w (OCall 1 FPause i)
  /\ ~ C15_World.reachable_op kc w (OCall 1 FPause i)
  /\ ~ tx_op kc (OCall 1 FPause (clear_dst i))
  /\ C15_World.reachable_op kc w (OCall 1 FPause (clear_dst i))
  /\ wstep kc w (OCall 1 FPause i) = wstep kc w (OCall 1 FPause (clear_dst i)).
Proof.
  cbv zeta. split; [|split; [|split; [|split]]].
  - apply honest_op_b_ok. vm_compute. reflexivity.
  - intros [H _]. specialize (H eq_refl). vm_compute in H. discriminate H.
  - intros [[[H _]|(_ & _ & H & _)] _]; [vm_compute in H|cbn in H]; discriminate H.
  - split; [intros H; discriminate H|]. split; [intros H; discriminate H|]. intros _. split; intros H; discriminate H.
  - apply wstep_pause_dst. left. reflexivity.
Qed.

(* ---------------- honesty is necessary: two operations the checker refuses ---------------- *)
(* a re-delivery (F9), and a transfer naming an identifier that is not of the protocol's shape (F4b) *)
Example capstone_example_refused :
  honest_op_b kc kw0 (ORedeliver 0 k_gas) = false
  /\ honest_op_b kc kw0 (OCall 0 FNft (k_in k_alice k_alice [str "ABC-12345"%string; k_num 1; k_num 1; k_bob] true true)) = false.
Proof. vm_compute. split; reflexivity. Qed.

Print Assumptions capstone_example_invariant.
Print Assumptions capstone_example_no_panic.
Print Assumptions capstone_example_supply.
Print Assumptions capstone_example_nonces_unique.
