(* Honest identifiers, part 6: histories of the world model.  [VInv c w]: every shard state is [ids_valid] and
   every in-flight message names valid identifiers only.  For histories of transfer operations (C01's
   [transfer_op]) whose direct calls name valid identifiers ([op_ids]), from a world satisfying C01's [WInv] and
   [VInv], both invariants are preserved and the F4b hypothesis [op_consistent] of C01 holds at every step
   ([valid_ids_step]); hence conservation of every total WITHOUT [consistent_along]
   ([conservation_histories_valid_ids]). *)
From Coq.Strings Require Import String.
From Coq Require Import Lia.
From EV Require Import Base.Bytes Base.Store Base.Monad gen.Consts Codec.Types Helpers.Helpers
  Parsers.Tokenize Parsers.CallArgs Parsers.Builder Parsers.ParsersProofs
  Ledger.Types Ledger.Env Ledger.Funcs Ledger.Transfers Ledger.World
  LedgerProofs.Defs LedgerProofs.EnvSpec LedgerProofs.WorldDefs LedgerProofs.WorldSpec
  LedgerProofs.Spec_Transfers_Base LedgerProofs.Spec_Transfers_Esdt LedgerProofs.Spec_Transfers_Nft
  LedgerProofs.Spec_Transfers_Multi LedgerProofs.Spec_Transfers
  LedgerProofs.C05_Footprint LedgerProofs.C15_Inv LedgerProofs.C15_World
  LedgerProofs.C01_World LedgerProofs.C01_Step LedgerProofs.C01_Consistent
  LedgerProofs.ValidIds_Id LedgerProofs.ValidIds_Inv LedgerProofs.ValidIds_Funcs LedgerProofs.ValidIds_Transfers
  LedgerProofs.ValidIds_Exec.

Lemma ids_valid_empty E : ids_valid E (mk_state []).
Proof. intros a k H. exfalso. apply H. apply cell_empty_state. Qed.
Lemma ids_valid_mk_state E s : ids_valid E s -> ids_valid E (mk_state (accts s)).
Proof. apply IV_accts. reflexivity. Qed.
Lemma ids_valid_env E E' s : cdc E' = cdc E -> ids_valid E s -> ids_valid E' s.
Proof. intros He Hs a k Hne x t Hk Hd. rewrite He in Hd. exact (Hs a k Hne x t Hk Hd). Qed.

Section World.
  Variable c : wcfg.
  Hypothesis Hc : codec_ok (wc_cdc c).
  Hypothesis Hf : flag_undec (wc_cdc c).
  Notation shof := (wc_shard_of c).

  (* an in-flight message names valid identifiers (it is executed on the destination side) *)
  Definition msg_ids (m : msg) : Prop := args_ids (m_fn m) (m_args m).
  Definition shards_ids (w : world) : Prop := forall sh, ids_valid (env_at c sh) (mk_state (shard_accts w sh)).
  Definition VInv (w : world) : Prop := shards_ids w /\ Forall msg_ids (inflight w).

  (* the identifiers an origin-side transfer call names *)
  Definition origin_ids (fn : bytes) (i : input) : Prop :=
    (fn <> C.BuiltInFunctionMultiESDTNFTTransfer -> valid_id (argn i 0))
    /\ (fn = C.BuiltInFunctionMultiESDTNFTTransfer -> Forall (fun x => valid_id (rt_tok x)) (multi_snd_triples i)).
  Definition op_ids (op : wop) : Prop := match op with OCall _ fn i => origin_ids fn i | _ => True end.

  (* ---------------- what [collect] makes of an [outv] output ---------------- *)
  Lemma msg_of_transfer_ids sh i id dest t m :
    trv (env_at c sh) i dest t -> (i_dst i = true -> shof (i_rcpt i) = sh) ->
    msg_of_transfer c sh i id dest t = Some m -> msg_ids m.
  Proof.
    intros Ht Hd Hm. unfold msg_of_transfer in Hm.
    assert (Hloc : shof dest = sh -> False).
    { intros Hl. destruct (tr_data t) as [|b r]; [discriminate|].
      destruct (parse_call_data (b :: r)) as [[fn args]|]; [|discriminate].
      destruct (negb (is_builtin fn)); [discriminate|]. rewrite Hl, N.eqb_refl in Hm. cbn [andb] in Hm.
      destruct (beqb fn C.BuiltInFunctionESDTNFTCreateRoleTransfer); discriminate. }
    destruct Ht as [Ht|[[Hi ->]|[Ht|(F & A & Ht & HF & Hok)]]].
    - rewrite Ht in Hm. discriminate.
    - exfalso. apply Hloc. apply Hd. exact Hi.
    - exfalso. apply Hloc. exact Ht.
    - rewrite Ht in Hm. pose proof (emit_names_parse F A HF) as Hp.
      destruct (msg_data F A) as [|b r]; [discriminate|]. rewrite Hp in Hm.
      destruct (negb (is_builtin F)); [discriminate|].
      destruct ((shof dest =? sh)%N && negb (beqb F C.BuiltInFunctionESDTNFTCreateRoleTransfer))%bool; [discriminate|].
      destruct (beqb F C.BuiltInFunctionESDTNFTCreateRoleTransfer && (shof dest =? sh)%N)%bool; [discriminate|].
      injection Hm as <-. unfold msg_ids. cbn [m_fn m_args]. exact Hok.
  Qed.
  Lemma collect_transfers_ids sh i dest ts : (i_dst i = true -> shof (i_rcpt i) = sh) ->
    (forall t, In t ts -> trv (env_at c sh) i dest t) ->
    forall id m, In m (collect_transfers c sh i id dest ts) -> msg_ids m.
  Proof.
    intros Hd. induction ts as [|t r IH]; intros Hts id m Hm; [destruct Hm|]. cbn [collect_transfers] in Hm.
    destruct (msg_of_transfer c sh i id dest t) as [m0|] eqn:Em.
    - destruct Hm as [<-|Hm].
      + eapply msg_of_transfer_ids; [apply Hts; left; reflexivity|exact Hd|exact Em].
      + eapply IH; [intros t' Ht'; apply Hts; right; exact Ht'|exact Hm].
    - eapply IH; [intros t' Ht'; apply Hts; right; exact Ht'|exact Hm].
  Qed.
  Lemma collect_accounts_ids sh i oas : (i_dst i = true -> shof (i_rcpt i) = sh) ->
    (forall oa t, In oa oas -> In t (oc_transfers oa) -> trv (env_at c sh) i (oc_addr oa) t) ->
    forall id m, In m (collect_accounts c sh i id oas) -> msg_ids m.
  Proof.
    intros Hd. induction oas as [|oa r IH]; intros Ho id m Hm; [destruct Hm|]. cbn [collect_accounts] in Hm.
    cbv zeta in Hm. apply in_app_or in Hm as [Hm|Hm].
    - eapply collect_transfers_ids; [exact Hd| |exact Hm]. intros t Ht. apply Ho; [left; reflexivity|exact Ht].
    - eapply IH; [|exact Hm]. intros oa' t Hoa Ht. apply Ho; [right; exact Hoa|exact Ht].
  Qed.
  (* a user transaction that travels itself names the same identifiers on arrival *)
  Lemma travels_args_ids fn i : travels fn = true -> call_ids fn i -> args_ids fn (i_args i).
  Proof.
    unfold travels. intros H Hv i' Hi _.
    assert (Ha : argn i' 0 = argn i 0) by (unfold argn; rewrite Hi; reflexivity).
    apply orb_prop in H as [H|H]; [apply orb_prop in H as [H|H]|]; apply beqb_true in H; subst fn;
      unfold call_ids, named_tokens in *.
    - change (classify C.BuiltInFunctionESDTTransfer) with (Some BEsdtTransfer) in *. cbn [named_tokens_b] in *.
      rewrite Ha. exact Hv.
    - change (classify C.BuiltInFunctionChangeOwnerAddress) with (Some BChangeOwner). constructor.
    - change (classify C.BuiltInFunctionClaimDeveloperRewards) with (Some BClaim). constructor.
  Qed.
  Lemma collect_ids sh fn i id o : (i_dst i = true -> shof (i_rcpt i) = sh) -> outv (env_at c sh) i o ->
    call_ids fn i -> forall m, In m (collect c sh fn i id o) -> msg_ids m.
  Proof.
    intros Hd Ho Hv m Hm. unfold collect in Hm.
    destruct (collect_accounts c sh i id (o_accounts o)) as [|m0 ms] eqn:Ec.
    - destruct ((negb (shof (i_rcpt i) =? sh)%N && negb (shof (i_rcpt i) =? META)%N && (shof (i_caller i) =? sh)%N)
                && travels fn)%bool eqn:Et; [|destruct Hm].
      destruct Hm as [<-|[]]. unfold msg_ids. cbn [m_fn m_args]. apply travels_args_ids; [|exact Hv].
      apply andb_prop in Et as [_ Et]. exact Et.
    - eapply (collect_accounts_ids sh i (o_accounts o) Hd Ho id). rewrite Ec. exact Hm.
  Qed.

  (* ---------------- committing one successful execution ---------------- *)
  Lemma shards_ids_commit w sh s' :
    shards_ids w -> ids_valid (env_at c sh) s' -> shards_ids (set_shard w sh (accts s')).
  Proof.
    intros Hw Hs sh'. destruct (N.eq_dec sh' sh) as [->|Hne].
    - destruct (Nat.lt_ge_cases (N.to_nat sh) (nshards w)) as [Hlt|Hge].
      + rewrite shard_accts_set_shard_eq by exact Hlt. apply ids_valid_mk_state. exact Hs.
      + unfold shard_accts, set_shard. cbn [shards]. rewrite set_nth_out by exact Hge. apply Hw.
    - rewrite shard_accts_set_shard_ne by exact Hne. apply Hw.
  Qed.

  Lemma exec_commit_ids w sh fn i o s' :
    VInv w -> (i_dst i = true -> shof (i_rcpt i) = sh) -> call_ids fn i ->
    exec (env_at c sh) fn i (mk_state (shard_accts w sh)) = (Ok o, s') ->
    shards_ids (set_shard w sh (accts s')) /\ forall id m, In m (collect c sh fn i id o) -> msg_ids m.
  Proof.
    intros [Hsh Hms] Hd Hv Hx.
    destruct (ids_valid_exec_out (env_at c sh) fn i _ o s' Hc Hf (Hsh sh) Hv Hx) as [Hi Ho].
    split; [apply shards_ids_commit; assumption|]. intros id m. apply collect_ids; assumption.
  Qed.

  (* ---------------- the identifiers of an origin-side transfer call ---------------- *)
  (* F4b discharged for one call: C01's hypothesis follows from the invariant and the shape of the identifiers *)
  Lemma origin_ids_consistent m0 sh fn i :
    ids_valid (env_at c sh) (mk_state m0) -> origin_ids fn i -> call_consistent_at c m0 sh fn i.
  Proof.
    intros Hs [H1 H2]. split.
    - intros ->. apply ids_valid_lookup_consistent; [exact Hs|]. apply H1. discriminate.
    - intros Hfn. apply ids_valid_triples_consistent; [exact Hs|apply H2; exact Hfn].
  Qed.
  Lemma origin_ids_call_ids sh fn i s o s' : is_transfer_fn fn = true -> i_snd i = true -> origin_ids fn i ->
    exec (env_at c sh) fn i s = (Ok o, s') -> call_ids fn i.
  Proof.
    intros Hfn Hsnd [H1 H2] Hx. unfold call_ids, named_tokens.
    destruct (exec_transfer_cases (env_at c sh) fn i Hfn) as [[-> He]|[[-> He]|[-> He]]].
    - change (classify C.BuiltInFunctionESDTTransfer) with (Some BEsdtTransfer). cbn [named_tokens_b].
      constructor; [apply H1; discriminate|constructor].
    - change (classify C.BuiltInFunctionESDTNFTTransfer) with (Some BNftTransfer). cbn [named_tokens_b].
      constructor; [apply H1; discriminate|constructor].
    - change (classify C.BuiltInFunctionMultiESDTNFTTransfer) with (Some BMulti). cbn [named_tokens_b].
      rewrite He in Hx. pose proof (multi_transfer_needs_sender (env_at c sh) Hc _ _ _ _ Hx) as Hn.
      unfold multi_named. destruct (beqb (i_caller i) (i_rcpt i)).
      + apply Forall_map. apply H2. reflexivity.
      + destruct Hn; congruence.
  Qed.

  (* ---------------- one step ---------------- *)
  Theorem valid_ids_step w op :
    C01_World.WInv c w -> VInv w -> transfer_op c op -> op_ids op ->
    op_consistent c w op /\ VInv (wstep c w op).
  Proof.
    intros HW HV Hop Hids. pose proof HV as [Hsh Hms]. split.
    { destruct op as [sh fn i| | |]; cbn [op_consistent]; try exact I.
      apply origin_ids_consistent; [apply Hsh|exact Hids]. }
    pose proof (wi_msgs c w HW) as Hall. rewrite Forall_forall in Hall, Hms.
    destruct (wstep_cases c w op) as [->|id gas m Hk Hfind ->|sh fn i o s' -> Hlt Hx ->|id gas m o s' consume Hk Hfind sh Hlt Hx ->
                                     |id gas m o s' Hk Hfind Hfl sh Hlt Hx ->].
    - exact HV.
    - exact HV.
    - (* an origin-side call *)
      destruct Hop as [Hfn (Hcal & Hsnd & Hdst)]. cbn [op_ids] in Hids.
      assert (Hs1 : i_snd i = true) by (rewrite Hsnd, Hcal; apply N.eqb_refl).
      assert (Hd : i_dst i = true -> shof (i_rcpt i) = sh) by (intros H; rewrite H in Hdst; symmetry in Hdst; apply N.eqb_eq in Hdst; exact Hdst).
      pose proof (origin_ids_call_ids sh fn i _ _ _ Hfn Hs1 Hids Hx) as Hv.
      destruct (exec_commit_ids w sh fn i o s' HV Hd Hv Hx) as [H1 H2]. split; [exact H1|].
      cbn [inflight with_msgs]. apply Forall_forall. intros m Hm.
      apply in_app_or in Hm as [Hm|Hm]; [apply Hms; exact Hm|eapply H2; exact Hm].
    - (* delivery *)
      destruct consume; [|subst op; contradiction].
      destruct (find_msg_In _ _ _ Hfind) as [Hin _]. pose proof (Hall m Hin) as Hm.
      assert (Hne : i_caller (deliver_input c m sh gas) <> i_rcpt (deliver_input c m sh gas)).
      { cbn [deliver_input i_caller i_rcpt]. intros He. apply (mo_caller c m Hm). rewrite He. reflexivity. }
      assert (Hv : call_ids (m_fn m) (deliver_input c m sh gas)) by (apply (Hms m Hin); [reflexivity|exact Hne]).
      destruct (exec_commit_ids w sh (m_fn m) (deliver_input c m sh gas) o s' HV (fun _ => eq_refl) Hv Hx) as [H1 H2]. split; [exact H1|].
      cbn [inflight with_msgs]. apply Forall_forall. intros m' Hm'.
      apply in_app_or in Hm' as [Hm'|Hm']; [|eapply H2; exact Hm']. apply Hms. eapply in_drop_msg; exact Hm'.
    - (* refund *)
      destruct (find_msg_In _ _ _ Hfind) as [Hin _]. pose proof (Hall m Hin) as Hm.
      assert (Hne : i_caller (refund_input c m sh gas) <> i_rcpt (refund_input c m sh gas)).
      { cbn [refund_input i_caller i_rcpt]. intros He. apply (mo_sender c m Hm). rewrite He. reflexivity. }
      assert (Hv : call_ids (m_fn m) (refund_input c m sh gas)) by (apply (Hms m Hin); [reflexivity|exact Hne]).
      destruct (exec_commit_ids w sh (m_fn m) (refund_input c m sh gas) o s' HV (fun _ => eq_refl) Hv Hx) as [H1 _]. split; [exact H1|].
      cbn [inflight with_msgs]. apply Forall_forall. intros m' Hm'. apply Hms. eapply in_drop_msg; exact Hm'.
  Qed.

  (* a direct call of ANY of the 23 functions (e.g. ESDTNFTCreate, ESDTLocalMint, freeze, ...) that names valid
     identifiers, with the recipient present only on its own shard, keeps [VInv] *)
  Theorem VInv_call_step w sh fn i :
    VInv w -> (i_dst i = true -> shof (i_rcpt i) = sh) -> call_ids fn i -> VInv (wstep c w (OCall sh fn i)).
  Proof.
    intros HV Hd Hv. pose proof HV as [Hsh Hms].
    destruct (wstep_cases c w (OCall sh fn i)) as [->|id gas m Hk Hfind ->|sh0 fn0 i0 o s' Hk Hlt Hx ->
                                     |id gas m o s' consume Hk Hfind sh0 Hlt Hx ->|id gas m o s' Hk Hfind Hfl sh0 Hlt Hx ->].
    - exact HV.
    - exact HV.
    - injection Hk as <- <- <-.
      destruct (exec_commit_ids w sh fn i o s' HV Hd Hv Hx) as [H1 H2]. split; [exact H1|].
      cbn [inflight with_msgs]. rewrite Forall_forall in Hms. apply Forall_forall. intros m Hm.
      apply in_app_or in Hm as [Hm|Hm]; [apply Hms; exact Hm|eapply H2; exact Hm].
    - destruct consume; discriminate.
    - discriminate.
  Qed.

  (* one step: both invariants, and every total is conserved -- no F4b hypothesis *)
  Theorem conservation_step_valid_ids w op :
    C01_World.WInv c w -> VInv w -> transfer_op c op -> op_ids op ->
    C01_World.WInv c (wstep c w op) /\ VInv (wstep c w op) /\ forall k, total c k (wstep c w op) = total c k w.
  Proof.
    intros HW HV Hop Hids. destruct (valid_ids_step w op HW HV Hop Hids) as [Hcons HV'].
    destruct (conservation_step c Hc w op HW Hop Hcons) as [HW' Hk]. auto.
  Qed.

  (* every history *)
  Theorem valid_ids_histories_inv ops : forall w,
    C01_World.WInv c w -> VInv w -> Forall (transfer_op c) ops -> Forall op_ids ops ->
    C01_World.WInv c (wrun c w ops) /\ VInv (wrun c w ops) /\ consistent_along c w ops
    /\ forall k, total c k (wrun c w ops) = total c k w.
  Proof.
    induction ops as [|op ops IH]; intros w HW HV Hops Hids.
    { split; [exact HW|]. split; [exact HV|]. split; [exact I|reflexivity]. }
    inversion Hops as [|x l Hop Hrest]; subst. inversion Hids as [|x l Hid Hidr]; subst.
    destruct (valid_ids_step w op HW HV Hop Hid) as [Hcons HV'].
    destruct (conservation_step c Hc w op HW Hop Hcons) as [HW' Hk].
    rewrite wrun_cons. destruct (IH _ HW' HV' Hrest Hidr) as (HW'' & HV'' & Hal & Hk').
    split; [exact HW''|]. split; [exact HV''|]. split; [split; assumption|].
    intros k. rewrite Hk', Hk. reflexivity.
  Qed.

  (* the initial world *)
  Theorem VInv_empty n : VInv (empty_world n).
  Proof. split; [intros sh; rewrite shard_accts_empty_world; apply ids_valid_empty|constructor]. Qed.
End World.

Theorem conservation_histories_valid_ids : forall c (Hc : codec_ok (wc_cdc c)) (Hf : flag_undec (wc_cdc c)) w ops k,
  C01_World.WInv c w -> VInv c w -> Forall (transfer_op c) ops -> Forall (op_ids) ops ->
  total c k (wrun c w ops) = total c k w.
Proof. intros c Hc Hf w ops k HW HV Hops Hids. apply (valid_ids_histories_inv c Hc Hf ops w HW HV Hops Hids). Qed.
Theorem invariants_histories_valid_ids : forall c (Hc : codec_ok (wc_cdc c)) (Hf : flag_undec (wc_cdc c)) w ops,
  C01_World.WInv c w -> VInv c w -> Forall (transfer_op c) ops -> Forall (op_ids) ops ->
  C01_World.WInv c (wrun c w ops) /\ VInv c (wrun c w ops).
Proof.
  intros c Hc Hf w ops HW HV Hops Hids.
  destruct (valid_ids_histories_inv c Hc Hf ops w HW HV Hops Hids) as (H1 & H2 & _). auto.
Qed.
(* the F4b hypothesis of C01's theorems, derived *)
Theorem consistent_along_valid_ids : forall c (Hc : codec_ok (wc_cdc c)) (Hf : flag_undec (wc_cdc c)) w ops,
  C01_World.WInv c w -> VInv c w -> Forall (transfer_op c) ops -> Forall (op_ids) ops -> consistent_along c w ops.
Proof.
  intros c Hc Hf w ops HW HV Hops Hids.
  destruct (valid_ids_histories_inv c Hc Hf ops w HW HV Hops Hids) as (_ & _ & H & _). exact H.
Qed.

Print Assumptions conservation_histories_valid_ids.
Print Assumptions invariants_histories_valid_ids.
