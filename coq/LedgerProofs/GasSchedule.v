(* C16 — every function is priced by its own entry of the current gas schedule.
   1. the result of [exec] for a function depends on the schedule only through the function's OWN
      BuiltInCost field (as bound by the generated registry table) and, for the functions constructed with
      the BaseOperationCost table, the three per-byte fields the code reads;
   2. charge formulas of the 15 priced functions (exact arithmetic), from LedgerProofs/GasSpec*.v;
   3. a model of factory.go:createGasConfig / GasScheduleChange over two-level maps, acceptance =
      every one of the 6 + 16 fields present and non-zero; a rejected change keeps every price, an accepted
      change re-prices every registered function;
   4. the generated registry: constructor call and SetNewGasConfig read the function's own field. *)
From Coq.Strings Require Import String.
From EV Require Import Base.Bytes Base.Store Base.Monad gen.Consts gen.Registry Codec.Types Helpers.Helpers
  Ledger.Types Ledger.Env Ledger.Funcs Ledger.Transfers LedgerProofs.GasSpec LedgerProofs.GasSpecExact
  Concurrency.RegistryTable.

Local Open Scope N_scope.

(* ================================================================== *)
(* 1. dependence on the schedule                                       *)
(* ================================================================== *)
Definition with_sched (E : env) (g : gascfg) : env :=
  {| plan := plan E; cdc := cdc E; shard_of := shard_of E; self_shard := self_shard E; payable := payable E;
     dns := dns E; enable_change := enable_change E; gas := g |}.

Section Dep.
  Variable E : env.
  Variables g g' : gascfg.
  Notation E1 := (with_sched E g).
  Notation E2 := (with_sched E g').

  Lemma c16_bind_cong {A B} (m1 m2 : @M err mstate A) (k1 k2 : A -> @M err mstate B) s :
    m1 s = m2 s -> (forall a s1, k1 a s1 = k2 a s1) -> bind m1 k1 s = bind m2 k2 s.
  Proof. intros H1 H2. unfold bind. rewrite H1. destruct (m2 s) as [[a|e|] s1]; auto. Qed.

  Ltac sched1 H := unfold f_local_mint, f_local_burn, f_esdt_burn, f_nft_add_quantity, f_nft_burn, f_change_owner,
    f_claim_rewards, f_set_user_name, f_esdt_transfer; cbv zeta; cbn [gas with_sched]; rewrite H; reflexivity.

  Lemma sched_local_mint i s : g_ESDTLocalMint g = g_ESDTLocalMint g' -> f_local_mint E1 i s = f_local_mint E2 i s.
  Proof. intros H. sched1 H. Qed.
  Lemma sched_local_burn i s : g_ESDTLocalBurn g = g_ESDTLocalBurn g' -> f_local_burn E1 i s = f_local_burn E2 i s.
  Proof. intros H. sched1 H. Qed.
  Lemma sched_esdt_burn i s : g_ESDTBurn g = g_ESDTBurn g' -> f_esdt_burn E1 i s = f_esdt_burn E2 i s.
  Proof. intros H. sched1 H. Qed.
  Lemma sched_nft_add_quantity i s : g_ESDTNFTAddQuantity g = g_ESDTNFTAddQuantity g' ->
    f_nft_add_quantity E1 i s = f_nft_add_quantity E2 i s.
  Proof. intros H. sched1 H. Qed.
  Lemma sched_nft_burn i s : g_ESDTNFTBurn g = g_ESDTNFTBurn g' -> f_nft_burn E1 i s = f_nft_burn E2 i s.
  Proof. intros H. sched1 H. Qed.
  Lemma sched_change_owner i s : g_ChangeOwnerAddress g = g_ChangeOwnerAddress g' -> f_change_owner E1 i s = f_change_owner E2 i s.
  Proof. intros H. sched1 H. Qed.
  Lemma sched_claim_rewards i s : g_ClaimDeveloperRewards g = g_ClaimDeveloperRewards g' ->
    f_claim_rewards E1 i s = f_claim_rewards E2 i s.
  Proof. intros H. sched1 H. Qed.
  Lemma sched_set_user_name i s : g_SaveUserName g = g_SaveUserName g' -> f_set_user_name E1 i s = f_set_user_name E2 i s.
  Proof. intros H. sched1 H. Qed.
  Lemma sched_esdt_transfer i s : g_ESDTTransfer g = g_ESDTTransfer g' -> f_esdt_transfer E1 i s = f_esdt_transfer E2 i s.
  Proof. intros H. sched1 H. Qed.

  Lemma sched_nft_create i s : g_ESDTNFTCreate g = g_ESDTNFTCreate g' -> g_StorePerByte g = g_StorePerByte g' ->
    f_nft_create E1 i s = f_nft_create E2 i s.
  Proof. intros H H'. unfold f_nft_create. cbv zeta. cbn [gas with_sched]. rewrite H, H'. reflexivity. Qed.
  Lemma sched_nft_add_uri i s : g_ESDTNFTAddURI g = g_ESDTNFTAddURI g' -> g_StorePerByte g = g_StorePerByte g' ->
    f_nft_add_uri E1 i s = f_nft_add_uri E2 i s.
  Proof. intros H H'. unfold f_nft_add_uri. cbv zeta. cbn [gas with_sched]. rewrite H, H'. reflexivity. Qed.
  Lemma sched_nft_update_attributes i s : g_ESDTNFTUpdateAttributes g = g_ESDTNFTUpdateAttributes g' ->
    g_StorePerByte g = g_StorePerByte g' -> f_nft_update_attributes E1 i s = f_nft_update_attributes E2 i s.
  Proof. intros H H'. unfold f_nft_update_attributes. cbv zeta. cbn [gas with_sched]. rewrite H, H'. reflexivity. Qed.

  (* functions that read no schedule field at all *)
  Lemma sched_freeze_wipe fz wp i s : f_freeze_wipe E1 fz wp i s = f_freeze_wipe E2 fz wp i s.
  Proof. reflexivity. Qed.
  Lemma sched_pause p i s : f_pause E1 p i s = f_pause E2 p i s.
  Proof. reflexivity. Qed.
  Lemma sched_roles st i s : f_roles E1 st i s = f_roles E2 st i s.
  Proof. reflexivity. Qed.
  Lemma sched_create_role_transfer i s : f_create_role_transfer E1 i s = f_create_role_transfer E2 i s.
  Proof. reflexivity. Qed.

  (* SaveKeyValue: the loop reads PersistPerByte and StorePerByte *)
  Lemma sched_skv_loop a gp : g_PersistPerByte g = g_PersistPerByte g' -> g_StorePerByte g = g_StorePerByte g' ->
    forall n pairs use s, (length pairs <= n)%nat -> skv_loop E1 a gp pairs use s = skv_loop E2 a gp pairs use s.
  Proof.
    intros HP HS. induction n as [|n IH]; intros pairs use s Hlen.
    - destruct pairs; [reflexivity|simpl in Hlen; lia].
    - destruct pairs as [|k [|v rest]]; [reflexivity|reflexivity|].
      assert (Hl : (length rest <= n)%nat) by (simpl in Hlen; lia).
      cbn [skv_loop]. cbv zeta. cbn [gas with_sched]. rewrite HP, HS.
      apply c16_bind_cong; [reflexivity|]. intros _ s1. apply c16_bind_cong; [reflexivity|]. intros old s2.
      destruct (beqb old v); [apply IH; exact Hl|].
      apply c16_bind_cong; [reflexivity|]. intros _ s3. apply c16_bind_cong; [reflexivity|]. intros _ s4.
      apply IH; exact Hl.
  Qed.
  Lemma sched_save_key_value i s : g_SaveKeyValue g = g_SaveKeyValue g' -> g_PersistPerByte g = g_PersistPerByte g' ->
    g_StorePerByte g = g_StorePerByte g' -> f_save_key_value E1 i s = f_save_key_value E2 i s.
  Proof.
    intros H HP HS. unfold f_save_key_value. cbv zeta. cbn [gas with_sched]. rewrite H.
    repeat (apply c16_bind_cong; [reflexivity|]; intros ? ?).
    apply c16_bind_cong; [|reflexivity]. apply sched_skv_loop with (n := length (i_args i)); auto.
  Qed.

  (* the NFT transfers read their own field and DataCopyPerByte *)
  Lemma sched_nft_transfer i s : g_ESDTNFTTransfer g = g_ESDTNFTTransfer g' -> g_DataCopyPerByte g = g_DataCopyPerByte g' ->
    f_nft_transfer E1 i s = f_nft_transfer E2 i s.
  Proof.
    intros H HD. unfold f_nft_transfer, f_nft_transfer_sender. cbv zeta. cbn [gas with_sched]. rewrite H, HD. reflexivity.
  Qed.
  Lemma sched_multi_out_args : g_DataCopyPerByte g = g_DataCopyPerByte g' ->
    forall l o acc s, multi_out_args E1 l o acc s = multi_out_args E2 l o acc s.
  Proof.
    intros HD. induction l as [|[tok t] r IH]; intros o acc s; [reflexivity|].
    cbn [multi_out_args]. destruct (t_meta t).
    - cbv zeta. cbn [gas with_sched]. rewrite HD.
      apply c16_bind_cong; [reflexivity|]. intros b s1. apply c16_bind_cong; [reflexivity|]. intros _ s2. apply IH.
    - apply c16_bind_cong; [reflexivity|]. intros v s1. apply IH.
  Qed.
  Lemma sched_multi_transfer i s : g_ESDTNFTMultiTransfer g = g_ESDTNFTMultiTransfer g' ->
    g_DataCopyPerByte g = g_DataCopyPerByte g' -> f_multi_transfer E1 i s = f_multi_transfer E2 i s.
  Proof.
    intros H HD. unfold f_multi_transfer. cbv zeta.
    repeat (apply c16_bind_cong; [reflexivity|]; intros ? ?).
    destruct (beqb (i_caller i) (i_rcpt i)); [|reflexivity].
    unfold f_multi_transfer_sender. cbv zeta. cbn [gas with_sched]. rewrite H.
    repeat (apply c16_bind_cong; [reflexivity|]; intros ? ?).
    match goal with |- (let '(_, _) := ?p in _) _ = _ => destruct p as [lst logs] end.
    repeat (apply c16_bind_cong; [reflexivity|]; intros ? ?).
    apply c16_bind_cong; [apply sched_multi_out_args; exact HD|reflexivity].
  Qed.
End Dep.

(* the own field of a function, through the binding table that C18 ties to the generated registry *)
Local Open Scope string_scope.
Definition builtin_field (n : string) (g : gascfg) : N :=
  if String.eqb n "ChangeOwnerAddress" then g_ChangeOwnerAddress g
  else if String.eqb n "ClaimDeveloperRewards" then g_ClaimDeveloperRewards g
  else if String.eqb n "SaveUserName" then g_SaveUserName g
  else if String.eqb n "SaveKeyValue" then g_SaveKeyValue g
  else if String.eqb n "ESDTTransfer" then g_ESDTTransfer g
  else if String.eqb n "ESDTBurn" then g_ESDTBurn g
  else if String.eqb n "ESDTLocalMint" then g_ESDTLocalMint g
  else if String.eqb n "ESDTLocalBurn" then g_ESDTLocalBurn g
  else if String.eqb n "ESDTNFTCreate" then g_ESDTNFTCreate g
  else if String.eqb n "ESDTNFTAddQuantity" then g_ESDTNFTAddQuantity g
  else if String.eqb n "ESDTNFTBurn" then g_ESDTNFTBurn g
  else if String.eqb n "ESDTNFTTransfer" then g_ESDTNFTTransfer g
  else if String.eqb n "ESDTNFTChangeCreateOwner" then g_ESDTNFTChangeCreateOwner g
  else if String.eqb n "ESDTNFTMultiTransfer" then g_ESDTNFTMultiTransfer g
  else if String.eqb n "ESDTNFTAddURI" then g_ESDTNFTAddURI g
  else if String.eqb n "ESDTNFTUpdateAttributes" then g_ESDTNFTUpdateAttributes g
  else 0%N.
Local Close Scope string_scope.

Definition own_cost (f : bytes) (g : gascfg) : N :=
  match lookup_binding f expected with
  | Some b => match b_gas b with Some n => builtin_field n g | None => 0 end
  | None => 0
  end.
Definition reads_per_byte (f : bytes) : bool :=
  match lookup_binding f expected with Some b => b_base b | None => false end.
(* of the six BaseOperationCost fields the built-in functions read three *)
Definition per_byte_eq (g g' : gascfg) : Prop :=
  g_StorePerByte g = g_StorePerByte g' /\ g_DataCopyPerByte g = g_DataCopyPerByte g' /\ g_PersistPerByte g = g_PersistPerByte g'.
Definition same_prices_for (f : bytes) (g g' : gascfg) : Prop :=
  own_cost f g = own_cost f g' /\ (reads_per_byte f = true -> per_byte_eq g g').

Theorem charge_depends_only_on_own_field (E : env) f g g' i s :
  same_prices_for f g g' -> exec (with_sched E g) f i s = exec (with_sched E g') f i s.
Proof.
  intros [Ho Hb]. unfold exec.
  repeat match goal with
         | |- (if beqb f ?c then _ else _) _ = _ =>
           destruct (beqb f c) eqn:?Ef;
           [apply beqb_true in Ef; subst f;
            try (specialize (Hb eq_refl); destruct Hb as (HS & HD & HP))|clear Ef]
         end.
  - change (g_ClaimDeveloperRewards g = g_ClaimDeveloperRewards g') in Ho. apply sched_claim_rewards; assumption.
  - change (g_ChangeOwnerAddress g = g_ChangeOwnerAddress g') in Ho. apply sched_change_owner; assumption.
  - change (g_SaveUserName g = g_SaveUserName g') in Ho. apply sched_set_user_name; assumption.
  - change (g_SaveKeyValue g = g_SaveKeyValue g') in Ho. apply sched_save_key_value; assumption.
  - apply sched_pause.
  - apply sched_pause.
  - change (g_ESDTTransfer g = g_ESDTTransfer g') in Ho. apply sched_esdt_transfer; assumption.
  - change (g_ESDTBurn g = g_ESDTBurn g') in Ho. apply sched_esdt_burn; assumption.
  - apply sched_freeze_wipe.
  - apply sched_freeze_wipe.
  - apply sched_freeze_wipe.
  - apply sched_roles.
  - apply sched_roles.
  - change (g_ESDTLocalBurn g = g_ESDTLocalBurn g') in Ho. apply sched_local_burn; assumption.
  - change (g_ESDTLocalMint g = g_ESDTLocalMint g') in Ho. apply sched_local_mint; assumption.
  - change (g_ESDTNFTAddQuantity g = g_ESDTNFTAddQuantity g') in Ho. apply sched_nft_add_quantity; assumption.
  - change (g_ESDTNFTBurn g = g_ESDTNFTBurn g') in Ho. apply sched_nft_burn; assumption.
  - change (g_ESDTNFTCreate g = g_ESDTNFTCreate g') in Ho. apply sched_nft_create; assumption.
  - change (g_ESDTNFTTransfer g = g_ESDTNFTTransfer g') in Ho. apply sched_nft_transfer; assumption.
  - apply sched_create_role_transfer.
  - change (g_ESDTNFTUpdateAttributes g = g_ESDTNFTUpdateAttributes g') in Ho. apply sched_nft_update_attributes; assumption.
  - change (g_ESDTNFTAddURI g = g_ESDTNFTAddURI g') in Ho. apply sched_nft_add_uri; assumption.
  - change (g_ESDTNFTMultiTransfer g = g_ESDTNFTMultiTransfer g') in Ho. apply sched_multi_transfer; assumption.
  - reflexivity.
Qed.

(* ================================================================== *)
(* 2. charge formulas of the 15 priced functions (exact arithmetic)    *)
(* ================================================================== *)
Section Formulas.
  Variable E : env.
  Notation G := (gas E).

  Lemma exec_ClaimDeveloperRewards i : exec E C.BuiltInFunctionClaimDeveloperRewards i = f_claim_rewards E i. Proof. reflexivity. Qed.
  Lemma exec_ChangeOwnerAddress i : exec E C.BuiltInFunctionChangeOwnerAddress i = f_change_owner E i. Proof. reflexivity. Qed.
  Lemma exec_SetUserName i : exec E C.BuiltInFunctionSetUserName i = f_set_user_name E i. Proof. reflexivity. Qed.
  Lemma exec_SaveKeyValue i : exec E C.BuiltInFunctionSaveKeyValue i = f_save_key_value E i. Proof. reflexivity. Qed.
  Lemma exec_ESDTTransfer i : exec E C.BuiltInFunctionESDTTransfer i = f_esdt_transfer E i. Proof. reflexivity. Qed.
  Lemma exec_ESDTBurn i : exec E C.BuiltInFunctionESDTBurn i = f_esdt_burn E i. Proof. reflexivity. Qed.
  Lemma exec_ESDTLocalBurn i : exec E C.BuiltInFunctionESDTLocalBurn i = f_local_burn E i. Proof. reflexivity. Qed.
  Lemma exec_ESDTLocalMint i : exec E C.BuiltInFunctionESDTLocalMint i = f_local_mint E i. Proof. reflexivity. Qed.
  Lemma exec_ESDTNFTAddQuantity i : exec E C.BuiltInFunctionESDTNFTAddQuantity i = f_nft_add_quantity E i. Proof. reflexivity. Qed.
  Lemma exec_ESDTNFTBurn i : exec E C.BuiltInFunctionESDTNFTBurn i = f_nft_burn E i. Proof. reflexivity. Qed.
  Lemma exec_ESDTNFTCreate i : exec E C.BuiltInFunctionESDTNFTCreate i = f_nft_create E i. Proof. reflexivity. Qed.
  Lemma exec_ESDTNFTTransfer i : exec E C.BuiltInFunctionESDTNFTTransfer i = f_nft_transfer E i. Proof. reflexivity. Qed.
  Lemma exec_ESDTNFTUpdateAttributes i : exec E C.BuiltInFunctionESDTNFTUpdateAttributes i = f_nft_update_attributes E i. Proof. reflexivity. Qed.
  Lemma exec_ESDTNFTAddURI i : exec E C.BuiltInFunctionESDTNFTAddURI i = f_nft_add_uri E i. Proof. reflexivity. Qed.
  Lemma exec_MultiESDTNFTTransfer i : exec E C.BuiltInFunctionMultiESDTNFTTransfer i = f_multi_transfer E i. Proof. reflexivity. Qed.

  (* [priced i o c]:  c <= GasProvided  and  GasRemaining + sum GasLimit = GasProvided - c *)

  (* flat cost *)
  Theorem charge_formula_ClaimDeveloperRewards i s o s' :
    exec E C.BuiltInFunctionClaimDeveloperRewards i s = (Ok o, s') -> i_gas i < two64 ->
    i_snd i = true -> claim_drops_gas i = false -> g_ClaimDeveloperRewards G <= i_gas i ->
    priced i o (g_ClaimDeveloperRewards G).
  Proof.
    rewrite exec_ClaimDeveloperRewards. intros H Hg Hs Hq Hc. apply gas_claim_rewards in H; [|assumption].
    rewrite Hs in H. apply H; assumption.
  Qed.
  Theorem charge_formula_ChangeOwnerAddress i s o s' :
    exec E C.BuiltInFunctionChangeOwnerAddress i s = (Ok o, s') -> i_gas i < two64 -> i_snd i = true ->
    priced i o (g_ChangeOwnerAddress G).
  Proof.
    rewrite exec_ChangeOwnerAddress. intros H Hg Hs. apply gas_change_owner in H; [|assumption].
    destruct H as (_ & _ & H). rewrite Hs in H. exact H.
  Qed.
  (* SetUserName charges where the name is written; on the origin shard it forwards everything *)
  Theorem charge_formula_SetUserName i s o s' :
    exec E C.BuiltInFunctionSetUserName i s = (Ok o, s') -> i_gas i < two64 ->
    g_SaveUserName G <= i_gas i
    /\ (i_dst i = true -> priced i o (g_SaveUserName G))
    /\ (i_dst i = false -> o_gasRemaining o = 0 /\ sum_gasLimit o = i_gas i).
  Proof.
    rewrite exec_SetUserName. intros H Hg. apply gas_set_user_name in H; [|assumption]. destruct H as (Hc & H).
    split; [exact Hc|]. destruct (i_dst i); split; intros; try discriminate; apply H.
  Qed.
  Theorem charge_formula_ESDTTransfer i s o s' :
    exec E C.BuiltInFunctionESDTTransfer i s = (Ok o, s') -> i_gas i < two64 -> i_snd i = true ->
    priced i o (g_ESDTTransfer G).
  Proof.
    rewrite exec_ESDTTransfer. intros H Hg Hs. apply gas_esdt_transfer in H; [|assumption]. rewrite Hs in H. exact H.
  Qed.
  Theorem charge_formula_ESDTBurn i s o s' :
    exec E C.BuiltInFunctionESDTBurn i s = (Ok o, s') -> i_gas i < two64 -> priced i o (g_ESDTBurn G).
  Proof. rewrite exec_ESDTBurn. intros H Hg. eapply gas_esdt_burn; eassumption. Qed.
  Theorem charge_formula_ESDTLocalMint i s o s' :
    exec E C.BuiltInFunctionESDTLocalMint i s = (Ok o, s') -> i_gas i < two64 -> priced i o (g_ESDTLocalMint G).
  Proof. rewrite exec_ESDTLocalMint. intros H Hg. eapply gas_local_mint; eassumption. Qed.
  Theorem charge_formula_ESDTLocalBurn i s o s' :
    exec E C.BuiltInFunctionESDTLocalBurn i s = (Ok o, s') -> i_gas i < two64 -> priced i o (g_ESDTLocalBurn G).
  Proof. rewrite exec_ESDTLocalBurn. intros H Hg. eapply gas_local_burn; eassumption. Qed.
  Theorem charge_formula_ESDTNFTAddQuantity i s o s' :
    exec E C.BuiltInFunctionESDTNFTAddQuantity i s = (Ok o, s') -> i_gas i < two64 -> priced i o (g_ESDTNFTAddQuantity G).
  Proof. rewrite exec_ESDTNFTAddQuantity. intros H Hg. eapply gas_nft_add_quantity; eassumption. Qed.
  Theorem charge_formula_ESDTNFTBurn i s o s' :
    exec E C.BuiltInFunctionESDTNFTBurn i s = (Ok o, s') -> i_gas i < two64 -> priced i o (g_ESDTNFTBurn G).
  Proof. rewrite exec_ESDTNFTBurn. intros H Hg. eapply gas_nft_burn; eassumption. Qed.

  (* cost + stored bytes * StorePerByte; NFTCreate prices the bytes of ALL its arguments *)
  Theorem charge_formula_ESDTNFTCreate i s o s' :
    exec E C.BuiltInFunctionESDTNFTCreate i s = (Ok o, s') -> i_gas i < two64 ->
    total_len (i_args i) * g_StorePerByte G + g_ESDTNFTCreate G < two64 ->
    priced i o (total_len (i_args i) * g_StorePerByte G + g_ESDTNFTCreate G).
  Proof.
    rewrite exec_ESDTNFTCreate. intros H Hg Hx. apply gas_nft_create in H; [|assumption].
    rewrite nft_create_exact in H by exact Hx. apply H.
  Qed.
  Theorem charge_formula_ESDTNFTAddURI i s o s' :
    exec E C.BuiltInFunctionESDTNFTAddURI i s = (Ok o, s') -> i_gas i < two64 ->
    g_ESDTNFTAddURI G + total_len (skipn 2 (i_args i)) * g_StorePerByte G < two64 ->
    priced i o (g_ESDTNFTAddURI G + total_len (skipn 2 (i_args i)) * g_StorePerByte G).
  Proof.
    rewrite exec_ESDTNFTAddURI. intros H Hg Hx. apply gas_nft_add_uri in H; [|assumption].
    rewrite add_uri_exact in H by exact Hx. apply H.
  Qed.
  Theorem charge_formula_ESDTNFTUpdateAttributes i s o s' :
    exec E C.BuiltInFunctionESDTNFTUpdateAttributes i s = (Ok o, s') -> i_gas i < two64 ->
    g_ESDTNFTUpdateAttributes G + zlen (nth 2 (i_args i) []) * g_StorePerByte G < two64 ->
    priced i o (g_ESDTNFTUpdateAttributes G + zlen (nth 2 (i_args i) []) * g_StorePerByte G).
  Proof.
    rewrite exec_ESDTNFTUpdateAttributes. intros H Hg Hx. apply gas_nft_update_attributes in H; [|assumption].
    rewrite update_attributes_exact in H by exact Hx. apply H.
  Qed.
  (* cost + for every pair (len key + len value) * PersistPerByte, + growth * StorePerByte for changed values *)
  Theorem charge_formula_SaveKeyValue i s o s' :
    exec E C.BuiltInFunctionSaveKeyValue i s = (Ok o, s') -> i_gas i < two64 ->
    exact_save_key_value E i s < two64 -> priced i o (exact_save_key_value E i s).
  Proof.
    rewrite exec_SaveKeyValue. intros H Hg Hx. apply gas_save_key_value in H; [|assumption].
    rewrite save_key_value_exact in H by exact Hx. apply H.
  Qed.
  (* sender side: cost + len(marshalled travelling entry) * DataCopyPerByte; on the same shard the entry's
     value already includes the destination's holding *)
  Theorem charge_formula_ESDTNFTTransfer i s o s' :
    exec E C.BuiltInFunctionESDTNFTTransfer i s = (Ok o, s') -> i_gas i < two64 ->
    beqb (i_caller i) (i_rcpt i) = true ->
    exists t2, nft_sender_entry E i s = Some t2
               /\ (g_ESDTNFTTransfer G + zlen (enc_tok (cdc E) t2) * g_DataCopyPerByte G < two64 ->
                   priced i o (g_ESDTNFTTransfer G + zlen (enc_tok (cdc E) t2) * g_DataCopyPerByte G)).
  Proof.
    rewrite exec_ESDTNFTTransfer. intros H Hg Hc. apply gas_nft_transfer in H; [|assumption].
    destruct H as (_ & H). destruct (H Hc) as (t2 & Ht & Hp). exists t2. split; [exact Ht|].
    intros Hx. rewrite payload_price_exact in Hp by (unfold payload_exact; lia). exact Hp.
  Qed.
  (* sender side: cost * number of tokens + sum over the NFT payloads of len * DataCopyPerByte *)
  Theorem charge_formula_MultiESDTNFTTransfer i s o s' :
    exec E C.BuiltInFunctionMultiESDTNFTTransfer i s = (Ok o, s') -> i_gas i < two64 ->
    beqb (i_caller i) (i_rcpt i) = true ->
    exists lst, multi_payloads E i s = Some lst
                /\ (multi_count i * g_ESDTNFTMultiTransfer G + payload_len E lst * g_DataCopyPerByte G < two64 ->
                    priced i o (multi_count i * g_ESDTNFTMultiTransfer G + payload_len E lst * g_DataCopyPerByte G)).
  Proof.
    rewrite exec_MultiESDTNFTTransfer. intros H Hg Hc. apply gas_multi_transfer in H; [|assumption].
    destruct H as (_ & H). destruct (H Hc) as (_ & lst & Hl & Hp). exists lst. split; [exact Hl|].
    intros Hx. rewrite <- payload_gas_exact_bound in *.
    rewrite c06_mul64_small in Hp by lia. rewrite payload_gas_exact_eq in Hp by lia. exact Hp.
  Qed.
End Formulas.

(* ================================================================== *)
(* 3. createGasConfig / GasScheduleChange                              *)
(* ================================================================== *)
(* a gas schedule as the node hands it over: section name -> (field name -> value) *)
Definition section := list (bytes * N).
Definition smap := list (bytes * section).

(* mapstructure: exact key, else the first key equal up to (ASCII) case; no key: the field keeps 0 *)
Definition lower (b : byte) : byte :=
  let n := b2n b in if ((65 <=? n) && (n <=? 90))%bool then n2b (n + 32) else b.
Definition fold_eqb (a b : bytes) : bool := beqb (map lower a) (map lower b).
Fixpoint lookup_exact (k : bytes) (l : section) : option N :=
  match l with [] => None | (k', v) :: r => if beqb k k' then Some v else lookup_exact k r end.
Fixpoint lookup_fold (k : bytes) (l : section) : option N :=
  match l with [] => None | (k', v) :: r => if fold_eqb k k' then Some v else lookup_fold k r end.
Definition field_val (sec : section) (name : bytes) : N :=
  match lookup_exact name sec with
  | Some v => v
  | None => match lookup_fold name sec with Some v => v | None => 0 end
  end.
(* gasMap[sectionName]: exact key; a missing section is Go's nil map *)
Fixpoint lookup_section (k : bytes) (m : smap) : section :=
  match m with [] => [] | (k', sec) :: r => if beqb k k' then sec else lookup_section k r end.

Local Open Scope string_scope.
Definition base_names : list string :=
  ["StorePerByte"; "ReleasePerByte"; "DataCopyPerByte"; "PersistPerByte"; "CompilePerByte"; "AoTPreparePerByte"].
Definition builtin_names : list string :=
  ["ChangeOwnerAddress"; "ClaimDeveloperRewards"; "SaveUserName"; "SaveKeyValue"; "ESDTTransfer"; "ESDTBurn";
   "ESDTLocalMint"; "ESDTLocalBurn"; "ESDTNFTCreate"; "ESDTNFTAddQuantity"; "ESDTNFTBurn"; "ESDTNFTTransfer";
   "ESDTNFTChangeCreateOwner"; "ESDTNFTMultiTransfer"; "ESDTNFTAddURI"; "ESDTNFTUpdateAttributes"].

(* mapstructure.Decode of the two sections into vmcommon.GasCost *)
Definition decode_cfg (base bi : section) : gascfg :=
  {| g_ChangeOwnerAddress := field_val bi (str "ChangeOwnerAddress");
     g_ClaimDeveloperRewards := field_val bi (str "ClaimDeveloperRewards");
     g_SaveUserName := field_val bi (str "SaveUserName");
     g_SaveKeyValue := field_val bi (str "SaveKeyValue");
     g_ESDTTransfer := field_val bi (str "ESDTTransfer");
     g_ESDTBurn := field_val bi (str "ESDTBurn");
     g_ESDTLocalMint := field_val bi (str "ESDTLocalMint");
     g_ESDTLocalBurn := field_val bi (str "ESDTLocalBurn");
     g_ESDTNFTCreate := field_val bi (str "ESDTNFTCreate");
     g_ESDTNFTAddQuantity := field_val bi (str "ESDTNFTAddQuantity");
     g_ESDTNFTBurn := field_val bi (str "ESDTNFTBurn");
     g_ESDTNFTTransfer := field_val bi (str "ESDTNFTTransfer");
     g_ESDTNFTChangeCreateOwner := field_val bi (str "ESDTNFTChangeCreateOwner");
     g_ESDTNFTMultiTransfer := field_val bi (str "ESDTNFTMultiTransfer");
     g_ESDTNFTAddURI := field_val bi (str "ESDTNFTAddURI");
     g_ESDTNFTUpdateAttributes := field_val bi (str "ESDTNFTUpdateAttributes");
     g_StorePerByte := field_val base (str "StorePerByte");
     g_ReleasePerByte := field_val base (str "ReleasePerByte");
     g_DataCopyPerByte := field_val base (str "DataCopyPerByte");
     g_PersistPerByte := field_val base (str "PersistPerByte");
     g_CompilePerByte := field_val base (str "CompilePerByte");
     g_AoTPreparePerByte := field_val base (str "AoTPreparePerByte") |}.
Local Close Scope string_scope.

Definition decode_schedule (m : smap) : gascfg :=
  decode_cfg (lookup_section C.BaseOperationCostString m) (lookup_section C.BuiltInCostString m).
(* check.ForZeroUintFields on both sections *)
Definition all_nonzero (g : gascfg) : bool := forallb (fun c => negb (c =? 0)) (gas_fields g).
Definition create_gas_config (m : smap) : option gascfg :=
  let g := decode_schedule m in if all_nonzero g then Some g else None.

(* the 22 entries createGasConfig inspects: (section, field) *)
Definition entries : list (bytes * bytes) :=
  (map (fun n => (C.BuiltInCostString, str n)) builtin_names ++ map (fun n => (C.BaseOperationCostString, str n)) base_names)%list.
Definition entry_val (m : smap) (e : bytes * bytes) : N := field_val (lookup_section (fst e) m) (snd e).

Lemma gas_fields_decode m : gas_fields (decode_schedule m) = map (entry_val m) entries.
Proof. reflexivity. Qed.

Theorem create_accepts_iff m g :
  create_gas_config m = Some g <-> g = decode_schedule m /\ forall e, In e entries -> entry_val m e <> 0.
Proof.
  unfold create_gas_config, all_nonzero. cbv zeta. rewrite gas_fields_decode. split.
  - destruct (forallb _ _) eqn:Hf; [|discriminate]. intros H. inversion H. split; [reflexivity|].
    intros e He. rewrite forallb_forall in Hf. specialize (Hf (entry_val m e) (in_map _ _ _ He)).
    apply Bool.negb_true_iff, N.eqb_neq in Hf. exact Hf.
  - intros [-> Hnz]. replace (forallb _ _) with true; [reflexivity|]. symmetry. apply forallb_forall.
    intros c Hc. apply in_map_iff in Hc as (e & <- & He). apply Bool.negb_true_iff, N.eqb_neq. apply Hnz. exact He.
Qed.

(* a zero entry rejects the whole schedule *)
Theorem schedule_zero_rejected m e : In e entries -> entry_val m e = 0 -> create_gas_config m = None.
Proof.
  intros He Hz. destruct (create_gas_config m) as [g|] eqn:Hc; [|reflexivity].
  apply create_accepts_iff in Hc as [_ Hnz]. exfalso. apply (Hnz e He). exact Hz.
Qed.
(* ... and so does a missing entry or a missing section: both read as zero *)
Lemma lookup_fold_none name sec : (forall k v, In (k, v) sec -> fold_eqb name k = false) -> lookup_fold name sec = None.
Proof.
  induction sec as [|[k v] r IH]; intros H; [reflexivity|]. cbn [lookup_fold].
  rewrite (H k v) by (left; reflexivity). apply IH. intros k' v' Hin. apply (H k' v'). right. exact Hin.
Qed.
Lemma fold_eqb_refl a : fold_eqb a a = true.
Proof. unfold fold_eqb. apply beqb_refl. Qed.
Lemma lookup_exact_none name sec : (forall k v, In (k, v) sec -> fold_eqb name k = false) -> lookup_exact name sec = None.
Proof.
  induction sec as [|[k v] r IH]; intros H; [reflexivity|]. cbn [lookup_exact].
  destruct (beqb name k) eqn:Eq.
  - apply beqb_true in Eq. subst k.
    pose proof (fold_eqb_refl name) as Hr. rewrite (H name v (or_introl eq_refl)) in Hr. discriminate.
  - apply IH. intros k' v' Hin. apply (H k' v'). right. exact Hin.
Qed.
Lemma field_missing sec name : (forall k v, In (k, v) sec -> fold_eqb name k = false) -> field_val sec name = 0.
Proof. intros H. unfold field_val. rewrite lookup_exact_none, lookup_fold_none by exact H. reflexivity. Qed.
Lemma section_missing sname m : (forall k sec, In (k, sec) m -> k <> sname) -> lookup_section sname m = [].
Proof.
  induction m as [|[k sec] r IH]; intros H; [reflexivity|]. cbn [lookup_section].
  rewrite beqb_false; [|intros ->; exact (H k sec (or_introl eq_refl) eq_refl)].
  apply IH. intros k' sec' Hin. apply (H k' sec'). right. exact Hin.
Qed.

Theorem schedule_missing_entry_rejected m e :
  In e entries -> (forall k v, In (k, v) (lookup_section (fst e) m) -> fold_eqb (snd e) k = false) ->
  create_gas_config m = None.
Proof. intros He Hm. apply (schedule_zero_rejected m e He). unfold entry_val. apply field_missing. exact Hm. Qed.
Theorem schedule_missing_section_rejected m sname :
  (sname = C.BuiltInCostString \/ sname = C.BaseOperationCostString) ->
  (forall k sec, In (k, sec) m -> k <> sname) -> create_gas_config m = None.
Proof.
  intros Hs Hm. pose proof (section_missing sname m Hm) as Hn.
  destruct Hs as [-> | ->].
  - apply (schedule_zero_rejected m (C.BuiltInCostString, str "ChangeOwnerAddress"%string)); [left; reflexivity|].
    unfold entry_val. cbn [fst snd]. rewrite Hn. reflexivity.
  - apply (schedule_zero_rejected m (C.BaseOperationCostString, str "StorePerByte"%string)).
    + unfold entries. apply in_or_app. right. left. reflexivity.
    + unfold entry_val. cbn [fst snd]. rewrite Hn. reflexivity.
Qed.
Theorem schedule_zero_or_missing_rejected m :
  (exists e, In e entries /\ entry_val m e = 0) -> create_gas_config m = None.
Proof. intros (e & He & Hz). exact (schedule_zero_rejected m e He Hz). Qed.

(* ---- the factory and its registered function objects ---- *)
(* what a function object keeps of a schedule: its own BuiltInCost field (if the constructor is given one)
   and the BaseOperationCost table (if the constructor is given it); everything else is invisible to it *)
Definition view_of (b : binding) (g : gascfg) : gascfg :=
  let own n := match b_gas b with Some n' => if String.eqb n n' then builtin_field n g else 0 | None => 0 end in
  let base (v : N) := if b_base b then v else 0 in
  {| g_ChangeOwnerAddress := own "ChangeOwnerAddress"%string; g_ClaimDeveloperRewards := own "ClaimDeveloperRewards"%string;
     g_SaveUserName := own "SaveUserName"%string; g_SaveKeyValue := own "SaveKeyValue"%string;
     g_ESDTTransfer := own "ESDTTransfer"%string; g_ESDTBurn := own "ESDTBurn"%string;
     g_ESDTLocalMint := own "ESDTLocalMint"%string; g_ESDTLocalBurn := own "ESDTLocalBurn"%string;
     g_ESDTNFTCreate := own "ESDTNFTCreate"%string; g_ESDTNFTAddQuantity := own "ESDTNFTAddQuantity"%string;
     g_ESDTNFTBurn := own "ESDTNFTBurn"%string; g_ESDTNFTTransfer := own "ESDTNFTTransfer"%string;
     g_ESDTNFTChangeCreateOwner := own "ESDTNFTChangeCreateOwner"%string;
     g_ESDTNFTMultiTransfer := own "ESDTNFTMultiTransfer"%string; g_ESDTNFTAddURI := own "ESDTNFTAddURI"%string;
     g_ESDTNFTUpdateAttributes := own "ESDTNFTUpdateAttributes"%string;
     g_StorePerByte := base (g_StorePerByte g); g_ReleasePerByte := base (g_ReleasePerByte g);
     g_DataCopyPerByte := base (g_DataCopyPerByte g); g_PersistPerByte := base (g_PersistPerByte g);
     g_CompilePerByte := base (g_CompilePerByte g); g_AoTPreparePerByte := base (g_AoTPreparePerByte g) |}.

Record factory := { fac_cfg : gascfg; fac_objs : list (binding * gascfg) }.
(* NewBuiltInFunctionsFactory + CreateBuiltInFunctionContainer *)
Definition new_factory (m : smap) : option factory :=
  match create_gas_config m with
  | Some g => Some {| fac_cfg := g; fac_objs := map (fun b => (b, view_of b g)) expected |}
  | None => None
  end.
(* GasScheduleChange: a rejected schedule returns before anything is touched; an accepted one is
   broadcast to every registered function (SetNewGasConfig re-reads the fields the constructor was given) *)
Definition gas_schedule_change (fac : factory) (m : smap) : factory :=
  match create_gas_config m with
  | None => fac
  | Some g => {| fac_cfg := g; fac_objs := map (fun bo => (fst bo, view_of (fst bo) g)) (fac_objs fac) |}
  end.
(* executing the registered function [f] with the prices its object holds *)
Definition run (fac : factory) (E : env) (f : bytes) (i : input) : @M err mstate output :=
  match find (fun bo => beqb f (b_name (fst bo))) (fac_objs fac) with
  | Some (b, v) => exec (with_sched E v) f i
  | None => fail EUnknownFunction
  end.
Definition wf_factory (fac : factory) : Prop := fac_objs fac = map (fun b => (b, view_of b (fac_cfg fac))) expected.

Theorem rejected_change_keeps_prices fac m : create_gas_config m = None -> gas_schedule_change fac m = fac.
Proof. unfold gas_schedule_change. intros ->. reflexivity. Qed.

Lemma new_factory_wf m fac : new_factory m = Some fac -> wf_factory fac /\ create_gas_config m = Some (fac_cfg fac).
Proof.
  unfold new_factory. destruct (create_gas_config m) as [g|]; [|discriminate]. intros H. inversion H. split; reflexivity.
Qed.
Lemma change_wf fac m : wf_factory fac -> wf_factory (gas_schedule_change fac m).
Proof.
  unfold wf_factory, gas_schedule_change. intros H. destruct (create_gas_config m) as [g|]; [|exact H].
  cbn [fac_cfg fac_objs]. rewrite H. rewrite map_map. reflexivity.
Qed.
Lemma change_cfg fac m :
  fac_cfg (gas_schedule_change fac m) = match create_gas_config m with Some g => g | None => fac_cfg fac end.
Proof. unfold gas_schedule_change. destruct (create_gas_config m); reflexivity. Qed.

(* a function object sees exactly the prices of the schedule it was given *)
Lemma view_same_prices b g : In b expected -> same_prices_for (b_name b) (view_of b g) g.
Proof.
  intros Hin. unfold expected in Hin.
  repeat (destruct Hin as [<-|Hin];
          [split; [reflexivity|intros Hr; vm_compute in Hr; try discriminate Hr; repeat split]|]).
  destruct Hin.
Qed.

Lemma find_own_object (F : binding -> gascfg) b : In b expected ->
  find (fun bo : binding * gascfg => beqb (b_name b) (b_name (fst bo))) (map (fun b0 => (b0, F b0)) expected) = Some (b, F b).
Proof.
  intros Hin. unfold expected in Hin |- *.
  repeat (destruct Hin as [<-|Hin]; [reflexivity|]). destruct Hin.
Qed.

(* the schedule in force after a sequence of changes: the last accepted one *)
Definition in_force (g0 : gascfg) (ms : list smap) : gascfg :=
  fold_left (fun g m => match create_gas_config m with Some g' => g' | None => g end) ms g0.

Theorem change_broadcast_all fac ms :
  wf_factory fac ->
  let fac' := fold_left gas_schedule_change ms fac in
  fac_cfg fac' = in_force (fac_cfg fac) ms
  /\ forall E b i s, In b expected ->
       run fac' E (b_name b) i s = exec (with_sched E (in_force (fac_cfg fac) ms)) (b_name b) i s.
Proof.
  intros Hwf. cbv zeta.
  assert (Hgen : forall ms fac, wf_factory fac ->
            wf_factory (fold_left gas_schedule_change ms fac)
            /\ fac_cfg (fold_left gas_schedule_change ms fac) = in_force (fac_cfg fac) ms).
  { clear. induction ms as [|m r IH]; intros fac Hwf; [split; [exact Hwf|reflexivity]|].
    cbn [fold_left]. destruct (IH (gas_schedule_change fac m) (change_wf fac m Hwf)) as [H1 H2].
    split; [exact H1|]. rewrite H2. unfold in_force. cbn [fold_left]. rewrite change_cfg. reflexivity. }
  destruct (Hgen ms fac Hwf) as [Hwf' Hcfg]. split; [exact Hcfg|].
  intros E b i s Hin. unfold run. rewrite Hwf'. rewrite Hcfg.
  set (g := in_force (fac_cfg fac) ms).
  rewrite (find_own_object (fun b0 => view_of b0 g) b Hin). apply charge_depends_only_on_own_field. apply view_same_prices. exact Hin.
Qed.

(* ================================================================== *)
(* 4. the generated registry: constructor argument and SetNewGasConfig *)
(*    read the function's own field                                    *)
(* ================================================================== *)
Definition gas_row_ok (b : binding) : bool :=
  sset_eqb (filter (String.prefix "b.gasConfig") (b_args b)) (expected_gas_args b)
  && match lookup_s (b_type b) gas_setters with
     | Some ps => sset_eqb (map snd ps) (expected_setter_sources b)
     | None => false
     end.

Lemma lookup_binding_In n : forall l b, lookup_binding n l = Some b -> In b l.
Proof.
  induction l as [|x r IH]; intros b H; [discriminate|]. cbn [lookup_binding] in H.
  destruct (beqb n (b_name x)); [inversion H; left; reflexivity|right; apply IH; exact H].
Qed.

Theorem gas_binding_ok :
  forall r, In r registry ->
  exists b, In b expected /\ row_of b = r /\ gas_row_ok b = true
            /\ lookup_binding (reg_name r) expected = Some b.
Proof.
  assert (Hall : forallb (fun r => match lookup_binding (reg_name r) expected with
                                   | Some b => row_eqb (row_of b) r && gas_row_ok b
                                   | None => false end) registry = true) by (vm_compute; reflexivity).
  intros r Hr. rewrite forallb_forall in Hall. specialize (Hall r Hr).
  destruct (lookup_binding (reg_name r) expected) as [b|] eqn:Hl; [|discriminate].
  apply andb_true_iff in Hall as [H1 H2]. apply row_eqb_true in H1.
  exists b. repeat split; try assumption.
  eapply lookup_binding_In; eassumption.
Qed.
