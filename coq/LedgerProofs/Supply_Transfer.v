(* Supply accounting over mixed histories, part 3: the three transfer functions, both sides, under the invariant that
   survives the other 20 functions: no negative balance under PROTOCOL keys (instead of C01's all-keys accts_nonneg).
   dest_side_P / origin_side_P are C01_Step.dest_side / origin_side with that weaker hypothesis (the post-state's
   non-negativity is not re-proved here: it follows for every function from C02_NonNeg.NonNeg_exec); issue_side is
   new: a destination-side ESDTTransfer executed as a call (the system contract's issuing transfer) credits the
   recipient out of nothing -- the shard total of P ++ tok grows by exactly the amount, no message is emitted. *)
From Coq.Strings Require Import String.
From Coq Require Import Lia List.
From EV Require Import Base.Bytes Base.Store Base.Monad gen.Consts Codec.Types Helpers.Helpers
  Parsers.Tokenize Parsers.CallArgs
  Ledger.Types Ledger.Env Ledger.Funcs Ledger.Transfers Ledger.World
  LedgerProofs.Defs LedgerProofs.EnvSpec LedgerProofs.WorldDefs LedgerProofs.WorldSpec
  LedgerProofs.Spec_Transfers_Base LedgerProofs.Spec_Transfers_Esdt LedgerProofs.Spec_Transfers_Nft
  LedgerProofs.Spec_Transfers_Multi LedgerProofs.Spec_Transfers LedgerProofs.C01_World LedgerProofs.C01_Step
  LedgerProofs.Supply_Base LedgerProofs.Supply_Multi.
Import ListNotations.

Section TransferP.
  Variable c : wcfg.
  Hypothesis Hc : codec_ok (wc_cdc c).
  Notation shof := (wc_shard_of c).

  (* no negative balance under a protocol key on the shard whose accounts are m0 *)
  Definition shard_nonneg_P (sh : N) (m0 : amap account) : Prop := st_nonneg_P (env_at c sh) (mk_state m0).

  Definition dest_ok_P (m0 : amap account) (m : msg) (i : input) (o : output) (s' : mstate) : Prop :=
    NoDup (map fst (accts s'))
    /\ (forall k, shard_total c k (accts s') = (shard_total c k m0 + qty c k m)%Z)
    /\ (forall oa, In oa (o_accounts o) -> oc_addr oa = i_rcpt i).
  Definition origin_ok_P (sh : N) (m0 : amap account) (fn : bytes) (i : input) (id : nat) (o : output) (s' : mstate) : Prop :=
    NoDup (map fst (accts s'))
    /\ Forall (msg_ok c) (collect c sh fn i id o)
    /\ (forall k, (shard_total c k (accts s') + inflight_total c k (collect c sh fn i id o))%Z = shard_total c k m0).

  (* ---------------- ESDTTransfer ---------------- *)
  Lemma dest_side_esdt_P sh m0 m i o s' :
    NoDup (map fst m0) ->
    m_fn m = C.BuiltInFunctionESDTTransfer -> i_args i = m_args m -> i_snd i = false -> i_dst i = true ->
    f_esdt_transfer (env_at c sh) i (mk_state m0) = (Ok o, s') -> dest_ok_P m0 m i o s'.
  Proof.
    intros Hnd Hfn Hargs Hsnd Hdst H.
    pose proof (esdt_transfer_spec (env_at c sh) Hc _ _ _ _ H) as Hp.
    pose proof (emitted_message_carries_debit_esdt c m i Hfn (eq_sym Hargs) (ep_nargs _ _ _ _ _ Hp)) as Hcr.
    split; [|split].
    - apply (transfer_shard_total_esdt (env_at c sh) Hc _ _ _ _ [] H Hnd).
    - intros k. destruct (transfer_shard_total_esdt (env_at c sh) Hc _ _ _ _ k H Hnd) as [_ Hs].
      rewrite !(shard_total_E c sh). cbn [accts mk_state] in Hs. rewrite Hs. unfold esdt_net, qty.
      rewrite Hcr, qty_list_single, Hsnd, Hdst. cbn [andb]. lia.
    - intros oa Hin. rewrite (esdt_out_accounts (env_at c sh) Hc _ _ _ _ H), Hdst in Hin.
      destruct (esdt_call_after i); [|contradiction]. destruct Hin as [<-|[]]. reflexivity.
  Qed.

  Lemma origin_side_esdt_P sh m0 i id o s' :
    NoDup (map fst m0) -> origin_call c sh i ->
    f_esdt_transfer (env_at c sh) i (mk_state m0) = (Ok o, s') ->
    origin_ok_P sh m0 C.BuiltInFunctionESDTTransfer i id o s'.
  Proof.
    intros Hnd (Hcal & Hsnd & Hdst) H. rewrite Hcal, N.eqb_refl in Hsnd.
    pose proof (esdt_transfer_spec (env_at c sh) Hc _ _ _ _ H) as Hp.
    pose proof (ep_pos _ _ _ _ _ Hp) as Hpos.
    pose proof (esdt_out_accounts (env_at c sh) Hc _ _ _ _ H) as Hout.
    assert (Hsum : forall k, shard_total c k (accts s') = (shard_total c k m0 + esdt_net i k)%Z).
    { intros k. destruct (transfer_shard_total_esdt (env_at c sh) Hc _ _ _ _ k H Hnd) as [_ Hs].
      rewrite !(shard_total_E c sh). exact Hs. }
    split; [apply (transfer_shard_total_esdt (env_at c sh) Hc _ _ _ _ [] H Hnd)|].
    destruct (i_dst i) eqn:Ed.
    - symmetry in Hdst. apply N.eqb_eq in Hdst.
      assert (Hcol : collect c sh C.BuiltInFunctionESDTTransfer i id o = []).
      { apply collect_all_local; [|left; exact Hdst]. intros oa Hin. rewrite Hout in Hin.
        destruct (esdt_call_after i); [|contradiction]. destruct Hin as [<-|[]]. exact Hdst. }
      rewrite Hcol. split; [constructor|]. intros k. rewrite Hsum. unfold esdt_net. rewrite Hsnd, Ed. cbn [andb inflight_total fold_right].
      destruct (beqb k (esdt_key i)); lia.
    - symmetry in Hdst. apply N.eqb_neq in Hdst.
      assert (Hmsg : exists m, collect c sh C.BuiltInFunctionESDTTransfer i id o = [m]
                 /\ m_fn m = C.BuiltInFunctionESDTTransfer /\ m_args m = i_args i
                 /\ m_caller m = i_caller i /\ m_dest m = i_rcpt i /\ m_sender m = i_caller i).
      { destruct (is_sc (i_caller i)) eqn:Esc.
        - eexists. split; [eapply collect_one_cross; [exact Hout|reflexivity|apply emittable_esdt|exact Hdst|exact Hcal]|].
          cbn. repeat split; reflexivity.
        - eexists. split.
          + rewrite (collect_none c _ _ _ _ _ Hout).
            apply N.eqb_neq in Hdst. rewrite Hdst. rewrite Hcal, N.eqb_refl, travels_esdt.
            pose proof (ep_not_meta _ _ _ _ _ Hp) as Hm. apply N.eqb_neq in Hm. cbn [shard_of env_at] in Hm. rewrite Hm.
            cbn [negb andb]. reflexivity.
          + cbn. repeat split; reflexivity. }
      destruct Hmsg as (m & Hcol & Hfn & Hargs & Hmc & Hmd & Hms). rewrite Hcol.
      pose proof (emitted_message_carries_debit_esdt c m i Hfn Hargs (ep_nargs _ _ _ _ _ Hp)) as Hcr.
      split.
      + constructor; [|constructor]. constructor.
        * rewrite Hfn. apply is_transfer_esdt.
        * rewrite Hmc, Hmd, Hcal. congruence.
        * rewrite Hms, Hmd, Hcal. congruence.
        * rewrite Hcr. constructor; [cbn [snd]; lia|constructor].
        * rewrite Hfn. intros Hx. exfalso. exact (fn_esdt_ne_multi Hx).
      + intros k. rewrite Hsum, (inflight_total_one c). unfold esdt_net, qty. rewrite Hcr, qty_list_single, Hsnd, Ed. cbn [andb].
        destruct (beqb k (esdt_key i)); lia.
  Qed.

  (* the issuing transfer: only the destination side runs, as a call; the recipient lives on the executing shard *)
  Lemma issue_side_esdt sh m0 i id o s' :
    NoDup (map fst m0) -> i_snd i = false -> i_dst i = true -> shof (i_rcpt i) = sh ->
    f_esdt_transfer (env_at c sh) i (mk_state m0) = (Ok o, s') ->
    NoDup (map fst (accts s'))
    /\ collect c sh C.BuiltInFunctionESDTTransfer i id o = []
    /\ (0 < bigZ (argn i 1))%Z
    /\ forall k, shard_total c k (accts s') =
                 (shard_total c k m0 + (if beqb k (P ++ argn i 0) then bigZ (argn i 1) else 0))%Z.
  Proof.
    intros Hnd Hsnd Hdst Hloc H.
    pose proof (esdt_transfer_spec (env_at c sh) Hc _ _ _ _ H) as Hp.
    pose proof (esdt_out_accounts (env_at c sh) Hc _ _ _ _ H) as Hout.
    split; [apply (transfer_shard_total_esdt (env_at c sh) Hc _ _ _ _ [] H Hnd)|].
    split.
    { apply collect_all_local; [|left; exact Hloc]. intros oa Hin. rewrite Hout, Hdst in Hin.
      destruct (esdt_call_after i); [|contradiction]. destruct Hin as [<-|[]]. exact Hloc. }
    split; [exact (ep_pos _ _ _ _ _ Hp)|].
    intros k. destruct (transfer_shard_total_esdt (env_at c sh) Hc _ _ _ _ k H Hnd) as [_ Hs].
    rewrite !(shard_total_E c sh). cbn [accts mk_state] in Hs. rewrite Hs. unfold esdt_net, esdt_key, esdt_val.
    rewrite Hsnd, Hdst. cbn [andb]. lia.
  Qed.

  (* ---------------- ESDTNFTTransfer ---------------- *)
  Lemma dest_side_nft_P sh m0 m i o s' :
    NoDup (map fst m0) -> shard_nonneg_P sh m0 -> Forall (fun kv => (0 <= snd kv)%Z) (credits c m) ->
    m_fn m = C.BuiltInFunctionESDTNFTTransfer -> i_args i = m_args m -> i_caller i <> i_rcpt i ->
    f_nft_transfer (env_at c sh) i (mk_state m0) = (Ok o, s') -> dest_ok_P m0 m i o s'.
  Proof.
    intros Hnd Hnn Hcn Hfn Hargs Hne H.
    destruct (nft_dest_post (env_at c sh) Hc _ _ _ _ H Hne) as (t & Hp).
    destruct (nft_transfer_spec (env_at c sh) Hc _ _ _ _ H) as (_ & Hlen & _).
    pose proof (nd_dec _ _ _ _ _ _ Hp) as Hdec. pose proof (nd_value _ _ _ _ _ _ Hp) as Hv.
    assert (Hcr : credits c m = [(nft_full i t, val_or_0 t)]).
    { unfold credits. rewrite Hfn, fn_nft_ne_esdt, beqb_refl, <- Hargs.
      unfold argn in Hdec. unfold nft_full, nft_tkey, argn. unfold alen in Hlen.
      destruct (i_args i) as [|a0 [|a1 [|a2 [|a3 r]]]]; cbn [length] in Hlen; try lia.
      cbn [nth] in *. unfold nft_credit. cbn [cdc env_at] in Hdec. rewrite Hdec, Hv. reflexivity. }
    rewrite Hcr in Hcn. inversion Hcn as [|kv l Hv0 _]; subst. cbn [snd] in Hv0.
    assert (Hge : (0 <= val_or_0 t + balance (env_at c sh) (mk_state m0) (i_rcpt i) (nft_full i t))%Z).
    { pose proof (nonneg_P_pkey _ _ _ (nft_full i t) (Hnn (i_rcpt i)) (pkey_nft _ _)). lia. }
    split; [|split].
    - destruct (transfer_shard_total_nft_dest (env_at c sh) Hc _ _ _ _ [] H Hne Hnd) as (t' & Hd' & _ & _ & Hs).
      assert (t' = t) by congruence. subst t'. apply (Hs Hge).
    - intros k. destruct (transfer_shard_total_nft_dest (env_at c sh) Hc _ _ _ _ k H Hne Hnd) as (t' & Hd' & _ & _ & Hs).
      assert (t' = t) by congruence. subst t'. destruct (Hs Hge) as [_ Hsum].
      rewrite !(shard_total_E c sh). cbn [accts mk_state] in Hsum. rewrite Hsum. unfold qty. rewrite Hcr, qty_list_single. reflexivity.
    - intros oa Hin. rewrite (nd_out _ _ _ _ _ _ Hp) in Hin. unfold nft_dest_out in Hin. cbv zeta in Hin.
      destruct (nft_call_after i (i_rcpt i)); cbn in Hin; [|contradiction]. destruct Hin as [<-|[]]. reflexivity.
  Qed.

  Lemma origin_side_nft_P sh m0 i id o s' :
    NoDup (map fst m0) -> shard_nonneg_P sh m0 -> origin_call c sh i ->
    lookup_consistent (env_at c sh) (mk_state m0) (i_caller i) (nft_tkey i) (nft_nonce i) ->
    f_nft_transfer (env_at c sh) i (mk_state m0) = (Ok o, s') ->
    origin_ok_P sh m0 C.BuiltInFunctionESDTNFTTransfer i id o s'.
  Proof.
    intros Hnd Hnn (Hcal & Hsnd & Hdst) Hlc H. rewrite Hcal, N.eqb_refl in Hsnd.
    assert (Heq : i_caller i = i_rcpt i).
    { pose proof (nft_transfer_needs_sender (env_at c sh) Hc _ _ _ _ H) as Hx.
      destruct (beqb_spec (i_caller i) (i_rcpt i)) as [He|_]; [exact He|]. destruct Hx; congruence. }
    assert (Hnnd : nft_same (env_at c sh) i = true -> (0 <= balance (env_at c sh) (mk_state m0) (nft_dst i) (nft_cell i))%Z).
    { intros _. apply nonneg_P_pkey; [apply Hnn|apply pkey_nft]. }
    destruct (nft_sender_post (env_at c sh) Hc _ _ _ _ H Heq) as (t0 & Hp).
    pose proof (ns_dst_ne _ _ _ _ _ _ Hp) as Hdne.
    pose proof (bigZ_nonneg (argn i 2)) as Hq. fold (nft_qty i) in Hq.
    assert (Hsum : forall k, shard_total c k (accts s') =
              (shard_total c k m0 + (if beqb k (nft_cell i) then (if nft_same (env_at c sh) i then 0 else - nft_qty i) else 0))%Z).
    { intros k. destruct (transfer_shard_total_nft_sender (env_at c sh) Hc _ _ _ _ k H Heq Hlc Hnnd Hnd) as [_ Hs].
      rewrite !(shard_total_E c sh). exact Hs. }
    split; [apply (transfer_shard_total_nft_sender (env_at c sh) Hc _ _ _ _ [] H Heq Hlc Hnnd Hnd)|].
    destruct (nft_same (env_at c sh) i) eqn:Esame.
    - assert (Hloc : shof (nft_dst i) = sh).
      { pose proof Esame as Es. unfold nft_same in Es. cbn [self_shard shard_of env_at] in Es. apply N.eqb_eq in Es. symmetry. exact Es. }
      assert (Hcol : collect c sh C.BuiltInFunctionESDTNFTTransfer i id o = []).
      { apply collect_all_local; [|right; exact travels_nft]. intros oa Hin.
        rewrite (ns_out _ _ _ _ _ _ Hp) in Hin. unfold nft_sender_out in Hin. cbv zeta in Hin. rewrite Esame in Hin. cbn [negb] in Hin.
        destruct (nft_call_after i (nft_dst i)); cbn in Hin; [|contradiction]. destruct Hin as [<-|[]]. exact Hloc. }
      rewrite Hcol. split; [constructor|]. intros k. rewrite Hsum. cbn [inflight_total fold_right].
      destruct (beqb k (nft_cell i)); lia.
    - assert (Hrem : shof (nft_dst i) <> sh).
      { pose proof Esame as Es. unfold nft_same in Es. cbn [self_shard shard_of env_at] in Es. apply N.eqb_neq in Es. unfold nft_dst. congruence. }
      destruct (nft_out_accounts_cross (env_at c sh) Hc _ _ _ _ H Heq Esame) as (t & Ht & Hwf & _ & Hout). cbv zeta in Hout.
      pose proof (collect_one_cross c sh C.BuiltInFunctionESDTNFTTransfer i id o _ _ _ _ Hout eq_refl emittable_nft Hrem Hcal) as Hcol.
      cbn [tr_sender tr_callType tr_gasLimit tr_gasLocked] in Hcol. rewrite Hcol.
      match goal with |- Forall _ [?m] /\ _ => set (msg0 := m) end.
      assert (Hcr : credits c msg0 = [(nft_cell i, nft_qty i)]).
      { rewrite (emitted_message_carries_debit_nft (env_at c sh) Hc c eq_refl msg0 (argn i 0) (argn i 1) (argn i 2) t (nft_qty i)
                   (skipn 4 (i_args i)) Hwf eq_refl eq_refl).
        unfold nft_cell, nft_tkey. rewrite (Hlc t Ht). reflexivity. }
      split.
      + constructor; [|constructor]. constructor.
        * apply is_transfer_nft.
        * cbn [m_caller m_dest msg0]. congruence.
        * cbn [m_sender m_dest msg0]. congruence.
        * rewrite Hcr. constructor; [cbn [snd]; lia|constructor].
        * cbn [m_fn msg0]. intros Hx. exfalso. exact (fn_nft_ne_multi Hx).
      + intros k. rewrite Hsum, (inflight_total_one c). unfold qty. rewrite Hcr, qty_list_single.
        destruct (beqb k (nft_cell i)); lia.
  Qed.

  (* ---------------- MultiESDTNFTTransfer ---------------- *)
  Lemma dest_side_multi_P sh m0 m i o s' :
    NoDup (map fst m0) -> shard_nonneg_P sh m0 -> Forall (fun kv => (0 <= snd kv)%Z) (credits c m) ->
    m_fn m = C.BuiltInFunctionMultiESDTNFTTransfer -> (be_to_N (nth 0 (m_args m) []) < two64)%N ->
    i_args i = m_args m -> i_caller i <> i_rcpt i ->
    f_multi_transfer (env_at c sh) i (mk_state m0) = (Ok o, s') -> dest_ok_P m0 m i o s'.
  Proof.
    intros Hnd Hnn Hcn Hfn Hcount Hargs Hne H.
    assert (Hcr : credits c m = dst_credits (env_at c sh) (multi_dst_triples i)).
    { apply (delivered_message_credits_multi (env_at c sh) Hc c eq_refl m i _ _ _ H Hne Hfn (eq_sym Hargs)).
      unfold argn. rewrite Hargs. exact Hcount. }
    rewrite Hcr in Hcn.
    pose proof (Hnn (i_rcpt i)) as Hnnr.
    split; [|split].
    - apply (transfer_shard_total_multi_dest_P (env_at c sh) Hc _ _ _ _ [] H Hne Hnnr Hcn Hnd).
    - intros k. destruct (transfer_shard_total_multi_dest_P (env_at c sh) Hc _ _ _ _ k H Hne Hnnr Hcn Hnd) as [_ Hsum].
      rewrite !(shard_total_E c sh). cbn [accts mk_state] in Hsum. rewrite Hsum. unfold qty. rewrite Hcr. reflexivity.
    - intros oa Hin. pose proof (multi_dest_post (env_at c sh) Hc _ _ _ _ H Hne) as Hp.
      rewrite (mq_out _ _ _ _ _ Hp) in Hin. unfold multi_dest_out in Hin. cbv zeta in Hin.
      destruct ((multi_min 1 (multi_n_dst i) <? alen (i_args i))%N && is_sc (i_rcpt i))%bool; cbn in Hin; [|contradiction].
      destruct Hin as [<-|[]]. reflexivity.
  Qed.

  Lemma origin_side_multi_P sh m0 i id o s' :
    NoDup (map fst m0) -> shard_nonneg_P sh m0 -> origin_call c sh i ->
    triples_consistent (env_at c sh) (mk_state m0) (i_caller i) (multi_snd_triples i) ->
    f_multi_transfer (env_at c sh) i (mk_state m0) = (Ok o, s') ->
    origin_ok_P sh m0 C.BuiltInFunctionMultiESDTNFTTransfer i id o s'.
  Proof.
    intros Hnd Hnn (Hcal & Hsnd & Hdst) Hcons H. rewrite Hcal, N.eqb_refl in Hsnd.
    assert (Heq : i_caller i = i_rcpt i).
    { pose proof (multi_transfer_needs_sender (env_at c sh) Hc _ _ _ _ H) as Hx.
      destruct (beqb_spec (i_caller i) (i_rcpt i)) as [He|_]; [exact He|]. destruct Hx; congruence. }
    assert (Hnnd : multi_same (env_at c sh) i = true -> nonneg_P (env_at c sh) (mk_state m0) (multi_dst i))
      by (intros _; apply Hnn).
    destruct (multi_sender_effects_P (env_at c sh) Hc _ _ _ _ H Heq Hcons Hnnd) as (lst & Hp & Hb & Hf & Hnd' & Hpos).
    pose proof (mp_dst_ne _ _ _ _ _ _ Hp) as Hdne.
    assert (Hsum : forall k, shard_total c k (accts s') =
              (shard_total c k m0 + (if multi_same (env_at c sh) i then 0 else - qty_list k (debit_list (multi_snd_triples i))))%Z).
    { intros k. destruct (transfer_shard_total_multi_sender_P (env_at c sh) Hc _ _ _ _ k H Heq Hcons Hnnd Hnd) as [_ Hs].
      rewrite !(shard_total_E c sh). exact Hs. }
    split; [apply (transfer_shard_total_multi_sender_P (env_at c sh) Hc _ _ _ _ [] H Heq Hcons Hnnd Hnd)|].
    destruct (multi_same (env_at c sh) i) eqn:Esame.
    - assert (Hloc : shof (multi_dst i) = sh).
      { pose proof Esame as Es. unfold multi_same in Es. cbn [self_shard shard_of env_at] in Es. apply N.eqb_eq in Es. symmetry. exact Es. }
      assert (Hcol : collect c sh C.BuiltInFunctionMultiESDTNFTTransfer i id o = []).
      { apply collect_all_local; [|right; exact travels_multi]. intros oa Hin.
        rewrite (mp_out _ _ _ _ _ _ Hp) in Hin. unfold multi_sender_out in Hin. cbv zeta in Hin. rewrite Esame in Hin. cbn [negb] in Hin.
        destruct ((multi_min 2 (multi_n_snd i) <? alen (i_args i))%N && is_sc (multi_dst i))%bool; cbn in Hin; [|contradiction].
        destruct Hin as [<-|[]]. exact Hloc. }
      rewrite Hcol. split; [constructor|]. intros k. rewrite Hsum. cbn [inflight_total fold_right]. lia.
    - assert (Hrem : shof (multi_dst i) <> sh).
      { pose proof Esame as Es. unfold multi_same in Es. cbn [self_shard shard_of env_at] in Es. apply N.eqb_neq in Es.
        unfold multi_dst. congruence. }
      pose proof (multi_out_accounts_cross (env_at c sh) _ _ _ _ _ Hp Esame) as Hout. cbv zeta in Hout.
      pose proof (collect_one_cross c sh C.BuiltInFunctionMultiESDTNFTTransfer i id o _ _ _ _ Hout eq_refl emittable_multi Hrem Hcal) as Hcol.
      cbn [tr_sender tr_callType tr_gasLimit tr_gasLocked] in Hcol. rewrite Hcol.
      match goal with |- Forall _ [?m] /\ _ => set (msg0 := m) end.
      destruct (travel_ok_credits _ _ Hf) as [Hmap Hgood].
      assert (Hcr : credits c msg0 = debit_list (multi_snd_triples i)).
      { rewrite <- Hmap.
        apply (emitted_message_credits_multi (env_at c sh) Hc c eq_refl msg0 (multi_n_snd i) lst
                 (skipn (N.to_nat (multi_min 2 (multi_n_snd i))) (i_args i))); [apply bigU64_lt| |exact Hgood|reflexivity|reflexivity].
        rewrite <- (forall2_length _ _ _ Hf). unfold multi_snd_triples. apply multi_triples_length. }
      split.
      + constructor; [|constructor]. constructor.
        * apply is_transfer_multi.
        * cbn [m_caller m_dest msg0]. congruence.
        * cbn [m_sender m_dest msg0]. congruence.
        * rewrite Hcr. apply debit_list_nonneg.
        * intros _. cbn [m_args msg0 app nth]. unfold u64_bytes. rewrite be_to_N_to_be. apply bigU64_lt.
      + intros k. rewrite Hsum, (inflight_total_one c). unfold qty. rewrite Hcr. lia.
  Qed.

  (* ---------------- through the dispatch ---------------- *)
  Lemma dest_side_P sh m0 m i o s' :
    NoDup (map fst m0) -> shard_nonneg_P sh m0 -> msg_ok c m ->
    i_args i = m_args m -> i_snd i = false -> i_dst i = true -> i_caller i <> i_rcpt i ->
    exec (env_at c sh) (m_fn m) i (mk_state m0) = (Ok o, s') -> dest_ok_P m0 m i o s'.
  Proof.
    intros Hnd Hnn [Hfn _ _ Hcn Hcount] Hargs Hsnd Hdst Hne H.
    destruct (exec_transfer_cases (env_at c sh) (m_fn m) i Hfn) as [[Hf He]|[[Hf He]|[Hf He]]]; rewrite He in H.
    - eapply dest_side_esdt_P; eauto.
    - eapply dest_side_nft_P; eauto.
    - eapply dest_side_multi_P; eauto.
  Qed.

  Lemma origin_side_P sh m0 fn i id o s' :
    NoDup (map fst m0) -> shard_nonneg_P sh m0 -> is_transfer_fn fn = true -> origin_call c sh i ->
    call_consistent_at c m0 sh fn i ->
    exec (env_at c sh) fn i (mk_state m0) = (Ok o, s') -> origin_ok_P sh m0 fn i id o s'.
  Proof.
    intros Hnd Hnn Hfn Hor [Hc1 Hc2] H.
    destruct (exec_transfer_cases (env_at c sh) fn i Hfn) as [[Hf He]|[[Hf He]|[Hf He]]]; rewrite He in H; subst fn.
    - eapply origin_side_esdt_P; eauto.
    - eapply origin_side_nft_P; eauto.
    - eapply origin_side_multi_P; eauto.
  Qed.
End TransferP.

Print Assumptions dest_side_P.
Print Assumptions origin_side_P.
Print Assumptions issue_side_esdt.
