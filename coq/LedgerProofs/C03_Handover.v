(* C03 (authority), part 2c: where hand-over messages come from (world level, Ledger/World.v).
   The destination-side branch of ESDTNFTCreateRoleTransfer has no authorisation of its own; this file shows that
   in the world model the only executions that put a message NAMED ESDTNFTCreateRoleTransfer in flight are
   successful ESDTNFTCreateRoleTransfer executions whose caller is the ESDT system contract, and that this is an
   invariant of histories ([m_sender] of every in-flight hand-over message is SC).
   Uses LedgerProofs/C07_Emit.v (shape of the output transfers of all 23 functions: [collect_not_handover]). *)
From Coq.Strings Require Import String.
From EV Require Import Base.Bytes Base.Store Base.Monad gen.Consts Codec.Types Helpers.Helpers
  Parsers.Tokenize Parsers.CallArgs Ledger.Types Ledger.Env Ledger.Funcs Ledger.Transfers Ledger.World
  LedgerProofs.Defs LedgerProofs.EnvSpec LedgerProofs.WorldDefs LedgerProofs.WorldSpec
  LedgerProofs.Spec_Transfers_Base LedgerProofs.Spec_System LedgerProofs.C07_Emit.

Section Handover.
  Variable c : wcfg.
  Hypothesis Hc : codec_ok (wc_cdc c).
  Notation HO := C.BuiltInFunctionESDTNFTCreateRoleTransfer.

  (* the recipient-presence flag of the input is truthful (node semantics, DESIGN 3.4) *)
  Definition dst_presence_ok (sh : N) (i : input) : Prop := i_dst i = (wc_shard_of c (i_rcpt i) =? sh)%N.

  (* a message named ESDTNFTCreateRoleTransfer among the messages one successful execution puts in flight:
     the execution was ESDTNFTCreateRoleTransfer itself and its caller was the system contract *)
  Theorem handover_messages_come_from_sc sh f i id s o s' m :
    exec (env_at c sh) f i s = (Ok o, s') -> dst_presence_ok sh i ->
    In m (collect c sh f i id o) -> m_fn m = HO ->
    f = HO /\ i_caller i = SC.
  Proof.
    intros H Hp Hin Hm. destruct (beqb_spec f HO) as [->|Hne].
    - split; [reflexivity|]. destruct (beqb_spec (i_caller i) SC) as [Hsc|Hsc]; [exact Hsc|exfalso].
      rewrite (exec_role_transfer (env_at c sh)) in H.
      apply (role_transfer_delivered_spec (env_at c sh) Hc) in H as (_ & tok & a1 & _ & -> & _); [|exact Hsc].
      rewrite (collect_no_accounts c sh HO i id (mk_out rcOk 0) eq_refl (travels_CRT)) in Hin. destruct Hin.
    - exfalso. exact (collect_not_handover c sh f i id o s s' H (fun _ => Hp) Hne m Hin Hm).
  Qed.

  (* the refund target recorded in every collected message is the caller of the emitting execution *)
  Lemma c03_collect_transfers_sender sh i dest ts : forall id m,
    In m (collect_transfers c sh i id dest ts) -> m_sender m = i_caller i.
  Proof.
    induction ts as [|t r IH]; intros id m Hin; [destruct Hin|].
    cbn [collect_transfers] in Hin. destruct (msg_of_transfer c sh i id dest t) as [m0|] eqn:Em.
    - destruct Hin as [<-|Hin]; [|eapply IH; exact Hin].
      unfold msg_of_transfer in Em. destruct (tr_data t); [discriminate|].
      destruct (parse_call_data _) as [[fn args]|]; [|discriminate].
      repeat match type of Em with (if ?b then _ else _) = _ => destruct b; [discriminate|] end.
      inversion Em. reflexivity.
    - eapply IH; exact Hin.
  Qed.
  Lemma c03_collect_accounts_sender sh i oas : forall id m,
    In m (collect_accounts c sh i id oas) -> m_sender m = i_caller i.
  Proof.
    induction oas as [|oa r IH]; intros id m Hin; [destruct Hin|].
    cbn [collect_accounts] in Hin. apply in_app_or in Hin as [Hin|Hin].
    - eapply c03_collect_transfers_sender; exact Hin.
    - eapply IH; exact Hin.
  Qed.
  Lemma c03_collect_sender sh f i id o m : In m (collect c sh f i id o) -> m_sender m = i_caller i.
  Proof.
    unfold collect. destruct (collect_accounts c sh i id (o_accounts o)) as [|m0 ms] eqn:Ec.
    - destruct (_ && travels f)%bool; [|intros []]. intros [<-|[]]. reflexivity.
    - rewrite <- Ec. apply c03_collect_accounts_sender.
  Qed.

  (* ---- over histories ---- *)
  (* every in-flight hand-over message was emitted by an execution whose caller was the system contract *)
  Definition handovers_from_sc (w : world) : Prop :=
    forall m, In m (inflight w) -> m_fn m = HO -> m_sender m = SC.
  (* transactions / system calls are executed with a truthful recipient-presence flag *)
  Definition c03_op_ok (op : wop) : Prop :=
    match op with OCall sh f i => dst_presence_ok sh i | _ => True end.

  Lemma deliver_input_presence m sh gas : sh = wc_shard_of c (m_dest m) -> dst_presence_ok sh (deliver_input c m sh gas).
  Proof. intros ->. unfold dst_presence_ok, deliver_input. cbn [i_dst i_rcpt]. rewrite N.eqb_refl. reflexivity. Qed.

  Theorem handovers_from_sc_step w op : handovers_from_sc w -> c03_op_ok op -> handovers_from_sc (wstep c w op).
  Proof.
    intros Hw Hop.
    destruct (wstep_cases c w op) as [->| id gas m _ _ -> | sh fn i o s' -> _ Hx ->
                                      | id gas m o s' consume Hopeq Hf sh _ Hx -> | id gas m o s' -> Hf _ sh _ Hx ->].
    - exact Hw.
    - exact Hw.
    - intros m Hin Hm. cbn [inflight with_msgs] in Hin. apply in_app_or in Hin as [Hin|Hin]; [apply Hw; assumption|].
      destruct (handover_messages_come_from_sc _ _ _ _ _ _ _ _ Hx Hop Hin Hm) as [_ Hsc].
      rewrite (c03_collect_sender _ _ _ _ _ _ Hin). exact Hsc.
    - intros m' Hin Hm. cbn [inflight with_msgs] in Hin. apply in_app_or in Hin as [Hin|Hin].
      + apply Hw; [|exact Hm]. destruct consume; [eapply in_drop_msg; exact Hin|exact Hin].
      + assert (Hp : dst_presence_ok sh (deliver_input c m sh gas)) by (apply deliver_input_presence; reflexivity).
        destruct (handover_messages_come_from_sc _ _ _ _ _ _ _ _ Hx Hp Hin Hm) as [_ Hsc].
        rewrite (c03_collect_sender _ _ _ _ _ _ Hin). exact Hsc.
    - intros m' Hin Hm. cbn [inflight with_msgs] in Hin. apply Hw; [|exact Hm]. eapply in_drop_msg; exact Hin.
  Qed.
  Theorem handovers_from_sc_run ops : forall w,
    handovers_from_sc w -> Forall c03_op_ok ops -> handovers_from_sc (wrun c w ops).
  Proof. apply (wrun_invariant c handovers_from_sc c03_op_ok). intros w op. apply handovers_from_sc_step. Qed.

  (* hence: in a history that starts without in-flight messages, whenever a hand-over message is delivered
     (successfully or not), that message was put in flight by an execution whose caller was the system contract *)
  Corollary delivered_handover_was_emitted_by_sc w0 ops id m :
    inflight w0 = [] -> Forall c03_op_ok ops ->
    find_msg (inflight (wrun c w0 ops)) id = Some m -> m_fn m = HO -> m_sender m = SC.
  Proof.
    intros H0 Hops Hf Hm. apply find_msg_In in Hf as [Hin _].
    apply (handovers_from_sc_run ops w0); try assumption. intros m' Hin'. rewrite H0 in Hin'. destruct Hin'.
  Qed.
End Handover.

Print Assumptions handover_messages_come_from_sc.
Print Assumptions handovers_from_sc_run.
Print Assumptions delivered_handover_was_emitted_by_sc.
