(* C07, part 4: a boolean checker of the discipline (sound: [disciplinedb_ok]), re-delivery with no create in
   between ([redelivery_idempotent]), and concrete histories evaluated by vm_compute with [ideal_codec]
   (which satisfies [codec_ok]): a disciplined history with a cross-shard hand-over (non-vacuity of
   [nonces_unique_histories]) and the F9 witnesses ([nonces_unique_redelivery_refuted], [two_holders_redelivery_refuted],
   [forged_handover_refuted]). *)
From Coq.Strings Require Import String.
From Coq Require Import Lia List Sorted.
From EV Require Import Base.Bytes Base.Store Base.Monad gen.Consts Codec.Types Codec.Proto Codec.Ideal Codec.CodecOk
  Helpers.Helpers Ledger.Types Ledger.Env Ledger.Funcs Ledger.Transfers Ledger.World Corr.Exec
  LedgerProofs.Defs LedgerProofs.EnvSpec LedgerProofs.WorldDefs LedgerProofs.WorldSpec
  LedgerProofs.Spec_Transfers_Base LedgerProofs.Spec_System LedgerProofs.C07_Exec LedgerProofs.C07_Emit
  LedgerProofs.C07_World LedgerProofs.C07_Redelivery.
Import ListNotations.

(* ------------------------------------------------------------------ *)
(* boolean discipline                                                   *)
(* ------------------------------------------------------------------ *)
Section Check.
  Variable c : wcfg.
  Variable tok : bytes.
  Notation shof := (wc_shard_of c).

  Definition holderb (w : world) (sh : N) (a : bytes) : bool := (0 <? ncreate c w tok sh a)%nat.
  Definition dst_okb (op : wop) : bool :=
    match op with
    | OCall sh fn i => negb (is_transfer_fn fn) || Bool.eqb (i_dst i) (shof (i_rcpt i) =? sh)%N
    | _ => true
    end.
  Definition step_okb (g : bool) (w : world) (op : wop) : bool :=
    dst_okb op &&
    match op_exec c w op with
    | None => true
    | Some (sh, fn, i) =>
      let t0 := beqb (argn i 0) tok in
      let hasCR := bytes_in CR (tl (i_args i)) in
      let sc := beqb (i_caller i) SC in
      (negb (beqb fn FSetRole && sc && t0 && hasCR) || (negb g && Nat.eqb (cnt CR (tl (i_args i))) 1))
      && negb (beqb fn FUnSetRole && sc && t0 && hasCR)
      && (negb (beqb fn CRT && t0 && negb (i_snd i))
          || match op with
             | OCall _ _ _ => beqb (i_caller i) SC && holderb w sh (i_rcpt i)
             | ODeliver _ _ | ORefund _ _ => true
             | ORedeliver _ _ => false
             end)
    end.
  Lemma step_okb_ok g w op : step_okb g w op = true -> step_ok c tok g w op.
  Proof.
    unfold step_okb, step_ok. intros H. apply andb_prop in H as [Hd H]. split.
    { destruct op; cbn [dst_okb dst_ok] in *; auto. intros Ht. rewrite Ht in Hd. cbn [negb orb] in Hd.
      apply Bool.eqb_prop. exact Hd. }
    destruct (op_exec c w op) as [[[sh fn] i]|]; [|exact I]. cbv zeta in H.
    apply andb_prop in H as [H H3]. apply andb_prop in H as [H1 H2]. split; [|split].
    - intros (Hf & Hsc & Ht & Hin). rewrite Hf, Hsc, Ht, !beqb_refl in H1. apply bytes_in_true in Hin. rewrite Hin in H1.
      cbn [andb negb orb] in H1. apply andb_prop in H1 as [Hg Hn]. split.
      + destruct g; [discriminate|reflexivity].
      + apply Nat.eqb_eq. exact Hn.
    - intros (Hf & Hsc & Ht & Hin). rewrite Hf, Hsc, Ht, !beqb_refl in H2. apply bytes_in_true in Hin. rewrite Hin in H2. discriminate.
    - intros ((Hf & Ht) & Hsnd). rewrite Hf, Ht, Hsnd, !beqb_refl in H3. cbn [andb negb orb] in H3.
      destruct op; auto; [|discriminate]. apply andb_prop in H3 as [Hs Hh]. split; [apply beqb_true; exact Hs|].
      unfold holderb in Hh. apply Nat.ltb_lt in Hh. exact Hh.
  Qed.
  Fixpoint disciplinedb (g : bool) (w : world) (ops : list wop) : bool :=
    match ops with
    | [] => true
    | op :: r => step_okb g w op && disciplinedb (g || grant_attempt c tok w op) (wstep c w op) r
    end.
  Lemma disciplinedb_ok : forall ops g w, disciplinedb g w ops = true -> disciplined c tok g w ops.
  Proof.
    induction ops as [|op r IH]; intros g w H; [exact I|]. cbn [disciplinedb] in H. apply andb_prop in H as [H1 H2].
    split; [apply step_okb_ok; exact H1|apply IH; exact H2].
  Qed.

  Definition step_nowrapb (w : world) (op : wop) : bool :=
    match op_exec c w op with
    | Some (sh, fn, i) =>
      negb (beqb fn FCreate && beqb (argn i 0) tok) || (wcounter w tok sh (i_caller i) + 1 <? two64)%N
    | None => true
    end.
  Fixpoint nowrapb (w : world) (ops : list wop) : bool :=
    match ops with [] => true | op :: r => step_nowrapb w op && nowrapb (wstep c w op) r end.
  Lemma nowrapb_ok : forall ops w, nowrapb w ops = true -> nowrap c tok w ops.
  Proof.
    induction ops as [|op r IH]; intros w H; [exact I|]. cbn [nowrapb] in H. apply andb_prop in H as [H1 H2].
    split; [|apply IH; exact H2]. unfold step_nowrapb in H1. unfold step_nowrap.
    destruct (op_exec c w op) as [[[sh fn] i]|]; [|exact I]. intros Hf Ht. rewrite Hf, Ht, !beqb_refl in H1.
    cbn in H1. apply N.ltb_lt. exact H1.
  Qed.

  (* ---- the permissive discipline of C07_Redelivery.v ---- *)
  Fixpoint args_eqb (a b : list bytes) : bool :=
    match a, b with [], [] => true | x :: a', y :: b' => beqb x y && args_eqb a' b' | _, _ => false end.
  Lemma args_eqb_true : forall a b, args_eqb a b = true -> a = b.
  Proof.
    induction a as [|x a IH]; destruct b as [|y b]; cbn [args_eqb]; try discriminate; [reflexivity|].
    intros H. apply andb_prop in H as [H1 H2]. apply beqb_true in H1. rewrite H1, (IH _ H2). reflexivity.
  Qed.
  Definition msg_eqb (a b : msg) : bool :=
    Nat.eqb (m_id a) (m_id b) && beqb (m_fn a) (m_fn b) && beqb (m_caller a) (m_caller b) && beqb (m_dest a) (m_dest b)
    && args_eqb (m_args a) (m_args b) && (m_callType a =? m_callType b)%N && (m_gasLimit a =? m_gasLimit b)%N
    && (m_locked a =? m_locked b)%N && (m_origin a =? m_origin b)%N && beqb (m_sender a) (m_sender b).
  Lemma msg_eqb_true a b : msg_eqb a b = true -> a = b.
  Proof.
    unfold msg_eqb. intros H. repeat (apply andb_prop in H as [H ?]).
    destruct a, b. cbn in *.
    repeat match goal with
           | Hx : Nat.eqb _ _ = true |- _ => apply Nat.eqb_eq in Hx
           | Hx : beqb _ _ = true |- _ => apply beqb_true in Hx
           | Hx : args_eqb _ _ = true |- _ => apply args_eqb_true in Hx
           | Hx : (_ =? _)%N = true |- _ => apply N.eqb_eq in Hx
           end.
    subst. reflexivity.
  Qed.
  Lemma aget_notin {A} (d : A) (l : amap A) a : bytes_in a (map fst l) = false -> aget d l a = d.
  Proof.
    induction l as [|[a' x] r IH]; [reflexivity|]. unfold bytes_in. cbn [map fst existsb aget]. intros H.
    apply Bool.orb_false_iff in H as [H1 H2]. rewrite H1. apply IH. exact H2.
  Qed.
  Definition no_holderb (w : world) : bool :=
    forallb (fun k => forallb (fun a => negb (holderb w (N.of_nat k) a)) (map fst (nth k (shards w) [])))
            (seq 0 (length (shards w))).
  Lemma no_holderb_ok w : no_holderb w = true -> no_holder c tok w.
  Proof.
    intros H sh a Hh. unfold no_holderb in H. rewrite forallb_forall in H.
    destruct (bytes_in a (map fst (shard_accts w sh))) eqn:Ein.
    - apply bytes_in_true in Ein.
      destruct (Nat.lt_ge_cases (N.to_nat sh) (length (shards w))) as [Hlt|Hge].
      + assert (Hk : In (N.to_nat sh) (seq 0 (length (shards w)))) by (apply in_seq; lia).
        specialize (H _ Hk). rewrite forallb_forall in H. fold (shard_accts w sh) in H. specialize (H _ Ein).
        rewrite N2Nat.id in H. unfold holderb in H. apply Bool.negb_true_iff, Nat.ltb_ge in H.
        unfold holder in Hh. lia.
      + unfold shard_accts in Ein. rewrite nth_overflow in Ein by exact Hge. destruct Ein.
    - unfold holder, ncreate, wroles, roles_at, cell, acct, wst, mk_state in Hh. cbn [accts] in Hh.
      rewrite (aget_notin _ _ _ Ein) in Hh. unfold empty_account in Hh. cbn [a_store] in Hh. rewrite sget_nil in Hh.
      cbn in Hh. lia.
  Qed.
  Definition step_okb_r (g : bool) (w : world) (op : wop) : bool :=
    dst_okb op &&
    match op_exec c w op with
    | None => true
    | Some (sh, fn, i) =>
      let t0 := beqb (argn i 0) tok in
      let hasCR := bytes_in CR (tl (i_args i)) in
      let sc := beqb (i_caller i) SC in
      let deliv (id : nat) :=
        (no_holderb w
         && match find_msg (inflight w) id with
            | Some m => match rev (hmsgs tok (inflight w)) with m' :: _ => msg_eqb m' m | [] => false end
            | None => true
            end)
        || (holderb w sh (i_rcpt i) && (wcounter w tok sh (i_rcpt i) =? bigU64 (argn i 1))%N) in
      (negb (beqb fn FSetRole && sc && t0 && hasCR) || (negb g && Nat.eqb (cnt CR (tl (i_args i))) 1))
      && negb (beqb fn FUnSetRole && sc && t0 && hasCR)
      && (negb (beqb fn CRT && t0 && negb (i_snd i))
          || match op with
             | OCall _ _ _ => beqb (i_caller i) SC && holderb w sh (i_rcpt i)
             | ODeliver id _ | ORedeliver id _ | ORefund id _ => deliv id
             end)
    end.
  Lemma step_okb_r_ok g w op : step_okb_r g w op = true -> step_ok_r c tok g w op.
  Proof.
    unfold step_okb_r, step_ok_r. intros H. apply andb_prop in H as [Hd H]. split.
    { destruct op; cbn [dst_okb dst_ok] in *; auto. intros Ht. rewrite Ht in Hd. cbn [negb orb] in Hd.
      apply Bool.eqb_prop. exact Hd. }
    destruct (op_exec c w op) as [[[sh fn] i]|]; [|exact I]. cbv zeta in H.
    apply andb_prop in H as [H H3]. apply andb_prop in H as [H1 H2]. split; [|split].
    - intros (Hf & Hsc & Ht & Hin). rewrite Hf, Hsc, Ht, !beqb_refl in H1. apply bytes_in_true in Hin. rewrite Hin in H1.
      cbn [andb negb orb] in H1. apply andb_prop in H1 as [Hg Hn]. split.
      + destruct g; [discriminate|reflexivity].
      + apply Nat.eqb_eq. exact Hn.
    - intros (Hf & Hsc & Ht & Hin). rewrite Hf, Hsc, Ht, !beqb_refl in H2. apply bytes_in_true in Hin. rewrite Hin in H2. discriminate.
    - intros ((Hf & Ht) & Hsnd). rewrite Hf, Ht, Hsnd, !beqb_refl in H3. cbn [andb negb orb] in H3.
      assert (Hdel : forall id,
                ((no_holderb w
                  && match find_msg (inflight w) id with
                     | Some m => match rev (hmsgs tok (inflight w)) with m' :: _ => msg_eqb m' m | [] => false end
                     | None => true
                     end)
                 || (holderb w sh (i_rcpt i) && (wcounter w tok sh (i_rcpt i) =? bigU64 (argn i 1))%N))%bool = true ->
                (no_holder c tok w /\ forall m, find_msg (inflight w) id = Some m -> exists l, hmsgs tok (inflight w) = l ++ [m])
                \/ (holder c w tok sh (i_rcpt i) /\ wcounter w tok sh (i_rcpt i) = bigU64 (argn i 1))).
      { intros id Hx. apply Bool.orb_true_iff in Hx as [Hx|Hx]; apply andb_prop in Hx as [Hx1 Hx2].
        - left. split; [apply no_holderb_ok; exact Hx1|]. intros m Hfm. rewrite Hfm in Hx2.
          destruct (rev (hmsgs tok (inflight w))) as [|m' r] eqn:Er; [discriminate|].
          apply msg_eqb_true in Hx2. subst m'. exists (rev r). rewrite <- (rev_involutive (hmsgs tok (inflight w))), Er.
          reflexivity.
        - right. split; [unfold holderb in Hx1; apply Nat.ltb_lt in Hx1; exact Hx1|apply N.eqb_eq; exact Hx2]. }
      destruct op; auto. apply andb_prop in H3 as [Hs Hh]. split; [apply beqb_true; exact Hs|].
      unfold holderb in Hh. apply Nat.ltb_lt in Hh. exact Hh.
  Qed.
  Fixpoint disciplinedb_r (g : bool) (w : world) (ops : list wop) : bool :=
    match ops with
    | [] => true
    | op :: r => step_okb_r g w op && disciplinedb_r (g || grant_attempt c tok w op) (wstep c w op) r
    end.
  Lemma disciplinedb_r_ok : forall ops g w, disciplinedb_r g w ops = true -> disciplined_r c tok g w ops.
  Proof.
    induction ops as [|op r IH]; intros g w H; [exact I|]. cbn [disciplinedb_r] in H. apply andb_prop in H as [H1 H2].
    split; [apply step_okb_r_ok; exact H1|apply IH; exact H2].
  Qed.

  (* a world without accounts and without messages is a legitimate start *)
  Definition empty_world (n : nat) : world := {| shards := repeat [] n; inflight := []; failed := []; next_id := 0 |}.
  Lemma nth_repeat_same {A} (x : A) (n k : nat) : nth k (repeat x n) x = x.
  Proof. revert k. induction n as [|n IH]; intros [|k]; cbn; auto. Qed.
  Lemma init_ok_empty n : wc_nshards c = N.of_nat n -> init_ok c tok (empty_world n).
  Proof.
    intros Hn. split; [|split].
    - unfold wf_world, empty_world. cbn [shards]. rewrite repeat_length, Hn, Nnat.Nat2N.id. lia.
    - reflexivity.
    - intros sh a Hh. unfold holder, ncreate, wroles, wst, shard_accts, empty_world in Hh. cbn [shards] in Hh.
      rewrite (nth_repeat_same (@nil (bytes * account))) in Hh. unfold roles_at, cell, acct, mk_state in Hh. cbn [accts aget] in Hh.
      unfold empty_account in Hh. cbn [a_store] in Hh. rewrite sget_nil in Hh. cbn in Hh. lia.
  Qed.
End Check.

(* ------------------------------------------------------------------ *)
(* re-delivery with no create in between                                *)
(* ------------------------------------------------------------------ *)
Section Redelivery.
  Variable c : wcfg.
  Hypothesis Hc : codec_ok (wc_cdc c).
  Notation shof := (wc_shard_of c).

  (* Delivering a hand-over message again WITHOUT consuming it, at a destination that still has the carried
     counter and the create role, changes no counter and no role list anywhere (the delivered branch writes the
     same counter and finds the role present), whether or not the execution succeeds. *)
  Theorem redelivery_idempotent w id gas m :
    wf_world c w -> find_msg (inflight w) id = Some m -> m_fn m = CRT -> m_caller m <> SC ->
    let sh := shof (m_dest m) in let t := nth 0 (m_args m) [] in
    wcounter w t sh (m_dest m) = bigU64 (nth 1 (m_args m) []) ->
    holder c w t sh (m_dest m) ->
    let w' := wstep c w (ORedeliver id gas) in
    (forall t' sh' a, wcounter w' t' sh' a = wcounter w t' sh' a)
    /\ (forall t' sh' a, wroles c w' t' sh' a = wroles c w t' sh' a).
  Proof.
    intros Hwf Hfind Hfn Hcl sh t Hcn Hh w'.
    pose proof (wstep_shape c w (ORedeliver id gas)) as Hs. cbn [op_exec] in Hs. rewrite Hfind in Hs. cbv zeta in Hs.
    fold sh in Hs.
    assert (Hsame : shards w' = shards w ->
                    (forall t' sh' a, wcounter w' t' sh' a = wcounter w t' sh' a)
                    /\ (forall t' sh' a, wroles c w' t' sh' a = wroles c w t' sh' a)).
    { intros He. split; intros; unfold wcounter, wroles, wst, shard_accts; rewrite He; reflexivity. }
    destruct (sh <? wc_nshards c)%N eqn:Hlt; [|apply Hsame; tauto].
    destruct Hs as (_ & Hs). rewrite Hfn in Hs.
    destruct (exec (env_at c sh) CRT (deliver_input c m sh gas) (wst w sh)) as [[o|e|] s'] eqn:Hex;
      [|apply Hsame; tauto|apply Hsame; tauto].
    destruct Hs as (Hsh & _).
    apply (handover_delivered_idempotent (env_at c sh) Hc) in Hex as (H1 & H2).
    - assert (Hin : (N.to_nat sh < length (shards w))%nat).
      { apply N.ltb_lt in Hlt. unfold wf_world in Hwf. lia. }
      split; intros t' sh' a.
      + unfold wcounter. unfold wst at 1. fold w'. rewrite (shard_accts_after w w' sh _ Hsh Hin sh').
        destruct (sh' =? sh)%N eqn:E0; [|reflexivity]. apply N.eqb_eq in E0. subst sh'.
        rewrite <- (H1 a t'). apply counter_at_accts. reflexivity.
      + unfold wroles. unfold wst at 1. fold w'. rewrite (shard_accts_after w w' sh _ Hsh Hin sh').
        destruct (sh' =? sh)%N eqn:E0; [|reflexivity]. apply N.eqb_eq in E0. subst sh'.
        rewrite <- (H2 a t'). apply roles_at_accts. reflexivity.
    - exact Hcl.
    - exact Hcn.
    - apply (holder_has_role c). exact Hh.
  Qed.
End Redelivery.

(* ------------------------------------------------------------------ *)
(* concrete histories                                                   *)
(* ------------------------------------------------------------------ *)
Definition c7_alice : bytes := repeat x01 32.      (* shard 0 *)
Definition c7_bob : bytes := repeat x02 32.        (* shard 1 *)
Definition c7_carol : bytes := repeat x03 32.      (* shard 0 *)
Definition c7_dave : bytes := repeat x00 8 ++ repeat x05 24.   (* a contract address on shard 1 *)
Definition c7_tok : bytes := str "NFT-a1b2c3"%string.
Definition c7_ftok : bytes := str "FUN-0a0b0c"%string.
Definition c7_other : bytes := str "OTH-d4e5f6"%string.

Definition c7_cfg : wcfg :=
  {| wc_cdc := ideal_codec;
     wc_shard_of := lookupN [(c7_bob, 1%N); (c7_dave, 1%N); (SC, META)] 0%N;
     wc_payable := fun _ => PayYes; wc_dns := []; wc_enable := false;
     wc_gas := gas_of (repeat 10%N 22); wc_nshards := 2 |}.
Lemma c7_cfg_ok : codec_ok (wc_cdc c7_cfg). Proof. exact ideal_codec_ok. Qed.

Definition c7_in (caller rcpt : bytes) (args : list bytes) (snd dst : bool) : input :=
  {| i_caller := caller; i_rcpt := rcpt; i_args := args; i_value := 0; i_gas := 100000; i_gasLocked := 0;
     i_callType := C.DirectCall; i_rae := false; i_snd := snd; i_dst := dst |}.
(* system-contract calls: executed on the shard of the addressed account, no sender account there *)
Definition c7_set_role (sh : N) (a t : bytes) : wop :=
  OCall sh FSetRole (c7_in SC a [t; C.ESDTRoleNFTCreate; C.ESDTRoleNFTBurn] false true).
Definition c7_handover (sh : N) (a t new : bytes) : wop := OCall sh CRT (c7_in SC a [t; new] false true).
Definition c7_create (sh : N) (a t : bytes) : wop :=
  OCall sh FCreate (c7_in a a [t; [x01]; str "name"%string; [x05]; str "hash"%string; str "attr"%string; str "uri"%string] true true).
Definition c7_burn (sh : N) (a t : bytes) (nonce : N) : wop :=
  OCall sh C.BuiltInFunctionESDTNFTBurn (c7_in a a [t; u64_bytes nonce; [x01]] true true).

Definition c7_w0 : world := empty_world 2.
Lemma c7_init t : init_ok c7_cfg t c7_w0.
Proof. apply init_ok_empty. reflexivity. Qed.

(* A disciplined history: grant at alice (shard 0); two creates; the latest is burnt; a create for ANOTHER token
   by the same account in between; hand-over to carol on the same shard; carol creates; hand-over to bob across
   shards; delivery (consuming); bob creates twice. *)
Definition c7_good : list wop :=
  [ c7_set_role 0 c7_alice c7_tok; c7_set_role 0 c7_alice c7_other;
    c7_create 0 c7_alice c7_tok; c7_create 0 c7_alice c7_tok; c7_burn 0 c7_alice c7_tok 2;
    c7_create 0 c7_alice c7_other;
    c7_handover 0 c7_alice c7_tok c7_carol; c7_create 0 c7_carol c7_tok;
    c7_handover 0 c7_carol c7_tok c7_bob; ODeliver 0 1000;
    c7_create 1 c7_bob c7_tok; c7_create 1 c7_bob c7_tok;
    (* the old holders have lost the role: their creates fail and issue nothing *)
    c7_create 0 c7_alice c7_tok; c7_create 0 c7_carol c7_tok ].

Example c7_good_disciplined : disciplinedb c7_cfg c7_tok false c7_w0 c7_good = true /\ nowrapb c7_cfg c7_tok c7_w0 c7_good = true.
Proof. vm_compute. split; reflexivity. Qed.
Example c7_good_issued : issued c7_tok (snd (wrun_log c7_cfg c7_w0 c7_good)) = [1; 2; 3; 4; 5]%N.
Proof. vm_compute. reflexivity. Qed.
(* all steps but the last two (creates by the former holders) execute successfully *)
Example c7_good_successes :
  length (snd (wrun_log c7_cfg c7_w0 c7_good)) = 12%nat
  /\ length (snd (wrun_log c7_cfg c7_w0 (firstn 12 c7_good))) = 12%nat
  /\ issued c7_other (snd (wrun_log c7_cfg c7_w0 c7_good)) = [1]%N.
Proof. vm_compute. repeat split; reflexivity. Qed.
(* non-vacuity of the history theorem: it applies to this history, whose issued list is not empty *)
Example nonces_unique_nonvacuous :
  let L := issued c7_tok (snd (wrun_log c7_cfg c7_w0 c7_good)) in
  init_ok c7_cfg c7_tok c7_w0 /\ disciplined c7_cfg c7_tok false c7_w0 c7_good /\ nowrap c7_cfg c7_tok c7_w0 c7_good
  /\ L = [1; 2; 3; 4; 5]%N /\ NoDup L /\ StronglySorted N.lt L.
Proof.
  cbv zeta. destruct c7_good_disciplined as (Hd & Hn).
  pose proof (c7_init c7_tok) as Hi. apply disciplinedb_ok in Hd. apply nowrapb_ok in Hn.
  split; [exact Hi|]. split; [exact Hd|]. split; [exact Hn|]. split; [exact c7_good_issued|].
  exact (nonces_unique_histories c7_cfg c7_cfg_ok c7_tok c7_w0 c7_good Hi Hd Hn).
Qed.

(* F9: the hand-over message is delivered without being consumed (at-least-once transport), the new holder
   creates, the SAME message is delivered again (counter back to the carried value), the new holder creates
   again: nonce 3 is issued twice.  Every step other than the two ORedeliver steps satisfies the discipline. *)
Definition c7_f9 : list wop :=
  [ c7_set_role 0 c7_alice c7_tok; c7_create 0 c7_alice c7_tok; c7_create 0 c7_alice c7_tok;
    c7_handover 0 c7_alice c7_tok c7_bob;
    ORedeliver 0 1000; c7_create 1 c7_bob c7_tok;
    ORedeliver 0 1000; c7_create 1 c7_bob c7_tok ].
Example nonces_unique_redelivery_refuted :
  let L := issued c7_tok (snd (wrun_log c7_cfg c7_w0 c7_f9)) in
  init_ok c7_cfg c7_tok c7_w0 /\ nowrap c7_cfg c7_tok c7_w0 c7_f9
  /\ L = [1; 2; 3; 3]%N /\ ~ NoDup L
  /\ disciplinedb c7_cfg c7_tok false c7_w0 c7_f9 = false
  /\ disciplinedb c7_cfg c7_tok false c7_w0 (firstn 4 c7_f9) = true.
Proof.
  cbv zeta. split; [apply c7_init|]. split; [apply nowrapb_ok; vm_compute; reflexivity|].
  assert (HL : issued c7_tok (snd (wrun_log c7_cfg c7_w0 c7_f9)) = [1; 2; 3; 3]%N) by (vm_compute; reflexivity).
  split; [exact HL|]. split; [|split; vm_compute; reflexivity].
  rewrite HL. intros Hnd. inversion Hnd as [|? ? _ Hn1]. inversion Hn1 as [|? ? _ Hn2]. inversion Hn2 as [|? ? Hn3 _].
  apply Hn3. left. reflexivity.
Qed.

(* F9, second shape: bob has handed the role on to carol when the first message is delivered again: bob and
   carol both hold the create role and both issue nonce 1 *)
Definition c7_f9b : list wop :=
  [ c7_set_role 0 c7_alice c7_tok; c7_handover 0 c7_alice c7_tok c7_bob; ORedeliver 0 1000;
    c7_handover 1 c7_bob c7_tok c7_carol; ODeliver 1 1000;
    ORedeliver 0 1000;
    c7_create 1 c7_bob c7_tok; c7_create 0 c7_carol c7_tok ].
Example two_holders_redelivery_refuted :
  let w := wrun c7_cfg c7_w0 c7_f9b in
  holderb c7_cfg c7_tok w 1 c7_bob = true /\ holderb c7_cfg c7_tok w 0 c7_carol = true
  /\ issued c7_tok (snd (wrun_log c7_cfg c7_w0 c7_f9b)) = [1; 1]%N.
Proof. vm_compute. repeat split; reflexivity. Qed.

(* calls that cannot succeed are not constrained: an ordinary transaction naming ESDTNFTCreateRoleTransfer (sender
   account present), ESDTSetRole / ESDTUnSetRole of the create role by somebody who is not the system contract *)
Definition c7_noise : list wop :=
  [ c7_set_role 0 c7_alice c7_tok; c7_create 0 c7_alice c7_tok;
    OCall 0 CRT (c7_in c7_carol c7_carol [c7_tok; u64_bytes 0] true true);
    OCall 0 FSetRole (c7_in c7_carol c7_carol [c7_tok; C.ESDTRoleNFTCreate] true true);
    OCall 0 FUnSetRole (c7_in c7_carol c7_alice [c7_tok; C.ESDTRoleNFTCreate] false true);
    c7_create 0 c7_carol c7_tok; c7_create 0 c7_alice c7_tok ].
Example failing_attempts_are_disciplined :
  disciplinedb c7_cfg c7_tok false c7_w0 c7_noise = true /\ nowrapb c7_cfg c7_tok c7_w0 c7_noise = true
  /\ length (snd (wrun_log c7_cfg c7_w0 c7_noise)) = 3%nat
  /\ issued c7_tok (snd (wrun_log c7_cfg c7_w0 c7_noise)) = [1; 2]%N.
Proof. vm_compute. repeat split; reflexivity. Qed.

(* A history with repeated deliveries that the permissive discipline of C07_Redelivery.v accepts (and the at-most-once
   discipline does not): the hand-over message is first delivered WITHOUT being consumed, delivered again with nothing
   created in between, the new holder creates, hands over to carol across shards (the stale first message is still
   in flight), that message is delivered and consumed, carol creates. *)
Definition c7_again : list wop :=
  [ c7_set_role 0 c7_alice c7_tok; c7_create 0 c7_alice c7_tok; c7_create 0 c7_alice c7_tok;
    c7_handover 0 c7_alice c7_tok c7_bob;
    ORedeliver 0 1000; ORedeliver 0 1000; c7_create 1 c7_bob c7_tok;
    c7_handover 1 c7_bob c7_tok c7_carol; ODeliver 1 1000; c7_create 0 c7_carol c7_tok ].
Example nonces_unique_redelivery_nonvacuous :
  let L := issued c7_tok (snd (wrun_log c7_cfg c7_w0 c7_again)) in
  init_ok c7_cfg c7_tok c7_w0 /\ disciplined_r c7_cfg c7_tok false c7_w0 c7_again /\ nowrap c7_cfg c7_tok c7_w0 c7_again
  /\ disciplinedb c7_cfg c7_tok false c7_w0 c7_again = false
  /\ length (snd (wrun_log c7_cfg c7_w0 c7_again)) = 10%nat
  /\ length (inflight (wrun c7_cfg c7_w0 c7_again)) = 1%nat
  /\ L = [1; 2; 3; 4]%N /\ NoDup L /\ StronglySorted N.lt L.
Proof.
  cbv zeta.
  assert (Hd : disciplinedb_r c7_cfg c7_tok false c7_w0 c7_again = true) by (vm_compute; reflexivity).
  assert (Hn : nowrapb c7_cfg c7_tok c7_w0 c7_again = true) by (vm_compute; reflexivity).
  apply disciplinedb_r_ok in Hd. apply nowrapb_ok in Hn. pose proof (c7_init c7_tok) as Hi.
  split; [exact Hi|]. split; [exact Hd|]. split; [exact Hn|].
  split; [vm_compute; reflexivity|]. split; [vm_compute; reflexivity|]. split; [vm_compute; reflexivity|].
  split; [vm_compute; reflexivity|].
  destruct (nonces_unique_histories_redelivery c7_cfg c7_cfg_ok c7_tok c7_w0 c7_again Hi Hd Hn) as (H1 & H2 & _). auto.
Qed.
(* ... and the F9 history is rejected by the permissive discipline as well, at its second re-delivery (step 6) *)
Example f9_rejected_by_permissive_discipline :
  disciplinedb_r c7_cfg c7_tok false c7_w0 c7_f9 = false
  /\ disciplinedb_r c7_cfg c7_tok false c7_w0 (firstn 6 c7_f9) = true
  /\ disciplinedb_r c7_cfg c7_tok false c7_w0 c7_f9b = false
  /\ disciplinedb_r c7_cfg c7_tok false c7_w0 c7_good = true.
Proof. vm_compute. repeat split; reflexivity. Qed.

(* the delivered branch has no authorisation of its own: a call by ANY account without a local sender account
   gives the recipient the create role and an arbitrary counter (excluded by the discipline: [hands] by OCall
   must come from the system contract) *)
Definition c7_forged : list wop :=
  [ c7_set_role 0 c7_alice c7_tok; c7_create 0 c7_alice c7_tok; c7_create 0 c7_alice c7_tok;
    OCall 0 CRT (c7_in c7_bob c7_carol [c7_tok; u64_bytes 0] false true);
    c7_create 0 c7_carol c7_tok ].
Example forged_handover_refuted :
  issued c7_tok (snd (wrun_log c7_cfg c7_w0 c7_forged)) = [1; 2; 1]%N
  /\ disciplinedb c7_cfg c7_tok false c7_w0 c7_forged = false
  /\ dst_okb c7_cfg (nth 3 c7_forged (ODeliver 0 0)) = true.
Proof. vm_compute. repeat split; reflexivity. Qed.

(* why the discipline asks for a truthful recipient-presence flag ([dst_ok]): an ESDTTransfer executed with
   i_dst = true for a recipient contract of ANOTHER shard emits its attached call as a cross-shard message; with the
   attached function name ESDTNFTCreateRoleTransfer this is a forged hand-over message, whose (consuming) delivery
   gives the contract the create role (a node never builds such an input: the flag is computed from the shard) *)
Definition c7_lying : list wop :=
  [ c7_set_role 0 c7_alice c7_tok; c7_create 0 c7_alice c7_tok;
    OCall 0 FSetRole (c7_in SC c7_alice [c7_ftok; C.ESDTRoleLocalMint] false true);
    OCall 0 C.BuiltInFunctionESDTLocalMint (c7_in c7_alice c7_alice [c7_ftok; [x05]] true true);
    OCall 0 C.BuiltInFunctionESDTTransfer (c7_in c7_alice c7_dave [c7_ftok; [x01]; CRT; c7_tok; []] true true);
    ODeliver 0 1000;
    c7_create 1 c7_dave c7_tok ].
Example lying_presence_flag_refuted :
  issued c7_tok (snd (wrun_log c7_cfg c7_w0 c7_lying)) = [1; 1]%N
  /\ map (dst_okb c7_cfg) c7_lying = [true; true; true; true; false; true; true]
  /\ length (snd (wrun_log c7_cfg c7_w0 c7_lying)) = 7%nat.
Proof. vm_compute. repeat split; reflexivity. Qed.

(* re-delivery with no create in between: instance of [redelivery_idempotent] on the F9 history after its fifth step *)
Example redelivery_idempotent_nonvacuous :
  let w := wrun c7_cfg c7_w0 (firstn 5 c7_f9) in
  exists m, find_msg (inflight w) 0 = Some m /\ m_fn m = CRT /\ m_caller m = c7_alice /\ m_dest m = c7_bob
            /\ m_args m = [c7_tok; u64_bytes 2]
            /\ wcounter w c7_tok 1 c7_bob = 2%N /\ holderb c7_cfg c7_tok w 1 c7_bob = true
            /\ wcounter (wstep c7_cfg w (ORedeliver 0 1000)) c7_tok 1 c7_bob = 2%N.
Proof. vm_compute. eexists. repeat split; reflexivity. Qed.

Print Assumptions disciplinedb_ok.
Print Assumptions redelivery_idempotent.
Print Assumptions nonces_unique_nonvacuous.
Print Assumptions nonces_unique_redelivery_refuted.
Print Assumptions two_holders_redelivery_refuted.
Print Assumptions forged_handover_refuted.
Print Assumptions lying_presence_flag_refuted.
Print Assumptions disciplinedb_r_ok.
Print Assumptions nonces_unique_redelivery_nonvacuous.
