(* C07, part 4: a boolean checker of the discipline (sound: [disciplinedb_ok]), re-delivery with no create in
   between ([redelivery_idempotent]), and concrete histories evaluated by vm_compute with [ideal_codec]
   (which satisfies [codec_ok]): a disciplined history with a cross-shard hand-over (non-vacuity of
   [nonces_unique_histories]) and the F9 witnesses ([nonces_unique_redelivery_refuted], [two_holders_redelivery_refuted],
   [forged_handover_refuted]). *)
From Coq.Strings Require Import String.
From Coq Require Import Lia List Sorted.
From EV Require Import Base.Bytes Base.Store Base.Monad gen.Consts Codec.Types Codec.Proto Codec.Ideal Codec.CodecOk
  Helpers.Helpers Ledger.Types Ledger.Env Ledger.Funcs Ledger.Transfers Ledger.World Corr.Exec
  LedgerProofs.Defs LedgerProofs.EnvSpec LedgerProofs.WorldDefs LedgerProofs.WorldSpec
  LedgerProofs.Spec_Transfers_Base LedgerProofs.Spec_System LedgerProofs.C07_Exec LedgerProofs.C07_Emit
  LedgerProofs.C07_World.
Import ListNotations.

(* ------------------------------------------------------------------ *)
(* boolean discipline                                                   *)
(* ------------------------------------------------------------------ *)
Section Check.
  Variable c : wcfg.
  Variable tok : bytes.
  Notation shof := (wc_shard_of c).

  Definition holderb (w : world) (sh : N) (a : bytes) : bool := (0 <? ncreate c w tok sh a)%nat.
  Definition dst_okb (op : wop) : bool :=
    match op with
    | OCall sh fn i => negb (is_transfer_fn fn) || Bool.eqb (i_dst i) (shof (i_rcpt i) =? sh)%N
    | _ => true
    end.
  Definition step_okb (g : bool) (w : world) (op : wop) : bool :=
    dst_okb op &&
    match op_exec c w op with
    | None => true
    | Some (sh, fn, i) =>
      let t0 := beqb (argn i 0) tok in
      let hasCR := bytes_in CR (tl (i_args i)) in
      (negb (beqb fn FSetRole && t0 && hasCR) || (negb g && Nat.eqb (cnt CR (tl (i_args i))) 1))
      && negb (beqb fn FUnSetRole && t0 && hasCR)
      && (negb (beqb fn CRT && t0)
          || match op with
             | OCall _ _ _ => beqb (i_caller i) SC && holderb w sh (i_rcpt i)
             | ODeliver _ _ | ORefund _ _ => true
             | ORedeliver _ _ => false
             end)
    end.
  Lemma step_okb_ok g w op : step_okb g w op = true -> step_ok c tok g w op.
  Proof.
    unfold step_okb, step_ok. intros H. apply andb_prop in H as [Hd H]. split.
    { destruct op; cbn [dst_okb dst_ok] in *; auto. intros Ht. rewrite Ht in Hd. cbn [negb orb] in Hd.
      apply Bool.eqb_prop. exact Hd. }
    destruct (op_exec c w op) as [[[sh fn] i]|]; [|exact I]. cbv zeta in H.
    apply andb_prop in H as [H H3]. apply andb_prop in H as [H1 H2]. split; [|split].
    - intros (Hf & Ht & Hin). rewrite Hf, Ht, !beqb_refl in H1. apply bytes_in_true in Hin. rewrite Hin in H1.
      cbn [andb negb orb] in H1. apply andb_prop in H1 as [Hg Hn]. split.
      + destruct g; [discriminate|reflexivity].
      + apply Nat.eqb_eq. exact Hn.
    - intros (Hf & Ht & Hin). rewrite Hf, Ht, !beqb_refl in H2. apply bytes_in_true in Hin. rewrite Hin in H2. discriminate.
    - intros (Hf & Ht). rewrite Hf, Ht, !beqb_refl in H3. cbn [andb negb orb] in H3.
      destruct op; auto; [|discriminate]. apply andb_prop in H3 as [Hs Hh]. split; [apply beqb_true; exact Hs|].
      unfold holderb in Hh. apply Nat.ltb_lt in Hh. exact Hh.
  Qed.
  Fixpoint disciplinedb (g : bool) (w : world) (ops : list wop) : bool :=
    match ops with
    | [] => true
    | op :: r => step_okb g w op && disciplinedb (g || grant_attempt c tok w op) (wstep c w op) r
    end.
  Lemma disciplinedb_ok : forall ops g w, disciplinedb g w ops = true -> disciplined c tok g w ops.
  Proof.
    induction ops as [|op r IH]; intros g w H; [exact I|]. cbn [disciplinedb] in H. apply andb_prop in H as [H1 H2].
    split; [apply step_okb_ok; exact H1|apply IH; exact H2].
  Qed.

  Definition step_nowrapb (w : world) (op : wop) : bool :=
    match op_exec c w op with
    | Some (sh, fn, i) =>
      negb (beqb fn FCreate && beqb (argn i 0) tok) || (wcounter w tok sh (i_caller i) + 1 <? two64)%N
    | None => true
    end.
  Fixpoint nowrapb (w : world) (ops : list wop) : bool :=
    match ops with [] => true | op :: r => step_nowrapb w op && nowrapb (wstep c w op) r end.
  Lemma nowrapb_ok : forall ops w, nowrapb w ops = true -> nowrap c tok w ops.
  Proof.
    induction ops as [|op r IH]; intros w H; [exact I|]. cbn [nowrapb] in H. apply andb_prop in H as [H1 H2].
    split; [|apply IH; exact H2]. unfold step_nowrapb in H1. unfold step_nowrap.
    destruct (op_exec c w op) as [[[sh fn] i]|]; [|exact I]. intros Hf Ht. rewrite Hf, Ht, !beqb_refl in H1.
    cbn in H1. apply N.ltb_lt. exact H1.
  Qed.

  (* a world without accounts and without messages is a legitimate start *)
  Definition empty_world (n : nat) : world := {| shards := repeat [] n; inflight := []; failed := []; next_id := 0 |}.
  Lemma nth_repeat_same {A} (x : A) (n k : nat) : nth k (repeat x n) x = x.
  Proof. revert k. induction n as [|n IH]; intros [|k]; cbn; auto. Qed.
  Lemma init_ok_empty n : wc_nshards c = N.of_nat n -> init_ok c tok (empty_world n).
  Proof.
    intros Hn. split; [|split].
    - unfold wf_world, empty_world. cbn [shards]. rewrite repeat_length, Hn, Nnat.Nat2N.id. lia.
    - reflexivity.
    - intros sh a Hh. unfold holder, ncreate, wroles, wst, shard_accts, empty_world in Hh. cbn [shards] in Hh.
      rewrite (nth_repeat_same (@nil (bytes * account))) in Hh. unfold roles_at, cell, acct, mk_state in Hh. cbn [accts aget] in Hh.
      unfold empty_account in Hh. cbn [a_store] in Hh. rewrite sget_nil in Hh. cbn in Hh. lia.
  Qed.
End Check.

(* ------------------------------------------------------------------ *)
(* re-delivery with no create in between                                *)
(* ------------------------------------------------------------------ *)
Section Redelivery.
  Variable c : wcfg.
  Hypothesis Hc : codec_ok (wc_cdc c).
  Notation shof := (wc_shard_of c).

  (* Delivering a hand-over message again WITHOUT consuming it, at a destination that still has the carried
     counter and the create role, changes no counter and no role list anywhere (the delivered branch writes the
     same counter and finds the role present), whether or not the execution succeeds. *)
  Theorem redelivery_idempotent w id gas m :
    wf_world c w -> find_msg (inflight w) id = Some m -> m_fn m = CRT -> m_caller m <> SC ->
    let sh := shof (m_dest m) in let t := nth 0 (m_args m) [] in
    wcounter w t sh (m_dest m) = bigU64 (nth 1 (m_args m) []) ->
    holder c w t sh (m_dest m) ->
    let w' := wstep c w (ORedeliver id gas) in
    (forall t' sh' a, wcounter w' t' sh' a = wcounter w t' sh' a)
    /\ (forall t' sh' a, wroles c w' t' sh' a = wroles c w t' sh' a).
  Proof.
    intros Hwf Hfind Hfn Hcl sh t Hcn Hh w'.
    pose proof (wstep_shape c w (ORedeliver id gas)) as Hs. cbn [op_exec] in Hs. rewrite Hfind in Hs. cbv zeta in Hs.
    fold sh in Hs.
    assert (Hsame : shards w' = shards w ->
                    (forall t' sh' a, wcounter w' t' sh' a = wcounter w t' sh' a)
                    /\ (forall t' sh' a, wroles c w' t' sh' a = wroles c w t' sh' a)).
    { intros He. split; intros; unfold wcounter, wroles, wst, shard_accts; rewrite He; reflexivity. }
    destruct (sh <? wc_nshards c)%N eqn:Hlt; [|apply Hsame; tauto].
    destruct Hs as (_ & Hs). rewrite Hfn in Hs.
    destruct (exec (env_at c sh) CRT (deliver_input c m sh gas) (wst w sh)) as [[o|e|] s'] eqn:Hex;
      [|apply Hsame; tauto|apply Hsame; tauto].
    destruct Hs as (Hsh & _).
    apply (handover_delivered_idempotent (env_at c sh) Hc) in Hex as (H1 & H2).
    - assert (Hin : (N.to_nat sh < length (shards w))%nat).
      { apply N.ltb_lt in Hlt. unfold wf_world in Hwf. lia. }
      split; intros t' sh' a.
      + unfold wcounter. unfold wst at 1. fold w'. rewrite (shard_accts_after w w' sh _ Hsh Hin sh').
        destruct (sh' =? sh)%N eqn:E0; [|reflexivity]. apply N.eqb_eq in E0. subst sh'.
        rewrite <- (H1 a t'). apply counter_at_accts. reflexivity.
      + unfold wroles. unfold wst at 1. fold w'. rewrite (shard_accts_after w w' sh _ Hsh Hin sh').
        destruct (sh' =? sh)%N eqn:E0; [|reflexivity]. apply N.eqb_eq in E0. subst sh'.
        rewrite <- (H2 a t'). apply roles_at_accts. reflexivity.
    - exact Hcl.
    - exact Hcn.
    - apply (holder_has_role c). exact Hh.
  Qed.
End Redelivery.

(* ------------------------------------------------------------------ *)
(* concrete histories                                                   *)
(* ------------------------------------------------------------------ *)
Definition c7_alice : bytes := repeat x01 32.      (* shard 0 *)
Definition c7_bob : bytes := repeat x02 32.        (* shard 1 *)
Definition c7_carol : bytes := repeat x03 32.      (* shard 0 *)
Definition c7_dave : bytes := repeat x00 8 ++ repeat x05 24.   (* a contract address on shard 1 *)
Definition c7_tok : bytes := str "NFT-a1b2c3"%string.
Definition c7_ftok : bytes := str "FUN-0a0b0c"%string.
Definition c7_other : bytes := str "OTH-d4e5f6"%string.

Definition c7_cfg : wcfg :=
  {| wc_cdc := ideal_codec;
     wc_shard_of := lookupN [(c7_bob, 1%N); (c7_dave, 1%N); (SC, META)] 0%N;
     wc_payable := fun _ => PayYes; wc_dns := []; wc_enable := false;
     wc_gas := gas_of (repeat 10%N 22); wc_nshards := 2 |}.
Lemma c7_cfg_ok : codec_ok (wc_cdc c7_cfg). Proof. exact ideal_codec_ok. Qed.

Definition c7_in (caller rcpt : bytes) (args : list bytes) (snd dst : bool) : input :=
  {| i_caller := caller; i_rcpt := rcpt; i_args := args; i_value := 0; i_gas := 100000; i_gasLocked := 0;
     i_callType := C.DirectCall; i_rae := false; i_snd := snd; i_dst := dst |}.
(* system-contract calls: executed on the shard of the addressed account, no sender account there *)
Definition c7_set_role (sh : N) (a t : bytes) : wop :=
  OCall sh FSetRole (c7_in SC a [t; C.ESDTRoleNFTCreate; C.ESDTRoleNFTBurn] false true).
Definition c7_handover (sh : N) (a t new : bytes) : wop := OCall sh CRT (c7_in SC a [t; new] false true).
Definition c7_create (sh : N) (a t : bytes) : wop :=
  OCall sh FCreate (c7_in a a [t; [x01]; str "name"%string; [x05]; str "hash"%string; str "attr"%string; str "uri"%string] true true).
Definition c7_burn (sh : N) (a t : bytes) (nonce : N) : wop :=
  OCall sh C.BuiltInFunctionESDTNFTBurn (c7_in a a [t; u64_bytes nonce; [x01]] true true).

Definition c7_w0 : world := empty_world 2.
Lemma c7_init t : init_ok c7_cfg t c7_w0.
Proof. apply init_ok_empty. reflexivity. Qed.

(* A disciplined history: grant at alice (shard 0); two creates; the latest is burnt; a create for ANOTHER token
   by the same account in between; hand-over to carol on the same shard; carol creates; hand-over to bob across
   shards; delivery (consuming); bob creates twice. *)
Definition c7_good : list wop :=
  [ c7_set_role 0 c7_alice c7_tok; c7_set_role 0 c7_alice c7_other;
    c7_create 0 c7_alice c7_tok; c7_create 0 c7_alice c7_tok; c7_burn 0 c7_alice c7_tok 2;
    c7_create 0 c7_alice c7_other;
    c7_handover 0 c7_alice c7_tok c7_carol; c7_create 0 c7_carol c7_tok;
    c7_handover 0 c7_carol c7_tok c7_bob; ODeliver 0 1000;
    c7_create 1 c7_bob c7_tok; c7_create 1 c7_bob c7_tok;
    (* the old holders have lost the role: their creates fail and issue nothing *)
    c7_create 0 c7_alice c7_tok; c7_create 0 c7_carol c7_tok ].

Example c7_good_disciplined : disciplinedb c7_cfg c7_tok false c7_w0 c7_good = true /\ nowrapb c7_cfg c7_tok c7_w0 c7_good = true.
Proof. vm_compute. split; reflexivity. Qed.
Example c7_good_issued : issued c7_tok (snd (wrun_log c7_cfg c7_w0 c7_good)) = [1; 2; 3; 4; 5]%N.
Proof. vm_compute. reflexivity. Qed.
(* all steps but the last two (creates by the former holders) execute successfully *)
Example c7_good_successes :
  length (snd (wrun_log c7_cfg c7_w0 c7_good)) = 12%nat
  /\ length (snd (wrun_log c7_cfg c7_w0 (firstn 12 c7_good))) = 12%nat
  /\ issued c7_other (snd (wrun_log c7_cfg c7_w0 c7_good)) = [1]%N.
Proof. vm_compute. repeat split; reflexivity. Qed.
(* non-vacuity of the history theorem: it applies to this history, whose issued list is not empty *)
Example nonces_unique_nonvacuous :
  let L := issued c7_tok (snd (wrun_log c7_cfg c7_w0 c7_good)) in
  init_ok c7_cfg c7_tok c7_w0 /\ disciplined c7_cfg c7_tok false c7_w0 c7_good /\ nowrap c7_cfg c7_tok c7_w0 c7_good
  /\ L = [1; 2; 3; 4; 5]%N /\ NoDup L /\ StronglySorted N.lt L.
Proof.
  cbv zeta. destruct c7_good_disciplined as (Hd & Hn).
  pose proof (c7_init c7_tok) as Hi. apply disciplinedb_ok in Hd. apply nowrapb_ok in Hn.
  split; [exact Hi|]. split; [exact Hd|]. split; [exact Hn|]. split; [exact c7_good_issued|].
  exact (nonces_unique_histories c7_cfg c7_cfg_ok c7_tok c7_w0 c7_good Hi Hd Hn).
Qed.

(* F9: the hand-over message is delivered without being consumed (at-least-once transport), the new holder
   creates, the SAME message is delivered again (counter back to the carried value), the new holder creates
   again: nonce 3 is issued twice.  Every step other than the two ORedeliver steps satisfies the discipline. *)
Definition c7_f9 : list wop :=
  [ c7_set_role 0 c7_alice c7_tok; c7_create 0 c7_alice c7_tok; c7_create 0 c7_alice c7_tok;
    c7_handover 0 c7_alice c7_tok c7_bob;
    ORedeliver 0 1000; c7_create 1 c7_bob c7_tok;
    ORedeliver 0 1000; c7_create 1 c7_bob c7_tok ].
Example nonces_unique_redelivery_refuted :
  let L := issued c7_tok (snd (wrun_log c7_cfg c7_w0 c7_f9)) in
  init_ok c7_cfg c7_tok c7_w0 /\ nowrap c7_cfg c7_tok c7_w0 c7_f9
  /\ L = [1; 2; 3; 3]%N /\ ~ NoDup L
  /\ disciplinedb c7_cfg c7_tok false c7_w0 c7_f9 = false
  /\ disciplinedb c7_cfg c7_tok false c7_w0 (firstn 4 c7_f9) = true.
Proof.
  cbv zeta. split; [apply c7_init|]. split; [apply nowrapb_ok; vm_compute; reflexivity|].
  assert (HL : issued c7_tok (snd (wrun_log c7_cfg c7_w0 c7_f9)) = [1; 2; 3; 3]%N) by (vm_compute; reflexivity).
  split; [exact HL|]. split; [|split; vm_compute; reflexivity].
  rewrite HL. intros Hnd. inversion Hnd as [|? ? _ Hn1]. inversion Hn1 as [|? ? _ Hn2]. inversion Hn2 as [|? ? Hn3 _].
  apply Hn3. left. reflexivity.
Qed.

(* F9, second shape: bob has handed the role on to carol when the first message is delivered again: bob and
   carol both hold the create role and both issue nonce 1 *)
Definition c7_f9b : list wop :=
  [ c7_set_role 0 c7_alice c7_tok; c7_handover 0 c7_alice c7_tok c7_bob; ORedeliver 0 1000;
    c7_handover 1 c7_bob c7_tok c7_carol; ODeliver 1 1000;
    ORedeliver 0 1000;
    c7_create 1 c7_bob c7_tok; c7_create 0 c7_carol c7_tok ].
Example two_holders_redelivery_refuted :
  let w := wrun c7_cfg c7_w0 c7_f9b in
  holderb c7_cfg c7_tok w 1 c7_bob = true /\ holderb c7_cfg c7_tok w 0 c7_carol = true
  /\ issued c7_tok (snd (wrun_log c7_cfg c7_w0 c7_f9b)) = [1; 1]%N.
Proof. vm_compute. repeat split; reflexivity. Qed.

(* the delivered branch has no authorisation of its own: a call by ANY account without a local sender account
   gives the recipient the create role and an arbitrary counter (excluded by the discipline: [hands] by OCall
   must come from the system contract) *)
Definition c7_forged : list wop :=
  [ c7_set_role 0 c7_alice c7_tok; c7_create 0 c7_alice c7_tok; c7_create 0 c7_alice c7_tok;
    OCall 0 CRT (c7_in c7_bob c7_carol [c7_tok; u64_bytes 0] false true);
    c7_create 0 c7_carol c7_tok ].
Example forged_handover_refuted :
  issued c7_tok (snd (wrun_log c7_cfg c7_w0 c7_forged)) = [1; 2; 1]%N
  /\ disciplinedb c7_cfg c7_tok false c7_w0 c7_forged = false
  /\ dst_okb c7_cfg (nth 3 c7_forged (ODeliver 0 0)) = true.
Proof. vm_compute. repeat split; reflexivity. Qed.

(* why the discipline asks for a truthful recipient-presence flag ([dst_ok]): an ESDTTransfer executed with
   i_dst = true for a recipient contract of ANOTHER shard emits its attached call as a cross-shard message; with the
   attached function name ESDTNFTCreateRoleTransfer this is a forged hand-over message, whose (consuming) delivery
   gives the contract the create role (a node never builds such an input: the flag is computed from the shard) *)
Definition c7_lying : list wop :=
  [ c7_set_role 0 c7_alice c7_tok; c7_create 0 c7_alice c7_tok;
    OCall 0 FSetRole (c7_in SC c7_alice [c7_ftok; C.ESDTRoleLocalMint] false true);
    OCall 0 C.BuiltInFunctionESDTLocalMint (c7_in c7_alice c7_alice [c7_ftok; [x05]] true true);
    OCall 0 C.BuiltInFunctionESDTTransfer (c7_in c7_alice c7_dave [c7_ftok; [x01]; CRT; c7_tok; []] true true);
    ODeliver 0 1000;
    c7_create 1 c7_dave c7_tok ].
Example lying_presence_flag_refuted :
  issued c7_tok (snd (wrun_log c7_cfg c7_w0 c7_lying)) = [1; 1]%N
  /\ map (dst_okb c7_cfg) c7_lying = [true; true; true; true; false; true; true]
  /\ length (snd (wrun_log c7_cfg c7_w0 c7_lying)) = 7%nat.
Proof. vm_compute. repeat split; reflexivity. Qed.

(* re-delivery with no create in between: instance of [redelivery_idempotent] on the F9 history after its fifth step *)
Example redelivery_idempotent_nonvacuous :
  let w := wrun c7_cfg c7_w0 (firstn 5 c7_f9) in
  exists m, find_msg (inflight w) 0 = Some m /\ m_fn m = CRT /\ m_caller m = c7_alice /\ m_dest m = c7_bob
            /\ m_args m = [c7_tok; u64_bytes 2]
            /\ wcounter w c7_tok 1 c7_bob = 2%N /\ holderb c7_cfg c7_tok w 1 c7_bob = true
            /\ wcounter (wstep c7_cfg w (ORedeliver 0 1000)) c7_tok 1 c7_bob = 2%N.
Proof. vm_compute. eexists. repeat split; reflexivity. Qed.

Print Assumptions disciplinedb_ok.
Print Assumptions redelivery_idempotent.
Print Assumptions nonces_unique_nonvacuous.
Print Assumptions nonces_unique_redelivery_refuted.
Print Assumptions two_holders_redelivery_refuted.
Print Assumptions forged_handover_refuted.
Print Assumptions lying_presence_flag_refuted.
