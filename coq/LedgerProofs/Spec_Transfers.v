(* Function specs of the three transfer built-ins: the corollaries the property proofs cite.
   The characterising theorems themselves are
     Spec_Transfers_Esdt.v    esdt_transfer_spec            (record esdt_post)
     Spec_Transfers_Nft.v     nft_transfer_spec             (records nft_snd_post / nft_dst_post, debit_post)
     Spec_Transfers_Multi.v   multi_transfer_spec           (records multi_snd_post / multi_dst_post, chains
                              snd_steps / dst_steps of one_snd_post / one_dst_post, sums snd_steps_spec / dst_steps_spec)
   This file: per function and side
     transfer_balance_effect_*      balance after = balance before + explicit delta, for every cell
     transfer_shard_total_*         the same summed over the accounts of the shard (conservation proofs)
     transfer_overdraft_fails_*     requested quantity > holding -> not Ok
     transfer_credit_implies_admissible_*, metachain_rejected_*, self_or_wrong_length_rejected_*   (C09)
     transfer_frozen_paused_*       (C04)
     transfer_preserves_metadata_*  (C08)
     transfer_footprint_*           which cells can change
     emitted_message_carries_debit_*  the credits (WorldDefs.credits) of the emitted message = the debits (C01/C10). *)
From EV Require Import Base.Bytes Base.Store Base.Monad gen.Consts Codec.Types Helpers.Helpers
  Ledger.Types Ledger.Env Ledger.Funcs Ledger.Transfers Ledger.World
  LedgerProofs.Defs LedgerProofs.EnvSpec LedgerProofs.WorldDefs
  LedgerProofs.Spec_Transfers_Base LedgerProofs.Spec_Transfers_Esdt LedgerProofs.Spec_Transfers_Nft
  LedgerProofs.Spec_Transfers_Multi.

Section Corollaries.
  Variable E : env.
  Hypothesis Hc : codec_ok (cdc E).

  (* ================================================================ *)
  (* C09 vocabulary                                                     *)
  (* ================================================================ *)
  Definition admissible (i : input) (dst : bytes) (minLen : N) : Prop :=
    payable E dst = PayYes \/ (minLen < alen (i_args i))%N
    \/ i_callType i = C.AsynchronousCallBack \/ i_callType i = C.ESDTTransferAndExecute \/ i_caller i = SC.
  Lemma verify_admissible i dst minLen :
    (must_verify_payable i minLen = true -> payable E dst = PayYes) -> admissible i dst minLen.
  Proof.
    intros H. unfold admissible. destruct (must_verify_payable i minLen) eqn:Ev; [left; auto|].
    right. unfold must_verify_payable in Ev.
    destruct (i_callType i =? C.AsynchronousCallBack)%N eqn:E1; [apply N.eqb_eq in E1; auto|].
    destruct (i_callType i =? C.ESDTTransferAndExecute)%N eqn:E2; [apply N.eqb_eq in E2; auto|].
    cbn [orb] in Ev. destruct (beqb_spec (i_caller i) SC) as [Hsc|_]; [auto|].
    destruct (minLen <? alen (i_args i))%N eqn:E3; [left; lia|discriminate].
  Qed.

  (* ================================================================ *)
  (* 1. ESDTTransfer                                                    *)
  (* ================================================================ *)
  Theorem transfer_balance_effect_esdt i s o s' : f_esdt_transfer E i s = (Ok o, s') ->
    forall a k, balance E s' a k = (balance E s a k + esdt_delta i a k)%Z.
  Proof. intros H. apply (ep_balance E _ _ _ _ (esdt_transfer_spec E Hc _ _ _ _ H)). Qed.

  (* net change of the shard's total under key k *)
  Definition esdt_net (i : input) (k : bytes) : Z :=
    ((if (i_snd i && beqb k (esdt_key i))%bool then - esdt_val i else 0)
     + (if (i_dst i && beqb k (esdt_key i))%bool then esdt_val i else 0))%Z.
  Theorem transfer_shard_total_esdt i s o s' k : f_esdt_transfer E i s = (Ok o, s') ->
    NoDup (map fst (accts s)) ->
    NoDup (map fst (accts s'))
    /\ asum (acct_bal E k) (accts s') = (asum (acct_bal E k) (accts s) + esdt_net i k)%Z.
  Proof.
    intros H Hnd. pose proof (esdt_transfer_spec E Hc _ _ _ _ H) as Hp.
    pose proof (ep_balance E _ _ _ _ Hp) as Hb.
    destruct (beqb_spec (i_caller i) (i_rcpt i)) as [Heq|Hne].
    - assert (HL : NoDup [i_caller i]) by (constructor; [intros []|constructor]).
      pose proof (ep_touches E _ _ _ _ Hp [i_caller i] HL (fun _ => or_introl eq_refl)
                    (fun _ => or_introl Heq)) as Ht.
      split; [apply (proj1 (Ht Hnd))|].
      rewrite (touches_sum _ _ _ (acct_bal E k) (fun a => esdt_delta i a k) Ht Hnd (acct_bal_empty E k)).
      + cbn [zsum]. unfold esdt_delta, esdt_net. rewrite <- Heq, beqb_refl, !andb_true_r. lia.
      + intros a _. rewrite <- !balance_acct_bal. apply Hb.
    - assert (HL : NoDup [i_caller i; i_rcpt i]).
      { constructor; [intros [Hx|[]]; congruence|constructor; [intros []|constructor]]. }
      pose proof (ep_touches E _ _ _ _ Hp [i_caller i; i_rcpt i] HL (fun _ => or_introl eq_refl)
                    (fun _ => or_intror (or_introl eq_refl))) as Ht.
      split; [apply (proj1 (Ht Hnd))|].
      rewrite (touches_sum _ _ _ (acct_bal E k) (fun a => esdt_delta i a k) Ht Hnd (acct_bal_empty E k)).
      + cbn [zsum]. unfold esdt_delta, esdt_net. rewrite !beqb_refl, !andb_true_r.
        rewrite (beqb_false (i_caller i) (i_rcpt i) Hne), (beqb_false (i_rcpt i) (i_caller i)) by congruence.
        rewrite !andb_false_r. cbn [andb]. lia.
      + intros a _. rewrite <- !balance_acct_bal. apply Hb.
  Qed.

  Theorem transfer_overdraft_fails_esdt i s o s' :
    i_snd i = true -> (balance E s (i_caller i) (esdt_key i) < esdt_val i)%Z ->
    f_esdt_transfer E i s <> (Ok o, s').
  Proof. intros Hs Hlt H. pose proof (ep_snd_funds E _ _ _ _ (esdt_transfer_spec E Hc _ _ _ _ H) Hs). lia. Qed.

  Theorem transfer_credit_implies_admissible_esdt i s o s' a k : f_esdt_transfer E i s = (Ok o, s') ->
    (balance E s a k < balance E s' a k)%Z ->
    i_dst i = true /\ a = i_rcpt i /\ k = esdt_key i /\ admissible i (i_rcpt i) 2.
  Proof.
    intros H Hlt. pose proof (esdt_transfer_spec E Hc _ _ _ _ H) as Hp.
    rewrite (ep_balance E _ _ _ _ Hp) in Hlt. pose proof (ep_pos E _ _ _ _ Hp) as Hpos. unfold esdt_delta in Hlt.
    destruct (i_dst i) eqn:Hd; cbn [andb] in Hlt.
    - destruct (beqb_spec a (i_rcpt i)) as [->|Ha]; cbn [andb] in Hlt.
      + destruct (beqb_spec k (esdt_key i)) as [->|Hk].
        * split; [reflexivity|]. split; [reflexivity|]. split; [reflexivity|].
          apply verify_admissible. apply (ep_payable E _ _ _ _ Hp). exact Hd.
        * rewrite andb_false_r in Hlt. lia.
      + destruct (i_snd i && beqb a (i_caller i) && beqb k (esdt_key i))%bool; lia.
    - destruct (i_snd i && beqb a (i_caller i) && beqb k (esdt_key i))%bool; lia.
  Qed.
  Theorem metachain_rejected_esdt i s o s' : shard_of E (i_rcpt i) = META -> f_esdt_transfer E i s <> (Ok o, s').
  Proof. intros Hm H. apply (ep_not_meta E _ _ _ _ (esdt_transfer_spec E Hc _ _ _ _ H)). exact Hm. Qed.

  Theorem transfer_frozen_paused_esdt i s o s' : f_esdt_transfer E i s = (Ok o, s') -> i_rae i = false ->
    (i_snd i = true -> i_caller i <> SC ->
       frozen_at E s (i_caller i) (esdt_key i) = false /\ paused_at s (esdt_key i) = false)
    /\ (i_dst i = true -> i_rcpt i <> SC ->
       frozen_at E s (i_rcpt i) (esdt_key i) = false /\ paused_at s (esdt_key i) = false).
  Proof.
    intros H Hr. pose proof (esdt_transfer_spec E Hc _ _ _ _ H) as Hp. split; intros H1 H2.
    - apply (ep_snd_flags E _ _ _ _ Hp); assumption.
    - apply (ep_dst_flags E _ _ _ _ Hp); assumption.
  Qed.

  Theorem transfer_footprint_esdt i s o s' : f_esdt_transfer E i s = (Ok o, s') ->
    unchanged_except (esdt_cells i) (fun _ => False) s s'.
  Proof. intros H. apply (ep_frame E _ _ _ _ (esdt_transfer_spec E Hc _ _ _ _ H)). Qed.

  (* the output accounts: at most one, with one transfer *)
  Definition one_transfer (rcpt : bytes) (t : transfer) : list outacct :=
    [{| oc_addr := rcpt; oc_delta := 0; oc_transfers := [t] |}].
  Theorem esdt_out_accounts i s o s' : f_esdt_transfer E i s = (Ok o, s') ->
    o_accounts o =
    if i_dst i then
      if esdt_call_after i then
        one_transfer (i_rcpt i)
          {| tr_value := 0;
             tr_gasLimit := match safe_sub_u64 (i_gas i) (g_ESDTTransfer (gas E)) with Some r => r | None => 0%N end;
             tr_gasLocked := i_gasLocked i; tr_data := msg_data (argn i 2) (skipn 3 (i_args i));
             tr_callType := i_callType i; tr_sender := i_caller i |}
      else []
    else if is_sc (i_caller i) then
      one_transfer (i_rcpt i)
        {| tr_value := 0; tr_gasLimit := compute_gas_remaining (i_snd i) (i_gas i) (g_ESDTTransfer (gas E));
           tr_gasLocked := i_gasLocked i; tr_data := msg_data C.BuiltInFunctionESDTTransfer (i_args i);
           tr_callType := i_callType i; tr_sender := i_caller i |}
    else [].
  Proof.
    intros H. rewrite (ep_out E _ _ _ _ (esdt_transfer_spec E Hc _ _ _ _ H)). unfold esdt_transfer_out. cbv zeta.
    destruct (i_dst i).
    - destruct (esdt_call_after i); [reflexivity|].
      destruct ((i_callType i =? C.AsynchronousCallBack)%N && negb (i_snd i))%bool; reflexivity.
    - destruct (is_sc (i_caller i)); reflexivity.
  Qed.

  (* ================================================================ *)
  (* 2. ESDTNFTTransfer                                                 *)
  (* ================================================================ *)
  Definition nft_cell (i : input) : bytes := nft_key (nft_tkey i) (nft_nonce i).
  Definition nft_snd_delta (i : input) (a k : bytes) : Z :=
    ((if (beqb a (i_caller i) && beqb k (nft_cell i))%bool then - nft_qty i else 0)
     + (if (nft_same E i && beqb a (nft_dst i) && beqb k (nft_cell i))%bool then nft_qty i else 0))%Z.

  Lemma nft_sender_post i s o s' : f_nft_transfer E i s = (Ok o, s') -> i_caller i = i_rcpt i ->
    exists t, nft_snd_post E i t s o s'.
  Proof.
    intros H Heq. apply (nft_transfer_spec E Hc) in H as (_ & _ & H).
    rewrite Heq, beqb_refl in H. exact H.
  Qed.
  Lemma nft_dest_post i s o s' : f_nft_transfer E i s = (Ok o, s') -> i_caller i <> i_rcpt i ->
    exists t, nft_dst_post E i t s o s'.
  Proof.
    intros H Hne. apply (nft_transfer_spec E Hc) in H as (_ & _ & H).
    rewrite (beqb_false _ _ Hne) in H. exact H.
  Qed.

  Theorem transfer_balance_effect_nft_sender i s o s' :
    f_nft_transfer E i s = (Ok o, s') -> i_caller i = i_rcpt i ->
    lookup_consistent E s (i_caller i) (nft_tkey i) (nft_nonce i) ->
    (nft_same E i = true -> (0 <= balance E s (nft_dst i) (nft_cell i))%Z) ->
    forall a k, balance E s' a k = (balance E s a k + nft_snd_delta i a k)%Z.
  Proof.
    intros H Heq Hlc Hnn a k. destruct (nft_sender_post _ _ _ _ H Heq) as (t & Hp). destruct Hp.
    destruct ns_debit as (s1 & D & _). destruct D.
    assert (Htn : tok_nonce t = nft_nonce i) by (apply Hlc; exact db_entry).
    assert (Hfull : nft_full i t = nft_cell i) by (unfold nft_full, nft_cell; rewrite Htn; reflexivity).
    rewrite Hfull in *. unfold nft_snd_delta. pose proof (bigZ_nonneg (argn i 2)) as Hq. fold (nft_qty i) in Hq.
    destruct (beqb_spec k (nft_cell i)) as [->|Hk].
    - rewrite !andb_true_r. destruct (beqb_spec a (i_caller i)) as [->|Ha].
      + rewrite (beqb_false (i_caller i) (nft_dst i)) by congruence. rewrite andb_false_r.
        rewrite ns_snd_balance. unfold nft_cell. rewrite (balance_tok_at E _ _ _ _ db_entry). lia.
      + destruct (nft_same E i) eqn:Es; cbn [andb].
        * destruct (beqb_spec a (nft_dst i)) as [->|Hd].
          { rewrite (ns_dst_balance eq_refl). specialize (Hnn eq_refl). lia. }
          { rewrite (ue_balance E _ _ _ _ ns_frame); [lia|]. intros [_ [?|[_ ?]]]; contradiction. }
        * rewrite (ue_balance E _ _ _ _ ns_frame); [lia|]. intros [_ [?|[? _]]]; [contradiction|discriminate].
    - rewrite !andb_false_r. rewrite (ue_balance E _ _ _ _ ns_frame); [lia|]. intros [? _]. contradiction.
  Qed.

  Theorem transfer_balance_effect_nft_dest i s o s' :
    f_nft_transfer E i s = (Ok o, s') -> i_caller i <> i_rcpt i ->
    exists t, dec_tok (cdc E) (argn i 3) = Some t /\ wf_token t
      /\ ((0 <= val_or_0 t + balance E s (i_rcpt i) (nft_full i t))%Z ->
          forall a k, balance E s' a k =
            (balance E s a k + (if (beqb a (i_rcpt i) && beqb k (nft_full i t))%bool then val_or_0 t else 0))%Z).
  Proof.
    intros H Hne. destruct (nft_dest_post _ _ _ _ H Hne) as (t & Hp). destruct Hp.
    exists t. split; [exact nd_dec|]. split; [exact nd_wf|]. intros Hnn a k.
    destruct (beqb_spec a (i_rcpt i)) as [->|Ha]; cbn [andb].
    - destruct (beqb_spec k (nft_full i t)) as [->|Hk]; [rewrite nd_balance; lia|].
      rewrite (ue_balance E _ _ _ _ nd_frame); [lia|]. intros [_ ?]. contradiction.
    - rewrite (ue_balance E _ _ _ _ nd_frame); [lia|]. intros [? _]. contradiction.
  Qed.

  Theorem transfer_overdraft_fails_nft i s o s' : i_caller i = i_rcpt i ->
    (balance E s (i_caller i) (nft_cell i) < nft_qty i)%Z -> f_nft_transfer E i s <> (Ok o, s').
  Proof.
    intros Heq Hlt H. destruct (nft_sender_post _ _ _ _ H Heq) as (t & Hp). destruct Hp.
    destruct ns_debit as (s1 & D & _). destruct D.
    unfold nft_cell in Hlt. rewrite (balance_tok_at E _ _ _ _ db_entry) in Hlt. lia.
  Qed.

  Theorem transfer_credit_implies_admissible_nft i s o s' a k : f_nft_transfer E i s = (Ok o, s') ->
    a <> i_caller i -> balance E s' a k <> balance E s a k ->
    admissible i a 4
    /\ (if beqb (i_caller i) (i_rcpt i) then a = nft_dst i /\ nft_same E i = true else a = i_rcpt i).
  Proof.
    intros H Ha Hch. destruct (beqb_spec (i_caller i) (i_rcpt i)) as [Heq|Hne].
    - destruct (nft_sender_post _ _ _ _ H Heq) as (t & Hp). destruct Hp.
      destruct (nft_same E i) eqn:Es.
      + destruct (beqb_spec a (nft_dst i)) as [->|Hd].
        * split; [apply verify_admissible; apply ns_dst_payable; reflexivity|auto].
        * exfalso. apply Hch. apply (ue_balance E _ _ _ _ ns_frame). intros [_ [?|[_ ?]]]; contradiction.
      + exfalso. apply Hch. apply (ue_balance E _ _ _ _ ns_frame). intros [_ [?|[? _]]]; [contradiction|discriminate].
    - destruct (nft_dest_post _ _ _ _ H Hne) as (t & Hp). destruct Hp.
      destruct (beqb_spec a (i_rcpt i)) as [->|Hd].
      + split; [apply verify_admissible; exact nd_payable|reflexivity].
      + exfalso. apply Hch. apply (ue_balance E _ _ _ _ nd_frame). intros [? _]. contradiction.
  Qed.
  Theorem metachain_rejected_nft i s o s' : i_caller i = i_rcpt i -> shard_of E (argn i 3) = META ->
    f_nft_transfer E i s <> (Ok o, s').
  Proof.
    intros Heq Hm H. destruct (nft_sender_post _ _ _ _ H Heq) as (t & Hp). apply (ns_not_meta E _ _ _ _ _ Hp). exact Hm.
  Qed.
  Theorem self_or_wrong_length_rejected_nft i s o s' : i_caller i = i_rcpt i ->
    argn i 3 = i_caller i \/ zlen (argn i 3) <> zlen (i_caller i) -> f_nft_transfer E i s <> (Ok o, s').
  Proof.
    intros Heq Hbad H. destruct (nft_sender_post _ _ _ _ H Heq) as (t & Hp). destruct Hp.
    destruct Hbad as [Hx|Hx]; [apply ns_dst_ne; exact Hx|apply Hx; exact ns_dst_len].
  Qed.
  Theorem nft_transfer_needs_sender i s o s' : f_nft_transfer E i s = (Ok o, s') ->
    if beqb (i_caller i) (i_rcpt i) then i_snd i = true else i_snd i = false /\ i_dst i = true.
  Proof.
    intros H. destruct (beqb_spec (i_caller i) (i_rcpt i)) as [Heq|Hne].
    - destruct (nft_sender_post _ _ _ _ H Heq) as (t & Hp). apply (ns_snd E _ _ _ _ _ Hp).
    - destruct (nft_dest_post _ _ _ _ H Hne) as (t & Hp). split; [apply (nd_snd E _ _ _ _ _ Hp)|apply (nd_dst E _ _ _ _ _ Hp)].
  Qed.

  Theorem transfer_frozen_paused_nft_sender i s o s' : f_nft_transfer E i s = (Ok o, s') -> i_caller i = i_rcpt i ->
    i_rae i = false ->
    exists t, tok_at E s (i_caller i) (nft_cell i) = Some t
      /\ (i_caller i <> SC ->
          frozen_at E s (i_caller i) (nft_cell i) = false
          /\ paused_at s (nft_tkey i) = false /\ paused_at s (nft_full i t) = false)
      /\ (nft_same E i = true -> nft_dst i <> SC ->
          frozen_at E s (nft_dst i) (nft_full i t) = false /\ frozen_props (t_props t) = false
          /\ paused_at s (nft_tkey i) = false /\ paused_at s (nft_full i t) = false).
  Proof.
    intros H Heq Hr. destruct (nft_sender_post _ _ _ _ H Heq) as (t & Hp). destruct Hp.
    destruct ns_debit as (s1 & D & _). destruct D. exists t. split; [exact db_entry|]. split.
    - intros Hsc. destruct (db_flags Hr Hsc) as (_ & F & P1 & P2). auto.
    - intros Hs Hsc. apply ns_dst_flags; assumption.
  Qed.
  Theorem transfer_frozen_paused_nft_dest i s o s' : f_nft_transfer E i s = (Ok o, s') -> i_caller i <> i_rcpt i ->
    i_rae i = false -> i_rcpt i <> SC ->
    exists t, dec_tok (cdc E) (argn i 3) = Some t
      /\ frozen_at E s (i_rcpt i) (nft_full i t) = false /\ frozen_props (t_props t) = false
      /\ paused_at s (nft_tkey i) = false /\ paused_at s (nft_full i t) = false.
  Proof.
    intros H Hne Hr Hsc. destruct (nft_dest_post _ _ _ _ H Hne) as (t & Hp). destruct Hp.
    exists t. split; [exact nd_dec|]. apply nd_flags; assumption.
  Qed.

  (* C08: what arrives carries the sender's metadata (and type, properties, reserved) *)
  Theorem transfer_preserves_metadata_nft_same_shard i s o s' t' :
    f_nft_transfer E i s = (Ok o, s') -> i_caller i = i_rcpt i -> nft_same E i = true ->
    exists t, tok_at E s (i_caller i) (nft_cell i) = Some t
      /\ (tok_at E s' (nft_dst i) (nft_full i t) = Some t' -> t' = set_value t (t_value t'))
      /\ (forall cur cm m, tok_at E s (nft_dst i) (nft_full i t) = Some cur -> t_meta cur = Some cm -> t_meta t = Some m ->
            md_hash cm = md_hash m).
  Proof.
    intros H Heq Hs. destruct (nft_sender_post _ _ _ _ H Heq) as (t & Hp). destruct Hp.
    destruct ns_debit as (s1 & D & _). destruct D. exists t. split; [exact db_entry|]. split.
    - rewrite (ns_dst_tok_at Hs).
      destruct (nft_qty i + balance E s (nft_dst i) (nft_full i t) <=? 0)%Z; [discriminate|].
      intros [= <-]. reflexivity.
    - intros cur cm m Hcur Hcm Hm. destruct (ns_dst_hash Hs cur cm Hcur Hcm) as (m' & Hm' & Hh). congruence.
  Qed.

  Theorem transfer_footprint_nft i s o s' : f_nft_transfer E i s = (Ok o, s') ->
    unchanged_except (fun a k => (a = i_caller i \/ a = i_rcpt i \/ a = nft_dst i)
                                 /\ exists n, k = nft_key (nft_tkey i) n) (fun _ => False) s s'.
  Proof.
    intros H. destruct (beqb_spec (i_caller i) (i_rcpt i)) as [Heq|Hne].
    - destruct (nft_sender_post _ _ _ _ H Heq) as (t & Hp). destruct Hp.
      eapply unchanged_except_weaken; [| |exact ns_frame]; [|auto].
      intros a k [-> Ha]. split; [|exists (tok_nonce t); reflexivity]. destruct Ha as [->|[_ ->]]; auto.
    - destruct (nft_dest_post _ _ _ _ H Hne) as (t & Hp). destruct Hp.
      eapply unchanged_except_weaken; [| |exact nd_frame]; [|auto].
      intros a k [-> ->]. split; [auto|exists (tok_nonce t); reflexivity].
  Qed.

  (* the emitted transfer on the cross-shard path *)
  Theorem nft_out_accounts_cross i s o s' : f_nft_transfer E i s = (Ok o, s') -> i_caller i = i_rcpt i ->
    nft_same E i = false ->
    exists t, tok_at E s (i_caller i) (nft_cell i) = Some t /\ wf_token t /\ (exists m, t_meta t = Some m)
      /\ let payload := enc_tok (cdc E) (set_value t (Some (nft_qty i))) in
         let g := sub64 (sub64 (i_gas i) (g_ESDTNFTTransfer (gas E))) (mul64 (zlen payload) (g_DataCopyPerByte (gas E))) in
         o_accounts o = one_transfer (nft_dst i)
           {| tr_value := 0; tr_gasLimit := (if nft_call_after i (nft_dst i) then g else 0%N);
              tr_gasLocked := i_gasLocked i;
              tr_data := msg_data C.BuiltInFunctionESDTNFTTransfer
                           ([argn i 0; argn i 1; argn i 2] ++ [payload] ++ skipn 4 (i_args i));
              tr_callType := i_callType i; tr_sender := i_caller i |}.
  Proof.
    intros H Heq Hs. destruct (nft_sender_post _ _ _ _ H Heq) as (t & Hp). destruct Hp.
    destruct ns_debit as (s1 & D & _). destruct D. exists t.
    split; [exact db_entry|]. split; [exact db_wf|]. split; [exact ns_meta|].
    rewrite ns_out. unfold nft_sender_out, nft_travel. cbv zeta. rewrite Hs. cbn [negb].
    destruct (nft_call_after i (nft_dst i)); reflexivity.
  Qed.

  (* ================================================================ *)
  (* 3. MultiESDTNFTTransfer                                            *)
  (* ================================================================ *)
  Lemma multi_sender_post i s o s' : f_multi_transfer E i s = (Ok o, s') -> i_caller i = i_rcpt i ->
    exists lst, multi_snd_post E i lst s o s'.
  Proof.
    intros H Heq. apply (multi_transfer_spec E Hc) in H as (_ & _ & H).
    rewrite Heq, beqb_refl in H. exact H.
  Qed.
  Lemma multi_dest_post i s o s' : f_multi_transfer E i s = (Ok o, s') -> i_caller i <> i_rcpt i ->
    multi_dst_post E i s o s'.
  Proof.
    intros H Hne. apply (multi_transfer_spec E Hc) in H as (_ & _ & H).
    rewrite (beqb_false _ _ Hne) in H. exact H.
  Qed.
  Lemma silent_consistent s s0 a trs : silent E s s0 -> triples_consistent E s a trs -> triples_consistent E s0 a trs.
  Proof.
    intros Hq. unfold triples_consistent. apply Forall_impl. intros x Hx t Ht. apply Hx.
    rewrite <- Ht. symmetry. apply (silent_tok_at E _ _ _ _ Hq).
  Qed.
  Lemma silent_nonneg s s0 a : silent E s s0 -> nonneg_balances E s a -> nonneg_balances E s0 a.
  Proof. intros Hq H k. rewrite (silent_balance E _ _ _ _ Hq). apply H. Qed.

  (* everything the sums lemma gives, transported to the pre- and post-state of the call *)
  Theorem multi_sender_effects i s o s' :
    f_multi_transfer E i s = (Ok o, s') -> i_caller i = i_rcpt i ->
    triples_consistent E s (i_caller i) (multi_snd_triples i) ->
    (multi_same E i = true -> nonneg_balances E s (multi_dst i)) ->
    exists lst, multi_snd_post E i lst s o s'
      /\ (forall a k, balance E s' a k =
            (balance E s a k + snd_delta (i_caller i) (multi_dst i) (multi_same E i) (multi_snd_triples i) a k)%Z)
      /\ Forall2 (travel_ok (multi_same E i)) (multi_snd_triples i) lst
      /\ (multi_same E i = true -> nonneg_balances E s' (multi_dst i))
      /\ unchanged_except (fun a k => (a = i_caller i \/ (multi_same E i = true /\ a = multi_dst i))
                                      /\ exists x, In x (multi_snd_triples i) /\ k = rt_cell x) (fun _ => False) s s'
      /\ (forall x, In x (multi_snd_triples i) -> (0 <= balance E s' (i_caller i) (rt_cell x))%Z).
  Proof.
    intros H Heq Hcons Hnn. destruct (multi_sender_post _ _ _ _ H Heq) as (lst & Hp). exists lst. split; [exact Hp|].
    destruct Hp. destruct mp_steps as (s0 & s1 & Q0 & Hs & Q1).
    destruct (snd_steps_spec E _ _ _ _ _ _ _ _ _ mp_dst_ne Hs (silent_consistent _ _ _ _ Q0 Hcons)
                (fun h => silent_nonneg _ _ _ Q0 (Hnn h))) as (Hb & Hf & Hn' & Hue & Hpos).
    split; [intros a k; rewrite (silent_balance E _ _ _ _ Q1), Hb, (silent_balance E _ _ _ _ Q0); reflexivity|].
    split; [exact Hf|]. split; [intros h; apply (silent_nonneg _ _ _ Q1), Hn', h|].
    split.
    { eapply unchanged_except_trans; [apply (silent_unchanged E _ _ _ _ Q0)|].
      eapply unchanged_except_trans; [exact Hue|apply (silent_unchanged E _ _ _ _ Q1)]. }
    intros x Hx. rewrite (silent_balance E _ _ _ _ Q1). apply Hpos. exact Hx.
  Qed.

  Theorem transfer_balance_effect_multi_sender i s o s' :
    f_multi_transfer E i s = (Ok o, s') -> i_caller i = i_rcpt i ->
    triples_consistent E s (i_caller i) (multi_snd_triples i) ->
    (multi_same E i = true -> nonneg_balances E s (multi_dst i)) ->
    forall a k, balance E s' a k =
      (balance E s a k + snd_delta (i_caller i) (multi_dst i) (multi_same E i) (multi_snd_triples i) a k)%Z.
  Proof. intros H Heq Hc1 Hn. destruct (multi_sender_effects _ _ _ _ H Heq Hc1 Hn) as (lst & _ & Hb & _). exact Hb. Qed.

  Theorem transfer_balance_effect_multi_dest i s o s' :
    f_multi_transfer E i s = (Ok o, s') -> i_caller i <> i_rcpt i ->
    nonneg_balances E s (i_rcpt i) -> credits_nonneg E (multi_dst_triples i) ->
    (forall a k, balance E s' a k =
       (balance E s a k + (if beqb a (i_rcpt i) then kv_sum k (dst_credits E (multi_dst_triples i)) else 0))%Z)
    /\ nonneg_balances E s' (i_rcpt i).
  Proof.
    intros H Hne Hnn Hcn. destruct (multi_dest_post _ _ _ _ H Hne). destruct mq_steps as (s0 & Q0 & Hs).
    destruct (dst_steps_spec E _ _ _ _ _ _ Hs (silent_nonneg _ _ _ Q0 Hnn) Hcn) as [Hb Hn'].
    split; [|exact Hn']. intros a k. rewrite Hb, (silent_balance E _ _ _ _ Q0). reflexivity.
  Qed.

  (* total debit of cell k requested by a list of triples *)
  Definition debit_list (trs : list rawtriple) : list (bytes * Z) := map (fun x => (rt_cell x, rt_qty x)) trs.
  Lemma snd_delta_caller caller dst dstLocal trs k : dst <> caller ->
    snd_delta caller dst dstLocal trs caller k = (- qty_list k (debit_list trs))%Z.
  Proof.
    intros Hne. induction trs as [|x r IH]; [reflexivity|]. cbn [snd_delta debit_list map qty_list fold_right fst snd].
    fold (debit_list r). fold (qty_list k (debit_list r)). rewrite IH. rewrite beqb_refl.
    rewrite (beqb_false caller dst) by congruence. rewrite andb_false_r. cbn [andb]. rewrite (beqb_sym k (rt_cell x)).
    destruct (beqb (rt_cell x) k); lia.
  Qed.
  Lemma snd_delta_dst caller dst trs k : dst <> caller ->
    snd_delta caller dst true trs dst k = qty_list k (debit_list trs).
  Proof.
    intros Hne. induction trs as [|x r IH]; [reflexivity|]. cbn [snd_delta debit_list map qty_list fold_right fst snd].
    fold (debit_list r). fold (qty_list k (debit_list r)). rewrite IH. rewrite beqb_refl.
    rewrite (beqb_false dst caller Hne). cbn [andb]. rewrite (beqb_sym k (rt_cell x)).
    destruct (beqb (rt_cell x) k); lia.
  Qed.

  Theorem transfer_overdraft_fails_multi i s o s' x : i_caller i = i_rcpt i ->
    triples_consistent E s (i_caller i) (multi_snd_triples i) ->
    (multi_same E i = true -> nonneg_balances E s (multi_dst i)) ->
    In x (multi_snd_triples i) ->
    (balance E s (i_caller i) (rt_cell x) < qty_list (rt_cell x) (debit_list (multi_snd_triples i)))%Z ->
    f_multi_transfer E i s <> (Ok o, s').
  Proof.
    intros Heq Hcons Hnn Hin Hlt H. destruct (multi_sender_effects _ _ _ _ H Heq Hcons Hnn) as (lst & Hp & Hb & _ & _ & _ & Hpos).
    specialize (Hpos x Hin). rewrite Hb in Hpos. rewrite snd_delta_caller in Hpos by (apply (mp_dst_ne E _ _ _ _ _ Hp)). lia.
  Qed.

  Theorem transfer_credit_implies_admissible_multi i s o s' a k : f_multi_transfer E i s = (Ok o, s') ->
    a <> i_caller i -> balance E s' a k <> balance E s a k ->
    if beqb (i_caller i) (i_rcpt i)
    then a = multi_dst i /\ multi_same E i = true /\ admissible i a (multi_min 2 (multi_n_snd i))
    else a = i_rcpt i /\ admissible i a (multi_min 1 (multi_n_dst i)).
  Proof.
    intros H Ha Hch. destruct (beqb_spec (i_caller i) (i_rcpt i)) as [Heq|Hne].
    - destruct (multi_sender_post _ _ _ _ H Heq) as (lst & Hp). destruct Hp. destruct mp_steps as (s0 & s1 & Q0 & Hs & Q1).
      destruct (snd_steps_frame E _ _ _ _ _ _ _ _ _ Hs) as (Hue & _ & _ & _ & Hpay & _ & _).
      assert (Hnz : multi_snd_triples i <> []).
      { intros Hnil. apply (f_equal (@length _)) in Hnil. unfold multi_snd_triples in Hnil.
        rewrite multi_triples_length in Hnil. cbn [length] in Hnil. lia. }
      rewrite (silent_balance E _ _ _ _ Q1), <- (silent_balance E _ _ a k Q0) in Hch.
      destruct (multi_same E i) eqn:Es.
      + destruct (beqb_spec a (multi_dst i)) as [->|Hd].
        * split; [reflexivity|]. split; [reflexivity|]. apply verify_admissible. apply Hpay; auto.
        * exfalso. apply Hch. apply (ue_balance E _ _ _ _ Hue). intros [[?|[_ ?]] _]; contradiction.
      + exfalso. apply Hch. apply (ue_balance E _ _ _ _ Hue). intros [[?|[? _]] _]; [contradiction|discriminate].
    - destruct (multi_dest_post _ _ _ _ H Hne). destruct mq_steps as (s0 & Q0 & Hs).
      destruct (dst_steps_frame E _ _ _ _ _ _ Hs) as (Hue & _ & _ & _ & Hpay).
      assert (Hnz : multi_dst_triples i <> []).
      { intros Hnil. apply (f_equal (@length _)) in Hnil. unfold multi_dst_triples in Hnil.
        rewrite multi_triples_length in Hnil. cbn [length] in Hnil. lia. }
      rewrite <- (silent_balance E _ _ a k Q0) in Hch.
      destruct (beqb_spec a (i_rcpt i)) as [->|Hd].
      + split; [reflexivity|]. apply verify_admissible. apply Hpay. exact Hnz.
      + exfalso. apply Hch. apply (ue_balance E _ _ _ _ Hue). intros [? _]. contradiction.
  Qed.
  Theorem metachain_rejected_multi i s o s' : i_caller i = i_rcpt i -> shard_of E (argn i 0) = META ->
    f_multi_transfer E i s <> (Ok o, s').
  Proof.
    intros Heq Hm H. destruct (multi_sender_post _ _ _ _ H Heq) as (lst & Hp). apply (mp_not_meta E _ _ _ _ _ Hp). exact Hm.
  Qed.
  Theorem self_or_wrong_length_rejected_multi i s o s' : i_caller i = i_rcpt i ->
    argn i 0 = i_caller i \/ zlen (argn i 0) <> zlen (i_caller i) -> f_multi_transfer E i s <> (Ok o, s').
  Proof.
    intros Heq Hbad H. destruct (multi_sender_post _ _ _ _ H Heq) as (lst & Hp). destruct Hp.
    destruct Hbad as [Hx|Hx]; [apply mp_dst_ne; exact Hx|apply Hx; exact mp_dst_len].
  Qed.
  Theorem multi_transfer_needs_sender i s o s' : f_multi_transfer E i s = (Ok o, s') ->
    if beqb (i_caller i) (i_rcpt i) then i_snd i = true else i_snd i = false /\ i_dst i = true.
  Proof.
    intros H. destruct (beqb_spec (i_caller i) (i_rcpt i)) as [Heq|Hne].
    - destruct (multi_sender_post _ _ _ _ H Heq) as (t & Hp). apply (mp_snd E _ _ _ _ _ Hp).
    - pose proof (multi_dest_post _ _ _ _ H Hne) as Hp. split; [apply (mq_snd E _ _ _ _ Hp)|apply (mq_dst E _ _ _ _ Hp)].
  Qed.

  (* footprint, accounting and fault-freedom without any hypothesis on the state *)
  Theorem transfer_footprint_multi i s o s' : f_multi_transfer E i s = (Ok o, s') ->
    let trs := if beqb (i_caller i) (i_rcpt i) then multi_snd_triples i else multi_dst_triples i in
    unchanged_except (fun a k => (a = i_caller i \/ a = i_rcpt i \/ a = multi_dst i)
                                 /\ exists x n, In x trs /\ k = nft_key (P ++ rt_tok x) n) (fun _ => False) s s'
    /\ (forall L, NoDup L -> In (i_caller i) L -> In (i_rcpt i) L -> In (multi_dst i) L -> touches L s s')
    /\ nofault E s s'.
  Proof.
    intros H. cbv zeta. destruct (beqb_spec (i_caller i) (i_rcpt i)) as [Heq|Hne].
    - destruct (multi_sender_post _ _ _ _ H Heq) as (lst & Hp). destruct Hp. destruct mp_steps as (s0 & s1 & Q0 & Hs & Q1).
      destruct (snd_steps_frame E _ _ _ _ _ _ _ _ _ Hs) as (Hue & Ht & Hnf & _).
      split.
      { eapply unchanged_except_trans; [apply (silent_unchanged E _ _ _ _ Q0)|].
        eapply unchanged_except_trans; [|apply (silent_unchanged E _ _ _ _ Q1)].
        eapply unchanged_except_weaken; [| |exact Hue]; [|auto]. intros a k [Ha Hk]. split; [|exact Hk].
        destruct Ha as [->|[_ ->]]; auto. }
      split.
      { intros L HL H1 _ H3. eapply touches_trans; [apply (silent_touches E _ _ _ Q0)|].
        eapply touches_trans; [apply Ht; auto|apply (silent_touches E _ _ _ Q1)]. }
      eapply nofault_trans; [apply (silent_nofault E _ _ Q0)|]. eapply nofault_trans; [exact Hnf|apply (silent_nofault E _ _ Q1)].
    - destruct (multi_dest_post _ _ _ _ H Hne). destruct mq_steps as (s0 & Q0 & Hs).
      destruct (dst_steps_frame E _ _ _ _ _ _ Hs) as (Hue & Ht & Hnf & _).
      split.
      { eapply unchanged_except_trans; [apply (silent_unchanged E _ _ _ _ Q0)|].
        eapply unchanged_except_weaken; [| |exact Hue]; [|auto]. intros a k [-> Hk]. split; [auto|exact Hk]. }
      split.
      { intros L HL _ H2 _. eapply touches_trans; [apply (silent_touches E _ _ _ Q0)|apply Ht; auto]. }
      eapply nofault_trans; [apply (silent_nofault E _ _ Q0)|exact Hnf].
  Qed.

  (* the emitted transfer on the cross-shard path *)
  Theorem multi_out_accounts_cross i s o s' lst : multi_snd_post E i lst s o s' -> multi_same E i = false ->
    let n := multi_n_snd i in
    let minArgs := multi_min 2 n in
    let g := out_gas_pure E lst (sub64 (i_gas i) (mul64 n (g_ESDTNFTMultiTransfer (gas E)))) in
    o_accounts o = one_transfer (multi_dst i)
      {| tr_value := 0;
         tr_gasLimit := (if ((minArgs <? alen (i_args i))%N && is_sc (multi_dst i))%bool then g else 0%N);
         tr_gasLocked := i_gasLocked i;
         tr_data := msg_data C.BuiltInFunctionMultiESDTNFTTransfer
                      ((u64_bytes n :: out_args_pure E lst) ++ skipn (N.to_nat minArgs) (i_args i));
         tr_callType := i_callType i; tr_sender := i_caller i |}.
  Proof.
    intros Hp Hs. cbv zeta. rewrite (mp_out E _ _ _ _ _ Hp). unfold multi_sender_out. cbv zeta. rewrite Hs. cbn [negb].
    destruct ((multi_min 2 (multi_n_snd i) <? alen (i_args i))%N && is_sc (multi_dst i))%bool; reflexivity.
  Qed.
End Corollaries.

(* ================================================================ *)
(* 4. World level: shard totals and the credits of emitted messages   *)
(* ================================================================ *)
Lemma asum_ext {A} (f g : A -> Z) (m : amap A) : (forall x, f x = g x) -> asum f m = asum g m.
Proof. intros H. induction m as [|[a x] r IH]; simpl; [reflexivity|]. rewrite H, IH. reflexivity. Qed.

Lemma forall2_length {A B} (R : A -> B -> Prop) l1 l2 : Forall2 R l1 l2 -> length l1 = length l2.
Proof. induction 1; simpl; congruence. Qed.
Lemma fn_nft_ne_esdt : beqb C.BuiltInFunctionESDTNFTTransfer C.BuiltInFunctionESDTTransfer = false.
Proof. vm_compute. reflexivity. Qed.
Lemma fn_multi_ne_esdt : beqb C.BuiltInFunctionMultiESDTNFTTransfer C.BuiltInFunctionESDTTransfer = false.
Proof. vm_compute. reflexivity. Qed.
Lemma fn_multi_ne_nft : beqb C.BuiltInFunctionMultiESDTNFTTransfer C.BuiltInFunctionESDTNFTTransfer = false.
Proof. vm_compute. reflexivity. Qed.

Section Messages.
  Variable E : env.
  Hypothesis Hc : codec_ok (cdc E).
  Variable c : wcfg.
  Hypothesis Hcd : wc_cdc c = cdc E.

  Lemma acct_balance_acct_bal k x : acct_balance c k x = acct_bal E k x.
  Proof. unfold acct_balance, acct_bal, bal_of_bytes. rewrite Hcd. destruct (sget (a_store x) k); reflexivity. Qed.
  Lemma shard_total_asum k m : shard_total c k m = asum (acct_bal E k) m.
  Proof. unfold shard_total. apply asum_ext. apply acct_balance_acct_bal. Qed.
  Lemma shard_total_accts k s : shard_total c k (accts s) = asum (acct_bal E k) (accts s).
  Proof. apply shard_total_asum. Qed.

  Lemma nft_credit_enc tok t v : wf_token t -> t_value t = Some v ->
    nft_credit c tok (enc_tok (cdc E) t) = [(nft_key (P ++ tok) (tok_nonce t), v)].
  Proof. intros Hwf Hv. unfold nft_credit. rewrite Hcd, (dec_enc_tok _ Hc _ Hwf), Hv. reflexivity. Qed.
  Lemma nft_credit_rt x : (0 < rt_nonce x)%N -> nft_credit c (rt_tok x) (rt_third x) = rt_credit E x.
  Proof. intros Hn. unfold rt_credit, nft_credit. rewrite Hcd. destruct (0 <? rt_nonce x)%N eqn:En; [reflexivity|lia]. Qed.

  (* ---- ESDTTransfer: the message is the call itself ---- *)
  Theorem emitted_message_carries_debit_esdt (m : msg) i :
    m_fn m = C.BuiltInFunctionESDTTransfer -> m_args m = i_args i -> (2 <= alen (i_args i))%N ->
    credits c m = [(esdt_key i, esdt_val i)].
  Proof.
    intros Hfn Hargs Hlen. unfold credits. rewrite Hfn, beqb_refl, Hargs. unfold esdt_key, esdt_val, argn.
    unfold alen in Hlen. destruct (i_args i) as [|a0 [|a1 r]]; simpl in Hlen; try lia. reflexivity.
  Qed.

  (* ---- ESDTNFTTransfer: the payload decodes to the sender's entry with Value = q ---- *)
  Theorem emitted_message_carries_debit_nft (m : msg) tok a1 a2 t q rest :
    wf_token t ->
    m_fn m = C.BuiltInFunctionESDTNFTTransfer ->
    m_args m = [tok; a1; a2] ++ [enc_tok (cdc E) (set_value t (Some q))] ++ rest ->
    credits c m = [(nft_key (P ++ tok) (tok_nonce t), q)].
  Proof.
    intros Hwf Hfn Hargs. unfold credits. rewrite Hfn, fn_nft_ne_esdt, beqb_refl, Hargs. cbn [app].
    rewrite (nft_credit_enc tok (set_value t (Some q)) q (wf_set_value _ _ Hwf) eq_refl). reflexivity.
  Qed.

  (* ---- MultiESDTNFTTransfer ---- *)
  Definition travel_credit (y : bytes * token) : bytes * Z := (nft_key (P ++ fst y) (tok_nonce (snd y)), val_or_0 (snd y)).
  Definition travel_good (y : bytes * token) : Prop :=
    wf_token (snd y) /\ t_value (snd y) = Some (val_or_0 (snd y))
    /\ (forall m, t_meta (snd y) = Some m -> (0 < md_nonce m)%N)
    /\ (t_meta (snd y) = None -> (0 <= val_or_0 (snd y))%Z).

  Lemma nth_error_app_at {A} (pre l : list A) n j : length pre = n -> nth_error (pre ++ l) (n + j) = nth_error l j.
  Proof. intros <-. rewrite nth_error_app2 by lia. f_equal. lia. Qed.

  Lemma multi_credits_out_args lst : forall pre idx rest,
    length pre = N.to_nat (1 + idx * 3) -> Forall travel_good lst ->
    multi_credits c (length lst) (pre ++ out_args_pure E lst ++ rest) idx = map travel_credit lst.
  Proof.
    induction lst as [|[tok t] r IH]; intros pre idx rest Hlen Hg; [reflexivity|].
    inversion Hg as [|y l Hy Hr]; subst. destruct Hy as (Hwf & Hv & Hmpos & Hvpos). cbn [fst snd] in *.
    cbn [length multi_credits]. cbv zeta.
    replace (N.to_nat (1 + idx * 3)) with (length pre + 0)%nat by lia.
    replace (N.to_nat (1 + idx * 3 + 1)) with (length pre + 1)%nat by lia.
    replace (N.to_nat (1 + idx * 3 + 2)) with (length pre + 2)%nat by lia.
    rewrite !(nth_error_app_at pre _ (length pre)) by reflexivity.
    cbn [out_args_pure]. rewrite <- app_assoc.
    assert (Htail : forall x1 x2 x3,
              multi_credits c (length r) (pre ++ x1 :: x2 :: x3 :: out_args_pure E r ++ rest) (idx + 1) = map travel_credit r).
    { intros x1 x2 x3. change (pre ++ x1 :: x2 :: x3 :: out_args_pure E r ++ rest)
        with (pre ++ [x1; x2; x3] ++ out_args_pure E r ++ rest).
      rewrite app_assoc. apply IH; [|exact Hr]. rewrite app_length. cbn [length]. lia. }
    destruct (t_meta t) as [m|] eqn:Em.
    - cbn [app nth_error]. rewrite bigU64_u64_bytes.
      assert (Hlt : (md_nonce m < two64)%N) by (destruct Hwf as [_ Hw]; rewrite Em in Hw; apply Hw).
      rewrite (u64_small _ Hlt). specialize (Hmpos m eq_refl).
      destruct (0 <? md_nonce m)%N eqn:En; [|lia].
      rewrite (nft_credit_enc tok t _ Hwf Hv).
      rewrite Htail.
      cbn [map app]. reflexivity.
    - cbn [app nth_error].
      change (bigU64 [x00]) with 0%N. cbn [N.ltb N.compare].
      rewrite Htail.
      cbn [map app]. rewrite bigZ_Z_bytes by (apply Hvpos; reflexivity).
      f_equal. unfold travel_credit. cbn [fst snd]. unfold tok_nonce. rewrite Em, nft_key_0. reflexivity.
  Qed.

  Theorem emitted_message_credits_multi (m : msg) n lst rest :
    (n < two64)%N -> length lst = N.to_nat n -> Forall travel_good lst ->
    m_fn m = C.BuiltInFunctionMultiESDTNFTTransfer ->
    m_args m = (u64_bytes n :: out_args_pure E lst) ++ rest ->
    credits c m = map travel_credit lst.
  Proof.
    intros Hn Hlen Hg Hfn Hargs. unfold credits. rewrite Hfn, fn_multi_ne_esdt, fn_multi_ne_nft, beqb_refl, Hargs.
    cbn [app]. cbv beta iota zeta. rewrite bigU64_u64_bytes, (u64_small _ Hn).
    replace (be_to_N (u64_bytes n)) with n by (unfold u64_bytes; rewrite be_to_N_to_be; reflexivity).
    assert (Hal : (n <= alen (u64_bytes n :: out_args_pure E lst ++ rest) / 3)%N).
    { unfold alen. cbn [length]. rewrite app_length, out_args_pure_length, Hlen.
      apply N.div_le_lower_bound; lia. }
    destruct (n <? two64)%N eqn:E1; [|lia]. destruct (n <=? alen (u64_bytes n :: out_args_pure E lst ++ rest) / 3)%N eqn:E2; [|lia].
    cbn [andb]. rewrite <- Hlen.
    apply (multi_credits_out_args lst [u64_bytes n] 0 rest); [reflexivity|exact Hg].
  Qed.

  (* under consistent lookups, on the cross-shard path, the travelling entries are exactly the debits *)
  Lemma travel_ok_credits trs lst : Forall2 (travel_ok false) trs lst ->
    map travel_credit lst = debit_list trs /\ Forall travel_good lst.
  Proof.
    induction 1 as [|x y trs lst Hxy Hf IH]; [split; [reflexivity|constructor]|].
    destruct IH as [IH1 IH2]. destruct Hxy as (H1 & H2 & H3 & H4 & H5 & H6 & H7 & H8).
    split.
    - cbn [map debit_list]. fold (debit_list trs). rewrite IH1. unfold travel_credit, rt_cell.
      rewrite H1, H2, (H8 eq_refl). reflexivity.
    - constructor; [|exact IH2]. split; [exact H3|]. split; [exact H4|]. split.
      + intros m Hm. assert (Hn : tok_nonce (snd y) = md_nonce m) by (unfold tok_nonce; rewrite Hm; reflexivity).
        destruct (N.eq_dec (rt_nonce x) 0) as [Hz|Hz]; [rewrite (H6 Hz) in Hm; discriminate|]. lia.
      + intros _. rewrite (H8 eq_refl). lia.
  Qed.

  Theorem emitted_message_carries_debit_multi (m : msg) i s o s' :
    f_multi_transfer E i s = (Ok o, s') -> i_caller i = i_rcpt i -> multi_same E i = false ->
    triples_consistent E s (i_caller i) (multi_snd_triples i) ->
    exists lst, multi_snd_post E i lst s o s'
      /\ (m_fn m = C.BuiltInFunctionMultiESDTNFTTransfer ->
          m_args m = (u64_bytes (multi_n_snd i) :: out_args_pure E lst) ++ skipn (N.to_nat (multi_min 2 (multi_n_snd i))) (i_args i) ->
          credits c m = debit_list (multi_snd_triples i)).
  Proof.
    intros H Heq Hs Hcons.
    destruct (multi_sender_effects E Hc _ _ _ _ H Heq Hcons) as (lst & Hp & _ & Hf & _).
    { intros Hx. rewrite Hs in Hx. discriminate. }
    exists lst. split; [exact Hp|]. intros Hfn Hargs. rewrite Hs in Hf.
    destruct (travel_ok_credits _ _ Hf) as [Hmap Hgood]. rewrite <- Hmap.
    eapply emitted_message_credits_multi; [| |exact Hgood|exact Hfn|exact Hargs].
    - apply bigU64_lt.
    - rewrite <- (forall2_length _ _ _ Hf). unfold multi_snd_triples. apply multi_triples_length.
  Qed.

  (* ---- destination side: what a delivered multi message credits, in WorldDefs' terms ---- *)
  Lemma multi_credits_triples fuel : forall i idx,
    (fuel <> O -> (1 + (idx + N.of_nat fuel) * 3 <= alen (i_args i))%N) ->
    multi_credits c fuel (i_args i) idx = dst_credits E (multi_triples fuel i 1 idx).
  Proof.
    induction fuel as [|f IH]; intros i idx Hlen; [reflexivity|].
    cbn [multi_credits multi_triples]. cbv zeta. unfold dst_credits. cbn [map concat]. fold (dst_credits E (multi_triples f i 1 (idx + 1))).
    specialize (Hlen ltac:(discriminate)).
    rewrite !argn_nth_error by lia.
    rewrite <- IH by (intros _; lia).
    set (x := (argn i (N.to_nat (1 + idx * 3)), argn i (N.to_nat (1 + idx * 3 + 1)), argn i (N.to_nat (1 + idx * 3 + 2)))).
    change (argn i (N.to_nat (1 + idx * 3))) with (rt_tok x).
    change (bigU64 (argn i (N.to_nat (1 + idx * 3 + 1)))) with (rt_nonce x).
    change (argn i (N.to_nat (1 + idx * 3 + 2))) with (rt_third x).
    f_equal. unfold rt_credit. destruct (0 <? rt_nonce x)%N eqn:En; [|reflexivity].
    unfold nft_credit. rewrite Hcd. reflexivity.
  Qed.
  Theorem delivered_message_credits_multi (m : msg) i s o s' :
    f_multi_transfer E i s = (Ok o, s') -> i_caller i <> i_rcpt i ->
    m_fn m = C.BuiltInFunctionMultiESDTNFTTransfer -> m_args m = i_args i ->
    (be_to_N (argn i 0) < two64)%N ->
    credits c m = dst_credits E (multi_dst_triples i).
  Proof.
    intros H Hne Hfn Hargs Hlt. pose proof (multi_dest_post E Hc _ _ _ _ H Hne) as Hp. destruct Hp.
    unfold credits. rewrite Hfn, fn_multi_ne_esdt, fn_multi_ne_nft, beqb_refl, Hargs.
    assert (Hnz : i_args i <> []).
    { intros Hnil. rewrite Hnil in mq_len. unfold alen in mq_len. cbn [length] in mq_len. lia. }
    destruct (i_args i) as [|a0 r] eqn:EA; [contradiction|]. rewrite <- EA in mq_n_le, mq_len, mq_min |- *.
    assert (Ha0 : a0 = argn i 0) by (unfold argn; rewrite EA; reflexivity). rewrite Ha0.
    fold (multi_n_dst i).
    destruct (be_to_N (argn i 0) <? two64)%N eqn:E1; [|lia].
    destruct (multi_n_dst i <=? alen (i_args i) / 3)%N eqn:E2; [|lia]. cbn [andb].
    unfold multi_dst_triples. apply multi_credits_triples. intros _. rewrite N2Nat.id. lia.
  Qed.
End Messages.

(* ================================================================ *)
(* 5. Shard totals for the NFT and multi transfers; C08/C04 for the multi transfer *)
(* ================================================================ *)
Section Totals.
  Variable E : env.
  Hypothesis Hc : codec_ok (cdc E).

  Lemma shard_total_one a s s' k (d : bytes -> Z) :
    touches [a] s s' -> NoDup (map fst (accts s)) ->
    (forall x, balance E s' x k = (balance E s x k + d x)%Z) ->
    NoDup (map fst (accts s')) /\ asum (acct_bal E k) (accts s') = (asum (acct_bal E k) (accts s) + d a)%Z.
  Proof.
    intros Ht Hnd Hb. split; [apply (proj1 (Ht Hnd))|].
    rewrite (touches_sum _ _ _ (acct_bal E k) d Ht Hnd (acct_bal_empty E k)).
    - cbn [zsum]. lia.
    - intros x _. rewrite <- !balance_acct_bal. apply Hb.
  Qed.
  Lemma shard_total_two a b s s' k (d : bytes -> Z) : a <> b ->
    touches [a; b] s s' -> NoDup (map fst (accts s)) ->
    (forall x, balance E s' x k = (balance E s x k + d x)%Z) ->
    NoDup (map fst (accts s')) /\ asum (acct_bal E k) (accts s') = (asum (acct_bal E k) (accts s) + d a + d b)%Z.
  Proof.
    intros Hne Ht Hnd Hb. split; [apply (proj1 (Ht Hnd))|].
    rewrite (touches_sum _ _ _ (acct_bal E k) d Ht Hnd (acct_bal_empty E k)).
    - cbn [zsum]. lia.
    - intros x _. rewrite <- !balance_acct_bal. apply Hb.
  Qed.
  Lemma nodup_two (a b : bytes) : a <> b -> NoDup [a; b].
  Proof. intros H. constructor; [intros [Hx|[]]; congruence|constructor; [intros []|constructor]]. Qed.
  Lemma nodup_one (a : bytes) : NoDup [a].
  Proof. constructor; [intros []|constructor]. Qed.

  Theorem transfer_shard_total_nft_sender i s o s' k :
    f_nft_transfer E i s = (Ok o, s') -> i_caller i = i_rcpt i ->
    lookup_consistent E s (i_caller i) (nft_tkey i) (nft_nonce i) ->
    (nft_same E i = true -> (0 <= balance E s (nft_dst i) (nft_cell i))%Z) ->
    NoDup (map fst (accts s)) ->
    NoDup (map fst (accts s'))
    /\ asum (acct_bal E k) (accts s') =
       (asum (acct_bal E k) (accts s)
        + (if beqb k (nft_cell i) then (if nft_same E i then 0 else - nft_qty i) else 0))%Z.
  Proof.
    intros H Heq Hlc Hnn Hnd. pose proof (transfer_balance_effect_nft_sender E Hc _ _ _ _ H Heq Hlc Hnn) as Hb.
    destruct (nft_sender_post E Hc _ _ _ _ H Heq) as (t & Hp).
    pose proof (ns_dst_ne E _ _ _ _ _ Hp) as Hne.
    assert (Ht : touches [i_caller i; nft_dst i] s s').
    { apply (ns_touches E _ _ _ _ _ Hp); [apply nodup_two; congruence|left; reflexivity|intros _; right; left; reflexivity]. }
    destruct (shard_total_two (i_caller i) (nft_dst i) s s' k (fun a => nft_snd_delta E i a k) (fun e => Hne (eq_sym e)) Ht Hnd)
      as [Hn' Hsum]; [intros x; apply Hb|].
    split; [exact Hn'|]. rewrite Hsum. unfold nft_snd_delta. rewrite !beqb_refl.
    rewrite (beqb_false (i_caller i) (nft_dst i)) by congruence. rewrite (beqb_false (nft_dst i) (i_caller i) Hne).
    rewrite !andb_false_r. cbn [andb]. destruct (beqb k (nft_cell i)); destruct (nft_same E i); cbn [andb]; lia.
  Qed.

  Theorem transfer_shard_total_nft_dest i s o s' k :
    f_nft_transfer E i s = (Ok o, s') -> i_caller i <> i_rcpt i -> NoDup (map fst (accts s)) ->
    exists t, dec_tok (cdc E) (argn i 3) = Some t /\ wf_token t /\ t_value t = Some (val_or_0 t)
      /\ ((0 <= val_or_0 t + balance E s (i_rcpt i) (nft_full i t))%Z ->
          NoDup (map fst (accts s'))
          /\ asum (acct_bal E k) (accts s') =
             (asum (acct_bal E k) (accts s) + (if beqb k (nft_full i t) then val_or_0 t else 0))%Z).
  Proof.
    intros H Hne Hnd. destruct (nft_dest_post E Hc _ _ _ _ H Hne) as (t & Hp).
    destruct (transfer_balance_effect_nft_dest E Hc _ _ _ _ H Hne) as (t' & Hd' & _ & Hb).
    assert (t' = t) by (pose proof (nd_dec E _ _ _ _ _ Hp); congruence). subst t'.
    exists t. split; [exact Hd'|]. split; [apply (nd_wf E _ _ _ _ _ Hp)|]. split; [apply (nd_value E _ _ _ _ _ Hp)|].
    intros Hnn. specialize (Hb Hnn).
    assert (Ht : touches [i_rcpt i] s s') by (apply (nd_touches E _ _ _ _ _ Hp); [apply nodup_one|left; reflexivity]).
    destruct (shard_total_one (i_rcpt i) s s' k
                (fun a => if (beqb a (i_rcpt i) && beqb k (nft_full i t))%bool then val_or_0 t else 0%Z) Ht Hnd)
      as [Hn' Hsum]; [intros x; apply Hb|].
    split; [exact Hn'|]. rewrite Hsum, beqb_refl. reflexivity.
  Qed.

  Theorem transfer_shard_total_multi_sender i s o s' k :
    f_multi_transfer E i s = (Ok o, s') -> i_caller i = i_rcpt i ->
    triples_consistent E s (i_caller i) (multi_snd_triples i) ->
    (multi_same E i = true -> nonneg_balances E s (multi_dst i)) ->
    NoDup (map fst (accts s)) ->
    NoDup (map fst (accts s'))
    /\ asum (acct_bal E k) (accts s') =
       (asum (acct_bal E k) (accts s)
        + (if multi_same E i then 0 else - qty_list k (debit_list (multi_snd_triples i))))%Z.
  Proof.
    intros H Heq Hcons Hnn Hnd.
    destruct (multi_sender_effects E Hc _ _ _ _ H Heq Hcons Hnn) as (lst & Hp & Hb & _).
    pose proof (mp_dst_ne E _ _ _ _ _ Hp) as Hne.
    destruct (transfer_footprint_multi E Hc _ _ _ _ H) as (_ & Ht & _).
    specialize (Ht [i_caller i; multi_dst i] (nodup_two (i_caller i) (multi_dst i) (fun e => Hne (eq_sym e))) (or_introl eq_refl)
                  (or_introl Heq) (or_intror (or_introl eq_refl))).
    destruct (shard_total_two (i_caller i) (multi_dst i) s s' k
                (fun a => snd_delta (i_caller i) (multi_dst i) (multi_same E i) (multi_snd_triples i) a k)
                (fun e => Hne (eq_sym e)) Ht Hnd) as [Hn' Hsum]; [intros x; apply Hb|].
    split; [exact Hn'|]. rewrite Hsum. rewrite snd_delta_caller by exact Hne.
    destruct (multi_same E i).
    - rewrite snd_delta_dst by exact Hne. lia.
    - rewrite snd_delta_other; [lia|congruence|discriminate].
  Qed.

  Lemma kv_sum_qty_list k l : kv_sum k l = qty_list k l.
  Proof. reflexivity. Qed.
  Theorem transfer_shard_total_multi_dest i s o s' k :
    f_multi_transfer E i s = (Ok o, s') -> i_caller i <> i_rcpt i ->
    nonneg_balances E s (i_rcpt i) -> credits_nonneg E (multi_dst_triples i) ->
    NoDup (map fst (accts s)) ->
    NoDup (map fst (accts s'))
    /\ asum (acct_bal E k) (accts s') =
       (asum (acct_bal E k) (accts s) + qty_list k (dst_credits E (multi_dst_triples i)))%Z.
  Proof.
    intros H Hne Hnn Hcn Hnd.
    destruct (transfer_balance_effect_multi_dest E Hc _ _ _ _ H Hne Hnn Hcn) as [Hb _].
    destruct (transfer_footprint_multi E Hc _ _ _ _ H) as (_ & Ht & _).
    pose proof (multi_dest_post E Hc _ _ _ _ H Hne) as Hp. destruct Hp. destruct mq_steps as (s0 & Q0 & Hs).
    destruct (dst_steps_frame E _ _ _ _ _ _ Hs) as (_ & Ht' & _).
    assert (Ht1 : touches [i_rcpt i] s s').
    { eapply touches_trans; [apply (silent_touches E _ _ _ Q0)|apply Ht'; [apply nodup_one|left; reflexivity]]. }
    destruct (shard_total_one (i_rcpt i) s s' k
               (fun a => if beqb a (i_rcpt i) then kv_sum k (dst_credits E (multi_dst_triples i)) else 0%Z) Ht1 Hnd)
      as [Hn' Hsum]; [intros x; apply Hb|].
    split; [exact Hn'|]. rewrite Hsum, beqb_refl. reflexivity.
  Qed.

  (* C08, cross-shard NFT transfer: the payload decodes to the sender's entry with Value = q *)
  Theorem transfer_preserves_metadata_nft_cross i s o s' :
    f_nft_transfer E i s = (Ok o, s') -> i_caller i = i_rcpt i -> nft_same E i = false ->
    exists t, tok_at E s (i_caller i) (nft_cell i) = Some t
      /\ dec_tok (cdc E) (enc_tok (cdc E) (set_value t (Some (nft_qty i)))) = Some (set_value t (Some (nft_qty i)))
      /\ t_meta (set_value t (Some (nft_qty i))) = t_meta t.
  Proof.
    intros H Heq Hs. destruct (nft_out_accounts_cross E Hc _ _ _ _ H Heq Hs) as (t & Ht & Hwf & _ & _).
    exists t. split; [exact Ht|]. split; [apply (dec_enc_tok _ Hc); apply wf_set_value; exact Hwf|reflexivity].
  Qed.

  (* C08 for the multi transfer: every entry that travels (and is stored at a same-shard destination) is the
     sender's pre-state entry of that cell up to its Value *)
  Theorem transfer_preserves_metadata_multi i s o s' :
    f_multi_transfer E i s = (Ok o, s') -> i_caller i = i_rcpt i ->
    triples_consistent E s (i_caller i) (multi_snd_triples i) ->
    exists lst, multi_snd_post E i lst s o s'
      /\ Forall2 (fun x y => exists t0, tok_at E s (i_caller i) (rt_cell x) = Some t0
                            /\ snd y = set_value t0 (t_value (snd y))
                            /\ (i_rae i = false -> i_caller i <> SC -> frozen_at E s (i_caller i) (rt_cell x) = false))
           (multi_snd_triples i) lst.
  Proof.
    intros H Heq Hcons. destruct (multi_sender_post E Hc _ _ _ _ H Heq) as (lst & Hp). exists lst. split; [exact Hp|].
    destruct Hp. destruct mp_steps as (s0 & s1 & Q0 & Hs & Q1).
    destruct (snd_steps_entries E _ _ _ _ _ _ _ _ _ mp_dst_ne Hs (silent_consistent E _ _ _ _ Q0 Hcons) s0
                (same_upto_value_refl E _ _)) as [Hf _].
    clear - Hf Q0. induction Hf as [|x y l1 l2 (t0 & Ht0 & Hy & Hfr) Hf IH]; constructor; [|exact IH].
    rewrite (silent_tok_at E _ _ _ _ Q0) in Ht0. exists t0. split; [exact Ht0|]. split; [exact Hy|].
    intros h1 h2. unfold frozen_at. rewrite Ht0. apply Hfr; assumption.
  Qed.

  (* C04 for the multi transfer, in terms of the pre-state *)
  Theorem transfer_frozen_paused_multi_sender i s o s' :
    f_multi_transfer E i s = (Ok o, s') -> i_caller i = i_rcpt i -> i_rae i = false ->
    triples_consistent E s (i_caller i) (multi_snd_triples i) ->
    (i_caller i <> SC -> Forall (fun x => frozen_at E s (i_caller i) (rt_cell x) = false) (multi_snd_triples i))
    /\ (multi_same E i = true -> multi_dst i <> SC ->
        Forall (fun x => frozen_at E s (multi_dst i) (rt_cell x) = false) (multi_snd_triples i))
    /\ (i_caller i <> SYS -> (multi_same E i = true -> multi_dst i <> SYS) ->
        Forall (fun x => (i_caller i <> SC -> paused_at s (P ++ rt_tok x) = false)
                         /\ (multi_same E i = true -> multi_dst i <> SC -> paused_at s (P ++ rt_tok x) = false))
               (multi_snd_triples i)).
  Proof.
    intros H Heq Hr Hcons.
    destruct (transfer_preserves_metadata_multi _ _ _ _ H Heq Hcons) as (lst & Hp & Hf).
    destruct Hp. destruct mp_steps as (s0 & s1 & Q0 & Hs & Q1). rewrite Hr in Hs.
    split; [|split].
    - intros Hsc. clear - Hf Hr Hsc. induction Hf as [|x y l1 l2 (t0 & _ & _ & Hfr) Hf IH]; constructor; auto.
    - intros Hsame Hsc. rewrite Hsame in Hs.
      pose proof (snd_steps_dst_frozen E _ _ _ _ _ _ _ mp_dst_ne Hsc Hs (silent_consistent E _ _ _ _ Q0 Hcons) s0 (fun k h => h)) as Hfz.
      eapply Forall_impl; [|exact Hfz]. intros x Hx. cbv beta in Hx.
      rewrite (frozen_at_accts E _ _ _ _ (proj1 Q0)) in Hx. exact Hx.
    - intros Hsys Hdsys. pose proof (snd_steps_paused E _ _ _ _ _ _ _ _ Hs Hsys Hdsys) as Hpz.
      eapply Forall_impl; [|exact Hpz]. intros x Hx. cbv beta in Hx.
      rewrite (paused_at_accts _ _ _ (proj1 Q0)) in Hx. exact Hx.
  Qed.

  Theorem transfer_frozen_paused_multi_dest i s o s' :
    f_multi_transfer E i s = (Ok o, s') -> i_caller i <> i_rcpt i -> i_rae i = false ->
    i_rcpt i <> SC -> i_rcpt i <> SYS ->
    Forall (fun x => paused_at s (P ++ rt_tok x) = false
                     /\ forall kv, In kv (rt_credit E x) -> frozen_at E s (i_rcpt i) (fst kv) = false)
           (multi_dst_triples i).
  Proof.
    intros H Hne Hr Hsc Hsys. pose proof (multi_dest_post E Hc _ _ _ _ H Hne) as Hp. destruct Hp.
    destruct mq_steps as (s0 & Q0 & Hs). rewrite Hr in Hs.
    pose proof (dst_steps_flags E _ _ _ _ _ Hsc Hsys Hs s0 (fun k h => h)) as Hfz.
    eapply Forall_impl; [|exact Hfz]. intros x [H1 H2]. split.
    - rewrite (paused_at_accts _ _ _ (proj1 Q0)) in H1. exact H1.
    - intros kv Hin. rewrite <- (frozen_at_accts E _ _ _ _ (proj1 Q0)). apply H2. exact Hin.
  Qed.
End Totals.

(* ================================================================ *)
(* 6. Through the dispatch                                             *)
(* ================================================================ *)
Lemma exec_esdt_transfer E i : exec E C.BuiltInFunctionESDTTransfer i = f_esdt_transfer E i.
Proof. reflexivity. Qed.
Lemma exec_nft_transfer E i : exec E C.BuiltInFunctionESDTNFTTransfer i = f_nft_transfer E i.
Proof. reflexivity. Qed.
Lemma exec_multi_transfer E i : exec E C.BuiltInFunctionMultiESDTNFTTransfer i = f_multi_transfer E i.
Proof. reflexivity. Qed.
Lemma exec_transfer_cases E f i : is_transfer_fn f = true ->
  (f = C.BuiltInFunctionESDTTransfer /\ exec E f i = f_esdt_transfer E i)
  \/ (f = C.BuiltInFunctionESDTNFTTransfer /\ exec E f i = f_nft_transfer E i)
  \/ (f = C.BuiltInFunctionMultiESDTNFTTransfer /\ exec E f i = f_multi_transfer E i).
Proof.
  unfold is_transfer_fn. intros H. apply orb_prop in H as [H|H]; [apply orb_prop in H as [H|H]|];
    apply beqb_true in H; subst f; auto.
Qed.

Print Assumptions esdt_transfer_spec.
Print Assumptions nft_transfer_spec.
Print Assumptions multi_transfer_spec.
Print Assumptions snd_steps_spec.
Print Assumptions dst_steps_spec.
Print Assumptions transfer_shard_total_esdt.
Print Assumptions transfer_balance_effect_nft_sender.
Print Assumptions transfer_balance_effect_multi_sender.
Print Assumptions transfer_balance_effect_multi_dest.
Print Assumptions transfer_overdraft_fails_multi.
Print Assumptions transfer_credit_implies_admissible_multi.
Print Assumptions transfer_footprint_multi.
Print Assumptions emitted_message_carries_debit_multi.
Print Assumptions delivered_message_credits_multi.
Print Assumptions transfer_shard_total_nft_sender.
Print Assumptions transfer_shard_total_nft_dest.
Print Assumptions transfer_shard_total_multi_sender.
Print Assumptions transfer_shard_total_multi_dest.
Print Assumptions transfer_preserves_metadata_multi.
Print Assumptions transfer_frozen_paused_multi_sender.
Print Assumptions transfer_frozen_paused_multi_dest.
