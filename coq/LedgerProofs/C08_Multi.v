(* Property C08, part 2: ONE HOP of MultiESDTNFTTransfer.
     hop_same_multi          same shard: every cell a triple addresses holds at the destination the metadata of the
                             sender's pre-state entry of that cell
     hop_cross_multi_sender  cross shard, sender side: the emitted argument list, entry by entry
     hop_multi_dest          destination side: what is stored is the decoded payload's metadata
     hop_cross_multi         the two composed through the emitted message
     hash_mismatch_rejected_multi_same / _dest *)
From EV Require Import Base.Bytes Base.Store Base.Monad gen.Consts Codec.Types Helpers.Helpers
  Parsers.Tokenize Parsers.CallArgs Parsers.Builder Parsers.ParsersProofs
  Ledger.Types Ledger.Env Ledger.Funcs Ledger.Transfers
  LedgerProofs.Defs LedgerProofs.EnvSpec
  LedgerProofs.Spec_Transfers_Base LedgerProofs.Spec_Transfers_Esdt LedgerProofs.Spec_Transfers_Nft
  LedgerProofs.Spec_Transfers_Multi LedgerProofs.Spec_Transfers LedgerProofs.Spec_Supply LedgerProofs.C08_Base.

Lemma c08_forall2_in_l {A B} (R : A -> B -> Prop) l1 l2 x : Forall2 R l1 l2 -> In x l1 -> exists y, In y l2 /\ R x y.
Proof.
  induction 1 as [|a b l1 l2 Hab Hf IH]; intros Hin; [contradiction|]. destruct Hin as [<-|Hin].
  - exists b. split; [left; reflexivity|exact Hab].
  - destruct (IH Hin) as (y & Hy & Hr). exists y. split; [right; exact Hy|exact Hr].
Qed.
Lemma c08_forall2_in_r {A B} (R : A -> B -> Prop) l1 l2 y : Forall2 R l1 l2 -> In y l2 -> exists x, In x l1 /\ R x y.
Proof.
  induction 1 as [|a b l1 l2 Hab Hf IH]; intros Hin; [contradiction|]. destruct Hin as [<-|Hin].
  - exists a. split; [left; reflexivity|exact Hab].
  - destruct (IH Hin) as (x & Hx & Hr). exists x. split; [right; exact Hx|exact Hr].
Qed.
Lemma c08_forall2_impl {A B} (R1 R2 : A -> B -> Prop) l1 l2 :
  (forall x y, R1 x y -> R2 x y) -> Forall2 R1 l1 l2 -> Forall2 R2 l1 l2.
Proof. intros H. induction 1; constructor; auto. Qed.
Lemma c08_forall2_and {A B} (R1 R2 : A -> B -> Prop) l1 l2 :
  Forall2 R1 l1 l2 -> Forall2 R2 l1 l2 -> Forall2 (fun x y => R1 x y /\ R2 x y) l1 l2.
Proof. induction 1; intros H2; inversion H2; subst; constructor; auto. Qed.

Section C08Multi.
  Variable E : env.
  Hypothesis Hc : codec_ok (cdc E).

  (* ================================================================ *)
  (* sender side, same shard                                            *)
  (* ================================================================ *)
  (* invariant of the sender loop for one cell k of the destination: once a triple has addressed k, whatever is
     stored there carries the metadata of the sender's entry of k in the state s0 the loop started from *)
  Lemma c08_snd_steps_dst_meta caller dst verify rae trs s s' lst s0 :
    dst <> caller ->
    snd_steps E caller dst true verify rae trs s s' lst ->
    triples_consistent E s caller trs ->
    same_upto_value E caller s0 s ->
    forall k,
      (exists t0, tok_at E s0 caller k = Some t0 /\ forall t', tok_at E s dst k = Some t' -> t_meta t' = t_meta t0)
      \/ In k (map rt_cell trs) ->
      exists t0, tok_at E s0 caller k = Some t0 /\ forall t', tok_at E s' dst k = Some t' -> t_meta t' = t_meta t0.
  Proof.
    intros Hne Hs. induction Hs as [s|x rest s s1 s' t t2 l Hp Hs IH]; intros Hcons Hinv k Hk.
    - destruct Hk as [Hk|[]]. exact Hk.
    - inversion Hcons as [|x0 r0 Hx Hrest]; subst.
      assert (Hpp := Hp). destruct Hpp. destruct os_debit as (s2 & D & Hs2). destruct D.
      assert (Htn : tok_nonce t = rt_nonce x) by (apply Hx; exact db_entry).
      assert (Hfull : nft_key (P ++ rt_tok x) (tok_nonce t) = rt_cell x) by (unfold rt_cell; rewrite Htn; reflexivity).
      rewrite Hfull in *.
      destruct (Hinv _ _ db_entry) as (t0 & Ht0 & Htt0). fold (rt_cell x) in Ht0.
      assert (Hcons1 : triples_consistent E s1 caller rest).
      { unfold triples_consistent in *. rewrite Forall_forall in *. intros y Hy.
        eapply one_snd_post_consistent; eauto. }
      assert (Hinv1 : same_upto_value E caller s0 s1).
      { intros k' t' Ht'. destruct (beqb_spec k' (rt_cell x)) as [->|Hk'].
        - rewrite os_snd_tok_at in Ht'. destruct (val_or_0 t - rt_qty x <=? 0)%Z; [discriminate|].
          inversion Ht'; subst t'. exists t0. split; [exact Ht0|]. rewrite Htt0. reflexivity.
        - apply Hinv. rewrite <- Ht'. symmetry. apply (ue_tok_at E _ _ _ _ os_frame). intros [? _]. contradiction. }
      apply (IH Hcons1 Hinv1). destruct (beqb_spec k (rt_cell x)) as [->|Hkx].
      + left. exists t0. split; [exact Ht0|]. intros t' Ht'. rewrite (os_dst_tok_at eq_refl) in Ht'.
        destruct (rt_qty x + balance E s dst (rt_cell x) <=? 0)%Z; [discriminate|]. inversion Ht'; subst t'.
        rewrite os_travel, t_meta_set_value, Htt0. reflexivity.
      + assert (Hun : tok_at E s1 dst k = tok_at E s dst k).
        { apply (ue_tok_at E _ _ _ _ os_frame). intros [? _]. contradiction. }
        destruct Hk as [(t1 & Ht1 & Hm1)|Hin].
        * left. exists t1. split; [exact Ht1|]. intros t' Ht'. apply Hm1. rewrite <- Hun. exact Ht'.
        * right. cbn [map] in Hin. destruct Hin as [Hin|Hin]; [congruence|exact Hin].
  Qed.

  (* what travels, entry by entry, in terms of the state s0 the loop started from (no hypothesis on balances) *)
  Definition c08_travels (s0 : mstate) (caller : bytes) (dstLocal : bool) (x : rawtriple) (y : bytes * token) : Prop :=
    exists t0, tok_at E s0 caller (rt_cell x) = Some t0 /\ wf_token t0 /\ tok_nonce t0 = rt_nonce x
      /\ ((0 < rt_nonce x)%N -> exists m, t_meta t0 = Some m) /\ (rt_nonce x = 0%N -> t_meta t0 = None)
      /\ fst y = rt_tok x /\ snd y = set_value t0 (t_value (snd y))
      /\ (dstLocal = false -> t_value (snd y) = Some (rt_qty x)) /\ (0 < rt_qty x)%Z.
  Lemma c08_snd_steps_travels caller dst dstLocal verify rae trs s s' lst s0 :
    dst <> caller ->
    snd_steps E caller dst dstLocal verify rae trs s s' lst ->
    triples_consistent E s caller trs ->
    same_upto_value E caller s0 s ->
    Forall2 (c08_travels s0 caller dstLocal) trs lst.
  Proof.
    intros Hne Hs. induction Hs as [s|x rest s s1 s' t t2 l Hp Hs IH]; intros Hcons Hinv; [constructor|].
    inversion Hcons as [|x0 r0 Hx Hrest]; subst.
    assert (Hpp := Hp). destruct Hpp. destruct os_debit as (s2 & D & Hs2). destruct D.
    assert (Htn : tok_nonce t = rt_nonce x) by (apply Hx; exact db_entry).
    assert (Hfull : nft_key (P ++ rt_tok x) (tok_nonce t) = rt_cell x) by (unfold rt_cell; rewrite Htn; reflexivity).
    rewrite Hfull in *.
    destruct (Hinv _ _ db_entry) as (t0 & Ht0 & Htt0). fold (rt_cell x) in Ht0.
    assert (Hcons1 : triples_consistent E s1 caller rest).
    { unfold triples_consistent in *. rewrite Forall_forall in *. intros y Hy.
      eapply one_snd_post_consistent; eauto. }
    assert (Hinv1 : same_upto_value E caller s0 s1).
    { intros k' t' Ht'. destruct (beqb_spec k' (rt_cell x)) as [->|Hk'].
      - rewrite os_snd_tok_at in Ht'. destruct (val_or_0 t - rt_qty x <=? 0)%Z; [discriminate|].
        inversion Ht'; subst t'. exists t0. split; [exact Ht0|]. rewrite Htt0. reflexivity.
      - apply Hinv. rewrite <- Ht'. symmetry. apply (ue_tok_at E _ _ _ _ os_frame). intros [? _]. contradiction. }
    constructor; [|apply IH; assumption].
    exists t0. cbn [fst snd]. split; [exact Ht0|].
    assert (Hm0 : t_meta t0 = t_meta t) by (rewrite Htt0; reflexivity).
    split; [eapply tok_at_wf; eauto|]. split; [unfold tok_nonce in *; rewrite Hm0; exact Htn|].
    split; [intros Hn; rewrite Hm0; apply db_meta_pos; exact Hn|]. split; [intros Hn; rewrite Hm0; apply db_meta_0; exact Hn|].
    split; [reflexivity|]. split; [rewrite os_travel, Htt0; reflexivity|].
    split; [intros ->; rewrite os_travel; reflexivity|exact os_pos].
  Qed.

  Theorem hop_same_multi i s o s' : exec E F_MULTIT i s = (Ok o, s') -> i_caller i = i_rcpt i ->
    multi_same E i = true -> triples_consistent E s (i_caller i) (multi_snd_triples i) ->
    forall x, In x (multi_snd_triples i) ->
      exists t0, tok_at E s (i_caller i) (rt_cell x) = Some t0
        /\ ((0 < rt_nonce x)%N -> exists m, t_meta t0 = Some m)
        /\ (forall t', tok_at E s' (multi_dst i) (rt_cell x) = Some t' -> t_meta t' = t_meta t0)
        /\ (forall t', tok_at E s' (i_caller i) (rt_cell x) = Some t' -> t_meta t' = t_meta t0).
  Proof.
    intros H Heq Hsame Hcons x Hx. change (exec E F_MULTIT i) with (f_multi_transfer E i) in H.
    destruct (multi_sender_post E Hc _ _ _ _ H Heq) as (lst & Hp). destruct Hp.
    destruct mp_steps as (s0 & s1 & Q0 & Hs & Q1). rewrite Hsame in Hs.
    pose proof (silent_consistent E _ _ _ _ Q0 Hcons) as Hcons0.
    destruct (snd_steps_entries E _ _ _ _ _ _ _ _ _ mp_dst_ne Hs Hcons0 s0 (same_upto_value_refl E _ _)) as [Hf Hinv'].
    destruct (c08_snd_steps_dst_meta _ _ _ _ _ _ _ _ s0 mp_dst_ne Hs Hcons0 (same_upto_value_refl E _ _) (rt_cell x))
      as (t0 & Ht0 & Hd).
    { right. apply in_map. exact Hx. }
    rewrite (silent_tok_at E _ _ _ _ Q0) in Ht0.
    exists t0. split; [exact Ht0|]. split.
    - intros Hn. pose proof (c08_snd_steps_travels _ _ _ _ _ _ _ _ _ s0 mp_dst_ne Hs Hcons0 (same_upto_value_refl E _ _)) as Hf3.
      destruct (c08_forall2_in_l _ _ _ _ Hf3 Hx) as (y & _ & t1 & Ht1 & _ & _ & Hpos & _).
      rewrite (silent_tok_at E _ _ _ _ Q0) in Ht1. assert (t1 = t0) by congruence. subst t1. apply Hpos. exact Hn.
    - split.
      + intros t' Ht'. apply Hd. rewrite <- (silent_tok_at E _ _ _ _ Q1). exact Ht'.
      + intros t' Ht'. rewrite (silent_tok_at E _ _ _ _ Q1) in Ht'. destruct (Hinv' _ _ Ht') as (t1 & Ht1 & Ht1').
        rewrite (silent_tok_at E _ _ _ _ Q0) in Ht1. assert (t1 = t0) by congruence. subst t1.
        rewrite Ht1'. reflexivity.
  Qed.

  (* ================================================================ *)
  (* sender side, cross shard: the emitted message                      *)
  (* ================================================================ *)
  (* the three arguments the message carries for one travelling entry (= Spec_Transfers_Multi.out_args_pure, one entry) *)
  Definition travel_triple (y : bytes * token) : rawtriple :=
    match t_meta (snd y) with
    | Some m => (fst y, u64_bytes (md_nonce m), enc_tok (cdc E) (snd y))
    | None => (fst y, [x00], Z_bytes (val_or_0 (snd y)))
    end.
  Definition triple_args (x : rawtriple) : list bytes := [rt_tok x; snd (fst x); rt_third x].
  Lemma out_args_pure_triples lst : out_args_pure E lst = concat (map (fun y => triple_args (travel_triple y)) lst).
  Proof.
    induction lst as [|[tok t] r IH]; [reflexivity|]. cbn [out_args_pure map concat]. rewrite IH.
    unfold travel_triple. cbn [fst snd]. destruct (t_meta t); reflexivity.
  Qed.

  Definition multi_out_list (i : input) (lst : list (bytes * token)) : list bytes :=
    (u64_bytes (multi_n_snd i) :: out_args_pure E lst) ++ skipn (N.to_nat (multi_min 2 (multi_n_snd i))) (i_args i).

  Theorem hop_cross_multi_sender i s o s' : exec E F_MULTIT i s = (Ok o, s') -> i_caller i = i_rcpt i ->
    multi_same E i = false -> triples_consistent E s (i_caller i) (multi_snd_triples i) ->
    exists lst tr,
      Forall2 (c08_travels s (i_caller i) false) (multi_snd_triples i) lst
      /\ length lst = N.to_nat (multi_n_snd i)
      /\ o_accounts o = [{| oc_addr := multi_dst i; oc_delta := 0; oc_transfers := [tr] |}]
      /\ tr_data tr = msg_data F_MULTIT (multi_out_list i lst)
      /\ tr_data tr = encode_message F_MULTIT (multi_out_list i lst)
      /\ parse_call_data (tr_data tr) = Some (F_MULTIT, multi_out_list i lst)
      /\ tr_sender tr = i_caller i /\ tr_callType tr = i_callType i
      /\ (forall x t', In x (multi_snd_triples i) -> tok_at E s' (i_caller i) (rt_cell x) = Some t' ->
            exists t0, tok_at E s (i_caller i) (rt_cell x) = Some t0 /\ t_meta t' = t_meta t0).
  Proof.
    intros H Heq Hsame Hcons. change (exec E F_MULTIT i) with (f_multi_transfer E i) in H.
    destruct (multi_sender_post E Hc _ _ _ _ H Heq) as (lst & Hp). pose proof Hp as Hp'. destruct Hp'.
    destruct mp_steps as (s0 & s1 & Q0 & Hs & Q1). rewrite Hsame in Hs.
    pose proof (silent_consistent E _ _ _ _ Q0 Hcons) as Hcons0.
    pose proof (c08_snd_steps_travels _ _ _ _ _ _ _ _ _ s0 mp_dst_ne Hs Hcons0 (same_upto_value_refl E _ _)) as Hf.
    destruct (snd_steps_entries E _ _ _ _ _ _ _ _ _ mp_dst_ne Hs Hcons0 s0 (same_upto_value_refl E _ _)) as [_ Hinv'].
    pose proof (multi_out_accounts_cross E _ _ _ _ _ Hp Hsame) as Ho. cbv zeta in Ho.
    eexists lst, _. split.
    { eapply c08_forall2_impl; [|exact Hf]. intros x y (t0 & Ht0 & Hrest). exists t0.
      rewrite (silent_tok_at E _ _ _ _ Q0) in Ht0. split; [exact Ht0|exact Hrest]. }
    split.
    { rewrite <- (forall2_length _ _ _ Hf). unfold multi_snd_triples. apply multi_triples_length. }
    split; [exact Ho|]. cbn [tr_data tr_sender tr_callType].
    split; [reflexivity|]. split; [apply c08_msg_data_encode_message|]. split; [apply c08_parse_multi|].
    split; [reflexivity|]. split; [reflexivity|].
    intros x t' Hx Ht'. rewrite (silent_tok_at E _ _ _ _ Q1) in Ht'. destruct (Hinv' _ _ Ht') as (t1 & Ht1 & Ht1').
    rewrite (silent_tok_at E _ _ _ _ Q0) in Ht1. exists t1. split; [exact Ht1|]. rewrite Ht1'. reflexivity.
  Qed.

  (* ================================================================ *)
  (* destination side                                                   *)
  (* ================================================================ *)
  (* the cell a delivered triple writes, and the metadata it carries: an NFT triple (nonce > 0) writes the cell named by
     the token id and the nonce INSIDE the decoded payload; a fungible triple (nonce 0) writes the token-level cell *)
  Definition dst_cell (x : rawtriple) : option bytes :=
    if (0 <? rt_nonce x)%N then
      match dec_tok (cdc E) (rt_third x) with
      | Some tp => Some (nft_key (P ++ rt_tok x) (tok_nonce tp))
      | None => None
      end
    else Some (P ++ rt_tok x).
  Definition dst_meta (x : rawtriple) : option metadata :=
    if (0 <? rt_nonce x)%N then
      match dec_tok (cdc E) (rt_third x) with Some tp => t_meta tp | None => None end
    else None.

  (* one step leaves every cell other than dst_cell alone, and an NFT step stores the payload's metadata *)
  Lemma c08_one_dst_step rcpt verify rae x s s1 : one_dst_post E rcpt verify rae x s s1 ->
    (forall k, dst_cell x <> Some k -> tok_at E s1 rcpt k = tok_at E s rcpt k)
    /\ (forall a k, a <> rcpt -> tok_at E s1 a k = tok_at E s a k)
    /\ ((0 < rt_nonce x)%N -> exists tp k, dec_tok (cdc E) (rt_third x) = Some tp /\ dst_cell x = Some k
          /\ (forall t', tok_at E s1 rcpt k = Some t' -> t_meta t' = t_meta tp)
          /\ (forall cur cm, tok_at E s rcpt k = Some cur -> t_meta cur = Some cm ->
                exists m, t_meta tp = Some m /\ md_hash cm = md_hash m)).
  Proof.
    intros Hp. destruct Hp. unfold dst_cell. destruct (0 <? rt_nonce x)%N eqn:En.
    - destruct od_nft as (tp & Hdec & _ & _ & _ & Hh & _ & Htok & _ & Hue); [lia|]. rewrite Hdec.
      split; [intros k Hk; apply (ue_tok_at E _ _ _ _ Hue); intros [_ ->]; apply Hk; reflexivity|].
      split; [intros a k Ha; apply (ue_tok_at E _ _ _ _ Hue); intros [? _]; contradiction|].
      intros _. exists tp, (nft_key (P ++ rt_tok x) (tok_nonce tp)). split; [reflexivity|]. split; [reflexivity|]. split.
      + intros t' Ht'. rewrite Htok in Ht'.
        match type of Ht' with (if ?c then _ else _) = _ => destruct c end; [discriminate|]. inversion Ht'; subst t'. reflexivity.
      + exact Hh.
    - destruct od_fungible as (_ & _ & _ & Hue); [apply N.ltb_ge in En; lia|].
      split; [intros k Hk; apply (ue_tok_at E _ _ _ _ Hue); intros [_ ->]; apply Hk; reflexivity|].
      split; [intros a k Ha; apply (ue_tok_at E _ _ _ _ Hue); intros [? _]; contradiction|].
      intros Hx. lia.
  Qed.

  Lemma c08_dst_cell_dec x k : {dst_cell x = Some k} + {dst_cell x <> Some k}.
  Proof.
    destruct (dst_cell x) as [k'|]; [|right; discriminate].
    destruct (beqb_spec k' k) as [->|Hne]; [left; reflexivity|right; congruence].
  Qed.

  Lemma c08_dst_steps_cell_meta rcpt verify rae trs s s' k mo :
    dst_steps E rcpt verify rae trs s s' ->
    (forall x, In x trs -> dst_cell x = Some k -> (0 < rt_nonce x)%N /\ dst_meta x = mo) ->
    (exists x, In x trs /\ dst_cell x = Some k) \/ (forall t', tok_at E s rcpt k = Some t' -> t_meta t' = mo) ->
    forall t', tok_at E s' rcpt k = Some t' -> t_meta t' = mo.
  Proof.
    intros Hs. induction Hs as [s|x rest s s1 s' Hp Hs IH]; intros H1 H2.
    - destruct H2 as [(x & [] & _)|H2]. exact H2.
    - destruct (c08_one_dst_step _ _ _ _ _ _ Hp) as (Hoth & _ & Hnft).
      apply IH; [intros y Hy; apply H1; right; exact Hy|].
      destruct (c08_dst_cell_dec x k) as [Hk|Hk].
      + right. destruct (H1 x (or_introl eq_refl) Hk) as [Hn Hm].
        destruct (Hnft Hn) as (tp & k' & Hdec & Hk' & Hst & _). rewrite Hk in Hk'. inversion Hk'; subst k'.
        intros t' Ht'. rewrite (Hst _ Ht'). rewrite <- Hm. unfold dst_meta.
        destruct (0 <? rt_nonce x)%N eqn:En; [|lia]. rewrite Hdec. reflexivity.
      + destruct H2 as [(y & [<-|Hy] & Hyk)|H2]; [contradiction|left; eauto|].
        right. intros t' Ht'. apply H2. rewrite <- (Hoth k Hk). exact Ht'.
  Qed.

  (* destination side of the multi transfer: for every NFT triple, whatever is stored afterwards in the cell it
     addresses carries the metadata of a delivered payload addressing that cell -- when all such payloads carry the
     same metadata mo, that is mo *)
  Theorem hop_multi_dest i s o s' k mo : exec E F_MULTIT i s = (Ok o, s') -> i_caller i <> i_rcpt i ->
    (forall x, In x (multi_dst_triples i) -> dst_cell x = Some k -> (0 < rt_nonce x)%N /\ dst_meta x = mo) ->
    (exists x, In x (multi_dst_triples i) /\ dst_cell x = Some k) ->
    forall t', tok_at E s' (i_rcpt i) k = Some t' -> t_meta t' = mo.
  Proof.
    intros H Hne H1 H2. change (exec E F_MULTIT i) with (f_multi_transfer E i) in H.
    pose proof (multi_dest_post E Hc _ _ _ _ H Hne) as Hp. destruct Hp. destruct mq_steps as (s0 & Q0 & Hs).
    apply (c08_dst_steps_cell_meta _ _ _ _ _ _ k mo Hs H1). left. exact H2.
  Qed.

  (* hash mismatch on the destination side: the FIRST delivered triple that addresses cell k carries a hash other than
     the one of the entry the recipient holds there: not Ok *)
  Lemma c08_dst_steps_hash rcpt verify rae pre x post s s' k cur cm tp mp :
    dst_steps E rcpt verify rae (pre ++ x :: post) s s' ->
    (forall y, In y pre -> dst_cell y <> Some k) ->
    (0 < rt_nonce x)%N -> dec_tok (cdc E) (rt_third x) = Some tp -> nft_key (P ++ rt_tok x) (tok_nonce tp) = k ->
    t_meta tp = Some mp ->
    tok_at E s rcpt k = Some cur -> t_meta cur = Some cm -> md_hash cm = md_hash mp.
  Proof.
    revert s. induction pre as [|y pre IH]; intros s Hs Hpre Hn Hdec Hk Hmp Hcur Hcm.
    - cbn [app] in Hs. inversion Hs as [|x0 r0 s0 s1 s2 Hp Hrest]; subst.
      destruct (c08_one_dst_step _ _ _ _ _ _ Hp) as (_ & _ & Hnft).
      destruct (Hnft Hn) as (tp' & k' & Hdec' & Hk' & _ & Hh). rewrite Hdec in Hdec'. inversion Hdec'; subst tp'.
      unfold dst_cell in Hk'. destruct (0 <? rt_nonce x)%N eqn:En; [|lia]. rewrite Hdec in Hk'. inversion Hk'; subst k'.
      destruct (Hh cur cm Hcur Hcm) as (m' & Hm' & Hhash). congruence.
    - cbn [app] in Hs. inversion Hs as [|x0 r0 s0 s1 s2 Hp Hrest]; subst.
      destruct (c08_one_dst_step _ _ _ _ _ _ Hp) as (Hoth & _ & _).
      apply (IH s1 Hrest); try assumption.
      + intros z Hz. apply Hpre. right. exact Hz.
      + reflexivity.
      + rewrite Hoth; [exact Hcur|]. apply Hpre. left. reflexivity.
  Qed.
  Theorem hash_mismatch_rejected_multi_dest i s o s' pre x post cur cm tp mp : i_caller i <> i_rcpt i ->
    multi_dst_triples i = pre ++ x :: post ->
    (forall y, In y pre -> dst_cell y <> Some (nft_key (P ++ rt_tok x) (tok_nonce tp))) ->
    (0 < rt_nonce x)%N -> dec_tok (cdc E) (rt_third x) = Some tp -> t_meta tp = Some mp ->
    tok_at E s (i_rcpt i) (nft_key (P ++ rt_tok x) (tok_nonce tp)) = Some cur -> t_meta cur = Some cm ->
    md_hash cm <> md_hash mp ->
    exec E F_MULTIT i s <> (Ok o, s').
  Proof.
    intros Hne Htr Hpre Hn Hdec Hmp Hcur Hcm Hh H. change (exec E F_MULTIT i) with (f_multi_transfer E i) in H.
    pose proof (multi_dest_post E Hc _ _ _ _ H Hne) as Hp. destruct Hp. destruct mq_steps as (s0 & Q0 & Hs).
    rewrite Htr in Hs. apply Hh.
    apply (c08_dst_steps_hash _ _ _ _ _ _ _ _ _ cur cm tp mp Hs Hpre Hn Hdec eq_refl Hmp); [|exact Hcm].
    rewrite (silent_tok_at E _ _ _ _ Q0). exact Hcur.
  Qed.

  (* hash mismatch on the sender side, same shard: some triple addresses a cell in which the destination holds an entry
     with metadata whose hash differs from the hash of the sender's entry of that cell: not Ok *)
  Lemma c08_snd_steps_hash caller dst verify rae trs s s' lst s0 k cur cm t0 m :
    dst <> caller ->
    snd_steps E caller dst true verify rae trs s s' lst ->
    triples_consistent E s caller trs -> same_upto_value E caller s0 s ->
    In k (map rt_cell trs) ->
    tok_at E s dst k = Some cur -> t_meta cur = Some cm ->
    tok_at E s0 caller k = Some t0 -> t_meta t0 = Some m -> md_hash cm = md_hash m.
  Proof.
    intros Hne Hs. induction Hs as [s|x rest s s1 s' t t2 l Hp Hs IH]; intros Hcons Hinv Hin Hcur Hcm Ht0 Hm; [contradiction|].
    inversion Hcons as [|x0 r0 Hx Hrest]; subst.
    assert (Hpp := Hp). destruct Hpp. destruct os_debit as (s2 & D & Hs2). destruct D.
    assert (Htn : tok_nonce t = rt_nonce x) by (apply Hx; exact db_entry).
    assert (Hfull : nft_key (P ++ rt_tok x) (tok_nonce t) = rt_cell x) by (unfold rt_cell; rewrite Htn; reflexivity).
    rewrite Hfull in *.
    destruct (Hinv _ _ db_entry) as (t1 & Ht1 & Htt1). fold (rt_cell x) in Ht1.
    destruct (beqb_spec k (rt_cell x)) as [->|Hkx].
    - assert (t1 = t0) by congruence. subst t1.
      destruct (os_dst_hash eq_refl cur cm Hcur Hcm) as (m' & Hm' & Hh). rewrite Htt1 in Hm'. cbn in Hm'. congruence.
    - assert (Hcons1 : triples_consistent E s1 caller rest).
      { unfold triples_consistent in *. rewrite Forall_forall in *. intros y Hy.
        eapply one_snd_post_consistent; eauto. }
      assert (Hinv1 : same_upto_value E caller s0 s1).
      { intros k' t' Ht'. destruct (beqb_spec k' (rt_cell x)) as [->|Hk'].
        - rewrite os_snd_tok_at in Ht'. destruct (val_or_0 t - rt_qty x <=? 0)%Z; [discriminate|].
          inversion Ht'; subst t'. exists t1. split; [exact Ht1|]. rewrite Htt1. reflexivity.
        - apply Hinv. rewrite <- Ht'. symmetry. apply (ue_tok_at E _ _ _ _ os_frame). intros [? _]. contradiction. }
      apply (IH Hcons1 Hinv1); try assumption.
      + cbn [map] in Hin. destruct Hin as [Hin|Hin]; [congruence|exact Hin].
      + rewrite (ue_tok_at E _ _ _ _ os_frame); [exact Hcur|]. intros [? _]. contradiction.
  Qed.
  Theorem hash_mismatch_rejected_multi_same i s o s' x cur cm t0 m : i_caller i = i_rcpt i -> multi_same E i = true ->
    triples_consistent E s (i_caller i) (multi_snd_triples i) -> In x (multi_snd_triples i) ->
    tok_at E s (i_caller i) (rt_cell x) = Some t0 -> t_meta t0 = Some m ->
    tok_at E s (multi_dst i) (rt_cell x) = Some cur -> t_meta cur = Some cm -> md_hash cm <> md_hash m ->
    exec E F_MULTIT i s <> (Ok o, s').
  Proof.
    intros Heq Hsame Hcons Hx Ht0 Hm Hcur Hcm Hh H. change (exec E F_MULTIT i) with (f_multi_transfer E i) in H.
    destruct (multi_sender_post E Hc _ _ _ _ H Heq) as (lst & Hp). destruct Hp.
    destruct mp_steps as (s0 & s1 & Q0 & Hs & Q1). rewrite Hsame in Hs. apply Hh.
    apply (c08_snd_steps_hash _ _ _ _ _ _ _ _ s0 (rt_cell x) cur cm t0 m mp_dst_ne Hs
             (silent_consistent E _ _ _ _ Q0 Hcons) (same_upto_value_refl E _ _)); try assumption.
    - apply in_map. exact Hx.
    - rewrite (silent_tok_at E _ _ _ _ Q0). exact Hcur.
    - rewrite (silent_tok_at E _ _ _ _ Q0). exact Ht0.
  Qed.

  (* ================================================================ *)
  (* the delivered argument list, read back as triples                  *)
  (* ================================================================ *)
  Lemma c08_nth_app_at (pre l : list bytes) j : nth (length pre + j) (pre ++ l) [] = nth j l [].
  Proof. rewrite app_nth2 by lia. f_equal. lia. Qed.
  Lemma c08_multi_triples_out_args lst : forall pre idx rest iB,
    i_args iB = pre ++ out_args_pure E lst ++ rest -> length pre = N.to_nat (1 + idx * 3) ->
    multi_triples (length lst) iB 1 idx = map travel_triple lst.
  Proof.
    induction lst as [|[tok t] r IH]; intros pre idx rest iB Hargs Hlen; [reflexivity|].
    cbn [length multi_triples map]. f_equal.
    - unfold argn. rewrite Hargs.
      replace (N.to_nat (1 + idx * 3)) with (length pre + 0)%nat by lia.
      replace (N.to_nat (1 + idx * 3 + 1)) with (length pre + 1)%nat by lia.
      replace (N.to_nat (1 + idx * 3 + 2)) with (length pre + 2)%nat by lia.
      rewrite !c08_nth_app_at. cbn [out_args_pure]. unfold travel_triple. cbn [fst snd].
      destruct (t_meta t); reflexivity.
    - cbn [out_args_pure] in Hargs.
      destruct (t_meta t) as [m|] eqn:Em.
      + apply (IH (pre ++ [tok; u64_bytes (md_nonce m); enc_tok (cdc E) t]) (idx + 1)%N rest).
        * rewrite Hargs, <- !app_assoc. reflexivity.
        * rewrite app_length. cbn [length]. lia.
      + apply (IH (pre ++ [tok; [x00]; Z_bytes (val_or_0 t)]) (idx + 1)%N rest).
        * rewrite Hargs, <- !app_assoc. reflexivity.
        * rewrite app_length. cbn [length]. lia.
  Qed.

  (* one travelling entry, delivered: it addresses the cell the sender's triple named and carries the metadata of the
     sender's entry of that cell *)
  Lemma c08_travel_triple_cell s0 caller x y : c08_travels s0 caller false x y ->
    exists t0, tok_at E s0 caller (rt_cell x) = Some t0
      /\ dst_cell (travel_triple y) = Some (rt_cell x)
      /\ ((0 < rt_nonce x)%N -> (0 < rt_nonce (travel_triple y))%N /\ dst_meta (travel_triple y) = t_meta t0)
      /\ (rt_nonce x = 0%N -> t_meta t0 = None).
  Proof.
    intros (t0 & Ht0 & Hwf & Htn & Hpos & Hzero & Hfst & Hsnd & Hval & Hq). exists t0. split; [exact Ht0|].
    destruct y as [tok t]. cbn [fst snd] in *. subst tok.
    assert (Hmt : t_meta t = t_meta t0) by (rewrite Hsnd; reflexivity).
    assert (Hwt : wf_token t) by (rewrite Hsnd; apply wf_set_value; exact Hwf).
    assert (Hnt : tok_nonce t = rt_nonce x) by (unfold tok_nonce in *; rewrite Hmt; exact Htn).
    unfold travel_triple, dst_cell, dst_meta. cbn [fst snd]. rewrite Hmt.
    destruct (t_meta t0) as [m0|] eqn:Em0.
    - assert (Hn : rt_nonce x = md_nonce m0) by (unfold tok_nonce in Htn; rewrite Em0 in Htn; congruence).
      assert (Hnz : (0 < rt_nonce x)%N).
      { destruct (N.eq_dec (rt_nonce x) 0) as [Hz|Hz]; [specialize (Hzero Hz); discriminate|lia]. }
      assert (Hrn : rt_nonce (rt_tok x, u64_bytes (md_nonce m0), enc_tok (cdc E) t) = rt_nonce x).
      { unfold rt_nonce at 1. cbn [fst snd]. rewrite bigU64_u64_bytes, u64_small; [symmetry; exact Hn|].
        rewrite <- Hn. unfold rt_nonce. apply bigU64_lt. }
      rewrite !Hrn. unfold rt_tok at 1 2, rt_third. cbn [fst snd]. fold (rt_tok x).
      destruct (0 <? rt_nonce x)%N eqn:En; [|lia].
      rewrite (dec_enc_tok _ Hc _ Hwt), Hnt.
      split; [reflexivity|]. split; [intros _; split; [exact Hnz|exact Hmt]|]. intros Hz. lia.
    - assert (Hn : rt_nonce x = 0%N) by (unfold tok_nonce in Htn; rewrite Em0 in Htn; congruence).
      assert (Hrn : rt_nonce (rt_tok x, [x00], Z_bytes (val_or_0 t)) = 0%N) by reflexivity.
      rewrite !Hrn. cbn [N.ltb N.compare]. unfold rt_tok at 1. cbn [fst snd]. fold (rt_tok x).
      split; [unfold rt_cell; rewrite Hn, nft_key_0; reflexivity|]. split; [intros Hx; lia|]. intros _. reflexivity.
  Qed.
End C08Multi.

Lemma c08_dst_cell_ext E1 E2 x : cdc E1 = cdc E2 -> dst_cell E1 x = dst_cell E2 x /\ dst_meta E1 x = dst_meta E2 x.
Proof. intros H. unfold dst_cell, dst_meta. rewrite H. split; reflexivity. Qed.

(* ================================================================ *)
(* cross-shard hop of the multi transfer: sender side in EA, destination side in EB *)
(* ================================================================ *)
Theorem hop_cross_multi EA EB (HcA : codec_ok (cdc EA)) (Hcd : cdc EB = cdc EA) iA sA oA sA' iB sB oB sB' tr fn :
  exec EA F_MULTIT iA sA = (Ok oA, sA') -> i_caller iA = i_rcpt iA -> multi_same EA iA = false ->
  triples_consistent EA sA (i_caller iA) (multi_snd_triples iA) ->
  o_accounts oA = [{| oc_addr := i_rcpt iB; oc_delta := 0; oc_transfers := [tr] |}] ->
  parse_call_data (tr_data tr) = Some (fn, i_args iB) ->
  exec EB fn iB sB = (Ok oB, sB') -> i_caller iB <> i_rcpt iB ->
  fn = F_MULTIT /\ i_rcpt iB = multi_dst iA
  /\ forall x, In x (multi_snd_triples iA) -> (0 < rt_nonce x)%N ->
       exists t0 m, tok_at EA sA (i_caller iA) (rt_cell x) = Some t0 /\ t_meta t0 = Some m
         /\ forall t', tok_at EB sB' (i_rcpt iB) (rt_cell x) = Some t' -> t_meta t' = Some m.
Proof.
  intros HA Heq Hs Hcons Hacc Hparse HB Hne.
  assert (HcB : codec_ok (cdc EB)) by (rewrite Hcd; exact HcA).
  destruct (hop_cross_multi_sender EA HcA _ _ _ _ HA Heq Hs Hcons)
    as (lst & tr0 & Hf & Hlen & Hacc0 & _ & _ & Hp0 & _).
  rewrite Hacc0 in Hacc. injection Hacc as Hdst Htr0. subst tr0. rewrite Hp0 in Hparse.
  injection Hparse as Hfn Hargs. subst fn. split; [reflexivity|]. split; [symmetry; exact Hdst|].
  (* the triples of the delivered call *)
  assert (Htr : multi_dst_triples iB = map (travel_triple EA) lst).
  { unfold multi_dst_triples, multi_n_dst.
    assert (Ha0 : argn iB 0 = u64_bytes (multi_n_snd iA)) by (unfold argn; rewrite <- Hargs; reflexivity).
    rewrite Ha0, bigU64_u64_bytes, u64_small by (unfold multi_n_snd; apply bigU64_lt). rewrite <- Hlen.
    apply (c08_multi_triples_out_args EA lst [u64_bytes (multi_n_snd iA)] 0%N
             (skipn (N.to_nat (multi_min 2 (multi_n_snd iA))) (i_args iA))); [|reflexivity].
    rewrite <- Hargs. reflexivity. }
  intros x Hx Hn.
  destruct (c08_forall2_in_l _ _ _ _ Hf Hx) as (y & Hy & Htrav).
  destruct (c08_travel_triple_cell EA HcA _ _ _ _ Htrav) as (t0 & Ht0 & Hcell & Hpos & _).
  destruct Htrav as (t0' & Ht0' & _ & _ & Hmpos & _). assert (t0' = t0) by congruence. subst t0'.
  destruct (Hmpos Hn) as (m & Hm). exists t0, m. split; [exact Ht0|]. split; [exact Hm|].
  apply (hop_multi_dest EB HcB iB sB oB sB' (rt_cell x) (Some m) HB Hne).
  - intros x' Hx' Hc'. rewrite Htr in Hx'. apply in_map_iff in Hx' as (y' & <- & Hy').
    destruct (c08_dst_cell_ext EB EA (travel_triple EA y') Hcd) as [Hce Hme]. rewrite Hce in Hc'. rewrite Hme.
    destruct (c08_forall2_in_r _ _ _ _ Hf Hy') as (x2 & Hx2 & Htrav2).
    destruct (c08_travel_triple_cell EA HcA _ _ _ _ Htrav2) as (t2 & Ht2 & Hcell2 & Hpos2 & Hzero2).
    rewrite Hcell2 in Hc'. assert (Hk : rt_cell x2 = rt_cell x) by congruence. rewrite Hk in Ht2. assert (t2 = t0) by congruence. subst t2.
    destruct (N.eq_dec (rt_nonce x2) 0) as [Hz|Hz]; [rewrite (Hzero2 Hz) in Hm; discriminate|].
    destruct Hpos2 as [Hp1 Hp2]; [lia|]. split; [exact Hp1|]. rewrite Hp2. exact Hm.
  - exists (travel_triple EA y). split; [rewrite Htr; apply in_map; exact Hy|].
    destruct (c08_dst_cell_ext EB EA (travel_triple EA y) Hcd) as [Hce _]. rewrite Hce. exact Hcell.
Qed.

Print Assumptions hop_same_multi.
Print Assumptions hop_cross_multi.
Print Assumptions hash_mismatch_rejected_multi_same.
Print Assumptions hash_mismatch_rejected_multi_dest.
