(* C15 (well-formed token state), part 6: the invariant read clause by clause with the observables of
   LedgerProofs/Defs.v ([cell], [tok_at], [balance], [roles_at], [counter_at]) -- what clients (C01, C02, C07,
   C08, C11) use -- and the checker for a whole world. *)
From Coq Require Import Lia.
From EV Require Import Base.Bytes Base.Store Base.Monad gen.Consts Codec.Types Helpers.Helpers
  Ledger.Types Ledger.Env Ledger.Funcs Ledger.Transfers Ledger.World
  LedgerProofs.Defs LedgerProofs.EnvSpec LedgerProofs.WorldSpec
  LedgerProofs.C15_Inv LedgerProofs.C15_World.

Section Clauses.
  Variable E : env.
  Hypothesis Hf : flag_undec (cdc E).
  Variable s : mstate.
  Hypothesis HI : Inv E s.

  (* (I1) key layout *)
  Lemma inv_key_layout a k : cell s a k <> [] -> prefix_of C.ElrondProtectedKeyPrefix k = true ->
    (exists x, k = P ++ x) \/ (exists x, k = RP ++ x) \/ (exists x, k = NP ++ x).
  Proof. intros Hne. destruct (HI a k Hne) as (H & _). exact H. Qed.

  (* (I2) every entry decodes -- except the pause flags of the system account *)
  Lemma inv_entry_decodes a x : cell s a (P ++ x) <> [] ->
    (a = SYS /\ exists f, cell s a (P ++ x) = flag_bytes f /\ paused_at s (P ++ x) = f)
    \/ (exists t, tok_at E s a (P ++ x) = Some t).
  Proof.
    intros Hne. destruct (HI a _ Hne) as (_ & H & _). destruct (H x eq_refl) as [(-> & f & Hfl)|(t & Hd & _)].
    - left. split; [reflexivity|]. exists f. split; [exact Hfl|]. unfold paused_at. rewrite Hfl.
      unfold paused_val, flag_bytes. destruct f; reflexivity.
    - right. exists t. unfold tok_at. destruct (cell s a (P ++ x)); [congruence|exact Hd].
  Qed.

  (* (I3)-(I5) a decoded entry *)
  Lemma inv_entry a x t : tok_at E s a (P ++ x) = Some t ->
    (exists v, t_value t = Some v /\ balance E s a (P ++ x) = v
       /\ ((0 < v)%Z \/ (v = 0%Z /\ t_type t = C.Fungible /\ t_meta t = None /\ frozen_at E s a (P ++ x) = true)))
    /\ (t_type t = C.Fungible <-> t_meta t = None)
    /\ (forall m, t_meta t = Some m -> exists tok, P ++ x = nft_key (P ++ tok) (md_nonce m))
    /\ (t_props t = [] \/ t_props t = flag_bytes false \/ t_props t = flag_bytes true).
  Proof.
    intros Ht. destruct (Inv_tok_at E Hf _ _ _ _ HI Ht) as ((v & Hv & Hcase) & (Hiff & Hp) & Hk).
    split; [|split; [exact Hiff|split; [exact Hk|exact Hp]]].
    exists v. split; [exact Hv|]. split.
    - rewrite (balance_tok_at E _ _ _ _ Ht). unfold val_or_0. rewrite Hv. reflexivity.
    - destruct Hcase as [H|(H1 & H2 & H3 & H4)]; [left; exact H|right]. repeat split; try assumption.
      unfold frozen_at. rewrite Ht. exact H4.
  Qed.

  (* balances are never negative (client form) *)
  Lemma inv_balance_nonneg a x : (0 <= balance E s a (P ++ x))%Z.
  Proof.
    destruct (tok_at E s a (P ++ x)) as [t|] eqn:Ht.
    - destruct (inv_entry _ _ _ Ht) as ((v & _ & -> & Hc) & _). destruct Hc as [H|(-> & _)]; lia.
    - rewrite (balance_tok_at_none E _ _ _ Ht). lia.
  Qed.
  (* "a balance is strictly positive or the entry is absent": an entry with balance 0 is a frozen fungible one *)
  Lemma inv_zero_balance_entry a x t : tok_at E s a (P ++ x) = Some t -> balance E s a (P ++ x) = 0%Z ->
    t_type t = C.Fungible /\ t_meta t = None /\ frozen_at E s a (P ++ x) = true.
  Proof.
    intros Ht Hb. destruct (inv_entry _ _ _ Ht) as ((v & _ & Hv & Hc) & _). rewrite Hb in Hv. subst v.
    destruct Hc as [H|(_ & H)]; [lia|exact H].
  Qed.

  (* (I6) role lists *)
  Lemma inv_roles a x : cell s a (RP ++ x) <> [] ->
    exists r, dec_rol (cdc E) (cell s a (RP ++ x)) = Some r /\ roles_at E s a x = r /\ r <> [] /\ NoDup r.
  Proof.
    intros Hne. destruct (HI a _ Hne) as (_ & _ & H & _). destruct (H x eq_refl) as (r & Hd & Hr & Hnd).
    exists r. split; [exact Hd|]. split; [|auto]. unfold roles_at. destruct (cell s a (RP ++ x)); [congruence|].
    rewrite Hd. reflexivity.
  Qed.
  Lemma inv_roles_nodup a x : NoDup (roles_at E s a x).
  Proof.
    destruct (cell s a (RP ++ x)) as [|b r] eqn:Ec.
    - unfold roles_at. rewrite Ec. constructor.
    - assert (Hne : cell s a (RP ++ x) <> []) by (rewrite Ec; discriminate).
      destruct (inv_roles _ _ Hne) as (r' & _ & -> & _ & H). exact H.
  Qed.

  (* (I7) counters *)
  Lemma inv_counter a x : cell s a (NP ++ x) <> [] ->
    exists n, cell s a (NP ++ x) = u64_bytes n /\ (0 < n < two64)%N /\ counter_at s a x = n.
  Proof.
    intros Hne. destruct (HI a _ Hne) as (_ & _ & _ & H). destruct (H x eq_refl) as (n & Hn & Hlt).
    exists n. split; [exact Hn|]. split.
    - split; [|exact Hlt]. destruct (N.eq_dec n 0) as [->|]; [|lia]. rewrite Hn, u64_bytes_0 in Hne. congruence.
    - unfold counter_at. destruct (cell s a (NP ++ x)) eqn:Ec; [congruence|]. rewrite Hn, bigU64_u64_bytes.
      apply u64_small. exact Hlt.
  Qed.
End Clauses.

(* the invariant is exactly the conjunction of the clauses (definition unfolded) *)
Lemma Inv_unfold E s :
  Inv E s <->
  forall a k, cell s a k <> [] ->
    (prefix_of C.ElrondProtectedKeyPrefix k = true ->
       (exists x, k = P ++ x) \/ (exists x, k = RP ++ x) \/ (exists x, k = NP ++ x))
    /\ (forall x, k = P ++ x ->
          (a = SYS /\ exists f, cell s a k = flag_bytes f)
          \/ (exists t, dec_tok (cdc E) (cell s a k) = Some t
                /\ (exists v, t_value t = Some v
                      /\ ((0 < v)%Z \/ (v = 0%Z /\ t_type t = C.Fungible /\ t_meta t = None
                                        /\ frozen_props (t_props t) = true)))
                /\ ((t_type t = C.Fungible <-> t_meta t = None)
                    /\ (t_props t = [] \/ t_props t = flag_bytes false \/ t_props t = flag_bytes true))
                /\ (forall m, t_meta t = Some m -> exists tok, k = nft_key (P ++ tok) (md_nonce m))))
    /\ (forall x, k = RP ++ x -> exists r, dec_rol (cdc E) (cell s a k) = Some r /\ r <> [] /\ NoDup r)
    /\ (forall x, k = NP ++ x -> exists n, cell s a k = u64_bytes n /\ (n < two64)%N).
Proof. reflexivity. Qed.
