(* Property C08, part 3: only ESDTNFTAddURI and ESDTNFTUpdateAttributes change the metadata of an existing entry.
   For every other built-in function (all 21 of them, through the dispatch [exec]) and every token cell (key with the
   ESDT prefix P) that holds an entry WITH metadata before the call and still holds an entry after it: the metadata is
   the same, or the account is the destination of a transfer whose incoming copy carries the same hash (the
   destination adopts the incoming copy's metadata: DESIGN C08).  Hypotheses and exclusions are the known findings:
   F4b (lookup consistency for the functions that rewrite the caller's own entry), F9 (create overwrites whatever is
   stored under the next nonce), F8 (pause flag written into the system account's cell), plus two corner cases spelled
   out in [c08_excluded]. *)
From EV Require Import Base.Bytes Base.Store Base.Monad gen.Consts Codec.Types Helpers.Helpers
  Ledger.Types Ledger.Env Ledger.Funcs Ledger.Transfers
  LedgerProofs.Defs LedgerProofs.EnvSpec LedgerProofs.WorldDefs
  LedgerProofs.Spec_Transfers_Base LedgerProofs.Spec_Transfers_Esdt LedgerProofs.Spec_Transfers_Nft
  LedgerProofs.Spec_Transfers_Multi LedgerProofs.Spec_Transfers LedgerProofs.Spec_Supply LedgerProofs.Spec_System
  LedgerProofs.C09_Admissible LedgerProofs.C08_Base LedgerProofs.C08_Multi.

Section C08Only.
  Variable E : env.
  Hypothesis Hc : codec_ok (cdc E).

  (* F4b: the lookups of the functions that rewrite the caller's own entry are consistent; delivered multi transfer:
     no negative quantity in the message *)
  Definition c08_regular (f : bytes) (i : input) (s : mstate) : Prop :=
    (f = C.BuiltInFunctionESDTNFTAddQuantity \/ f = C.BuiltInFunctionESDTNFTBurn ->
       lookup_consistent E s (i_caller i) (P ++ argn i 0) (bigU64 (argn i 1)))
    /\ (f = F_NFTT -> i_caller i = i_rcpt i -> lookup_consistent E s (i_caller i) (nft_tkey i) (nft_nonce i))
    /\ (f = F_MULTIT -> i_caller i = i_rcpt i -> triples_consistent E s (i_caller i) (multi_snd_triples i))
    /\ (f = F_MULTIT -> i_caller i <> i_rcpt i -> credits_nonneg E (multi_dst_triples i)).

  (* the cells (and entries) the statement does not cover, each for a known reason *)
  Definition c08_excluded (f : bytes) (i : input) (s : mstate) (a k : bytes) (t : token) : Prop :=
    (* F9: ESDTNFTCreate writes under the next nonce without looking *)
    (f = F_CREATE /\ a = i_caller i /\ k = nft_key (P ++ argn i 0) (create_nonce i s))
    (* F8: the pause flag is written into the system account's cell of that key *)
    \/ ((f = C.BuiltInFunctionESDTPause \/ f = C.BuiltInFunctionESDTUnPause) /\ a = SYS /\ k = P ++ argn i 0)
    (* ESDTTransfer to oneself of an entry of FUNGIBLE type that nevertheless has metadata: the debit may delete the
       entry and the credit then recreates it from the default entry *)
    \/ (f = C.BuiltInFunctionESDTTransfer /\ i_caller i = i_rcpt i /\ a = i_caller i /\ k = esdt_key i
        /\ t_type t = C.Fungible)
    (* multi transfer into an entry whose stored quantity is not positive (never stored by the ledger): an earlier
       triple may delete it and a later one recreate it *)
    \/ (f = F_MULTIT /\ (val_or_0 t <= 0)%Z).

  Definition c08_concl (f : bytes) (i : input) (a : bytes) (m : metadata) (t' : token) : Prop :=
    t_meta t' = Some m
    \/ (is_transfer_fn f = true /\ a = c09_dest f i /\ a <> i_caller i
        /\ exists m', t_meta t' = Some m' /\ md_hash m' = md_hash m).

  Lemma c08_keep_same s s' a k t m t' :
    tok_at E s a k = Some t -> t_meta t = Some m -> tok_at E s' a k = Some t' -> tok_at E s' a k = tok_at E s a k ->
    t_meta t' = Some m.
  Proof. intros H2 H3 H4 H1. rewrite H1, H2 in H4. inversion H4; subst. exact H3. Qed.

  (* ---- one add_to_esdt_balance ---- *)
  Lemma c08_atb a0 key d rae s u s' : add_to_esdt_balance E a0 key d rae s = (Ok u, s') ->
    (forall a k, ~ (a = a0 /\ k = key) -> tok_at E s' a k = tok_at E s a k)
    /\ (forall t, tok_at E s a0 key = Some t ->
          t_type t = C.Fungible /\ (tok_at E s' a0 key = None \/ exists v, tok_at E s' a0 key = Some (set_value t v))).
  Proof.
    intros H. apply (add_to_esdt_balance_ok E Hc) in H as (_ & _ & (t0 & Ht0 & _ & Hty & _ & Hst) & _ & Hue & _).
    split; [intros a k Hn; apply (ue_tok_at E _ _ _ _ Hue _ _ Hn)|].
    intros t Ht. rewrite (tok_at_tod E _ _ _ _ Ht) in Ht0. inversion Ht0; subst t0. split; [exact Hty|].
    rewrite Hst. match goal with |- (if ?c then _ else _) = _ \/ _ => destruct c end; [left; reflexivity|right; eauto].
  Qed.

  (* ---- ESDTTransfer ---- *)
  Lemma c08_esdt_transfer i s o s' a k t m t' : f_esdt_transfer E i s = (Ok o, s') ->
    tok_at E s a k = Some t -> t_meta t = Some m -> tok_at E s' a k = Some t' ->
    ~ (i_caller i = i_rcpt i /\ a = i_caller i /\ k = esdt_key i /\ t_type t = C.Fungible) ->
    t_meta t' = Some m.
  Proof.
    intros H Ht Hm Ht' Hex.
    apply (esdt_transfer_inv E) in H as (_ & _ & _ & _ & s1 & s2 & Hsnd & Hdst & _).
    (* first update: s -> s1 *)
    assert (S1 : (forall a' k', ~ (i_snd i = true /\ a' = i_caller i /\ k' = esdt_key i) -> tok_at E s1 a' k' = tok_at E s a' k')
                 /\ (i_snd i = true -> forall t0, tok_at E s (i_caller i) (esdt_key i) = Some t0 ->
                       t_type t0 = C.Fungible
                       /\ (tok_at E s1 (i_caller i) (esdt_key i) = None
                           \/ exists v, tok_at E s1 (i_caller i) (esdt_key i) = Some (set_value t0 v)))).
    { destruct (i_snd i).
      - destruct Hsnd as [_ Hs]. destruct (c08_atb _ _ _ _ _ _ _ Hs) as [H1 H2]. split.
        + intros a' k' Hn. apply H1. intros [-> ->]. apply Hn. auto.
        + intros _. exact H2.
      - subst s1. split; [reflexivity|discriminate]. }
    destruct S1 as [S1a S1b].
    (* second update: s1 -> s' *)
    assert (S2 : (forall a' k', ~ (i_dst i = true /\ a' = i_rcpt i /\ k' = esdt_key i) -> tok_at E s' a' k' = tok_at E s1 a' k')
                 /\ (i_dst i = true -> forall t0, tok_at E s1 (i_rcpt i) (esdt_key i) = Some t0 ->
                       tok_at E s' (i_rcpt i) (esdt_key i) = None
                       \/ exists v, tok_at E s' (i_rcpt i) (esdt_key i) = Some (set_value t0 v))).
    { destruct (i_dst i).
      - destruct Hdst as (Hrd & _ & Hs). destruct (c08_atb _ _ _ _ _ _ _ Hs) as [H1 H2]. split.
        + intros a' k' Hn. rewrite H1; [apply (rd_tok_at E _ _ _ _ Hrd)|]. intros [-> ->]. apply Hn. auto.
        + intros _ t0 Ht0. rewrite <- (rd_tok_at E _ _ _ _ Hrd) in Ht0. apply (H2 t0 Ht0).
      - destruct Hdst as [-> ->]. split; [reflexivity|discriminate]. }
    destruct S2 as [S2a S2b].
    (* the entry in the intermediate state *)
    assert (M1 : (exists t1, tok_at E s1 a k = Some t1 /\ t_meta t1 = Some m)
                 \/ (tok_at E s1 a k = None /\ i_snd i = true /\ a = i_caller i /\ k = esdt_key i /\ t_type t = C.Fungible)).
    { destruct (i_snd i) eqn:Es.
      - destruct (beqb_spec a (i_caller i)) as [->|Ha];
          [destruct (beqb_spec k (esdt_key i)) as [->|Hk]|].
        + destruct (S1b eq_refl t Ht) as [Hty [Hn|(v & Hv)]]; [right; auto|left; eauto].
        + left. exists t. split; [|exact Hm]. rewrite S1a; [exact Ht|]. intros (_ & _ & ?). contradiction.
        + left. exists t. split; [|exact Hm]. rewrite S1a; [exact Ht|]. intros (_ & ? & _). contradiction.
      - left. exists t. split; [|exact Hm]. rewrite S1a; [exact Ht|]. intros (? & _). discriminate. }
    destruct M1 as [(t1 & Ht1 & Hm1)|(Hn1 & Hs1 & -> & -> & Hty)].
    - destruct (i_dst i) eqn:Ed.
      + destruct (beqb_spec a (i_rcpt i)) as [->|Ha];
          [destruct (beqb_spec k (esdt_key i)) as [->|Hk]|].
        * destruct (S2b eq_refl t1 Ht1) as [Hn|(v & Hv)]; [congruence|]. rewrite Hv in Ht'. inversion Ht'; subst t'. exact Hm1.
        * rewrite S2a in Ht' by (intros (_ & _ & ?); contradiction). congruence.
        * rewrite S2a in Ht' by (intros (_ & ? & _); contradiction). congruence.
      + rewrite S2a in Ht' by (intros (? & _); discriminate). congruence.
    - destruct (beqb_spec (i_caller i) (i_rcpt i)) as [Heq|Hne].
      + exfalso. apply Hex. auto.
      + rewrite S2a in Ht' by (intros (_ & ? & _); contradiction). congruence.
  Qed.

  (* ---- freeze / unfreeze / wipe ---- *)
  Lemma c08_freeze_wipe f w i s o s' a k t m t' : f_freeze_wipe E f w i s = (Ok o, s') ->
    tok_at E s a k = Some t -> t_meta t = Some m -> tok_at E s' a k = Some t' -> t_meta t' = Some m.
  Proof.
    intros H Ht Hm Ht'. destruct w.
    - apply (wipe_spec E Hc) in H as (_ & tok & t0 & _ & _ & _ & _ & _ & _ & Hn & _ & _ & Hue & _).
      destruct (beqb_spec a (i_rcpt i)) as [->|Ha]; [destruct (beqb_spec k (P ++ tok)) as [->|Hk]|].
      + congruence.
      + apply (c08_keep_same _ _ _ _ _ _ _ Ht Hm Ht'). apply (ue_tok_at E _ _ _ _ Hue). intros [_ ?]. contradiction.
      + apply (c08_keep_same _ _ _ _ _ _ _ Ht Hm Ht'). apply (ue_tok_at E _ _ _ _ Hue). intros [? _]. contradiction.
    - apply (freeze_spec E Hc) in H as (_ & tok & t0 & _ & _ & Ht0 & _ & _ & Hst & _ & _ & Hue & _).
      destruct (beqb_spec a (i_rcpt i)) as [->|Ha]; [destruct (beqb_spec k (P ++ tok)) as [->|Hk]|].
      + rewrite (tok_at_tod E _ _ _ _ Ht) in Ht0. inversion Ht0; subst t0. rewrite Hst in Ht'.
        match type of Ht' with (if ?c then _ else _) = _ => destruct c end; [discriminate|]. inversion Ht'; subst t'. exact Hm.
      + apply (c08_keep_same _ _ _ _ _ _ _ Ht Hm Ht'). apply (ue_tok_at E _ _ _ _ Hue). intros [_ ?]. contradiction.
      + apply (c08_keep_same _ _ _ _ _ _ _ Ht Hm Ht'). apply (ue_tok_at E _ _ _ _ Hue). intros [? _]. contradiction.
  Qed.

  (* ---- the five supply functions that keep metadata ---- *)
  Lemma c08_supply f i s o s' a k t m t' :
    (f = SLocalMint \/ f = SLocalBurn \/ f = SEsdtBurn \/ f = SNftAddQuantity \/ f = SNftBurn) ->
    run_supply E f i s = (Ok o, s') -> supply_consistent E f i s ->
    tok_at E s a k = Some t -> t_meta t = Some m -> tok_at E s' a k = Some t' -> t_meta t' = Some m.
  Proof.
    intros Hf H Hlc Ht Hm Ht'. rewrite (supply_metadata_preserved E Hc f i s o s' Hf H Hlc a k t' Ht').
    unfold meta_at. rewrite Ht. exact Hm.
  Qed.

  (* ---- ESDTNFTTransfer ---- *)
  Lemma c08_nft_transfer i s o s' a k t m t' : f_nft_transfer E i s = (Ok o, s') ->
    (i_caller i = i_rcpt i -> lookup_consistent E s (i_caller i) (nft_tkey i) (nft_nonce i)) ->
    tok_at E s a k = Some t -> t_meta t = Some m -> tok_at E s' a k = Some t' ->
    c08_concl F_NFTT i a m t'.
  Proof.
    intros H Hlc Ht Hm Ht'. unfold c08_concl.
    destruct (beqb_spec (i_caller i) (i_rcpt i)) as [Heq|Hne].
    - destruct (nft_sender_entry E Hc _ _ _ _ H Heq (Hlc Heq)) as (ts & ms & Hp & Hts & Hms & _ & Hfull & _ & _ & _ & Hsnd).
      destruct Hp. rewrite Hfull in *.
      destruct (beqb_spec k (nft_cell i)) as [->|Hk].
      + destruct (beqb_spec a (i_caller i)) as [->|Ha].
        * left. assert (ts = t) by congruence. subst ts. rewrite Hsnd in Ht'.
          destruct (val_or_0 t - nft_qty i <=? 0)%Z; [discriminate|]. inversion Ht'; subst t'. exact Hm.
        * destruct (nft_same E i) eqn:Es.
          { destruct (beqb_spec a (nft_dst i)) as [->|Hd].
            - right. split; [reflexivity|]. split.
              { unfold c09_dest, c09_sender_side. rewrite fn_nft_ne_esdt, Heq, !beqb_refl. reflexivity. }
              split; [exact ns_dst_ne|].
              rewrite (ns_dst_tok_at eq_refl) in Ht'.
              destruct (nft_qty i + balance E s (nft_dst i) (nft_cell i) <=? 0)%Z; [discriminate|]. inversion Ht'; subst t'.
              destruct (ns_dst_hash eq_refl t m Ht Hm) as (m' & Hm' & Hh). exists m'. split; [exact Hm'|]. symmetry. exact Hh.
            - left. apply (c08_keep_same _ _ _ _ _ _ _ Ht Hm Ht'). apply (ue_tok_at E _ _ _ _ ns_frame). intros [_ [?|[_ ?]]]; contradiction. }
          { left. apply (c08_keep_same _ _ _ _ _ _ _ Ht Hm Ht'). apply (ue_tok_at E _ _ _ _ ns_frame).
            intros [_ [?|[? _]]]; [contradiction|discriminate]. }
      + left. apply (c08_keep_same _ _ _ _ _ _ _ Ht Hm Ht'). apply (ue_tok_at E _ _ _ _ ns_frame). intros [? _]. contradiction.
    - destruct (nft_dest_post E Hc _ _ _ _ H Hne) as (tp & Hp). destruct Hp.
      destruct (beqb_spec a (i_rcpt i)) as [->|Ha]; [destruct (beqb_spec k (nft_full i tp)) as [->|Hk]|].
      + right. split; [reflexivity|]. split.
        { unfold c09_dest, c09_sender_side. rewrite fn_nft_ne_esdt, (beqb_false _ _ Hne). reflexivity. }
        split; [congruence|].
        rewrite nd_tok_at in Ht'. match type of Ht' with (if ?c then _ else _) = _ => destruct c end; [discriminate|].
        inversion Ht'; subst t'. destruct (nd_hash t m Ht Hm) as (m' & Hm' & Hh). exists m'. split; [exact Hm'|]. symmetry. exact Hh.
      + left. apply (c08_keep_same _ _ _ _ _ _ _ Ht Hm Ht'). apply (ue_tok_at E _ _ _ _ nd_frame). intros [_ ?]. contradiction.
      + left. apply (c08_keep_same _ _ _ _ _ _ _ Ht Hm Ht'). apply (ue_tok_at E _ _ _ _ nd_frame). intros [? _]. contradiction.
  Qed.

  (* ---- MultiESDTNFTTransfer, sender side: an entry of the same-shard destination holding a positive quantity stays,
     with positive quantity and the same hash, through every step ---- *)
  Lemma c08_snd_steps_dst_hash caller dst verify rae trs s s' lst k :
    snd_steps E caller dst true verify rae trs s s' lst ->
    forall t m, tok_at E s dst k = Some t -> t_meta t = Some m -> (0 < val_or_0 t)%Z ->
    exists t1 m1, tok_at E s' dst k = Some t1 /\ t_meta t1 = Some m1 /\ md_hash m1 = md_hash m /\ (0 < val_or_0 t1)%Z.
  Proof.
    intros Hs. induction Hs as [s|x rest s s1 s' tx t2 l Hp Hs IH]; intros t m Ht Hm Hpos.
    - exists t, m. auto.
    - destruct Hp.
      destruct (beqb_spec k (nft_key (P ++ rt_tok x) (tok_nonce tx))) as [->|Hk].
      + pose proof (balance_tok_at E _ _ _ _ Ht) as Hb.
        pose proof (os_dst_tok_at eq_refl) as Hst. rewrite Hb in Hst.
        destruct (rt_qty x + val_or_0 t <=? 0)%Z eqn:Ec; [lia|].
        destruct (os_dst_hash eq_refl t m Ht Hm) as (m' & Hm' & Hh).
        destruct (IH t2 m') as (t1 & m1 & H1 & H2 & H3 & H4).
        * exact Hst.
        * rewrite os_travel, t_meta_set_value. exact Hm'.
        * rewrite os_travel, val_or_0_set_value, Hb. lia.
        * exists t1, m1. split; [exact H1|]. split; [exact H2|]. split; [congruence|exact H4].
      + apply (IH t m); try assumption.
        rewrite (ue_tok_at E _ _ _ _ os_frame); [exact Ht|]. intros [? _]. contradiction.
  Qed.

  Lemma c08_multi_sender i s o s' a k t m t' : f_multi_transfer E i s = (Ok o, s') -> i_caller i = i_rcpt i ->
    triples_consistent E s (i_caller i) (multi_snd_triples i) ->
    tok_at E s a k = Some t -> t_meta t = Some m -> tok_at E s' a k = Some t' -> (0 < val_or_0 t)%Z ->
    c08_concl F_MULTIT i a m t'.
  Proof.
    intros H Heq Hcons Ht Hm Ht' Hpos. unfold c08_concl.
    destruct (multi_sender_post E Hc _ _ _ _ H Heq) as (lst & Hp). destruct Hp.
    destruct mp_steps as (s0 & s1 & Q0 & Hs & Q1).
    rewrite <- (silent_tok_at E _ _ a k Q0) in Ht. rewrite (silent_tok_at E _ _ a k Q1) in Ht'.
    destruct (beqb_spec a (i_caller i)) as [->|Ha].
    - left. destruct (snd_steps_entries E _ _ _ _ _ _ _ _ _ mp_dst_ne Hs (silent_consistent E _ _ _ _ Q0 Hcons) s0
                        (same_upto_value_refl E _ _)) as [_ Hinv].
      destruct (Hinv _ _ Ht') as (t0 & Ht0 & Htt). assert (t0 = t) by congruence. subst t0. rewrite Htt. exact Hm.
    - destruct (multi_same E i) eqn:Es.
      + destruct (beqb_spec a (multi_dst i)) as [->|Hd].
        * right. split; [reflexivity|]. split.
          { unfold c09_dest, c09_sender_side. rewrite fn_multi_ne_esdt, fn_multi_ne_nft, Heq, !beqb_refl. reflexivity. }
          split; [exact mp_dst_ne|].
          destruct (c08_snd_steps_dst_hash _ _ _ _ _ _ _ _ k Hs t m Ht Hm Hpos) as (t1 & m1 & H1 & H2 & H3 & _).
          assert (t1 = t') by congruence. subst t1. exists m1. auto.
        * left. destruct (snd_steps_frame E _ _ _ _ _ _ _ _ _ Hs) as (Hue & _).
          apply (c08_keep_same _ _ _ _ _ _ _ Ht Hm Ht'). apply (ue_tok_at E _ _ _ _ Hue). intros [[?|[_ ?]] _]; contradiction.
      + left. destruct (snd_steps_frame E _ _ _ _ _ _ _ _ _ Hs) as (Hue & _).
        apply (c08_keep_same _ _ _ _ _ _ _ Ht Hm Ht'). apply (ue_tok_at E _ _ _ _ Hue). intros [[?|[? _]] _]; [contradiction|discriminate].
  Qed.

  (* ---- destination side ---- *)
  Lemma c08_dst_steps_hash_keep rcpt verify rae trs s s' k :
    dst_steps E rcpt verify rae trs s s' -> credits_nonneg E trs ->
    forall t m, tok_at E s rcpt k = Some t -> t_meta t = Some m -> (0 < val_or_0 t)%Z ->
    exists t1 m1, tok_at E s' rcpt k = Some t1 /\ t_meta t1 = Some m1 /\ md_hash m1 = md_hash m /\ (0 < val_or_0 t1)%Z.
  Proof.
    intros Hs. induction Hs as [s|x rest s s1 s' Hp Hs IH]; intros Hcn t m Ht Hm Hpos.
    - exists t, m. auto.
    - unfold credits_nonneg, dst_credits in Hcn. cbn [map concat] in Hcn. apply Forall_app in Hcn as [Hcx Hcr].
      pose proof (balance_tok_at E _ _ _ _ Ht) as Hb.
      destruct Hp. unfold rt_credit in Hcx. destruct (0 <? rt_nonce x)%N eqn:En.
      + destruct od_nft as (tp & Hdec & _ & Hv & _ & Hh & _ & Hst & _ & Hue); [lia|].
        rewrite Hdec, Hv in Hcx. inversion Hcx as [|kv l Hkv _]; subst. cbn [snd] in Hkv.
        destruct (beqb_spec k (nft_key (P ++ rt_tok x) (tok_nonce tp))) as [->|Hk].
        * rewrite Hb in Hst. destruct (val_or_0 tp + val_or_0 t <=? 0)%Z eqn:Ec; [lia|].
          destruct (Hh t m Ht Hm) as (m' & Hm' & Hhash).
          destruct (IH Hcr _ m' Hst) as (t1 & m1 & H1 & H2 & H3 & H4).
          { rewrite t_meta_set_value. exact Hm'. }
          { rewrite val_or_0_set_value. lia. }
          exists t1, m1. split; [exact H1|]. split; [exact H2|]. split; [congruence|exact H4].
        * apply (IH Hcr t m); try assumption. rewrite (ue_tok_at E _ _ _ _ Hue); [exact Ht|]. intros [_ ?]. contradiction.
      + destruct od_fungible as (_ & (t0 & Ht0 & _ & _ & _ & Hst) & _ & Hue); [apply N.ltb_ge in En; lia|].
        destruct (beqb_spec k (P ++ rt_tok x)) as [->|Hk].
        * rewrite (tok_at_tod E _ _ _ _ Ht) in Ht0. inversion Ht0; subst t0. rewrite Hb in Hst.
          pose proof (bigZ_nonneg (rt_third x)) as Hnn.
          destruct ((val_or_0 t + bigZ (rt_third x) =? 0)%Z && all_zero (t_props t))%bool eqn:Ec.
          { apply andb_prop in Ec as [Ec _]. lia. }
          destruct (IH Hcr _ m Hst) as (t1 & m1 & H1 & H2 & H3 & H4).
          { rewrite t_meta_set_value. exact Hm. }
          { rewrite val_or_0_set_value. lia. }
          exists t1, m1. auto.
        * apply (IH Hcr t m); try assumption. rewrite (ue_tok_at E _ _ _ _ Hue); [exact Ht|]. intros [_ ?]. contradiction.
  Qed.

  Lemma c08_multi_dest i s o s' a k t m t' : f_multi_transfer E i s = (Ok o, s') -> i_caller i <> i_rcpt i ->
    credits_nonneg E (multi_dst_triples i) ->
    tok_at E s a k = Some t -> t_meta t = Some m -> tok_at E s' a k = Some t' -> (0 < val_or_0 t)%Z ->
    c08_concl F_MULTIT i a m t'.
  Proof.
    intros H Hne Hcn Ht Hm Ht' Hpos. unfold c08_concl.
    pose proof (multi_dest_post E Hc _ _ _ _ H Hne) as Hp. destruct Hp. destruct mq_steps as (s0 & Q0 & Hs).
    rewrite <- (silent_tok_at E _ _ a k Q0) in Ht.
    destruct (beqb_spec a (i_rcpt i)) as [->|Ha].
    - right. split; [reflexivity|]. split.
      { unfold c09_dest, c09_sender_side. rewrite fn_multi_ne_esdt, (beqb_false _ _ Hne). reflexivity. }
      split; [congruence|].
      destruct (c08_dst_steps_hash_keep _ _ _ _ _ _ k Hs Hcn t m Ht Hm Hpos) as (t1 & m1 & H1 & H2 & H3 & _).
      assert (t1 = t') by congruence. subst t1. exists m1. auto.
    - left. destruct (dst_steps_frame E _ _ _ _ _ _ Hs) as (Hue & _).
      apply (c08_keep_same _ _ _ _ _ _ _ Ht Hm Ht'). apply (ue_tok_at E _ _ _ _ Hue). intros [? _]. contradiction.
  Qed.

  (* ================================================================ *)
  (* the statement over the whole dispatch                              *)
  (* ================================================================ *)
  Theorem only_adduri_updateattr_change_metadata f i s o s' a x t m t' :
    exec E f i s = (Ok o, s') ->
    f <> F_ADDURI -> f <> F_UPDATTR ->
    c08_regular f i s ->
    tok_at E s a (P ++ x) = Some t -> t_meta t = Some m ->
    tok_at E s' a (P ++ x) = Some t' ->
    ~ c08_excluded f i s a (P ++ x) t ->
    c08_concl f i a m t'.
  Proof.
    intros H Hn1 Hn2 (R1 & R2 & R3 & R4) Ht Hm Ht' Hex. unfold exec in H.
    assert (Hsame : (forall a k, cell s' a k = cell s a k) -> c08_concl f i a m t').
    { intros Hcell. left. apply (c08_keep_same _ _ _ _ _ _ _ Ht Hm Ht'). unfold tok_at. rewrite Hcell. reflexivity. }
    assert (Hue1 : forall F, unchanged_except F (fun _ => False) s s' -> ~ F a (P ++ x) -> c08_concl f i a m t').
    { intros F Hue Hn. left. apply (c08_keep_same _ _ _ _ _ _ _ Ht Hm Ht'). apply (ue_tok_at E _ _ _ _ Hue _ _ Hn). }
    repeat match type of H with
           | (if beqb f ?c then _ else _) _ = _ => destruct (beqb_spec f c) as [->|?]
           end.
    - (* ClaimDeveloperRewards *)
      apply Hsame. apply (account_footprint E C.BuiltInFunctionClaimDeveloperRewards i s o s' H). cbn. tauto.
    - (* ChangeOwnerAddress *)
      apply Hsame. apply (account_footprint E C.BuiltInFunctionChangeOwnerAddress i s o s' H). cbn. tauto.
    - (* SetUserName *)
      apply Hsame. apply (account_footprint E C.BuiltInFunctionSetUserName i s o s' H). cbn. tauto.
    - (* SaveKeyValue *)
      left. apply (c08_keep_same _ _ _ _ _ _ _ Ht Hm Ht'). unfold tok_at.
      rewrite (proj1 (savekv_footprint E i s o s' H)); [reflexivity|]. right. apply P_protected.
    - (* ESDTPause *)
      apply (pause_spec E) in H as (_ & tok & Hargs & _ & _ & _ & _ & Hue & _). apply (Hue1 _ Hue).
      intros [-> Hk]. apply Hex. right. left. split; [auto|]. split; [reflexivity|]. rewrite Hk. unfold argn. rewrite Hargs. reflexivity.
    - (* ESDTUnPause *)
      apply (pause_spec E) in H as (_ & tok & Hargs & _ & _ & _ & _ & Hue & _). apply (Hue1 _ Hue).
      intros [-> Hk]. apply Hex. right. left. split; [auto|]. split; [reflexivity|]. rewrite Hk. unfold argn. rewrite Hargs. reflexivity.
    - (* ESDTTransfer *)
      left. apply (c08_esdt_transfer _ _ _ _ _ _ _ _ _ H Ht Hm Ht'). intros (H1 & H2 & H3 & H4).
      apply Hex. right. right. left. auto.
    - (* ESDTBurn *)
      left. apply (c08_supply SEsdtBurn i s o s' a (P ++ x) t m t'); [tauto|exact H|exact I|assumption..].
    - (* ESDTFreeze *) left. eapply c08_freeze_wipe; eassumption.
    - (* ESDTUnFreeze *) left. eapply c08_freeze_wipe; eassumption.
    - (* ESDTWipe *) left. eapply c08_freeze_wipe; eassumption.
    - (* UnSetESDTRole *)
      apply (roles_spec E Hc) in H as (_ & tok & rs & _ & _ & _ & _ & Hue & _). apply (Hue1 _ Hue).
      intros [_ Hk]. exact (P_RP_disjoint _ _ Hk).
    - (* SetESDTRole *)
      apply (roles_spec E Hc) in H as (_ & tok & rs & _ & _ & _ & _ & Hue & _). apply (Hue1 _ Hue).
      intros [_ Hk]. exact (P_RP_disjoint _ _ Hk).
    - (* ESDTLocalBurn *)
      left. apply (c08_supply SLocalBurn i s o s' a (P ++ x) t m t'); [tauto|exact H|exact I|assumption..].
    - (* ESDTLocalMint *)
      left. apply (c08_supply SLocalMint i s o s' a (P ++ x) t m t'); [tauto|exact H|exact I|assumption..].
    - (* ESDTNFTAddQuantity *)
      left. apply (c08_supply SNftAddQuantity i s o s' a (P ++ x) t m t'); [tauto|exact H|apply R1; auto|assumption..].
    - (* ESDTNFTBurn *)
      left. apply (c08_supply SNftBurn i s o s' a (P ++ x) t m t'); [tauto|exact H|apply R1; auto|assumption..].
    - (* ESDTNFTCreate *)
      apply (f_nft_create_spec E Hc) in H. destruct H. apply (Hue1 _ nc_frame).
      intros [-> [Hk|Hk]]; [apply Hex; left; auto|exact (P_NP_disjoint _ _ Hk)].
    - (* ESDTNFTTransfer *)
      apply (c08_nft_transfer i s o s' a (P ++ x) t m t' H); try assumption. intros Heq. apply R2; auto.
    - (* ESDTNFTCreateRoleTransfer *)
      apply (role_transfer_frame E Hc) in H as (tok & a1 & _ & Hue & _). apply (Hue1 _ Hue).
      intros [_ [Hk|Hk]]; [exact (P_NP_disjoint _ _ Hk)|exact (P_RP_disjoint _ _ Hk)].
    - (* ESDTNFTUpdateAttributes *) congruence.
    - (* ESDTNFTAddURI *) congruence.
    - (* MultiESDTNFTTransfer *)
      assert (Hpos : (0 < val_or_0 t)%Z).
      { destruct (Z.lt_ge_cases 0 (val_or_0 t)) as [Hp|Hp]; [exact Hp|]. exfalso. apply Hex. right. right. right. split; [reflexivity|lia]. }
      destruct (beqb_spec (i_caller i) (i_rcpt i)) as [Heq|Hne].
      + apply (c08_multi_sender i s o s' a (P ++ x) t m t' H Heq); try assumption. apply R3; auto.
      + apply (c08_multi_dest i s o s' a (P ++ x) t m t' H Hne); try assumption. apply R4; auto.
    - (* unknown name *) unfold fail in H. discriminate H.
  Qed.
End C08Only.

Print Assumptions only_adduri_updateattr_change_metadata.
