(* Function spec of ESDTNFTTransfer (Ledger/Transfers.v: f_nft_transfer), sender side
   (caller = recipient: f_nft_transfer_sender) and destination side.
   Main theorems: [nft_transfer_sender_spec] (record [nft_snd_post], parametrised by the sender's entry t),
   [nft_transfer_dest_spec] (record [nft_dst_post], parametrised by the decoded payload t),
   [nft_transfer_spec] (the dispatch on caller = recipient).
   NOTE (F4b): the sender's entry is LOOKED UP under nft_key key nonce (nonce = requested nonce) but
   STORED BACK under nft_key key (tok_nonce t) (the metadata nonce); all statements use
   [nft_full i t] := nft_key key (tok_nonce t) for the written cell; the two coincide under
   [lookup_consistent]. *)
From EV Require Import Base.Bytes Base.Store Base.Monad gen.Consts Codec.Types Helpers.Helpers
  Ledger.Types Ledger.Env Ledger.Funcs Ledger.Transfers LedgerProofs.Defs LedgerProofs.EnvSpec
  LedgerProofs.Spec_Transfers_Base.

Section Nft.
  Variable E : env.
  Hypothesis Hc : codec_ok (cdc E).

  (* ---- what the call is about ---- *)
  Definition nft_tok (i : input) : bytes := argn i 0.
  Definition nft_tkey (i : input) : bytes := P ++ argn i 0.            (* token-level key *)
  Definition nft_nonce (i : input) : N := bigU64 (argn i 1).           (* requested nonce (sender side) *)
  Definition nft_qty (i : input) : Z := bigZ (argn i 2).               (* requested quantity (sender side) *)
  Definition nft_dst (i : input) : bytes := argn i 3.                  (* destination (sender side) *)
  Definition nft_same (i : input) : bool := (self_shard E =? shard_of E (argn i 3))%N.
  Definition nft_full (i : input) (t : token) : bytes := nft_key (nft_tkey i) (tok_nonce t).
  Definition nft_call_after (i : input) (dst : bytes) : bool := ((4 <? alen (i_args i))%N && is_sc dst)%bool.

  (* the entry that travels / is reported: Value = q, plus the destination's holding on the same shard *)
  Definition nft_travel (i : input) (t : token) (s : mstate) : token :=
    set_value t (Some (if nft_same i then (nft_qty i + balance E s (nft_dst i) (nft_full i t))%Z else nft_qty i)).

  (* complete output of the sender side, as a function of the travelling entry *)
  Definition nft_sender_out (i : input) (t2 : token) : output :=
    let cost := g_ESDTNFTTransfer (gas E) in
    let dst := nft_dst i in
    let b := enc_tok (cdc E) t2 in
    let g := mul64 (zlen b) (g_DataCopyPerByte (gas E)) in
    let o := set_gasrem (mk_out rcOk (sub64 (i_gas i) cost)) (sub64 (sub64 (i_gas i) cost) g) in
    let args' := [argn i 0; argn i 1; argn i 2] ++ [b] ++ skipn 4 (i_args i) in
    let after := nft_call_after i dst in
    let o1 := if negb (nft_same i) then
                add_nft_transfer (i_caller i) dst C.BuiltInFunctionESDTNFTTransfer args' (i_gasLocked i)
                  (if after then o_gasRemaining o else 0%N) (i_callType i) (if after then set_gasrem o 0 else o)
              else if after then
                add_output_transfer (i_caller i) (argn i 4) (skipn 5 (i_args i)) dst (i_gasLocked i) (i_callType i) o
              else o in
    add_log o1 (log_nft C.BuiltInFunctionESDTNFTTransfer (i_caller i) (nft_tok i) (tok_nonce t2) [dst]).

  (* complete output of the destination side, as a function of the decoded payload *)
  Definition nft_dest_out (i : input) (t : token) : output :=
    let o := mk_out rcOk (i_gas i) in
    let o1 := if nft_call_after i (i_rcpt i) then
                add_output_transfer (i_caller i) (argn i 4) (skipn 5 (i_args i)) (i_rcpt i) (i_gasLocked i) (i_callType i) o
              else o in
    add_log o1 (log_nft C.BuiltInFunctionESDTNFTTransfer (i_caller i) (nft_tok i) (tok_nonce t) [i_rcpt i]).

  (* ---- effect of add_nft_to_destination in observables (sharper than EnvSpec's _balance lemma) ---- *)
  Lemma antd_obs dst key t verify rae s t' s' : wf_token t ->
    add_nft_to_destination E dst key t verify rae s = (Ok t', s') ->
    let full := nft_key key (tok_nonce t) in
    let nv := (val_or_0 t + balance E s dst full)%Z in
    t_value t <> None
    /\ t' = set_value t (Some nv)
    /\ (verify = true -> payable E dst = PayYes)
    /\ (forall cur, tok_at E s dst full = Some cur -> t_value cur <> None)
    /\ (forall cur cm, tok_at E s dst full = Some cur -> t_meta cur = Some cm ->
          exists m, t_meta t = Some m /\ md_hash cm = md_hash m)
    /\ (rae = false -> dst <> SC ->
          frozen_at E s dst full = false /\ frozen_props (t_props t) = false
          /\ paused_at s key = false /\ paused_at s full = false)
    /\ cell s' dst full = (if (nv <=? 0)%Z then [] else enc_tok (cdc E) (set_value t (Some nv)))
    /\ tok_at E s' dst full = (if (nv <=? 0)%Z then None else Some (set_value t (Some nv)))
    /\ balance E s' dst full = Z.max 0 nv
    /\ unchanged_except (fun a' k' => a' = dst /\ k' = full) (fun _ => False) s s'
    /\ (forall L, NoDup L -> In dst L -> touches L s s')
    /\ nofault E s s' /\ allocs s' = allocs s.
  Proof.
    intros Hwf H. cbv zeta.
    apply (add_nft_to_destination_ok E Hc) in H as (cur & v & cv & Htod & Hwc & Hv & Hcv & -> & Hpay & Hhash & Hfl & Hw).
    assert (Hb : balance E s dst (nft_key key (tok_nonce t)) = cv)
      by (rewrite (balance_tod E _ _ _ _ Htod); unfold val_or_0; rewrite Hcv; reflexivity).
    assert (Hvt : val_or_0 t = v) by (unfold val_or_0; rewrite Hv; reflexivity).
    rewrite Hb, Hvt.
    split; [congruence|]. split; [reflexivity|]. split; [exact Hpay|].
    split.
    { intros c Hc0. apply (tok_at_tod E) in Hc0. rewrite Hc0 in Htod. inversion Htod; subst. congruence. }
    split.
    { intros c cm Hc0 Hm. apply (tok_at_tod E) in Hc0. rewrite Hc0 in Htod. inversion Htod; subst. apply Hhash. exact Hm. }
    split.
    { intros h1 h2. destruct (Hfl h1 h2) as (F1 & F2 & P1 & P2). rewrite (frozen_at_tod E _ _ _ _ Htod). auto. }
    split; [eapply wr_cell_eq; eauto|].
    split.
    { destruct (v + cv <=? 0)%Z; [eapply wr_tok_at_nil; eauto|eapply (wr_tok_at_enc E Hc); eauto]. }
    split.
    { destruct (v + cv <=? 0)%Z eqn:Ev.
      - rewrite (wr_balance_nil E _ _ _ _ Hw). lia.
      - rewrite (wr_balance_enc E Hc _ _ _ _ _ (wf_set_value _ _ Hwf) Hw). rewrite val_or_0_set_value. lia. }
    split; [eapply wr_unchanged; eauto|].
    split; [intros L HL Hin; eapply touches_wr; eauto|].
    split; [eapply wr_nofault; eauto|eapply wr_allocs; eauto].
  Qed.

  (* ---- the debit: get_nft_on_sender; val_of; guard; save_nft  (shared with the multi transfer) ---- *)
  Definition debit_nft (a key : bytes) (nonce : N) (q : Z) (rae : bool) : MT token :=
    t <- get_nft_on_sender E a key nonce ;;
    v <- val_of t ;;
    guard (negb (v <? q)%Z) EInvalidNFTQuantity ;;;
    save_nft E a key (set_value t (Some (v - q)%Z)) rae ;;;
    ret t.

  Record debit_post (a key : bytes) (nonce : N) (q : Z) (rae : bool) (t : token) (s s' : mstate) : Prop := {
    db_entry : tok_at E s a (nft_key key nonce) = Some t;
    db_wf : wf_token t;
    db_meta_pos : (0 < nonce)%N -> exists m, t_meta t = Some m;
    db_meta_0 : nonce = 0%N -> t_meta t = None;
    db_value : t_value t = Some (val_or_0 t);
    db_funds : (q <= val_or_0 t)%Z;
    db_flags : rae = false -> a <> SC ->
       frozen_props (t_props t) = false /\ frozen_at E s a (nft_key key nonce) = false
       /\ paused_at s key = false /\ paused_at s (nft_key key (tok_nonce t)) = false;
    db_cell : cell s' a (nft_key key (tok_nonce t)) =
              (if (val_or_0 t - q <=? 0)%Z then [] else enc_tok (cdc E) (set_value t (Some (val_or_0 t - q)%Z)));
    db_tok_at : tok_at E s' a (nft_key key (tok_nonce t)) =
              (if (val_or_0 t - q <=? 0)%Z then None else Some (set_value t (Some (val_or_0 t - q)%Z)));
    db_balance : balance E s' a (nft_key key (tok_nonce t)) = (val_or_0 t - q)%Z;
    db_frame : unchanged_except (fun a' k' => a' = a /\ k' = nft_key key (tok_nonce t)) (fun _ => False) s s';
    db_touches : forall L, NoDup L -> In a L -> touches L s s';
    db_nofault : nofault E s s';
    db_allocs : allocs s' = allocs s }.

  Lemma debit_nft_ok a key nonce q rae s t s' :
    debit_nft a key nonce q rae s = (Ok t, s') -> debit_post a key nonce q rae t s s'.
  Proof.
    unfold debit_nft. intros H.
    apply bind_ok in H as (t0 & s1 & H0 & H). apply (get_nft_on_sender_ok E Hc) in H0 as (Hrd & Hwf & Hent & Hm1 & Hm2).
    apply bind_ok in H as (v & s2 & H0 & H). apply val_of_ok in H0 as [Hv ->].
    apply bind_ok in H as (u & s2 & H0 & H). apply guard_ok in H0 as [Hq ->].
    apply bind_ok in H as (b & s2 & H0 & H). apply ret_ok in H as [-> ->].
    apply save_nft_ok in H0 as (v' & Hv' & Hb & Hw & Hfl). cbn [set_value t_value] in Hv'. inversion Hv'; subst v'. clear Hv'.
    rewrite tok_nonce_set_value in *. cbn [set_value t_props] in Hfl.
    assert (Hvo : val_or_0 t0 = v) by (unfold val_or_0; rewrite Hv; reflexivity).
    assert (Hw' : wr E a (nft_key key (tok_nonce t0)) b s s2) by (eapply rd_wr; eauto).
    constructor; rewrite ?Hvo; try assumption.
    - lia.
    - intros h1 h2. destruct (Hfl h1 h2) as (F & P1 & P2).
      rewrite !(rd_paused_at E _ _ _ Hrd) in *. unfold frozen_at. rewrite Hent. auto.
    - rewrite (wr_cell_eq E _ _ _ _ _ Hw'). exact Hb.
    - subst b. destruct (v - q <=? 0)%Z; [eapply wr_tok_at_nil; eauto|eapply (wr_tok_at_enc E Hc); eauto].
    - subst b. destruct (v - q <=? 0)%Z eqn:Ev.
      + rewrite (wr_balance_nil E _ _ _ _ Hw'). lia.
      + rewrite (wr_balance_enc E Hc _ _ _ _ _ (wf_set_value _ _ Hwf) Hw'). apply val_or_0_set_value.
    - eapply wr_unchanged; eauto.
    - intros L HL Hin. eapply touches_wr; eauto.
    - eapply wr_nofault; eauto.
    - eapply wr_allocs; eauto.
  Qed.

  (* ================================================================ *)
  (* sender side                                                        *)
  (* ================================================================ *)
  Record nft_snd_post (i : input) (t : token) (s : mstate) (o : output) (s' : mstate) : Prop := {
    (* guards *)
    ns_dst_len : zlen (nft_dst i) = zlen (i_caller i);
    ns_dst_ne : nft_dst i <> i_caller i;
    ns_not_meta : shard_of E (nft_dst i) <> META;
    ns_gas : (g_ESDTNFTTransfer (gas E) <= i_gas i)%N;
    ns_nonce : nft_nonce i <> 0%N;
    ns_snd : i_snd i = true;
    ns_copy_gas : (mul64 (zlen (enc_tok (cdc E) (nft_travel i t s))) (g_DataCopyPerByte (gas E))
                   <= sub64 (i_gas i) (g_ESDTNFTTransfer (gas E)))%N;
    (* the sender's entry and its update *)
    ns_debit : exists s1, debit_post (i_caller i) (nft_tkey i) (nft_nonce i) (nft_qty i) (i_rae i) t s s1
                          /\ (nft_same i = false -> rd E s1 s');
    ns_meta : exists m, t_meta t = Some m;
    ns_snd_tok_at : tok_at E s' (i_caller i) (nft_full i t) =
       (if (val_or_0 t - nft_qty i <=? 0)%Z then None else Some (set_value t (Some (val_or_0 t - nft_qty i)%Z)));
    ns_snd_balance : balance E s' (i_caller i) (nft_full i t) = (val_or_0 t - nft_qty i)%Z;
    (* same shard: the destination's entry *)
    ns_dst_payable : nft_same i = true -> must_verify_payable i 4 = true -> payable E (nft_dst i) = PayYes;
    ns_dst_value : nft_same i = true -> forall cur, tok_at E s (nft_dst i) (nft_full i t) = Some cur -> t_value cur <> None;
    ns_dst_hash : nft_same i = true -> forall cur cm, tok_at E s (nft_dst i) (nft_full i t) = Some cur -> t_meta cur = Some cm ->
                    exists m, t_meta t = Some m /\ md_hash cm = md_hash m;
    ns_dst_flags : nft_same i = true -> i_rae i = false -> nft_dst i <> SC ->
       frozen_at E s (nft_dst i) (nft_full i t) = false /\ frozen_props (t_props t) = false
       /\ paused_at s (nft_tkey i) = false /\ paused_at s (nft_full i t) = false;
    ns_dst_tok_at : nft_same i = true ->
       tok_at E s' (nft_dst i) (nft_full i t) =
       (if (nft_qty i + balance E s (nft_dst i) (nft_full i t) <=? 0)%Z then None else Some (nft_travel i t s));
    ns_dst_balance : nft_same i = true ->
       balance E s' (nft_dst i) (nft_full i t) = Z.max 0 (nft_qty i + balance E s (nft_dst i) (nft_full i t));
    (* frame *)
    ns_frame : unchanged_except (fun a k => k = nft_full i t /\ (a = i_caller i \/ (nft_same i = true /\ a = nft_dst i)))
                 (fun _ => False) s s';
    ns_touches : forall L, NoDup L -> In (i_caller i) L -> (nft_same i = true -> In (nft_dst i) L) -> touches L s s';
    ns_nofault : nofault E s s';
    ns_allocs : allocs s' = allocs s;
    (* output *)
    ns_out : o = nft_sender_out i (nft_travel i t s) }.

  Lemma nft_transfer_sender_spec i s o s' : (4 <= alen (i_args i))%N ->
    f_nft_transfer_sender E i s = (Ok o, s') -> exists t, nft_snd_post i t s o s'.
  Proof.
    intros Hlen. unfold f_nft_transfer_sender. cbv zeta. intros H.
    apply bind_ok in H as (dst & s0 & H0 & H). apply arg_ok in H0 as (Hdst & _ & ->).
    change (N.to_nat 3) with 3%nat in Hdst. apply nth_error_argn in Hdst. subst dst.
    apply bind_ok in H as (u0 & s0 & H0 & H). apply guard_ok in H0 as [G1 ->].
    apply bind_ok in H as (u1 & s0 & H0 & H). apply guard_ok in H0 as [G2 ->].
    apply bind_ok in H as (u2 & s0 & H0 & H). apply guard_ok in H0 as [G3 ->].
    apply bind_ok in H as (u3 & s0 & H0 & H). apply guard_ok in H0 as [G4 ->].
    apply bind_ok in H as (tok & s0 & H0 & H). apply arg_ok in H0 as (Htok & _ & ->).
    change (N.to_nat 0) with 0%nat in Htok. apply nth_error_argn in Htok. subst tok.
    apply bind_ok in H as (a1 & s0 & H0 & H). apply arg_ok in H0 as (Ha1 & _ & ->).
    change (N.to_nat 1) with 1%nat in Ha1. apply nth_error_argn in Ha1. subst a1.
    apply bind_ok in H as (u4 & s0 & H0 & H). apply guard_ok in H0 as [G5 ->].
    apply bind_ok in H as (u5 & s0 & H0 & H).
    assert (Hsnd : i_snd i = true /\ s0 = s).
    { destruct (i_snd i); [apply ret_ok in H0 as [_ ->]; auto|apply panic_ok in H0; contradiction]. }
    destruct Hsnd as [Hsnd ->]. clear H0.
    (* the debit, re-associated as [debit_nft] *)
    apply bind_ok in H as (t & s1 & Hg & H).
    apply bind_ok in H as (a2 & s1' & H0 & H). apply arg_ok in H0 as (Ha2 & _ & ->).
    change (N.to_nat 2) with 2%nat in Ha2. apply nth_error_argn in Ha2. subst a2.
    apply bind_ok in H as (v & s1' & Hv & H).
    apply bind_ok in H as (u6 & s1'' & Hq & H).
    apply bind_ok in H as (b0 & s2 & Hsave & H).
    assert (Hdeb : debit_nft (i_caller i) (nft_tkey i) (nft_nonce i) (nft_qty i) (i_rae i) s = (Ok t, s2)).
    { unfold debit_nft, nft_tkey, nft_nonce, nft_qty.
      rewrite (bind_eq _ _ _ _ _ Hg). rewrite (bind_eq _ _ _ _ _ Hv). rewrite (bind_eq _ _ _ _ _ Hq).
      rewrite (bind_eq _ _ _ _ _ Hsave). reflexivity. }
    clear Hg Hv Hq Hsave. apply debit_nft_ok in Hdeb. pose proof Hdeb as D. destruct D.
    assert (Hmeta : exists m, t_meta t = Some m).
    { apply db_meta_pos0. unfold nft_nonce. destruct (bigU64 (argn i 1) =? 0)%N eqn:E0; [discriminate|]. lia. }
    fold (nft_same i) in H. fold (nft_tkey i) in H. fold (nft_qty i) in H.
    apply bind_ok in H as (t2 & s3 & Htr & H).
    (* the travelling entry and the state after the optional credit *)
    assert (Hne : nft_dst i <> i_caller i).
    { intros Heq. unfold nft_dst in Heq. rewrite Heq, beqb_refl in G2. discriminate. }
    assert (Hbal_dst : balance E s2 (nft_dst i) (nft_full i t) = balance E s (nft_dst i) (nft_full i t)).
    { apply (ue_balance E _ _ _ _ db_frame0). intros [? _]. congruence. }
    assert (Htr' : t2 = nft_travel i t s
       /\ (if nft_same i then
             exists s2a s2b, rd E s2 s2a /\ rd E s2b s3
               /\ add_nft_to_destination E (nft_dst i) (nft_tkey i) (set_value t (Some (nft_qty i)))
                    (must_verify_payable i 4) (i_rae i) s2a = (Ok t2, s2b)
           else s3 = s2)).
    { unfold nft_travel. destruct (nft_same i) eqn:Esame.
      - apply bind_ok in Htr as (u7 & s2a & H0 & Htr). apply load_account_ok in H0.
        apply bind_ok in Htr as (t' & s2b & Hadd & Htr).
        apply bind_ok in Htr as (u8 & s2c & H1 & Htr). apply save_account_ok in H1.
        apply ret_ok in Htr as [-> ->]. change nft_min with 4%N in Hadd. fold (nft_dst i) in Hadd.
        split; [|exists s2a, s2b; auto].
        pose proof Hadd as Hadd'. apply antd_obs in Hadd' as (_ & -> & _); [|apply wf_set_value; exact db_wf0].
        rewrite val_or_0_set_value, tok_nonce_set_value. fold (nft_full i t).
        rewrite (rd_balance E _ _ _ _ H0). rewrite Hbal_dst. reflexivity.
      - apply ret_ok in Htr as [-> ->]. auto. }
    destruct Htr' as [-> Hcredit]. clear Htr.
    (* the output *)
    apply bind_ok in H as (b & s4 & H0 & H). apply marshal_tok_ok in H0 as [-> Hrd4].
    apply bind_ok in H as (u9 & s5 & H0 & H). apply guard_ok in H0 as [Hcopy ->].
    apply bind_ok in H as (first3 & s5 & H0 & H).
    assert (Hf3 : first3 = [argn i 0; argn i 1; argn i 2] /\ s5 = s4).
    { destruct (3 <=? alen (i_args i))%N eqn:E3; [|apply panic_ok in H0; contradiction].
      apply ret_ok in H0 as [-> ->]. split; [|reflexivity]. apply firstn3. lia. }
    destruct Hf3 as [-> ->]. clear H0.
    apply bind_ok in H as (rest & s5 & H0 & H).
    assert (Hrest : rest = skipn 4 (i_args i) /\ s5 = s4).
    { change nft_min with 4%N in H0. destruct (4 <? alen (i_args i))%N eqn:E4.
      - apply args_from_ok in H0 as (_ & -> & ->). auto.
      - apply ret_ok in H0 as [-> ->]. split; [|reflexivity]. symmetry. apply skipn_all2. unfold alen in *. lia. }
    destruct Hrest as [-> ->]. clear H0.
    apply bind_ok in H as (o1 & s5 & Ho1 & H).
    apply bind_ok in H as (m & s6 & H0 & H). apply meta_of_ok in H0 as [Hm2 ->]. apply ret_ok in H as [-> ->].
    change nft_min with 4%N in Ho1. fold (nft_dst i) in Ho1. fold (nft_call_after i (nft_dst i)) in Ho1.
    cbn [o_gasRemaining mk_out] in Ho1, Hcopy.
    assert (Hout : s5 = s4 /\ o1 =
      (let o := set_gasrem (mk_out rcOk (sub64 (i_gas i) (g_ESDTNFTTransfer (gas E))))
                  (sub64 (sub64 (i_gas i) (g_ESDTNFTTransfer (gas E)))
                     (mul64 (zlen (enc_tok (cdc E) (nft_travel i t s))) (g_DataCopyPerByte (gas E)))) in
       let args' := [argn i 0; argn i 1; argn i 2] ++ [enc_tok (cdc E) (nft_travel i t s)] ++ skipn 4 (i_args i) in
       let after := nft_call_after i (nft_dst i) in
       if negb (nft_same i) then
         add_nft_transfer (i_caller i) (nft_dst i) C.BuiltInFunctionESDTNFTTransfer args' (i_gasLocked i)
           (if after then o_gasRemaining o else 0%N) (i_callType i) (if after then set_gasrem o 0 else o)
       else if after then
         add_output_transfer (i_caller i) (argn i 4) (skipn 5 (i_args i)) (nft_dst i) (i_gasLocked i) (i_callType i) o
       else o)).
    { cbv zeta. destruct (negb (nft_same i)).
      - apply ret_ok in Ho1 as [-> ->]. split; [reflexivity|].
        destruct (nft_call_after i (nft_dst i)); reflexivity.
      - destruct (nft_call_after i (nft_dst i)) eqn:Eafter.
        + apply bind_ok in Ho1 as (fn & s7 & H1 & Ho1). apply arg_ok in H1 as (Hfn & Hlt & ->).
          change (N.to_nat 4) with 4%nat in Hfn. apply nth_error_argn in Hfn. subst fn.
          apply bind_ok in Ho1 as (callArgs & s7 & H1 & Ho1).
          assert (Hca : callArgs = skipn 5 (i_args i) /\ s7 = s4).
          { destruct (4 + 1 <? alen (i_args i))%N eqn:E5.
            - apply args_from_ok in H1 as (_ & -> & ->). split; reflexivity.
            - apply ret_ok in H1 as [-> ->]. split; [|reflexivity]. symmetry. apply skipn_all2. unfold alen in *. lia. }
          destruct Hca as [-> ->]. apply ret_ok in Ho1 as [-> ->]. split; reflexivity.
        + apply ret_ok in Ho1 as [-> ->]. split; reflexivity. }
    destruct Hout as [-> ->]. clear Ho1.
    assert (Htn : md_nonce m = tok_nonce (nft_travel i t s)) by (unfold tok_nonce; rewrite Hm2; reflexivity).
    assert (Glen : zlen (nft_dst i) = zlen (i_caller i)) by (apply N.eqb_eq; exact G1).
    assert (Gmeta : shard_of E (nft_dst i) <> META).
    { intros Heq. unfold nft_dst in Heq. rewrite Heq, N.eqb_refl in G3. discriminate. }
    assert (Ggas : (g_ESDTNFTTransfer (gas E) <= i_gas i)%N) by lia.
    assert (Gnonce : nft_nonce i <> 0%N).
    { intros Heq. unfold nft_nonce in Heq. rewrite Heq in G5. discriminate. }
    assert (Gcopy : (mul64 (zlen (enc_tok (cdc E) (nft_travel i t s))) (g_DataCopyPerByte (gas E))
                   <= sub64 (i_gas i) (g_ESDTNFTTransfer (gas E)))%N) by lia.
    exists t.
    (* now assemble, by cases on the shard relation *)
    destruct (nft_same i) eqn:Esame.
    - destruct Hcredit as (s2a & s2b & Hr1 & Hr2 & Hadd).
      apply antd_obs in Hadd; [|apply wf_set_value; exact db_wf0]. cbv zeta in Hadd.
      rewrite val_or_0_set_value, tok_nonce_set_value in Hadd. fold (nft_full i t) in Hadd.
      cbn [set_value t_props] in Hadd.
      assert (Hb2a : balance E s2a (nft_dst i) (nft_full i t) = balance E s (nft_dst i) (nft_full i t))
        by (rewrite (rd_balance E _ _ _ _ Hr1); exact Hbal_dst).
      rewrite Hb2a in Hadd.
      destruct Hadd as (_ & _ & Apay & Aval & Ahash & Afl & _ & Atok & Abal & Aue & Atch & Anf & Aal).
      assert (Hr34 : rd E s2b s4) by (eapply rd_trans; eauto).
      assert (Hta : forall cur, tok_at E s (nft_dst i) (nft_full i t) = Some cur -> tok_at E s2a (nft_dst i) (nft_full i t) = Some cur).
      { intros cur Hcur. rewrite (rd_tok_at E _ _ _ _ Hr1). rewrite (ue_tok_at E _ _ _ _ db_frame0); [exact Hcur|].
        intros [? _]. congruence. }
      constructor; try assumption.
      + exists s2. split; [exact Hdeb|intros Hx; rewrite Esame in Hx; discriminate Hx].
      + rewrite (rd_tok_at E _ _ _ _ Hr34). rewrite (ue_tok_at E _ _ _ _ Aue) by (intros [? _]; congruence).
        rewrite (rd_tok_at E _ _ _ _ Hr1). exact db_tok_at0.
      + rewrite (rd_balance E _ _ _ _ Hr34). rewrite (ue_balance E _ _ _ _ Aue) by (intros [? _]; congruence).
        rewrite (rd_balance E _ _ _ _ Hr1). exact db_balance0.
      + intros _. change nft_min with 4%N in Apay. exact Apay.
      + intros _ cur Hcur. apply (Aval cur). apply Hta. exact Hcur.
      + intros _ cur cm Hcur Hcm. destruct (Ahash cur cm (Hta _ Hcur) Hcm) as (m' & Hm' & Hh).
        rewrite t_meta_set_value in Hm'. eauto.
      + intros _ h1 h2. destruct (Afl h1 h2) as (F1 & F2 & P1 & P2).
        rewrite (rd_frozen_at E _ _ _ _ Hr1) in F1.
        rewrite (ue_frozen_at E _ _ _ _ db_frame0) in F1 by (intros [? _]; congruence).
        rewrite (rd_paused_at E _ _ _ Hr1) in P1. rewrite (rd_paused_at E _ _ _ Hr1) in P2.
        split; [exact F1|]. split; [exact F2|].
        destruct (beqb_spec (i_caller i) SYS) as [Hsys|Hnsys].
        * destruct (db_flags0 h1) as (_ & _ & Q1 & Q2); [rewrite Hsys; intros Hx; apply SC_ne_SYS; auto|]. auto.
        * rewrite (ue_paused_at _ _ _ _ db_frame0) in P1 by (intros [? _]; apply Hnsys; auto).
          rewrite (ue_paused_at _ _ _ _ db_frame0) in P2 by (intros [? _]; apply Hnsys; auto). auto.
      + intros _. rewrite (rd_tok_at E _ _ _ _ Hr34). rewrite Atok. unfold nft_travel. rewrite Esame. reflexivity.
      + intros _. rewrite (rd_balance E _ _ _ _ Hr34). exact Abal.
      + eapply unchanged_except_trans.
        { eapply unchanged_except_weaken; [| |exact db_frame0]; [|auto]. intros a k [-> ->]. split; auto. }
        eapply unchanged_except_trans; [apply (rd_unchanged E _ _ _ _ Hr1)|].
        eapply unchanged_except_trans; [|apply (rd_unchanged E _ _ _ _ Hr34)].
        eapply unchanged_except_weaken; [| |exact Aue]; [|auto]. intros a k [-> ->]. split; auto.
      + intros L HL Hi1 Hi2. eapply touches_trans; [apply db_touches0; auto|].
        eapply touches_trans; [eapply touches_rd; eauto|].
        eapply touches_trans; [apply Atch; auto|eapply touches_rd; eauto].
      + eapply nofault_trans; [exact db_nofault0|]. eapply nofault_trans; [eapply rd_nofault; eauto|].
        eapply nofault_trans; [exact Anf|eapply rd_nofault; eauto].
      + rewrite (rd_allocs E _ _ Hr34), Aal, (rd_allocs E _ _ Hr1). exact db_allocs0.
      + unfold nft_sender_out. cbv zeta. rewrite Esame, Htn. reflexivity.
    - subst s3.
      constructor; try assumption; try (intros Hx; rewrite Esame in Hx; discriminate Hx).
      + exists s2. split; [exact Hdeb|intros _; exact Hrd4].
      + rewrite (rd_tok_at E _ _ _ _ Hrd4). exact db_tok_at0.
      + rewrite (rd_balance E _ _ _ _ Hrd4). exact db_balance0.
      + eapply unchanged_except_trans; [|apply (rd_unchanged E _ _ _ _ Hrd4)].
        eapply unchanged_except_weaken; [| |exact db_frame0]; [|auto]. intros a k [-> ->]. split; auto.
      + intros L HL Hi1 _. eapply touches_trans; [apply db_touches0; auto|eapply touches_rd; eauto].
      + eapply nofault_trans; [exact db_nofault0|eapply rd_nofault; eauto].
      + rewrite (rd_allocs E _ _ Hrd4). exact db_allocs0.
      + unfold nft_sender_out. cbv zeta. rewrite Esame, Htn. reflexivity.
  Qed.

  (* ================================================================ *)
  (* destination side                                                   *)
  (* ================================================================ *)
  Record nft_dst_post (i : input) (t : token) (s : mstate) (o : output) (s' : mstate) : Prop := {
    nd_snd : i_snd i = false;
    nd_dst : i_dst i = true;
    nd_ne : i_caller i <> i_rcpt i;
    nd_dec : dec_tok (cdc E) (argn i 3) = Some t;
    nd_wf : wf_token t;
    nd_meta : exists m, t_meta t = Some m;
    nd_value : t_value t = Some (val_or_0 t);
    nd_payable : must_verify_payable i 4 = true -> payable E (i_rcpt i) = PayYes;
    nd_cur_value : forall cur, tok_at E s (i_rcpt i) (nft_full i t) = Some cur -> t_value cur <> None;
    nd_hash : forall cur cm, tok_at E s (i_rcpt i) (nft_full i t) = Some cur -> t_meta cur = Some cm ->
                exists m, t_meta t = Some m /\ md_hash cm = md_hash m;
    nd_flags : i_rae i = false -> i_rcpt i <> SC ->
       frozen_at E s (i_rcpt i) (nft_full i t) = false /\ frozen_props (t_props t) = false
       /\ paused_at s (nft_tkey i) = false /\ paused_at s (nft_full i t) = false;
    nd_tok_at : tok_at E s' (i_rcpt i) (nft_full i t) =
       (if (val_or_0 t + balance E s (i_rcpt i) (nft_full i t) <=? 0)%Z then None
        else Some (set_value t (Some (val_or_0 t + balance E s (i_rcpt i) (nft_full i t))%Z)));
    nd_balance : balance E s' (i_rcpt i) (nft_full i t) = Z.max 0 (val_or_0 t + balance E s (i_rcpt i) (nft_full i t));
    nd_frame : unchanged_except (fun a k => a = i_rcpt i /\ k = nft_full i t) (fun _ => False) s s';
    nd_touches : forall L, NoDup L -> In (i_rcpt i) L -> touches L s s';
    nd_nofault : nofault E s s';
    nd_allocs : allocs s' = allocs s;
    nd_out : o = nft_dest_out i t }.

  (* the recipient-side tail shared with the statement of f_nft_transfer *)
  Lemma nft_transfer_dest_spec i s o s' : (4 <= alen (i_args i))%N -> i_caller i <> i_rcpt i ->
    (guard (negb (i_snd i)) EInvalidRcvAddr ;;;
     guard (i_dst i) EInvalidRcvAddr ;;;
     tok <- arg (i_args i) 0 ;; payload <- arg (i_args i) 3 ;;
     t <- unmarshal_tok E payload ;;
     _ <- add_nft_to_destination E (i_rcpt i) (P ++ tok) t (must_verify_payable i nft_min) (i_rae i) ;;
     o <- (if ((nft_min <? alen (i_args i))%N && is_sc (i_rcpt i))%bool then
             fn <- arg (i_args i) nft_min ;;
             callArgs <- (if (nft_min + 1 <? alen (i_args i))%N then args_from (i_args i) (nft_min + 1) else ret []) ;;
             ret (add_output_transfer (i_caller i) fn callArgs (i_rcpt i) (i_gasLocked i) (i_callType i) (mk_out rcOk (i_gas i)))
           else ret (mk_out rcOk (i_gas i))) ;;
     m <- meta_of t ;;
     ret (add_log o (log_nft C.BuiltInFunctionESDTNFTTransfer (i_caller i) tok (md_nonce m) [i_rcpt i]))) s = (Ok o, s') ->
    exists t, nft_dst_post i t s o s'.
  Proof.
    intros Hlen Hne H.
    apply bind_ok in H as (u0 & s0 & H0 & H). apply guard_ok in H0 as [G1 ->].
    apply bind_ok in H as (u1 & s0 & H0 & H). apply guard_ok in H0 as [G2 ->].
    apply bind_ok in H as (tok & s0 & H0 & H). apply arg_ok in H0 as (Htok & _ & ->).
    change (N.to_nat 0) with 0%nat in Htok. apply nth_error_argn in Htok. subst tok.
    apply bind_ok in H as (payload & s0 & H0 & H). apply arg_ok in H0 as (Hp & _ & ->).
    change (N.to_nat 3) with 3%nat in Hp. apply nth_error_argn in Hp. subst payload.
    apply bind_ok in H as (t & s1 & H0 & H). apply unmarshal_tok_ok in H0 as [Hdec Hrd].
    assert (Hwf : wf_token t) by (eapply (dec_tok_wf _ Hc); eauto).
    apply bind_ok in H as (t' & s2 & Hadd & H).
    apply bind_ok in H as (o1 & s3 & Ho1 & H).
    apply bind_ok in H as (m & s4 & H0 & H). apply meta_of_ok in H0 as [Hm ->]. apply ret_ok in H as [-> ->].
    change nft_min with 4%N in *. fold (nft_tkey i) in Hadd.
    assert (Hout : s3 = s2 /\ o1 =
       (if nft_call_after i (i_rcpt i) then
          add_output_transfer (i_caller i) (argn i 4) (skipn 5 (i_args i)) (i_rcpt i) (i_gasLocked i) (i_callType i) (mk_out rcOk (i_gas i))
        else mk_out rcOk (i_gas i))).
    { unfold nft_call_after. destruct ((4 <? alen (i_args i))%N && is_sc (i_rcpt i))%bool.
      - apply bind_ok in Ho1 as (fn & s7 & H1 & Ho1). apply arg_ok in H1 as (Hfn & Hlt & ->).
        change (N.to_nat 4) with 4%nat in Hfn. apply nth_error_argn in Hfn. subst fn.
        apply bind_ok in Ho1 as (callArgs & s7 & H1 & Ho1).
        assert (Hca : callArgs = skipn 5 (i_args i) /\ s7 = s2).
        { destruct (4 + 1 <? alen (i_args i))%N eqn:E5.
          - apply args_from_ok in H1 as (_ & -> & ->). split; reflexivity.
          - apply ret_ok in H1 as [-> ->]. split; [|reflexivity]. symmetry. apply skipn_all2. unfold alen in *. lia. }
        destruct Hca as [-> ->]. apply ret_ok in Ho1 as [-> ->]. split; reflexivity.
      - apply ret_ok in Ho1 as [-> ->]. split; reflexivity. }
    destruct Hout as [-> ->]. clear Ho1.
    apply antd_obs in Hadd; [|exact Hwf]. cbv zeta in Hadd. fold (nft_full i t) in Hadd.
    rewrite (rd_balance E _ _ _ _ Hrd) in Hadd.
    destruct Hadd as (Av & _ & Apay & Aval & Ahash & Afl & _ & Atok & Abal & Aue & Atch & Anf & Aal).
    exists t. constructor; try assumption.
    - destruct (i_snd i); [discriminate|reflexivity].
    - exists m. exact Hm.
    - unfold val_or_0. destruct (t_value t); [reflexivity|congruence].
    - intros cur Hcur. apply (Aval cur). rewrite (rd_tok_at E _ _ _ _ Hrd). exact Hcur.
    - intros cur cm Hcur. apply (Ahash cur cm). rewrite (rd_tok_at E _ _ _ _ Hrd). exact Hcur.
    - intros h1 h2. destruct (Afl h1 h2) as (F1 & F2 & P1 & P2).
      rewrite (rd_frozen_at E _ _ _ _ Hrd) in F1. rewrite (rd_paused_at E _ _ _ Hrd) in P1. rewrite (rd_paused_at E _ _ _ Hrd) in P2. auto.
    - eapply unchanged_except_trans; [apply (rd_unchanged E _ _ _ _ Hrd)|exact Aue].
    - intros L HL Hin. eapply touches_trans; [eapply touches_rd; eauto|apply Atch; auto].
    - eapply nofault_trans; [eapply rd_nofault; eauto|exact Anf].
    - rewrite Aal. apply (rd_allocs E _ _ Hrd).
    - unfold nft_dest_out. cbv zeta. unfold tok_nonce at 1. rewrite Hm. reflexivity.
  Qed.

  (* ================================================================ *)
  (* the whole function                                                 *)
  (* ================================================================ *)
  Theorem nft_transfer_spec i s o s' : f_nft_transfer E i s = (Ok o, s') ->
    i_value i = 0%Z /\ (4 <= alen (i_args i))%N
    /\ (if beqb (i_caller i) (i_rcpt i) then exists t, nft_snd_post i t s o s'
        else exists t, nft_dst_post i t s o s').
  Proof.
    unfold f_nft_transfer. cbv zeta. intros H.
    apply bind_ok in H as (u0 & s0 & H0 & H). apply check_basic_ok in H0 as (Hv & _ & ->).
    apply bind_ok in H as (u1 & s0 & H0 & H). apply guard_ok in H0 as [Hn ->].
    assert (Hlen : (4 <= alen (i_args i))%N) by lia.
    split; [exact Hv|]. split; [exact Hlen|].
    destruct (beqb_spec (i_caller i) (i_rcpt i)) as [Heq|Hne].
    - apply nft_transfer_sender_spec; assumption.
    - apply nft_transfer_dest_spec; assumption.
  Qed.
End Nft.
