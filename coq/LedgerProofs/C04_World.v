(* C04 at world level: the frozen / paused gate theorems of C04_Core.v lifted to the node model (Ledger/World.v):
   calls, deliveries, re-deliveries and refunds on any shard, and whole histories.

   Vocabulary.  [op_exec c w op] (C07_World) is the call (shard, function, input) the operation attempts, [wst w sh]
   the state of shard sh; a step changes accounts only if that call succeeds, and then only on that shard
   ([wstep_exec_cases]).  Observables of one shard of a world:
     shbal c w sh a k     balance of account a under storage key k on shard sh
     shfrozen c w sh a k  frozen flag of that entry          shpaused w sh k   pause flag of key k on shard sh
     shcell w sh a k      raw cell

   Part 0 (exec level, any environment): what a call must NOT be for a paused token / frozen entry to stay so
     pause_quiet a x tok f i    /  paused_interval_exec      flag kept AND balance of (a, P ++ x) kept
     freeze_quiet E a x s f i   /  frozen_interval_exec
   Part 1 (one world step, all four kinds of operation)
     wstep_paused_no_balance_change / wstep_paused_entry_untouched / wstep_frozen_no_balance_change /
     wstep_frozen_entry_untouched, wstep_paused_delivery (no flag hypothesis needed: a delivered input is never
     flagged return-after-error), wstep_refund_effect (refunds run WITH the flag: exactly what they do)
   Part 2 (histories)
     along Q sh w ops           every call that SUCCEEDS on shard sh along the run satisfies Q (pre-state, fn, input);
     along_b                    its decider
     wrun_paused_interval(_all, _valid_ids), wrun_frozen_interval, pause_interval_unpause
   Part 3: a two-shard non-vacuity history. *)
From Coq.Strings Require Import String.
From Coq Require Import Lia List.
From EV Require Import Base.Bytes Base.Store Base.Monad gen.Consts Codec.Types Codec.Ideal Codec.CodecOk Helpers.Helpers
  Ledger.Types Ledger.Env Ledger.Funcs Ledger.Transfers Ledger.World
  LedgerProofs.Defs LedgerProofs.EnvSpec LedgerProofs.WorldDefs LedgerProofs.WorldSpec
  LedgerProofs.Spec_Transfers_Base LedgerProofs.Spec_Supply LedgerProofs.Spec_System
  LedgerProofs.C01_World LedgerProofs.C01_Step LedgerProofs.C01_Exact LedgerProofs.C01_Consistent LedgerProofs.C01_Check
  LedgerProofs.ValidIds_Id LedgerProofs.C04_Core LedgerProofs.C07_World LedgerProofs.C01_Examples.
Import ListNotations.

(* ================================================================================================ *)
(* Part 0: exec level                                                                                 *)
(* ================================================================================================ *)
(* no identifier the call names, other than tok itself, is a prefix of x (key aliasing; never the case among
   identifiers of the protocol's shape: valid_ids_alias_free) *)
Definition alias_free (x tok f : bytes) (i : input) : Prop :=
  forall tok2 r, In tok2 (named_tokens f i) -> x = tok2 ++ r -> tok2 = tok.

(* what a successful call must not be, for "tok is paused" and the balance of account a under P ++ x to survive it *)
Definition pause_quiet_core (a x tok f : bytes) (i : input) : Prop :=
  i_rae i = false
  /\ ~ (f = C.BuiltInFunctionESDTUnPause /\ argn i 0 = tok)
  /\ ~ (f = C.BuiltInFunctionESDTWipe /\ ((a = i_rcpt i /\ x = argn i 0) \/ (i_rcpt i = SYS /\ argn i 0 = tok)))
  /\ ~ ((f = C.BuiltInFunctionESDTPause \/ f = C.BuiltInFunctionESDTUnPause) /\ a = SYS /\ x = argn i 0)
  /\ ~ ((f = C.BuiltInFunctionESDTFreeze \/ f = C.BuiltInFunctionESDTUnFreeze) /\ i_rcpt i = SYS /\ argn i 0 = tok).
Definition pause_quiet (a x tok f : bytes) (i : input) : Prop := pause_quiet_core a x tok f i /\ alias_free x tok f i.
(* the same for every account at once (forbids a second ESDTPause of x itself: F8) *)
Definition pause_quiet_all (x tok f : bytes) (i : input) : Prop :=
  i_rae i = false
  /\ ~ (f = C.BuiltInFunctionESDTUnPause /\ argn i 0 = tok)
  /\ ~ (f = C.BuiltInFunctionESDTWipe /\ (argn i 0 = x \/ argn i 0 = tok))
  /\ ~ ((f = C.BuiltInFunctionESDTPause \/ f = C.BuiltInFunctionESDTUnPause) /\ argn i 0 = x)
  /\ ~ ((f = C.BuiltInFunctionESDTFreeze \/ f = C.BuiltInFunctionESDTUnFreeze) /\ i_rcpt i = SYS /\ argn i 0 = tok)
  /\ alias_free x tok f i.
Lemma pause_quiet_all_each x tok f i : pause_quiet_all x tok f i -> forall a, pause_quiet a x tok f i.
Proof.
  intros (H1 & H2 & H3 & H4 & H5 & H6) a. split; [|exact H6]. split; [exact H1|]. split; [exact H2|].
  split; [|split; [|exact H5]].
  - intros (Hf & [[_ Hx]|[_ Hx]]); apply H3; (split; [exact Hf|]); [left; symmetry; exact Hx|right; exact Hx].
  - intros (Hf & _ & Hx). apply H4. split; [exact Hf|symmetry; exact Hx].
Qed.

Lemma valid_ids_alias_free tok r f i :
  valid_id tok -> Forall valid_id (named_tokens f i) -> alias_free (tok ++ r) tok f i.
Proof.
  intros Hv Hall tok2 r2 Hin Hx. rewrite Forall_forall in Hall.
  destruct (valid_id_unique _ _ _ _ Hv (Hall _ Hin) Hx) as [-> _]. reflexivity.
Qed.

(* deciders *)
Definition alias_free_b (x tok f : bytes) (i : input) : bool :=
  forallb (fun tok2 => negb (prefix_of tok2 x) || beqb tok2 tok) (named_tokens f i).
Lemma alias_free_b_ok x tok f i : alias_free_b x tok f i = true -> alias_free x tok f i.
Proof.
  unfold alias_free_b. rewrite forallb_forall. intros H tok2 r Hin Hx. specialize (H _ Hin).
  subst x. rewrite prefix_of_app in H. cbn [negb orb] in H. apply beqb_true. exact H.
Qed.
Definition pause_fn (f : bytes) : bool := beqb f C.BuiltInFunctionESDTPause || beqb f C.BuiltInFunctionESDTUnPause.
Definition freeze_fn (f : bytes) : bool := beqb f C.BuiltInFunctionESDTFreeze || beqb f C.BuiltInFunctionESDTUnFreeze.
Lemma pause_fn_ok f : f = C.BuiltInFunctionESDTPause \/ f = C.BuiltInFunctionESDTUnPause -> pause_fn f = true.
Proof. unfold pause_fn. intros [-> | ->]; rewrite beqb_refl; rewrite ?Bool.orb_true_r; reflexivity. Qed.
Lemma freeze_fn_ok f : f = C.BuiltInFunctionESDTFreeze \/ f = C.BuiltInFunctionESDTUnFreeze -> freeze_fn f = true.
Proof. unfold freeze_fn. intros [-> | ->]; rewrite beqb_refl; rewrite ?Bool.orb_true_r; reflexivity. Qed.

Definition pause_quiet_b (a x tok f : bytes) (i : input) : bool :=
  negb (i_rae i)
  && negb (beqb f C.BuiltInFunctionESDTUnPause && beqb (argn i 0) tok)
  && negb (beqb f C.BuiltInFunctionESDTWipe
           && ((beqb a (i_rcpt i) && beqb x (argn i 0)) || (beqb (i_rcpt i) SYS && beqb (argn i 0) tok)))
  && negb (pause_fn f && beqb a SYS && beqb x (argn i 0))
  && negb (freeze_fn f && beqb (i_rcpt i) SYS && beqb (argn i 0) tok)
  && alias_free_b x tok f i.
Lemma pause_quiet_b_ok a x tok f i : pause_quiet_b a x tok f i = true -> pause_quiet a x tok f i.
Proof.
  unfold pause_quiet_b. intros H.
  apply andb_prop in H as [H H6]. apply andb_prop in H as [H H5]. apply andb_prop in H as [H H4].
  apply andb_prop in H as [H H3]. apply andb_prop in H as [H1 H2].
  split; [|apply alias_free_b_ok; exact H6].
  split; [destruct (i_rae i); [discriminate|reflexivity]|].
  split; [intros [-> <-]; rewrite !beqb_refl in H2; discriminate|].
  split; [|split].
  - intros [-> [[-> ->]|[Hs <-]]]; [|rewrite Hs in H3]; rewrite !beqb_refl in H3; cbn in H3;
      rewrite ?Bool.orb_true_r in H3; discriminate.
  - intros (Hf & -> & ->). rewrite (pause_fn_ok _ Hf), !beqb_refl in H4. discriminate.
  - intros (Hf & Hs & <-). rewrite (freeze_fn_ok _ Hf), Hs, !beqb_refl in H5. discriminate.
Qed.
Definition pause_quiet_all_b (x tok f : bytes) (i : input) : bool :=
  negb (i_rae i)
  && negb (beqb f C.BuiltInFunctionESDTUnPause && beqb (argn i 0) tok)
  && negb (beqb f C.BuiltInFunctionESDTWipe && (beqb (argn i 0) x || beqb (argn i 0) tok))
  && negb (pause_fn f && beqb (argn i 0) x)
  && negb (freeze_fn f && beqb (i_rcpt i) SYS && beqb (argn i 0) tok)
  && alias_free_b x tok f i.
Lemma pause_quiet_all_b_ok x tok f i : pause_quiet_all_b x tok f i = true -> pause_quiet_all x tok f i.
Proof.
  unfold pause_quiet_all_b. intros H.
  apply andb_prop in H as [H H6]. apply andb_prop in H as [H H5]. apply andb_prop in H as [H H4].
  apply andb_prop in H as [H H3]. apply andb_prop in H as [H1 H2].
  split; [destruct (i_rae i); [discriminate|reflexivity]|].
  split; [intros [-> <-]; rewrite !beqb_refl in H2; discriminate|].
  split; [|split; [|split; [|apply alias_free_b_ok; exact H6]]].
  - intros [-> [<-|<-]]; rewrite !beqb_refl in H3; cbn in H3; rewrite ?Bool.orb_true_r in H3; discriminate.
  - intros (Hf & <-). rewrite (pause_fn_ok _ Hf), !beqb_refl in H4. discriminate.
  - intros (Hf & Hs & <-). rewrite (freeze_fn_ok _ Hf), Hs, !beqb_refl in H5. discriminate.
Qed.

Section ExecInterval.
  Variable E : env.
  Hypothesis Hc : codec_ok (cdc E).

  (* a paused token stays paused and the balance of (a, P ++ tok ++ r) stays what it is, through every successful call
     that is pause_quiet *)
  Theorem paused_interval_exec f i s o s' a tok r :
    exec E f i s = (Ok o, s') -> a <> SC -> paused_at s (P ++ tok) = true ->
    pause_quiet a (tok ++ r) tok f i ->
    paused_at s' (P ++ tok) = true /\ balance E s' a (P ++ tok ++ r) = balance E s a (P ++ tok ++ r).
  Proof.
    intros H Ha Hp ((Hr & Nu & Nw & N8 & Nf) & Hal).
    assert (HapX : all_paused (named_tokens f i) s (tok ++ r)).
    { intros tok2 r2 Hin Hx. rewrite (Hal tok2 r2 Hin Hx). exact Hp. }
    assert (HapT : all_paused (named_tokens f i) s tok).
    { intros tok2 r2 Hin Hx. rewrite (Hal tok2 (r2 ++ r) Hin); [exact Hp|]. rewrite Hx, app_assoc. reflexivity. }
    assert (Hfz : forall fz, f_freeze_wipe E fz false i s = (Ok o, s') ->
                  (f = C.BuiltInFunctionESDTFreeze \/ f = C.BuiltInFunctionESDTUnFreeze) ->
                  paused_at s' (P ++ tok) = true).
    { intros fz Hx Hf. apply (freeze_spec E Hc) in Hx as (_ & tk & t & Hargs & _ & _ & _ & _ & _ & _ & _ & [Hu _] & _).
      rewrite <- Hp. apply cell_paused_at. apply Hu. intros [Hs Hk]. apply P_app_inj in Hk. apply Nf.
      split; [exact Hf|]. split; [symmetry; exact Hs|]. rewrite (argn0_single _ _ Hargs). symmetry. exact Hk. }
    split.
    - destruct (beqb_spec f C.BuiltInFunctionESDTFreeze) as [->|N1].
      { rewrite exec_freeze in H. eapply Hfz; [exact H|left; reflexivity]. }
      destruct (beqb_spec f C.BuiltInFunctionESDTUnFreeze) as [->|N2].
      { rewrite exec_unfreeze in H. eapply Hfz; [exact H|right; reflexivity]. }
      destruct (beqb_spec f C.BuiltInFunctionESDTPause) as [->|N3].
      { destruct (beqb_spec (argn i 0) tok) as [Ht|Hnt].
        - rewrite exec_pause in H. apply pause_spec in H as (_ & tk & Hargs & _ & _ & Hpa & _).
          rewrite (argn0_single _ _ Hargs) in Ht. subst tk. exact Hpa.
        - rewrite <- Hp. apply cell_paused_at. eapply pause_cells; [exact H|left; reflexivity|].
          intros [_ Hk]. apply Hnt. symmetry. exact Hk. }
      rewrite <- Hp. apply cell_paused_at.
      apply (paused_entry_untouched E Hc f i s o s' SYS tok H Hr (fun e => SC_ne_SYS (eq_sym e)) N1 N2).
      + intros (Hf & Hs & Hk). apply Nw. split; [exact Hf|]. right. split; symmetry; assumption.
      + intros ([Hf|Hf] & _ & Hk); [exact (N3 Hf)|]. apply Nu. split; [exact Hf|symmetry; exact Hk].
      + exact HapT.
    - apply (paused_no_balance_change E Hc f i s o s' a (tok ++ r) H Hr Ha).
      + intros (Hf & Hs & Hk). apply Nw. split; [exact Hf|]. left. split; assumption.
      + exact N8.
      + exact HapX.
  Qed.

  (* what a successful call must not be, for "the entry (a, P ++ x) is frozen" and its balance to survive it *)
  Definition freeze_quiet (a x : bytes) (s : mstate) (f : bytes) (i : input) : Prop :=
    i_rae i = false
    /\ lookups_consistent E f i s
    /\ ~ ((f = C.BuiltInFunctionESDTUnFreeze \/ f = C.BuiltInFunctionESDTWipe) /\ a = i_rcpt i /\ x = argn i 0)
    /\ ~ ((f = C.BuiltInFunctionESDTPause \/ f = C.BuiltInFunctionESDTUnPause) /\ a = SYS /\ x = argn i 0)
    /\ ~ (f = C.BuiltInFunctionESDTNFTCreate /\ a = i_caller i /\ x = argn i 0 ++ u64_bytes (create_nonce i s)).

  Theorem frozen_interval_exec f i s o s' a x :
    exec E f i s = (Ok o, s') -> a <> SC -> frozen_at E s a (P ++ x) = true ->
    freeze_quiet a x s f i ->
    frozen_at E s' a (P ++ x) = true /\ balance E s' a (P ++ x) = balance E s a (P ++ x).
  Proof.
    intros H Ha Hfr (Hr & Hl & Nuw & N8 & Ncr).
    assert (Hcell : cell s' a (P ++ x) = cell s a (P ++ x) ->
                    frozen_at E s' a (P ++ x) = true /\ balance E s' a (P ++ x) = balance E s a (P ++ x)).
    { intros Hce. split; [rewrite <- Hfr; apply cell_frozen_at; exact Hce|apply cell_balance; exact Hce]. }
    destruct (beqb_spec f C.BuiltInFunctionESDTFreeze) as [->|N1].
    { rewrite exec_freeze in H.
      apply (freeze_spec E Hc) in H as (_ & tk & t & Hargs & _ & _ & _ & _ & _ & Hb & Hf & [Hu _] & _).
      destruct (beqb_spec a (i_rcpt i)) as [->|Hna]; [destruct (beqb_spec x tk) as [->|Hnx]|].
      - split; [exact Hf|exact Hb].
      - apply Hcell. apply Hu. intros [_ Hk]. apply P_app_inj in Hk. exact (Hnx Hk).
      - apply Hcell. apply Hu. intros [Hs _]. exact (Hna Hs). }
    destruct (beqb_spec f C.BuiltInFunctionESDTUnFreeze) as [->|N2].
    { rewrite exec_unfreeze in H.
      apply (freeze_spec E Hc) in H as (_ & tk & t & Hargs & _ & _ & _ & _ & _ & _ & _ & [Hu _] & _).
      apply Hcell. apply Hu. intros [Hs Hk]. apply P_app_inj in Hk. apply Nuw.
      split; [left; reflexivity|]. split; [exact Hs|]. rewrite (argn0_single _ _ Hargs). exact Hk. }
    apply Hcell. apply (frozen_entry_untouched E Hc f i s o s' a x H Hfr Hr Ha Hl N1 N2).
    - intros (Hf & Hs & Hk). apply Nuw. split; [right; exact Hf|]. split; assumption.
    - exact N8.
    - exact Ncr.
  Qed.

  Definition lookups_consistent_b (f : bytes) (i : input) (s : mstate) : bool :=
    forallb (fun p => lookup_consistent_b E s (i_caller i) (P ++ fst p) (snd p)) (sender_lookups f i).
  Lemma lookups_consistent_b_ok f i s : lookups_consistent_b f i s = true -> lookups_consistent E f i s.
  Proof.
    unfold lookups_consistent_b, lookups_consistent. rewrite forallb_forall. intros H. apply Forall_forall.
    intros p Hp. apply lookup_consistent_b_ok. apply H. exact Hp.
  Qed.
  Definition freeze_quiet_b (a x : bytes) (s : mstate) (f : bytes) (i : input) : bool :=
    negb (i_rae i)
    && lookups_consistent_b f i s
    && negb ((beqb f C.BuiltInFunctionESDTUnFreeze || beqb f C.BuiltInFunctionESDTWipe)
             && beqb a (i_rcpt i) && beqb x (argn i 0))
    && negb (pause_fn f && beqb a SYS && beqb x (argn i 0))
    && negb (beqb f C.BuiltInFunctionESDTNFTCreate && beqb a (i_caller i)
             && beqb x (argn i 0 ++ u64_bytes (create_nonce i s))).
  Lemma freeze_quiet_b_ok a x s f i : freeze_quiet_b a x s f i = true -> freeze_quiet a x s f i.
  Proof.
    unfold freeze_quiet_b. intros H.
    apply andb_prop in H as [H H5]. apply andb_prop in H as [H H4]. apply andb_prop in H as [H H3].
    apply andb_prop in H as [H1 H2].
    split; [destruct (i_rae i); [discriminate|reflexivity]|].
    split; [apply lookups_consistent_b_ok; exact H2|].
    split; [|split].
    - intros ([-> | ->] & -> & ->); rewrite !beqb_refl in H3; cbn in H3; rewrite ?Bool.orb_true_r in H3; discriminate.
    - intros (Hf & -> & ->). rewrite (pause_fn_ok _ Hf), !beqb_refl in H4. discriminate.
    - intros (-> & -> & ->). rewrite !beqb_refl in H5. discriminate.
  Qed.
End ExecInterval.

(* ================================================================================================ *)
(* Part 1: one world step                                                                             *)
(* ================================================================================================ *)
Definition shcell (w : world) (sh : N) (a k : bytes) : bytes := cell (wst w sh) a k.
Definition shpaused (w : world) (sh : N) (k : bytes) : bool := paused_at (wst w sh) k.

Section World.
  Variable c : wcfg.
  Hypothesis Hc : codec_ok (wc_cdc c).
  Notation shof := (wc_shard_of c).

  Definition shbal (w : world) (sh : N) (a k : bytes) : Z := balance (env_at c sh) (wst w sh) a k.
  Definition shfrozen (w : world) (sh : N) (a k : bytes) : bool := frozen_at (env_at c sh) (wst w sh) a k.

  (* a step leaves the accounts of shard sh alone, or it commits the post-state of ONE successful call on sh *)
  Lemma wstep_exec_cases w op sh :
    shard_accts (wstep c w op) sh = shard_accts w sh
    \/ exists fn i o s', op_exec c w op = Some (sh, fn, i)
         /\ exec (env_at c sh) fn i (wst w sh) = (Ok o, s')
         /\ shard_accts (wstep c w op) sh = accts s'.
  Proof.
    pose proof (wstep_shape c w op) as H.
    destruct (op_exec c w op) as [[[sh0 fn] i]|] eqn:Eop.
    - destruct H as [_ H]. destruct (exec (env_at c sh0) fn i (wst w sh0)) as [[o|e|] s'] eqn:Ex.
      + destruct H as [Hs _]. destruct (N.eq_dec sh sh0) as [->|Hne].
        * destruct (Nat.lt_ge_cases (N.to_nat sh0) (length (shards w))) as [Hlt|Hge].
          -- right. exists fn, i, o, s'. split; [reflexivity|]. split; [exact Ex|].
             unfold shard_accts. rewrite Hs. apply nth_set_nth_eq. exact Hlt.
          -- left. unfold shard_accts. rewrite Hs. rewrite set_nth_out by exact Hge. reflexivity.
        * left. unfold shard_accts. rewrite Hs. apply nth_set_nth_ne. intros Heq. apply Hne.
          apply N2Nat.inj. symmetry. exact Heq.
      + left. destruct H as [Hs _]. unfold shard_accts. rewrite Hs. reflexivity.
      + left. destruct H as [Hs _]. unfold shard_accts. rewrite Hs. reflexivity.
    - left. destruct H as [Hs _]. unfold shard_accts. rewrite Hs. reflexivity.
  Qed.

  Lemma wst_accts w w' sh : shard_accts w' sh = shard_accts w sh -> accts (wst w' sh) = accts (wst w sh).
  Proof. unfold wst, mk_state. cbn [accts]. auto. Qed.
  Lemma wst_accts_of w' sh (s' : mstate) : shard_accts w' sh = accts s' -> accts (wst w' sh) = accts s'.
  Proof. unfold wst, mk_state. cbn [accts]. auto. Qed.

  (* an observable of the accounts of shard sh that no successful call of the step changes is not changed by the step *)
  Lemma wstep_obs {T} (obs : mstate -> T) w op sh :
    (forall s s', accts s' = accts s -> obs s' = obs s) ->
    (forall fn i o s', op_exec c w op = Some (sh, fn, i) -> exec (env_at c sh) fn i (wst w sh) = (Ok o, s') ->
                       obs s' = obs (wst w sh)) ->
    obs (wst (wstep c w op) sh) = obs (wst w sh).
  Proof.
    intros Hobs Hex. destruct (wstep_exec_cases w op sh) as [He|(fn & i & o & s' & Hop & Ex & He)].
    - apply Hobs. apply wst_accts. exact He.
    - rewrite <- (Hex _ _ _ _ Hop Ex). apply Hobs. apply wst_accts_of. exact He.
  Qed.
  (* a shard the step does not execute on is untouched (as C05_World.wstep_other_shards, in this vocabulary) *)
  Lemma wstep_other_shard w op sh : (forall fn i, op_exec c w op <> Some (sh, fn, i)) ->
    shard_accts (wstep c w op) sh = shard_accts w sh.
  Proof.
    intros Hn. destruct (wstep_exec_cases w op sh) as [He|(fn & i & o & s' & Hop & _)]; [exact He|].
    exfalso. exact (Hn _ _ Hop).
  Qed.

  (* ---- what the four kinds of operation execute ---- *)
  Lemma op_exec_call w sh0 fn0 i0 sh fn i : op_exec c w (OCall sh0 fn0 i0) = Some (sh, fn, i) -> sh = sh0 /\ fn = fn0 /\ i = i0.
  Proof. cbn [op_exec]. destruct (sh0 <? wc_nshards c)%N; [|discriminate]. intros [= <- <- <-]. auto. Qed.
  Lemma op_exec_deliver w id gas (re : bool) sh fn i :
    op_exec c w (if re then ORedeliver id gas else ODeliver id gas) = Some (sh, fn, i) ->
    exists m, find_msg (inflight w) id = Some m /\ sh = shof (m_dest m) /\ fn = m_fn m /\ i = deliver_input c m sh gas.
  Proof.
    assert (H : op_exec c w (if re then ORedeliver id gas else ODeliver id gas) = op_exec c w (ODeliver id gas))
      by (destruct re; reflexivity).
    rewrite H. cbn [op_exec]. destruct (find_msg (inflight w) id) as [m|]; [|discriminate]. cbv zeta.
    destruct (shof (m_dest m) <? wc_nshards c)%N; [|discriminate]. intros [= <- <- <-]. exists m. auto.
  Qed.
  Lemma op_exec_refund w id gas sh fn i : op_exec c w (ORefund id gas) = Some (sh, fn, i) ->
    exists m, find_msg (inflight w) id = Some m /\ nat_in id (failed w) = true
              /\ sh = shof (m_sender m) /\ fn = m_fn m /\ i = refund_input c m sh gas.
  Proof.
    cbn [op_exec]. destruct (find_msg (inflight w) id) as [m|]; [|discriminate]. cbv zeta.
    destruct (nat_in id (failed w)); cbn [andb]; [|discriminate].
    destruct (shof (m_sender m) <? wc_nshards c)%N; [|discriminate]. intros [= <- <- <-]. exists m. auto.
  Qed.
  (* deliveries never carry the return-after-error flag, refunds always do *)
  Lemma deliver_input_rae m sh gas : i_rae (deliver_input c m sh gas) = false. Proof. reflexivity. Qed.
  Lemma refund_input_rae m sh gas : i_rae (refund_input c m sh gas) = true. Proof. reflexivity. Qed.

  (* ---- PAUSED, one step ---- *)
  Theorem wstep_paused_no_balance_change w op a x :
    a <> SC ->
    (forall sh fn i o s', op_exec c w op = Some (sh, fn, i) -> exec (env_at c sh) fn i (wst w sh) = (Ok o, s') ->
       i_rae i = false
       /\ ~ (fn = C.BuiltInFunctionESDTWipe /\ a = i_rcpt i /\ x = argn i 0)
       /\ ~ ((fn = C.BuiltInFunctionESDTPause \/ fn = C.BuiltInFunctionESDTUnPause) /\ a = SYS /\ x = argn i 0)
       /\ all_paused (named_tokens fn i) (wst w sh) x) ->
    forall sh, shbal (wstep c w op) sh a (P ++ x) = shbal w sh a (P ++ x).
  Proof.
    intros Ha H sh. unfold shbal. apply (wstep_obs (fun s => balance (env_at c sh) s a (P ++ x))).
    - intros s s' Hs. apply balance_accts. exact Hs.
    - intros fn i o s' Hop Ex. destruct (H _ _ _ _ _ Hop Ex) as (H1 & H2 & H3 & H4).
      exact (paused_no_balance_change (env_at c sh) Hc fn i _ o s' a x Ex H1 Ha H2 H3 H4).
  Qed.
  Theorem wstep_paused_entry_untouched w op a x :
    a <> SC ->
    (forall sh fn i o s', op_exec c w op = Some (sh, fn, i) -> exec (env_at c sh) fn i (wst w sh) = (Ok o, s') ->
       i_rae i = false
       /\ fn <> C.BuiltInFunctionESDTFreeze /\ fn <> C.BuiltInFunctionESDTUnFreeze
       /\ ~ (fn = C.BuiltInFunctionESDTWipe /\ a = i_rcpt i /\ x = argn i 0)
       /\ ~ ((fn = C.BuiltInFunctionESDTPause \/ fn = C.BuiltInFunctionESDTUnPause) /\ a = SYS /\ x = argn i 0)
       /\ all_paused (named_tokens fn i) (wst w sh) x) ->
    forall sh, shcell (wstep c w op) sh a (P ++ x) = shcell w sh a (P ++ x).
  Proof.
    intros Ha H sh. unfold shcell. apply (wstep_obs (fun s => cell s a (P ++ x))).
    - intros s s' Hs. apply cell_accts. exact Hs.
    - intros fn i o s' Hop Ex. destruct (H _ _ _ _ _ Hop Ex) as (H1 & N1 & N2 & H2 & H3 & H4).
      exact (paused_entry_untouched (env_at c sh) Hc fn i _ o s' a x Ex H1 Ha N1 N2 H2 H3 H4).
  Qed.
  (* a call that names only tokens that are paused on the executing shard changes no token balance anywhere *)
  Corollary wstep_paused_call_changes_nothing w op :
    (forall sh fn i o s', op_exec c w op = Some (sh, fn, i) -> exec (env_at c sh) fn i (wst w sh) = (Ok o, s') ->
       i_rae i = false /\ fn <> C.BuiltInFunctionESDTWipe
       /\ fn <> C.BuiltInFunctionESDTPause /\ fn <> C.BuiltInFunctionESDTUnPause
       /\ forall tok, In tok (named_tokens fn i) -> paused_at (wst w sh) (P ++ tok) = true) ->
    forall sh a x, a <> SC -> shbal (wstep c w op) sh a (P ++ x) = shbal w sh a (P ++ x).
  Proof.
    intros H sh a x Ha. apply wstep_paused_no_balance_change; [exact Ha|].
    intros sh0 fn i o s' Hop Ex. destruct (H _ _ _ _ _ Hop Ex) as (H1 & H2 & H3 & H4 & H5).
    split; [exact H1|]. split; [intros [Hf _]; exact (H2 Hf)|].
    split; [intros [[Hf|Hf] _]; [exact (H3 Hf)|exact (H4 Hf)]|].
    intros tok r Hin _. apply H5. exact Hin.
  Qed.
  (* deliveries and re-deliveries: the executed input is never flagged, so only the pause condition remains *)
  Theorem wstep_paused_delivery w id gas (re : bool) a x :
    a <> SC ->
    (forall m, find_msg (inflight w) id = Some m ->
       let sh := shof (m_dest m) in
       let i := deliver_input c m sh gas in
       ~ (m_fn m = C.BuiltInFunctionESDTWipe /\ a = m_dest m /\ x = argn i 0)
       /\ ~ ((m_fn m = C.BuiltInFunctionESDTPause \/ m_fn m = C.BuiltInFunctionESDTUnPause) /\ a = SYS /\ x = argn i 0)
       /\ all_paused (named_tokens (m_fn m) i) (wst w sh) x) ->
    forall sh, shbal (wstep c w (if re then ORedeliver id gas else ODeliver id gas)) sh a (P ++ x) = shbal w sh a (P ++ x).
  Proof.
    intros Ha H. apply wstep_paused_no_balance_change; [exact Ha|].
    intros sh fn i o s' Hop _. apply op_exec_deliver in Hop as (m & Hf & -> & -> & ->).
    destruct (H m Hf) as (H1 & H2 & H3). split; [reflexivity|]. split; [exact H1|]. split; [exact H2|exact H3].
  Qed.

  (* ---- FROZEN, one step ---- *)
  Theorem wstep_frozen_no_balance_change w op sh a x :
    shfrozen w sh a (P ++ x) = true -> a <> SC ->
    (forall fn i o s', op_exec c w op = Some (sh, fn, i) -> exec (env_at c sh) fn i (wst w sh) = (Ok o, s') ->
       i_rae i = false
       /\ lookups_consistent (env_at c sh) fn i (wst w sh)
       /\ ~ (fn = C.BuiltInFunctionESDTWipe /\ a = i_rcpt i /\ x = argn i 0)
       /\ ~ ((fn = C.BuiltInFunctionESDTPause \/ fn = C.BuiltInFunctionESDTUnPause) /\ a = SYS /\ x = argn i 0)
       /\ ~ (fn = C.BuiltInFunctionESDTNFTCreate /\ a = i_caller i
             /\ x = argn i 0 ++ u64_bytes (create_nonce i (wst w sh)))) ->
    shbal (wstep c w op) sh a (P ++ x) = shbal w sh a (P ++ x).
  Proof.
    intros Hfr Ha H. unfold shbal. apply (wstep_obs (fun s => balance (env_at c sh) s a (P ++ x))).
    - intros s s' Hs. apply balance_accts. exact Hs.
    - intros fn i o s' Hop Ex. destruct (H _ _ _ _ Hop Ex) as (H1 & H2 & H3 & H4 & H5).
      exact (frozen_no_balance_change (env_at c sh) Hc fn i _ o s' a x Ex Hfr H1 Ha H2 H3 H4 H5).
  Qed.
  Theorem wstep_frozen_entry_untouched w op sh a x :
    shfrozen w sh a (P ++ x) = true -> a <> SC ->
    (forall fn i o s', op_exec c w op = Some (sh, fn, i) -> exec (env_at c sh) fn i (wst w sh) = (Ok o, s') ->
       i_rae i = false
       /\ lookups_consistent (env_at c sh) fn i (wst w sh)
       /\ fn <> C.BuiltInFunctionESDTFreeze /\ fn <> C.BuiltInFunctionESDTUnFreeze
       /\ ~ (fn = C.BuiltInFunctionESDTWipe /\ a = i_rcpt i /\ x = argn i 0)
       /\ ~ ((fn = C.BuiltInFunctionESDTPause \/ fn = C.BuiltInFunctionESDTUnPause) /\ a = SYS /\ x = argn i 0)
       /\ ~ (fn = C.BuiltInFunctionESDTNFTCreate /\ a = i_caller i
             /\ x = argn i 0 ++ u64_bytes (create_nonce i (wst w sh)))) ->
    shcell (wstep c w op) sh a (P ++ x) = shcell w sh a (P ++ x).
  Proof.
    intros Hfr Ha H. unfold shcell. apply (wstep_obs (fun s => cell s a (P ++ x))).
    - intros s s' Hs. apply cell_accts. exact Hs.
    - intros fn i o s' Hop Ex. destruct (H _ _ _ _ Hop Ex) as (H1 & H2 & N1 & N2 & H3 & H4 & H5).
      exact (frozen_entry_untouched (env_at c sh) Hc fn i _ o s' a x Ex Hfr H1 Ha H2 N1 N2 H3 H4 H5).
  Qed.

  (* ---- REFUNDS: executed with the return-after-error flag, so NO gate applies.  Exactly what they do, for a
     transfer message (msg_ok, as maintained by C01's WInv) on a shard without negative stored balances: the debited
     account gets back exactly what the message carries, whatever is frozen or paused; nothing else moves. ---- *)
  Theorem wstep_refund_effect w id gas m :
    find_msg (inflight w) id = Some m -> msg_ok c m -> accts_nonneg c (shard_accts w (shof (m_sender m))) ->
    exists ran : bool,
      (ran = true -> nat_in id (failed w) = true)
      /\ forall sh a k, shbal (wstep c w (ORefund id gas)) sh a k =
           (shbal w sh a k + (if (ran && (sh =? shof (m_sender m))%N && beqb a (m_sender m))%bool then qty c k m else 0))%Z.
  Proof.
    intros Hf Hm Hnn. set (sh0 := shof (m_sender m)).
    assert (Hoth : forall sh, sh <> sh0 -> shard_accts (wstep c w (ORefund id gas)) sh = shard_accts w sh).
    { intros sh Hne. apply wstep_other_shard. intros fn i Hop. apply op_exec_refund in Hop as (m' & Hf' & _ & Hs & _).
      rewrite Hf in Hf'. inversion Hf'; subst m'. exact (Hne Hs). }
    destruct (wstep_exec_cases w (ORefund id gas) sh0) as [He|(fn & i & o & s' & Hop & Ex & He)].
    - exists false. split; [discriminate|]. intros sh a k. cbn [andb]. rewrite Z.add_0_r. unfold shbal.
      apply balance_accts. apply wst_accts. destruct (N.eq_dec sh sh0) as [->|Hne]; [exact He|apply Hoth; exact Hne].
    - exists true. apply op_exec_refund in Hop as (m' & Hf' & Hfl & _ & -> & ->).
      rewrite Hf in Hf'. inversion Hf'; subst m'. split; [intros _; exact Hfl|].
      intros sh a k. cbn [andb]. destruct (N.eqb_spec sh sh0) as [->|Hne].
      + unfold shbal. rewrite (balance_accts (env_at c sh0) s' _ a k (wst_accts_of _ _ _ He)).
        exact (refund_credits_exact c Hc (shard_accts w sh0) m gas o s' Hnn Hm Ex a k).
      + cbn [andb]. rewrite Z.add_0_r. unfold shbal. apply balance_accts. apply wst_accts. apply Hoth. exact Hne.
  Qed.

  (* ================================================================================================ *)
  (* Part 2: histories                                                                                *)
  (* ================================================================================================ *)
  (* every call that succeeds on shard sh in the step / along the run satisfies Q (pre-state, function, input) *)
  Definition step_sat (Q : mstate -> bytes -> input -> Prop) (sh : N) (w : world) (op : wop) : Prop :=
    forall fn i o s', op_exec c w op = Some (sh, fn, i) -> exec (env_at c sh) fn i (wst w sh) = (Ok o, s') ->
                      Q (wst w sh) fn i.
  Fixpoint along (Q : mstate -> bytes -> input -> Prop) (sh : N) (w : world) (ops : list wop) : Prop :=
    match ops with
    | [] => True
    | op :: r => step_sat Q sh w op /\ along Q sh (wstep c w op) r
    end.
  Definition step_sat_b (Qb : mstate -> bytes -> input -> bool) (sh : N) (w : world) (op : wop) : bool :=
    match op_exec c w op with
    | Some (sh0, fn, i) =>
      if (sh0 =? sh)%N then
        match exec (env_at c sh0) fn i (wst w sh0) with
        | (Ok _, _) => Qb (wst w sh0) fn i
        | _ => true
        end
      else true
    | None => true
    end.
  Fixpoint along_b (Qb : mstate -> bytes -> input -> bool) (sh : N) (w : world) (ops : list wop) : bool :=
    match ops with
    | [] => true
    | op :: r => step_sat_b Qb sh w op && along_b Qb sh (wstep c w op) r
    end.
  Lemma along_b_ok (Q : mstate -> bytes -> input -> Prop) Qb sh : (forall s fn i, Qb s fn i = true -> Q s fn i) ->
    forall ops w, along_b Qb sh w ops = true -> along Q sh w ops.
  Proof.
    intros HQ. induction ops as [|op r IH]; intros w H; [exact I|]. cbn [along_b] in H. apply andb_prop in H as [H1 H2].
    split; [|apply IH; exact H2]. intros fn i o s' Hop Ex. unfold step_sat_b in H1. rewrite Hop, N.eqb_refl, Ex in H1.
    apply HQ. exact H1.
  Qed.
  Lemma along_impl (Q Q' : mstate -> bytes -> input -> Prop) sh : (forall s fn i, Q s fn i -> Q' s fn i) ->
    forall ops w, along Q sh w ops -> along Q' sh w ops.
  Proof.
    intros HQ. induction ops as [|op r IH]; intros w H; [exact I|]. destruct H as [H1 H2].
    split; [|apply IH; exact H2]. intros fn i o s' Hop Ex. apply HQ. eapply H1; eauto.
  Qed.
  Lemma along_app (Q : mstate -> bytes -> input -> Prop) sh ops1 ops2 w : along Q sh w (ops1 ++ ops2) <-> along Q sh w ops1 /\ along Q sh (wrun c w ops1) ops2.
  Proof.
    revert w. induction ops1 as [|op r IH]; intros w; cbn [app along].
    - split; [intros H; split; [exact I|exact H]|intros [_ H]; exact H].
    - rewrite wrun_cons, IH. tauto.
  Qed.

  (* an invariant of the state of shard sh that every successful Q-call preserves holds at the end of the run *)
  Lemma along_invariant (Q : mstate -> bytes -> input -> Prop) (Inv : mstate -> Prop) sh :
    (forall s s', accts s' = accts s -> Inv s -> Inv s') ->
    (forall fn i s o s', Inv s -> Q s fn i -> exec (env_at c sh) fn i s = (Ok o, s') -> Inv s') ->
    forall ops w, Inv (wst w sh) -> along Q sh w ops -> Inv (wst (wrun c w ops) sh).
  Proof.
    intros Hacc Hstep. induction ops as [|op r IH]; intros w Hi Hal; [exact Hi|]. destruct Hal as [H1 H2].
    rewrite wrun_cons. apply IH; [|exact H2].
    destruct (wstep_exec_cases w op sh) as [He|(fn & i & o & s' & Hop & Ex & He)].
    - eapply Hacc; [|exact Hi]. apply wst_accts. exact He.
    - eapply Hacc; [apply wst_accts_of; exact He|]. eapply Hstep; [exact Hi| |exact Ex]. eapply H1; eauto.
  Qed.

  (* ---- a paused interval ---- *)
  (* tok is paused on shard sh in w; along ops, every call that succeeds ON sh is pause_quiet (not flagged
     return-after-error - in particular no refund executes on sh -, no ESDTUnPause of tok, no ESDTWipe of the entry, ...):
     then tok is still paused on sh and the balance of account a under P ++ tok ++ r (r = [] : the fungible entry;
     r = nonce bytes: an NFT entry) on sh is what it was.  Operations on other shards are unrestricted. *)
  Theorem wrun_paused_interval sh tok r a ops w :
    a <> SC -> shpaused w sh (P ++ tok) = true ->
    along (fun _ => pause_quiet a (tok ++ r) tok) sh w ops ->
    shpaused (wrun c w ops) sh (P ++ tok) = true
    /\ shbal (wrun c w ops) sh a (P ++ tok ++ r) = shbal w sh a (P ++ tok ++ r).
  Proof.
    intros Ha Hp Hal. unfold shpaused, shbal.
    apply (along_invariant (fun _ => pause_quiet a (tok ++ r) tok)
             (fun s => paused_at s (P ++ tok) = true
                       /\ balance (env_at c sh) s a (P ++ tok ++ r) = balance (env_at c sh) (wst w sh) a (P ++ tok ++ r)) sh).
    - intros s s' Hs [H1 H2]. split.
      + rewrite <- H1. apply cell_paused_at. apply cell_accts. exact Hs.
      + rewrite <- H2. apply balance_accts. exact Hs.
    - intros fn i s o s' [H1 H2] HQ Ex.
      destruct (paused_interval_exec (env_at c sh) Hc fn i s o s' a tok r Ex Ha H1 HQ) as [H3 H4].
      split; [exact H3|]. rewrite H4. exact H2.
    - split; [exact Hp|reflexivity].
    - exact Hal.
  Qed.
  (* every account at once *)
  Corollary wrun_paused_interval_all sh tok r ops w :
    shpaused w sh (P ++ tok) = true ->
    along (fun _ => pause_quiet_all (tok ++ r) tok) sh w ops ->
    shpaused (wrun c w ops) sh (P ++ tok) = true
    /\ forall a, a <> SC -> shbal (wrun c w ops) sh a (P ++ tok ++ r) = shbal w sh a (P ++ tok ++ r).
  Proof.
    intros Hp Hal.
    assert (H : forall a, along (fun _ => pause_quiet a (tok ++ r) tok) sh w ops).
    { intros a. eapply along_impl; [|exact Hal]. intros s fn i HQ. apply pause_quiet_all_each. exact HQ. }
    split.
    - exact (proj1 (wrun_paused_interval sh tok r SYS ops w (fun e => SC_ne_SYS (eq_sym e)) Hp (H SYS))).
    - intros a Ha. exact (proj2 (wrun_paused_interval sh tok r a ops w Ha Hp (H a))).
  Qed.
  (* under identifiers of the protocol's shape no aliasing hypothesis is needed: every key nft_key (P ++ tok) n *)
  Corollary wrun_paused_interval_valid_ids sh tok n a ops w :
    valid_id tok -> a <> SC -> shpaused w sh (P ++ tok) = true ->
    along (fun _ fn i => pause_quiet_core a (tok ++ u64_bytes n) tok fn i /\ Forall valid_id (named_tokens fn i)) sh w ops ->
    shpaused (wrun c w ops) sh (P ++ tok) = true
    /\ shbal (wrun c w ops) sh a (nft_key (P ++ tok) n) = shbal w sh a (nft_key (P ++ tok) n).
  Proof.
    intros Hv Ha Hp Hal. rewrite nft_key_app. apply wrun_paused_interval; [exact Ha|exact Hp|].
    eapply along_impl; [|exact Hal]. intros s fn i [H1 H2]. split; [exact H1|].
    apply valid_ids_alias_free; assumption.
  Qed.

  (* ---- a frozen interval ---- *)
  Theorem wrun_frozen_interval sh a x ops w :
    a <> SC -> shfrozen w sh a (P ++ x) = true ->
    along (freeze_quiet (env_at c sh) a x) sh w ops ->
    shfrozen (wrun c w ops) sh a (P ++ x) = true
    /\ shbal (wrun c w ops) sh a (P ++ x) = shbal w sh a (P ++ x).
  Proof.
    intros Ha Hp Hal. unfold shfrozen, shbal.
    apply (along_invariant (freeze_quiet (env_at c sh) a x)
             (fun s => frozen_at (env_at c sh) s a (P ++ x) = true
                       /\ balance (env_at c sh) s a (P ++ x) = balance (env_at c sh) (wst w sh) a (P ++ x)) sh).
    - intros s s' Hs [H1 H2]. split.
      + rewrite <- H1. apply cell_frozen_at. apply cell_accts. exact Hs.
      + rewrite <- H2. apply balance_accts. exact Hs.
    - intros fn i s o s' [H1 H2] HQ Ex.
      destruct (frozen_interval_exec (env_at c sh) Hc fn i s o s' a x Ex Ha H1 HQ) as [H3 H4].
      split; [exact H3|]. rewrite H4. exact H2.
    - split; [exact Hp|reflexivity].
    - exact Hal.
  Qed.

  (* ---- pause ; quiet history ; unpause ---- *)
  (* a successful step commits the post-state of its call *)
  Lemma wstep_call_commit w sh fn i o s' :
    (sh <? wc_nshards c)%N = true -> (N.to_nat sh < length (shards w))%nat ->
    exec (env_at c sh) fn i (wst w sh) = (Ok o, s') ->
    shard_accts (wstep c w (OCall sh fn i)) sh = accts s'.
  Proof.
    intros Hsh Hlt Ex. pose proof (wstep_shape c w (OCall sh fn i)) as H. cbn [op_exec] in H. rewrite Hsh in H.
    destruct H as [_ H]. rewrite Ex in H. destruct H as [Hs _]. unfold shard_accts. rewrite Hs.
    apply nth_set_nth_eq. exact Hlt.
  Qed.
  (* the system contract pauses tok on shard sh, any quiet history follows, it unpauses: every balance of tok on sh is
     what it was before the pause, tok was paused all along and is not paused at the end *)
  Theorem pause_interval_unpause sh tok r a i1 i2 ops w :
    a <> SC -> ~ (a = SYS /\ r = []) ->
    (sh <? wc_nshards c)%N = true -> (N.to_nat sh < length (shards w))%nat ->
    let w1 := wstep c w (OCall sh C.BuiltInFunctionESDTPause i1) in
    let w2 := wrun c w1 ops in
    let w3 := wstep c w2 (OCall sh C.BuiltInFunctionESDTUnPause i2) in
    (exists o s', exec (env_at c sh) C.BuiltInFunctionESDTPause i1 (wst w sh) = (Ok o, s')) -> argn i1 0 = tok ->
    along (fun _ => pause_quiet a (tok ++ r) tok) sh w1 ops ->
    (exists o s', exec (env_at c sh) C.BuiltInFunctionESDTUnPause i2 (wst w2 sh) = (Ok o, s')) -> argn i2 0 = tok ->
    shpaused w1 sh (P ++ tok) = true /\ shpaused w2 sh (P ++ tok) = true /\ shpaused w3 sh (P ++ tok) = false
    /\ shbal w1 sh a (P ++ tok ++ r) = shbal w sh a (P ++ tok ++ r)
    /\ shbal w2 sh a (P ++ tok ++ r) = shbal w sh a (P ++ tok ++ r)
    /\ shbal w3 sh a (P ++ tok ++ r) = shbal w sh a (P ++ tok ++ r).
  Proof.
    intros Ha Hns Hsh Hlt w1 w2 w3 Ok1 Ht1 Hal Ok3 Ht2.
    assert (Hnk : ~ (a = SYS /\ tok ++ r = tok)).
    { intros [Hs Hk]. apply Hns. split; [exact Hs|]. rewrite <- (app_nil_r tok) in Hk at 2. apply app_inv_head in Hk. exact Hk. }
    assert (Hlen : forall ops0 w0, length (shards (wrun c w0 ops0)) = length (shards w0)).
    { induction ops0 as [|op r0 IH]; intros w0; [reflexivity|]. rewrite wrun_cons, IH.
      pose proof (wstep_shape c w0 op) as H. destruct (op_exec c w0 op) as [[[sh0 fn] i]|].
      - destruct H as [_ H]. destruct (exec (env_at c sh0) fn i (wst w0 sh0)) as [[o|e|] s']; destruct H as [-> _];
          [apply set_nth_length|reflexivity|reflexivity].
      - destruct H as [-> _]. reflexivity. }
    (* the pause step *)
    destruct Ok1 as (o1 & s1 & Ex1).
    pose proof (wstep_call_commit w sh _ i1 o1 s1 Hsh Hlt Ex1) as Hc1. fold w1 in Hc1.
    assert (Hp1 : shpaused w1 sh (P ++ tok) = true).
    { unfold shpaused. rewrite (cell_paused_at s1 _ _ (cell_accts _ _ _ _ (wst_accts_of _ _ _ Hc1))).
      pose proof Ex1 as Hx. rewrite exec_pause in Hx. apply pause_spec in Hx as (_ & tk & Hargs & _ & _ & Hpa & _).
      rewrite (argn0_single _ _ Hargs) in Ht1. subst tk. exact Hpa. }
    assert (Hb1 : shbal w1 sh a (P ++ tok ++ r) = shbal w sh a (P ++ tok ++ r)).
    { unfold shbal. rewrite (balance_accts (env_at c sh) s1 _ a _ (wst_accts_of _ _ _ Hc1)).
      apply cell_balance. eapply (pause_cells (env_at c sh)); [exact Ex1|left; reflexivity|].
      intros [Hs Hk]. apply Hnk. split; [exact Hs|]. rewrite Hk. exact Ht1. }
    (* the interval *)
    destruct (wrun_paused_interval sh tok r a ops w1 Ha Hp1 Hal) as [Hp2 Hb2]. fold w2 in Hp2, Hb2.
    (* the unpause step *)
    destruct Ok3 as (o3 & s3 & Ex3).
    assert (Hlt2 : (N.to_nat sh < length (shards w2))%nat).
    { unfold w2. rewrite Hlen. unfold w1. pose proof (wstep_shape c w (OCall sh C.BuiltInFunctionESDTPause i1)) as H.
      cbn [op_exec] in H. rewrite Hsh in H. destruct H as [_ H]. rewrite Ex1 in H. destruct H as [-> _].
      rewrite set_nth_length. exact Hlt. }
    pose proof (wstep_call_commit w2 sh _ i2 o3 s3 Hsh Hlt2 Ex3) as Hc3. fold w3 in Hc3.
    split; [exact Hp1|]. split; [exact Hp2|]. split; [|split; [exact Hb1|split; [rewrite Hb2; exact Hb1|]]].
    - unfold shpaused. rewrite (cell_paused_at s3 _ _ (cell_accts _ _ _ _ (wst_accts_of _ _ _ Hc3))).
      pose proof Ex3 as Hx. rewrite exec_unpause in Hx. apply pause_spec in Hx as (_ & tk & Hargs & _ & _ & Hpa & _).
      rewrite (argn0_single _ _ Hargs) in Ht2. subst tk. exact Hpa.
    - rewrite <- Hb1, <- Hb2. unfold shbal. rewrite (balance_accts (env_at c sh) s3 _ a _ (wst_accts_of _ _ _ Hc3)).
      apply cell_balance. eapply (pause_cells (env_at c sh)); [exact Ex3|right; reflexivity|].
      intros [Hs Hk]. apply Hnk. split; [exact Hs|]. rewrite Hk. exact Ht2.
  Qed.
End World.

Print Assumptions paused_interval_exec.
Print Assumptions frozen_interval_exec.
Print Assumptions wstep_paused_no_balance_change.
Print Assumptions wstep_paused_entry_untouched.
Print Assumptions wstep_paused_delivery.
Print Assumptions wstep_frozen_no_balance_change.
Print Assumptions wstep_frozen_entry_untouched.
Print Assumptions wstep_refund_effect.
Print Assumptions wrun_paused_interval.
Print Assumptions wrun_paused_interval_all.
Print Assumptions wrun_paused_interval_valid_ids.
Print Assumptions wrun_frozen_interval.
Print Assumptions pause_interval_unpause.

(* ================================================================================================ *)
(* Part 3: non-vacuity.  The two-shard world w0 of C01_Examples.v under ideal_codec: alice (shard 0) holds 5 TOK,    *)
(* carol (shard 0) 2, bob (shard 1) 7.  The system contract pauses TOK on shard 1 (the destination shard); alice      *)
(* sends 2 TOK to bob: the delivery is REFUSED (paused), the refund returns them; two sends by bob on shard 1 are      *)
(* refused, a re-delivery of the consumed message is skipped, a transfer on shard 0 (not paused there) goes through;  *)
(* then unpause on shard 1 and bob's transfer to alice succeeds and is delivered.                                     *)
(* ================================================================================================ *)
Definition sysin4 (rcpt : bytes) (args : list bytes) : input :=
  {| i_caller := SC; i_rcpt := rcpt; i_args := args; i_value := 0; i_gas := 100000; i_gasLocked := 0;
     i_callType := C.DirectCall; i_rae := false; i_snd := false; i_dst := true |}.
Definition h4_pause : wop := OCall 1 C.BuiltInFunctionESDTPause (sysin4 SYS [tokA]).
Definition h4_mid : list wop :=
  [ OCall 0 C.BuiltInFunctionESDTTransfer (mkin alice bob [tokA; u64_bytes 2] true false);     (* message 0 *)
    ODeliver 0 100000;                                                                          (* refused: paused on shard 1 *)
    ORefund 0 100000;                                                                           (* executes on shard 0 *)
    OCall 1 C.BuiltInFunctionESDTTransfer (mkin bob alice [tokA; u64_bytes 1] true false);      (* refused: paused *)
    OCall 1 C.BuiltInFunctionESDTTransfer (mkin bob dave [tokA; u64_bytes 1] true true);        (* refused: paused *)
    ORedeliver 0 100000;                                                                        (* consumed id: skipped *)
    OCall 0 C.BuiltInFunctionESDTTransfer (mkin alice carol [tokA; u64_bytes 1] true true) ].   (* shard 0 is not paused *)
Definition h4_unpause : wop := OCall 1 C.BuiltInFunctionESDTUnPause (sysin4 SYS [tokA]).
Definition h4_after : list wop :=
  [ OCall 1 C.BuiltInFunctionESDTTransfer (mkin bob alice [tokA; u64_bytes 1] true false);      (* message 1 *)
    ODeliver 1 100000 ].
Definition w4_1 : world := wstep c0 w0 h4_pause.
Definition w4_2 : world := wrun c0 w4_1 h4_mid.
Definition w4_3 : world := wstep c0 w4_2 h4_unpause.
Definition w4_4 : world := wrun c0 w4_3 h4_after.
(* (alice, carol, bob, in flight, failed) after every step of a run *)
Fixpoint trace4 (w : world) (ops : list wop) : list (Z * Z * Z * nat * list nat) :=
  match ops with
  | [] => []
  | op :: r => let w' := wstep c0 w op in
               (shbal c0 w' 0 alice kTok, shbal c0 w' 0 carol kTok, shbal c0 w' 1 bob kTok, length (inflight w'), failed w')
                 :: trace4 w' r
  end.
(* status of the call an operation attempts *)
Definition status4 (w : world) (op : wop) : option (res err unit) :=
  match op_exec c0 w op with
  | Some (sh, fn, i) => Some (match fst (exec (env_at c0 sh) fn i (wst w sh)) with Ok _ => Ok tt | Err e => Err e | Panic => Panic end)
  | None => None
  end.

(* the hypotheses, decided by computation: every call that succeeds on shard 1 along h4_mid is quiet *)
Example ex4_hypotheses :
  shpaused w4_1 1 (P ++ tokA) = true /\ shpaused w4_1 0 (P ++ tokA) = false
  /\ along_b c0 (fun _ => pause_quiet_all_b tokA tokA) 1 w4_1 h4_mid = true
  /\ along_b c0 (fun _ => pause_quiet_b bob (tokA ++ []) tokA) 1 w4_1 h4_mid = true
  /\ valid_id tokA.
Proof.
  split; [vm_compute; reflexivity|]. split; [vm_compute; reflexivity|]. split; [vm_compute; reflexivity|].
  split; [vm_compute; reflexivity|]. apply valid_id_b_sound. vm_compute. reflexivity.
Qed.
(* what happens, computed: message emitted (alice 5 -> 3), delivery refused and marked failed, refund (alice 5 again),
   refused sends, skipped re-delivery, alice -> carol on the unpaused shard *)
Example ex4_run :
  trace4 w4_1 h4_mid =
    [(3, 2, 7, 1%nat, []); (3, 2, 7, 1%nat, [0%nat]); (5, 2, 7, 0%nat, []); (5, 2, 7, 0%nat, []); (5, 2, 7, 0%nat, []);
     (5, 2, 7, 0%nat, []); (4, 3, 7, 0%nat, [])]%Z
  /\ status4 (wstep c0 w4_1 (nth 0 h4_mid h4_pause)) (ODeliver 0 100000) = Some (Err ETokenIsPaused)
  /\ status4 w4_1 (nth 3 h4_mid h4_pause) = Some (Err ETokenIsPaused)
  /\ status4 w4_1 (nth 4 h4_mid h4_pause) = Some (Err ETokenIsPaused)
  /\ status4 w4_2 h4_unpause = Some (Ok tt)
  /\ trace4 w4_3 h4_after = [(4, 3, 6, 1%nat, []); (5, 3, 6, 0%nat, [])]%Z
  /\ shpaused w4_2 1 (P ++ tokA) = true /\ shpaused w4_3 1 (P ++ tokA) = false.
Proof. vm_compute. repeat split; reflexivity. Qed.
(* the history theorem applies: TOK still paused on shard 1, every balance of TOK on shard 1 as before *)
Example ex4_interval :
  shpaused w4_2 1 (P ++ tokA) = true
  /\ forall a, a <> SC -> shbal c0 w4_2 1 a (P ++ tokA) = shbal c0 w4_1 1 a (P ++ tokA).
Proof.
  destruct ex4_hypotheses as (Hy1 & _ & Hy3 & _ & _).
  destruct (wrun_paused_interval_all c0 c0_ok 1 tokA [] h4_mid w4_1) as [H1 H2].
  - exact Hy1.
  - eapply along_b_ok; [|exact Hy3]. intros s fn i H. rewrite app_nil_r. apply pause_quiet_all_b_ok. exact H.
  - split; [exact H1|]. intros a Ha. specialize (H2 a Ha). rewrite app_nil_r in H2. exact H2.
Qed.
(* pause ; history ; unpause *)
Example ex4_pause_unpause :
  shbal c0 w4_3 1 bob (P ++ tokA) = shbal c0 w0 1 bob (P ++ tokA) /\ shbal c0 w0 1 bob (P ++ tokA) = 7%Z
  /\ shpaused w4_3 1 (P ++ tokA) = false.
Proof.
  destruct ex4_hypotheses as (_ & _ & _ & Hy4 & _).
  destruct (pause_interval_unpause c0 c0_ok 1 tokA [] bob (sysin4 SYS [tokA]) (sysin4 SYS [tokA]) h4_mid w0)
    as (_ & _ & H3 & _ & _ & H6).
  - intros H; vm_compute in H; discriminate H.
  - intros [H _]; vm_compute in H; discriminate H.
  - reflexivity.
  - cbn. lia.
  - eexists. eexists. vm_compute. reflexivity.
  - reflexivity.
  - eapply along_b_ok; [|exact Hy4]. intros s fn i H. apply pause_quiet_b_ok. exact H.
  - eexists. eexists. vm_compute. reflexivity.
  - reflexivity.
  - rewrite app_nil_r in H6. split; [exact H6|]. split; [vm_compute; reflexivity|exact H3].
Qed.

(* the return-after-error exception at world level: TOK paused on alice's shard AFTER her transfer was emitted, the
   delivery refused (bob's shard paused too): the refund executes on the paused shard 0, is flagged, passes the gate
   and credits alice (3 -> 5); such a history is not quiet for shard 0, and wstep_refund_effect says exactly what moved *)
Definition h4_rae : list wop :=
  [ OCall 0 C.BuiltInFunctionESDTTransfer (mkin alice bob [tokA; u64_bytes 2] true false);
    OCall 0 C.BuiltInFunctionESDTPause (sysin4 SYS [tokA]);
    ODeliver 0 100000 ].
Definition w4_r : world := wrun c0 w4_1 h4_rae.
Example ex4_refund_bypasses_pause :
  shpaused w4_r 0 (P ++ tokA) = true /\ failed w4_r = [0%nat]
  /\ shbal c0 w4_r 0 alice (P ++ tokA) = 3%Z
  /\ shbal c0 (wstep c0 w4_r (ORefund 0 100000)) 0 alice (P ++ tokA) = 5%Z
  /\ shpaused (wstep c0 w4_r (ORefund 0 100000)) 0 (P ++ tokA) = true
  /\ along_b c0 (fun _ => pause_quiet_b alice (tokA ++ []) tokA) 0 w4_r [ORefund 0 100000] = false
  /\ status4 w4_r (OCall 0 C.BuiltInFunctionESDTTransfer (mkin alice carol [tokA; u64_bytes 1] true true)) = Some (Err ETokenIsPaused).
Proof. vm_compute. repeat split; reflexivity. Qed.
Example ex4_refund_effect : exists m,
  find_msg (inflight w4_r) 0 = Some m /\ msg_ok c0 m /\ accts_nonneg c0 (shard_accts w4_r (wc_shard_of c0 (m_sender m)))
  /\ m_sender m = alice /\ qty c0 (P ++ tokA) m = 2%Z.
Proof.
  eexists. split; [vm_compute; reflexivity|]. split; [apply msg_ok_b_ok; vm_compute; reflexivity|].
  split; [apply accts_nonneg_b_ok; vm_compute; reflexivity|]. split; vm_compute; reflexivity.
Qed.

Print Assumptions ex4_interval.
Print Assumptions ex4_pause_unpause.
