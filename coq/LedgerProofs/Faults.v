(* C17 — a failing dependency is never reported as success.

   For an ARBITRARY environment E (any fault plan) every computation of the ledger model is
   [clean]: the dependency-call counter never decreases, and if some index n of the window
   [calls s, calls s') of dependency calls made by the run is planned to fail, then the run ends
   with [Err EFault] immediately after that call (calls s' = S n): not Ok, not Panic, not another
   error, and no further dependency call is made.  [clean] is compositional (ret/fail/panic/bind/
   guard/…/dep, case analysis, fixpoint loops), so the 23 functions are proved by one tactic. *)
From EV Require Import Base.Bytes Base.Store Base.Monad gen.Consts Codec.Types Helpers.Helpers
  Ledger.Types Ledger.Env Ledger.Funcs Ledger.Transfers.

Section Clean.
  Variable E : env.
  Notation MT := (@M err mstate).

  (* computations that make no dependency call at all *)
  Definition quiet {A} (m : MT A) : Prop := forall s, calls (snd (m s)) = calls s.

  Definition clean {A} (m : MT A) : Prop :=
    forall s r s', m s = (r, s') ->
      calls s <= calls s' /\
      forall n, calls s <= n < calls s' -> plan E n = true -> r = Err EFault /\ calls s' = S n.

  (* the formulation of the task text / DESIGN.md: monotone counter, and Ok only if no index of the window is planned to fail *)
  Definition clean_weak {A} (m : MT A) : Prop :=
    forall s r s', m s = (r, s') ->
      calls s <= calls s' /\
      (forall a, r = Ok a -> forall n, calls s <= n < calls s' -> plan E n = false).

  Lemma clean_clean_weak {A} (m : MT A) : clean m -> clean_weak m.
  Proof.
    intros C s r s' H. destruct (C _ _ _ H) as [L W]. split; [exact L|].
    intros a -> n Hn. destruct (plan E n) eqn:P; [|reflexivity].
    destruct (W n Hn P) as [X _]. discriminate.
  Qed.

  Lemma clean_quiet {A} (m : MT A) : quiet m -> clean m.
  Proof.
    intros Q s r s' H. specialize (Q s). rewrite H in Q. cbn [snd] in Q.
    split; [lia|]. intros n Hn. lia.
  Qed.

  (* ---- monad operations ---- *)
  Lemma quiet_ret {A} (a : A) : quiet (ret a : MT A).
  Proof. intros s. reflexivity. Qed.
  Lemma quiet_fail {A} e : quiet (fail e : MT A).
  Proof. intros s. reflexivity. Qed.
  Lemma quiet_panic {A} : quiet (panic : MT A).
  Proof. intros s. reflexivity. Qed.
  Lemma quiet_guard b e : quiet (guard b e : MT unit).
  Proof. intros s. destruct b; reflexivity. Qed.
  Lemma quiet_get : quiet (get : MT mstate).
  Proof. intros s. reflexivity. Qed.
  Lemma quiet_modify f : (forall s, calls (f s) = calls s) -> quiet (modify f : MT unit).
  Proof. intros H s. unfold modify. cbn [snd]. apply H. Qed.
  (* [put x] replaces the whole state, counter included: it is quiet only relative to the state it overwrites *)
  Lemma clean_put_same_calls (x : mstate) s r s' :
    (put x : MT unit) s = (r, s') -> calls x = calls s -> calls s' = calls s.
  Proof. unfold put. intros H; inversion H; subst. auto. Qed.
  Lemma quiet_lift_opt {A} (o : option A) e : quiet (lift_opt o e : MT A).
  Proof. intros s. destruct o; reflexivity. Qed.
  Lemma quiet_opt_or_panic {A} (o : option A) : quiet (opt_or_panic o : MT A).
  Proof. intros s. destruct o; reflexivity. Qed.

  Lemma quiet_bind {A B} (m : MT A) (f : A -> MT B) : quiet m -> (forall a, quiet (f a)) -> quiet (bind m f).
  Proof.
    intros Qm Qf s. unfold bind. specialize (Qm s). destruct (m s) as [[a|e|] s1]; cbn [snd] in *.
    - rewrite Qf. exact Qm.
    - exact Qm.
    - exact Qm.
  Qed.

  Lemma clean_bind {A B} (m : MT A) (f : A -> MT B) : clean m -> (forall a, clean (f a)) -> clean (bind m f).
  Proof.
    intros Hm Hf s r s' H. unfold bind in H. destruct (m s) as [[a|e|] s1] eqn:Em.
    - destruct (Hm _ _ _ Em) as [L1 W1]. destruct (Hf a _ _ _ H) as [L2 W2]. split; [lia|].
      intros n Hn Hp. destruct (Nat.lt_ge_cases n (calls s1)) as [Lt|Ge].
      + destruct (W1 n) as [X _]; [lia|exact Hp|]. discriminate.
      + apply W2; [lia|exact Hp].
    - inversion H; subst. destruct (Hm _ _ _ Em) as [L1 W1]. split; [exact L1|].
      intros n Hn Hp. destruct (W1 n Hn Hp) as [X Y]. inversion X; subst. split; [reflexivity|exact Y].
    - inversion H; subst. destruct (Hm _ _ _ Em) as [L1 W1]. split; [exact L1|].
      intros n Hn Hp. destruct (W1 n Hn Hp) as [X Y]. discriminate.
  Qed.

  (* ---- the fault point ---- *)
  Lemma clean_dep : clean (dep E).
  Proof.
    intros s r s' H. unfold dep in H.
    destruct (plan E (calls s)) eqn:P; inversion H; subst; cbn [calls]; (split; [lia|]); intros n Hn Hp.
    - split; [reflexivity|f_equal; lia].
    - assert (n = calls s) by lia. subst. congruence.
  Qed.

  (* ---- primitives that are not fault points ---- *)
  Lemma quiet_retrieve a k : quiet (retrieve a k).
  Proof. intros s. reflexivity. Qed.
  Lemma quiet_write_kv a k v : quiet (write_kv a k v).
  Proof. intros s. reflexivity. Qed.
  Lemma quiet_upd_acct a f : quiet (upd_acct a f).
  Proof. intros s. reflexivity. Qed.
  Lemma quiet_get_acct a : quiet (get_acct a).
  Proof. intros s. reflexivity. Qed.
  Lemma quiet_alloc n : quiet (alloc n).
  Proof. intros s. unfold alloc. destruct (_ <? _)%N; reflexivity. Qed.
  Lemma quiet_arg l i : quiet (arg l i).
  Proof. unfold arg. destruct (_ <? _)%N; [apply quiet_opt_or_panic|apply quiet_panic]. Qed.
  Lemma quiet_args_from l i : quiet (args_from l i).
  Proof. unfold args_from. destruct (_ <=? _)%N; [apply quiet_ret|apply quiet_panic]. Qed.
  Lemma quiet_val_of t : quiet (val_of t).
  Proof. apply quiet_opt_or_panic. Qed.
  Lemma quiet_meta_of t : quiet (meta_of t).
  Proof. apply quiet_opt_or_panic. Qed.

  Hint Resolve quiet_ret quiet_fail quiet_panic quiet_guard quiet_get quiet_lift_opt quiet_opt_or_panic
       quiet_retrieve quiet_write_kv quiet_upd_acct quiet_get_acct quiet_alloc quiet_arg quiet_args_from
       quiet_val_of quiet_meta_of clean_dep : clean.
  Hint Extern 3 (clean _) => apply clean_quiet : clean.

  (* one structural step: bind / case analysis at the head, leaves by the hint base *)
  Ltac clean_step :=
    lazymatch goal with
    | |- clean (bind _ _) => apply clean_bind; [|intros ?; cbv beta]
    | |- clean (if ?b then _ else _) => destruct b
    | |- clean (match ?x with _ => _ end) => destruct x
    | |- _ => solve [auto with clean]
    end.
  Ltac clean_tac := cbv beta zeta; repeat clean_step.

  (* ---- Env.v: dependency primitives ---- *)
  Lemma clean_save_kv a k v : clean (save_kv E a k v).
  Proof. unfold save_kv. clean_tac. Qed.
  Lemma clean_load_account a : clean (load_account E a).
  Proof. exact clean_dep. Qed.
  Lemma clean_save_account a : clean (save_account E a).
  Proof. exact clean_dep. Qed.
  Lemma clean_marshal_tok t : clean (marshal_tok E t).
  Proof. unfold marshal_tok. clean_tac. Qed.
  Lemma clean_unmarshal_tok b : clean (unmarshal_tok E b).
  Proof. unfold unmarshal_tok. clean_tac. Qed.
  Lemma clean_marshal_rol r : clean (marshal_rol E r).
  Proof. unfold marshal_rol. clean_tac. Qed.
  Lemma clean_unmarshal_rol b : clean (unmarshal_rol E b).
  Proof. unfold unmarshal_rol. clean_tac. Qed.
  Lemma clean_is_payable a : clean (is_payable E a).
  Proof. unfold is_payable. clean_tac. Qed.
  Hint Resolve clean_save_kv clean_load_account clean_save_account clean_marshal_tok clean_unmarshal_tok
       clean_marshal_rol clean_unmarshal_rol clean_is_payable : clean.

  (* ---- Env.v: shared helpers ---- *)
  Lemma clean_check_basic i : clean (check_basic i).
  Proof. unfold check_basic. clean_tac. Qed.
  Lemma clean_get_esdt_data a key : clean (get_esdt_data E a key).
  Proof. unfold get_esdt_data. clean_tac. Qed.
  Lemma clean_is_paused key : clean (is_paused key).
  Proof. unfold is_paused. clean_tac. Qed.
  Hint Resolve clean_check_basic clean_get_esdt_data clean_is_paused : clean.
  Lemma clean_check_froze_and_pause addr key t rae : clean (check_froze_and_pause addr key t rae).
  Proof. unfold check_froze_and_pause. clean_tac. Qed.
  Lemma clean_save_esdt_data a t key : clean (save_esdt_data E a t key).
  Proof. unfold save_esdt_data. clean_tac. Qed.
  Hint Resolve clean_check_froze_and_pause clean_save_esdt_data : clean.
  Lemma clean_add_to_esdt_balance a key delta rae : clean (add_to_esdt_balance E a key delta rae).
  Proof. unfold add_to_esdt_balance. clean_tac. Qed.
  Lemma clean_get_nft_on_destination a key nonce : clean (get_nft_on_destination E a key nonce).
  Proof. unfold get_nft_on_destination. clean_tac. Qed.
  Hint Resolve clean_add_to_esdt_balance clean_get_nft_on_destination : clean.
  Lemma clean_get_nft_on_sender a key nonce : clean (get_nft_on_sender E a key nonce).
  Proof. unfold get_nft_on_sender. clean_tac. Qed.
  Lemma clean_save_nft a key t rae : clean (save_nft E a key t rae).
  Proof. unfold save_nft. clean_tac. Qed.
  Lemma clean_get_latest_nonce a tok : clean (get_latest_nonce a tok).
  Proof. unfold get_latest_nonce. clean_tac. Qed.
  Lemma clean_save_latest_nonce a tok n : clean (save_latest_nonce E a tok n).
  Proof. unfold save_latest_nonce. clean_tac. Qed.
  Lemma clean_get_roles a key : clean (get_roles E a key).
  Proof. unfold get_roles. clean_tac. Qed.
  Hint Resolve clean_get_nft_on_sender clean_save_nft clean_get_latest_nonce clean_save_latest_nonce clean_get_roles : clean.
  Lemma clean_check_allowed snd a tok role : clean (check_allowed E snd a tok role).
  Proof. unfold check_allowed. clean_tac. Qed.
  Lemma clean_save_roles a key r : clean (save_roles E a key r).
  Proof. unfold save_roles. clean_tac. Qed.
  Hint Resolve clean_check_allowed clean_save_roles : clean.

  (* ---- Funcs.v ---- *)
  Lemma clean_check_local_action i cost : clean (check_local_action i cost).
  Proof. unfold check_local_action. clean_tac. Qed.
  Lemma clean_check_create_burn_add i cost : clean (check_create_burn_add i cost).
  Proof. unfold check_create_burn_add. clean_tac. Qed.
  Lemma clean_check_system_one_arg i : clean (check_system_one_arg i).
  Proof. unfold check_system_one_arg. clean_tac. Qed.
  Lemma clean_delete_create_role a key : clean (delete_create_role E a key).
  Proof. unfold delete_create_role. clean_tac. Qed.
  Lemma clean_add_create_role a key : clean (add_create_role E a key).
  Proof. unfold add_create_role. clean_tac. Qed.
  Hint Resolve clean_check_local_action clean_check_create_burn_add clean_check_system_one_arg
       clean_delete_create_role clean_add_create_role : clean.

  Lemma clean_f_local_mint i : clean (f_local_mint E i).
  Proof. unfold f_local_mint. clean_tac. Qed.
  Lemma clean_f_local_burn i : clean (f_local_burn E i).
  Proof. unfold f_local_burn. clean_tac. Qed.
  Lemma clean_f_esdt_burn i : clean (f_esdt_burn E i).
  Proof. unfold f_esdt_burn. clean_tac. Qed.
  Lemma clean_f_nft_create i : clean (f_nft_create E i).
  Proof. unfold f_nft_create. clean_tac. Qed.
  Lemma clean_f_nft_add_quantity i : clean (f_nft_add_quantity E i).
  Proof. unfold f_nft_add_quantity. clean_tac. Qed.
  Lemma clean_f_nft_burn i : clean (f_nft_burn E i).
  Proof. unfold f_nft_burn. clean_tac. Qed.
  Lemma clean_f_nft_add_uri i : clean (f_nft_add_uri E i).
  Proof. unfold f_nft_add_uri. clean_tac. Qed.
  Lemma clean_f_nft_update_attributes i : clean (f_nft_update_attributes E i).
  Proof. unfold f_nft_update_attributes. clean_tac. Qed.
  Lemma clean_f_freeze_wipe fr wi i : clean (f_freeze_wipe E fr wi i).
  Proof. unfold f_freeze_wipe. clean_tac. Qed.
  Lemma clean_f_pause p i : clean (f_pause E p i).
  Proof. unfold f_pause. clean_tac. Qed.
  Lemma clean_f_roles set i : clean (f_roles E set i).
  Proof. unfold f_roles. clean_tac. Qed.
  Lemma clean_f_create_role_transfer i : clean (f_create_role_transfer E i).
  Proof. unfold f_create_role_transfer. clean_tac. Qed.
  Lemma clean_f_change_owner i : clean (f_change_owner E i).
  Proof. unfold f_change_owner. clean_tac. Qed.
  Lemma clean_f_claim_rewards i : clean (f_claim_rewards E i).
  Proof. unfold f_claim_rewards. clean_tac. Qed.
  Lemma clean_f_set_user_name i : clean (f_set_user_name E i).
  Proof. unfold f_set_user_name. clean_tac. Qed.

  (* SaveKeyValue loop: the list is consumed two items at a time *)
  Lemma clean_skv_loop a g pairs :
    (forall use, clean (skv_loop E a g pairs use)) /\ (forall x use, clean (skv_loop E a g (x :: pairs) use)).
  Proof.
    induction pairs as [|y rest [IH1 IH2]].
    - split; intros; cbn [skv_loop]; clean_tac.
    - split; [intros use; apply IH2|].
      intros x use. cbn [skv_loop]. clean_tac; try apply IH1.
  Qed.
  Lemma clean_skv a g pairs use : clean (skv_loop E a g pairs use).
  Proof. apply clean_skv_loop. Qed.
  Hint Resolve clean_skv : clean.
  Lemma clean_f_save_key_value i : clean (f_save_key_value E i).
  Proof. unfold f_save_key_value. clean_tac. Qed.

  (* ---- Transfers.v ---- *)
  Lemma clean_check_payable v a : clean (check_payable E v a).
  Proof. unfold check_payable. clean_tac. Qed.
  Hint Resolve clean_check_payable : clean.
  Lemma clean_f_esdt_transfer i : clean (f_esdt_transfer E i).
  Proof. unfold f_esdt_transfer. clean_tac. Qed.
  Lemma clean_add_nft_to_destination dst key t v rae : clean (add_nft_to_destination E dst key t v rae).
  Proof. unfold add_nft_to_destination. clean_tac. Qed.
  Hint Resolve clean_add_nft_to_destination : clean.
  Lemma clean_f_nft_transfer_sender i : clean (f_nft_transfer_sender E i).
  Proof. unfold f_nft_transfer_sender. clean_tac. Qed.
  Hint Resolve clean_f_nft_transfer_sender : clean.
  Lemma clean_f_nft_transfer i : clean (f_nft_transfer E i).
  Proof. unfold f_nft_transfer. clean_tac. Qed.
  Lemma clean_transfer_one_sender sp c dl dst tok nonce q v rae :
    clean (transfer_one_sender E sp c dl dst tok nonce q v rae).
  Proof. unfold transfer_one_sender. clean_tac. Qed.
  Hint Resolve clean_transfer_one_sender : clean.
  Lemma clean_multi_sender_loop fuel i dl dst v : forall idx acc logs,
    clean (multi_sender_loop E fuel i dl dst v idx acc logs).
  Proof.
    induction fuel as [|f IH]; intros; cbn [multi_sender_loop]; clean_tac; try apply IH.
  Qed.
  Lemma clean_multi_out_args l : forall o acc, clean (multi_out_args E l o acc).
  Proof.
    induction l as [|[tok t] r IH]; intros; cbn [multi_out_args]; clean_tac; try apply IH.
  Qed.
  Lemma clean_multi_dest_loop fuel i minArgs : forall idx logs,
    clean (multi_dest_loop E fuel i minArgs idx logs).
  Proof.
    induction fuel as [|f IH]; intros; cbn [multi_dest_loop]; clean_tac; try apply IH.
  Qed.
  Hint Resolve clean_multi_sender_loop clean_multi_out_args clean_multi_dest_loop : clean.
  Lemma clean_f_multi_transfer_sender i : clean (f_multi_transfer_sender E i).
  Proof. unfold f_multi_transfer_sender. clean_tac. Qed.
  Hint Resolve clean_f_multi_transfer_sender : clean.
  Lemma clean_f_multi_transfer i : clean (f_multi_transfer E i).
  Proof. unfold f_multi_transfer. clean_tac. Qed.

  Hint Resolve clean_f_local_mint clean_f_local_burn clean_f_esdt_burn clean_f_nft_create clean_f_nft_add_quantity
       clean_f_nft_burn clean_f_nft_add_uri clean_f_nft_update_attributes clean_f_freeze_wipe clean_f_pause
       clean_f_roles clean_f_create_role_transfer clean_f_change_owner clean_f_claim_rewards clean_f_set_user_name
       clean_f_save_key_value clean_f_esdt_transfer clean_f_nft_transfer clean_f_multi_transfer : clean.

  Theorem clean_exec f i : clean (exec E f i).
  Proof. unfold exec. clean_tac. Qed.

  (* ---- the property ---- *)
  Theorem ok_implies_clean : forall f i s o s',
    exec E f i s = (Ok o, s') -> forall n, calls s <= n < calls s' -> plan E n = false.
  Proof.
    intros f i s o s' H n Hn. destruct (clean_clean_weak _ (clean_exec f i) _ _ _ H) as [_ W].
    exact (W o eq_refl n Hn).
  Qed.

  Theorem calls_monotone : forall f i s r s', exec E f i s = (r, s') -> calls s <= calls s'.
  Proof. intros f i s r s' H. apply (clean_exec f i _ _ _ H). Qed.

  (* a planned fault inside the window of dependency calls made by the run: the run ended with the
     injected error right after that call — in particular it is not Ok and not a panic *)
  Theorem fault_in_window_stops : forall f i s r s' k,
    exec E f i s = (r, s') -> calls s <= k < calls s' -> plan E k = true ->
    r = Err EFault /\ calls s' = S k.
  Proof. intros f i s r s' k H Hk Hp. exact (proj2 (clean_exec f i _ _ _ H) k Hk Hp). Qed.

  Theorem fault_in_window_not_ok : forall f i s r s' k,
    plan E k = true -> calls s <= k < calls s' -> exec E f i s = (r, s') -> forall o, r <> Ok o.
  Proof.
    intros f i s r s' k Hp Hk H o ->. destruct (fault_in_window_stops _ _ _ _ _ _ H Hk Hp) as [X _]. discriminate.
  Qed.
End Clean.

(* ---- the hint base and the tactic, re-exported for the files that build on this one ---- *)
#[export] Hint Resolve quiet_ret quiet_fail quiet_panic quiet_guard quiet_get quiet_lift_opt quiet_opt_or_panic
  quiet_retrieve quiet_write_kv quiet_upd_acct quiet_get_acct quiet_alloc quiet_arg quiet_args_from
  quiet_val_of quiet_meta_of clean_dep
  clean_save_kv clean_load_account clean_save_account clean_marshal_tok clean_unmarshal_tok
  clean_marshal_rol clean_unmarshal_rol clean_is_payable
  clean_check_basic clean_get_esdt_data clean_is_paused clean_check_froze_and_pause clean_save_esdt_data
  clean_add_to_esdt_balance clean_get_nft_on_destination clean_get_nft_on_sender clean_save_nft
  clean_get_latest_nonce clean_save_latest_nonce clean_get_roles clean_check_allowed clean_save_roles
  clean_check_local_action clean_check_create_burn_add clean_check_system_one_arg
  clean_delete_create_role clean_add_create_role clean_skv clean_check_payable clean_add_nft_to_destination
  clean_transfer_one_sender clean_multi_sender_loop clean_multi_out_args clean_multi_dest_loop
  clean_f_local_mint clean_f_local_burn clean_f_esdt_burn clean_f_nft_create clean_f_nft_add_quantity
  clean_f_nft_burn clean_f_nft_add_uri clean_f_nft_update_attributes clean_f_freeze_wipe clean_f_pause
  clean_f_roles clean_f_create_role_transfer clean_f_change_owner clean_f_claim_rewards clean_f_set_user_name
  clean_f_save_key_value clean_f_esdt_transfer clean_f_nft_transfer_sender clean_f_nft_transfer
  clean_f_multi_transfer_sender clean_f_multi_transfer clean_exec : clean.
#[export] Hint Extern 3 (clean _ _) => apply clean_quiet : clean.

Ltac clean_step :=
  lazymatch goal with
  | |- clean _ (bind _ _) => apply clean_bind; [|intros ?; cbv beta]
  | |- clean _ (if ?b then _ else _) => destruct b
  | |- clean _ (match ?x with _ => _ end) => destruct x
  | |- _ => solve [auto with clean]
  end.
Ltac clean_tac := cbv beta zeta; repeat clean_step.

Lemma clean_mono E {A} (m : @M err mstate A) : clean E m -> forall s r s', m s = (r, s') -> calls s <= calls s'.
Proof. intros C s r s' H. exact (proj1 (C s r s' H)). Qed.
