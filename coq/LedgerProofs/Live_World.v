(* C01, liveness half: what one ODeliver / ORefund step of Ledger/World.v does, for ANY of the three transfer functions,
   once the destination-side execution is known to succeed (or to be rejected).  The function-specific files
   (Live_Nft.v, Live_Multi.v; C01_Live.v for ESDTTransfer) supply "the execution succeeds".
     deliver_commits        execution Ok  =>  the step consumes the message, keeps the failed marks, emits nothing and
                            every balance of the world moves by exactly what the message credits to its destination
     deliver_rejected       execution not Ok  =>  nothing changes but the id is marked failed
     refund_commits         marked failed + refund execution Ok  =>  message consumed, mark removed, every balance moves
                            by exactly what the message credits, at the debited account
     rejected_then_refund   the two steps in sequence; totals are unchanged *)
From Coq.Strings Require Import String.
From EV Require Import Base.Bytes Base.Store Base.Monad gen.Consts Codec.Types Helpers.Helpers
  Ledger.Types Ledger.Env Ledger.Funcs Ledger.Transfers Ledger.World
  LedgerProofs.Defs LedgerProofs.EnvSpec LedgerProofs.WorldDefs LedgerProofs.WorldSpec
  LedgerProofs.Spec_Transfers_Base LedgerProofs.Spec_Transfers_Esdt LedgerProofs.Spec_Transfers_Nft
  LedgerProofs.Spec_Transfers_Multi LedgerProofs.Spec_Transfers
  LedgerProofs.C01_World LedgerProofs.C01_Step LedgerProofs.C01_Exact LedgerProofs.C01_Live.

Section LiveWorldGen.
  Variable c : wcfg.
  Hypothesis Hc : codec_ok (wc_cdc c).
  Notation shof := (wc_shard_of c).

  Lemma wbal_other_shard w sh m' ms fl nid a k : shof a <> sh ->
    wbal c (with_msgs (set_shard w sh m') ms fl nid) a k = wbal c w a k.
  Proof.
    intros Hne. unfold wbal. rewrite shard_accts_with_msgs, shard_accts_set_shard_ne by exact Hne. reflexivity.
  Qed.

  Lemma inflight_msg_ok w id m : WInv c w -> find_msg (inflight w) id = Some m -> msg_ok c m.
  Proof.
    intros Hinv Hfind. destruct (find_msg_In _ _ _ Hfind) as [Hin _].
    pose proof (wi_msgs c w Hinv) as Hall. rewrite Forall_forall in Hall. exact (Hall m Hin).
  Qed.

  Lemma nat_in_remove id l : nat_in id (nat_remove id l) = false.
  Proof.
    unfold nat_in, nat_remove. induction l as [|x r IH]; [reflexivity|].
    cbn [filter]. destruct (Nat.eqb x id) eqn:Ex; cbn [negb]; [exact IH|]. cbn [existsb]. rewrite Nat.eqb_sym, Ex. exact IH.
  Qed.

  (* ---- an accepted delivery ---- *)
  Theorem deliver_commits w id gas m o s' :
    let sh := shof (m_dest m) in
    WInv c w -> find_msg (inflight w) id = Some m -> (sh <? wc_nshards c)%N = true ->
    exec (env_at c sh) (m_fn m) (deliver_input c m sh gas) (mk_state (shard_accts w sh)) = (Ok o, s') ->
    let w' := wstep c w (ODeliver id gas) in
    inflight w' = drop_msg (inflight w) id /\ failed w' = failed w /\ next_id w' = next_id w
    /\ forall a k, wbal c w' a k = (wbal c w a k + (if beqb a (m_dest m) then qty c k m else 0))%Z.
  Proof.
    intros sh Hinv Hfind Hsh Hex. pose proof (inflight_msg_ok w id m Hinv Hfind) as Hm.
    pose proof (deliver_credits_exact c Hc (shard_accts w sh) m gas o s' (wi_nonneg c w Hinv sh) Hm Hex) as Hb.
    assert (Hsnd : i_snd (deliver_input c m sh gas) = false).
    { cbn [deliver_input i_snd]. apply N.eqb_neq. exact (mo_caller c m Hm). }
    assert (Hne : i_caller (deliver_input c m sh gas) <> i_rcpt (deliver_input c m sh gas)).
    { cbn [deliver_input i_caller i_rcpt]. intros He. apply (mo_caller c m Hm). rewrite He. reflexivity. }
    destruct (dest_side c Hc sh (shard_accts w sh) m (deliver_input c m sh gas) o s' (wi_nodup c w Hinv sh) (wi_nonneg c w Hinv sh) Hm
                eq_refl Hsnd eq_refl Hne Hex) as (_ & _ & _ & Hout).
    assert (Hcol : collect c sh (m_fn m) (deliver_input c m sh gas) (next_id w) o = []).
    { apply collect_all_local; [|left; reflexivity]. intros oa Hoa. rewrite (Hout oa Hoa). reflexivity. }
    cbv zeta. rewrite (wstep_deliver_ok c w id gas m o s' Hfind Hsh Hex). fold sh.
    rewrite Hcol, app_nil_r. split; [reflexivity|]. split; [reflexivity|]. split; [cbn; lia|].
    intros a k. destruct (N.eq_dec (shof a) sh) as [Ha|Ha].
    - rewrite (wbal_commit c w sh (accts s') _ _ _ a k s' (in_range c w sh Hinv Hsh) Ha eq_refl).
      rewrite Hb, wbal_state, Ha. reflexivity.
    - rewrite wbal_other_shard by exact Ha.
      destruct (beqb_spec a (m_dest m)) as [->|_]; [contradiction Ha; reflexivity|lia].
  Qed.

  (* ---- a rejected delivery ---- *)
  Lemma deliver_rejected w id gas m :
    let sh := shof (m_dest m) in
    find_msg (inflight w) id = Some m -> (sh <? wc_nshards c)%N = true ->
    (forall o s', exec (env_at c sh) (m_fn m) (deliver_input c m sh gas) (mk_state (shard_accts w sh)) <> (Ok o, s')) ->
    wstep c w (ODeliver id gas)
    = with_msgs w (inflight w) (if nat_in id (failed w) then failed w else id :: failed w) (next_id w).
  Proof.
    intros sh Hfind Hsh Hrej. cbn [wstep]. rewrite Hfind. fold sh. rewrite Hsh. cbn [negb]. unfold run_on.
    change {| accts := shard_accts w sh; calls := 0; allocs := 0 |} with (mk_state (shard_accts w sh)).
    destruct (exec (env_at c sh) (m_fn m) (deliver_input c m sh gas) (mk_state (shard_accts w sh))) as [[o|e|] s'] eqn:Ex;
      [exfalso; exact (Hrej o s' eq_refl)|reflexivity|reflexivity].
  Qed.
  Lemma marked_failed id l : nat_in id (if nat_in id l then l else id :: l) = true.
  Proof.
    destruct (nat_in id l) eqn:En; [exact En|]. unfold nat_in. cbn [existsb]. rewrite Nat.eqb_refl. reflexivity.
  Qed.

  (* ---- an accepted refund ---- *)
  Theorem refund_commits w id gas m o s' :
    let sh := shof (m_sender m) in
    WInv c w -> find_msg (inflight w) id = Some m -> nat_in id (failed w) = true -> (sh <? wc_nshards c)%N = true ->
    exec (env_at c sh) (m_fn m) (refund_input c m sh gas) (mk_state (shard_accts w sh)) = (Ok o, s') ->
    let w' := wstep c w (ORefund id gas) in
    w' = with_msgs (set_shard w sh (accts s')) (drop_msg (inflight w) id) (nat_remove id (failed w)) (next_id w)
    /\ inflight w' = drop_msg (inflight w) id /\ nat_in id (failed w') = false
    /\ forall a k, wbal c w' a k = (wbal c w a k + (if beqb a (m_sender m) then qty c k m else 0))%Z.
  Proof.
    intros sh Hinv Hfind Hfl Hsh Hex. pose proof (inflight_msg_ok w id m Hinv Hfind) as Hm.
    pose proof (refund_credits_exact c Hc (shard_accts w sh) m gas o s' (wi_nonneg c w Hinv sh) Hm Hex) as Hb.
    assert (Hw : wstep c w (ORefund id gas)
                 = with_msgs (set_shard w sh (accts s')) (drop_msg (inflight w) id) (nat_remove id (failed w)) (next_id w)).
    { cbn [wstep]. rewrite Hfind. fold sh. rewrite Hfl, Hsh. cbn [negb]. unfold run_on.
      change {| accts := shard_accts w sh; calls := 0; allocs := 0 |} with (mk_state (shard_accts w sh)). rewrite Hex. reflexivity. }
    cbv zeta. rewrite Hw. split; [reflexivity|]. split; [reflexivity|]. split; [apply nat_in_remove|].
    intros a k. destruct (N.eq_dec (shof a) sh) as [Ha|Ha].
    - rewrite (wbal_commit c w sh (accts s') _ _ _ a k s' (in_range c w sh Hinv Hsh) Ha eq_refl).
      rewrite Hb, wbal_state, Ha. reflexivity.
    - rewrite wbal_other_shard by exact Ha.
      destruct (beqb_spec a (m_sender m)) as [->|_]; [contradiction Ha; reflexivity|lia].
  Qed.

  (* ---- rejected delivery, then the return-after-error refund ---- *)
  Theorem rejected_then_refund w id gas gas' m :
    let shd := shof (m_dest m) in
    let shs := shof (m_sender m) in
    WInv c w -> find_msg (inflight w) id = Some m ->
    (shd <? wc_nshards c)%N = true -> (shs <? wc_nshards c)%N = true ->
    (forall o s', exec (env_at c shd) (m_fn m) (deliver_input c m shd gas) (mk_state (shard_accts w shd)) <> (Ok o, s')) ->
    (exists o s', exec (env_at c shs) (m_fn m) (refund_input c m shs gas') (mk_state (shard_accts w shs)) = (Ok o, s')) ->
    let w1 := wstep c w (ODeliver id gas) in
    let w2 := wstep c w1 (ORefund id gas') in
    (* after the rejection: same accounts, same messages, id marked failed *)
    shards w1 = shards w /\ inflight w1 = inflight w /\ nat_in id (failed w1) = true
    (* after the refund: message gone, mark removed, the debited account has exactly the message's credits back *)
    /\ inflight w2 = drop_msg (inflight w) id /\ nat_in id (failed w2) = false
    /\ (forall a k, wbal c w2 a k = (wbal c w a k + (if beqb a (m_sender m) then qty c k m else 0))%Z)
    /\ forall k, total c k w2 = total c k w.
  Proof.
    intros shd shs Hinv Hfind Hshd Hshs Hrej (o & s' & Hex).
    pose proof (deliver_rejected w id gas m Hfind Hshd Hrej) as Hw1.
    destruct (conservation_step c Hc w (ODeliver id gas) Hinv I I) as [Hinv1 Hk1].
    destruct (conservation_step c Hc _ (ORefund id gas') Hinv1 I I) as [_ Hk2].
    cbv zeta. cbv zeta in Hk2. rewrite Hw1 in *. set (w1 := with_msgs w (inflight w) _ (next_id w)) in *.
    assert (Hfl1 : nat_in id (failed w1) = true) by apply marked_failed.
    split; [reflexivity|]. split; [reflexivity|]. split; [exact Hfl1|].
    destruct (refund_commits w1 id gas' m o s' Hinv1 Hfind Hfl1 Hshs Hex) as (_ & Hi & Hf & Hb).
    split; [exact Hi|]. split; [exact Hf|]. split; [exact Hb|].
    intros k. rewrite Hk2, Hk1. reflexivity.
  Qed.
End LiveWorldGen.

Print Assumptions deliver_commits.
Print Assumptions rejected_then_refund.
